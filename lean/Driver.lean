import PyCraft.Drive.VarInt
import PyCraft.Drive.McHash
import PyCraft.Drive.Position
import PyCraft.Drive.Auth
import PyCraft.Drive.Cfb8
import PyCraft.Drive.Dispatch
import PyCraft.Drive.Negotiate
import PyCraft.Drive.Frame
import PyCraft.Drive.Trackers
import PyCraft.Drive.Login
import PyCraft.Drive.LoginWire
import PyCraft.Drive.HandshakeWire
import PyCraft.Drive.PlayWire
import PyCraft.Drive.SessionWire
import PyCraft.Drive.Play
import PyCraft.Drive.Versions
import PyCraft.Drive.Writers
import PyCraft.Drive.Packets
import PyCraft.Drive.Lifecycle
import PyCraft.Drive.Layout
import PyCraft.Drive.C09Clock
import PyCraft.Drive.C16Carry
import PyCraft.Drive.C19Seq
import PyCraft.Drive.C08Live
import PyCraft.Drive.C18Keys
import PyCraft.Drive.C05Dispatch
import PyCraft.Drive.C17Utf8
import PyCraft.Drive.C09Status
import PyCraft.Drive.VersionProfiles
import PyCraft.Drive.C14Compose
import PyCraft.Drive.C02Exact
import PyCraft.Drive.C20Live
import PyCraft.Drive.C05Nbt
import PyCraft.Drive.C10Inbound
import PyCraft.Drive.C20Maps
import PyCraft.Drive.C15Thread
import PyCraft.Drive.C06Dispatch
import PyCraft.Drive.C16Ends
import PyCraft.Drive.C11Errors
import PyCraft.Drive.C12Progress
import PyCraft.Drive.C13Roles
import PyCraft.Drive.C01Dispatch
import PyCraft.Drive.C04Codec
import PyCraft.Drive.C03Nominal
import PyCraft.Drive.PacketBuffer
/-!
Line-protocol driver over the executable definitions of the models.  One request per line, tokens
separated by single spaces, byte strings hex-encoded (`-` = empty).  One canonical reply per line.
Anything unparsable yields `bad-op` (never a default value).
-/
open PyCraft PyCraft.Drive

def handlers : List (List String → Option String) := [varint, mchash, position, auth, cfb8, dispatch, negotiate, Drive.frame, trackers, login, play, versions, writers, packets, lifecycle, Drive.layout, Drive.wireReal, Drive.loginwire, Drive.hswire, Drive.playwire, Drive.sessionwire, Drive.c03nominal, Drive.c04codec, Drive.c01dispatch, Drive.roles, Drive.c12progress, Drive.playerr, Drive.c16ends, Drive.c06dispatch, Drive.c15thread, Drive.c20maps, Drive.c10inbound, Drive.nbt, Drive.c20live, Drive.c02exact, Drive.c14compose, Drive.vprofile, Drive.c09status, Drive.c17utf8, Drive.c05dispatch, Drive.c18keys, Drive.verref, Drive.c19seq, Drive.c16carry, Drive.c09clock, Drive.pbuf, Drive.pbufRp]

def handle (toks : List String) : String :=
  match handlers.findSome? (· toks) with
  | some r => r
  | none => "bad-op"

partial def loop (h : IO.FS.Stream) (out : IO.FS.Stream) : IO Unit := do
  let line ← h.getLine
  if line.isEmpty then return ()
  let toks := (line.trimAscii.toString.splitOn " ").filter (· ≠ "")
  out.putStrLn (handle toks)
  loop h out

def main : IO Unit := do
  let out ← IO.getStdout
  loop (← IO.getStdin) out
  out.flush
