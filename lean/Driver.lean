import PyCraft.Drive.VarInt
import PyCraft.Drive.McHash
import PyCraft.Drive.Position
import PyCraft.Drive.Auth
import PyCraft.Drive.Cfb8
import PyCraft.Drive.Dispatch
import PyCraft.Drive.Negotiate
import PyCraft.Drive.Frame
import PyCraft.Drive.Trackers
import PyCraft.Drive.Login
import PyCraft.Drive.LoginWire
import PyCraft.Drive.HandshakeWire
import PyCraft.Drive.PlayWire
import PyCraft.Drive.SessionWire
import PyCraft.Drive.Play
import PyCraft.Drive.Versions
import PyCraft.Drive.Writers
import PyCraft.Drive.Packets
import PyCraft.Drive.Lifecycle
import PyCraft.Drive.Layout
import PyCraft.Drive.C04Codec
import PyCraft.Drive.C03Nominal
/-!
Line-protocol driver over the executable definitions of the models.  One request per line, tokens
separated by single spaces, byte strings hex-encoded (`-` = empty).  One canonical reply per line.
Anything unparsable yields `bad-op` (never a default value).
-/
open PyCraft PyCraft.Drive

def handlers : List (List String → Option String) := [varint, mchash, position, auth, cfb8, dispatch, negotiate, Drive.frame, trackers, login, play, versions, writers, packets, lifecycle, Drive.layout, Drive.wireReal, Drive.loginwire, Drive.hswire, Drive.playwire, Drive.sessionwire, Drive.c03nominal, Drive.c04codec]

def handle (toks : List String) : String :=
  match handlers.findSome? (· toks) with
  | some r => r
  | none => "bad-op"

partial def loop (h : IO.FS.Stream) (out : IO.FS.Stream) : IO Unit := do
  let line ← h.getLine
  if line.isEmpty then return ()
  let toks := (line.trimAscii.toString.splitOn " ").filter (· ≠ "")
  out.putStrLn (handle toks)
  loop h out

def main : IO Unit := do
  let out ← IO.getStdout
  loop (← IO.getStdin) out
  out.flush
