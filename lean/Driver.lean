import PyCraft
/-!
Line-protocol driver over the executable definitions of the models.  One request per line, tokens
separated by single spaces, byte strings hex-encoded (`-` = empty).  One canonical reply per line.
Anything unparsable yields `bad-op` (never a default value).
-/
open PyCraft

def exc {α} (f : α → String) : Except Err α → String
  | .ok a => "ok " ++ f a
  | .error e => "err:" ++ toString e

def handle (toks : List String) : String :=
  match toks with
  | ["varint.enc", n] =>
    match n.toInt? with
    | some v => exc hexOut (encVarIntZ v)
    | none => "bad-op"
  | ["varint.dec", mx, h] =>
    match mx.toNat?, bytesOfHex h with
    | some mx, some bs =>
      exc (fun (p : Nat × Bytes) => s!"{p.1} {hexOut p.2}") (decVarInt mx bs)
        ++ s!" reads={decVarIntReads mx 0 bs}"
    | _, _ => "bad-op"
  | ["varint.size", n] =>
    match n.toInt? with
    | some v => exc toString (varintSize v)
    | none => "bad-op"
  | _ => "bad-op"

partial def loop (h : IO.FS.Stream) (out : IO.FS.Stream) : IO Unit := do
  let line ← h.getLine
  if line.isEmpty then return ()
  let toks := (line.trimAscii.toString.splitOn " ").filter (· ≠ "")
  out.putStrLn (handle toks)
  loop h out

def main : IO Unit := do
  let out ← IO.getStdout
  loop (← IO.getStdin) out
  out.flush
