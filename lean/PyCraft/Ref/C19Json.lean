import PyCraft.Model.C19Json
/-!
An independent JSON *decoder* written from RFC 8259 (grammar of section 2-7), used as the reference
for "the body that was posted is JSON and says …": it shares nothing with the encoder model
`Json.dumps` (`Model/C19Json.lean`) except the type of values.

Accepted: insignificant whitespace (space, LF, CR, TAB) around every structural character and
value; `null`, `true`, `false`; integers `-?(0|[1-9][0-9]*)`; strings with the escapes `\" \\ \/ \b
\f \n \r \t \uXXXX` (either case of hex digits; a UTF-16 surrogate pair `\uD8xx\uDCxx` is one
character), unescaped characters from U+0020 on; arrays; objects with string keys.
Rejected (`none`): anything else — in particular fractions and exponents (numbers are integers in
this project, `Model/C19Json.lean`), leading zeros, lone surrogates, control characters inside
strings, trailing commas, trailing garbage.  Duplicate keys are kept in order of appearance.
-/
namespace PyCraft.Ref.Json
open PyCraft PyCraft.Json

def isWs (c : Char) : Bool := c = ' ' || c = '\n' || c = '\r' || c = '\t'

/-- `ws = *( %x20 / %x09 / %x0A / %x0D )` -/
def skipWs : List Char → List Char
  | [] => []
  | c :: r => if isWs c then skipWs r else c :: r

/-- Four hex digits (`4HEXDIG`). -/
def hex4Val (a b c d : Char) : Option Nat :=
  match hexVal a, hexVal b, hexVal c, hexVal d with
  | some x, some y, some z, some w => some (4096 * x + 256 * y + 16 * z + w)
  | _, _, _, _ => none

/-- The one-character escapes: `\" \\ \/ \b \f \n \r \t`. -/
def unescape (e : Char) : Option Char :=
  if e = '"' then some '"'
  else if e = '\\' then some '\\'
  else if e = '/' then some '/'
  else if e = 'b' then some (Char.ofNat 8)
  else if e = 'f' then some (Char.ofNat 12)
  else if e = 'n' then some '\n'
  else if e = 'r' then some '\r'
  else if e = 't' then some '\t'
  else none

/-- The characters of a string after its opening quotation mark, up to and including the closing
one: the decoded characters and the rest of the input. -/
def parseStrBody : List Char → Option (List Char × List Char)
  | [] => none
  | c :: r =>
    if c = '"' then some ([], r)
    else if c = '\\' then
      match r with
      | [] => none
      | e :: r1 =>
        if e = 'u' then
          match r1 with
          | a :: b :: c' :: d :: r2 =>
            match hex4Val a b c' d with
            | none => none
            | some hi =>
              if 0xd800 ≤ hi ∧ hi < 0xdc00 then
                -- high surrogate: a low surrogate must follow
                match r2 with
                | b1 :: u1 :: a' :: b' :: c'' :: d' :: r3 =>
                  if b1 = '\\' ∧ u1 = 'u' then
                    match hex4Val a' b' c'' d' with
                    | none => none
                    | some lo =>
                      if 0xdc00 ≤ lo ∧ lo < 0xe000 then
                        match parseStrBody r3 with
                        | none => none
                        | some (s, rest) =>
                          some (Char.ofNat (0x10000 + (hi - 0xd800) * 0x400 + (lo - 0xdc00)) :: s, rest)
                      else none
                  else none
                | _ => none
              else if 0xdc00 ≤ hi ∧ hi < 0xe000 then none      -- lone low surrogate
              else
                match parseStrBody r2 with
                | none => none
                | some (s, rest) => some (Char.ofNat hi :: s, rest)
          | _ => none
        else
          match unescape e with
          | none => none
          | some ch =>
            match parseStrBody r1 with
            | none => none
            | some (s, rest) => some (ch :: s, rest)
    else if c.toNat < 0x20 then none
    else
      match parseStrBody r with
      | none => none
      | some (s, rest) => some (c :: s, rest)

/-- The maximal run of decimal digits at the front. -/
def spanDigits : List Char → List Char × List Char
  | [] => ([], [])
  | c :: r => if c.isDigit then ((spanDigits r).1.cons c, (spanDigits r).2) else ([], c :: r)

/-- `int = zero / ( digit1-9 *DIGIT )` not followed by `frac` or `exp`. -/
def parseNat (cs : List Char) : Option (Nat × List Char) :=
  match spanDigits cs with
  | ([], _) => none
  | (d :: ds, rest) =>
    if d = '0' ∧ ds ≠ [] then none
    else
      match rest with
      | c :: _ => if c = '.' ∨ c = 'e' ∨ c = 'E' then none else some (Nat.ofDigitChars 10 (d :: ds) 0, rest)
      | [] => some (Nat.ofDigitChars 10 (d :: ds) 0, rest)

/-- `number = [ minus ] int` -/
def parseNum : List Char → Option (JVal × List Char)
  | [] => none
  | c :: r =>
    if c = '-' then
      match parseNat r with
      | some (n, rest) => some (.num (-(n : Int)), rest)
      | none => none
    else
      match parseNat (c :: r) with
      | some (n, rest) => some (.num (n : Int), rest)
      | none => none

mutual
/-- `value`, with leading whitespace; `fuel` bounds the nesting depth plus the number of items. -/
def parseVal : Nat → List Char → Option (JVal × List Char)
  | 0, _ => none
  | f + 1, cs =>
    match skipWs cs with
    | [] => none
    | c :: r =>
      if c = 'n' then
        match r with
        | 'u' :: 'l' :: 'l' :: r' => some (.null, r')
        | _ => none
      else if c = 't' then
        match r with
        | 'r' :: 'u' :: 'e' :: r' => some (.bool true, r')
        | _ => none
      else if c = 'f' then
        match r with
        | 'a' :: 'l' :: 's' :: 'e' :: r' => some (.bool false, r')
        | _ => none
      else if c = '"' then
        match parseStrBody r with
        | some (s, r') => some (.str (String.ofList s), r')
        | none => none
      else if c = '[' then
        match skipWs r with
        | [] => none
        | c1 :: r1 =>
          if c1 = ']' then some (.arr [], r1)
          else
            match parseElems f (c1 :: r1) with
            | some (xs, r') => some (.arr xs, r')
            | none => none
      else if c = '{' then
        match skipWs r with
        | [] => none
        | c1 :: r1 =>
          if c1 = '}' then some (.obj [], r1)
          else
            match parseMembers f (c1 :: r1) with
            | some (kvs, r') => some (.obj kvs, r')
            | none => none
      else parseNum (c :: r)
/-- `value *( value-separator value ) end-array` -/
def parseElems : Nat → List Char → Option (List JVal × List Char)
  | 0, _ => none
  | f + 1, cs =>
    match parseVal f cs with
    | none => none
    | some (v, r) =>
      match skipWs r with
      | [] => none
      | c :: r' =>
        if c = ',' then
          match parseElems f r' with
          | some (vs, r'') => some (v :: vs, r'')
          | none => none
        else if c = ']' then some ([v], r')
        else none
/-- `member *( value-separator member ) end-object`, `member = string name-separator value` -/
def parseMembers : Nat → List Char → Option (List (String × JVal) × List Char)
  | 0, _ => none
  | f + 1, cs =>
    match skipWs cs with
    | [] => none
    | q :: r =>
      if q = '"' then
        match parseStrBody r with
        | none => none
        | some (k, r1) =>
          match skipWs r1 with
          | [] => none
          | c :: r2 =>
            if c = ':' then
              match parseVal f r2 with
              | none => none
              | some (v, r3) =>
                match skipWs r3 with
                | [] => none
                | c' :: r4 =>
                  if c' = ',' then
                    match parseMembers f r4 with
                    | some (m, r5) => some ((String.ofList k, v) :: m, r5)
                    | none => none
                  else if c' = '}' then some ([(String.ofList k, v)], r4)
                  else none
            else none
      else none
end

/-- `JSON-text = ws value ws`: the whole input is one value. -/
def parseJson (s : String) : Option JVal :=
  match parseVal (s.toList.length + 1) s.toList with
  | some (v, rest) => if skipWs rest = [] then some v else none
  | none => none

end PyCraft.Ref.Json
