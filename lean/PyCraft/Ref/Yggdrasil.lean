import PyCraft.Model.C19Json
/-!
The legacy Mojang "Yggdrasil" authentication API as PUBLISHED (wiki.vg, pages "Authentication"
— the page the docstring of `AuthenticationToken` points to — and "Protocol Encryption" for the
session-server `join`), written down independently of `minecraft/authentication.py` and of its model
(`Model/C19Seq.lean`): nothing here is computed from the code's constants.  The text was transcribed
from memory of those pages (the build machine has no network access); every URL is written out in
full instead of being assembled from a base and an endpoint name.

Documented, per operation: the URL, that the request is an HTTP `POST` with header
`Content-Type: application/json` whose body is a JSON object, the members of that object (name,
whether optional, shape of the value), and the status of the success reply.  Documented for every
failure: a JSON object `{"error": <short description>, "errorMessage": <longer description>,
"cause": <optional>}`.
-/
namespace PyCraft.Ref.Yggdrasil
open PyCraft.Json

inductive OpKind
  | authenticate | refresh | validate | invalidate | signout | join
deriving DecidableEq, Repr

/-- "All requests to Yggdrasil are made to the following server: https://authserver.mojang.com …
the endpoints are /authenticate, /refresh, /validate, /signout, /invalidate"; the join request goes
to "https://sessionserver.mojang.com/session/minecraft/join". -/
def url : OpKind → String
  | .authenticate => "https://authserver.mojang.com/authenticate"
  | .refresh => "https://authserver.mojang.com/refresh"
  | .validate => "https://authserver.mojang.com/validate"
  | .invalidate => "https://authserver.mojang.com/invalidate"
  | .signout => "https://authserver.mojang.com/signout"
  | .join => "https://sessionserver.mojang.com/session/minecraft/join"

/-- "…they expect a … JSON-encoded dictionary … as payload … sent via HTTP POST" -/
def httpMethod : String := "POST"

/-- "with the Content-Type header set to application/json" -/
def contentType : String := "application/json"

/-- Shape of a documented member value. -/
inductive Shape
  | string            -- a JSON string
  | boolean
  | agent             -- `{"name": "Minecraft", "version": 1}`
  | profile           -- `{"id": <string>, "name": <string>}` (refresh's optional `selectedProfile`)
deriving DecidableEq, Repr

def isStr : JVal → Bool
  | .str _ => true
  | _ => false

def Shape.ok : Shape → JVal → Bool
  | .string, v => isStr v
  | .boolean, .bool _ => true
  | .boolean, _ => false
  | .agent, v => v == .obj [("name", .str "Minecraft"), ("version", .num 1)]
  | .profile, .obj [("id", i), ("name", n)] => isStr i && isStr n
  | .profile, _ => false

structure Field where
  name : String
  optional : Bool
  shape : Shape
deriving DecidableEq, Repr

/-- The documented request payloads.

* authenticate: `agent` (`{"name": "Minecraft", "version": 1}`), `username`, `password`,
  `clientToken` (optional: "if omitted the server generates one and invalidates all existing
  tokens"), `requestUser` (optional).
* refresh: `accessToken`, `clientToken` ("needs to be identical to the one used to obtain the
  accessToken"), `selectedProfile` (optional), `requestUser` (optional).
* validate: `accessToken`, `clientToken` (optional).
* signout: `username`, `password`.   invalidate: `accessToken`, `clientToken`.
* join: `accessToken`, `selectedProfile` — "the player's uuid without dashes", A STRING —,
  `serverId`. -/
def documented : OpKind → List Field
  | .authenticate =>
    [⟨"agent", false, .agent⟩, ⟨"username", false, .string⟩, ⟨"password", false, .string⟩,
     ⟨"clientToken", true, .string⟩, ⟨"requestUser", true, .boolean⟩]
  | .refresh =>
    [⟨"accessToken", false, .string⟩, ⟨"clientToken", false, .string⟩,
     ⟨"selectedProfile", true, .profile⟩, ⟨"requestUser", true, .boolean⟩]
  | .validate => [⟨"accessToken", false, .string⟩, ⟨"clientToken", true, .string⟩]
  | .invalidate => [⟨"accessToken", false, .string⟩, ⟨"clientToken", false, .string⟩]
  | .signout => [⟨"username", false, .string⟩, ⟨"password", false, .string⟩]
  | .join =>
    [⟨"accessToken", false, .string⟩, ⟨"selectedProfile", false, .string⟩,
     ⟨"serverId", false, .string⟩]

/-- Status of the documented success reply: a JSON result (`200`) for authenticate and refresh,
"an empty payload (204 No Content)" for the four others. -/
def successStatus : OpKind → Nat
  | .authenticate | .refresh => 200
  | .validate | .invalidate | .signout | .join => 204

def keysDistinct : List (String × JVal) → Bool
  | [] => true
  | (k, _) :: rest => !(rest.any (·.1 == k)) && keysDistinct rest

/-- A JSON value is a documented payload of `k`: an object without repeated keys, every member is a
documented field of the documented shape, every non-optional field is present. -/
def conforms (k : OpKind) (j : JVal) : Bool :=
  match j with
  | .obj kvs =>
    keysDistinct kvs &&
    kvs.all (fun (name, v) => (documented k).any (fun f => f.name == name && f.shape.ok v)) &&
    (documented k).all (fun f => f.optional || kvs.any (·.1 == f.name))
  | _ => false

/-- The documented error reply: an object with string members `error`, `errorMessage` and optionally
a string `cause` → `(error, errorMessage, cause)`. -/
def errorReplySpec (j : JVal) : Option (String × String × Option String) :=
  match j with
  | .obj kvs =>
    match kvs.lookup "error", kvs.lookup "errorMessage", kvs.lookup "cause" with
    | some (.str e), some (.str m), none => some (e, m, none)
    | some (.str e), some (.str m), some (.str c) => some (e, m, some c)
    | _, _, _ => none
  | _ => none

/-- The success result of authenticate / refresh as far as a client must read it:
`{"accessToken": <string>, "clientToken": <string>, "selectedProfile": {"id": <string>,
"name": <string>}, …}` → `(accessToken, clientToken, id, name)`.  (`selectedProfile` is documented
as absent for an account without a game profile; `availableProfiles`, `user` may be present.) -/
def resultReplySpec (j : JVal) : Option (String × String × String × String) :=
  match j with
  | .obj kvs =>
    match kvs.lookup "accessToken", kvs.lookup "clientToken", kvs.lookup "selectedProfile" with
    | some (.str a), some (.str c), some (.obj sp) =>
      match sp.lookup "id", sp.lookup "name" with
      | some (.str i), some (.str n) => some (a, c, i, n)
      | _, _ => none
    | _, _, _ => none
  | _ => none

end PyCraft.Ref.Yggdrasil
