import PyCraft.Model.Records
/-! Helper lemmas for `MutableRecord`, `Vector` and the attribute aliases (property C20). -/
namespace PyCraft.Records

variable {Val : Type}

/-! ### lookups -/

theorem lookup_cons_self (n : String) (x : β) (l : List (String × β)) :
    List.lookup n ((n, x) :: l) = some x := by
  simp

theorem lookup_cons_ne (n m : String) (x : β) (l : List (String × β)) (h : n ≠ m) :
    List.lookup n ((m, x) :: l) = List.lookup n l := by
  have : (n == m) = false := by simpa using h
  simp [List.lookup_cons, this]

/-- A present key is found (with the value of its first occurrence). -/
theorem lookup_isSome_of_mem (n : String) (l : List (String × β)) (h : n ∈ l.map Prod.fst) :
    ∃ x, List.lookup n l = some x ∧ (n, x) ∈ l := by
  induction l with
  | nil => simp at h
  | cons q qs ih =>
    obtain ⟨m, y⟩ := q
    by_cases e : n = m
    · subst e; exact ⟨y, lookup_cons_self .., by simp⟩
    · have hm : n ∈ qs.map Prod.fst := by
        simp only [List.map_cons, List.mem_cons] at h
        exact h.resolve_left e
      obtain ⟨x, h1, h2⟩ := ih hm
      exact ⟨x, by rw [lookup_cons_ne _ _ _ _ e]; exact h1, List.mem_cons_of_mem _ h2⟩

/-! ### MutableRecord.__eq__ -/

theorem getSlot_ok_iff (r : Rec Val) (n : String) (v : Val) :
    getSlot r n = .ok v ↔ List.lookup n r.slots = some (some v) := by
  unfold getSlot
  split
  · rename_i w hw; rw [hw]; simp
  · rename_i hne
    constructor
    · intro h; cases h
    · intro h; exact absurd h (hne v)


section eq
variable [DecidableEq Val]

/-- The `all(...)` loop returns `True` exactly when every listed slot is set on both sides to the
same value. -/
theorem allSlotsEq_true_iff (a b : Rec Val) (sl : List (String × Option Val)) :
    allSlotsEq a b sl = .ok true ↔
      ∀ n ∈ sl.map Prod.fst, ∃ v, getSlot a n = .ok v ∧ getSlot b n = .ok v := by
  induction sl with
  | nil => simp [allSlotsEq]
  | cons s rest ih =>
    obtain ⟨n, o⟩ := s
    simp only [List.map_cons, List.forall_mem_cons]
    unfold allSlotsEq
    rw [← ih]
    cases ha : getSlot a n with
    | error e => simp
    | ok x =>
      cases hb : getSlot b n with
      | error e => simp
      | ok y =>
        by_cases hxy : x = y
        · subst hxy; simp
        · simp only [hxy, if_false]
          constructor
          · intro h; cases h
          · rintro ⟨⟨v, h1, h2⟩, _⟩
            cases h1; cases h2; exact absurd rfl hxy

/-- The loop does not raise when every listed slot is set on both sides. -/
theorem allSlotsEq_ok (a b : Rec Val) (sl : List (String × Option Val))
    (h : ∀ n ∈ sl.map Prod.fst, (∃ x, getSlot a n = .ok x) ∧ (∃ y, getSlot b n = .ok y)) :
    ∃ c, allSlotsEq a b sl = .ok c := by
  induction sl with
  | nil => exact ⟨true, rfl⟩
  | cons s rest ih =>
    obtain ⟨n, o⟩ := s
    simp only [List.map_cons, List.forall_mem_cons] at h
    obtain ⟨⟨⟨x, hx⟩, ⟨y, hy⟩⟩, hrest⟩ := h
    unfold allSlotsEq
    simp only [hx, hy]
    split
    · exact ih hrest
    · exact ⟨false, rfl⟩

omit [DecidableEq Val] in
/-- With distinct slot names, slot lists over the same names whose named lookups all agree on a
set value are equal, and every slot is set. -/
theorem slots_eq_of_lookups (sa sb : List (String × Option Val))
    (hn : sa.map Prod.fst = sb.map Prod.fst) (hnd : (sa.map Prod.fst).Nodup)
    (h : ∀ n ∈ sa.map Prod.fst, ∃ v, List.lookup n sa = some (some v) ∧
      List.lookup n sb = some (some v)) :
    sa = sb ∧ sa.all (fun s => s.2.isSome) = true := by
  induction sa generalizing sb with
  | nil =>
    cases sb with
    | nil => simp
    | cons _ _ => simp at hn
  | cons p ps ih =>
    cases sb with
    | nil => simp at hn
    | cons q qs =>
      obtain ⟨n, x⟩ := p
      obtain ⟨m, y⟩ := q
      simp only [List.map_cons, List.cons.injEq] at hn
      obtain ⟨hnm, hn'⟩ := hn
      subst hnm
      simp only [List.map_cons, List.nodup_cons] at hnd
      obtain ⟨v, h1, h2⟩ := h n (by simp)
      rw [lookup_cons_self] at h1 h2
      cases h1; cases h2
      have := ih qs hn' hnd.2 (by
        intro k hk
        have hne : k ≠ n := fun e => hnd.1 (e ▸ hk)
        obtain ⟨w, w1, w2⟩ := h k (by simp [hk])
        rw [lookup_cons_ne _ _ _ _ hne] at w1 w2
        exact ⟨w, w1, w2⟩)
      obtain ⟨e, hall⟩ := this
      subst e
      exact ⟨rfl, by rw [List.all_cons, hall]; rfl⟩

/-- `==` returns `True` exactly for same-class records with identical, fully assigned slots. -/
theorem recEq_true_iff (a b : Rec Val) (hcls : a.tag = b.tag → a.names = b.names)
    (hnd : a.names.Nodup) :
    recEq a b = .ok true ↔ a.tag = b.tag ∧ a.slots = b.slots ∧ a.complete = true := by
  unfold recEq
  by_cases ht : a.tag = b.tag
  · simp only [ht, ne_eq, not_true_eq_false, if_false, true_and]
    rw [allSlotsEq_true_iff]
    constructor
    · intro h
      exact slots_eq_of_lookups a.slots b.slots (hcls ht) hnd (by
        intro n hn
        obtain ⟨v, h1, h2⟩ := h n hn
        exact ⟨v, (getSlot_ok_iff a n v).1 h1, (getSlot_ok_iff b n v).1 h2⟩)
    · rintro ⟨hs, hc⟩ n hn
      obtain ⟨x, hx, hmem⟩ := lookup_isSome_of_mem n a.slots hn
      have : x.isSome = true := by
        simp only [Rec.complete, List.all_eq_true] at hc
        exact hc _ hmem
      obtain ⟨v, rfl⟩ := Option.isSome_iff_exists.1 this
      exact ⟨v, (getSlot_ok_iff a n v).2 hx, (getSlot_ok_iff b n v).2 (hs ▸ hx)⟩
  · simp [ht]

/-- On fully assigned records `==` never raises and decides equality of class and slots. -/
theorem recEq_complete (a b : Rec Val) (hcls : a.tag = b.tag → a.names = b.names)
    (hnd : a.names.Nodup) (ha : a.complete = true) (hb : b.complete = true) :
    recEq a b = .ok (decide (a.tag = b.tag ∧ a.slots = b.slots)) := by
  have hiff := recEq_true_iff a b hcls hnd
  by_cases ht : a.tag = b.tag
  · have hset : ∀ (r : Rec Val), r.complete = true → ∀ n ∈ r.names, ∃ x, getSlot r n = .ok x := by
      intro r hr n hn
      obtain ⟨x, hx, hmem⟩ := lookup_isSome_of_mem n r.slots hn
      have : x.isSome = true := by
        simp only [Rec.complete, List.all_eq_true] at hr
        exact hr _ hmem
      obtain ⟨v, rfl⟩ := Option.isSome_iff_exists.1 this
      exact ⟨v, (getSlot_ok_iff r n v).2 hx⟩
    obtain ⟨c, hc⟩ := allSlotsEq_ok a b a.slots (fun n hn =>
      ⟨hset a ha n hn, hset b hb n (by rw [← hcls ht]; exact hn)⟩)
    have hrec : recEq a b = .ok c := by simp [recEq, ht, hc]
    rw [hrec] at hiff ⊢
    cases c with
    | true =>
      have := hiff.1 rfl
      simp [this.1, this.2.1]
    | false =>
      have : ¬ (a.tag = b.tag ∧ a.slots = b.slots) := fun h => by
        have := hiff.2 ⟨h.1, h.2, ha⟩
        cases this
      simp [this]
  · simp [recEq, ht]

end eq

/-! ### Attribute maps -/

theorem getAttr_setAttr_self (o : Obj Val) (n : String) (v : Val) :
    getAttr (setAttr o n v) n = .ok v := by
  induction o with
  | nil => simp [setAttr, getAttr]
  | cons q qs ih =>
    obtain ⟨m, w⟩ := q
    unfold setAttr
    by_cases h : m = n
    · subst h; simp [getAttr]
    · have h' : n ≠ m := fun e => h e.symm
      simp only [h, if_false]
      unfold getAttr at ih ⊢
      rw [lookup_cons_ne _ _ _ _ h']
      exact ih

theorem getAttr_setAttr_ne (o : Obj Val) (n m : String) (v : Val) (h : m ≠ n) :
    getAttr (setAttr o n v) m = getAttr o m := by
  induction o with
  | nil => simp [setAttr, getAttr, lookup_cons_ne _ _ _ _ h]
  | cons q qs ih =>
    obtain ⟨k, w⟩ := q
    unfold setAttr
    by_cases hk : k = n
    · subst hk
      simp only [if_true, getAttr, lookup_cons_ne _ _ _ _ h]
    · simp only [hk, if_false]
      unfold getAttr at ih ⊢
      by_cases hm : m = k
      · subst hm; simp
      · rw [lookup_cons_ne _ _ _ _ hm, lookup_cons_ne _ _ _ _ hm]; exact ih

theorem getAttr_multiSet_not_mem (ns : List String) (o : Obj Val) (vs : List Val) (m : String)
    (h : m ∉ ns) : getAttr (multiSet ns o vs) m = getAttr o m := by
  induction ns generalizing o vs with
  | nil => simp [multiSet]
  | cons n ns ih =>
    cases vs with
    | nil => simp [multiSet]
    | cons v vs =>
      simp only [List.mem_cons, not_or] at h
      simp only [multiSet]
      rw [ih _ _ h.2, getAttr_setAttr_ne _ _ _ _ h.1]

theorem multiGet_multiSet (ns : List String) (hnd : ns.Nodup) (o : Obj Val) (vs : List Val)
    (hlen : vs.length = ns.length) : multiGet ns (multiSet ns o vs) = .ok vs := by
  induction ns generalizing o vs with
  | nil =>
    cases vs with
    | nil => rfl
    | cons _ _ => simp at hlen
  | cons n ns ih =>
    cases vs with
    | nil => simp at hlen
    | cons v vs =>
      simp only [List.nodup_cons] at hnd
      simp only [multiSet, multiGet]
      rw [getAttr_multiSet_not_mem ns _ vs n hnd.1, getAttr_setAttr_self]
      simp only
      rw [ih hnd.2 _ vs (by simpa using hlen)]

theorem getAttr_multiSet_zip (ns : List String) (hnd : ns.Nodup) (o : Obj Val) (vs : List Val)
    (n : String) (v : Val) (h : (n, v) ∈ ns.zip vs) : getAttr (multiSet ns o vs) n = .ok v := by
  induction ns generalizing o vs with
  | nil => simp at h
  | cons m ms ih =>
    cases vs with
    | nil => simp at h
    | cons w ws =>
      simp only [List.nodup_cons] at hnd
      simp only [List.zip_cons_cons, List.mem_cons, Prod.mk.injEq] at h
      simp only [multiSet]
      rcases h with ⟨rfl, rfl⟩ | h
      · rw [getAttr_multiSet_not_mem ms _ ws n hnd.1, getAttr_setAttr_self]
      · exact ih hnd.2 _ ws h

end PyCraft.Records
