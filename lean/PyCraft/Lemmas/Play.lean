import PyCraft.Model.Play
/-!
Helper lemmas for C11: the networking loop against its closed form, for every pair of caps.

`finalOK c inbox` is the state the loop must end in when started in the live state `c` with
`inbox` still unread and every write succeeding. The loop invariant is "`finalOK` of the current
state and the unread inbox does not change", the variant is `2·|inbox| + |queue|`.
-/
namespace PyCraft.Play
open PyCraft

/-- The thread is running on an open connection. -/
def Live (c : Conn) : Prop := c.interrupt = false ∧ c.connected = true ∧ c.closed = false

def finalOK (newer : Bool) (c : Conn) (inbox : List PlayEv) : Conn :=
  { queue := [],
    wire := c.wire ++ c.queue ++ (beforeDisc inbox).flatMap (replyTo newer),
    delivered := c.delivered ++
      (beforeDisc inbox ++ if hasDisc inbox then [PlayEv.disconnect] else []).map PlayEv.asSeen,
    spawned := c.spawned || (beforeDisc inbox).any PlayEv.isPosLook,
    connected := !hasDisc inbox, interrupt := hasDisc inbox, closed := hasDisc inbox }

/-- Equal except possibly for the queue, and the wire of the first is a prefix of the second's. -/
def SameButWire (a b : Conn) : Prop :=
  a.delivered = b.delivered ∧ a.spawned = b.spawned ∧ a.connected = b.connected ∧
  a.interrupt = b.interrupt ∧ a.closed = b.closed ∧ a.wire <+: b.wire

theorem SameButWire.rfl' (a : Conn) : SameButWire a a :=
  ⟨rfl, rfl, rfl, rfl, rfl, List.prefix_refl _⟩

theorem beforeDisc_cons_ne (e : PlayEv) (rest : List PlayEv) (h : e ≠ .disconnect) :
    beforeDisc (e :: rest) = e :: beforeDisc rest := by
  simp [beforeDisc, h]

theorem beforeDisc_cons_disc (rest : List PlayEv) : beforeDisc (.disconnect :: rest) = [] := by
  simp [beforeDisc]

theorem hasDisc_cons_ne (e : PlayEv) (rest : List PlayEv) (h : e ≠ .disconnect) :
    hasDisc (e :: rest) = hasDisc rest := by
  have : PlayEv.disconnect ≠ e := fun h' => h h'.symm
  simp [hasDisc, this]

theorem hasDisc_cons_disc (rest : List PlayEv) : hasDisc (.disconnect :: rest) = true := by
  simp [hasDisc]

theorem hasDisc_nil : hasDisc [] = false := rfl
theorem beforeDisc_nil : beforeDisc [] = [] := rfl

/-! ### One event -/

theorem react_ne_disc (newer po : Bool) (c : Conn) (e : PlayEv) (h : e ≠ .disconnect) :
    react newer po c e =
      { c with queue := c.queue ++ replyTo newer e, spawned := c.spawned || e.isPosLook } := by
  cases e with
  | disconnect => exact absurd rfl h
  | keepAlive id => simp [react, replyTo, PlayEv.isPosLook]
  | posLook x y z yaw pitch f tid => cases newer <;> simp [react, replyTo, PlayEv.isPosLook]
  | unknown p d => simp [react, replyTo, PlayEv.isPosLook]
  | other n => simp [react, replyTo, PlayEv.isPosLook]

theorem replyTo_length (newer : Bool) (e : PlayEv) : (replyTo newer e).length ≤ 1 := by
  cases e <;> simp [replyTo]
  split <;> simp

theorem reactAll_ne_disc (newer po : Bool) (c : Conn) (e : PlayEv) (rest : List PlayEv)
    (h : e ≠ .disconnect) (hl : Live c) :
    Live (reactAll newer po c e) ∧
    finalOK newer (reactAll newer po c e) rest = finalOK newer c (e :: rest) ∧
    (reactAll newer po c e).queue.length ≤ c.queue.length + 1 := by
  have hr := react_ne_disc newer po c e h
  obtain ⟨h1, h2, h3⟩ := hl
  refine ⟨?_, ?_, ?_⟩
  · simp [reactAll, hr, Live, h1, h2, h3]
  · simp [reactAll, hr, finalOK, beforeDisc_cons_ne e rest h, hasDisc_cons_ne e rest h,
      List.append_assoc, Bool.or_assoc]
  · have := replyTo_length newer e
    simp [reactAll, hr]; omega

theorem reactAll_disc (newer po : Bool) (c : Conn) (rest : List PlayEv) (hl : Live c) :
    (reactAll newer po c .disconnect).interrupt = true ∧
    SameButWire (reactAll newer po c .disconnect) (finalOK newer c (.disconnect :: rest)) ∧
    (po = true → reactAll newer po c .disconnect = finalOK newer c (.disconnect :: rest)) := by
  obtain ⟨h1, h2, h3⟩ := hl
  cases c with
  | mk queue wire delivered spawned connected interrupt closed =>
    simp only at h1 h2 h3
    subst h1 h2 h3
    cases queue with
    | nil =>
      simp [reactAll, react, disconnect, finalOK, SameButWire, beforeDisc_cons_disc,
        hasDisc_cons_disc, PlayEv.asSeen]
    | cons p q =>
      cases po <;>
        simp [reactAll, react, disconnect, finalOK, SameButWire, beforeDisc_cons_disc,
          hasDisc_cons_disc, PlayEv.asSeen]

/-! ### The two phases -/

theorem writeLoop_spec (capW : Nat) (num : Nat) (queue wire : List Reply) :
    (writeLoop capW num queue wire).2.2 ++ (writeLoop capW num queue wire).2.1 = wire ++ queue ∧
    (writeLoop capW num queue wire).2.1.length + (writeLoop capW num queue wire).1 =
      queue.length + num ∧
    (queue ≠ [] → num < (writeLoop capW num queue wire).1) ∧
    (queue = [] → (writeLoop capW num queue wire).1 = num) := by
  induction queue generalizing num wire with
  | nil => simp [writeLoop]
  | cons p q ih =>
    unfold writeLoop
    by_cases h : num + 1 ≥ capW
    · simp [h]; omega
    · simp only [h, if_false]
      obtain ⟨a, b, c, d⟩ := ih (num + 1) (wire ++ [p])
      refine ⟨by rw [a]; simp, by rw [b]; simp; omega, fun _ => ?_, by simp⟩
      cases q with
      | nil => have := d rfl; omega
      | cons x xs => have := c (by simp); omega

theorem readLoop_interrupted (newer po : Bool) (capR num : Nat) (c : Conn) (inbox : List PlayEv)
    (h : c.interrupt = true) : readLoop newer po capR num c inbox = (c, inbox) := by
  cases inbox <;> simp [readLoop, h]

theorem finalOK_closed (newer : Bool) (c : Conn) (inbox : List PlayEv) :
    (finalOK newer c inbox).closed = hasDisc inbox := rfl

theorem readLoop_spec (newer po : Bool) (capR : Nat) (num : Nat) (c : Conn) (inbox : List PlayEv)
    (hl : Live c) :
    (Live (readLoop newer po capR num c inbox).1 ∧
      finalOK newer (readLoop newer po capR num c inbox).1 (readLoop newer po capR num c inbox).2 =
        finalOK newer c inbox ∧
      2 * (readLoop newer po capR num c inbox).2.length +
          (readLoop newer po capR num c inbox).1.queue.length ≤ 2 * inbox.length + c.queue.length ∧
      (num < capR → inbox ≠ [] →
        2 * (readLoop newer po capR num c inbox).2.length +
          (readLoop newer po capR num c inbox).1.queue.length < 2 * inbox.length + c.queue.length))
    ∨ ((readLoop newer po capR num c inbox).1.interrupt = true ∧ hasDisc inbox = true ∧
        SameButWire (readLoop newer po capR num c inbox).1 (finalOK newer c inbox) ∧
        (po = true → (readLoop newer po capR num c inbox).1 = finalOK newer c inbox)) := by
  induction inbox generalizing num c with
  | nil => left; simp [readLoop, hl]
  | cons e rest ih =>
    by_cases hc : num < capR ∧ c.interrupt = false
    · have hstep : readLoop newer po capR num c (e :: rest) =
          readLoop newer po capR (num + 1) (reactAll newer po c e) rest := by
        simp [readLoop, hc]
      rw [hstep]
      by_cases he : e = .disconnect
      · subst he
        obtain ⟨hi, hs, heq⟩ := reactAll_disc newer po c rest hl
        rw [readLoop_interrupted _ _ _ _ _ _ hi]
        right
        exact ⟨hi, hasDisc_cons_disc rest, hs, heq⟩
      · obtain ⟨hl', hf, hq⟩ := reactAll_ne_disc newer po c e rest he hl
        rcases ih (num + 1) (reactAll newer po c e) hl' with ⟨a, b, m, _⟩ | ⟨a, b, s, q⟩
        · left
          refine ⟨a, b.trans hf, ?_, fun _ _ => ?_⟩ <;> simp only [List.length_cons] <;> omega
        · right
          exact ⟨a, by rw [hasDisc_cons_ne e rest he]; exact b, hf ▸ s, fun hp => hf ▸ q hp⟩
    · have hstep : readLoop newer po capR num c (e :: rest) = (c, e :: rest) := by
        simp only [readLoop, hc, if_false]
      rw [hstep]
      left
      refine ⟨hl, rfl, Nat.le_refl _, fun hn _ => ?_⟩
      exact absurd ⟨hn, hl.1⟩ hc

/-! ### The loop -/

theorem finalOK_of_write (newer : Bool) (c : Conn) (q w : List Reply) (inbox : List PlayEv)
    (h : w ++ q = c.wire ++ c.queue) :
    finalOK newer { c with queue := q, wire := w } inbox = finalOK newer c inbox := by
  simp [finalOK, h]

theorem finalOK_quiescent (newer : Bool) (c : Conn) (hl : Live c) (hq : c.queue = []) :
    finalOK newer c [] = c := by
  obtain ⟨h1, h2, h3⟩ := hl
  cases c with
  | mk queue wire delivered spawned connected interrupt closed =>
    simp only at h1 h2 h3 hq
    subst h1 h2 h3 hq
    simp [finalOK, beforeDisc_nil, hasDisc_nil]

theorem loop_interrupted (newer po : Bool) (capW capR fuel : Nat) (c : Conn) (inbox : List PlayEv)
    (h : c.interrupt = true) : loop newer po capW capR (fuel + 1) c inbox = some c := by
  simp [loop, h]

theorem loop_spec (newer po : Bool) (capW capR : Nat) (hR : 1 ≤ capR) (fuel : Nat) (c : Conn)
    (inbox : List PlayEv) (hl : Live c) (hf : 2 * inbox.length + c.queue.length < fuel) :
    ∃ r, loop newer po capW capR fuel c inbox = some r ∧
      SameButWire r (finalOK newer c inbox) ∧
      ((po = true ∨ hasDisc inbox = false) → r = finalOK newer c inbox) := by
  induction fuel generalizing c inbox with
  | zero => omega
  | succ fuel ih =>
    have hni : c.interrupt = false := hl.1
    by_cases hq : inbox = [] ∧ c.queue = []
    · refine ⟨c, by simp [loop, hni, hq], ?_⟩
      obtain ⟨hq1, hq2⟩ := hq
      subst hq1
      rw [finalOK_quiescent newer c hl hq2]
      exact ⟨SameButWire.rfl' c, fun _ => rfl⟩
    · have hloop : loop newer po capW capR (fuel + 1) c inbox =
          loop newer po capW capR fuel
            (readLoop newer po capR (writeLoop capW 0 c.queue c.wire).1
              { c with queue := (writeLoop capW 0 c.queue c.wire).2.1,
                       wire := (writeLoop capW 0 c.queue c.wire).2.2 } inbox).1
            (readLoop newer po capR (writeLoop capW 0 c.queue c.wire).1
              { c with queue := (writeLoop capW 0 c.queue c.wire).2.1,
                       wire := (writeLoop capW 0 c.queue c.wire).2.2 } inbox).2 := by
        simp [loop, hni, hq]
      rw [hloop]
      obtain ⟨w1, w2, w3, w4⟩ := writeLoop_spec capW 0 c.queue c.wire
      generalize writeLoop capW 0 c.queue c.wire = w at *
      have hl1 : Live { c with queue := w.2.1, wire := w.2.2 } := hl
      have hfin := finalOK_of_write newer c w.2.1 w.2.2 inbox w1
      rcases readLoop_spec newer po capR w.1 { c with queue := w.2.1, wire := w.2.2 } inbox hl1
        with ⟨a, b, m, ms⟩ | ⟨a, b, s, q⟩
      · generalize readLoop newer po capR w.1 { c with queue := w.2.1, wire := w.2.2 } inbox = r at *
        have hmeasure : 2 * r.2.length + r.1.queue.length < fuel := by
          simp only at m ms
          by_cases hcq : c.queue = []
          · have hw : w.1 = 0 := w4 hcq
            have hin : inbox ≠ [] := fun h => hq ⟨h, hcq⟩
            have := ms (by omega) hin
            simp only [hcq, List.length_nil] at w2 hf
            omega
          · have := w3 hcq
            omega
        obtain ⟨r', h1, h2, h3⟩ := ih r.1 r.2 a hmeasure
        rw [b, hfin] at h2 h3
        refine ⟨r', h1, h2, fun hp => h3 ?_⟩
        rcases hp with hp | hp
        · exact Or.inl hp
        · right
          have : (finalOK newer r.1 r.2).closed = (finalOK newer c inbox).closed := by rw [b, hfin]
          rw [finalOK_closed, finalOK_closed] at this
          rw [this]; exact hp
      · generalize readLoop newer po capR w.1 { c with queue := w.2.1, wire := w.2.2 } inbox = r at *
        have hin : inbox ≠ [] := by
          intro h; subst h; simp [hasDisc_nil] at b
        have hfuel : ∃ k, fuel = k + 1 := by
          cases inbox with
          | nil => exact absurd rfl hin
          | cons x xs => simp only [List.length_cons] at hf; exact ⟨fuel - 1, by omega⟩
        obtain ⟨k, hk⟩ := hfuel
        subst hk
        rw [loop_interrupted _ _ _ _ _ _ _ a]
        rw [hfin] at s q
        refine ⟨r.1, rfl, s, fun hp => ?_⟩
        rcases hp with hp | hp
        · exact q hp
        · rw [hp] at b; cases b

theorem init_live : Live Conn.init := ⟨rfl, rfl, rfl⟩

/-- Everything the events before the disconnect must be answered with. -/
def fullWire (newer : Bool) (inbox : List PlayEv) : List Reply :=
  (beforeDisc inbox).flatMap (replyTo newer)

/-- The networking loop terminates for every `capW` and every `capR ≥ 1`, and its result is the
closed form (the wire possibly cut short only when the peer is closed at the disconnect). -/
theorem runLoop_spec (newer po : Bool) (capW capR : Nat) (hR : 1 ≤ capR) (inbox : List PlayEv) :
    ∃ r, runLoop newer po capW capR inbox = some r ∧
      r.delivered =
        (beforeDisc inbox ++ if hasDisc inbox then [PlayEv.disconnect] else []).map PlayEv.asSeen ∧
      r.spawned = (beforeDisc inbox).any PlayEv.isPosLook ∧
      r.closed = hasDisc inbox ∧
      r.exitCalls = (if hasDisc inbox then 1 else 0) ∧
      r.errors = 0 ∧
      r.wire <+: fullWire newer inbox ∧
      ((po = true ∨ hasDisc inbox = false) → r.wire = fullWire newer inbox) := by
  obtain ⟨c, hc, hs, he⟩ := loop_spec newer po capW capR hR (2 * inbox.length + 1) Conn.init inbox
    init_live (by simp [Conn.init])
  obtain ⟨s1, s2, s3, s4, s5, s6⟩ := hs
  refine ⟨{ wire := c.wire, delivered := c.delivered, spawned := c.spawned, closed := c.closed,
            exitCalls := if c.connected then 0 else 1, errors := 0 },
    by simp only [runLoop, hc], ?_⟩
  refine ⟨by simp [s1, finalOK, Conn.init], by simp [s2, finalOK, Conn.init],
    by simp [s5, finalOK], ?_, rfl, by simpa [finalOK, Conn.init, fullWire] using s6, ?_⟩
  · simp only [s3, finalOK]
    cases hasDisc inbox <;> simp
  · intro hp
    simp [he hp, finalOK, Conn.init, fullWire]

/-! ### List facts used by the property theorems -/

theorem beforeDisc_append_disc (pre post : List PlayEv) (h : PlayEv.disconnect ∉ pre) :
    beforeDisc (pre ++ .disconnect :: post) = pre ∧ hasDisc (pre ++ .disconnect :: post) = true := by
  induction pre with
  | nil => simp [beforeDisc_cons_disc, hasDisc_cons_disc]
  | cons x xs ih =>
    simp only [List.mem_cons, not_or] at h
    have hx : x ≠ .disconnect := fun h' => h.1 h'.symm
    rw [List.cons_append, beforeDisc_cons_ne _ _ hx, hasDisc_cons_ne _ _ hx, (ih h.2).1, (ih h.2).2]
    simp

theorem beforeDisc_of_no_disc (l : List PlayEv) (h : PlayEv.disconnect ∉ l) :
    beforeDisc l = l ∧ hasDisc l = false := by
  induction l with
  | nil => simp [beforeDisc_nil, hasDisc_nil]
  | cons x xs ih =>
    simp only [List.mem_cons, not_or] at h
    have hx : x ≠ .disconnect := fun h' => h.1 h'.symm
    rw [beforeDisc_cons_ne _ _ hx, hasDisc_cons_ne _ _ hx, (ih h.2).1, (ih h.2).2]
    simp

theorem beforeDisc_filter (p : PlayEv → Bool) (hp : p .disconnect = true) (l : List PlayEv) :
    beforeDisc (l.filter p) = (beforeDisc l).filter p ∧ hasDisc (l.filter p) = hasDisc l := by
  induction l with
  | nil => simp [beforeDisc_nil, hasDisc_nil]
  | cons x xs ih =>
    by_cases hx : x = .disconnect
    · subst hx
      simp [hp, beforeDisc_cons_disc, hasDisc_cons_disc]
    · by_cases hpx : p x = true
      · simp [hpx, beforeDisc_cons_ne _ _ hx, hasDisc_cons_ne _ _ hx, ih.1, ih.2]
      · simp [hpx, beforeDisc_cons_ne _ _ hx, hasDisc_cons_ne _ _ hx, ih.1, ih.2]

theorem flatMap_filter_noreply (newer : Bool) (p : PlayEv → Bool)
    (hp : ∀ e, p e = false → replyTo newer e = []) (l : List PlayEv) :
    (l.filter p).flatMap (replyTo newer) = l.flatMap (replyTo newer) := by
  induction l with
  | nil => rfl
  | cons x xs ih =>
    by_cases hpx : p x = true
    · simp [hpx, ih]
    · have : p x = false := by simpa using hpx
      simp [this, ih, hp x this]

theorem keepAlive_of_flatMap (newer : Bool) (l : List PlayEv) :
    (l.flatMap (replyTo newer)).filterMap Reply.keepAliveId? = l.filterMap PlayEv.keepAliveId? := by
  induction l with
  | nil => rfl
  | cons x xs ih =>
    rw [List.flatMap_cons, List.filterMap_append, ih]
    cases x <;> cases newer <;> simp [replyTo, Reply.keepAliveId?, PlayEv.keepAliveId?, List.filterMap_cons]

theorem acks_of_flatMap (newer : Bool) (l : List PlayEv) :
    (l.flatMap (replyTo newer)).filter (fun r => !r.isKeepAlive) = l.filterMap (expectedAck newer) := by
  induction l with
  | nil => rfl
  | cons x xs ih =>
    rw [List.flatMap_cons, List.filter_append, ih]
    cases x <;> cases newer <;> simp [replyTo, Reply.isKeepAlive, expectedAck, List.filterMap_cons]

/-- With `capR = 0` the read phase never runs: an unread inbox stays unread for ever. -/
theorem loop_capR_zero (newer po : Bool) (capW fuel : Nat) (inbox : List PlayEv) (h : inbox ≠ []) :
    loop newer po capW 0 fuel Conn.init inbox = none := by
  induction fuel with
  | zero => rfl
  | succ fuel ih =>
    cases inbox with
    | nil => exact absurd rfl h
    | cons e rest =>
      have : loop newer po capW 0 (fuel + 1) Conn.init (e :: rest) =
          loop newer po capW 0 fuel Conn.init (e :: rest) := by
        simp [loop, Conn.init, writeLoop, readLoop]
      rw [this, ih]

theorem Result.ext' (a b : Result) (h1 : a.wire = b.wire) (h2 : a.delivered = b.delivered)
    (h3 : a.spawned = b.spawned) (h4 : a.closed = b.closed) (h5 : a.exitCalls = b.exitCalls)
    (h6 : a.errors = b.errors) : a = b := by
  cases a; cases b; simp_all

end PyCraft.Play
