import PyCraft.Model.C02Exact
import PyCraft.Lemmas.Wire
set_option exponentiation.threshold 2200
/-!
Helper lemmas for `Props/C02Exact.lean`: `FixedPoint` (same `bits` on both sides) and the UUID
text ↔ bytes mapping. Lower-case hex strings are handled as `ds.map hexDigit` for digit lists
`ds` (all `< 16`), so that every fact about a character is a `decide` over sixteen cases.
-/
namespace PyCraft.C02X
open PyCraft

/-! ## FixedPoint -/

theorem init_denominator (base : IntT) (bits : Nat) :
    (((FixedPointT.init base bits).denominator : Nat) : Int) = (2 : Int) ^ bits := by
  simp [FixedPointT.init]

theorem fixed_send_eq (cc : CustomCodec) (base : IntT) (bits : Nat) (p q : Int)
    (h : ¬ ((2 : Int) ^ 1024 * q ≤ p * 2 ^ bits ∨ (2 : Int) ^ 1024 * q ≤ -(p * 2 ^ bits))) :
    (FixedPointT.init base bits).send cc p q
      = encode cc (.fixed base bits) (.int (fixedWire bits p q)) := by
  unfold FixedPointT.send
  simp only [init_denominator]
  rw [if_neg h]
  rfl

theorem fixed_send_overflow (cc : CustomCodec) (base : IntT) (bits : Nat) (p q : Int)
    (h : (2 : Int) ^ 1024 * q ≤ p * 2 ^ bits ∨ (2 : Int) ^ 1024 * q ≤ -(p * 2 ^ bits)) :
    (FixedPointT.init base bits).send cc p q = .error .other := by
  unfold FixedPointT.send
  simp only [init_denominator]
  rw [if_pos h]

/-- every fixed-width code fits in 64 bits -/
theorem IntT.inDom_bound (t : IntT) (v : Int) (h : t.inDom v) : -(2 : Int) ^ 64 ≤ v ∧ v ≤ 2 ^ 64 := by
  cases t <;> simp [IntT.inDom, IntT.signed, IntT.width] at h <;> omega

theorem fixed_read_eq (cc : CustomCodec) (base : IntT) (bits : Nat) (bs : Bytes) :
    (FixedPointT.init base bits).read cc bs
      = (do let (v, r) ← base.unpack bs; let x ← intTrueDiv v (2 ^ bits); pure (x, r)) := by
  simp only [FixedPointT.read, FixedPointT.init, decode]
  show (do let __x ← (do let __x ← base.unpack bs; pure (Value.int __x.fst, __x.snd)); _) = _
  cases base.unpack bs <;> rfl

/-! ## digits -/

/-- value of a digit list, most significant first -/
def digitsValue : List Nat → Nat
  | [] => 0
  | d :: r => d * 16 ^ r.length + digitsValue r

/-- the `n` base-16 digits of `v mod 16^n` -/
def digitsOf : Nat → Nat → List Nat
  | 0, _ => []
  | n + 1, v => (v / 16 ^ n % 16) :: digitsOf n (v % 16 ^ n)

def AllDigits (ds : List Nat) : Prop := ∀ d ∈ ds, d < 16

theorem digitsOf_length (n v : Nat) : (digitsOf n v).length = n := by
  induction n generalizing v with
  | zero => rfl
  | succ n ih => simp [digitsOf, ih]

theorem digitsOf_all (n v : Nat) : AllDigits (digitsOf n v) := by
  induction n generalizing v with
  | zero => intro d hd; simp [digitsOf] at hd
  | succ n ih =>
    intro d hd
    simp only [digitsOf, List.mem_cons] at hd
    rcases hd with rfl | hd
    · exact Nat.mod_lt _ (by omega)
    · exact ih _ d hd

theorem digitsValue_lt (ds : List Nat) (h : AllDigits ds) : digitsValue ds < 16 ^ ds.length := by
  induction ds with
  | nil => simp [digitsValue]
  | cons d r ih =>
    have hd : d < 16 := h d (by simp)
    have hr := ih (fun x hx => h x (by simp [hx]))
    simp only [digitsValue, List.length_cons, Nat.pow_succ]
    have : d * 16 ^ r.length ≤ 15 * 16 ^ r.length := Nat.mul_le_mul_right _ (by omega)
    omega

theorem digitsValue_digitsOf (n v : Nat) : digitsValue (digitsOf n v) = v % 16 ^ n := by
  induction n generalizing v with
  | zero => simp [digitsOf, digitsValue, Nat.mod_one]
  | succ n ih =>
    simp only [digitsOf, digitsValue, digitsOf_length, ih, Nat.pow_succ]
    have hp : 0 < 16 ^ n := Nat.pow_pos (by omega)
    rw [Nat.mod_mod_of_dvd _ (Nat.dvd_refl _), Nat.mod_mul, Nat.mul_comm (16 ^ n)]
    omega

theorem digitsOf_digitsValue (ds : List Nat) (h : AllDigits ds) :
    digitsOf ds.length (digitsValue ds) = ds := by
  induction ds with
  | nil => rfl
  | cons d r ih =>
    have hd : d < 16 := h d (by simp)
    have hr : AllDigits r := fun x hx => h x (by simp [hx])
    have hlt := digitsValue_lt r hr
    have hp : 0 < 16 ^ r.length := Nat.pow_pos (by omega)
    simp only [List.length_cons, digitsOf, digitsValue]
    have h1 : (d * 16 ^ r.length + digitsValue r) / 16 ^ r.length = d := by
      rw [Nat.mul_comm, Nat.mul_add_div hp, Nat.div_eq_of_lt hlt]; omega
    have h2 : (d * 16 ^ r.length + digitsValue r) % 16 ^ r.length = digitsValue r := by
      rw [Nat.mul_comm, Nat.mul_add_mod, Nat.mod_eq_of_lt hlt]
    rw [h1, h2, ih hr, Nat.mod_eq_of_lt hd]

/-! ## characters of lower-case hex strings -/

theorem hexVal_hexDigit : ∀ n < 16, hexVal (hexDigit n) = some n := by decide +kernel
theorem hexDigit_lower : ∀ n < 16, lowerHexChars.contains (hexDigit n) = true := by decide +kernel
theorem hexDigit_plain : ∀ n < 16, hexDigit n ≠ '-' ∧ hexDigit n ≠ '_' ∧ hexDigit n ≠ '+' ∧
    hexDigit n ≠ 'u' ∧ hexDigit n ≠ 'x' ∧ hexDigit n ≠ 'X' ∧ hexDigit n ≠ '{' ∧ hexDigit n ≠ '}' ∧
    isPySpace (hexDigit n) = false := by decide +kernel

theorem lower_is_hexDigit_all : ∀ c ∈ lowerHexChars, ∃ n, n < 16 ∧ c = hexDigit n := by
  decide +kernel

theorem lower_is_hexDigit (c : Char) (h : lowerHexChars.contains c = true) :
    ∃ n, n < 16 ∧ c = hexDigit n := lower_is_hexDigit_all c (by simpa using h)

/-- every lower-case hex string is `ds.map hexDigit` -/
theorem lower_is_digits (h : List Char) (hh : h.all (fun c => lowerHexChars.contains c) = true) :
    ∃ ds, AllDigits ds ∧ h = ds.map hexDigit := by
  induction h with
  | nil => exact ⟨[], fun _ hd => by simp at hd, rfl⟩
  | cons c r ih =>
    simp only [List.all_cons, Bool.and_eq_true] at hh
    obtain ⟨n, hn, rfl⟩ := lower_is_hexDigit c hh.1
    obtain ⟨ds, hds, rfl⟩ := ih hh.2
    refine ⟨n :: ds, ?_, rfl⟩
    intro d hd
    simp only [List.mem_cons] at hd
    rcases hd with rfl | hd
    · exact hn
    · exact hds d hd

theorem hexValue_digits (ds : List Nat) (h : AllDigits ds) :
    hexValue (ds.map hexDigit) = digitsValue ds := by
  induction ds with
  | nil => rfl
  | cons d r ih =>
    have hd : d < 16 := h d (by simp)
    simp only [List.map_cons, hexValue, digitsValue, List.length_map, hexVal_hexDigit d hd,
      Option.getD_some, ih (fun x hx => h x (by simp [hx]))]

theorem hexDigitsN_eq (n v : Nat) : hexDigitsN n v = (digitsOf n v).map hexDigit := by
  induction n generalizing v with
  | zero => rfl
  | succ n ih => simp [hexDigitsN, digitsOf, ih]

/-! ## the string operations on dash / digit strings -/

theorem removeSubGo_noHead (p : Char) (ps : List Char) :
    ∀ l : List Char, p ∉ l → removeSubGo (p :: ps) 0 l = l := by
  intro l
  induction l with
  | nil => intro _; rfl
  | cons c cs ih =>
    intro h
    simp only [List.mem_cons, not_or] at h
    have hne : (p == c) = false := by simpa using h.1
    simp only [removeSubGo, List.isPrefixOf, hne, Bool.false_and, Bool.false_eq_true, if_false,
      ih h.2]

theorem dropWhile_none {p : Char → Bool} : ∀ l : List Char, (∀ c ∈ l, p c = false) →
    l.dropWhile p = l := by
  intro l h
  cases l with
  | nil => rfl
  | cons c cs => simp [h c (by simp)]

theorem stripChars_none (set l : List Char) (h : ∀ c ∈ l, set.contains c = false) :
    stripChars set l = l := by
  unfold stripChars
  rw [dropWhile_none l h, dropWhile_none l.reverse (fun c hc => h c (by simpa using hc)),
    List.reverse_reverse]

theorem mem_dashed {h : List Char} {c : Char} (hc : c ∈ dashed h) : c = '-' ∨ c ∈ h := by
  simp only [dashed, List.mem_append, List.mem_cons, or_assoc] at hc
  rcases hc with hc | hc | hc | hc | hc | hc | hc | hc | hc
  · exact .inr (List.mem_of_mem_take hc)
  · exact .inl hc
  · exact .inr (List.mem_of_mem_drop (List.mem_of_mem_take hc))
  · exact .inl hc
  · exact .inr (List.mem_of_mem_drop (List.mem_of_mem_take hc))
  · exact .inl hc
  · exact .inr (List.mem_of_mem_drop (List.mem_of_mem_take hc))
  · exact .inl hc
  · exact .inr (List.mem_of_mem_drop hc)

theorem undash_parts (h : List Char) :
    h.take 8 ++ ((h.drop 8).take 4 ++ ((h.drop 12).take 4 ++ ((h.drop 16).take 4 ++ h.drop 20))) = h := by
  have e1 : h.drop 20 = (h.drop 16).drop 4 := by rw [List.drop_drop]
  have e2 : h.drop 16 = (h.drop 12).drop 4 := by rw [List.drop_drop]
  have e3 : h.drop 12 = (h.drop 8).drop 4 := by rw [List.drop_drop]
  rw [e1, List.take_append_drop, e2, List.take_append_drop, e3, List.take_append_drop,
    List.take_append_drop]

theorem filter_dashed (h : List Char) (hd : '-' ∉ h) :
    (dashed h).filter (fun c => c != '-') = h := by
  have keep : ∀ l : List Char, (∀ c ∈ l, c ∈ h) → l.filter (fun c => c != '-') = l := by
    intro l hl
    rw [List.filter_eq_self]
    intro c hc
    have : c ≠ '-' := fun e => hd (e ▸ hl c hc)
    simpa using this
  have k1 := keep (h.take 8) (fun c hc => List.mem_of_mem_take hc)
  have k2 := keep ((h.drop 8).take 4) (fun c hc => List.mem_of_mem_drop (List.mem_of_mem_take hc))
  have k3 := keep ((h.drop 12).take 4) (fun c hc => List.mem_of_mem_drop (List.mem_of_mem_take hc))
  have k4 := keep ((h.drop 16).take 4) (fun c hc => List.mem_of_mem_drop (List.mem_of_mem_take hc))
  have k5 := keep (h.drop 20) (fun c hc => List.mem_of_mem_drop hc)
  have hm : (('-' : Char) != '-') = false := by decide
  simp only [dashed, List.filter_append, List.filter_cons, hm, Bool.false_eq_true, if_false,
    k1, k2, k3, k4, k5, List.append_assoc]
  exact undash_parts h

theorem dashed_length (h : List Char) (hl : h.length = 32) : (dashed h).length = 36 := by
  simp only [dashed, List.length_append, List.length_cons, List.length_take, List.length_drop, hl]
  omega

/-- where the dashes are: the four separators sit at positions 8, 13, 18 and 23 -/
theorem dashed_positions (h : List Char) (hl : h.length = 32) :
    (dashed h)[8]? = some '-' ∧ (dashed h)[13]? = some '-' ∧ (dashed h)[18]? = some '-' ∧
    (dashed h)[23]? = some '-' := by
  refine ⟨?_, ?_, ?_, ?_⟩ <;>
    simp [dashed, List.length_take, List.length_drop, hl]

/-! ## `int(hex, 16)` on a plain digit string -/

theorem scanHex_digits : ∀ (ds : List Nat), AllDigits ds → ∀ acc nd,
    scanHex false acc nd (ds.map hexDigit)
      = some (acc * 16 ^ ds.length + digitsValue ds, nd + ds.length, []) := by
  intro ds
  induction ds with
  | nil => intro _ acc nd; simp [scanHex, digitsValue]
  | cons d r ih =>
    intro h acc nd
    have hd : d < 16 := h d (by simp)
    have hr : AllDigits r := fun x hx => h x (by simp [hx])
    have hu := (hexDigit_plain d hd).2.1
    simp only [List.map_cons, scanHex, hu, if_false, hexVal_hexDigit d hd, ih hr, List.length_cons,
      digitsValue, Nat.pow_succ]
    congr 2
    · rw [Nat.add_mul, Nat.mul_comm 16 acc, Nat.mul_assoc, Nat.mul_comm 16 (16 ^ r.length)]
      omega
    · congr 1; omega

theorem pyIntHex_digits (d0 d1 : Nat) (ds : List Nat) (h : AllDigits (d0 :: d1 :: ds)) :
    pyIntHex ((d0 :: d1 :: ds).map hexDigit) = some (digitsValue (d0 :: d1 :: ds) : Int) := by
  have h0 : d0 < 16 := h d0 (by simp)
  have h1 : d1 < 16 := h d1 (by simp)
  obtain ⟨a1, a2, a3, _, _, _, _, _, a9⟩ := hexDigit_plain d0 h0
  obtain ⟨_, _, _, _, b5, b6, _, _, _⟩ := hexDigit_plain d1 h1
  have hs : ((d0 :: d1 :: ds).map hexDigit).dropWhile isPySpace = (d0 :: d1 :: ds).map hexDigit := by
    simp [a9]
  have hsign : pySign ((d0 :: d1 :: ds).map hexDigit) = (false, (d0 :: d1 :: ds).map hexDigit) := by
    simp only [List.map_cons]
    unfold pySign
    split
    · next heq => exact absurd (List.cons.inj heq).1 a3
    · next heq => exact absurd (List.cons.inj heq).1 a1
    · rfl
  have hpre : pyHexPrefix ((d0 :: d1 :: ds).map hexDigit) = (d0 :: d1 :: ds).map hexDigit := by
    simp only [List.map_cons]
    unfold pyHexPrefix
    split
    · next heq => exact absurd (List.cons.inj (List.cons.inj heq).2).1 b5
    · next heq => exact absurd (List.cons.inj (List.cons.inj heq).2).1 b5
    · next heq => exact absurd (List.cons.inj (List.cons.inj heq).2).1 b6
    · next heq => exact absurd (List.cons.inj (List.cons.inj heq).2).1 b6
    · rfl
  have hbody : pyHexBody ((d0 :: d1 :: ds).map hexDigit) = some (digitsValue (d0 :: d1 :: ds)) := by
    have hsc := scanHex_digits (d0 :: d1 :: ds) h 0 0
    unfold pyHexBody
    split
    · next heq => simp only [List.map_cons] at heq; exact absurd (List.cons.inj heq).1 a2
    · rw [hsc]; simp
  simp only [pyIntHex, hs, hsign, hpre, hbody]
  rfl

/-! ## parsing a dashed lower-case text -/

theorem uuidParseChars_dashed (ds : List Nat) (h : AllDigits ds) (hl : ds.length = 32) :
    uuidParseChars (dashed (ds.map hexDigit)) = .ok (beBytes 16 (digitsValue ds)) := by
  have hmem : ∀ c ∈ dashed (ds.map hexDigit), c = '-' ∨ ∃ n, n < 16 ∧ c = hexDigit n := by
    intro c hc
    rcases mem_dashed hc with hc | hc
    · exact .inl hc
    · obtain ⟨n, hn, rfl⟩ := List.mem_map.mp hc
      exact .inr ⟨n, h n hn, rfl⟩
  have hnu : 'u' ∉ dashed (ds.map hexDigit) := by
    intro hc
    rcases hmem _ hc with e | ⟨n, hn, e⟩
    · exact absurd e (by decide)
    · exact (hexDigit_plain n hn).2.2.2.1 e.symm
  have r1 : strRemove "urn:".toList (dashed (ds.map hexDigit)) = dashed (ds.map hexDigit) :=
    removeSubGo_noHead 'u' _ _ hnu
  have r2 : strRemove "uuid:".toList (dashed (ds.map hexDigit)) = dashed (ds.map hexDigit) :=
    removeSubGo_noHead 'u' _ _ hnu
  have r3 : stripChars ['{', '}'] (dashed (ds.map hexDigit)) = dashed (ds.map hexDigit) := by
    apply stripChars_none
    intro c hc
    rcases hmem _ hc with e | ⟨n, hn, e⟩
    · subst e; decide
    · obtain ⟨_, _, _, _, _, _, b7, b8, _⟩ := hexDigit_plain n hn
      subst e
      simp only [List.contains_cons, List.contains_nil, Bool.or_false, Bool.or_eq_false_iff]
      exact ⟨by simpa using b7, by simpa using b8⟩
  have r4 : (dashed (ds.map hexDigit)).filter (fun c => c != '-') = ds.map hexDigit := by
    apply filter_dashed
    intro hc
    obtain ⟨n, hn, e⟩ := List.mem_map.mp hc
    exact (hexDigit_plain n (h n hn)).1 e
  obtain ⟨d0, d1, r, rfl⟩ : ∃ d0 d1 r, ds = d0 :: d1 :: r := by
    match ds, hl with
    | d0 :: d1 :: r, _ => exact ⟨d0, d1, r, rfl⟩
  have hv := digitsValue_lt _ h
  rw [hl] at hv
  have h128 : (16 : Nat) ^ 32 = 2 ^ 128 := by decide
  have hlen : ((d0 :: d1 :: r).map hexDigit).length = 32 := by simpa using hl
  simp only [uuidParseChars, r1, r2, r3, r4, hlen, ne_eq, not_true_eq_false, if_false,
    pyIntHex_digits d0 d1 r h]
  have hc : (0 : Int) ≤ (digitsValue (d0 :: d1 :: r) : Int) ∧
      (digitsValue (d0 :: d1 :: r) : Int) < 2 ^ 128 := by
    refine ⟨Int.natCast_nonneg _, ?_⟩
    have : ((digitsValue (d0 :: d1 :: r) : Nat) : Int) < ((2 ^ 128 : Nat) : Int) :=
      Int.ofNat_lt.mpr (by omega)
    simpa using this
  rw [if_pos hc]
  rfl

theorem uuidParseChars_kinds (s : List Char) :
    (∃ n, uuidParseChars s = .ok (beBytes 16 n)) ∨ uuidParseChars s = .error .value := by
  unfold uuidParseChars
  simp only
  split
  · exact .inr rfl
  · split
    · exact .inr rfl
    · split
      · exact .inl ⟨_, rfl⟩
      · exact .inr rfl

theorem uuidTextChars_eq (b : Bytes) :
    uuidTextChars b = dashed ((digitsOf 32 (beValue b)).map hexDigit) := by
  simp [uuidTextChars, hexDigitsN_eq]

theorem pow_256_16 : (256 : Nat) ^ 16 = 16 ^ 32 := by decide

theorem uuidParseChars_text (b : Bytes) (hb : b.length = 16) :
    uuidParseChars (uuidTextChars b) = .ok b := by
  rw [uuidTextChars_eq, uuidParseChars_dashed _ (digitsOf_all _ _) (digitsOf_length _ _),
    digitsValue_digitsOf]
  have hlt := beValue_lt b
  rw [hb, pow_256_16] at hlt
  rw [Nat.mod_eq_of_lt hlt]
  have := beBytes_beValue b
  rw [hb] at this
  rw [this]

theorem uuidTextChars_canonical (b : Bytes) :
    (uuidTextChars b).filter (fun c => c != '-') = (digitsOf 32 (beValue b)).map hexDigit := by
  rw [uuidTextChars_eq]
  apply filter_dashed
  intro hc
  obtain ⟨n, hn, e⟩ := List.mem_map.mp hc
  exact (hexDigit_plain n (digitsOf_all _ _ n hn)).1 e

theorem all_lower_digits (ds : List Nat) (h : AllDigits ds) :
    (ds.map hexDigit).all (fun c => lowerHexChars.contains c) = true := by
  rw [List.all_eq_true]
  intro c hc
  obtain ⟨n, hn, rfl⟩ := List.mem_map.mp hc
  exact hexDigit_lower n (h n hn)

/-- decomposition of a canonical text -/
theorem canonical_digits (s : String) (hc : isCanonicalUuid s = true) :
    ∃ ds, AllDigits ds ∧ ds.length = 32 ∧ s.toList = dashed (ds.map hexDigit) := by
  simp only [isCanonicalUuid, Bool.and_eq_true, beq_iff_eq] at hc
  obtain ⟨⟨h1, h2⟩, h3⟩ := hc
  obtain ⟨ds, hds, he⟩ := lower_is_digits _ h2
  refine ⟨ds, hds, ?_, ?_⟩
  · rw [he] at h1; simpa using h1
  · rw [← he]; exact h3

end PyCraft.C02X
