import PyCraft.Model.Handlers
import PyCraft.Lemmas.Dispatch
/-!
Specification vocabulary and helper lemmas for C14 (exception-handler routing).
-/
namespace PyCraft

/-! ## Specification vocabulary -/

/-- The exception in play after a sequence of calls, starting from `e`: every call that raised
replaces it. -/
def lastExc (e : Exc) (tr : List CallEv) : Exc :=
  tr.foldl (fun x ev => ev.raised.getD x) e

/-- Every call of the sequence was offered the exception in play at that moment (recursive form;
`argsChained_split` gives the positional reading). -/
def argsChained (e : Exc) : List CallEv → Prop
  | [] => True
  | ev :: rest => ev.arg = e ∧ argsChained (ev.raised.getD e) rest

/-- The reactor-replaced exception: what the handler loop starts with. -/
def RBeh.replace (r : RBeh) (e : Exc) : Exc :=
  match r with
  | .raises e' => e'
  | _ => e

/-! ## `lastExc`, `argsChained` -/

theorem lastExc_nil (e : Exc) : lastExc e [] = e := rfl

theorem lastExc_cons (e : Exc) (ev : CallEv) (tr : List CallEv) :
    lastExc e (ev :: tr) = lastExc (ev.raised.getD e) tr := rfl

theorem lastExc_append (e : Exc) (a b : List CallEv) :
    lastExc e (a ++ b) = lastExc (lastExc e a) b := by
  simp [lastExc, List.foldl_append]

theorem argsChained_append (a b : List CallEv) : ∀ (e : Exc),
    argsChained e (a ++ b) ↔ argsChained e a ∧ argsChained (lastExc e a) b := by
  induction a with
  | nil => intro e; simp [argsChained, lastExc_nil]
  | cons ev a ih =>
    intro e
    simp only [List.cons_append, argsChained, ih, lastExc_cons, and_assoc]

/-- Positional reading of `argsChained`. -/
theorem argsChained_split {e : Exc} {tr : List CallEv} (h : argsChained e tr)
    (a : List CallEv) (ev : CallEv) (b : List CallEv) (ht : tr = a ++ ev :: b) :
    ev.arg = lastExc e a := by
  subst ht
  rw [argsChained_append] at h
  exact h.2.1

/-! ## The loop is the chain -/

/-- Loop state determined by a chain result appended to a start state. -/
def LoopSt.extend (st : LoopSt) (r : List CallEv × ChainResult) : LoopSt :=
  { exc := r.2.exc, calls := st.calls ++ r.1, broke := r.2.isCaught }

theorem foldl_loopStep_broke (hier : Hier) (hs : List Handler) (st : LoopSt)
    (h : st.broke = true) : hs.foldl (loopStep hier) st = st := by
  induction hs with
  | nil => rfl
  | cons a hs ih => simp [List.foldl_cons, loopStep, h, ih]

theorem foldl_loopStep_chain (hier : Hier) (hs : List Handler) : ∀ (st : LoopSt),
    st.broke = false →
      hs.foldl (loopStep hier) st = st.extend (tryExceptChain hier hs st.exc) := by
  induction hs with
  | nil =>
    intro st hb
    cases st
    simp_all [tryExceptChain, LoopSt.extend, ChainResult.exc, ChainResult.isCaught]
  | cons h hs ih =>
    intro st hb
    simp only [List.foldl_cons, tryExceptChain]
    by_cases hh : h.handles hier st.exc = true
    · cases hbeh : h.beh with
      | returns =>
        have : loopStep hier st h =
            { st with calls := st.calls ++ [.handler h.id st.exc none], broke := true } := by
          simp [loopStep, hb, hh, hbeh]
        rw [this, foldl_loopStep_broke _ _ _ rfl]
        simp [hh, LoopSt.extend, ChainResult.exc, ChainResult.isCaught]
      | raises e' =>
        have : loopStep hier st h =
            { exc := e', calls := st.calls ++ [.handler h.id st.exc (some e')], broke := false } := by
          simp [loopStep, hb, hh, hbeh]
        rw [this, ih _ rfl]
        simp [hh, LoopSt.extend]
    · simp only [Bool.not_eq_true] at hh
      have : loopStep hier st h = st := by simp [loopStep, hb, hh]
      rw [this, ih _ hb]
      simp [hh]

theorem handlerLoop_eq_chain (hier : Hier) (hs : List Handler) (e : Exc) :
    handlerLoop hier hs e =
      { exc := (tryExceptChain hier hs e).2.exc, calls := (tryExceptChain hier hs e).1,
        broke := (tryExceptChain hier hs e).2.isCaught } := by
  unfold handlerLoop
  rw [foldl_loopStep_chain _ _ _ rfl]
  simp [LoopSt.extend]

/-! ## Facts about the chain -/

theorem chain_all_handler (hier : Hier) (hs : List Handler) : ∀ (e : Exc),
    ∀ ev ∈ (tryExceptChain hier hs e).1, ev.isHandler = true := by
  induction hs with
  | nil => intro e ev h; simp [tryExceptChain] at h
  | cons h hs ih =>
    intro e ev hm
    simp only [tryExceptChain] at hm
    by_cases hh : h.handles hier e = true
    · cases hbeh : h.beh with
      | returns => simp [hh, hbeh] at hm; subst hm; rfl
      | raises e' =>
        simp only [hh, hbeh, ↓reduceIte, List.mem_cons] at hm
        rcases hm with hm | hm
        · subst hm; rfl
        · exact ih _ _ hm
    · simp only [Bool.not_eq_true] at hh
      simp only [hh, Bool.false_eq_true, ↓reduceIte] at hm
      exact ih _ _ hm

/-- Every call in the chain is a call of a registered handler whose types match the exception it
was given, and what it raised is that handler's behaviour. -/
theorem chain_sound (hier : Hier) (hs : List Handler) : ∀ (e : Exc),
    ∀ ev ∈ (tryExceptChain hier hs e).1,
      ∃ h ∈ hs, h.handles hier ev.arg = true ∧ ev = .handler h.id ev.arg h.beh.raised := by
  induction hs with
  | nil => intro e ev h; simp [tryExceptChain] at h
  | cons h hs ih =>
    intro e ev hm
    simp only [tryExceptChain] at hm
    by_cases hh : h.handles hier e = true
    · cases hbeh : h.beh with
      | returns =>
        simp [hh, hbeh] at hm; subst hm
        exact ⟨h, by simp, by simpa [CallEv.arg] using hh, by simp [CallEv.arg, hbeh, Beh.raised]⟩
      | raises e' =>
        simp only [hh, hbeh, ↓reduceIte, List.mem_cons] at hm
        rcases hm with hm | hm
        · subst hm
          exact ⟨h, by simp, by simpa [CallEv.arg] using hh,
            by simp [CallEv.arg, hbeh, Beh.raised]⟩
        · obtain ⟨h', h1, h2⟩ := ih _ _ hm
          exact ⟨h', by simp [h1], h2⟩
    · simp only [Bool.not_eq_true] at hh
      simp only [hh, Bool.false_eq_true, ↓reduceIte] at hm
      obtain ⟨h', h1, h2⟩ := ih _ _ hm
      exact ⟨h', by simp [h1], h2⟩

theorem chain_argsChained (hier : Hier) (hs : List Handler) : ∀ (e : Exc),
    argsChained e (tryExceptChain hier hs e).1 ∧
      lastExc e (tryExceptChain hier hs e).1 = (tryExceptChain hier hs e).2.exc := by
  induction hs with
  | nil => intro e; simp [tryExceptChain, argsChained, lastExc_nil, ChainResult.exc]
  | cons h hs ih =>
    intro e
    simp only [tryExceptChain]
    by_cases hh : h.handles hier e = true
    · cases hbeh : h.beh with
      | returns =>
        simp [hh, argsChained, lastExc, CallEv.arg, CallEv.raised, ChainResult.exc]
      | raises e' =>
        have := ih e'
        simp [hh, argsChained, lastExc_cons, CallEv.arg, CallEv.raised, this]
    · simp only [Bool.not_eq_true] at hh
      simpa [hh] using ih e

theorem chain_head (hier : Hier) (hs : List Handler) (e : Exc) :
    (tryExceptChain hier hs e).1.head? =
      (hs.find? (fun h => h.handles hier e)).map (fun h => .handler h.id e h.beh.raised) := by
  induction hs with
  | nil => simp [tryExceptChain]
  | cons h hs ih =>
    simp only [tryExceptChain, List.find?_cons]
    by_cases hh : h.handles hier e = true
    · cases hbeh : h.beh <;> simp [hh, Beh.raised, hbeh]
    · simp only [Bool.not_eq_true] at hh
      simp [hh, ih]

/-- Ids called by the chain form a sublist of the registered ids: registration order, no handler
consulted twice. -/
theorem chain_ids_sublist (hier : Hier) (hs : List Handler) : ∀ (e : Exc),
    ((tryExceptChain hier hs e).1.filterMap CallEv.handlerId?).Sublist (hs.map (·.id)) := by
  induction hs with
  | nil => intro e; simp [tryExceptChain]
  | cons h hs ih =>
    intro e
    simp only [tryExceptChain, List.map_cons]
    by_cases hh : h.handles hier e = true
    · cases hbeh : h.beh with
      | returns => simp [hh, CallEv.handlerId?]
      | raises e' =>
        simp only [hh, ↓reduceIte, List.filterMap_cons, CallEv.handlerId?]
        exact (ih e').cons_cons _
    · simp only [Bool.not_eq_true] at hh
      simp only [hh, Bool.false_eq_true, ↓reduceIte]
      exact (ih e).cons _

/-- The chain over `pre ++ h :: post` when `pre` does not catch, `h` matches what is then in play
and raises `e'`: the rest is the chain over `post` on `e'`. -/
theorem chain_append_raise (hier : Hier) (h : Handler) (post : List Handler) (e' : Exc)
    (hb : h.beh = .raises e') : ∀ (pre : List Handler) (e : Exc),
    (tryExceptChain hier pre e).2.isCaught = false →
    h.handles hier (tryExceptChain hier pre e).2.exc = true →
    tryExceptChain hier (pre ++ h :: post) e =
      ((tryExceptChain hier pre e).1 ++
          .handler h.id (tryExceptChain hier pre e).2.exc (some e') ::
            (tryExceptChain hier post e').1,
        (tryExceptChain hier post e').2) := by
  intro pre
  induction pre with
  | nil =>
    intro e _ hh
    simp only [tryExceptChain, ChainResult.exc] at hh
    simp [tryExceptChain, hh, hb, ChainResult.exc]
  | cons a pre ih =>
    intro e hc hh
    simp only [tryExceptChain] at hc hh
    simp only [List.cons_append, tryExceptChain]
    by_cases ha : a.handles hier e = true
    · cases hbeh : a.beh with
      | returns => simp [ha, hbeh, ChainResult.isCaught] at hc
      | raises e'' =>
        simp only [ha, hbeh, ↓reduceIte] at hc hh
        simp [ha, ih e'' hc hh]
    · simp only [Bool.not_eq_true] at ha
      simp only [ha, Bool.false_eq_true, ↓reduceIte] at hc hh
      simp [ha, ih e hc hh]

/-! ## `handleException` in terms of the chain -/

/-- What the reactor's handler raised. -/
def RBeh.raisedExc : RBeh → Option Exc
  | .raises e' => some e'
  | _ => none

/-- Calls made by the final-handler stage when `x` is in play. -/
def finCalls (fin : Final) (x : Exc) : List CallEv :=
  match fin with
  | .fn b => [.final x b.raised]
  | _ => []

/-- Exception in play after the final-handler stage. -/
def finExc (fin : Final) (x : Exc) : Exc :=
  match fin with
  | .fn b => b.raised.getD x
  | _ => x

theorem handleException_retTrue (hier : Hier) (hs : List Handler) (fin : Final) (e : Exc) :
    handleException hier .retTrue hs fin e =
      { trace := [.reactor e none], caught := false, loopExc := none, recorded := none,
        reraised := none, swallowedByReactor := true } := rfl

theorem handleException_of_ne (hier : Hier) (r : RBeh) (hs : List Handler) (fin : Final) (e : Exc)
    (hr : r ≠ .retTrue) :
    handleException hier r hs fin e =
      { trace := .reactor e r.raisedExc :: (tryExceptChain hier hs (r.replace e)).1 ++
          finCalls fin (tryExceptChain hier hs (r.replace e)).2.exc,
        caught := (tryExceptChain hier hs (r.replace e)).2.isCaught,
        loopExc := some (tryExceptChain hier hs (r.replace e)).2.exc,
        recorded := some (finExc fin (tryExceptChain hier hs (r.replace e)).2.exc),
        reraised :=
          if fin = .none ∧ (tryExceptChain hier hs (r.replace e)).2.isCaught = false then
            some (finExc fin (tryExceptChain hier hs (r.replace e)).2.exc)
          else none,
        swallowedByReactor := false } := by
  cases r with
  | retTrue => exact absurd rfl hr
  | retFalse =>
    simp only [handleException, handlerLoop_eq_chain, RBeh.replace, RBeh.raisedExc, Option.getD]
    cases fin with
    | none => simp [finCalls, finExc]
    | false => simp [finCalls, finExc]
    | fn b => cases b <;> simp [finCalls, finExc, Beh.raised]
  | raises e' =>
    simp only [handleException, handlerLoop_eq_chain, RBeh.replace, RBeh.raisedExc, Option.getD]
    cases fin with
    | none => simp [finCalls, finExc]
    | false => simp [finCalls, finExc]
    | fn b => cases b <;> simp [finCalls, finExc, Beh.raised]

theorem replace_eq (r : RBeh) (e : Exc) : r.raisedExc.getD e = r.replace e := by
  cases r <;> rfl

theorem finCalls_not_handler (fin : Final) (x : Exc) :
    (finCalls fin x).filter CallEv.isHandler = [] := by
  cases fin <;> simp [finCalls, CallEv.isHandler]

theorem lastExc_finCalls (fin : Final) (x : Exc) : lastExc x (finCalls fin x) = finExc fin x := by
  cases fin <;> simp [finCalls, finExc, lastExc, CallEv.raised]

theorem argsChained_finCalls (fin : Final) (x : Exc) : argsChained x (finCalls fin x) := by
  cases fin <;> simp [finCalls, argsChained, CallEv.arg]

theorem filter_isHandler_chain (hier : Hier) (hs : List Handler) (e : Exc) :
    (tryExceptChain hier hs e).1.filter CallEv.isHandler = (tryExceptChain hier hs e).1 :=
  List.filter_eq_self.mpr (chain_all_handler hier hs e)

theorem not_isFinal_of_isHandler {ev : CallEv} (h : ev.isHandler = true) : ev.isFinal = false := by
  cases ev <;> simp_all [CallEv.isHandler, CallEv.isFinal]

/-! ## Registration -/

theorem registerHandler_early (hs : List Handler) (h : Handler) :
    registerHandler hs h true = h :: hs := rfl

theorem registerHandler_late (hs : List Handler) (h : Handler) :
    registerHandler hs h false = hs ++ [h] := rfl

theorem registerHandlers_eq (rs : List (Handler × Bool)) : ∀ (hs : List Handler),
    registerHandlers hs rs =
      ((rs.filter (fun r => r.2)).map (·.1)).reverse ++ hs ++
        (rs.filter (fun r => !r.2)).map (·.1) := by
  induction rs with
  | nil => intro hs; simp [registerHandlers]
  | cons r rs ih =>
    intro hs
    obtain ⟨h, b⟩ := r
    have := ih (registerHandler hs h b)
    simp only [registerHandlers, List.foldl_cons] at this ⊢
    rw [this]
    cases b
    · simp [registerHandler_late]
    · simp [registerHandler_early]

end PyCraft
