import PyCraft.Lemmas.C05Dispatch
/-!
Helper lemmas for `Props/C05Dispatch.lean`, third part: the bytes the LIVE `write_fields` of each
hand-written class produces for the sample packet under every known protocol version — and the bytes it
produces for what the live `read` made of them — are the bytes of the MODEL's codec for that version
(`handCodec`), on `sampleOf` resp. on its normalisation.
-/
namespace PyCraft.Dsp
open PyCraft PyCraft.Pk PyCraft.Gen

/-- what the model predicts for a row of a `BytesTable` -/
def expectedBytes (k : Codec) : Option Bytes × Option Bytes :=
  ((k.write (sampleOf k)).toOption, (k.write (k.norm (sampleOf k))).toOption)

/-- the distinct flag records of the versions whose row points to variant `j` -/
def flagsUsing {F : Type} [BEq F] (flagsR : Nat → F) (l : List ((Nat × Nat) × (Nat × Nat))) (j : Nat) :
    List F :=
  l.foldl (fun acc q =>
    if q.2.2 == j && !acc.contains (flagsR q.1.2) then flagsR q.1.2 :: acc else acc) []

theorem flagsUsing_aux {F : Type} [BEq F] [LawfulBEq F] (flagsR : Nat → F) (j : Nat) :
    ∀ (l : List ((Nat × Nat) × (Nat × Nat))) (acc : List F),
      (∀ f ∈ acc, f ∈ l.foldl (fun acc q =>
        if q.2.2 == j && !acc.contains (flagsR q.1.2) then flagsR q.1.2 :: acc else acc) acc) ∧
      (∀ q ∈ l, q.2.2 = j → flagsR q.1.2 ∈ l.foldl (fun acc q =>
        if q.2.2 == j && !acc.contains (flagsR q.1.2) then flagsR q.1.2 :: acc else acc) acc)
  | [], acc => ⟨fun f hf => hf, fun q hq => by simp at hq⟩
  | q0 :: l, acc => by
    simp only [List.foldl_cons]
    obtain ⟨ih1, ih2⟩ := flagsUsing_aux flagsR j l
      (if q0.2.2 == j && !acc.contains (flagsR q0.1.2) then flagsR q0.1.2 :: acc else acc)
    refine ⟨fun f hf => ih1 f ?_, fun q hq hj => ?_⟩
    · split
      · exact List.mem_cons_of_mem _ hf
      · exact hf
    · rcases List.mem_cons.mp hq with rfl | hq
      · apply ih1
        split
        · exact List.mem_cons_self
        · next hc =>
          simp only [hj, beq_self_eq_true, Bool.true_and, Bool.not_eq_true', Bool.not_eq_false] at hc
          simpa using hc
      · exact ih2 q hq hj

/-- VARIANT-major check (the expensive `expectedBytes` is evaluated once per distinct byte string and
flag record, not once per version): every row points to an existing variant; and each variant is what
the model writes under the flags of EVERY version whose row points to it. -/
def bytesCheck {F : Type} [BEq F] (tab : C05D.BytesTable) (flagsR : Nat → F) (mk : F → Codec) : Bool :=
  liveTables.indices.length == tab.rows.length &&
  (List.zipWith (fun (p x : Nat × Nat) => p.1 == x.1 && decide (x.2 < tab.variants.length))
    liveTables.indices tab.rows).all id &&
  tab.variants.zipIdx.all fun vj =>
    (flagsUsing flagsR (liveTables.indices.zip tab.rows) vj.2).all fun f =>
      vj.1 == expectedBytes (mk f)

/-- the table has one row per known protocol version, in order, and each row holds the bytes the model's
codec of the class for that version writes for the sample and for the normalised sample -/
def BytesAgree (tab : C05D.BytesTable) : Prop :=
  tab.rows.map (·.1) = liveTables.knownProtocols ∧
  ∀ x ∈ tab.rows, ∃ k, handCodec tab.cls x.1 = some k ∧ tab.variants[x.2]? = some (expectedBytes k)

theorem bytesAgree_of_check {F : Type} [BEq F] [LawfulBEq F] (tab : C05D.BytesTable)
    (flagsR : Nat → F) (mk : F → Codec)
    (hR : ∀ v iv, index liveTables v = some iv → handCodec tab.cls v = some (mk (flagsR iv)))
    (h : bytesCheck tab flagsR mk = true) : BytesAgree tab := by
  simp only [bytesCheck, Bool.and_eq_true, beq_iff_eq] at h
  obtain ⟨⟨hl, hz⟩, hv⟩ := h
  have hz' := zipWith_all _ _ _ hz
  refine ⟨?_, fun x hx => ?_⟩
  · rw [← indices_keys]
    exact (map_eq_of_zip (·.1) (·.1) _ _ hl (fun p x hm => by
      have := hz' p x hm
      simp only [Bool.and_eq_true, beq_iff_eq] at this
      exact this.1)).symm
  · obtain ⟨p, hp⟩ := mem_zip_of_mem_right _ _ hl x hx
    have h1 := hz' p x hp
    simp only [Bool.and_eq_true, beq_iff_eq, decide_eq_true_eq] at h1
    obtain ⟨hpx, hlt⟩ := h1
    have hmem : (tab.variants[x.2], x.2) ∈ tab.variants.zipIdx := by
      rw [List.mem_zipIdx_iff_getElem?]; simp [hlt]
    have h2 := List.all_eq_true.mp hv _ hmem
    refine ⟨mk (flagsR p.2), ?_, ?_⟩
    · rw [← hpx]; exact hR p.1 p.2 (index_of_mem p (zip_fst_mem hp).1)
    · have hin := (flagsUsing_aux flagsR x.2 (liveTables.indices.zip tab.rows) []).2 (p, x) hp rfl
      have h3 := List.all_eq_true.mp h2 _ hin
      have h4 : tab.variants[x.2] = expectedBytes (mk (flagsR p.2)) := eq_of_beq h3
      rw [List.getElem?_eq_getElem hlt, h4]

def mapBytesOK : Bool :=
  withRank 107 fun a => withRank 452 fun b => withRank (PRE + 6) fun c => withRank 373 fun d =>
  withRank 364 fun e => bytesCheck C05D.mapBytes (mapFlagsR a b c d e) .map

theorem mapBytesOK_true : mapBytesOK = true := by decide +kernel

theorem map_bytes : BytesAgree C05D.mapBytes := by
  obtain ⟨a, ha, h⟩ := withRank_true mapBytesOK_true
  obtain ⟨b, hb, h⟩ := withRank_true h
  obtain ⟨c, hc, h⟩ := withRank_true h
  obtain ⟨d, hd, h⟩ := withRank_true h
  obtain ⟨e, he, h⟩ := withRank_true h
  refine bytesAgree_of_check _ _ _ (fun v iv hv => ?_) h
  have : C05D.mapBytes.cls = "MapPacket" := rfl
  simp [this, handCodec, mapFlagsOf_of_index hv ha hb hc hd he]

def spawnBytesOK : Bool :=
  withRank 49 fun a => withRank 458 fun b => withRank 100 fun c =>
    bytesCheck C05D.spawnBytes (spawnFlagsR a b c) .spawn

theorem spawnBytesOK_true : spawnBytesOK = true := by decide +kernel

theorem spawn_bytes : BytesAgree C05D.spawnBytes := by
  obtain ⟨a, ha, h⟩ := withRank_true spawnBytesOK_true
  obtain ⟨b, hb, h⟩ := withRank_true h
  obtain ⟨c, hc, h⟩ := withRank_true h
  refine bytesAgree_of_check _ _ _ (fun v iv hv => ?_) h
  have : C05D.spawnBytes.cls = "SpawnObjectPacket" := rfl
  simp [this, handCodec, spawnFlagsOf_of_index hv ha hb hc]

def faceBytesOK : Bool :=
  withRank 353 fun a => bytesCheck C05D.faceBytes (fun iv => (⟨decide (a ≤ iv)⟩ : FaceFlags)) .face

theorem faceBytesOK_true : faceBytesOK = true := by decide +kernel

theorem face_bytes : BytesAgree C05D.faceBytes := by
  obtain ⟨a, ha, h⟩ := withRank_true faceBytesOK_true
  refine bytesAgree_of_check _ _ _ (fun v iv hv => ?_) h
  have : C05D.faceBytes.cls = "FacePlayerPacket" := rfl
  simp [this, handCodec, faceFlagsOf_of_index hv ha]

def combatBytesOK : Bool :=
  withRank (PRE + 15) fun a => bytesCheck C05D.combatBytes (fun iv => (⟨decide (a ≤ iv)⟩ : CombatFlags)) .combat

theorem combatBytesOK_true : combatBytesOK = true := by decide +kernel

theorem combat_bytes : BytesAgree C05D.combatBytes := by
  obtain ⟨a, ha, h⟩ := withRank_true combatBytesOK_true
  refine bytesAgree_of_check _ _ _ (fun v iv hv => ?_) h
  have : C05D.combatBytes.cls = "CombatEventPacket" := rfl
  simp [this, handCodec, combatFlagsOf_of_index hv ha]

def flaglessBytesOK : Bool :=
  bytesCheck C05D.pliBytes (fun _ => ()) (fun _ => .pli) && bytesCheck C05D.plugBytes (fun _ => ()) (fun _ => .plug)

theorem flaglessBytesOK_true : flaglessBytesOK = true := by decide +kernel

theorem flagless_bytes : BytesAgree C05D.pliBytes ∧ BytesAgree C05D.plugBytes := by
  have h := flaglessBytesOK_true
  simp only [flaglessBytesOK, Bool.and_eq_true] at h
  refine ⟨bytesAgree_of_check _ _ _ (fun v iv _ => ?_) h.1, bytesAgree_of_check _ _ _ (fun v iv _ => ?_) h.2⟩
  · have : C05D.pliBytes.cls = "PlayerListItemPacket" := rfl
    simp [this, handCodec]
  · have : C05D.plugBytes.cls = "PluginResponsePacket" := rfl
    simp [this, handCodec]

end PyCraft.Dsp
