import PyCraft.Model.C13Roles
import PyCraft.Lemmas.Dispatch
/-!
Specification vocabulary and helper lemmas for `Props/C13Roles.lean` (audit gap 17): the four
registration flags decide the ROLE a listener plays, in every dispatch of every session.
-/
namespace PyCraft.Roles
open PyCraft

/-! ## Registration flags → lists -/

/-- The listeners registered with exactly these flags, in registration order. -/
def sel (rs : List Reg) (early outgoing : Bool) : List Listener :=
  (rs.filter (fun r => r.early == early && r.outgoing == outgoing)).map (·.l)

theorem filter_slot (rs : List Reg) (e o : Bool) :
    rs.filter (fun r => slotOf r.early r.outgoing == slotOf e o) =
      rs.filter (fun r => r.early == e && r.outgoing == o) := by
  apply List.filter_congr
  intro r _
  cases e <;> cases o <;> cases r.early <;> cases r.outgoing <;> rfl

theorem registerAll_slot (rs : List Reg) (e o : Bool) :
    (registerAll {} rs).get (slotOf e o) = sel rs e o := by
  rw [registerAll_get, filter_slot]
  cases e <;> cases o <;> simp [Cfg.get, sel, slotOf]

theorem registerAll_early (rs : List Reg) :
    (registerAll {} rs).earlyPacketListeners = sel rs true false := registerAll_slot rs true false
theorem registerAll_ordinary (rs : List Reg) :
    (registerAll {} rs).packetListeners = sel rs false false := registerAll_slot rs false false
theorem registerAll_earlyOut (rs : List Reg) :
    (registerAll {} rs).earlyOutgoingPacketListeners = sel rs true true :=
  registerAll_slot rs true true
theorem registerAll_ordOut (rs : List Reg) :
    (registerAll {} rs).outgoingPacketListeners = sel rs false true := registerAll_slot rs false true

theorem registerAll_snoc (cfg : Cfg) (rs : List Reg) (r : Reg) :
    registerAll cfg (rs ++ [r]) = register (registerAll cfg rs) r.l r.early r.outgoing := by
  simp [registerAll, List.foldl_append]

theorem mem_sel {rs : List Reg} {e o : Bool} {l : Listener} (h : l ∈ sel rs e o) :
    ∃ r ∈ rs, r.l = l ∧ r.early = e ∧ r.outgoing = o := by
  simp only [sel, List.mem_map, List.mem_filter, Bool.and_eq_true, beq_iff_eq] at h
  obtain ⟨r, ⟨hr, he, ho⟩, hl⟩ := h
  exact ⟨r, hr, hl, he, ho⟩

/-- `Cfg.react` after registrations = the documented sequence over the listeners registered with
`early ∧ ¬outgoing` / `¬early ∧ ¬outgoing`. -/
theorem react_registerAll (hier : Hier) (rs : List Reg) (rIgn : Bool) (c : Nat) :
    (registerAll {} rs).react hier rIgn c =
      specIncoming hier (sel rs true false) (sel rs false false) rIgn c := by
  simp only [Cfg.react, registerAll_early, registerAll_ordinary]
  simp only [reactIncoming, specIncoming, stagesIn, runListeners_eq]
  by_cases hA : (stage hier Ev.early c (sel rs true false)).any (fun x => x.2) = true
  · simp [cutAfterFirst_append, hA]
  · simp only [Bool.not_eq_true] at hA
    cases rIgn <;>
      simp [cutAfterFirst_append, hA, cutAfterFirst_cons, cutAfterFirst_of_not_any _ _ hA]

theorem write_registerAll (hier : Hier) (rs : List Reg) (c : Nat) :
    (registerAll {} rs).write hier c =
      specOutgoing hier (sel rs true true) (sel rs false true) c := by
  simp only [Cfg.write, registerAll_earlyOut, registerAll_ordOut]
  simp only [writeOutgoing, specOutgoing, stagesOut, runListeners_eq]
  by_cases hA : (stage hier OutEv.earlyOut c (sel rs true true)).any (fun x => x.2) = true
  · simp [cutAfterFirst_append, hA]
  · simp only [Bool.not_eq_true] at hA
    simp [cutAfterFirst_append, hA, cutAfterFirst_cons, cutAfterFirst_of_not_any _ _ hA]

/-- Every entry of a `specIncoming` log names a matching listener of the list its tag says. -/
theorem mem_reactIncoming_cases (hier : Hier) (early ordinary : List Listener) (rIgn : Bool)
    (c : Nat) (ev : Ev) (h : ev ∈ (reactIncoming hier early ordinary rIgn c).1) :
    (∃ l ∈ early, l.matches hier c = true ∧ ev = Ev.early l.id) ∨ ev = Ev.reaction ∨
      (∃ l ∈ ordinary, l.matches hier c = true ∧ ev = Ev.ordinary l.id) := by
  rw [reactIncoming_log] at h
  rcases List.mem_append.mp h with h | h
  · exact .inl (runListeners_log_mem hier Ev.early c early ev h)
  · split at h
    · simp at h
    · rcases List.mem_cons.mp h with h | h
      · exact .inr (.inl h)
      · split at h
        · simp at h
        · exact .inr (.inr (runListeners_log_mem hier Ev.ordinary c ordinary ev h))

theorem mem_writeOutgoing_cases (hier : Hier) (earlyOut ordOut : List Listener) (c : Nat)
    (ev : OutEv) (h : ev ∈ writeOutgoing hier earlyOut ordOut c) :
    (∃ l ∈ earlyOut, l.matches hier c = true ∧ ev = OutEv.earlyOut l.id) ∨ ev = OutEv.written ∨
      (∃ l ∈ ordOut, l.matches hier c = true ∧ ev = OutEv.ordOut l.id) := by
  rw [writeOutgoing_log] at h
  rcases List.mem_append.mp h with h | h
  · exact .inl (runListeners_log_mem hier OutEv.earlyOut c earlyOut ev h)
  · split at h
    · simp at h
    · rcases List.mem_cons.mp h with h | h
      · exact .inr (.inl h)
      · exact .inr (.inr (runListeners_log_mem hier OutEv.ordOut c ordOut ev h))

/-! ## Reading traces -/

@[simp] theorem regsOf_append (t u : List Tr) : regsOf (t ++ u) = regsOf t ++ regsOf u := by
  simp [regsOf]
@[simp] theorem issuedOf_append (f : Bool) (t u : List Tr) :
    issuedOf f (t ++ u) = issuedOf f t ++ issuedOf f u := by simp [issuedOf]
@[simp] theorem outsOf_append (x : Site) (t u : List Tr) :
    outsOf x (t ++ u) = outsOf x t ++ outsOf x u := by simp [outsOf]
@[simp] theorem incsOf_append (t u : List Tr) : incsOf (t ++ u) = incsOf t ++ incsOf u := by
  simp [incsOf]
@[simp] theorem reactionWritesOf_append (R : Reactor) (t u : List Tr) :
    reactionWritesOf R (t ++ u) = reactionWritesOf R t ++ reactionWritesOf R u := by
  simp [reactionWritesOf]
@[simp] theorem allIssuedOf_append (t u : List Tr) :
    allIssuedOf (t ++ u) = allIssuedOf t ++ allIssuedOf u := by simp [allIssuedOf]

@[simp] theorem regsOf_nil : regsOf [] = [] := rfl
@[simp] theorem issuedOf_nil (f : Bool) : issuedOf f [] = [] := rfl
@[simp] theorem outsOf_nil (x : Site) : outsOf x [] = [] := rfl
@[simp] theorem incsOf_nil : incsOf [] = [] := rfl
@[simp] theorem reactionWritesOf_nil (R : Reactor) : reactionWritesOf R [] = [] := rfl
@[simp] theorem allIssuedOf_nil : allIssuedOf [] = [] := rfl

@[simp] theorem regsOf_cons (e : Tr) (t : List Tr) :
    regsOf (e :: t) = (match e with | .reg r => [r] | _ => []) ++ regsOf t := by
  cases e <;> simp [regsOf]
@[simp] theorem issuedOf_cons (f : Bool) (e : Tr) (t : List Tr) :
    issuedOf f (e :: t) =
      (match e with | .issued p g => if g = f then [p] else [] | _ => []) ++ issuedOf f t := by
  cases e with
  | issued p g => by_cases h : g = f <;> simp [issuedOf, h]
  | _ => simp [issuedOf]
@[simp] theorem outsOf_cons (x : Site) (e : Tr) (t : List Tr) :
    outsOf x (e :: t) =
      (match e with | .out y p _ => if y = x then [p] else [] | _ => []) ++ outsOf x t := by
  cases e with
  | out y p evs => by_cases h : y = x <;> simp [outsOf, h]
  | _ => simp [outsOf]
@[simp] theorem incsOf_cons (e : Tr) (t : List Tr) :
    incsOf (e :: t) = (match e with | .inc p _ _ => [p] | _ => []) ++ incsOf t := by
  cases e <;> simp [incsOf]
@[simp] theorem reactionWritesOf_cons (R : Reactor) (e : Tr) (t : List Tr) :
    reactionWritesOf R (e :: t) =
      (match e with | .inc p evs _ => if Ev.reaction ∈ evs then R.writes p else [] | _ => []) ++
        reactionWritesOf R t := by
  cases e <;> simp [reactionWritesOf]
@[simp] theorem allIssuedOf_cons (e : Tr) (t : List Tr) :
    allIssuedOf (e :: t) = (match e with | .issued p f => [(p, f)] | _ => []) ++ allIssuedOf t := by
  cases e <;> simp [allIssuedOf]

/-! ## What a correct trace entry looks like -/

/-- The entry `e` is what the documentation promises when `rs` are the registrations made so far:
an outgoing dispatch ran the listeners registered with `outgoing=True` — those with `early=True`
before the write, the others after it; an incoming dispatch ran the listeners registered with
`outgoing=False` — those with `early=True` before the reaction, the others after it; both cut after
the first `IgnorePacket`. -/
def entryOKRegs (hier : Hier) (R : Reactor) (rs : List Reg) : Tr → Prop
  | .out _ p evs => evs = specOutgoing hier (sel rs true true) (sel rs false true) p.cls
  | .inc p evs ign =>
    (evs, ign) = specIncoming hier (sel rs true false) (sel rs false false) (R.ignores p) p.cls
  | _ => True

/-- The entry `e`, appended to a trace `pre`, is correct w.r.t. the registrations recorded in
`pre`. -/
def entryOK (hier : Hier) (R : Reactor) (pre : List Tr) (e : Tr) : Prop :=
  entryOKRegs hier R (regsOf pre) e

/-- Every entry of the trace is correct w.r.t. the part of the trace before it. -/
def AllOK (hier : Hier) (R : Reactor) (t : List Tr) : Prop :=
  ∀ pre e post, t = pre ++ e :: post → entryOK hier R pre e

theorem AllOK.nil (hier : Hier) (R : Reactor) : AllOK hier R [] := by
  intro pre e post h
  simp at h

theorem AllOK.snoc {hier : Hier} {R : Reactor} {t : List Tr} {e : Tr} (h : AllOK hier R t)
    (he : entryOK hier R t e) : AllOK hier R (t ++ [e]) := by
  intro pre x post hx
  rcases List.eq_nil_or_concat post with hp | ⟨q, y, hp⟩
  · subst hp
    have := List.append_inj' hx (by simp)
    obtain ⟨h1, h2⟩ := this
    simp only [List.cons.injEq, and_true] at h2
    subst h1; subst h2; exact he
  · subst hp
    have hx' : t ++ [e] = (pre ++ x :: q) ++ [y] := by simpa using hx
    have := List.append_inj' hx' (by simp)
    exact h pre x q this.1

/-- Listener lists agree with the recorded registrations, and all entries so far are correct. -/
def Inv (hier : Hier) (R : Reactor) (s : Conn) : Prop :=
  s.cfg = registerAll {} (regsOf s.trace) ∧ AllOK hier R s.trace

/-- Queue accounting: unforced packets leave in FIFO order and those not yet dispatched are exactly
the queue; forced packets are dispatched at once. -/
def Acct (s : Conn) : Prop :=
  outsOf .popped s.trace ++ s.queue = issuedOf false s.trace ∧
    outsOf .forced s.trace = issuedOf true s.trace

/-- `s'` differs from `s` only by outgoing traffic; `δ` = the `write_packet` calls in between. -/
structure Quiet (R : Reactor) (s s' : Conn) (δ : List (Pkt × Bool)) : Prop where
  cfg : s'.cfg = s.cfg
  inbox : s'.inbox = s.inbox
  regs : regsOf s'.trace = regsOf s.trace
  incs : incsOf s'.trace = incsOf s.trace
  rws : reactionWritesOf R s'.trace = reactionWritesOf R s.trace
  iss : allIssuedOf s'.trace = allIssuedOf s.trace ++ δ
  ext : ∃ t, s'.trace = s.trace ++ t

/-- Everything the theorems need about a call that only produces outgoing traffic. -/
structure Pres (hier : Hier) (R : Reactor) (s s' : Conn) (δ : List (Pkt × Bool)) : Prop where
  inv : Inv hier R s → Inv hier R s'
  acct : Acct s → Acct s'
  quiet : Quiet R s s' δ

theorem Pres.refl (hier : Hier) (R : Reactor) (s : Conn) : Pres hier R s s [] :=
  ⟨id, id, ⟨rfl, rfl, rfl, rfl, rfl, by simp, ⟨[], by simp⟩⟩⟩

theorem Pres.trans {hier : Hier} {R : Reactor} {s s' s'' : Conn} {δ δ' : List (Pkt × Bool)}
    (h : Pres hier R s s' δ) (h' : Pres hier R s' s'' δ') : Pres hier R s s'' (δ ++ δ') :=
  ⟨fun x => h'.inv (h.inv x), fun x => h'.acct (h.acct x),
    ⟨h'.quiet.cfg.trans h.quiet.cfg, h'.quiet.inbox.trans h.quiet.inbox,
      h'.quiet.regs.trans h.quiet.regs, h'.quiet.incs.trans h.quiet.incs,
      h'.quiet.rws.trans h.quiet.rws, by rw [h'.quiet.iss, h.quiet.iss, List.append_assoc], by
        obtain ⟨t, ht⟩ := h.quiet.ext
        obtain ⟨t', ht'⟩ := h'.quiet.ext
        exact ⟨t ++ t', by rw [ht', ht, List.append_assoc]⟩⟩⟩

/-! ## The outgoing calls -/

theorem writeRaw_inv {hier : Hier} {R : Reactor} {s : Conn} (site : Site) (p : Pkt)
    (h : Inv hier R s) : Inv hier R (s.writeRaw hier site p) := by
  obtain ⟨hc, hok⟩ := h
  refine ⟨by simpa [Conn.writeRaw] using hc, ?_⟩
  simp only [Conn.writeRaw]
  apply hok.snoc
  simp only [entryOK, entryOKRegs, hc, write_registerAll]

theorem writePacket_pres (hier : Hier) (R : Reactor) (s : Conn) (p : Pkt) (f : Bool) :
    Pres hier R s (s.writePacket hier p f) [(p, f)] := by
  cases f
  · refine ⟨?_, ?_, ?_⟩
    · rintro ⟨hc, hok⟩
      exact ⟨by simpa [Conn.writePacket] using hc, by
        simpa [Conn.writePacket] using hok.snoc (e := Tr.issued p false) trivial⟩
    · rintro ⟨h1, h2⟩
      simp only [Acct, Conn.writePacket, Bool.false_eq_true, ↓reduceIte] at *
      constructor
      · simp [← h1]
      · simpa using h2
    · exact ⟨by simp [Conn.writePacket], by simp [Conn.writePacket], by simp [Conn.writePacket],
        by simp [Conn.writePacket], by simp [Conn.writePacket], by simp [Conn.writePacket],
        ⟨[Tr.issued p false], by simp [Conn.writePacket]⟩⟩
  · refine ⟨?_, ?_, ?_⟩
    · rintro ⟨hc, hok⟩
      have : Inv hier R { s with trace := s.trace ++ [Tr.issued p true] } :=
        ⟨by simpa using hc, hok.snoc (e := Tr.issued p true) trivial⟩
      simpa [Conn.writePacket] using writeRaw_inv .forced p this
    · rintro ⟨h1, h2⟩
      simp only [Acct, Conn.writePacket, ↓reduceIte, Conn.writeRaw] at *
      constructor
      · simpa using h1
      · simp [h2]
    · exact ⟨by simp [Conn.writePacket, Conn.writeRaw], by simp [Conn.writePacket, Conn.writeRaw],
        by simp [Conn.writePacket, Conn.writeRaw], by simp [Conn.writePacket, Conn.writeRaw],
        by simp [Conn.writePacket, Conn.writeRaw], by simp [Conn.writePacket, Conn.writeRaw],
        ⟨[Tr.issued p true, Tr.out .forced p (s.cfg.write hier p.cls)], by
          simp [Conn.writePacket, Conn.writeRaw]⟩⟩

theorem popPacket_pres (hier : Hier) (R : Reactor) (s : Conn) :
    Pres hier R s (s.popPacket hier).1 [] := by
  unfold Conn.popPacket
  split
  · exact Pres.refl hier R s
  · rename_i p q hq
    refine ⟨?_, ?_, ?_⟩
    · rintro ⟨hc, hok⟩
      exact writeRaw_inv .popped p (s := { s with queue := q }) ⟨hc, hok⟩
    · rintro ⟨h1, h2⟩
      simp only [Acct, Conn.writeRaw] at *
      rw [hq] at h1
      constructor
      · simpa using h1
      · simpa using h2
    · exact ⟨by simp [Conn.writeRaw], by simp [Conn.writeRaw], by simp [Conn.writeRaw],
        by simp [Conn.writeRaw], by simp [Conn.writeRaw], by simp [Conn.writeRaw],
        ⟨[Tr.out .popped p (s.cfg.write hier p.cls)], by simp [Conn.writeRaw]⟩⟩

/-- `_pop_packet` answers `True` iff the queue was non-empty, and then the queue lost its head. -/
theorem popPacket_queue (hier : Hier) (s : Conn) :
    (s.popPacket hier).2 = !s.queue.isEmpty ∧ (s.popPacket hier).1.queue = s.queue.tail := by
  unfold Conn.popPacket
  split <;> rename_i h <;> simp [h, Conn.writeRaw]

theorem popPacket_trace (hier : Hier) (s : Conn) :
    outsOf .popped (s.popPacket hier).1.trace = outsOf .popped s.trace ++ s.queue.take 1 := by
  unfold Conn.popPacket
  split <;> rename_i h <;> simp [h, Conn.writeRaw]

theorem flushLoop_pres (hier : Hier) (R : Reactor) :
    ∀ (fuel : Nat) (s : Conn), Pres hier R s (flushLoop hier fuel s) [] := by
  intro fuel
  induction fuel with
  | zero => intro s; exact Pres.refl hier R s
  | succ n ih =>
    intro s
    have hp := popPacket_pres hier R s
    unfold flushLoop
    split
    · rename_i s' hs
      rw [hs] at hp
      simpa using hp.trans (ih s')
    · rename_i s' hs
      rw [hs] at hp
      exact hp

theorem flushLoop_queue (hier : Hier) :
    ∀ (fuel : Nat) (s : Conn), s.queue.length ≤ fuel →
      (flushLoop hier fuel s).queue = [] ∧
      outsOf .popped (flushLoop hier fuel s).trace = outsOf .popped s.trace ++ s.queue := by
  intro fuel
  induction fuel with
  | zero =>
    intro s h
    have : s.queue = [] := List.eq_nil_of_length_eq_zero (by omega)
    simp [flushLoop, this]
  | succ n ih =>
    intro s h
    have hq := popPacket_queue hier s
    have ht := popPacket_trace hier s
    unfold flushLoop
    split
    · rename_i s' hs
      rw [hs] at hq ht
      simp only at hq ht
      have hl : s'.queue.length ≤ n := by rw [hq.2]; simp; omega
      obtain ⟨h1, h2⟩ := ih s' hl
      refine ⟨h1, ?_⟩
      rw [h2, ht, hq.2, List.append_assoc]
      cases s.queue <;> simp
    · rename_i s' hs
      rw [hs] at hq ht
      simp only at hq ht
      have he : s.queue = [] := by
        have h1 := hq.1
        cases hq' : s.queue with
        | nil => rfl
        | cons a b => rw [hq'] at h1; simp at h1
      rw [hq.2, ht, he]
      simp

theorem writeLoop_pres (hier : Hier) (R : Reactor) :
    ∀ (budget : Nat) (s : Conn) (n : Nat), Pres hier R s (writeLoop hier budget s n).1 [] := by
  intro budget
  induction budget with
  | zero => intro s n; exact Pres.refl hier R s
  | succ b ih =>
    intro s n
    have hp := popPacket_pres hier R s
    unfold writeLoop
    split
    · rename_i s' hs
      rw [hs] at hp
      simpa using hp.trans (ih s' (n + 1))
    · rename_i s' hs
      rw [hs] at hp
      exact hp

/-- The write phase pops exactly `min budget queue.length` packets, in queue order, and counts
them. -/
theorem writeLoop_progress (hier : Hier) :
    ∀ (budget : Nat) (s : Conn) (n : Nat),
      (writeLoop hier budget s n).2 = n + min budget s.queue.length ∧
      (writeLoop hier budget s n).1.queue = s.queue.drop (min budget s.queue.length) ∧
      outsOf .popped (writeLoop hier budget s n).1.trace =
        outsOf .popped s.trace ++ s.queue.take (min budget s.queue.length) := by
  intro budget
  induction budget with
  | zero => intro s n; simp [writeLoop]
  | succ b ih =>
    intro s n
    have hq := popPacket_queue hier s
    have ht := popPacket_trace hier s
    unfold writeLoop
    split
    · rename_i s' hs
      rw [hs] at hq ht
      simp only at hq ht
      obtain ⟨h1, h2, h3⟩ := ih s' (n + 1)
      cases hq' : s.queue with
      | nil => simp [hq'] at hq
      | cons p q =>
        rw [hq'] at hq ht
        simp only [List.tail_cons] at hq
        rw [h1, h2, h3, ht, hq.2]
        simp only [List.length_cons, Nat.add_min_add_right, List.take_succ_cons, List.drop_succ_cons]
        refine ⟨by omega, trivial, by simp⟩
    · rename_i s' hs
      rw [hs] at hq ht
      simp only at hq ht
      have he : s.queue = [] := by
        have h1 := hq.1
        cases hq' : s.queue with
        | nil => rfl
        | cons a b => rw [hq'] at h1; simp at h1
      rw [hq.2, ht, he]
      simp

theorem writeAll_pres (hier : Hier) (R : Reactor) :
    ∀ (ws : List (Pkt × Bool)) (s : Conn), Pres hier R s (s.writeAll hier ws) ws := by
  intro ws
  induction ws with
  | nil => intro s; exact Pres.refl hier R s
  | cons w ws ih =>
    intro s
    have h1 := writePacket_pres hier R s w.1 w.2
    have h2 := ih (s.writePacket hier w.1 w.2)
    simpa [Conn.writeAll] using h1.trans h2

theorem writeAll_queue (hier : Hier) :
    ∀ (ws : List (Pkt × Bool)) (s : Conn),
      outsOf .popped (s.writeAll hier ws).trace = outsOf .popped s.trace ∧
      (s.writeAll hier ws).queue = s.queue ++ (ws.filter (fun w => !w.2)).map (·.1) := by
  intro ws
  induction ws with
  | nil => intro s; simp [Conn.writeAll]
  | cons w ws ih =>
    intro s
    obtain ⟨h1, h2⟩ := ih (s.writePacket hier w.1 w.2)
    simp only [Conn.writeAll, List.foldl_cons] at h1 h2 ⊢
    rw [h1, h2]
    obtain ⟨p, f⟩ := w
    cases f <;> simp [Conn.writePacket, Conn.writeRaw]

/-! ## The incoming call -/

/-- `_react` in one piece: the call log is `Cfg.react` of the lists as they are at the call; the
reaction's `write_packet` calls happen iff the reaction ran; nothing else changes. -/
theorem react_eq (hier : Hier) (R : Reactor) (s : Conn) (p : Pkt) :
    s.react hier R p =
      { (if Ev.reaction ∈ (s.cfg.react hier (R.ignores p) p.cls).1
          then s.writeAll hier (R.writes p) else s) with
        trace := (if Ev.reaction ∈ (s.cfg.react hier (R.ignores p) p.cls).1
            then s.writeAll hier (R.writes p) else s).trace ++
          [Tr.inc p (s.cfg.react hier (R.ignores p) p.cls).1
            (s.cfg.react hier (R.ignores p) p.cls).2] } := by
  have hcfg := (writeAll_pres hier R (R.writes p) s).quiet.cfg
  have hno := not_mem_runListeners_of_tag hier Ev.early p.cls s.cfg.earlyPacketListeners
    Ev.reaction (by simp)
  simp only [Cfg.react]
  cases h1 : (runListeners hier Ev.early p.cls s.cfg.earlyPacketListeners).2
  · cases h2 : R.ignores p
    · simp [Conn.react, reactIncoming, h1, h2, hcfg]
    · simp [Conn.react, reactIncoming, h1, h2]
  · simp [Conn.react, reactIncoming, h1, hno]

/-- Everything the theorems need about a stretch of incoming dispatches: `took` = the packets
`_react` was called with. -/
structure IncFacts (hier : Hier) (R : Reactor) (s s' : Conn) (took : List Pkt) : Prop where
  inv : Inv hier R s → Inv hier R s'
  acct : Acct s → Acct s'
  cfg : s'.cfg = s.cfg
  regs : regsOf s'.trace = regsOf s.trace
  incs : incsOf s'.trace = incsOf s.trace ++ took
  popped : outsOf .popped s'.trace = outsOf .popped s.trace
  writes : ∃ δ, allIssuedOf s'.trace = allIssuedOf s.trace ++ δ ∧
    reactionWritesOf R s'.trace = reactionWritesOf R s.trace ++ δ ∧
    s'.queue = s.queue ++ (δ.filter (fun w => !w.2)).map (·.1)
  ext : ∃ t, s'.trace = s.trace ++ t

theorem IncFacts.setInbox (hier : Hier) (R : Reactor) (s : Conn) (ps : List Pkt) :
    IncFacts hier R s { s with inbox := ps } [] :=
  ⟨id, id, rfl, rfl, by simp, rfl, ⟨[], by simp, by simp, by simp⟩, ⟨[], by simp⟩⟩

theorem IncFacts.refl (hier : Hier) (R : Reactor) (s : Conn) : IncFacts hier R s s [] :=
  ⟨id, id, rfl, rfl, by simp, rfl, ⟨[], by simp, by simp, by simp⟩, ⟨[], by simp⟩⟩

theorem IncFacts.trans {hier : Hier} {R : Reactor} {s s' s'' : Conn} {a b : List Pkt}
    (h : IncFacts hier R s s' a) (h' : IncFacts hier R s' s'' b) :
    IncFacts hier R s s'' (a ++ b) := by
  obtain ⟨d, hd1, hd2, hd3⟩ := h.writes
  obtain ⟨d', hd1', hd2', hd3'⟩ := h'.writes
  obtain ⟨t, ht⟩ := h.ext
  obtain ⟨t', ht'⟩ := h'.ext
  exact ⟨fun x => h'.inv (h.inv x), fun x => h'.acct (h.acct x), h'.cfg.trans h.cfg,
    h'.regs.trans h.regs, by rw [h'.incs, h.incs, List.append_assoc], h'.popped.trans h.popped,
    ⟨d ++ d', by rw [hd1', hd1, List.append_assoc], by rw [hd2', hd2, List.append_assoc],
      by rw [hd3', hd3]; simp⟩, ⟨t ++ t', by rw [ht', ht, List.append_assoc]⟩⟩

theorem react_facts (hier : Hier) (R : Reactor) (s : Conn) (p : Pkt) :
    IncFacts hier R s (s.react hier R p) [p] ∧ (s.react hier R p).inbox = s.inbox := by
  rw [react_eq]
  have hw := writeAll_pres hier R (R.writes p) s
  have hq := writeAll_queue hier (R.writes p) s
  by_cases hin : Ev.reaction ∈ (s.cfg.react hier (R.ignores p) p.cls).1
  · simp only [hin, ↓reduceIte]
    refine ⟨⟨?_, ?_, hw.quiet.cfg, by simpa using hw.quiet.regs,
      by simpa using hw.quiet.incs, by simpa using hq.1,
      ⟨R.writes p, by simpa using hw.quiet.iss, by simp [hin, hw.quiet.rws], hq.2⟩, by
        obtain ⟨t, ht⟩ := hw.quiet.ext
        exact ⟨t ++ [Tr.inc p (s.cfg.react hier (R.ignores p) p.cls).1
          (s.cfg.react hier (R.ignores p) p.cls).2], by simp [ht]⟩⟩,
      hw.quiet.inbox⟩
    · intro hi
      obtain ⟨hc, hok⟩ := hw.inv hi
      refine ⟨by simpa using hc, ?_⟩
      apply hok.snoc
      simp only [entryOK, entryOKRegs]
      rw [← react_registerAll, ← hc, hw.quiet.cfg]
    · intro ha
      obtain ⟨h1, h2⟩ := hw.acct ha
      exact ⟨by simpa using h1, by simpa using h2⟩
  · simp only [hin, ↓reduceIte]
    refine ⟨⟨?_, ?_, rfl, by simp, by simp, by simp, ⟨[], by simp, by simp [hin], by simp⟩,
      ⟨_, rfl⟩⟩, trivial⟩
    · rintro ⟨hc, hok⟩
      refine ⟨by simpa using hc, ?_⟩
      apply hok.snoc
      simp only [entryOK, entryOKRegs]
      rw [← react_registerAll, ← hc]
    · rintro ⟨h1, h2⟩
      exact ⟨by simpa [Acct] using h1, by simpa [Acct] using h2⟩

/-- The read phase reacts to exactly the first `min (capR - n) inbox.length` packets of the inbox,
in order, and leaves the rest there. -/
theorem readLoop_facts (hier : Hier) (R : Reactor) (capR : Nat) :
    ∀ (todo : List Pkt) (s : Conn) (n : Nat), s.inbox = todo →
      IncFacts hier R s (readLoop hier R capR todo s n) (todo.take (min (capR - n) todo.length)) ∧
      (readLoop hier R capR todo s n).inbox = todo.drop (min (capR - n) todo.length) := by
  intro todo
  induction todo with
  | nil =>
    intro s n h
    simpa [readLoop, h] using IncFacts.refl hier R s
  | cons p ps ih =>
    intro s n h
    unfold readLoop
    by_cases hn : n < capR
    · simp only [hn, ↓reduceIte]
      have h0 := IncFacts.setInbox hier R s ps
      obtain ⟨h1, h1i⟩ := react_facts hier R { s with inbox := ps } p
      obtain ⟨h2, h2i⟩ := ih (({ s with inbox := ps }).react hier R p) (n + 1) h1i
      have hm : min (capR - n) (p :: ps).length = min (capR - (n + 1)) ps.length + 1 := by
        simp only [List.length_cons]; omega
      rw [hm]
      exact ⟨by simpa using (h0.trans h1).trans h2, by simpa using h2i⟩
    · simp only [hn, ↓reduceIte]
      have hm : min (capR - n) (p :: ps).length = 0 := by omega
      rw [hm]
      simpa [h] using IncFacts.refl hier R s

/-! ## One `_run` iteration, one operation, a whole session -/

/-- What one iteration of `_run` does: `n` queued packets written, then `m` packets reacted to. -/
structure IterFacts (hier : Hier) (R : Reactor) (s s' : Conn) (n m : Nat) : Prop where
  inv : Inv hier R s → Inv hier R s'
  acct : Acct s → Acct s'
  cfg : s'.cfg = s.cfg
  regs : regsOf s'.trace = regsOf s.trace
  incs : incsOf s'.trace = incsOf s.trace ++ s.inbox.take m
  inbox : s'.inbox = s.inbox.drop m
  popped : outsOf .popped s'.trace = outsOf .popped s.trace ++ s.queue.take n
  writes : ∃ δ, allIssuedOf s'.trace = allIssuedOf s.trace ++ δ ∧
    reactionWritesOf R s'.trace = reactionWritesOf R s.trace ++ δ ∧
    s'.queue = s.queue.drop n ++ (δ.filter (fun w => !w.2)).map (·.1)
  ext : ∃ t, s'.trace = s.trace ++ t

theorem runIter_facts (hier : Hier) (R : Reactor) (caps : Caps) (s : Conn) :
    IterFacts hier R s (s.runIter hier R caps) (min caps.capW s.queue.length)
      (min (caps.capR - min caps.capW s.queue.length) s.inbox.length) := by
  have hw := writeLoop_pres hier R caps.capW s 0
  obtain ⟨hn, hq, hp⟩ := writeLoop_progress hier caps.capW s 0
  obtain ⟨hr, hri⟩ := readLoop_facts hier R caps.capR (writeLoop hier caps.capW s 0).1.inbox
    (writeLoop hier caps.capW s 0).1 (writeLoop hier caps.capW s 0).2 rfl
  simp only [hn, Nat.zero_add, hw.quiet.inbox] at hr hri
  obtain ⟨d, hd1, hd2, hd3⟩ := hr.writes
  simp only [Conn.runIter]
  simp only [hn, Nat.zero_add, hw.quiet.inbox]
  exact ⟨fun x => hr.inv (hw.inv x), fun x => hr.acct (hw.acct x), hr.cfg.trans hw.quiet.cfg,
    hr.regs.trans hw.quiet.regs, by rw [hr.incs, hw.quiet.incs], hri, by rw [hr.popped, hp],
    ⟨d, by rw [hd1, hw.quiet.iss, List.append_nil], by rw [hd2, hw.quiet.rws], by rw [hd3, hq]⟩, by
      obtain ⟨t, ht⟩ := hw.quiet.ext
      obtain ⟨t', ht'⟩ := hr.ext
      exact ⟨t ++ t', by rw [ht', ht, List.append_assoc]⟩⟩

/-- The registrations a session makes. -/
def regOpsOf (ops : List Op) : List Reg :=
  ops.filterMap fun | .register r => some r | _ => none

/-- The session invariant: `s` is reachable from a fresh connection by `ops`. -/
structure Top (hier : Hier) (R : Reactor) (ops : List Op) (s : Conn) : Prop where
  inv : Inv hier R s
  acct : Acct s
  regs : regsOf s.trace = regOpsOf ops
  arrived : incsOf s.trace ++ s.inbox = arrivedOf ops
  issued : ∀ w, (allIssuedOf s.trace).count w =
    (userWritesOf ops).count w + (reactionWritesOf R s.trace).count w

theorem Top.init (hier : Hier) (R : Reactor) : Top hier R [] {} :=
  ⟨⟨rfl, AllOK.nil hier R⟩, ⟨rfl, rfl⟩, rfl, rfl, by intro w; rfl⟩

theorem Top.step {hier : Hier} {R : Reactor} (caps : Caps) {ops : List Op} {s : Conn}
    (h : Top hier R ops s) (op : Op) : Top hier R (ops ++ [op]) (s.step hier R caps op) := by
  obtain ⟨hinv, hacct, hregs, harr, hiss⟩ := h
  cases op with
  | register r =>
    refine ⟨?_, ?_, ?_, ?_, ?_⟩
    · obtain ⟨hc, hok⟩ := hinv
      refine ⟨?_, hok.snoc (e := Tr.reg r) trivial⟩
      simp only [Conn.step, Conn.register, regsOf_append, regsOf_cons, regsOf_nil,
        List.append_nil, registerAll_snoc, ← hc]
    · obtain ⟨h1, h2⟩ := hacct
      exact ⟨by simpa [Conn.step, Conn.register] using h1,
        by simpa [Conn.step, Conn.register] using h2⟩
    · simp only [Conn.step, Conn.register, regsOf_append, hregs]; simp [regOpsOf]
    · simpa [Conn.step, Conn.register, arrivedOf] using harr
    · intro w
      simpa [Conn.step, Conn.register, userWritesOf] using hiss w
  | write p f =>
    have hp := writePacket_pres hier R s p f
    refine ⟨hp.inv hinv, hp.acct hacct, ?_, ?_, ?_⟩
    · simp only [Conn.step, hp.quiet.regs, hregs]; simp [regOpsOf]
    · simp only [Conn.step, hp.quiet.incs, hp.quiet.inbox, harr]; simp [arrivedOf]
    · intro w
      have := hiss w
      simp only [Conn.step, hp.quiet.iss, hp.quiet.rws, List.count_append]
      simp [userWritesOf, List.count_append] at this ⊢
      omega
  | pop =>
    have hp := popPacket_pres hier R s
    refine ⟨hp.inv hinv, hp.acct hacct, ?_, ?_, ?_⟩
    · simp only [Conn.step, hp.quiet.regs, hregs]; simp [regOpsOf]
    · simp only [Conn.step, hp.quiet.incs, hp.quiet.inbox, harr]; simp [arrivedOf]
    · intro w
      have := hiss w
      simp only [Conn.step, hp.quiet.iss, hp.quiet.rws, List.append_nil]
      simpa [userWritesOf] using this
  | flush =>
    have hp := flushLoop_pres hier R s.queue.length s
    refine ⟨hp.inv hinv, hp.acct hacct, ?_, ?_, ?_⟩
    · simp only [Conn.step, Conn.flush, hp.quiet.regs, hregs]; simp [regOpsOf]
    · simp only [Conn.step, Conn.flush, hp.quiet.incs, hp.quiet.inbox, harr]; simp [arrivedOf]
    · intro w
      have := hiss w
      simp only [Conn.step, Conn.flush, hp.quiet.iss, hp.quiet.rws, List.append_nil]
      simpa [userWritesOf] using this
  | arrive ps =>
    refine ⟨hinv, hacct, ?_, ?_, ?_⟩
    · simp only [Conn.step, hregs]; simp [regOpsOf]
    · simp only [Conn.step, ← List.append_assoc, harr]; simp [arrivedOf]
    · intro w
      simpa [Conn.step, userWritesOf] using hiss w
  | iter =>
    have hp := runIter_facts hier R caps s
    obtain ⟨d, hd1, hd2, _⟩ := hp.writes
    refine ⟨hp.inv hinv, hp.acct hacct, ?_, ?_, ?_⟩
    · simp only [Conn.step, hp.regs, hregs]; simp [regOpsOf]
    · simp only [Conn.step, hp.incs, hp.inbox, List.append_assoc, List.take_append_drop, harr]
      simp [arrivedOf]
    · intro w
      have := hiss w
      simp only [Conn.step, hd1, hd2, List.count_append]
      simp [userWritesOf] at this ⊢
      omega

theorem run_snoc (hier : Hier) (R : Reactor) (caps : Caps) (s : Conn) (ops : List Op) (op : Op) :
    Conn.run hier R caps s (ops ++ [op]) = (Conn.run hier R caps s ops).step hier R caps op := by
  simp [Conn.run, List.foldl_append]

/-- Every state reachable from a fresh connection satisfies the session invariant. -/
theorem Top.run (hier : Hier) (R : Reactor) (caps : Caps) (ops : List Op) :
    Top hier R ops (Conn.run hier R caps {} ops) := by
  suffices h : ∀ (post pre : List Op) (s : Conn), Top hier R pre s →
      Top hier R (pre ++ post) (Conn.run hier R caps s post) by
    simpa using h ops [] {} (Top.init hier R)
  intro post
  induction post with
  | nil => intro pre s h; simpa [Conn.run] using h
  | cons op post ih =>
    intro pre s h
    have := ih (pre ++ [op]) (s.step hier R caps op) (h.step caps op)
    simpa [Conn.run] using this

/-- Every operation only appends to the trace. -/
theorem step_ext (hier : Hier) (R : Reactor) (caps : Caps) (s : Conn) (op : Op) :
    ∃ t, (s.step hier R caps op).trace = s.trace ++ t := by
  cases op with
  | register r => exact ⟨[Tr.reg r], rfl⟩
  | write p f => exact (writePacket_pres hier R s p f).quiet.ext
  | pop => exact (popPacket_pres hier R s).quiet.ext
  | flush => exact (flushLoop_pres hier R s.queue.length s).quiet.ext
  | arrive ps => exact ⟨[], by simp [Conn.step]⟩
  | iter => exact (runIter_facts hier R caps s).ext

/-- Every dispatch performed during one operation of a session is correct w.r.t. the registrations
made by the operations BEFORE it. -/
theorem step_roles (hier : Hier) (R : Reactor) (caps : Caps) (ops : List Op) (op : Op) :
    ∃ t, ((Conn.run hier R caps {} ops).step hier R caps op).trace =
        (Conn.run hier R caps {} ops).trace ++ t ∧
      ∀ e ∈ t, entryOKRegs hier R (regOpsOf ops) e := by
  obtain ⟨t, ht⟩ := step_ext hier R caps (Conn.run hier R caps {} ops) op
  refine ⟨t, ht, ?_⟩
  intro e he
  have h0 := Top.run hier R caps ops
  have h1 := Top.run hier R caps (ops ++ [op])
  rw [run_snoc] at h1
  obtain ⟨t1, t2, rfl⟩ := List.append_of_mem he
  have hok := h1.inv.2 ((Conn.run hier R caps {} ops).trace ++ t1) e t2 (by rw [ht]; simp)
  have hr := h1.regs
  rw [ht, regsOf_append, h0.regs] at hr
  simp only [entryOK, regsOf_append, h0.regs] at hok
  cases op with
  | register r =>
    have : t1 ++ e :: t2 = [Tr.reg r] := by
      have := ht
      simp only [Conn.step, Conn.register] at this
      exact (List.append_cancel_left this).symm
    have he' : e = Tr.reg r := by
      cases t1 with
      | nil => simpa using (List.cons.inj this).1
      | cons a t1 => simp at this
    subst he'
    trivial
  | _ =>
    have hz : regsOf (t1 ++ e :: t2) = [] := by simpa [regOpsOf] using hr
    rw [regsOf_append] at hz
    rw [(List.append_eq_nil_iff.mp hz).1, List.append_nil] at hok
    exact hok

theorem sel_filter_outgoing (rs : List Reg) (e o : Bool) :
    sel (rs.filter (fun r => r.outgoing == o)) e o = sel rs e o := by
  simp only [sel, List.filter_filter]
  congr 1
  apply List.filter_congr
  intro r _
  cases r.early <;> cases r.outgoing <;> cases e <;> cases o <;> rfl

/-! ## Vocabulary for the generated (live) tables -/

/-- Number of the Python attribute a `Slot` stands for (`Cfg.get`): 0 = `packet_listeners`,
1 = `early_packet_listeners`, 2 = `outgoing_packet_listeners`,
3 = `early_outgoing_packet_listeners`. -/
def slotIndex : Slot → Nat
  | .ordinary => 0 | .early => 1 | .outgoing => 2 | .earlyOutgoing => 3

/-- A call-log entry as the live probe prints it: the listener's id, `0` for the reaction. -/
def evNum : Ev → Nat
  | .early i => i | .reaction => 0 | .ordinary i => i

/-- Likewise for outgoing logs: `0` for the write. -/
def outEvNum : OutEv → Nat
  | .earlyOut i => i | .written => 0 | .ordOut i => i

/-- The configuration the live probe builds: the given `(id, types, early, outgoing)` registrations
in order, the callback of listener `ign` raising `IgnorePacket`. -/
def probeCfg (regs : List (Nat × List Nat × Bool × Bool)) (ign : Nat) : Cfg :=
  registerAll {} (regs.map fun x => ⟨⟨x.1, x.2.1, x.1 == ign⟩, x.2.2.1, x.2.2.2⟩)

/-! ## Models of CHANGED code (used only to show that the theorems notice the change) -/

/-- CHANGED `_react` (l.577): iterates `early_outgoing_packet_listeners` instead of
`early_packet_listeners`. -/
def reactWrongList (hier : Hier) (cfg : Cfg) (rIgn : Bool) (c : Nat) : List Ev × Bool :=
  reactIncoming hier cfg.earlyOutgoingPacketListeners cfg.packetListeners rIgn c

/-- CHANGED `_write_packet` (l.337/l.345): the two lists swapped. -/
def writeSwapped (hier : Hier) (cfg : Cfg) (c : Nat) : List OutEv :=
  writeOutgoing hier cfg.outgoingPacketListeners cfg.earlyOutgoingPacketListeners c

/-- CHANGED `_pop_packet` (l.330): `self._write_packet(self._outgoing_packet_queue[0])` — the
packet is not removed from the queue. -/
def popPacketPeek (hier : Hier) (s : Conn) : Conn × Bool :=
  match s.queue with
  | [] => (s, false)
  | p :: _ => (s.writeRaw hier .popped p, true)

/-- CHANGED `write_packet` (l.218-222): the `else:` is lost, a forced packet is also queued. -/
def writePacketNoElse (hier : Hier) (s : Conn) (p : Pkt) (force : Bool) : Conn :=
  let s : Conn := { s with trace := s.trace ++ [Tr.issued p force] }
  let s := if force then s.writeRaw hier .forced p else s
  { s with queue := s.queue ++ [p] }

/-- CHANGED `_run` / `_react`: the `except IgnorePacket` sits around the read loop instead of inside
`_react`, so an ignored packet ends the read phase of the iteration. -/
def readLoopIgnoreEnds (hier : Hier) (R : Reactor) (capR : Nat) : List Pkt → Conn → Nat → Conn
  | [], s, _ => s
  | p :: ps, s, n =>
    if n < capR then
      let s' := ({ s with inbox := ps }).react hier R p
      if (s.cfg.react hier (R.ignores p) p.cls).2 then s'
      else readLoopIgnoreEnds hier R capR ps s' (n + 1)
    else s

end PyCraft.Roles
