import PyCraft.Model.C17Utf8
import PyCraft.Lemmas.McHash
import PyCraft.Lemmas.Login
/-!
Helper definitions and lemmas for `Props/C17Utf8.lean` (audit gap 24).

* `utf8RefCp` / `utf8Ref` — an encoder written from the table of RFC 3629 §3 (arithmetic on the
  character number, no shifts or masks), `utf8DecodeRef` — a decoder written from the grammar of
  RFC 3629 §4 (shortest form only, no surrogates, nothing above U+10FFFF), `IsScalar`;
* Lean's `String.toUTF8`, the CPython mirror `pyUtf8Encode` and the reference agree;
  the decoder inverts the reference encoder;
* `ByteArray.toList` is the list of the bytes (core has no lemma about its loop);
* `C17Pad`: the facts about `Sha1.pad` (FIPS 180-4 §5.1.1);
* `expectedJoinReal`: what `auth_token.join` must receive, spelled with `mcHash`.
-/
namespace PyCraft.Utf8
open PyCraft

/-- The table of RFC 3629 §3, read as arithmetic on the character number `c`:
```
0000 0000-0000 007F | 0xxxxxxx
0000 0080-0000 07FF | 110xxxxx 10xxxxxx
0000 0800-0000 FFFF | 1110xxxx 10xxxxxx 10xxxxxx
0001 0000-0010 FFFF | 11110xxx 10xxxxxx 10xxxxxx 10xxxxxx
```
"fill in the bits marked x from the bits of the character number, putting the lowest-order bit in
the rightmost position of the last octet": the last octet carries `c % 2^6`, the one before
`c / 2^6 % 2^6`, …, the first one what is left. -/
def utf8RefCp (c : Nat) : Bytes :=
  if c < 2 ^ 7 then [UInt8.ofNat c]
  else if c < 2 ^ 11 then [UInt8.ofNat (0b11000000 + c / 2 ^ 6), UInt8.ofNat (0b10000000 + c % 2 ^ 6)]
  else if c < 2 ^ 16 then
    [UInt8.ofNat (0b11100000 + c / 2 ^ 12), UInt8.ofNat (0b10000000 + c / 2 ^ 6 % 2 ^ 6),
     UInt8.ofNat (0b10000000 + c % 2 ^ 6)]
  else
    [UInt8.ofNat (0b11110000 + c / 2 ^ 18), UInt8.ofNat (0b10000000 + c / 2 ^ 12 % 2 ^ 6),
     UInt8.ofNat (0b10000000 + c / 2 ^ 6 % 2 ^ 6), UInt8.ofNat (0b10000000 + c % 2 ^ 6)]

/-- The reference encoding of a character. -/
def utf8Ref (c : Char) : Bytes := utf8RefCp c.toNat

/-- Unicode scalar value: a code point `≤ 0x10FFFF` that is not a surrogate (RFC 3629 §3: "the
definition of UTF-8 prohibits encoding character numbers between U+D800 and U+DFFF"). -/
def IsScalar (c : Nat) : Prop := c < 0xD800 ∨ (0xDFFF < c ∧ c < 0x110000)
instance (c : Nat) : Decidable (IsScalar c) := by unfold IsScalar; infer_instance

theorem char_scalar (c : Char) : IsScalar c.toNat := by
  have := c.valid
  simp only [UInt32.isValidChar, Nat.isValidChar] at this
  exact this

theorem size_eq (bs : ByteArray) : bs.size = bs.data.toList.length := by
  cases bs; rfl

theorem get!_eq (bs : ByteArray) (i : Nat) (h : i < bs.data.toList.length) :
    bs.get! i = bs.data.toList[i] := by
  cases bs with | mk d =>
  show d[i]! = d.toList[i]
  have h' : i < d.size := by simpa using h
  rw [getElem!_pos d i h']
  simp

theorem toList_loop (bs : ByteArray) : ∀ (k i : Nat) (r : List UInt8), bs.size - i = k →
    ByteArray.toList.loop bs i r = r.reverse ++ bs.data.toList.drop i := by
  intro k
  induction k with
  | zero =>
    intro i r h
    rw [ByteArray.toList.loop.eq_1]
    have : ¬ i < bs.size := by omega
    rw [if_neg this]
    have : bs.data.toList.length ≤ i := by rw [← size_eq]; omega
    rw [List.drop_eq_nil_of_le this, List.append_nil]
  | succ k ih =>
    intro i r h
    rw [ByteArray.toList.loop.eq_1]
    have hi : i < bs.size := by omega
    rw [if_pos hi, ih (i + 1) _ (by omega)]
    have hl : i < bs.data.toList.length := by rw [← size_eq]; exact hi
    rw [List.drop_eq_getElem_cons hl, get!_eq bs i hl, List.reverse_cons, List.append_assoc]
    rfl

theorem byteArray_toList (bs : ByteArray) : bs.toList = bs.data.toList := by
  unfold ByteArray.toList
  rw [toList_loop bs _ 0 [] rfl]; rfl

theorem toUTF8_toList (s : String) :
    s.toUTF8.toList = s.toList.flatMap String.utf8EncodeChar := by
  rw [byteArray_toList]
  conv => lhs; rw [← String.ofList_toList (s := s)]
  show (String.ofList s.toList).toByteArray.data.toList = _
  rw [String.toByteArray_ofList]
  simp [List.utf8Encode]

theorem encodeChar_nat (v : Nat) (hs : v < 0x110000) :
    (if v ≤ 127 then [UInt8.ofNat v]
      else if v ≤ 2047 then [UInt8.ofNat (v / 64 % 32 + 192), UInt8.ofNat (v % 64 + 128)]
      else if v ≤ 65535 then
        [UInt8.ofNat (v / 4096 % 16 + 224), UInt8.ofNat (v / 64 % 64 + 128), UInt8.ofNat (v % 64 + 128)]
      else
        [UInt8.ofNat (v / 262144 % 8 + 240), UInt8.ofNat (v / 4096 % 64 + 128),
          UInt8.ofNat (v / 64 % 64 + 128), UInt8.ofNat (v % 64 + 128)]) = utf8RefCp v := by
  unfold utf8RefCp
  by_cases h1 : v ≤ 127
  · rw [if_pos h1, if_pos (show v < 2 ^ 7 by omega)]
  · rw [if_neg h1, if_neg (show ¬ v < 2 ^ 7 by omega)]
    by_cases h2 : v ≤ 2047
    · rw [if_pos h2, if_pos (show v < 2 ^ 11 by omega)]
      have e1 : v / 64 % 32 + 192 = 0b11000000 + v / 2 ^ 6 := by omega
      have e2 : v % 64 + 128 = 0b10000000 + v % 2 ^ 6 := by omega
      rw [e1, e2]
    · rw [if_neg h2, if_neg (show ¬ v < 2 ^ 11 by omega)]
      have e2 : v % 64 + 128 = 0b10000000 + v % 2 ^ 6 := by omega
      have e3 : v / 64 % 64 + 128 = 0b10000000 + v / 2 ^ 6 % 2 ^ 6 := by omega
      by_cases h3 : v ≤ 65535
      · rw [if_pos h3, if_pos (show v < 2 ^ 16 by omega)]
        have e1 : v / 4096 % 16 + 224 = 0b11100000 + v / 2 ^ 12 := by omega
        rw [e1, e2, e3]
      · rw [if_neg h3, if_neg (show ¬ v < 2 ^ 16 by omega)]
        have e1 : v / 262144 % 8 + 240 = 0b11110000 + v / 2 ^ 18 := by omega
        have e4 : v / 4096 % 64 + 128 = 0b10000000 + v / 2 ^ 12 % 2 ^ 6 := by omega
        rw [e1, e2, e3, e4]

theorem utf8EncodeChar_eq_ref (c : Char) : String.utf8EncodeChar c = utf8Ref c := by
  have hs := char_scalar c
  have := encodeChar_nat c.toNat (by unfold IsScalar at hs; omega)
  exact this


/-! ### The CPython mirror against the reference -/

theorem or_c0 : ∀ x < 32, 0xc0 ||| x = 0b11000000 + x := by decide +kernel
theorem or_80 : ∀ x < 64, 0x80 ||| x = 0b10000000 + x := by decide +kernel
theorem or_e0 : ∀ x < 16, 0xe0 ||| x = 0b11100000 + x := by decide +kernel
theorem or_f0 : ∀ x < 8, 0xf0 ||| x = 0b11110000 + x := by decide +kernel

theorem and_3f (x : Nat) : x &&& 0x3f = x % 2 ^ 6 :=
  Nat.and_two_pow_sub_one_eq_mod x 6

theorem pyUtf8EncodeCp_scalar (c : Nat) (h : IsScalar c) : pyUtf8EncodeCp c = .ok (utf8RefCp c) := by
  unfold IsScalar at h
  unfold pyUtf8EncodeCp utf8RefCp byte
  simp only [and_3f, Nat.shiftRight_eq_div_pow]
  by_cases h1 : c < 0x80
  · rw [if_pos h1, if_pos (show c < 2 ^ 7 by omega)]
  · rw [if_neg h1, if_neg (show ¬ c < 2 ^ 7 by omega)]
    by_cases h2 : c < 0x800
    · rw [if_pos h2, if_pos (show c < 2 ^ 11 by omega),
        or_c0 _ (show c / 2 ^ 6 < 32 by omega), or_80 _ (show c % 2 ^ 6 < 64 by omega)]
    · rw [if_neg h2, if_neg (show ¬ c < 2 ^ 11 by omega)]
      have hns : isSurrogate c = false := by
        unfold isSurrogate
        rcases h with h | h
        · have : ¬ 0xD800 ≤ c := by omega
          simp [this]
        · have : ¬ c ≤ 0xDFFF := by omega
          simp [this]
      rw [hns, if_neg (by simp)]
      by_cases h3 : c < 0x10000
      · rw [if_pos h3, if_pos (show c < 2 ^ 16 by omega),
          or_e0 _ (show c / 2 ^ 12 < 16 by omega), or_80 _ (show c / 2 ^ 6 % 2 ^ 6 < 64 by omega),
          or_80 _ (show c % 2 ^ 6 < 64 by omega)]
      · rw [if_neg h3, if_neg (show ¬ c < 2 ^ 16 by omega), if_pos (show c ≤ 0x10FFFF by omega),
          or_f0 _ (show c / 2 ^ 18 < 8 by omega), or_80 _ (show c / 2 ^ 12 % 2 ^ 6 < 64 by omega),
          or_80 _ (show c / 2 ^ 6 % 2 ^ 6 < 64 by omega), or_80 _ (show c % 2 ^ 6 < 64 by omega)]

theorem pyUtf8EncodeCp_not_scalar (c : Nat) (h : ¬ IsScalar c) : pyUtf8EncodeCp c = .error .value := by
  unfold IsScalar at h
  unfold pyUtf8EncodeCp
  rw [if_neg (show ¬ c < 0x80 by omega), if_neg (show ¬ c < 0x800 by omega)]
  by_cases hs : isSurrogate c = true
  · rw [if_pos hs]
  · rw [if_neg hs]
    have : ¬ c ≤ 0xDFFF := by
      intro hc; apply hs; unfold isSurrogate
      have : 0xD800 ≤ c := by omega
      simp [this, hc]
    rw [if_neg (show ¬ c < 0x10000 by omega), if_neg (show ¬ c ≤ 0x10FFFF by omega)]

theorem pyUtf8Encode_cons (c : Nat) (rest : List Nat) :
    pyUtf8Encode (c :: rest) =
      (match pyUtf8EncodeCp c with
       | .error e => .error e
       | .ok b => match pyUtf8Encode rest with
         | .error e => .error e
         | .ok bs => .ok (b ++ bs)) := by
  rw [pyUtf8Encode]
  cases pyUtf8EncodeCp c <;> cases pyUtf8Encode rest <;> rfl

theorem pyUtf8Encode_scalars (cps : List Nat) (h : ∀ c ∈ cps, IsScalar c) :
    pyUtf8Encode cps = .ok (cps.flatMap utf8RefCp) := by
  induction cps with
  | nil => rfl
  | cons c rest ih =>
    rw [pyUtf8Encode_cons, pyUtf8EncodeCp_scalar c (h c (by simp)),
      ih (fun c hc => h c (by simp [hc]))]
    rfl

theorem pyUtf8Encode_bad (cps : List Nat) (h : ∃ c ∈ cps, ¬ IsScalar c) :
    pyUtf8Encode cps = .error .value := by
  induction cps with
  | nil => simp at h
  | cons c rest ih =>
    rw [pyUtf8Encode_cons]
    by_cases hc : IsScalar c
    · have hr : ∃ c ∈ rest, ¬ IsScalar c := by
        obtain ⟨d, hd, hn⟩ := h
        rcases List.mem_cons.1 hd with rfl | hd
        · exact absurd hc hn
        · exact ⟨d, hd, hn⟩
      rw [pyUtf8EncodeCp_scalar c hc, ih hr]
    · rw [pyUtf8EncodeCp_not_scalar c hc]

/-! ### Reference decoder (RFC 3629 §4) -/

/-- `UTF8-tail = %x80-BF`. -/
def isTail (b : UInt8) : Bool := 0x80 ≤ b.toNat && b.toNat ≤ 0xBF

/-- Strict decoder written from the grammar of RFC 3629 §4
```
UTF8-1 = %x00-7F
UTF8-2 = %xC2-DF UTF8-tail
UTF8-3 = %xE0 %xA0-BF UTF8-tail / %xE1-EC 2( UTF8-tail ) / %xED %x80-9F UTF8-tail / %xEE-EF 2( UTF8-tail )
UTF8-4 = %xF0 %x90-BF 2( UTF8-tail ) / %xF1-F3 3( UTF8-tail ) / %xF4 %x80-8F 2( UTF8-tail )
```
stated through the decoded value `v`: the lead octet fixes the length, every further octet is a tail,
and `v` must need that length (`0x80 ≤ v`, `0x800 ≤ v`, `0x10000 ≤ v`: no overlong forms), must not be
a surrogate and must not exceed `0x10FFFF`.  `none` = not well-formed UTF-8. -/
def utf8DecodeRef : Bytes → Option (List Nat)
  | [] => some []
  | b0 :: rest =>
    if b0.toNat < 0x80 then (utf8DecodeRef rest).map (b0.toNat :: ·)
    else if b0.toNat < 0xC0 then none
    else if b0.toNat < 0xE0 then
      match rest with
      | b1 :: rest1 =>
        let v := (b0.toNat - 0xC0) * 2 ^ 6 + (b1.toNat - 0x80)
        if isTail b1 ∧ 0x80 ≤ v then (utf8DecodeRef rest1).map (v :: ·) else none
      | _ => none
    else if b0.toNat < 0xF0 then
      match rest with
      | b1 :: b2 :: rest2 =>
        let v := (b0.toNat - 0xE0) * 2 ^ 12 + (b1.toNat - 0x80) * 2 ^ 6 + (b2.toNat - 0x80)
        if isTail b1 ∧ isTail b2 ∧ 0x800 ≤ v ∧ ¬ (0xD800 ≤ v ∧ v ≤ 0xDFFF) then
          (utf8DecodeRef rest2).map (v :: ·)
        else none
      | _ => none
    else if b0.toNat < 0xF8 then
      match rest with
      | b1 :: b2 :: b3 :: rest3 =>
        let v := (b0.toNat - 0xF0) * 2 ^ 18 + (b1.toNat - 0x80) * 2 ^ 12 + (b2.toNat - 0x80) * 2 ^ 6
          + (b3.toNat - 0x80)
        if isTail b1 ∧ isTail b2 ∧ isTail b3 ∧ 0x10000 ≤ v ∧ v ≤ 0x10FFFF then
          (utf8DecodeRef rest3).map (v :: ·)
        else none
      | _ => none
    else none


theorem isTail_ofNat (x : Nat) (h : x < 64) : isTail (UInt8.ofNat (0b10000000 + x)) = true := by
  unfold isTail
  rw [UInt8.toNat_ofNat']
  have h1 : 0x80 ≤ (0b10000000 + x) % 2 ^ 8 := by omega
  have h2 : (0b10000000 + x) % 2 ^ 8 ≤ 0xBF := by omega
  simp [h1, h2]

theorem dec_1 (c : Nat) (rest : Bytes) (h : c < 2 ^ 7) :
    utf8DecodeRef (UInt8.ofNat c :: rest) = (utf8DecodeRef rest).map (c :: ·) := by
  conv => lhs; rw [utf8DecodeRef.eq_def]
  simp only
  have e : (UInt8.ofNat c).toNat = c := by rw [UInt8.toNat_ofNat']; omega
  rw [e, if_pos (by omega)]

theorem dec_2 (c : Nat) (rest : Bytes) (h1 : 2 ^ 7 ≤ c) (h : c < 2 ^ 11) :
    utf8DecodeRef (UInt8.ofNat (0b11000000 + c / 2 ^ 6) :: UInt8.ofNat (0b10000000 + c % 2 ^ 6) :: rest)
      = (utf8DecodeRef rest).map (c :: ·) := by
  conv => lhs; rw [utf8DecodeRef.eq_def]
  simp only
  have e0 : (UInt8.ofNat (0b11000000 + c / 2 ^ 6)).toNat = 0b11000000 + c / 2 ^ 6 := by
    rw [UInt8.toNat_ofNat']; omega
  have e1 : (UInt8.ofNat (0b10000000 + c % 2 ^ 6)).toNat = 0b10000000 + c % 2 ^ 6 := by
    rw [UInt8.toNat_ofNat']; omega
  rw [e0, if_neg (by omega), if_neg (by omega), if_pos (by omega)]
  simp only [e1, isTail_ofNat _ (show c % 2 ^ 6 < 64 by omega)]
  have ev : (0b11000000 + c / 2 ^ 6 - 0xC0) * 2 ^ 6 + (0b10000000 + c % 2 ^ 6 - 0x80) = c := by omega
  rw [ev, if_pos ⟨trivial, by omega⟩]


theorem toNat_lead (a x : Nat) (h : a + x < 256) : (UInt8.ofNat (a + x)).toNat = a + x := by
  rw [UInt8.toNat_ofNat']; omega

theorem dec_3 (c : Nat) (rest : Bytes) (h1 : 2 ^ 11 ≤ c) (h : c < 2 ^ 16)
    (hs : ¬ (0xD800 ≤ c ∧ c ≤ 0xDFFF)) :
    utf8DecodeRef (UInt8.ofNat (0b11100000 + c / 2 ^ 12) :: UInt8.ofNat (0b10000000 + c / 2 ^ 6 % 2 ^ 6)
        :: UInt8.ofNat (0b10000000 + c % 2 ^ 6) :: rest)
      = (utf8DecodeRef rest).map (c :: ·) := by
  conv => lhs; rw [utf8DecodeRef.eq_def]
  simp only
  have e0 := toNat_lead 0b11100000 (c / 2 ^ 12) (by omega)
  have e1 := toNat_lead 0b10000000 (c / 2 ^ 6 % 2 ^ 6) (by omega)
  have e2 := toNat_lead 0b10000000 (c % 2 ^ 6) (by omega)
  rw [e0, if_neg (by omega), if_neg (by omega), if_neg (by omega), if_pos (by omega)]
  simp only [e1, e2, isTail_ofNat _ (show c % 2 ^ 6 < 64 by omega),
    isTail_ofNat _ (show c / 2 ^ 6 % 2 ^ 6 < 64 by omega)]
  have ev : (0b11100000 + c / 2 ^ 12 - 0xE0) * 2 ^ 12 + (0b10000000 + c / 2 ^ 6 % 2 ^ 6 - 0x80) * 2 ^ 6
      + (0b10000000 + c % 2 ^ 6 - 0x80) = c := by omega
  rw [ev, if_pos ⟨trivial, trivial, by omega, hs⟩]

theorem dec_4 (c : Nat) (rest : Bytes) (h1 : 2 ^ 16 ≤ c) (h : c ≤ 0x10FFFF) :
    utf8DecodeRef (UInt8.ofNat (0b11110000 + c / 2 ^ 18) :: UInt8.ofNat (0b10000000 + c / 2 ^ 12 % 2 ^ 6)
        :: UInt8.ofNat (0b10000000 + c / 2 ^ 6 % 2 ^ 6) :: UInt8.ofNat (0b10000000 + c % 2 ^ 6) :: rest)
      = (utf8DecodeRef rest).map (c :: ·) := by
  conv => lhs; rw [utf8DecodeRef.eq_def]
  simp only
  have e0 := toNat_lead 0b11110000 (c / 2 ^ 18) (by omega)
  have e1 := toNat_lead 0b10000000 (c / 2 ^ 12 % 2 ^ 6) (by omega)
  have e2 := toNat_lead 0b10000000 (c / 2 ^ 6 % 2 ^ 6) (by omega)
  have e3 := toNat_lead 0b10000000 (c % 2 ^ 6) (by omega)
  rw [e0, if_neg (by omega), if_neg (by omega), if_neg (by omega), if_neg (by omega), if_pos (by omega)]
  simp only [e1, e2, e3, isTail_ofNat _ (show c % 2 ^ 6 < 64 by omega),
    isTail_ofNat _ (show c / 2 ^ 6 % 2 ^ 6 < 64 by omega),
    isTail_ofNat _ (show c / 2 ^ 12 % 2 ^ 6 < 64 by omega)]
  have ev : (0b11110000 + c / 2 ^ 18 - 0xF0) * 2 ^ 18 + (0b10000000 + c / 2 ^ 12 % 2 ^ 6 - 0x80) * 2 ^ 12
      + (0b10000000 + c / 2 ^ 6 % 2 ^ 6 - 0x80) * 2 ^ 6 + (0b10000000 + c % 2 ^ 6 - 0x80) = c := by omega
  rw [ev, if_pos ⟨trivial, trivial, trivial, by omega, h⟩]

/-! ### Whole strings -/

theorem utf8RefCp_length (c : Nat) :
    (utf8RefCp c).length = if c < 2 ^ 7 then 1 else if c < 2 ^ 11 then 2 else if c < 2 ^ 16 then 3 else 4 := by
  unfold utf8RefCp
  split
  · rfl
  · split
    · rfl
    · split <;> rfl

theorem dec_ref (c : Nat) (rest : Bytes) (h : IsScalar c) :
    utf8DecodeRef (utf8RefCp c ++ rest) = (utf8DecodeRef rest).map (c :: ·) := by
  unfold IsScalar at h
  unfold utf8RefCp
  by_cases h1 : c < 2 ^ 7
  · rw [if_pos h1]; exact dec_1 c rest h1
  · rw [if_neg h1]
    by_cases h2 : c < 2 ^ 11
    · rw [if_pos h2]; exact dec_2 c rest (by omega) h2
    · rw [if_neg h2]
      by_cases h3 : c < 2 ^ 16
      · rw [if_pos h3]; exact dec_3 c rest (by omega) h3 (by omega)
      · rw [if_neg h3]; exact dec_4 c rest (by omega) (by omega)

theorem decode_roundtrip (cps : List Nat) (h : ∀ c ∈ cps, IsScalar c) :
    utf8DecodeRef (cps.flatMap utf8RefCp) = some cps := by
  induction cps with
  | nil => rfl
  | cons c rest ih =>
    rw [List.flatMap_cons, dec_ref c _ (h c (by simp)), ih (fun d hd => h d (by simp [hd]))]
    rfl

theorem codePoints_scalar (s : String) : ∀ c ∈ codePoints s, IsScalar c := by
  intro c hc
  simp only [codePoints, List.mem_map] at hc
  obtain ⟨ch, _, rfl⟩ := hc
  exact char_scalar ch

theorem flatMap_codePoints (s : String) : (codePoints s).flatMap utf8RefCp = s.toList.flatMap utf8Ref := by
  unfold codePoints
  induction s.toList with
  | nil => rfl
  | cons c cs ih => simp only [List.map_cons, List.flatMap_cons, ih]; rfl

theorem toUTF8_eq_ref (s : String) : s.toUTF8.toList = s.toList.flatMap utf8Ref := by
  rw [toUTF8_toList]
  congr 1
  funext c
  exact utf8EncodeChar_eq_ref c

theorem pyUtf8Encode_string (s : String) : pyUtf8Encode (codePoints s) = .ok s.toUTF8.toList := by
  rw [pyUtf8Encode_scalars _ (codePoints_scalar s), flatMap_codePoints, toUTF8_eq_ref]

theorem codePoints_injective (s t : String) (h : codePoints s = codePoints t) : s = t := by
  have : s.toList = t.toList := by
    unfold codePoints at h
    exact (List.map_inj_right (f := Char.toNat) (fun a b hab => Char.toNat_inj.1 hab)).1 h
  rw [← String.ofList_toList (s := s), this, String.ofList_toList]

/-- The specification of the whole function, as a predicate on candidates. -/
def HashSpec (f : String → Bytes → Bytes → String) : Prop :=
  ∀ (sid : String) (secret key : Bytes),
    f sid secret key = signedHex (sha1 (sid.toList.flatMap utf8Ref ++ secret ++ key))

/-- What `auth_token.join` must receive for an event, with the real hash spelled out. -/
def expectedJoinReal (secret : Bytes) (hasToken : Bool) : Login.LoginEv → Option String
  | .encRequest sid pk _ =>
    if sid ≠ "-" ∧ hasToken = true then some (mcHash sid.toUTF8.toList secret pk) else none
  | _ => none

theorem expectedJoin_realHash (P : Login.LoginParams) :
    Login.expectedJoin (realHash P) = expectedJoinReal P.secret P.hasToken := by
  funext e
  cases e <;> rfl

/-- How a live observation "value, or it raised `UnicodeEncodeError`" reads as a model result. -/
def expectOf {α : Type} : Option α → Except Err α
  | some a => .ok a
  | none => .error .value

/-- The string of a code-point list (used to read the generated tables). -/
def strOfCps (cps : List Nat) : String := String.ofList (cps.map Char.ofNat)

end PyCraft.Utf8

namespace PyCraft.C17Pad
open PyCraft PyCraft.Sha1

/-- Big-endian value of a list of byte values, most significant first (independent of `lenBytes`). -/
def beNat : List Nat → Nat
  | [] => 0
  | x :: xs => x * 256 ^ xs.length + beNat xs

theorem lenBytes_length : ∀ k n, (lenBytes k n).length = k
  | 0, _ => rfl
  | k + 1, n => by rw [lenBytes, List.length_cons, lenBytes_length k n]

theorem lenBytes_lt : ∀ k n, ∀ x ∈ lenBytes k n, x < 256
  | 0, _, x, h => by simp [lenBytes] at h
  | k + 1, n, x, h => by
    rw [lenBytes, List.mem_cons] at h
    rcases h with rfl | h
    · exact Nat.mod_lt _ (by decide)
    · exact lenBytes_lt k n x h

theorem beNat_lenBytes : ∀ k n, beNat (lenBytes k n) = n % 256 ^ k
  | 0, n => by simp [lenBytes, beNat, Nat.mod_one]
  | k + 1, n => by
    rw [lenBytes, beNat, lenBytes_length, beNat_lenBytes k n, Nat.shiftRight_eq_div_pow,
      Nat.pow_succ, Nat.mod_mul, Nat.pow_mul, Nat.mul_comm]
    have : (2 : Nat) ^ 8 = 256 := rfl
    rw [this, Nat.add_comm]

/-- Number of zero bytes. -/
def zeros (l : Nat) : Nat := (119 - l % 64) % 64

theorem pad_eq (m : List Nat) :
    pad m = m ++ 0x80 :: (List.replicate (zeros m.length) 0 ++ lenBytes 8 (m.length * 8)) := rfl

theorem pad_length (m : List Nat) : (pad m).length = 64 * ((m.length + 8) / 64 + 1) := by
  rw [pad_eq]
  simp only [List.length_append, List.length_cons, List.length_replicate, lenBytes_length, zeros]
  omega

theorem zeros_spec (l : Nat) :
    zeros l < 64 ∧ (l + 1 + zeros l + 8) % 64 = 0 ∧
      ∀ k, (l + 1 + k + 8) % 64 = 0 → zeros l ≤ k := by
  unfold zeros
  refine ⟨by omega, by omega, fun k hk => by omega⟩

theorem pad_blocks (m : List Nat) : (pad m).length / 64 = (m.length + 8) / 64 + 1 := by
  rw [pad_length]; omega

/-- The digest bytes of a chaining value. -/
def digestOf (h : St) : Bytes :=
  wordBytes h.a ++ wordBytes h.b ++ wordBytes h.c ++ wordBytes h.d ++ wordBytes h.e

theorem sha1_eq_blocks (msg : Bytes) :
    sha1 msg = digestOf (blocks ((msg.length + 8) / 64 + 1) (pad (msg.map UInt8.toNat)) init) := by
  unfold sha1 digestOf
  simp only [pad_blocks, List.length_map]

end PyCraft.C17Pad
