import PyCraft.Model.C05Nbt
import PyCraft.Lemmas.Custom
import PyCraft.Lemmas.Layout
import PyCraft.Lemmas.LayoutTables
/-!
Helper lemmas for `Props/C05Nbt.lean`:

* `realCustomWith n` obeys `CustomLaw` as soon as `n` obeys `NbtLaw`;
* the model of pynbt (`Model/C05Nbt.lean`) obeys `NbtLaw` on `nbtDom` (given the law of `mutf8`).

pynbt's reader does not notice a short `src.read(n)`, so the payload of a byte array or of a string
does NOT have the "every strict prefix is rejected" property (`Hdr`): a strict prefix may be read
"successfully" — but then it is consumed entirely (`SoftRes`), and the next `struct` read fails.
`Soft0` / `Soft` are `Hdr` weakened in this way; they compose (`Soft0.bind`), and at the root — which
ends with the `TAG_End` byte, read by `struct` — the strong property is recovered.
-/
namespace PyCraft

/-! ## `realCustomWith` -/

theorem realCustomLawWith {n : NbtCodec} {nd : Value → Prop} (h : NbtLaw n nd) :
    CustomLaw (realCustomWith n) (realDomWith nd) := by
  refine ⟨fun c v rest hw => ?_, fun c v bs hw he p hp hne => ?_⟩
  · cases c with
    | nbt => exact h.rt v rest hw
    | position b => exact realCustomLaw.rt (.position b) v rest hw
    | secpos => exact realCustomLaw.rt .secpos v rest hw
    | record b => exact realCustomLaw.rt (.record b) v rest hw
    | explRecord => exact realCustomLaw.rt .explRecord v rest hw
    | effectPos => exact realCustomLaw.rt .effectPos v rest hw
    | pitch a b => exact realCustomLaw.rt (.pitch a b) v rest hw
  · cases c with
    | nbt => exact h.prefixErr v bs hw he p hp hne
    | position b => exact realCustomLaw.prefixErr (.position b) v bs hw he p hp hne
    | secpos => exact realCustomLaw.prefixErr .secpos v bs hw he p hp hne
    | record b => exact realCustomLaw.prefixErr (.record b) v bs hw he p hp hne
    | explRecord => exact realCustomLaw.prefixErr .explRecord v bs hw he p hp hne
    | effectPos => exact realCustomLaw.prefixErr .effectPos v bs hw he p hp hne
    | pitch a b => exact realCustomLaw.prefixErr (.pitch a b) v bs hw he p hp hne

/-- off the `.nbt` slot nothing changes -/
theorem realCustomWith_enc (n : NbtCodec) (c : CustomT) (hc : c ≠ .nbt) (v : Value) :
    (realCustomWith n).enc c v = realCustom.enc c v := by
  cases c <;> first | exact absurd rfl hc | rfl

theorem realCustomWith_dec (n : NbtCodec) (c : CustomT) (hc : c ≠ .nbt) (bs : Bytes) :
    (realCustomWith n).dec c bs = realCustom.dec c bs := by
  cases c <;> first | exact absurd rfl hc | rfl

theorem realDomWith_of_realDom (nd : Value → Prop) (c : CustomT) (v : Value) (h : realDom c v) :
    realDomWith nd c v := by
  cases c with
  | nbt => exact h.elim
  | _ => exact h

theorem wellTyped_with (nd : Value → Prop) : ∀ (t : WType) (v : Value),
    WellTyped realDom t v → WellTyped (realDomWith nd) t v := by
  intro t
  induction t with
  | array l t ih =>
    intro v h
    cases v <;> try exact h
    exact ⟨h.1, fun w hw => ih w (h.2 w hw)⟩
  | custom c => intro v h; exact realDomWith_of_realDom nd c v h
  | _ => intro v h; cases v <;> exact h

theorem wellTypedFields_with (nd : Value → Prop) : ∀ (L : Layout) (vals : List Value),
    WellTypedFields realDom L vals → WellTypedFields (realDomWith nd) L vals := by
  intro L
  induction L with
  | nil => intro vals h; cases vals <;> exact h
  | cons f L ih =>
    intro vals h
    obtain ⟨n, t⟩ := f
    cases vals with
    | nil => exact h
    | cons v vs => exact ⟨wellTyped_with nd t v h.1, ih vs h.2⟩

/-! ### sample values of every type, NBT included -/

/-- `LayoutCheck.sampleVal` with `nv` for NBT -/
def sampleValWith (nv : Value) : WType → Value
  | .bool => .bool true
  | .int _ => .int 1
  | .varint => .int 300
  | .varlong => .int 300
  | .string => .str "a"
  | .uuid => .bytes (List.replicate 16 7)
  | .angle => .int 1
  | .fixed _ _ => .int 1
  | .bytesVarint => .bytes [1, 2]
  | .bytesShort => .bytes [1, 2]
  | .trailing => .bytes [1, 2]
  | .array _ t => .list [sampleValWith nv t, sampleValWith nv t]
  | .custom (.record _) => Value.ofInts [1, 2, 3, 4]
  | .custom (.pitch _ _) => .int 1
  | .custom .nbt => nv
  | .custom _ => Value.ofInts [1, 2, 3]

theorem sampleWith_wellTyped {nd : Value → Prop} {nv : Value} (hv : nd nv) :
    ∀ t : WType, WellTyped (realDomWith nd) t (sampleValWith nv t) := by
  intro t
  induction t with
  | int t => show IntT.inDom t 1; cases t <;> decide
  | fixed b _ => show IntT.inDom b 1; cases b <;> decide
  | string => show (utf8 "a").length < 2 ^ 31; decide +kernel
  | array l t ih => cases l <;> simp [sampleValWith, WellTyped, ih]
  | custom c =>
    cases c with
    | nbt => exact hv
    | position b => show realDom (.position b) (Value.ofInts [1, 2, 3]); cases b <;> decide
    | record b => show realDom (.record b) (Value.ofInts [1, 2, 3, 4]); cases b <;> decide
    | pitch a b => show realDom (.pitch a b) (.int 1); cases a <;> cases b <;> decide
    | secpos => show realDom .secpos (Value.ofInts [1, 2, 3]); decide
    | explRecord => show realDom .explRecord (Value.ofInts [1, 2, 3]); decide
    | effectPos => show realDom .effectPos (Value.ofInts [1, 2, 3]); decide
  | _ => simp [sampleValWith, WellTyped]

theorem sampleWith_wellTypedFields {nd : Value → Prop} {nv : Value} (hv : nd nv) :
    ∀ L : Layout, WellTypedFields (realDomWith nd) L (L.map fun f => sampleValWith nv f.2) := by
  intro L
  induction L with
  | nil => exact True.intro
  | cons f L ih => obtain ⟨n, t⟩ := f; exact ⟨sampleWith_wellTyped hv t, ih⟩

namespace Nbt

/-! ## readers that may eat a short input -/

/-- a result that is an error, or a success that consumed everything -/
def SoftRes {α : Type} (r : Except Err (α × Bytes)) : Prop :=
  (∃ e, r = .error e) ∨ ∃ y, r = .ok (y, [])

/-- `b` is read as `z` whatever follows; a strict prefix of `b` is rejected or eaten whole -/
def Soft0 {α : Type} (dec : Bytes → Except Err (α × Bytes)) (b : Bytes) (z : α) : Prop :=
  (∀ rest, dec (b ++ rest) = .ok (z, rest)) ∧ ∀ q, q <+: b → q ≠ b → SoftRes (dec q)

theorem Soft0.ofHdr {α : Type} {dec : Bytes → Except Err (α × Bytes)} {b : Bytes} {z : α}
    (h : Hdr dec b z) : Soft0 dec b z :=
  ⟨h.2.1, fun q hq hne => Or.inl (h.2.2 q hq hne)⟩

theorem softRes_err {α : Type} (e : Err) : SoftRes (.error e : Except Err (α × Bytes)) :=
  Or.inl ⟨e, rfl⟩

theorem softRes_ok {α : Type} (y : α) : SoftRes (.ok (y, []) : Except Err (α × Bytes)) :=
  Or.inr ⟨y, rfl⟩

/-- sequencing on a possibly short input: if the first reader is soft and the second, started on
the empty input, is soft, so is the sequence -/
theorem softRes_bind {α β : Type} {r : Except Err (α × Bytes)} (hr : SoftRes r)
    (B : α → Bytes → Except Err (β × Bytes)) (hnil : ∀ y, SoftRes (B y [])) :
    SoftRes (do let (v, s) ← r; B v s) := by
  rcases hr with ⟨e, rfl⟩ | ⟨y, rfl⟩
  · exact softRes_err e
  · exact hnil y

theorem Soft0.bind {α β : Type} {A : Bytes → Except Err (α × Bytes)} {a : Bytes} {x : α}
    (hA : Soft0 A a x) (B : α → Bytes → Except Err (β × Bytes)) {b : Bytes} {z : β}
    (hB : Soft0 (B x) b z) (hnil : ∀ y, SoftRes (B y []))
    (dec : Bytes → Except Err (β × Bytes))
    (hdec : ∀ bs, dec bs = (do let (v, r) ← A bs; B v r)) : Soft0 dec (a ++ b) z := by
  refine ⟨fun rest => ?_, fun p hp hne => ?_⟩
  · rw [hdec, List.append_assoc, hA.1]; exact hB.1 rest
  · rcases strict_prefix_append hp hne with ⟨hp', hne'⟩ | ⟨q, rfl, hq, hqne⟩
    · rw [hdec]; exact softRes_bind (hA.2 p hp' hne') B hnil
    · rw [hdec, hA.1]; exact hB.2 q hq hqne

theorem SoftRes.map {α β : Type} {r : Except Err (α × Bytes)} (hr : SoftRes r) (g : α → β) :
    SoftRes (do let (v, s) ← r; pure (g v, s)) := by
  rcases hr with ⟨e, rfl⟩ | ⟨y, rfl⟩
  · exact softRes_err e
  · exact softRes_ok (g y)

theorem Soft0.map {α β : Type} {dec : Bytes → Except Err (α × Bytes)} {b : Bytes} {z : α}
    (h : Soft0 dec b z) (g : α → β) (dec' : Bytes → Except Err (β × Bytes))
    (hdec : ∀ bs, dec' bs = (do let (v, r) ← dec bs; pure (g v, r))) : Soft0 dec' b (g z) := by
  refine ⟨fun rest => ?_, fun q hq hne => ?_⟩
  · rw [hdec, h.1]; rfl
  · rw [hdec]; exact (h.2 q hq hne).map g

/-! ## fixed-width pieces -/

theorem unpack_nil (t : IntT) : t.unpack [] = .error .struct :=
  t.unpack_short [] (by simpa using t.width_pos)

theorem softRes_unpack_nil {β : Type} (t : IntT) (B : Int → Bytes → Except Err (β × Bytes)) :
    SoftRes (do let (v, s) ← t.unpack []; B v s) := by
  rw [unpack_nil]; exact softRes_err _

/-- the bytes of an in-range integer, as a soft header -/
theorem soft_int (t : IntT) (v : Int) (hv : t.inDom v) :
    ∃ bs, t.pack v = .ok bs ∧ bs.length = t.width ∧ Hdr t.unpack bs v := by
  obtain ⟨bs, hb, hl, _⟩ := t.pack_spec v hv
  exact ⟨bs, hb, hl, hdr_int t v bs hv hb⟩

theorem i8_inDom_id (n : Nat) (h : n ≤ 12) : IntT.i8.inDom (n : Int) := by
  simp [IntT.inDom, IntT.signed, IntT.width]; omega

theorem i32_inDom_len (n : Nat) (h : n < 2 ^ 31) : IntT.i32.inDom (n : Int) := by
  simp [IntT.inDom, IntT.signed, IntT.width]; omega

theorem i16_inDom_len (n : Nat) (h : n < 2 ^ 15) : IntT.i16.inDom (n : Int) := by
  simp [IntT.inDom, IntT.signed, IntT.width]; omega

theorem tagClass_id (n : Nat) (h : n ≤ 12) : tagClass (n : Int) = .ok n := by
  unfold tagClass
  rw [if_pos (by omega)]
  simp

/-! ## `takeLenient` -/

theorem takeLenient_exact (b rest : Bytes) : takeLenient (b.length : Int) (b ++ rest) = (b, rest) := by
  unfold takeLenient
  rw [if_neg (by omega)]
  simp

theorem takeLenient_short (n : Nat) (q : Bytes) (h : q.length ≤ n) :
    takeLenient (n : Int) q = (q, []) := by
  unfold takeLenient
  rw [if_neg (by omega)]
  simp only [Int.toNat_natCast]
  rw [List.take_of_length_le h, List.drop_of_length_le h]

theorem takeLenient_nil (n : Int) : takeLenient n [] = ([], []) := by
  unfold takeLenient; split <;> simp

/-! ## strings -/

section strings
variable {m : Mutf8}

/-- what follows the length in `_read_utf8` -/
def utf8Body (m : Mutf8) (n : Int) (r : Bytes) : Except Err (String × Bytes) := do
  let s ← m.dec (takeLenient n r).1
  pure (s, (takeLenient n r).2)

theorem readUtf8_eq (bs : Bytes) :
    readUtf8 m bs = (do let (n, r) ← IntT.i16.unpack bs; utf8Body m n r) := rfl

theorem softRes_dec (raw : Bytes) :
    SoftRes (do let s ← m.dec raw; pure (s, ([] : Bytes)) : Except Err (String × Bytes)) := by
  cases m.dec raw with
  | error e => exact softRes_err e
  | ok s => exact softRes_ok s

theorem utf8Body_nil (n : Int) : SoftRes (utf8Body m n []) := by
  unfold utf8Body
  rw [takeLenient_nil]
  exact softRes_dec []

theorem soft_utf8 (hm : Mutf8Law m) (s : String) (hs : (m.enc s).length < 2 ^ 15) :
    ∃ bs, writeUtf8 m s = .ok bs ∧ bs ≠ [] ∧ Soft0 (readUtf8 m) bs s := by
  obtain ⟨h, hh, hl, hH⟩ := soft_int .i16 _ (i16_inDom_len _ hs)
  refine ⟨h ++ m.enc s, ?_, ?_, ?_⟩
  · show (do let h ← IntT.i16.pack ((m.enc s).length : Int); pure (h ++ m.enc s)) = _
    rw [hh]; rfl
  · intro e
    have := congrArg List.length e
    simp [hl, IntT.width] at this
  · refine (Soft0.ofHdr hH).bind (utf8Body m) ⟨fun rest => ?_, fun q hq hne => ?_⟩
      (fun y => utf8Body_nil y) _ readUtf8_eq
    · unfold utf8Body
      rw [takeLenient_exact, hm.rt]; rfl
    · unfold utf8Body
      rw [takeLenient_short _ q (Nat.le_of_lt (prefix_length_lt hq hne))]
      exact softRes_dec q

theorem readUtf8_nil : ∃ e, readUtf8 m [] = .error e :=
  ⟨.struct, by rw [readUtf8_eq, unpack_nil]; rfl⟩

end strings

/-! ## repeated reads -/

theorem repeatRead_succ {α : Type} (f : Bytes → Except Err (α × Bytes)) (n : Nat) (bs : Bytes) :
    repeatRead f (n + 1) bs =
      (do let (v, r) ← f bs; (fun v r => do let (vs, r') ← repeatRead f n r; pure (v :: vs, r')) v r) :=
  rfl

theorem repeatRead_nil_soft {α : Type} {f : Bytes → Except Err (α × Bytes)} (h : SoftRes (f [])) :
    ∀ n, SoftRes (repeatRead f n []) := by
  intro n
  induction n with
  | zero => exact softRes_ok []
  | succ n ih =>
    rw [repeatRead_succ]
    exact softRes_bind h (fun v r => do let (vs, r') ← repeatRead f n r; pure (v :: vs, r'))
      fun y => ih.map (y :: ·)

theorem soft_repeat_nil {α : Type} (f : Bytes → Except Err (α × Bytes)) :
    Soft0 (repeatRead f 0) [] ([] : List α) :=
  ⟨fun _ => rfl, fun _ hq hne => absurd (List.prefix_nil.mp hq) hne⟩

theorem soft_repeat_cons {α : Type} {f : Bytes → Except Err (α × Bytes)} {a : Bytes} {x : α}
    (hx : Soft0 f a x) (hnil : SoftRes (f [])) {n : Nat} {b : Bytes} {xs : List α}
    (hxs : Soft0 (repeatRead f n) b xs) : Soft0 (repeatRead f (n + 1)) (a ++ b) (x :: xs) :=
  hx.bind (fun v r => do let (vs, r') ← repeatRead f n r; pure (v :: vs, r'))
    (hxs.map (x :: ·) _ fun _ => rfl) (fun y => (repeatRead_nil_soft hnil n).map (y :: ·)) _
    (repeatRead_succ f n)

/-- `struct.pack('>{n}i', *vs)` and the matching unpack -/
theorem soft_ints (t : IntT) : ∀ vs : List Int, (∀ v ∈ vs, t.inDom v) →
    ∃ body, packAll t vs = .ok body ∧ Soft0 (repeatRead t.unpack vs.length) body vs := by
  intro vs
  induction vs with
  | nil => intro _; exact ⟨[], rfl, soft_repeat_nil _⟩
  | cons v vs ih =>
    intro h
    obtain ⟨a, ha, _, hA⟩ := soft_int t v (h v List.mem_cons_self)
    obtain ⟨b, hb, hB⟩ := ih fun w hw => h w (List.mem_cons_of_mem _ hw)
    refine ⟨a ++ b, ?_, soft_repeat_cons (Soft0.ofHdr hA) (by rw [unpack_nil]; exact softRes_err _) hB⟩
    show (do let a ← t.pack v; let b ← packAll t vs; pure (a ++ b)) = _
    rw [ha, hb]; rfl

/-! ## the payload readers, one nesting level -/

section payload
variable {m : Mutf8}

theorem readPayload_succ (f ty : Nat) (bs : Bytes) :
    readPayload m (f + 1) ty bs = readBody m (readPayload m f) ty bs := rfl

theorem soft_scalar (t : IntT) (mk : Int → Tag) (v : Int) (hv : t.inDom v) :
    ∃ bs, t.pack v = .ok bs ∧ bs ≠ [] ∧ Soft0 (readScalar t mk) bs (mk v) := by
  obtain ⟨bs, hb, _, hH⟩ := soft_int t v hv
  exact ⟨bs, hb, hH.1, Soft0.ofHdr (hH.map mk _ fun _ => rfl)⟩

/-- what follows the length of a byte array -/
def baBody (n : Int) (r : Bytes) : Except Err (Tag × Bytes) :=
  pure (.byteArray (takeLenient n r).1, (takeLenient n r).2)

theorem readBody_7 (rd : Nat → Bytes → Except Err (Tag × Bytes)) (bs : Bytes) :
    readBody m rd 7 bs = (do let (n, r) ← IntT.i32.unpack bs; baBody n r) := rfl

theorem soft_byteArray (rd : Nat → Bytes → Except Err (Tag × Bytes)) (b : Bytes)
    (hb : b.length < 2 ^ 31) :
    ∃ bs, savePayload m (.byteArray b) = .ok bs ∧ bs ≠ [] ∧ Soft0 (readBody m rd 7) bs (.byteArray b) := by
  obtain ⟨h, hh, hl, hH⟩ := soft_int .i32 _ (i32_inDom_len _ hb)
  refine ⟨h ++ b, ?_, by simp [hH.1], ?_⟩
  · show (do let h ← IntT.i32.pack (b.length : Int); pure (h ++ b)) = _
    rw [hh]; rfl
  · refine (Soft0.ofHdr hH).bind baBody ⟨fun rest => ?_, fun q hq hne => ?_⟩ (fun y => ?_) _
      (readBody_7 rd)
    · unfold baBody; rw [takeLenient_exact]; rfl
    · unfold baBody
      rw [takeLenient_short _ q (Nat.le_of_lt (prefix_length_lt hq hne))]
      exact softRes_ok _
    · unfold baBody; rw [takeLenient_nil]; exact softRes_ok _

theorem readBody_8 (rd : Nat → Bytes → Except Err (Tag × Bytes)) (bs : Bytes) :
    readBody m rd 8 bs = (do let (s, r) ← readUtf8 m bs; pure (Tag.string s, r)) := rfl

theorem soft_string (hm : Mutf8Law m) (rd : Nat → Bytes → Except Err (Tag × Bytes)) (s : String)
    (hs : (m.enc s).length < 2 ^ 15) :
    ∃ bs, savePayload m (.string s) = .ok bs ∧ bs ≠ [] ∧ Soft0 (readBody m rd 8) bs (.string s) := by
  obtain ⟨bs, h1, h2, h3⟩ := soft_utf8 hm s hs
  exact ⟨bs, h1, h2, h3.map Tag.string _ (readBody_8 rd)⟩

/-- what follows the length of an int / long array -/
def iaBody (t : IntT) (mk : List Int → Tag) (n : Int) (r : Bytes) : Except Err (Tag × Bytes) := do
  if n < 0 then throw .struct
  let (vs, r') ← repeatRead t.unpack n.toNat r
  pure (mk vs, r')

theorem readIntArray_eq (t : IntT) (mk : List Int → Tag) (bs : Bytes) :
    readIntArray t mk bs = (do let (n, r) ← IntT.i32.unpack bs; iaBody t mk n r) := rfl

theorem iaBody_nat (t : IntT) (mk : List Int → Tag) (n : Nat) (r : Bytes) :
    iaBody t mk (n : Int) r = (do let (vs, r') ← repeatRead t.unpack n r; pure (mk vs, r')) := by
  unfold iaBody
  rw [if_neg (by omega)]
  rfl

theorem iaBody_nil (t : IntT) (mk : List Int → Tag) (n : Int) : SoftRes (iaBody t mk n []) := by
  by_cases h : n < 0
  · unfold iaBody; rw [if_pos h]; exact softRes_err _
  · obtain ⟨k, rfl⟩ := Int.eq_ofNat_of_zero_le (by omega : 0 ≤ n)
    rw [iaBody_nat]
    exact (repeatRead_nil_soft (by rw [unpack_nil]; exact softRes_err _) k).map mk

theorem soft_intArray (t : IntT) (mk : List Int → Tag) (vs : List Int) (hl : vs.length < 2 ^ 31)
    (hv : ∀ v ∈ vs, t.inDom v) :
    ∃ h body, IntT.i32.pack (vs.length : Int) = .ok h ∧ packAll t vs = .ok body ∧ h ++ body ≠ [] ∧
      Soft0 (readIntArray t mk) (h ++ body) (mk vs) := by
  obtain ⟨h, hh, _, hH⟩ := soft_int .i32 _ (i32_inDom_len _ hl)
  obtain ⟨body, hb, hB⟩ := soft_ints t vs hv
  refine ⟨h, body, hh, hb, by simp [hH.1], ?_⟩
  refine (Soft0.ofHdr hH).bind (iaBody t mk) ?_ (iaBody_nil t mk) _ (readIntArray_eq t mk)
  exact hB.map mk _ (iaBody_nat t mk _)

theorem readBody_11 (rd : Nat → Bytes → Except Err (Tag × Bytes)) (bs : Bytes) :
    readBody m rd 11 bs = readIntArray .i32 .intArray bs := rfl

theorem readBody_12 (rd : Nat → Bytes → Except Err (Tag × Bytes)) (bs : Bytes) :
    readBody m rd 12 bs = readIntArray .i64 .longArray bs := rfl

/-! ### lists -/

def listB2 (rd : Nat → Bytes → Except Err (Tag × Bytes)) (tt len : Int) (r : Bytes) :
    Except Err (Tag × Bytes) := do
  let c ← tagClass tt
  let (items, r') ← repeatRead (rd c) len.toNat r
  pure (.list c items, r')

def listB1 (rd : Nat → Bytes → Except Err (Tag × Bytes)) (tt : Int) (r : Bytes) :
    Except Err (Tag × Bytes) := do
  let (len, r') ← IntT.i32.unpack r
  listB2 rd tt len r'

theorem readBody_9 (rd : Nat → Bytes → Except Err (Tag × Bytes)) (bs : Bytes) :
    readBody m rd 9 bs = (do let (tt, r) ← IntT.i8.unpack bs; listB1 rd tt r) := rfl

theorem listB2_id (rd : Nat → Bytes → Except Err (Tag × Bytes)) (ty : Nat) (hty : ty ≤ 12) (n : Nat)
    (r : Bytes) :
    listB2 rd (ty : Int) (n : Int) r =
      (do let (items, r') ← repeatRead (rd ty) n r; pure (Tag.list ty items, r')) := by
  unfold listB2
  rw [tagClass_id ty hty]
  rfl

theorem listB2_nil (rd : Nat → Bytes → Except Err (Tag × Bytes))
    (hrd : ∀ c, SoftRes (rd c [])) (tt len : Int) : SoftRes (listB2 rd tt len []) := by
  unfold listB2
  cases tagClass tt with
  | error e => exact softRes_err e
  | ok c => exact (repeatRead_nil_soft (hrd c) len.toNat).map (Tag.list c)

theorem soft_list (rd : Nat → Bytes → Except Err (Tag × Bytes)) (hrd : ∀ c, SoftRes (rd c []))
    (ty : Nat) (hty : ty ≤ 12) (items : List Tag) (hl : items.length < 2 ^ 31) (body : Bytes)
    (hB : Soft0 (repeatRead (rd ty) items.length) body items) :
    ∃ h1 h2, IntT.i8.pack (ty : Int) = .ok h1 ∧ IntT.i32.pack (items.length : Int) = .ok h2 ∧
      h1 ++ h2 ++ body ≠ [] ∧ Soft0 (readBody m rd 9) (h1 ++ h2 ++ body) (.list ty items) := by
  obtain ⟨h1, hh1, _, hH1⟩ := soft_int .i8 _ (i8_inDom_id ty hty)
  obtain ⟨h2, hh2, _, hH2⟩ := soft_int .i32 _ (i32_inDom_len _ hl)
  refine ⟨h1, h2, hh1, hh2, by simp [hH1.1], ?_⟩
  rw [List.append_assoc]
  refine (Soft0.ofHdr hH1).bind (listB1 rd) ?_ (fun y => ?_) _ (readBody_9 rd)
  · refine (Soft0.ofHdr hH2).bind (listB2 rd ty) ?_ (listB2_nil rd hrd ty) _ (fun _ => rfl)
    exact hB.map (Tag.list ty) _ (listB2_id rd ty hty _)
  · unfold listB1; exact softRes_unpack_nil _ _

/-! ### compounds -/

/-- one iteration of the loop after the tag byte -/
def loopStep (rn : Nat → Bytes → Except Err ((String × Tag) × Bytes)) (k : Nat) (acc : Entries)
    (tag : Int) (r : Bytes) : Except Err (Entries × Bytes) :=
  if tag = 0 then pure (acc, r) else do
    let c ← tagClass tag
    let (e, r') ← rn c r
    entriesLoop rn k (dictSet acc e.1 e.2) r'

theorem entriesLoop_succ (rn : Nat → Bytes → Except Err ((String × Tag) × Bytes)) (k : Nat)
    (acc : Entries) (bs : Bytes) :
    entriesLoop rn (k + 1) acc bs = (do let (tag, r) ← IntT.i8.unpack bs; loopStep rn k acc tag r) :=
  rfl

theorem entriesLoop_nil (rn : Nat → Bytes → Except Err ((String × Tag) × Bytes)) (k : Nat)
    (acc : Entries) : ∃ e, entriesLoop rn k acc [] = .error e := by
  cases k with
  | zero => exact ⟨_, rfl⟩
  | succ k => exact ⟨.struct, by rw [entriesLoop_succ, unpack_nil]; rfl⟩

theorem loopStep_id (rn : Nat → Bytes → Except Err ((String × Tag) × Bytes)) (k : Nat)
    (acc : Entries) (c : Nat) (h0 : c ≠ 0) (hc : c ≤ 12) (r : Bytes) :
    loopStep rn k acc (c : Int) r =
      (do let (e, r') ← rn c r; entriesLoop rn k (dictSet acc e.1 e.2) r') := by
  unfold loopStep
  rw [if_neg (by omega), tagClass_id c hc]
  rfl

theorem readNamed_eq (rd : Nat → Bytes → Except Err (Tag × Bytes)) (c : Nat) (bs : Bytes) :
    readNamed m rd c bs =
      (do let (name, r) ← readUtf8 m bs
          (fun name r => do let (t, r') ← rd c r; pure ((name, t), r')) name r) := rfl

/-- a named child: its key, then its payload -/
theorem soft_named (hm : Mutf8Law m) (rd : Nat → Bytes → Except Err (Tag × Bytes))
    (hrd : ∀ c, SoftRes (rd c [])) (c : Nat) (key : String) (hk : (m.enc key).length < 2 ^ 15)
    (t : Tag) (p : Bytes) (hp : Soft0 (rd c) p t) :
    ∃ n, writeUtf8 m key = .ok n ∧ Soft0 (readNamed m rd c) (n ++ p) (key, t) := by
  obtain ⟨n, hn, _, hN⟩ := soft_utf8 hm key hk
  refine ⟨n, hn, hN.bind (fun name r => do let (t, r') ← rd c r; pure ((name, t), r'))
    (hp.map (fun t => (key, t)) _ fun _ => rfl) (fun y => ?_) _ (readNamed_eq (m := m) rd c)⟩
  exact (hrd c).map fun t => (y, t)

theorem dictSet_fresh : ∀ (acc : Entries) (k : String) (t : Tag), k ∉ acc.map (·.1) →
    dictSet acc k t = acc ++ [(k, t)] := by
  intro acc
  induction acc with
  | nil => intros; rfl
  | cons a acc ih =>
    intro k t h
    obtain ⟨k', t'⟩ := a
    simp only [List.map_cons, List.mem_cons, not_or] at h
    simp only [dictSet, if_neg (Ne.symm h.1), ih k t h.2, List.cons_append]

theorem readBody_10 (rd : Nat → Bytes → Except Err (Tag × Bytes)) (bs : Bytes) :
    readBody m rd 10 bs =
      (do let (es, r) ← entriesLoop (readNamed m rd) (bs.length + 1) [] bs
          pure (Tag.compound es, r)) := rfl

theorem i8_zero (rest : Bytes) : IntT.i8.unpack (0 :: rest) = .ok (0, rest) := by
  have := (hdr_int .i8 0 [0] (by decide) (by decide)).2.1 rest
  simpa using this

theorem readBody_nil (rd : Nat → Bytes → Except Err (Tag × Bytes)) (ty : Nat) :
    ∃ e, readBody m rd ty [] = .error e := by
  unfold readBody
  split <;> first | exact ⟨.struct, rfl⟩ | exact ⟨.other, rfl⟩

theorem readPayload_nil (f ty : Nat) : ∃ e, readPayload m f ty [] = .error e := by
  cases f with
  | zero => exact ⟨_, rfl⟩
  | succ f => exact readBody_nil _ ty

theorem readPayload_nil_soft (f ty : Nat) : SoftRes (readPayload m f ty []) :=
  Or.inl (readPayload_nil f ty)

/-- an error of the first reader is an error of the sequence; so is a soft success when the second
reader rejects the empty input -/
theorem err_bind_of_softRes {α β : Type} {r : Except Err (α × Bytes)} (hr : SoftRes r)
    (B : α → Bytes → Except Err (β × Bytes)) (hnil : ∀ y, ∃ e, B y [] = .error e) :
    ∃ e, (do let (v, s) ← r; B v s) = .error e := by
  rcases hr with ⟨e, rfl⟩ | ⟨y, rfl⟩
  · exact ⟨e, rfl⟩
  · exact hnil y

/-! ## the induction over tags -/

theorem succ_of_depth {d f : Nat} (h : d + 1 ≤ f) : ∃ f', f = f' + 1 ∧ d ≤ f' :=
  ⟨f - 1, by omega, by omega⟩

mutual
  /-- a well-formed tag of depth ≤ `f`: its payload is written, is not empty, is read back by
  `readPayload m f` whatever follows, and a strict prefix of it is rejected or eaten whole -/
  theorem payload_soft (hm : Mutf8Law m) : ∀ (t : Tag) (f : Nat), t.wf m = true → t.depth ≤ f →
      ∃ bs, savePayload m t = .ok bs ∧ bs ≠ [] ∧ Soft0 (readPayload m f t.tagId) bs t
    | .end_ _, _, hw, _ => by simp [Tag.wf] at hw
    | .byte v, f, hw, hd => by
      obtain ⟨f, rfl, _⟩ := succ_of_depth (d := 0) (by simpa [Tag.depth] using hd)
      simp only [Tag.wf, decide_eq_true_eq] at hw
      exact soft_scalar .i8 .byte v hw
    | .short v, f, hw, hd => by
      obtain ⟨f, rfl, _⟩ := succ_of_depth (d := 0) (by simpa [Tag.depth] using hd)
      simp only [Tag.wf, decide_eq_true_eq] at hw
      exact soft_scalar .i16 .short v hw
    | .int v, f, hw, hd => by
      obtain ⟨f, rfl, _⟩ := succ_of_depth (d := 0) (by simpa [Tag.depth] using hd)
      simp only [Tag.wf, decide_eq_true_eq] at hw
      exact soft_scalar .i32 .int v hw
    | .long v, f, hw, hd => by
      obtain ⟨f, rfl, _⟩ := succ_of_depth (d := 0) (by simpa [Tag.depth] using hd)
      simp only [Tag.wf, decide_eq_true_eq] at hw
      exact soft_scalar .i64 .long v hw
    | .float v, f, hw, hd => by
      obtain ⟨f, rfl, _⟩ := succ_of_depth (d := 0) (by simpa [Tag.depth] using hd)
      simp only [Tag.wf, decide_eq_true_eq] at hw
      exact soft_scalar .f32 .float v hw
    | .double v, f, hw, hd => by
      obtain ⟨f, rfl, _⟩ := succ_of_depth (d := 0) (by simpa [Tag.depth] using hd)
      simp only [Tag.wf, decide_eq_true_eq] at hw
      exact soft_scalar .f64 .double v hw
    | .byteArray b, f, hw, hd => by
      obtain ⟨f, rfl, _⟩ := succ_of_depth (d := 0) (by simpa [Tag.depth] using hd)
      simp only [Tag.wf, decide_eq_true_eq] at hw
      exact soft_byteArray (m := m) (readPayload m f) b hw
    | .string s, f, hw, hd => by
      obtain ⟨f, rfl, _⟩ := succ_of_depth (d := 0) (by simpa [Tag.depth] using hd)
      simp only [Tag.wf, decide_eq_true_eq] at hw
      exact soft_string hm (readPayload m f) s hw
    | .intArray vs, f, hw, hd => by
      obtain ⟨f, rfl, _⟩ := succ_of_depth (d := 0) (by simpa [Tag.depth] using hd)
      simp only [Tag.wf, Bool.and_eq_true, decide_eq_true_eq, List.all_eq_true] at hw
      obtain ⟨h, body, hh, hb, hne, hS⟩ := soft_intArray .i32 .intArray vs hw.1 hw.2
      refine ⟨h ++ body, ?_, hne, hS⟩
      show (do let h ← IntT.i32.pack (vs.length : Int); let b ← packAll .i32 vs; pure (h ++ b)) = _
      rw [hh, hb]; rfl
    | .longArray vs, f, hw, hd => by
      obtain ⟨f, rfl, _⟩ := succ_of_depth (d := 0) (by simpa [Tag.depth] using hd)
      simp only [Tag.wf, Bool.and_eq_true, decide_eq_true_eq, List.all_eq_true] at hw
      obtain ⟨h, body, hh, hb, hne, hS⟩ := soft_intArray .i64 .longArray vs hw.1 hw.2
      refine ⟨h ++ body, ?_, hne, hS⟩
      show (do let h ← IntT.i32.pack (vs.length : Int); let b ← packAll .i64 vs; pure (h ++ b)) = _
      rw [hh, hb]; rfl
    | .list ty items, f, hw, hd => by
      obtain ⟨f, rfl, hd'⟩ := succ_of_depth (by simpa [Tag.depth] using hd)
      simp only [Tag.wf, Bool.and_eq_true, decide_eq_true_eq] at hw
      obtain ⟨⟨hty, hl⟩, hwi⟩ := hw
      obtain ⟨body, hb, hB⟩ := items_soft hm items ty f hwi hd'
      obtain ⟨h1, h2, hh1, hh2, hne, hS⟩ :=
        soft_list (m := m) (readPayload m f) (readPayload_nil_soft f) ty hty items hl body hB
      refine ⟨h1 ++ h2 ++ body, ?_, hne, hS⟩
      rw [savePayload, if_neg (by omega)]
      show (do let h1 ← IntT.i8.pack (ty : Int); let h2 ← IntT.i32.pack (items.length : Int)
               let body ← saveItems m ty items; pure (h1 ++ h2 ++ body)) = _
      rw [hh1, hh2, hb]; rfl
    | .compound es, f, hw, hd => by
      obtain ⟨f, rfl, hd'⟩ := succ_of_depth (by simpa [Tag.depth] using hd)
      simp only [Tag.wf, Bool.and_eq_true] at hw
      obtain ⟨hk, hwe⟩ := hw
      obtain ⟨body, hb, hlen, hex, hpre⟩ := entries_soft hm es f hwe hd'
      refine ⟨body ++ [0], ?_, by simp, fun rest => ?_, fun q hq hne => Or.inl ?_⟩
      · rw [savePayload, hk]
        show (do let body ← saveEntries m es; pure (body ++ [0])) = _
        rw [hb]; rfl
      · show readBody m (readPayload m f) 10 (body ++ [0] ++ rest) = _
        rw [readBody_10]
        have e : body ++ [0] ++ rest = body ++ 0 :: rest := by simp
        rw [e, hex _ [] rest (by simp; omega) (by simp)
          (by simpa [keysOk] using hk)]
        rfl
      · show ∃ e, readBody m (readPayload m f) 10 q = .error e
        rw [readBody_10]
        obtain ⟨e, he⟩ := hpre (q.length + 1) [] q hq hne
        exact ⟨e, by rw [he]; rfl⟩
  theorem items_soft (hm : Mutf8Law m) : ∀ (ts : List Tag) (ty f : Nat),
      wfItems m ty ts = true → depthItems ts ≤ f →
      ∃ body, saveItems m ty ts = .ok body ∧
        Soft0 (repeatRead (readPayload m f ty) ts.length) body ts
    | [], _, _, _, _ => ⟨[], rfl, soft_repeat_nil _⟩
    | t :: ts, ty, f, hw, hd => by
      simp only [wfItems, Bool.and_eq_true, decide_eq_true_eq] at hw
      obtain ⟨⟨hid, hwt⟩, hws⟩ := hw
      simp only [depthItems] at hd
      have hd1 : t.depth ≤ f := Nat.le_trans (Nat.le_max_left _ _) hd
      have hd2 : depthItems ts ≤ f := Nat.le_trans (Nat.le_max_right _ _) hd
      obtain ⟨a, ha, _, hA⟩ := payload_soft hm t f hwt hd1
      obtain ⟨b, hb, hB⟩ := items_soft hm ts ty f hws hd2
      rw [hid] at hA
      refine ⟨a ++ b, ?_, soft_repeat_cons hA (readPayload_nil_soft f ty) hB⟩
      rw [saveItems, if_neg (by simpa using hid)]
      show (do let a ← savePayload m t; let b ← saveItems m ty ts; pure (a ++ b)) = _
      rw [ha, hb]; rfl
  /-- the children of a compound, followed by the `TAG_End` byte: read back by the loop (given enough
  iterations and keys not yet in the accumulator); EVERY strict prefix is rejected -/
  theorem entries_soft (hm : Mutf8Law m) : ∀ (es : Entries) (f : Nat),
      wfEntries m es = true → depthEntries es ≤ f →
      ∃ body, saveEntries m es = .ok body ∧ es.length ≤ body.length ∧
        (∀ k acc rest, es.length < k → (∀ e ∈ es, e.1 ∉ acc.map (·.1)) → (es.map (·.1)).Nodup →
          entriesLoop (readNamed m (readPayload m f)) k acc (body ++ 0 :: rest)
            = .ok (acc ++ es, rest)) ∧
        ∀ k acc q, q <+: body ++ [0] → q ≠ body ++ [0] →
          ∃ e, entriesLoop (readNamed m (readPayload m f)) k acc q = .error e
    | [], f, _, _ => by
      refine ⟨[], rfl, Nat.le_refl _, fun k acc rest hk _ _ => ?_, fun k acc q hq hne => ?_⟩
      · obtain ⟨k, rfl⟩ : ∃ k', k = k' + 1 := ⟨k - 1, by simp at hk; omega⟩
        rw [List.nil_append, entriesLoop_succ, i8_zero]
        simp [loopStep, pure, Except.pure, bind, Except.bind]
      · have : q = [] := by
          rcases q with _ | ⟨c, q⟩
          · rfl
          · simp only [List.nil_append, List.cons_prefix_cons, List.prefix_nil] at hq
            exact absurd (by rw [hq.1, hq.2]; rfl) hne
        subst this
        exact entriesLoop_nil _ k acc
    | (key, t) :: es, f, hw, hd => by
      simp only [wfEntries, Bool.and_eq_true, decide_eq_true_eq] at hw
      obtain ⟨⟨hkey, hwt⟩, hws⟩ := hw
      simp only [depthEntries] at hd
      have hd1 : t.depth ≤ f := Nat.le_trans (Nat.le_max_left _ _) hd
      have hd2 : depthEntries es ≤ f := Nat.le_trans (Nat.le_max_right _ _) hd
      obtain ⟨p, hp, _, hP⟩ := payload_soft hm t f hwt hd1
      obtain ⟨r, hr, hlen, hex, hpre⟩ := entries_soft hm es f hws hd2
      have hid0 : t.tagId ≠ 0 := by
        intro h0; cases t <;> simp [Tag.tagId] at h0; simp [Tag.wf] at hwt
      have hid12 : t.tagId ≤ 12 := by cases t <;> simp [Tag.tagId]
      obtain ⟨i, hi, hil, hI⟩ := soft_int .i8 _ (i8_inDom_id _ hid12)
      obtain ⟨n, hn, hN⟩ := soft_named hm (readPayload m f) (readPayload_nil_soft f) t.tagId key hkey
        t p hP
      refine ⟨i ++ n ++ p ++ r, ?_, ?_, fun k acc rest hk hfresh hnd => ?_, fun k acc q hq hne => ?_⟩
      · rw [saveEntries]
        show (do let i ← IntT.i8.pack (t.tagId : Int); let n ← writeUtf8 m key
                 let p ← savePayload m t; let r ← saveEntries m es; pure (i ++ n ++ p ++ r)) = _
        rw [hi, hn, hp, hr]; rfl
      · simp only [List.length_cons, List.length_append, hil, IntT.width]; omega
      · obtain ⟨k, rfl⟩ : ∃ k', k = k' + 1 := ⟨k - 1, by simp at hk; omega⟩
        have e : i ++ n ++ p ++ r ++ 0 :: rest = i ++ ((n ++ p) ++ (r ++ 0 :: rest)) := by simp
        rw [e, entriesLoop_succ, hI.2.1, ]
        show loopStep _ k acc (t.tagId : Int) _ = _
        rw [loopStep_id _ k acc t.tagId hid0 hid12, hN.1]
        show entriesLoop _ k (dictSet acc key t) (r ++ 0 :: rest) = _
        have hkf : key ∉ acc.map (·.1) := hfresh (key, t) List.mem_cons_self
        simp only [List.map_cons, List.nodup_cons] at hnd
        rw [dictSet_fresh acc key t hkf, hex k _ rest (by simp at hk; omega) ?_ hnd.2]
        · simp
        · intro e he
          simp only [List.map_append, List.map_cons, List.map_nil, List.mem_append,
            List.mem_singleton, not_or]
          refine ⟨hfresh e (List.mem_cons_of_mem _ he), fun h => hnd.1 ?_⟩
          rw [← h]; exact List.mem_map.mpr ⟨e, he, rfl⟩
      · cases k with
        | zero => exact ⟨_, rfl⟩
        | succ k =>
          have e : i ++ n ++ p ++ r ++ [0] = i ++ ((n ++ p) ++ (r ++ [0])) := by simp
          rw [e] at hq hne
          rw [entriesLoop_succ]
          rcases strict_prefix_append hq hne with ⟨hq', hne'⟩ | ⟨q1, rfl, hq1, hne1⟩
          · obtain ⟨e, he⟩ := hI.2.2 q hq' hne'
            exact ⟨e, by rw [he]; rfl⟩
          · rw [hI.2.1]
            show ∃ e, loopStep _ k acc (t.tagId : Int) q1 = .error e
            rw [loopStep_id _ k acc t.tagId hid0 hid12]
            rcases strict_prefix_append hq1 hne1 with ⟨hq', hne'⟩ | ⟨q2, rfl, hq2, hne2⟩
            · exact err_bind_of_softRes (hN.2 q1 hq' hne')
                (fun e r' => entriesLoop (readNamed m (readPayload m f)) k (dictSet acc e.1 e.2) r')
                fun y => entriesLoop_nil _ k _
            · rw [hN.1]
              exact hpre k _ q2 hq2 hne2
end

/-! ## the root: `NBTFile.save` / `NBTFile(io=…)` -/

/-- `loadFile` after the 0x0A byte -/
def fileBody (m : Mutf8) (fuel : Nat) (r : Bytes) : Except Err ((String × Entries) × Bytes) := do
  let (name, r') ← readUtf8 m r
  (fun name r' => do
    let (es, r'') ← entriesLoop (readNamed m (readPayload m fuel)) (r'.length + 1) [] r'
    pure ((name, es), r'')) name r'

theorem i8_ten (rest : Bytes) : IntT.i8.unpack (10 :: rest) = .ok (10, rest) := by
  have := (hdr_int .i8 10 [10] (by decide) (by decide)).2.1 rest
  simpa using this

theorem loadFile_ten (fuel : Nat) (r : Bytes) : loadFile m fuel (10 :: r) = fileBody m fuel r := by
  unfold loadFile
  rw [i8_ten]
  rfl

theorem loadFile_nil (fuel : Nat) : loadFile m fuel [] = .error .struct := by
  unfold loadFile
  rw [unpack_nil]
  rfl

/-- the whole file: written, read back whatever follows, and NO strict prefix is accepted -/
theorem file_rt (hm : Mutf8Law m) (es : Entries) (fuel : Nat) (hk : keysOk es = true)
    (hw : wfEntries m es = true) (hd : depthEntries es ≤ fuel) :
    ∃ bs, saveFile m "" es = .ok bs ∧ bs ≠ [] ∧
      (∀ rest, loadFile m fuel (bs ++ rest) = .ok (("", es), rest)) ∧
      ∀ p, p <+: bs → p ≠ bs → ∃ e, loadFile m fuel p = .error e := by
  obtain ⟨n, hn, _, hN⟩ := soft_utf8 hm "" (by rw [hm.empty]; decide)
  obtain ⟨body, hb, hlen, hex, hpre⟩ := entries_soft hm es fuel hw hd
  refine ⟨10 :: (n ++ body ++ [0]), ?_, by simp, fun rest => ?_, fun p hp hne => ?_⟩
  · unfold saveFile
    rw [hk]
    show (do let n ← writeUtf8 m ""; let body ← saveEntries m es; pure (10 :: n ++ body ++ [0])) = _
    rw [hn, hb]; rfl
  · have e : 10 :: (n ++ body ++ [0]) ++ rest = 10 :: (n ++ (body ++ 0 :: rest)) := by simp
    rw [e, loadFile_ten]
    unfold fileBody
    rw [hN.1]
    show (do let (es, r'') ← entriesLoop _ ((body ++ 0 :: rest).length + 1) [] (body ++ 0 :: rest)
             pure (("", es), r'')) = _
    rw [hex _ [] rest (by simp; omega) (by simp) (by simpa [keysOk] using hk)]
    rfl
  · rcases p with _ | ⟨c, p⟩
    · exact ⟨_, loadFile_nil fuel⟩
    · have e : 10 :: (n ++ body ++ [0]) = 10 :: (n ++ (body ++ [0])) := by simp
      rw [e] at hp hne
      rw [List.cons_prefix_cons] at hp
      obtain ⟨rfl, hp⟩ := hp
      have hne' : p ≠ n ++ (body ++ [0]) := fun h => hne (by rw [h])
      rw [loadFile_ten]
      unfold fileBody
      rcases strict_prefix_append hp hne' with ⟨hq', hne''⟩ | ⟨q, rfl, hq, hqne⟩
      · exact err_bind_of_softRes (hN.2 p hq' hne'')
          (fun name r' => do
            let (es, r'') ← entriesLoop (readNamed m (readPayload m fuel)) (r'.length + 1) [] r'
            pure ((name, es), r''))
          fun y => by
            obtain ⟨e, he⟩ := entriesLoop_nil (readNamed m (readPayload m fuel)) (0 + 1) []
            exact ⟨e, by show (do let (es, r'') ← entriesLoop _ (0 + 1) [] []; pure ((y, es), r'')) = _
                         rw [he]; rfl⟩
      · rw [hN.1]
        obtain ⟨e, he⟩ := hpre (q.length + 1) [] q hq hqne
        exact ⟨e, by show (do let (es, r'') ← entriesLoop _ (q.length + 1) [] q
                              pure (("", es), r'')) = _
                     rw [he]; rfl⟩

end payload

/-! ## tags as values -/

mutual
  theorem ofValue_toValue : ∀ t : Tag, ofValue t.toValue = some t
    | .end_ _ | .byte _ | .short _ | .int _ | .long _ | .float _ | .double _ | .byteArray _
    | .string _ => rfl
    | .list ty items => by
      simp only [Tag.toValue, ofValue]
      rw [if_pos (by omega), ofValues_items items]
      simp
    | .compound es => by
      simp only [Tag.toValue, ofValue]
      rw [ofEntries_entries es]; rfl
    | .intArray vs => by
      simp only [Tag.toValue, Value.ofInts, ofValue]
      rw [intsOf_map]; rfl
    | .longArray vs => by
      simp only [Tag.toValue, Value.ofInts, ofValue]
      rw [intsOf_map]; rfl
  theorem ofValues_items : ∀ ts : List Tag, ofValues (itemsToValue ts) = some ts
    | [] => rfl
    | t :: ts => by
      simp only [itemsToValue, ofValues]
      rw [ofValue_toValue t, ofValues_items ts]; rfl
  theorem ofEntries_entries : ∀ es : Entries, ofEntries (entriesToValue es) = some es
    | [] => rfl
    | (k, t) :: es => by
      simp only [entriesToValue, ofEntries]
      rw [ofValue_toValue t, ofEntries_entries es]; rfl
end

theorem ofRootValue_rootValue (name : String) (es : Entries) :
    ofRootValue (rootValue name es) = some (name, es) := by
  simp only [rootValue, ofRootValue]
  rw [ofEntries_entries]; rfl

mutual
  theorem valEqb_sound : ∀ a b : Value, valEqb a b = true → a = b
    | .bool a, b, h => by cases b <;> simp [valEqb] at h; rw [h]
    | .int a, b, h => by cases b <;> simp [valEqb] at h; rw [h]
    | .bytes a, b, h => by cases b <;> simp [valEqb] at h; rw [h]
    | .str a, b, h => by cases b <;> simp [valEqb] at h; rw [h]
    | .list a, .list b, h => by
      simp only [valEqb] at h; rw [valsEqb_sound a b h]
    | .list _, .bool _, h | .list _, .int _, h | .list _, .bytes _, h | .list _, .str _, h => by
      simp [valEqb] at h
  theorem valsEqb_sound : ∀ a b : List Value, valsEqb a b = true → a = b
    | [], [], _ => rfl
    | a :: as, b :: bs, h => by
      simp only [valsEqb, Bool.and_eq_true] at h
      rw [valEqb_sound a b h.1, valsEqb_sound as bs h.2]
    | [], _ :: _, h | _ :: _, [], h => by simp [valsEqb] at h
end

mutual
  theorem valEqb_refl : ∀ a : Value, valEqb a a = true
    | .bool _ | .int _ | .bytes _ | .str _ => by simp [valEqb]
    | .list a => by simp only [valEqb]; exact valsEqb_refl a
  theorem valsEqb_refl : ∀ a : List Value, valsEqb a a = true
    | [] => rfl
    | a :: as => by simp only [valsEqb, valEqb_refl a, valsEqb_refl as, Bool.and_self]
end

/-- what `nbtDom` says: the value is a root named `''` over well-formed children -/
theorem nbtDom_iff (m : Mutf8) (v : Value) :
    nbtDom m v ↔ ∃ es, v = rootValue "" es ∧ rootWf m es = true := by
  constructor
  · intro h
    unfold nbtDom nbtDomB at h
    split at h
    · exact absurd h (by simp)
    · next name es _ =>
      simp only [Bool.and_eq_true, beq_iff_eq] at h
      obtain ⟨⟨rfl, hw⟩, he⟩ := h
      exact ⟨es, (valEqb_sound _ _ he).symm, hw⟩
  · rintro ⟨es, rfl, hw⟩
    unfold nbtDom nbtDomB
    rw [ofRootValue_rootValue]
    simp [hw, valEqb_refl]

/-! ## the law of the modelled `NBT` type -/

theorem pynbtLaw {m : Mutf8} (hm : Mutf8Law m) : NbtLaw (pynbt m) (nbtDom m) := by
  have key : ∀ v, nbtDom m v → ∃ es bs, v = rootValue "" es ∧ nbtSend m v = .ok bs ∧ bs ≠ [] ∧
      (∀ rest, nbtRead m (bs ++ rest) = .ok (v, rest)) ∧
      ∀ p, p <+: bs → p ≠ bs → ∃ e, nbtRead m p = .error e := by
    intro v hv
    obtain ⟨es, rfl, hw⟩ := (nbtDom_iff m v).mp hv
    simp only [rootWf, Bool.and_eq_true, decide_eq_true_eq] at hw
    obtain ⟨bs, h1, h2, h3, h4⟩ := file_rt hm es maxDepth hw.1.1 hw.1.2 hw.2
    refine ⟨es, bs, rfl, ?_, h2, fun rest => ?_, fun p hp hne => ?_⟩
    · unfold nbtSend; rw [ofRootValue_rootValue]; exact h1
    · unfold nbtRead; rw [h3]; rfl
    · obtain ⟨e, he⟩ := h4 p hp hne
      exact ⟨e, by unfold nbtRead; rw [he]; rfl⟩
  refine ⟨fun v rest hv => ?_, fun v bs hv he p hp hne => ?_⟩
  · obtain ⟨_, bs, _, h1, h2, h3, _⟩ := key v hv
    exact ⟨bs, h1, h2, h3 rest⟩
  · obtain ⟨_, bs', _, h1, _, _, h4⟩ := key v hv
    have : bs = bs' := by
      have := he.symm.trans h1
      cases this; rfl
    subst this
    exact h4 p hp hne

/-- strict UTF-8 obeys the law asked of `mutf8` -/
theorem utf8Law : Mutf8Law Mutf8.utf8 :=
  ⟨fun s => by
    show (match utf8Decode (utf8 s) with
      | some s => Except.ok s
      | none => Except.error Err.decode) = _
    rw [utf8_roundtrip], by decide +kernel⟩

/-! ## decidable equality of tags (a nested inductive: not derivable) -/

mutual
  def Tag.eqb : Tag → Tag → Bool
    | .end_ a, .end_ b => a == b
    | .byte a, .byte b => a == b
    | .short a, .short b => a == b
    | .int a, .int b => a == b
    | .long a, .long b => a == b
    | .float a, .float b => a == b
    | .double a, .double b => a == b
    | .byteArray a, .byteArray b => a == b
    | .string a, .string b => a == b
    | .list t a, .list u b => t == u && tagsEqb a b
    | .compound a, .compound b => entriesEqb a b
    | .intArray a, .intArray b => a == b
    | .longArray a, .longArray b => a == b
    | _, _ => false
  def tagsEqb : List Tag → List Tag → Bool
    | [], [] => true
    | a :: as, b :: bs => Tag.eqb a b && tagsEqb as bs
    | _, _ => false
  def entriesEqb : Entries → Entries → Bool
    | [], [] => true
    | (k, a) :: as, (l, b) :: bs => k == l && Tag.eqb a b && entriesEqb as bs
    | _, _ => false
end

mutual
  theorem Tag.eqb_sound : ∀ a b : Tag, Tag.eqb a b = true → a = b
    | .end_ a, b, h => by cases b <;> simp [Tag.eqb] at h; rw [h]
    | .byte a, b, h => by cases b <;> simp [Tag.eqb] at h; rw [h]
    | .short a, b, h => by cases b <;> simp [Tag.eqb] at h; rw [h]
    | .int a, b, h => by cases b <;> simp [Tag.eqb] at h; rw [h]
    | .long a, b, h => by cases b <;> simp [Tag.eqb] at h; rw [h]
    | .float a, b, h => by cases b <;> simp [Tag.eqb] at h; rw [h]
    | .double a, b, h => by cases b <;> simp [Tag.eqb] at h; rw [h]
    | .byteArray a, b, h => by cases b <;> simp [Tag.eqb] at h; rw [h]
    | .string a, b, h => by cases b <;> simp [Tag.eqb] at h; rw [h]
    | .intArray a, b, h => by cases b <;> simp [Tag.eqb] at h; rw [h]
    | .longArray a, b, h => by cases b <;> simp [Tag.eqb] at h; rw [h]
    | .list t a, .list u b, h => by
      simp only [Tag.eqb, Bool.and_eq_true, beq_iff_eq] at h
      rw [h.1, tagsEqb_sound a b h.2]
    | .compound a, .compound b, h => by
      simp only [Tag.eqb] at h
      rw [entriesEqb_sound a b h]
    | .list _ _, .end_ _, h | .list _ _, .byte _, h | .list _ _, .short _, h | .list _ _, .int _, h
    | .list _ _, .long _, h | .list _ _, .float _, h | .list _ _, .double _, h
    | .list _ _, .byteArray _, h | .list _ _, .string _, h | .list _ _, .compound _, h
    | .list _ _, .intArray _, h | .list _ _, .longArray _, h
    | .compound _, .end_ _, h | .compound _, .byte _, h | .compound _, .short _, h
    | .compound _, .int _, h | .compound _, .long _, h | .compound _, .float _, h
    | .compound _, .double _, h | .compound _, .byteArray _, h | .compound _, .string _, h
    | .compound _, .list _ _, h | .compound _, .intArray _, h | .compound _, .longArray _, h => by
      simp [Tag.eqb] at h
  theorem tagsEqb_sound : ∀ a b : List Tag, tagsEqb a b = true → a = b
    | [], [], _ => rfl
    | a :: as, b :: bs, h => by
      simp only [tagsEqb, Bool.and_eq_true] at h
      rw [Tag.eqb_sound a b h.1, tagsEqb_sound as bs h.2]
    | [], _ :: _, h | _ :: _, [], h => by simp [tagsEqb] at h
  theorem entriesEqb_sound : ∀ a b : Entries, entriesEqb a b = true → a = b
    | [], [], _ => rfl
    | (k, a) :: as, (l, b) :: bs, h => by
      simp only [entriesEqb, Bool.and_eq_true, beq_iff_eq] at h
      rw [h.1.1, Tag.eqb_sound a b h.1.2, entriesEqb_sound as bs h.2]
    | [], _ :: _, h | _ :: _, [], h => by simp [entriesEqb] at h
end

mutual
  theorem Tag.eqb_refl : ∀ a : Tag, Tag.eqb a a = true
    | .end_ _ | .byte _ | .short _ | .int _ | .long _ | .float _ | .double _ | .byteArray _
    | .string _ | .intArray _ | .longArray _ => by simp [Tag.eqb]
    | .list _ a => by simp only [Tag.eqb, beq_self_eq_true, Bool.true_and]; exact tagsEqb_refl a
    | .compound a => by simp only [Tag.eqb]; exact entriesEqb_refl a
  theorem tagsEqb_refl : ∀ a : List Tag, tagsEqb a a = true
    | [] => rfl
    | a :: as => by simp only [tagsEqb, Tag.eqb_refl a, tagsEqb_refl as, Bool.and_self]
  theorem entriesEqb_refl : ∀ a : Entries, entriesEqb a a = true
    | [] => rfl
    | (k, a) :: as => by
      simp only [entriesEqb, beq_self_eq_true, Tag.eqb_refl a, entriesEqb_refl as, Bool.and_self]
end

instance decEqTag : DecidableEq Tag := fun a b =>
  if h : Tag.eqb a b = true then isTrue (Tag.eqb_sound a b h)
  else isFalse fun e => h (e ▸ Tag.eqb_refl a)

theorem nbtSend_rootValue (m : Mutf8) (name : String) (es : Entries) :
    nbtSend m (rootValue name es) = saveFile m "" es := by
  unfold nbtSend; rw [ofRootValue_rootValue]

/-- the empty dict is in the domain, whatever `mutf8` is -/
theorem nbtDom_empty (m : Mutf8) : nbtDom m (rootValue "" []) :=
  (nbtDom_iff m _).mpr ⟨[], rfl, rfl⟩

/-! ## the new codec is a conservative extension: NBT-free types are untouched -/

theorem encode_with_eq (n : NbtCodec) : ∀ t : WType, t.hasNbt = false →
    ∀ v, encode (realCustomWith n) t v = encode realCustom t v := by
  intro t
  induction t with
  | array l t ih =>
    intro h v
    have e : encode (realCustomWith n) t = encode realCustom t :=
      funext (ih (by simpa [WType.hasNbt] using h))
    cases v <;> simp only [encode, e]
  | custom c =>
    intro h v
    exact realCustomWith_enc n c (by rintro rfl; simp [WType.hasNbt] at h) v
  | _ => intro _ v; cases v <;> rfl

theorem decode_with_eq (n : NbtCodec) : ∀ t : WType, t.hasNbt = false →
    ∀ bs, decode (realCustomWith n) t bs = decode realCustom t bs := by
  intro t
  induction t with
  | array l t ih =>
    intro h bs
    have e : decode (realCustomWith n) t = decode realCustom t :=
      funext (ih (by simpa [WType.hasNbt] using h))
    simp only [decode, e]
  | custom c =>
    intro h bs
    exact realCustomWith_dec n c (by rintro rfl; simp [WType.hasNbt] at h) bs
  | _ => intro _ bs; rfl

theorem encodeFields_with_eq (n : NbtCodec) : ∀ (L : Layout), Layout.hasNbt L = false →
    ∀ vals, encodeFields (realCustomWith n) L vals = encodeFields realCustom L vals := by
  intro L
  induction L with
  | nil => intro _ vals; cases vals <;> rfl
  | cons f L ih =>
    intro h vals
    obtain ⟨nm, t⟩ := f
    simp only [Layout.hasNbt, List.any_cons, Bool.or_eq_false_iff] at h
    cases vals with
    | nil => rfl
    | cons v vs =>
      simp only [encodeFields, encode_with_eq n t h.1 v, ih h.2 vs]

theorem decodeFields_with_eq (n : NbtCodec) : ∀ (L : Layout), Layout.hasNbt L = false →
    ∀ bs, decodeFields (realCustomWith n) L bs = decodeFields realCustom L bs := by
  intro L
  induction L with
  | nil => intro _ bs; rfl
  | cons f L ih =>
    intro h bs
    obtain ⟨nm, t⟩ := f
    simp only [Layout.hasNbt, List.any_cons, Bool.or_eq_false_iff] at h
    have e : decodeFields (realCustomWith n) L = decodeFields realCustom L := funext (ih h.2)
    simp only [decodeFields, decode_with_eq n t h.1, e]

/-! ## checkers for the vectors tabulated from the live code -/

/-- the field layout of class `cls` of table `table` under protocol `v` -/
def layoutAt (lays : LayoutCheck.LayoutTables) (table cls : String) (v : Nat) : Option Layout := do
  let rows ← lays.lookup table
  let vars ← rows.lookup cls
  let var ← vars.find? fun var => var.2.contains v
  var.1

/-- a row of `Gen.nbtPacketVectors`: the live round trip succeeded, the class has an NBT layout at that
version in the layout table, the model writes the same bytes and reads the values back exactly -/
def packetRowOk (cc : CustomCodec) (lays : LayoutCheck.LayoutTables)
    (row : String × String × Nat × List Value × Bytes × Bool) : Bool :=
  match layoutAt lays row.1 row.2.1 row.2.2.1 with
  | none => false
  | some L =>
    row.2.2.2.2.2 && Layout.hasNbt L &&
    decide (encodeFields cc L row.2.2.2.1 = .ok row.2.2.2.2.1) &&
    match decodeFields cc L row.2.2.2.2.1 with
    | .ok (vs, []) => valsEqb vs row.2.2.2.1
    | _ => false

end Nbt
end PyCraft
