import PyCraft.Model.C05Nbt
import PyCraft.Lemmas.Custom
import PyCraft.Lemmas.Layout
/-!
Helper lemmas for `Props/C05Nbt.lean`:

* `realCustomWith n` obeys `CustomLaw` as soon as `n` obeys `NbtLaw`;
* the model of pynbt (`Model/C05Nbt.lean`) obeys `NbtLaw` on `nbtDom` (given the law of `mutf8`).

pynbt's reader does not notice a short `src.read(n)`, so the payload of a byte array or of a string
does NOT have the "every strict prefix is rejected" property (`Hdr`): a strict prefix may be read
"successfully" — but then it is consumed entirely (`SoftRes`), and the next `struct` read fails.
`Soft0` / `Soft` are `Hdr` weakened in this way; they compose (`Soft0.bind`), and at the root — which
ends with the `TAG_End` byte, read by `struct` — the strong property is recovered.
-/
namespace PyCraft

/-! ## `realCustomWith` -/

theorem realCustomLawWith {n : NbtCodec} {nd : Value → Prop} (h : NbtLaw n nd) :
    CustomLaw (realCustomWith n) (realDomWith nd) := by
  refine ⟨fun c v rest hw => ?_, fun c v bs hw he p hp hne => ?_⟩
  · cases c with
    | nbt => exact h.rt v rest hw
    | position b => exact realCustomLaw.rt (.position b) v rest hw
    | secpos => exact realCustomLaw.rt .secpos v rest hw
    | record b => exact realCustomLaw.rt (.record b) v rest hw
    | explRecord => exact realCustomLaw.rt .explRecord v rest hw
    | effectPos => exact realCustomLaw.rt .effectPos v rest hw
    | pitch a b => exact realCustomLaw.rt (.pitch a b) v rest hw
  · cases c with
    | nbt => exact h.prefixErr v bs hw he p hp hne
    | position b => exact realCustomLaw.prefixErr (.position b) v bs hw he p hp hne
    | secpos => exact realCustomLaw.prefixErr .secpos v bs hw he p hp hne
    | record b => exact realCustomLaw.prefixErr (.record b) v bs hw he p hp hne
    | explRecord => exact realCustomLaw.prefixErr .explRecord v bs hw he p hp hne
    | effectPos => exact realCustomLaw.prefixErr .effectPos v bs hw he p hp hne
    | pitch a b => exact realCustomLaw.prefixErr (.pitch a b) v bs hw he p hp hne

/-- off the `.nbt` slot nothing changes -/
theorem realCustomWith_enc (n : NbtCodec) (c : CustomT) (hc : c ≠ .nbt) (v : Value) :
    (realCustomWith n).enc c v = realCustom.enc c v := by
  cases c <;> first | exact absurd rfl hc | rfl

theorem realCustomWith_dec (n : NbtCodec) (c : CustomT) (hc : c ≠ .nbt) (bs : Bytes) :
    (realCustomWith n).dec c bs = realCustom.dec c bs := by
  cases c <;> first | exact absurd rfl hc | rfl

theorem realDomWith_of_realDom (nd : Value → Prop) (c : CustomT) (v : Value) (h : realDom c v) :
    realDomWith nd c v := by
  cases c with
  | nbt => exact h.elim
  | _ => exact h

theorem wellTyped_with (nd : Value → Prop) : ∀ (t : WType) (v : Value),
    WellTyped realDom t v → WellTyped (realDomWith nd) t v := by
  intro t
  induction t with
  | array l t ih =>
    intro v h
    cases v <;> try exact h
    exact ⟨h.1, fun w hw => ih w (h.2 w hw)⟩
  | custom c => intro v h; exact realDomWith_of_realDom nd c v h
  | _ => intro v h; cases v <;> exact h

theorem wellTypedFields_with (nd : Value → Prop) : ∀ (L : Layout) (vals : List Value),
    WellTypedFields realDom L vals → WellTypedFields (realDomWith nd) L vals := by
  intro L
  induction L with
  | nil => intro vals h; cases vals <;> exact h
  | cons f L ih =>
    intro vals h
    obtain ⟨n, t⟩ := f
    cases vals with
    | nil => exact h
    | cons v vs => exact ⟨wellTyped_with nd t v h.1, ih vs h.2⟩

/-! ### sample values of every type, NBT included -/

/-- `LayoutCheck.sampleVal` with `nv` for NBT -/
def sampleValWith (nv : Value) : WType → Value
  | .bool => .bool true
  | .int _ => .int 1
  | .varint => .int 300
  | .varlong => .int 300
  | .string => .str "a"
  | .uuid => .bytes (List.replicate 16 7)
  | .angle => .int 1
  | .fixed _ _ => .int 1
  | .bytesVarint => .bytes [1, 2]
  | .bytesShort => .bytes [1, 2]
  | .trailing => .bytes [1, 2]
  | .array _ t => .list [sampleValWith nv t, sampleValWith nv t]
  | .custom (.record _) => Value.ofInts [1, 2, 3, 4]
  | .custom (.pitch _ _) => .int 1
  | .custom .nbt => nv
  | .custom _ => Value.ofInts [1, 2, 3]

theorem sampleWith_wellTyped {nd : Value → Prop} {nv : Value} (hv : nd nv) :
    ∀ t : WType, WellTyped (realDomWith nd) t (sampleValWith nv t) := by
  intro t
  induction t with
  | int t => show IntT.inDom t 1; cases t <;> decide
  | fixed b _ => show IntT.inDom b 1; cases b <;> decide
  | string => show (utf8 "a").length < 2 ^ 31; decide +kernel
  | array l t ih => cases l <;> simp [sampleValWith, WellTyped, ih]
  | custom c =>
    cases c with
    | nbt => exact hv
    | position b => show realDom (.position b) (Value.ofInts [1, 2, 3]); cases b <;> decide
    | record b => show realDom (.record b) (Value.ofInts [1, 2, 3, 4]); cases b <;> decide
    | pitch a b => show realDom (.pitch a b) (.int 1); cases a <;> cases b <;> decide
    | secpos => show realDom .secpos (Value.ofInts [1, 2, 3]); decide
    | explRecord => show realDom .explRecord (Value.ofInts [1, 2, 3]); decide
    | effectPos => show realDom .effectPos (Value.ofInts [1, 2, 3]); decide
  | _ => simp [sampleValWith, WellTyped]

theorem sampleWith_wellTypedFields {nd : Value → Prop} {nv : Value} (hv : nd nv) :
    ∀ L : Layout, WellTypedFields (realDomWith nd) L (L.map fun f => sampleValWith nv f.2) := by
  intro L
  induction L with
  | nil => exact True.intro
  | cons f L ih => obtain ⟨n, t⟩ := f; exact ⟨sampleWith_wellTyped hv t, ih⟩

namespace Nbt

/-! ## readers that may eat a short input -/

/-- a result that is an error, or a success that consumed everything -/
def SoftRes {α : Type} (r : Except Err (α × Bytes)) : Prop :=
  (∃ e, r = .error e) ∨ ∃ y, r = .ok (y, [])

/-- `b` is read as `z` whatever follows; a strict prefix of `b` is rejected or eaten whole -/
def Soft0 {α : Type} (dec : Bytes → Except Err (α × Bytes)) (b : Bytes) (z : α) : Prop :=
  (∀ rest, dec (b ++ rest) = .ok (z, rest)) ∧ ∀ q, q <+: b → q ≠ b → SoftRes (dec q)

theorem Soft0.ofHdr {α : Type} {dec : Bytes → Except Err (α × Bytes)} {b : Bytes} {z : α}
    (h : Hdr dec b z) : Soft0 dec b z :=
  ⟨h.2.1, fun q hq hne => Or.inl (h.2.2 q hq hne)⟩

theorem softRes_err {α : Type} (e : Err) : SoftRes (.error e : Except Err (α × Bytes)) :=
  Or.inl ⟨e, rfl⟩

theorem softRes_ok {α : Type} (y : α) : SoftRes (.ok (y, []) : Except Err (α × Bytes)) :=
  Or.inr ⟨y, rfl⟩

/-- sequencing on a possibly short input: if the first reader is soft and the second, started on
the empty input, is soft, so is the sequence -/
theorem softRes_bind {α β : Type} {r : Except Err (α × Bytes)} (hr : SoftRes r)
    (B : α → Bytes → Except Err (β × Bytes)) (hnil : ∀ y, SoftRes (B y [])) :
    SoftRes (do let (v, s) ← r; B v s) := by
  rcases hr with ⟨e, rfl⟩ | ⟨y, rfl⟩
  · exact softRes_err e
  · exact hnil y

theorem Soft0.bind {α β : Type} {A : Bytes → Except Err (α × Bytes)} {a : Bytes} {x : α}
    (hA : Soft0 A a x) (B : α → Bytes → Except Err (β × Bytes)) {b : Bytes} {z : β}
    (hB : Soft0 (B x) b z) (hnil : ∀ y, SoftRes (B y []))
    (dec : Bytes → Except Err (β × Bytes))
    (hdec : ∀ bs, dec bs = (do let (v, r) ← A bs; B v r)) : Soft0 dec (a ++ b) z := by
  refine ⟨fun rest => ?_, fun p hp hne => ?_⟩
  · rw [hdec, List.append_assoc, hA.1]; exact hB.1 rest
  · rcases strict_prefix_append hp hne with ⟨hp', hne'⟩ | ⟨q, rfl, hq, hqne⟩
    · rw [hdec]; exact softRes_bind (hA.2 p hp' hne') B hnil
    · rw [hdec, hA.1]; exact hB.2 q hq hqne

theorem SoftRes.map {α β : Type} {r : Except Err (α × Bytes)} (hr : SoftRes r) (g : α → β) :
    SoftRes (do let (v, s) ← r; pure (g v, s)) := by
  rcases hr with ⟨e, rfl⟩ | ⟨y, rfl⟩
  · exact softRes_err e
  · exact softRes_ok (g y)

theorem Soft0.map {α β : Type} {dec : Bytes → Except Err (α × Bytes)} {b : Bytes} {z : α}
    (h : Soft0 dec b z) (g : α → β) (dec' : Bytes → Except Err (β × Bytes))
    (hdec : ∀ bs, dec' bs = (do let (v, r) ← dec bs; pure (g v, r))) : Soft0 dec' b (g z) := by
  refine ⟨fun rest => ?_, fun q hq hne => ?_⟩
  · rw [hdec, h.1]; rfl
  · rw [hdec]; exact (h.2 q hq hne).map g

/-! ## fixed-width pieces -/

theorem unpack_nil (t : IntT) : t.unpack [] = .error .struct :=
  t.unpack_short [] (by simpa using t.width_pos)

theorem softRes_unpack_nil {β : Type} (t : IntT) (B : Int → Bytes → Except Err (β × Bytes)) :
    SoftRes (do let (v, s) ← t.unpack []; B v s) := by
  rw [unpack_nil]; exact softRes_err _

/-- the bytes of an in-range integer, as a soft header -/
theorem soft_int (t : IntT) (v : Int) (hv : t.inDom v) :
    ∃ bs, t.pack v = .ok bs ∧ bs.length = t.width ∧ Hdr t.unpack bs v := by
  obtain ⟨bs, hb, hl, _⟩ := t.pack_spec v hv
  exact ⟨bs, hb, hl, hdr_int t v bs hv hb⟩

theorem i8_inDom_id (n : Nat) (h : n ≤ 12) : IntT.i8.inDom (n : Int) := by
  simp [IntT.inDom, IntT.signed, IntT.width]; omega

theorem i32_inDom_len (n : Nat) (h : n < 2 ^ 31) : IntT.i32.inDom (n : Int) := by
  simp [IntT.inDom, IntT.signed, IntT.width]; omega

theorem i16_inDom_len (n : Nat) (h : n < 2 ^ 15) : IntT.i16.inDom (n : Int) := by
  simp [IntT.inDom, IntT.signed, IntT.width]; omega

theorem tagClass_id (n : Nat) (h : n ≤ 12) : tagClass (n : Int) = .ok n := by
  unfold tagClass
  rw [if_pos (by omega)]
  simp

/-! ## `takeLenient` -/

theorem takeLenient_exact (b rest : Bytes) : takeLenient (b.length : Int) (b ++ rest) = (b, rest) := by
  unfold takeLenient
  rw [if_neg (by omega)]
  simp

theorem takeLenient_short (n : Nat) (q : Bytes) (h : q.length ≤ n) :
    takeLenient (n : Int) q = (q, []) := by
  unfold takeLenient
  rw [if_neg (by omega)]
  simp only [Int.toNat_natCast]
  rw [List.take_of_length_le h, List.drop_of_length_le h]

theorem takeLenient_nil (n : Int) : takeLenient n [] = ([], []) := by
  unfold takeLenient; split <;> simp

/-! ## strings -/

section strings
variable {m : Mutf8}

/-- what follows the length in `_read_utf8` -/
def utf8Body (m : Mutf8) (n : Int) (r : Bytes) : Except Err (String × Bytes) := do
  let s ← m.dec (takeLenient n r).1
  pure (s, (takeLenient n r).2)

theorem readUtf8_eq (bs : Bytes) :
    readUtf8 m bs = (do let (n, r) ← IntT.i16.unpack bs; utf8Body m n r) := rfl

theorem softRes_dec (raw : Bytes) :
    SoftRes (do let s ← m.dec raw; pure (s, ([] : Bytes)) : Except Err (String × Bytes)) := by
  cases m.dec raw with
  | error e => exact softRes_err e
  | ok s => exact softRes_ok s

theorem utf8Body_nil (n : Int) : SoftRes (utf8Body m n []) := by
  unfold utf8Body
  rw [takeLenient_nil]
  exact softRes_dec []

theorem soft_utf8 (hm : Mutf8Law m) (s : String) (hs : (m.enc s).length < 2 ^ 15) :
    ∃ bs, writeUtf8 m s = .ok bs ∧ bs ≠ [] ∧ Soft0 (readUtf8 m) bs s := by
  obtain ⟨h, hh, hl, hH⟩ := soft_int .i16 _ (i16_inDom_len _ hs)
  refine ⟨h ++ m.enc s, ?_, ?_, ?_⟩
  · show (do let h ← IntT.i16.pack ((m.enc s).length : Int); pure (h ++ m.enc s)) = _
    rw [hh]; rfl
  · intro e
    have := congrArg List.length e
    simp [hl, IntT.width] at this
  · refine (Soft0.ofHdr hH).bind (utf8Body m) ⟨fun rest => ?_, fun q hq hne => ?_⟩
      (fun y => utf8Body_nil y) _ readUtf8_eq
    · unfold utf8Body
      rw [takeLenient_exact, hm.rt]; rfl
    · unfold utf8Body
      rw [takeLenient_short _ q (Nat.le_of_lt (prefix_length_lt hq hne))]
      exact softRes_dec q

theorem readUtf8_nil : ∃ e, readUtf8 m [] = .error e :=
  ⟨.struct, by rw [readUtf8_eq, unpack_nil]; rfl⟩

end strings

end Nbt
end PyCraft
