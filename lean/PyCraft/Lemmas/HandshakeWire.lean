import PyCraft.Model.HandshakeWire
import PyCraft.Lemmas.FrameViews
import PyCraft.Lemmas.Wire
import PyCraft.Lemmas.Negotiate
/-!
Helper lemmas for `Props/C09Wire.lean`.

1. Pure counterparts on byte strings of the reference server's stream functions (`parseFrames`,
   `serverParse`) and the proof that the segment readers compute them on `segs.flatten`
   (segmentation is invisible, also on malformed input).
2. Field level: `readString`, `IntT.u16`, `IntT.i64`, `serverParseHandshake` against the encoders.
3. Frame level: the VarInt guard `FrameOK` for the frames of this model; what the reference server
   and the client's status reader deliver on a concatenation of frames.
4. The shapes of `frameBytes` / `firstBytes` under the guards, injectivity, the prefix argument.
5. `session` evaluated for the two negotiation cases the byte-level corollaries name.
-/
namespace PyCraft.HsWire
open PyCraft PyCraft.Neg

/-! ## pure stream parsers -/

/-- `recvFrames` on a byte string. -/
def parseFrames : Nat → Bytes → List (Nat × Bytes) × Option Err
  | 0, _ => ([], some .other)
  | fuel + 1, bs =>
    if bs.isEmpty then ([], none)
    else
      match parsePacket noZlib false bs with
      | .error e => ([], some e)
      | .ok (p, rest) => (p :: (parseFrames fuel rest).1, (parseFrames fuel rest).2)

/-- `serverRecv` on a byte string. -/
def serverParse (bs : Bytes) : Except Err Received :=
  match parsePacket noZlib false bs with
  | .error e => .error e
  | .ok (p, rest) =>
    if p.1 ≠ 0 then .error .other
    else
      match serverParseHandshake p.2 with
      | .error e => .error e
      | .ok (h, left) =>
        if left ≠ [] then .error .other
        else .ok ⟨h, (parseFrames (rest.length + 1) rest).1, (parseFrames (rest.length + 1) rest).2⟩

theorem recvFrames_spec : ∀ (fuel : Nat) (k : Sock Unit),
    recvFrames fuel k = parseFrames fuel k.segs.flatten := by
  intro fuel
  induction fuel with
  | zero => intro k; rfl
  | succ fuel ih =>
    intro k
    have hp := readPacketK_spec idXform noZlib false k
    rw [ahead_id] at hp
    simp only [recvFrames, parseFrames]
    split
    · rfl
    · cases hd : parsePacket noZlib false k.segs.flatten with
      | error e =>
        obtain ⟨k1, e1⟩ := hp.2 e hd
        simp only [e1]
      | ok pr =>
        obtain ⟨p, rest⟩ := pr
        obtain ⟨k1, e1, e2⟩ := hp.1 p rest hd
        rw [ahead_id] at e2
        simp only [e1, ih k1, e2]

/-- The reference server sees only the concatenation of the arrival segments. -/
theorem serverRecv_spec (segs : Segs) : serverRecv segs = serverParse segs.flatten := by
  have hp := readPacketK_spec idXform noZlib false (Sock.plain segs)
  rw [ahead_plain] at hp
  unfold serverRecv serverParse
  cases hd : parsePacket noZlib false segs.flatten with
  | error e =>
    obtain ⟨k1, e1⟩ := hp.2 e hd
    simp only [e1]
  | ok pr =>
    obtain ⟨p, rest⟩ := pr
    obtain ⟨k1, e1, e2⟩ := hp.1 p rest hd
    rw [ahead_id] at e2
    simp only [e1, recvFrames_spec, e2]
    rfl

/-- The client's status reader sees only the concatenation of the arrival segments. -/
theorem clientRecvStatus_spec (segs : Segs) :
    clientRecvStatus segs =
      ((decodeStatusAll (parseAll noZlib false segs.flatten).1).1,
        match (decodeStatusAll (parseAll noZlib false segs.flatten).1).2 with
        | some e => e
        | none => (parseAll noZlib false segs.flatten).2) := by
  unfold clientRecvStatus
  simp only [readAll_spec]
  rfl

/-! ## primitive fields -/

theorem pow128_6 : (128 : Nat) ^ (5 + 1) = 2 ^ 42 := by decide

theorem enc_len6 (n : Nat) (h : n < 2 ^ 42) : (encVarInt n).length ≤ 6 :=
  enc_length_le 5 n (by rw [pow128_6]; exact h)

theorem encVarInt_one : encVarInt 1 = [1] := by decide +kernel
theorem encVarInt_two : encVarInt 2 = [2] := by decide +kernel
theorem encVarInt_zero : encVarInt 0 = [0] := by decide +kernel

theorem readString_enc (s : String) (more : Bytes) (h : (utf8 s).length < 2 ^ 42) :
    readString (encString s ++ more) = .ok (s, more) := by
  unfold readString encString
  rw [List.append_assoc, decVarInt_enc _ _ h]
  have hlt : ¬ (utf8 s ++ more).length < (utf8 s).length := by
    rw [List.length_append]; omega
  simp only [hlt, if_false, List.take_left', List.drop_left', utf8_roundtrip]

theorem encString_length (s : String) (h : (utf8 s).length < 2 ^ 42) :
    (encString s).length ≤ 6 + (utf8 s).length := by
  unfold encString
  rw [List.length_append]
  have := enc_len6 _ h
  omega

theorem encString_inj (a b : String) (ha : (utf8 a).length < 2 ^ 42)
    (hb : (utf8 b).length < 2 ^ 42) (h : encString a = encString b) : a = b := by
  have h1 := readString_enc a [] ha
  have h2 := readString_enc b [] hb
  rw [List.append_nil] at h1 h2
  rw [h, h2] at h1
  injection h1 with h1
  injection h1 with h1 _
  exact h1.symm

theorem u16_pack (n : Nat) (h : n < 65536) : IntT.u16.pack (n : Int) = .ok (beBytes 2 n) := by
  have e : (256 : Int) ^ 2 = 65536 := by decide
  have : (0 : Int) ≤ (n : Int) ∧ (n : Int) < (256 : Int) ^ 2 := by rw [e]; constructor <;> omega
  simp only [IntT.pack, IntT.signed, IntT.width, packU, this, and_self, if_true]
  simp

theorem u16_pack_err (n : Nat) (h : 65536 ≤ n) : IntT.u16.pack (n : Int) = .error .struct := by
  apply IntT.pack_err
  have e : (256 : Int) ^ 2 = 65536 := by decide
  simp only [IntT.inDom, IntT.signed, IntT.width, e]
  intro hd
  have := hd.2
  omega

theorem u16_unpack (n : Nat) (h : n < 65536) (more : Bytes) :
    IntT.u16.unpack (beBytes 2 n ++ more) = .ok ((n : Int), more) := by
  have hd : IntT.u16.inDom (n : Int) := by
    have e : (256 : Int) ^ 2 = 65536 := by decide
    simp only [IntT.inDom, IntT.signed, IntT.width, e]
    constructor <;> omega
  obtain ⟨bs, h1, _, h3⟩ := IntT.unpack_pack .u16 (n : Int) hd
  rw [u16_pack n h] at h1
  injection h1 with h1
  rw [h1]
  exact h3 more

/-- `Long`: what `pack` produces has 8 bytes and `unpack` gives the value back. -/
theorem i64_roundtrip (t : Int) (h : IntT.i64.inDom t) :
    ∃ b, b.length = 8 ∧ IntT.i64.pack t = .ok b ∧
      ∀ more, IntT.i64.unpack (b ++ more) = .ok (t, more) := by
  obtain ⟨bs, h1, h2, h3⟩ := IntT.unpack_pack .i64 t h
  exact ⟨bs, h2, h1, h3⟩

theorem i64_pack_err (t : Int) (h : ¬ IntT.i64.inDom t) : IntT.i64.pack t = .error .struct :=
  IntT.pack_err .i64 t h

/-- Decoding then re-encoding 8 bytes as a `Long` gives the same 8 bytes. -/
theorem i64_unpack_pack (b more : Bytes) (hb : b.length = 8) :
    ∃ t, IntT.i64.unpack (b ++ more) = .ok (t, more) ∧ IntT.i64.pack t = .ok b := by
  obtain ⟨v, e1, e2, e3, _⟩ := IntT.unpack_spec .i64 b more hb
  refine ⟨v, e1, ?_⟩
  obtain ⟨bs, p1, p2, p3⟩ := IntT.pack_spec .i64 v e2
  rw [p1]
  have hv : beValue bs = beValue b := by
    have : (beValue bs : Int) = (beValue b : Int) := by rw [p3, e3]
    exact Int.ofNat.inj this
  have h1 := beBytes_beValue bs
  have h2 := beBytes_beValue b
  have hl : bs.length = b.length := by rw [p2, hb]; rfl
  rw [hl, hv, h2] at h1
  rw [h1]

theorem serverParseHandshake_fields (h : Handshake) (more : Bytes) (hok : HsOK h) :
    serverParseHandshake (handshakeFields h ++ more) = .ok (h, more) := by
  obtain ⟨h1, h2, h3, h4⟩ := hok
  unfold StrOK at h2
  unfold serverParseHandshake handshakeFields
  simp only [List.append_assoc]
  rw [decVarInt_enc _ _ (by omega)]
  simp only []
  rw [readString_enc _ _ (by omega)]
  simp only []
  rw [u16_unpack _ h3]
  simp only []
  rw [decVarInt_enc _ _ (by omega)]
  simp

theorem handshakeFields_inj (a b : Handshake) (ha : HsOK a) (hb : HsOK b)
    (h : handshakeFields a = handshakeFields b) : a = b := by
  have h1 := serverParseHandshake_fields a [] ha
  have h2 := serverParseHandshake_fields b [] hb
  rw [List.append_nil] at h1 h2
  rw [h, h2] at h1
  injection h1 with h1
  injection h1 with h1 _
  exact h1.symm

theorem handshakeFields_length (h : Handshake) (hok : HsOK h) :
    (handshakeFields h).length ≤ 20 + 2 ^ 31 := by
  obtain ⟨h1, h2, h3, h4⟩ := hok
  unfold StrOK at h2
  unfold handshakeFields
  simp only [List.length_append, beBytes_length]
  have := enc_len6 h.proto (by omega)
  have := enc_len6 h.next (by omega)
  have := encString_length h.host (by omega)
  omega

/-! ## frames -/

theorem frameOK_plain (id : Nat) (fields : Bytes) (hid : id < 2 ^ 42)
    (hl : fields.length + 6 < 2 ^ 42) : FrameOK noZlib none (id, fields) := by
  have hp : (packetPayload id fields).length < 2 ^ 42 := by
    unfold packetPayload
    rw [List.length_append]
    have := enc_len6 id hid
    omega
  exact ⟨hid, hp, hp⟩

theorem frameOK_handshake (h : Handshake) (hok : HsOK h) :
    FrameOK noZlib none (0, handshakeFields h) :=
  frameOK_plain 0 _ (by omega) (by have := handshakeFields_length h hok; omega)

theorem frameOK_string (id : Nat) (s : String) (hid : id < 2 ^ 32) (hs : StrOK s) :
    FrameOK noZlib none (id, encString s) := by
  unfold StrOK at hs
  exact frameOK_plain id _ (by omega) (by have := encString_length s (by omega); omega)

theorem frameOK_fixed (id : Nat) (b : Bytes) (hid : id < 2 ^ 32) (hb : b.length ≤ 8) :
    FrameOK noZlib none (id, b) :=
  frameOK_plain id _ (by omega) (by omega)

theorem packetFrame_ne_nil (p : Nat × Bytes) : packetFrame noZlib none p ≠ [] := by
  unfold packetFrame frame
  exact List.append_ne_nil_of_left_ne_nil (enc_ne_nil _) _

theorem frames_length_le (ps : List (Nat × Bytes)) :
    ps.length ≤ (ps.map (packetFrame noZlib none)).flatten.length := by
  induction ps with
  | nil => simp
  | cons p ps ih =>
    simp only [List.map_cons, List.flatten_cons, List.length_append, List.length_cons]
    have := List.length_pos_iff.mpr (packetFrame_ne_nil p)
    omega

theorem parsePacket_plain (p : Nat × Bytes) (more : Bytes) (h : FrameOK noZlib none p) :
    parsePacket noZlib false (packetFrame noZlib none p ++ more) = .ok (p, more) :=
  parsePacket_packetFrame Zlib.ident none p more h

/-- A concatenation of well-formed frames is delivered exactly, with a clean end of stream. -/
theorem parseFrames_frames : ∀ (ps : List (Nat × Bytes)) (fuel : Nat),
    (∀ p ∈ ps, FrameOK noZlib none p) → ps.length < fuel →
    parseFrames fuel (ps.map (packetFrame noZlib none)).flatten = (ps, none) := by
  intro ps
  induction ps with
  | nil =>
    intro fuel _ hf
    cases fuel with
    | zero => omega
    | succ fuel => rfl
  | cons p ps ih =>
    intro fuel hok hf
    cases fuel with
    | zero => omega
    | succ fuel =>
      simp only [List.map_cons, List.flatten_cons, parseFrames]
      have hne : (packetFrame noZlib none p ++
          (ps.map (packetFrame noZlib none)).flatten).isEmpty = false := by
        have := packetFrame_ne_nil p
        cases hq : packetFrame noZlib none p with
        | nil => exact absurd hq this
        | cons a b => rfl
      rw [hne]
      simp only [Bool.false_eq_true, if_false]
      rw [parsePacket_plain p _ (hok p (by simp))]
      simp only []
      rw [ih fuel (fun q hq => hok q (by simp [hq])) (by simp at hf; omega)]

/-- The reference server on "handshake frame, then well-formed frames". -/
theorem serverParse_ok (h : Handshake) (ps : List (Nat × Bytes)) (hh : HsOK h)
    (hok : ∀ p ∈ ps, FrameOK noZlib none p) :
    serverParse (plainFrame 0 (handshakeFields h) ++ (ps.map (packetFrame noZlib none)).flatten)
      = .ok ⟨h, ps, none⟩ := by
  unfold serverParse plainFrame
  rw [parsePacket_plain _ _ (frameOK_handshake h hh)]
  have := serverParseHandshake_fields h [] hh
  rw [List.append_nil] at this
  simp only [ne_eq, not_true_eq_false, if_false, this]
  rw [parseFrames_frames ps _ hok (by have := frames_length_le ps; omega)]

/-- The client's status reader on a concatenation of well-formed frames: the frames decoded in
order up to the first `read` that raises; if none does, the run ends with `EOFError` on the
exhausted stream. -/
theorem clientRecvStatus_frames (ps : List (Nat × Bytes)) (segs : Segs)
    (hok : ∀ p ∈ ps, FrameOK noZlib none p)
    (hseg : segs.flatten = (ps.map (packetFrame noZlib none)).flatten) :
    clientRecvStatus segs = ((decodeStatusAll ps).1, (decodeStatusAll ps).2.getD .eof) := by
  have hp := parseAll_frames Zlib.ident none ps [] hok
  rw [List.append_nil, parseAll_nil] at hp
  simp only [List.append_nil] at hp
  have hp' : parseAll noZlib false (ps.map (packetFrame noZlib none)).flatten = (ps, .eof) := hp
  rw [clientRecvStatus_spec, hseg, hp']
  cases h : (decodeStatusAll ps).2 with
  | none => rfl
  | some e => rfl

theorem decode_response (json : String) (h : StrOK json) :
    decodeClientboundStatus (0, encString json) = .ok (.response json) := by
  unfold StrOK at h
  have := readString_enc json [] (by omega)
  rw [List.append_nil] at this
  simp [decodeClientboundStatus, this]

theorem decode_pong (t : Int) (b : Bytes) (h : ∀ more, IntT.i64.unpack (b ++ more) = .ok (t, more)) :
    decodeClientboundStatus (1, b) = .ok (.pong t) := by
  have := h []
  rw [List.append_nil] at this
  simp [decodeClientboundStatus, this]

/-! ## the client's bytes under the guards -/

theorem writePkt_handshake (lsId : Nat) (h : Handshake) (hp : h.port < 65536) :
    writePkt lsId (.first (.handshake h)) = .ok (0, handshakeFields h) := by
  rw [writePkt, u16_pack h.port hp]
  simp only [Except.map, handshakeFields]

theorem writePkt_handshake_err (lsId : Nat) (h : Handshake) (hp : 65536 ≤ h.port) :
    writePkt lsId (.first (.handshake h)) = .error .struct := by
  rw [writePkt, u16_pack_err h.port hp]
  rfl

theorem writeFrame_handshake (lsId : Nat) (h : Handshake) (hp : h.port < 65536) :
    writeFrame lsId (.first (.handshake h)) = .ok (plainFrame 0 (handshakeFields h)) := by
  rw [writeFrame, writePkt_handshake lsId h hp]
  rfl

theorem frameBytes_handshake (lsId : Nat) (h : Handshake) (hp : h.port < 65536) :
    frameBytes lsId (.first (.handshake h)) = plainFrame 0 (handshakeFields h) := by
  rw [frameBytes, writeFrame_handshake lsId h hp]

theorem frameBytes_request (lsId : Nat) :
    frameBytes lsId (.first .statusRequest) = plainFrame 0 [] := by
  simp only [frameBytes, writeFrame, writePkt, plainFrame]

theorem frameBytes_loginStart (lsId : Nat) (name : String) :
    frameBytes lsId (.first (.loginStart (some name))) = plainFrame lsId (encString name) := by
  simp only [frameBytes, writeFrame, writePkt, plainFrame]

theorem frameBytes_ping (lsId : Nat) (t : Int) (b : Bytes) (h : IntT.i64.pack t = .ok b) :
    frameBytes lsId (.ping t) = plainFrame 1 b := by
  rw [frameBytes, writeFrame, writePkt, h]
  rfl

theorem firstBytes_direct (lsId : Nat) (p : ConnParams) (v : Nat) (name : String)
    (hp : p.port < 65536) (hn : loginName p = some name) :
    firstBytes lsId p (.direct v) =
      plainFrame 0 (handshakeFields ⟨v, p.host, p.port, 2⟩) ++
        ([(lsId, encString name)].map (packetFrame noZlib none)).flatten := by
  simp only [firstBytes, connBytes, firstFrames, hn, List.flatMap_cons, List.flatMap_nil,
    frameBytes_handshake lsId ⟨v, p.host, p.port, 2⟩ hp, frameBytes_loginStart, STATE_PLAYING, plainFrame,
    List.map_cons, List.map_nil, List.flatten_cons, List.flatten_nil]

theorem firstBytes_query (lsId : Nat) (p : ConnParams) (v : Nat) (hp : p.port < 65536) :
    firstBytes lsId p (.query v) =
      plainFrame 0 (handshakeFields ⟨v, p.host, p.port, 1⟩) ++
        ([(0, [])].map (packetFrame noZlib none)).flatten := by
  simp only [firstBytes, connBytes, firstFrames, List.flatMap_cons, List.flatMap_nil,
    frameBytes_handshake lsId ⟨v, p.host, p.port, 1⟩ hp, frameBytes_request, STATE_STATUS, plainFrame,
    List.map_cons, List.map_nil, List.flatten_cons, List.flatten_nil]

/-- `FirstOK` for a direct plan, taken apart. -/
theorem firstOK_direct (lsId : Nat) (p : ConnParams) (v : Nat) (h : FirstOK lsId p (.direct v)) :
    StrOK p.host ∧ p.port < 65536 ∧ v < 2 ^ 32 ∧ lsId < 2 ^ 32 ∧
      ∃ name, loginName p = some name ∧ StrOK name := by
  obtain ⟨h1, h2, h3, h4, h5⟩ := h
  refine ⟨h1, h2, h3, h4, ?_⟩
  cases hn : loginName p with
  | none => rw [hn] at h5; exact h5.elim
  | some name => rw [hn] at h5; exact ⟨name, rfl, h5⟩

theorem firstOK_query (lsId : Nat) (p : ConnParams) (v : Nat) (h : FirstOK lsId p (.query v)) :
    StrOK p.host ∧ p.port < 65536 ∧ v < 2 ^ 32 := ⟨h.1, h.2.1, h.2.2.1⟩

/-- What the reference server gets from the bytes of a direct login. -/
theorem serverParse_direct (lsId : Nat) (p : ConnParams) (v : Nat) (name : String)
    (hh : StrOK p.host) (hp : p.port < 65536) (hv : v < 2 ^ 32) (hl : lsId < 2 ^ 32)
    (hn : loginName p = some name) (hs : StrOK name) :
    serverParse (firstBytes lsId p (.direct v)) =
      .ok ⟨⟨v, p.host, p.port, 2⟩, [(lsId, encString name)], none⟩ := by
  rw [firstBytes_direct lsId p v name hp hn]
  apply serverParse_ok _ _ ⟨hv, hh, hp, by show (2 : Nat) < 2 ^ 32; omega⟩
  intro q hq
  simp only [List.mem_singleton] at hq
  subst hq
  exact frameOK_string lsId name hl hs

/-- What the reference server gets from the bytes of a status query. -/
theorem serverParse_query (lsId : Nat) (p : ConnParams) (v : Nat)
    (hh : StrOK p.host) (hp : p.port < 65536) (hv : v < 2 ^ 32) :
    serverParse (firstBytes lsId p (.query v)) =
      .ok ⟨⟨v, p.host, p.port, 1⟩, [(0, [])], none⟩ := by
  rw [firstBytes_query lsId p v hp]
  apply serverParse_ok _ _ ⟨hv, hh, hp, by show (1 : Nat) < 2 ^ 32; omega⟩
  intro q hq
  simp only [List.mem_singleton] at hq
  subst hq
  exact frameOK_fixed 0 [] (by omega) (by simp)

theorem decode_loginStart (lsId : Nat) (name : String) (hs : StrOK name) :
    decodeServerbound lsId 2 (lsId, encString name) = .loginStart name := by
  unfold StrOK at hs
  have := readString_enc name [] (by omega)
  rw [List.append_nil] at this
  simp [decodeServerbound, this]

theorem decode_request (lsId : Nat) : decodeServerbound lsId 1 (0, []) = .request := by
  simp [decodeServerbound]

theorem decode_ping (lsId : Nat) (t : Int) (b : Bytes)
    (h : ∀ more, IntT.i64.unpack (b ++ more) = .ok (t, more)) :
    decodeServerbound lsId 1 (1, b) = .ping t := by
  have := h []
  rw [List.append_nil] at this
  simp [decodeServerbound, this]

/-! ## the first frame decides: prefixes -/

/-- If a stream that starts with a well-formed frame is a prefix of another such stream, the two
first frames are the same packet. -/
theorem first_frame_of_prefix (p q : Nat × Bytes) (r1 r2 : Bytes)
    (hp : FrameOK noZlib none p) (hq : FrameOK noZlib none q)
    (h : packetFrame noZlib none p ++ r1 <+: packetFrame noZlib none q ++ r2) : p = q := by
  obtain ⟨c, hc⟩ := h
  have h1 := parsePacket_plain p (r1 ++ c) hp
  have h2 := parsePacket_plain q r2 hq
  rw [← List.append_assoc, hc, h2] at h1
  injection h1 with h1
  injection h1 with h1 _
  exact h1.symm

/-- The handshake frames for next state 1 and 2 (same protocol, host, port) are equal up to their
last byte, which is the next state. -/
theorem handshake_frames_differ_last (v : Nat) (host : String) (port : Nat) :
    ∃ pre, plainFrame 0 (handshakeFields ⟨v, host, port, 1⟩) = pre ++ [1] ∧
      plainFrame 0 (handshakeFields ⟨v, host, port, 2⟩) = pre ++ [2] := by
  refine ⟨encVarInt (packetPayload 0 (handshakeFields ⟨v, host, port, 1⟩)).length ++
    (encVarInt 0 ++ (encVarInt v ++ encString host ++ beBytes 2 port)), ?_, ?_⟩
  · simp only [plainFrame, packetFrame, frame, frameBody, packetPayload, handshakeFields,
      encVarInt_one, List.append_assoc]
  · have hl : (packetPayload 0 (handshakeFields ⟨v, host, port, 2⟩)).length =
        (packetPayload 0 (handshakeFields ⟨v, host, port, 1⟩)).length := by
      simp only [packetPayload, handshakeFields, encVarInt_one, encVarInt_two, List.length_append,
        List.length_cons, List.length_nil]
    simp only [plainFrame, packetFrame, frame, frameBody]
    rw [hl]
    simp only [packetPayload, handshakeFields, encVarInt_two, List.append_assoc]

/-! ## `session` in the two named cases -/

/-- Several allowed versions, the server's status names the allowed version `n`: two connections,
the status query carrying the latest allowed version and then a direct login with `n`. -/
theorem session_proto_allowed (env : VEnv) (p : ConnParams) (allowed : List Nat) (dflt n : Nat)
    (nm : Option String) (h2 : 2 ≤ allowed.length) (hr : ∀ a ∈ allowed, a ∈ env.knownOrder)
    (hn : n ∈ allowed) :
    ∃ q, latest env allowed = .ok q ∧
      session env p allowed dflt (.proto (n : Int) nm) =
        .ok ⟨[firstFrames p (.query q), firstFrames p (.direct n)], .connect n⟩ := by
  obtain ⟨q, hp, hl⟩ := connectPlan_many env allowed h2 hr
  refine ⟨q, hl, ?_⟩
  have hin : inZ (n : Int) allowed = true := (inZ_iff _ _).2 ⟨n, hn, rfl⟩
  simp [session, hp, evalStatus, hin, handleProtoVersion, connectPlan_single]

/-- Several allowed versions, the status query stays unanswered (stream closed): the status
query, then a direct login with the default version. -/
theorem session_closed (env : VEnv) (p : ConnParams) (allowed : List Nat) (dflt : Nat)
    (h2 : 2 ≤ allowed.length) (hr : ∀ a ∈ allowed, a ∈ env.knownOrder) :
    ∃ q, latest env allowed = .ok q ∧
      session env p allowed dflt .closedBeforeReply =
        .ok ⟨[firstFrames p (.query q), firstFrames p (.direct dflt)], .connect dflt⟩ := by
  obtain ⟨q, hp, hl⟩ := connectPlan_many env allowed h2 hr
  refine ⟨q, hl, ?_⟩
  simp [session, hp, evalStatus, handleFailure, handleProtoVersion, connectPlan_single]

theorem writeFrame_handshake_err (lsId : Nat) (h : Handshake) (hp : 65536 ≤ h.port) :
    writeFrame lsId (.first (.handshake h)) = .error .struct := by
  rw [writeFrame, writePkt_handshake_err lsId h hp]

theorem writeFrame_request (lsId : Nat) :
    writeFrame lsId (.first .statusRequest) = .ok (plainFrame 0 []) := by
  rw [writeFrame, writePkt]; rfl

theorem writeFrame_loginStart (lsId : Nat) (name : String) :
    writeFrame lsId (.first (.loginStart (some name))) = .ok (plainFrame lsId (encString name)) := by
  rw [writeFrame, writePkt]; rfl

theorem writeFrame_loginStart_none (lsId : Nat) :
    writeFrame lsId (.first (.loginStart none)) = .error .other := by
  rw [writeFrame, writePkt]

theorem writeFrame_ping (lsId : Nat) (t : Int) (b : Bytes) (h : IntT.i64.pack t = .ok b) :
    writeFrame lsId (.ping t) = .ok (plainFrame 1 b) := by
  rw [writeFrame, writePkt, h]; rfl

theorem writeFrame_ping_err (lsId : Nat) (t : Int) (h : ¬ IntT.i64.inDom t) :
    writeFrame lsId (.ping t) = .error .struct := by
  rw [writeFrame, writePkt, i64_pack_err t h]; rfl

theorem encVarInt_nine : encVarInt 9 = [9] := by decide +kernel

/-- A packet with id 1 and an 8-byte field: length 9, id 1, the 8 bytes. -/
theorem plainFrame_long (b : Bytes) (hb : b.length = 8) : plainFrame 1 b = [0x09, 0x01] ++ b := by
  have hl : (packetPayload 1 b).length = 9 := by
    simp only [packetPayload, encVarInt_one, List.length_append, List.length_cons, List.length_nil,
      hb]
  simp only [plainFrame, packetFrame, frame, frameBody]
  rw [hl, encVarInt_nine]
  simp only [packetPayload, encVarInt_one]
  rfl

theorem pongBytes_ok (t : Int) (b : Bytes) (h : IntT.i64.pack t = .ok b) :
    pongBytes t = .ok (plainFrame 1 b) := by
  rw [pongBytes, h]; rfl

/-! ## concrete parameters for the non-vacuity examples and the negative witness -/

def demoParams : ConnParams := ⟨"localhost", 25565, some "u", none⟩

/-- A host with a two-byte and a three-byte character: 15 characters, 18 bytes. -/
def demoParamsU : ConnParams := ⟨"play.é世.example", 25565, some "u", none⟩

def demoHs : Handshake := ⟨757, "play.é世.example", 25565, 2⟩

/-- A client → server stream built with a given encoder of the handshake fields, followed by the
login start of user "u". -/
def streamWith (enc : Handshake → Bytes) (h : Handshake) : Bytes :=
  plainFrame 0 (enc h) ++ plainFrame 0 (encString "u")

end PyCraft.HsWire
