import PyCraft.Model.C11Errors
import PyCraft.Lemmas.Play
/-!
Helper lemmas for `Props/C11Errors.lean`: the networking loop with failing writes.

* `sift`/`Popped`/`Cons`: conservation — what was popped, in order, and where each popped packet
  went, as a one-state invariant of every step of the model.
* closed forms of the read phase (`readLoop_no_disc`, `readLoop_disc`) and of one iteration;
* `loop_spec`: termination and the three possible outcomes, by induction on the fuel with the
  variant `2·|inbox| + |queue|` of `Lemmas/Play.lean`;
* `Reach`: the run from the initial state passes through every reachable iteration start.
-/
namespace PyCraft.PlayErr
open PyCraft PyCraft.Play

/-! ### `sift` -/

theorem sift_length {α : Type} (f : Nat → Bool) (i : Nat) (P : List α) :
    (sift f i P).1.length + (sift f i P).2.length = P.length := by
  induction P generalizing i with
  | nil => simp [sift]
  | cons p ps ih =>
    have := ih (i + 1)
    unfold sift
    split <;> simp <;> omega

theorem sift_append {α : Type} (f : Nat → Bool) (i : Nat) (P Q : List α) :
    sift f i (P ++ Q) =
      ((sift f i P).1 ++ (sift f (i + P.length) Q).1,
       (sift f i P).2 ++ (sift f (i + P.length) Q).2) := by
  induction P generalizing i with
  | nil => simp [sift]
  | cons p ps ih =>
    have e : i + 1 + ps.length = i + (ps.length + 1) := by omega
    simp only [List.cons_append, sift, ih (i + 1), List.length_cons, e]
    split <;> simp

theorem sift_lost_nil_iff {α : Type} (f : Nat → Bool) (i : Nat) (P : List α) :
    (sift f i P).2 = [] ↔ ∀ k, k < P.length → f (i + k) = false := by
  induction P generalizing i with
  | nil => simp [sift]
  | cons p ps ih =>
    unfold sift
    by_cases h : f i = true
    · simp only [h, if_true]
      constructor
      · intro h'; cases h'
      · intro h'
        have := h' 0 (by simp)
        simp [h] at this
    · have h0 : f i = false := by simpa using h
      simp only [h0, Bool.false_eq_true, if_false, ih (i + 1), List.length_cons]
      constructor
      · intro h' k hk
        cases k with
        | zero => simpa using h0
        | succ k =>
          have := h' k (by omega)
          rwa [show i + 1 + k = i + (k + 1) by omega] at this
      · intro h' k hk
        have := h' (k + 1) (by omega)
        rwa [show i + (k + 1) = i + 1 + k by omega] at this

theorem sift_wire_of_lost_nil {α : Type} (f : Nat → Bool) (i : Nat) (P : List α)
    (h : (sift f i P).2 = []) : (sift f i P).1 = P := by
  induction P generalizing i with
  | nil => simp [sift]
  | cons p ps ih =>
    unfold sift at h ⊢
    by_cases hf : f i = true
    · simp [hf] at h
    · have h0 : f i = false := by simpa using hf
      simp only [h0, Bool.false_eq_true, if_false] at h ⊢
      rw [ih (i + 1) h]

/-! ### Conservation -/

/-- `P` is the sequence of packets popped so far: `wire` holds those whose write succeeded,
`lost` the others. -/
def Popped (fails : Nat → Bool) (wire lost P : List Reply) : Prop :=
  wire = (sift fails 0 P).1 ∧ lost = (sift fails 0 P).2

theorem Popped.index {fails : Nat → Bool} {wire lost P : List Reply}
    (h : Popped fails wire lost P) : wire.length + lost.length = P.length := by
  rw [h.1, h.2]; exact sift_length fails 0 P

theorem Popped.snoc_ok {fails : Nat → Bool} {wire lost P : List Reply} (p : Reply)
    (h : Popped fails wire lost P) (hf : fails (wire.length + lost.length) = false) :
    Popped fails (wire ++ [p]) lost (P ++ [p]) := by
  have hi := h.index
  rw [hi] at hf
  obtain ⟨h1, h2⟩ := h
  constructor <;> rw [sift_append] <;> simp [sift, hf, h1, h2]

theorem Popped.snoc_fail {fails : Nat → Bool} {wire lost P : List Reply} (p : Reply)
    (h : Popped fails wire lost P) (hf : fails (wire.length + lost.length) = true) :
    Popped fails wire (lost ++ [p]) (P ++ [p]) := by
  have hi := h.index
  rw [hi] at hf
  obtain ⟨h1, h2⟩ := h
  constructor <;> rw [sift_append] <;> simp [sift, hf, h1, h2]

theorem flushQ_popped (fails : Nat → Bool) (queue wire lost P : List Reply)
    (h : Popped fails wire lost P) :
    ∃ P', P' ++ (flushQ fails queue wire lost).queue = P ++ queue ∧
      Popped fails (flushQ fails queue wire lost).wire (flushQ fails queue wire lost).lost P' := by
  induction queue generalizing wire lost P with
  | nil => exact ⟨P, by simp [flushQ], by simpa [flushQ] using h⟩
  | cons p q ih =>
    unfold flushQ
    by_cases hf : fails (wire.length + lost.length) = true
    · simp only [hf, if_true]
      exact ⟨P ++ [p], by simp, h.snoc_fail p hf⟩
    · have h0 : fails (wire.length + lost.length) = false := by simpa using hf
      simp only [h0, Bool.false_eq_true, if_false]
      obtain ⟨P', a, b⟩ := ih (wire ++ [p]) lost (P ++ [p]) (h.snoc_ok p h0)
      exact ⟨P', by rw [a]; simp, b⟩

theorem writeLoop_popped (fails : Nat → Bool) (capW num : Nat) (queue wire lost P : List Reply)
    (h : Popped fails wire lost P) :
    ∃ P', P' ++ (writeLoop fails capW num queue wire lost).out.queue = P ++ queue ∧
      Popped fails (writeLoop fails capW num queue wire lost).out.wire
        (writeLoop fails capW num queue wire lost).out.lost P' := by
  induction queue generalizing num wire lost P with
  | nil => exact ⟨P, by simp [writeLoop], by simpa [writeLoop] using h⟩
  | cons p q ih =>
    unfold writeLoop
    by_cases hf : fails (wire.length + lost.length) = true
    · simp only [hf, if_true]
      exact ⟨P ++ [p], by simp, h.snoc_fail p hf⟩
    · have h0 : fails (wire.length + lost.length) = false := by simpa using hf
      simp only [h0, Bool.false_eq_true, if_false]
      by_cases hc : num + 1 ≥ capW
      · simp only [hc, if_true]
        exact ⟨P ++ [p], by simp, h.snoc_ok p h0⟩
      · simp only [hc, if_false]
        obtain ⟨P', a, b⟩ := ih (num + 1) (wire ++ [p]) lost (P ++ [p]) (h.snoc_ok p h0)
        exact ⟨P', by rw [a]; simp, b⟩

/-- Conservation as a state invariant: the replies to the packets delivered so far are, in order,
the popped ones followed by the queue. -/
def Cons (newer : Bool) (fails : Nat → Bool) (c : Conn) : Prop :=
  ∃ P, P ++ c.out.queue = c.delivered.flatMap (replyTo newer) ∧
    Popped fails c.out.wire c.out.lost P

theorem replyTo_asSeen (newer : Bool) (e : PlayEv) : replyTo newer e.asSeen = replyTo newer e := by
  cases e <;> simp [PlayEv.asSeen, replyTo]

theorem cons_init (newer : Bool) (fails : Nat → Bool) : Cons newer fails Conn.init :=
  ⟨[], by simp [Conn.init], by simp [Popped, Conn.init, sift]⟩

theorem react_ne_disc (newer : Bool) (fails : Nat → Bool) (c : Conn) (e : PlayEv)
    (h : e ≠ .disconnect) :
    react newer fails c e =
      { c with out := { c.out with queue := c.out.queue ++ replyTo newer e },
               spawned := c.spawned || e.isPosLook } := by
  cases e with
  | disconnect => exact absurd rfl h
  | keepAlive id => simp [react, replyTo, PlayEv.isPosLook]
  | posLook x y z yaw pitch f tid => cases newer <;> simp [react, replyTo, PlayEv.isPosLook]
  | unknown p d => simp [react, replyTo, PlayEv.isPosLook]
  | other n => simp [react, replyTo, PlayEv.isPosLook]

theorem reactAll_cons (newer : Bool) (fails : Nat → Bool) (c : Conn) (e : PlayEv)
    (h : Cons newer fails c) : Cons newer fails (reactAll newer fails c e) := by
  obtain ⟨P, a, b⟩ := h
  by_cases he : e = .disconnect
  · subst he
    by_cases hcl : c.closed = true
    · refine ⟨P, ?_, ?_⟩
      · simp [reactAll, react, disconnect, hcl, a, PlayEv.asSeen, replyTo]
      · simpa [reactAll, react, disconnect, hcl] using b
    · have hcl' : c.closed = false := by simpa using hcl
      obtain ⟨P', a', b'⟩ := flushQ_popped fails c.out.queue c.out.wire c.out.lost P b
      refine ⟨P', ?_, ?_⟩
      · simp [reactAll, react, disconnect, hcl', a', a, PlayEv.asSeen, replyTo]
      · simpa [reactAll, react, disconnect, hcl'] using b'
  · refine ⟨P, ?_, ?_⟩
    · simp [reactAll, react_ne_disc newer fails c e he, ← a, replyTo_asSeen]
    · simpa [reactAll, react_ne_disc newer fails c e he] using b

theorem readLoop_cons (newer : Bool) (fails : Nat → Bool) (capR num : Nat) (c : Conn)
    (inbox : List PlayEv) (exc : Bool) (h : Cons newer fails c) :
    Cons newer fails (readLoop newer fails capR num c inbox exc).conn := by
  induction inbox generalizing num c exc with
  | nil => simpa [readLoop] using h
  | cons e rest ih =>
    unfold readLoop
    split
    · exact ih _ _ _ (reactAll_cons newer fails c e h)
    · exact h

theorem iter_cons (newer : Bool) (fails : Nat → Bool) (capW capR : Nat) (c : Conn)
    (inbox : List PlayEv) (h : Cons newer fails c) :
    Cons newer fails (iter newer fails capW capR c inbox).conn := by
  obtain ⟨P, a, b⟩ := h
  obtain ⟨P', a', b'⟩ := writeLoop_popped fails capW 0 c.out.queue c.out.wire c.out.lost P b
  apply readLoop_cons
  exact ⟨P', by simpa [writePhase, a] using a', by simpa [writePhase] using b'⟩

theorem loop_cons (newer : Bool) (fails : Nat → Bool) (capW capR fuel : Nat) (c : Conn)
    (inbox : List PlayEv) (r : Conn) (raised : Bool) (h : Cons newer fails c)
    (hr : loop newer fails capW capR fuel c inbox = some (r, raised)) : Cons newer fails r := by
  induction fuel generalizing c inbox with
  | zero => simp [loop, loopG] at hr
  | succ fuel ih =>
    simp only [loop, loopG] at hr
    split at hr
    · cases hr; exact h
    · split at hr
      · cases hr; exact h
      · split at hr
        · cases hr; exact iter_cons newer fails capW capR c inbox h
        · exact ih _ _ (iter_cons newer fails capW capR c inbox h) hr

/-! ### List facts about the first disconnect -/

theorem hasDisc_false_iff (l : List PlayEv) : hasDisc l = false ↔ PlayEv.disconnect ∉ l := by
  simp [hasDisc]

theorem hasDisc_true_iff (l : List PlayEv) : hasDisc l = true ↔ PlayEv.disconnect ∈ l := by
  simp [hasDisc]

theorem beforeDisc_append_of_not_mem (seg l : List PlayEv) (h : PlayEv.disconnect ∉ seg) :
    beforeDisc (seg ++ l) = seg ++ beforeDisc l ∧ hasDisc (seg ++ l) = hasDisc l := by
  induction seg with
  | nil => simp
  | cons x xs ih =>
    simp only [List.mem_cons, not_or] at h
    have hx : x ≠ .disconnect := fun h' => h.1 h'.symm
    rw [List.cons_append, beforeDisc_cons_ne _ _ hx, hasDisc_cons_ne _ _ hx, (ih h.2).1, (ih h.2).2]
    simp

theorem hasDisc_take_split (l : List PlayEv) (n : Nat) (h : hasDisc (l.take n) = true) :
    ∃ pre post, l = pre ++ PlayEv.disconnect :: post ∧ PlayEv.disconnect ∉ pre ∧ pre.length < n := by
  induction l generalizing n with
  | nil => simp [hasDisc] at h
  | cons x xs ih =>
    cases n with
    | zero => simp [hasDisc] at h
    | succ n =>
      by_cases hx : x = .disconnect
      · subst hx
        exact ⟨[], xs, rfl, by simp, by simp⟩
      · rw [List.take_succ_cons, hasDisc_cons_ne _ _ hx] at h
        obtain ⟨pre, post, a, b, c⟩ := ih n h
        refine ⟨x :: pre, post, by rw [a]; rfl, ?_, by simp; omega⟩
        simp only [List.mem_cons, not_or]
        exact ⟨fun h' => hx h'.symm, b⟩

/-! ### Closed forms of the read phase -/

/-- The effect of reading and reacting to `evs` (no disconnect among them). -/
def advance (newer : Bool) (c : Conn) (evs : List PlayEv) : Conn :=
  { c with out := { c.out with queue := c.out.queue ++ evs.flatMap (replyTo newer) },
           delivered := c.delivered ++ evs.map PlayEv.asSeen,
           spawned := c.spawned || evs.any PlayEv.isPosLook }

theorem advance_nil (newer : Bool) (c : Conn) : advance newer c [] = c := by
  cases c with
  | mk out delivered spawned connected interrupt closed =>
    cases out; simp [advance]

theorem advance_cons (newer : Bool) (c : Conn) (e : PlayEv) (evs : List PlayEv) :
    advance newer (advance newer c [e]) evs = advance newer c (e :: evs) := by
  simp [advance, List.append_assoc, Bool.or_assoc]

theorem reactAll_ne_disc (newer : Bool) (fails : Nat → Bool) (c : Conn) (e : PlayEv)
    (h : e ≠ .disconnect) : reactAll newer fails c e = advance newer c [e] := by
  simp [reactAll, react_ne_disc newer fails c e h, advance]

theorem readLoop_interrupted (newer : Bool) (fails : Nat → Bool) (capR num : Nat) (c : Conn)
    (inbox : List PlayEv) (exc : Bool) (h : c.interrupt = true) :
    readLoop newer fails capR num c inbox exc = ⟨c, inbox, exc⟩ := by
  cases inbox <;> simp [readLoop, h]

theorem reactAll_disc_facts (newer : Bool) (fails : Nat → Bool) (c : Conn) (hcl : c.closed = false) :
    (reactAll newer fails c .disconnect).interrupt = true ∧
    (reactAll newer fails c .disconnect).closed = true ∧
    (reactAll newer fails c .disconnect).connected = false ∧
    (reactAll newer fails c .disconnect).delivered = c.delivered ++ [.disconnect] ∧
    (reactAll newer fails c .disconnect).spawned = c.spawned ∧
    (reactAll newer fails c .disconnect).out = flushQ fails c.out.queue c.out.wire c.out.lost := by
  simp [reactAll, react, disconnect, hcl, PlayEv.asSeen]

/-- No disconnect packet among the packets the phase can read: all of them are processed, the
pending exception stays. -/
theorem readLoop_no_disc (newer : Bool) (fails : Nat → Bool) (capR num n : Nat) (c : Conn)
    (inbox : List PlayEv) (exc : Bool) (hn : n = capR - num) (hi : c.interrupt = false)
    (hd : hasDisc (inbox.take n) = false) :
    readLoop newer fails capR num c inbox exc =
      ⟨advance newer c (inbox.take n), inbox.drop n, exc⟩ := by
  induction inbox generalizing num n c with
  | nil => simp [readLoop, advance_nil]
  | cons e rest ih =>
    by_cases hlt : num < capR
    · obtain ⟨k, hk⟩ : ∃ k, n = k + 1 := ⟨n - 1, by omega⟩
      subst hk
      rw [List.take_succ_cons] at hd ⊢
      rw [List.drop_succ_cons]
      have he : e ≠ .disconnect := by
        intro h'; subst h'; simp [hasDisc] at hd
      rw [hasDisc_cons_ne _ _ he] at hd
      have hstep : readLoop newer fails capR num c (e :: rest) exc =
          readLoop newer fails capR (num + 1) (reactAll newer fails c e) rest exc := by
        have hb : (e != PlayEv.disconnect) = true := by simpa using he
        simp [readLoop, hlt, hi, hb]
      rw [hstep, reactAll_ne_disc newer fails c e he,
        ih (num + 1) k (advance newer c [e]) (by omega) (by simpa [advance] using hi) hd, advance_cons]
    · have : n = 0 := by omega
      subst this
      simp [readLoop, hlt, advance_nil]

/-- The first disconnect packet is within reach of the phase: everything up to and including it is
processed, the pending exception is forgotten, nothing after it is read. -/
theorem readLoop_disc (newer : Bool) (fails : Nat → Bool) (capR num : Nat) (c : Conn)
    (pre post : List PlayEv) (exc : Bool) (hi : c.interrupt = false) (hcl : c.closed = false)
    (hpre : PlayEv.disconnect ∉ pre) (hlen : num + pre.length < capR) :
    readLoop newer fails capR num c (pre ++ .disconnect :: post) exc =
      ⟨reactAll newer fails (advance newer c pre) .disconnect, post, false⟩ := by
  induction pre generalizing num c exc with
  | nil =>
    have hlt : num < capR := by simpa using hlen
    have h1 := (reactAll_disc_facts newer fails c hcl).1
    simp only [List.nil_append, advance_nil]
    rw [show readLoop newer fails capR num c (.disconnect :: post) exc =
        readLoop newer fails capR (num + 1) (reactAll newer fails c .disconnect) post
          (exc && (PlayEv.disconnect != PlayEv.disconnect)) by simp [readLoop, hlt, hi]]
    rw [readLoop_interrupted _ _ _ _ _ _ _ h1]
    simp
  | cons e pre ih =>
    simp only [List.mem_cons, not_or] at hpre
    have he : e ≠ .disconnect := fun h' => hpre.1 h'.symm
    simp only [List.length_cons] at hlen
    have hlt : num < capR := by omega
    have hstep : readLoop newer fails capR num c (e :: (pre ++ .disconnect :: post)) exc =
        readLoop newer fails capR (num + 1) (reactAll newer fails c e) (pre ++ .disconnect :: post)
          exc := by
      have hb : (e != PlayEv.disconnect) = true := by simpa using he
      simp [readLoop, hlt, hi, hb]
    rw [List.cons_append, hstep, reactAll_ne_disc newer fails c e he,
      ih (num + 1) (advance newer c [e]) exc (by simpa [advance] using hi)
        (by simpa [advance] using hcl) hpre.2 (by omega), advance_cons]

/-! ### The write phase -/

theorem writeLoop_spec (fails : Nat → Bool) (capW num : Nat) (queue wire lost : List Reply) :
    ((writeLoop fails capW num queue wire lost).exc = false ∧
      (writeLoop fails capW num queue wire lost).out.lost = lost ∧
      (writeLoop fails capW num queue wire lost).out.queue.length +
        (writeLoop fails capW num queue wire lost).num = queue.length + num ∧
      (queue ≠ [] → num < (writeLoop fails capW num queue wire lost).num) ∧
      (queue = [] → (writeLoop fails capW num queue wire lost).num = num)) ∨
    ((writeLoop fails capW num queue wire lost).exc = true ∧ queue ≠ [] ∧
      ∃ x, (writeLoop fails capW num queue wire lost).out.lost = lost ++ [x]) := by
  induction queue generalizing num wire with
  | nil => left; simp [writeLoop]
  | cons p q ih =>
    unfold writeLoop
    by_cases hf : fails (wire.length + lost.length) = true
    · right; simp [hf]
    · have h0 : fails (wire.length + lost.length) = false := by simpa using hf
      simp only [h0, Bool.false_eq_true, if_false]
      by_cases hc : num + 1 ≥ capW
      · left; simp [hc]; omega
      · simp only [hc, if_false]
        rcases ih (num + 1) (wire ++ [p]) with ⟨a, b, c, d, e⟩ | ⟨a, _, x, hx⟩
        · left
          refine ⟨a, b, by rw [c]; simp; omega, fun _ => ?_, by simp⟩
          cases q with
          | nil => have := e rfl; omega
          | cons y ys => have := d (by simp); omega
        · right; exact ⟨a, by simp, x, hx⟩

/-! ### One iteration -/

theorem iter_no_disc (newer : Bool) (fails : Nat → Bool) (capW capR : Nat) (c : Conn)
    (inbox : List PlayEv) (hi : c.interrupt = false)
    (hd : hasDisc (inbox.take (capR - (writePhase fails capW c).num)) = false) :
    iter newer fails capW capR c inbox =
      ⟨advance newer { c with out := (writePhase fails capW c).out }
          (inbox.take (capR - (writePhase fails capW c).num)),
        inbox.drop (capR - (writePhase fails capW c).num), (writePhase fails capW c).exc⟩ := by
  unfold iter
  exact readLoop_no_disc newer fails capR _ _ _ inbox _ rfl hi hd

theorem iter_disc (newer : Bool) (fails : Nat → Bool) (capW capR : Nat) (c : Conn)
    (pre post : List PlayEv) (hi : c.interrupt = false) (hcl : c.closed = false)
    (hpre : PlayEv.disconnect ∉ pre) (hlen : (writePhase fails capW c).num + pre.length < capR) :
    iter newer fails capW capR c (pre ++ .disconnect :: post) =
      ⟨reactAll newer fails (advance newer { c with out := (writePhase fails capW c).out } pre)
        .disconnect, post, false⟩ := by
  unfold iter
  exact readLoop_disc newer fails capR _ _ pre post _ hi hcl hpre hlen

/-- An iteration ends with a pending exception iff its write phase failed and no disconnect packet
is among the packets its read phase can read. -/
theorem iter_exc_iff (newer : Bool) (fails : Nat → Bool) (capW capR : Nat) (c : Conn)
    (inbox : List PlayEv) (hi : c.interrupt = false) (hcl : c.closed = false) :
    (iter newer fails capW capR c inbox).exc = true ↔
      ((writePhase fails capW c).exc = true ∧
        hasDisc (inbox.take (capR - (writePhase fails capW c).num)) = false) := by
  cases hd : hasDisc (inbox.take (capR - (writePhase fails capW c).num)) with
  | false => rw [iter_no_disc newer fails capW capR c inbox hi hd]; simp
  | true =>
    obtain ⟨pre, post, a, b, d⟩ := hasDisc_take_split _ _ hd
    subst a
    rw [iter_disc newer fails capW capR c pre post hi hcl b (by omega)]
    simp

/-! ### The loop: termination and outcomes -/

/-- What a run of `_run` started in the live state `c` on `inbox` can end in. -/
def Outcome (c : Conn) (inbox : List PlayEv) (r : Conn) (raised : Bool) : Prop :=
  ∃ done rest, inbox = done ++ rest ∧
    r.delivered = c.delivered ++ done.map PlayEv.asSeen ∧
    r.spawned = (c.spawned || done.any PlayEv.isPosLook) ∧
    ((raised = false ∧ hasDisc inbox = true ∧ done = beforeDisc inbox ++ [.disconnect] ∧
        r.interrupt = true ∧ r.closed = true ∧ r.connected = false ∧
        (r.out.lost = [] → r.out.queue = [])) ∨
     (raised = false ∧ hasDisc inbox = false ∧ rest = [] ∧ Live r ∧ r.out.lost = [] ∧
        r.out.queue = []) ∨
     (raised = true ∧ PlayEv.disconnect ∉ done ∧ Live r ∧ r.out.lost ≠ []))

theorem Outcome.prepend {c c' : Conn} {seg ib : List PlayEv} {r : Conn} {raised : Bool}
    (hd : c'.delivered = c.delivered ++ seg.map PlayEv.asSeen)
    (hs : c'.spawned = (c.spawned || seg.any PlayEv.isPosLook))
    (hseg : PlayEv.disconnect ∉ seg) (h : Outcome c' ib r raised) :
    Outcome c (seg ++ ib) r raised := by
  obtain ⟨done, rest, h1, h2, h3, h4⟩ := h
  obtain ⟨hb, hh⟩ := beforeDisc_append_of_not_mem seg ib hseg
  refine ⟨seg ++ done, rest, by rw [h1]; simp, by rw [h2, hd]; simp,
    by rw [h3, hs]; simp [Bool.or_assoc], ?_⟩
  rcases h4 with ⟨a, b, d, e⟩ | ⟨a, b, d⟩ | ⟨a, b, d⟩
  · left; exact ⟨a, by rw [hh]; exact b, by rw [hb, d]; simp, e⟩
  · right; left; exact ⟨a, by rw [hh]; exact b, d⟩
  · right; right
    refine ⟨a, ?_, d⟩
    simp only [List.mem_append, not_or]
    exact ⟨hseg, b⟩

theorem flushQ_lost_nil (fails : Nat → Bool) (queue wire lost : List Reply)
    (h : (flushQ fails queue wire lost).lost = []) : (flushQ fails queue wire lost).queue = [] := by
  induction queue generalizing wire lost with
  | nil => simp [flushQ]
  | cons p q ih =>
    unfold flushQ at h ⊢
    by_cases hf : fails (wire.length + lost.length) = true
    · simp [hf] at h
    · have h0 : fails (wire.length + lost.length) = false := by simpa using hf
      simp only [h0, Bool.false_eq_true, if_false] at h ⊢
      exact ih _ _ h

theorem flushQ_lost_ne (fails : Nat → Bool) (queue wire lost : List Reply) (h : lost ≠ []) :
    (flushQ fails queue wire lost).lost ≠ [] := by
  induction queue generalizing wire lost with
  | nil => simpa [flushQ] using h
  | cons p q ih =>
    unfold flushQ
    split
    · simp
    · exact ih _ _ h

theorem loopG_interrupted (it : Conn → List PlayEv → RRes) (fuel : Nat) (c : Conn)
    (inbox : List PlayEv) (h : c.interrupt = true) :
    loopG it (fuel + 1) c inbox = some (c, false) := by
  simp [loopG, h]

theorem loop_step (newer : Bool) (fails : Nat → Bool) (capW capR fuel : Nat) (c : Conn)
    (inbox : List PlayEv) (hi : c.interrupt = false) (hq : ¬(inbox = [] ∧ c.out.queue = [])) :
    loop newer fails capW capR (fuel + 1) c inbox =
      if (iter newer fails capW capR c inbox).exc = true then
        some ((iter newer fails capW capR c inbox).conn, true)
      else loop newer fails capW capR fuel (iter newer fails capW capR c inbox).conn
        (iter newer fails capW capR c inbox).rest := by
  simp [loop, loopG, hi, hq]

theorem loop_spec (newer : Bool) (fails : Nat → Bool) (capW capR : Nat) (hR : 1 ≤ capR)
    (fuel : Nat) (c : Conn) (inbox : List PlayEv) (hl : Live c) (hlost : c.out.lost = [])
    (hf : 2 * inbox.length + c.out.queue.length < fuel) :
    ∃ r raised, loop newer fails capW capR fuel c inbox = some (r, raised) ∧
      Outcome c inbox r raised := by
  induction fuel generalizing c inbox with
  | zero => omega
  | succ fuel ih =>
    have hni : c.interrupt = false := hl.1
    by_cases hq : inbox = [] ∧ c.out.queue = []
    · refine ⟨c, false, by simp [loop, loopG, hni, hq], [], [], by simp [hq.1], by simp, by simp, ?_⟩
      right; left
      exact ⟨rfl, by rw [hq.1]; rfl, rfl, hl, hlost, hq.2⟩
    · have hloop : loop newer fails capW capR (fuel + 1) c inbox =
          if (iter newer fails capW capR c inbox).exc = true then
            some ((iter newer fails capW capR c inbox).conn, true)
          else loop newer fails capW capR fuel (iter newer fails capW capR c inbox).conn
            (iter newer fails capW capR c inbox).rest := by
        simp [loop, loopG, hni, hq]
      rw [hloop]
      have hw := writeLoop_spec fails capW 0 c.out.queue c.out.wire c.out.lost
      have hwp : writePhase fails capW c = writeLoop fails capW 0 c.out.queue c.out.wire c.out.lost :=
        rfl
      rw [← hwp] at hw
      cases hd : hasDisc (inbox.take (capR - (writePhase fails capW c).num)) with
      | false =>
        rw [iter_no_disc newer fails capW capR c inbox hni hd]
        generalize writePhase fails capW c = w at *
        have hseg : PlayEv.disconnect ∉ inbox.take (capR - w.num) := (hasDisc_false_iff _).1 hd
        have hsplit : inbox = inbox.take (capR - w.num) ++ inbox.drop (capR - w.num) :=
          (List.take_append_drop _ _).symm
        have hlive : Live (advance newer { c with out := w.out } (inbox.take (capR - w.num))) := hl
        rcases hw with ⟨a, b, m, ms, mz⟩ | ⟨a, _, x, hx⟩
        · simp only [a, Bool.false_eq_true, if_false]
          have hmeasure : 2 * (inbox.drop (capR - w.num)).length +
              (advance newer { c with out := w.out } (inbox.take (capR - w.num))).out.queue.length
                < fuel := by
            have hfl : ((inbox.take (capR - w.num)).flatMap (replyTo newer)).length ≤
                (inbox.take (capR - w.num)).length := by
              induction inbox.take (capR - w.num) with
              | nil => simp
              | cons e es ihh =>
                have := Play.replyTo_length newer e
                simp only [List.flatMap_cons, List.length_append, List.length_cons]
                omega
            simp only [advance, List.length_append, List.length_drop]
            rw [List.length_take] at hfl
            by_cases hcq : c.out.queue = []
            · have hw0 : w.num = 0 := mz hcq
              have hin : inbox ≠ [] := fun h => hq ⟨h, hcq⟩
              have hpos : 0 < inbox.length := List.length_pos_iff.2 hin
              simp only [hcq, List.length_nil] at m hf
              omega
            · have := ms hcq
              omega
          obtain ⟨r, raised, h1, h2⟩ := ih _ (inbox.drop (capR - w.num)) hlive
            (by simpa [advance, b] using hlost) hmeasure
          refine ⟨r, raised, h1, ?_⟩
          rw [hsplit]
          exact Outcome.prepend (by simp [advance]) (by simp [advance]) hseg h2
        · simp only [a, if_true]
          refine ⟨_, true, rfl, inbox.take (capR - w.num), inbox.drop (capR - w.num), hsplit,
            by simp [advance], by simp [advance], ?_⟩
          right; right
          exact ⟨rfl, hseg, hlive, by simp [advance, hx]⟩
      | true =>
        obtain ⟨pre, post, hin, hpre, hlen⟩ := hasDisc_take_split _ _ hd
        subst hin
        rw [iter_disc newer fails capW capR c pre post hni hl.2.2 hpre (by omega)]
        simp only [Bool.false_eq_true, if_false]
        generalize writePhase fails capW c = w at *
        obtain ⟨f1, f2, f3, f4, f5, f6⟩ :=
          reactAll_disc_facts newer fails (advance newer { c with out := w.out } pre)
            (by simpa [advance] using hl.2.2)
        obtain ⟨k, hk⟩ : ∃ k, fuel = k + 1 := ⟨fuel - 1, by simp at hf; omega⟩
        subst hk
        obtain ⟨hb, hh⟩ := Play.beforeDisc_append_disc pre post hpre
        refine ⟨_, false, loopG_interrupted _ _ _ _ f1, pre ++ [.disconnect], post, by simp,
          by rw [f4]; simp [advance, PlayEv.asSeen], by rw [f5]; simp [advance, PlayEv.isPosLook], ?_⟩
        left
        refine ⟨rfl, hh, by rw [hb], f1, f2, f3, fun h => ?_⟩
        rw [f6] at h ⊢
        exact flushQ_lost_nil _ _ _ _ h

/-! ### `run`: outcomes at the level of `Result` -/

theorem init_live : Live Conn.init := ⟨rfl, rfl, rfl⟩

/-- Termination, the three outcomes and conservation for a run on a fresh connection. -/
theorem runLoop_spec (newer : Bool) (fails : Nat → Bool) (capW capR : Nat) (hR : 1 ≤ capR)
    (inbox : List PlayEv) :
    ∃ r, runLoop newer fails capW capR inbox = some r ∧
      ∃ done rest, inbox = done ++ rest ∧
        r.delivered = done.map PlayEv.asSeen ∧
        r.spawned = done.any PlayEv.isPosLook ∧
        (∃ P, P ++ r.unsent = done.flatMap (replyTo newer) ∧
          r.wire = (sift fails 0 P).1 ∧ r.lost = (sift fails 0 P).2) ∧
        ((hasDisc inbox = true ∧ done = beforeDisc inbox ++ [.disconnect] ∧ r.closed = true ∧
            r.exitCalls = 1 ∧ r.errors = 0 ∧ (r.lost = [] → r.unsent = [])) ∨
         (hasDisc inbox = false ∧ done = inbox ∧ r.closed = false ∧ r.exitCalls = 0 ∧
            r.errors = 0 ∧ r.lost = [] ∧ r.unsent = []) ∨
         (PlayEv.disconnect ∉ done ∧ r.closed = true ∧ r.exitCalls = 0 ∧ r.errors = 1 ∧
            r.lost ≠ [])) := by
  obtain ⟨c, raised, hc, done, rest, h1, h2, h3, h4⟩ :=
    loop_spec newer fails capW capR hR (2 * inbox.length + 1) Conn.init inbox init_live rfl
      (by simp [Conn.init])
  obtain ⟨P, p1, p2, p3⟩ := loop_cons newer fails capW capR _ _ _ _ _ (cons_init newer fails) hc
  have hflat : c.delivered.flatMap (replyTo newer) = done.flatMap (replyTo newer) := by
    rw [h2]
    simp only [Conn.init, List.nil_append, List.flatMap_map]
    congr 1; funext e; exact replyTo_asSeen newer e
  rw [hflat] at p1
  refine ⟨finish fails c raised, by simp [runLoop, runFrom, hc], done, rest, h1, ?_⟩
  rcases h4 with ⟨a, b, d, e1, e2, e3, e4⟩ | ⟨a, b, d, e, e5, e6⟩ | ⟨a, b, e, e5⟩
  · subst a
    refine ⟨by simpa [finish, Conn.init] using h2, by simpa [finish, Conn.init] using h3,
      ⟨P, by simpa [finish] using p1, by simpa [finish] using p2, by simpa [finish] using p3⟩, ?_⟩
    left
    exact ⟨b, d, by simpa [finish] using e2, by simp [finish, e3], by simp [finish],
      by simpa [finish] using e4⟩
  · subst a
    subst d
    refine ⟨by simpa [finish, Conn.init] using h2, by simpa [finish, Conn.init] using h3,
      ⟨P, by simpa [finish] using p1, by simpa [finish] using p2, by simpa [finish] using p3⟩, ?_⟩
    right; left
    exact ⟨b, by rw [h1]; simp, by simpa [finish] using e.2.2, by simp [finish, e.2.1], by simp [finish],
      by simpa [finish] using e5, by simpa [finish] using e6⟩
  · subst a
    refine ⟨by simpa [finish, disconnect, Conn.init] using h2,
      by simpa [finish, disconnect, Conn.init] using h3,
      ⟨P, by simpa [finish, disconnect] using p1, by simpa [finish, disconnect] using p2,
        by simpa [finish, disconnect] using p3⟩, ?_⟩
    right; right
    exact ⟨b, by simp [finish, disconnect], by simp [finish], by simp [finish],
      by simpa [finish, disconnect] using e5⟩

/-! ### Reachable iteration starts -/

theorem loopG_mono (it : Conn → List PlayEv → RRes) (fuel : Nat) (c : Conn) (inbox : List PlayEv)
    (x : Conn × Bool) (h : loopG it fuel c inbox = some x) : loopG it (fuel + 1) c inbox = some x := by
  induction fuel generalizing c inbox with
  | zero => simp [loopG] at h
  | succ fuel ih =>
    rw [loopG] at h ⊢
    by_cases hi : c.interrupt = true
    · simpa [hi] using h
    · by_cases hq : inbox = [] ∧ c.out.queue = []
      · simpa [hi, hq] using h
      · by_cases he : (it c inbox).exc = true
        · simpa [hi, hq, he] using h
        · simp only [hi, hq, he, if_false] at h ⊢
          exact ih _ _ h

theorem loopG_mono_le (it : Conn → List PlayEv → RRes) (f f' : Nat) (hle : f ≤ f') (c : Conn)
    (inbox : List PlayEv) (x : Conn × Bool) (h : loopG it f c inbox = some x) :
    loopG it f' c inbox = some x := by
  induction hle with
  | refl => exact h
  | step _ ih => exact loopG_mono it _ c inbox x ih

theorem loopG_det (it : Conn → List PlayEv → RRes) (f f' : Nat) (c : Conn) (inbox : List PlayEv)
    (x y : Conn × Bool) (hx : loopG it f c inbox = some x) (hy : loopG it f' c inbox = some y) :
    x = y := by
  have a := loopG_mono_le it f (max f f') (Nat.le_max_left _ _) c inbox x hx
  have b := loopG_mono_le it f' (max f f') (Nat.le_max_right _ _) c inbox y hy
  rw [a] at b
  exact Option.some.inj b

/-- The run from the initial state passes through every reachable iteration start. -/
theorem reach_loop (newer : Bool) (fails : Nat → Bool) (capW capR : Nat) (inbox0 : List PlayEv)
    (c : Conn) (inbox : List PlayEv) (h : Reach newer fails capW capR inbox0 c inbox) :
    ∀ f x, loop newer fails capW capR f c inbox = some x →
      ∃ f0, loop newer fails capW capR f0 Conn.init inbox0 = some x := by
  induction h with
  | start => intro f x hx; exact ⟨f, hx⟩
  | @step c inbox _ hi hq he ih =>
    intro f x hx
    apply ih (f + 1) x
    have he' : ¬((iter newer fails capW capR c inbox).exc = true) := by simp [he]
    simp only [loop, loopG, hi, Bool.false_eq_true, if_false, hq, he']
    exact hx

/-- Synchrony of the three flags: they flip together, when a disconnect packet is processed. -/
def Sync (c : Conn) : Prop := c.connected = !c.interrupt ∧ c.closed = c.interrupt

theorem reactAll_sync (newer : Bool) (fails : Nat → Bool) (c : Conn) (e : PlayEv) (h : Sync c) :
    Sync (reactAll newer fails c e) := by
  by_cases he : e = .disconnect
  · subst he
    cases hc : c.closed <;> simp [Sync, reactAll, react, disconnect, hc]
  · rw [reactAll_ne_disc newer fails c e he]; exact h

theorem readLoop_sync (newer : Bool) (fails : Nat → Bool) (capR num : Nat) (c : Conn)
    (inbox : List PlayEv) (exc : Bool) (h : Sync c) :
    Sync (readLoop newer fails capR num c inbox exc).conn := by
  induction inbox generalizing num c exc with
  | nil => simpa [readLoop] using h
  | cons e rest ih =>
    unfold readLoop
    split
    · exact ih _ _ _ (reactAll_sync newer fails c e h)
    · exact h

theorem reach_sync (newer : Bool) (fails : Nat → Bool) (capW capR : Nat) (inbox0 : List PlayEv)
    (c : Conn) (inbox : List PlayEv) (h : Reach newer fails capW capR inbox0 c inbox) : Sync c := by
  induction h with
  | start => simp [Sync, Conn.init]
  | step _ _ _ _ ih => exact readLoop_sync _ _ _ _ _ _ _ ih

theorem reach_live (newer : Bool) (fails : Nat → Bool) (capW capR : Nat) (inbox0 : List PlayEv)
    (c : Conn) (inbox : List PlayEv) (h : Reach newer fails capW capR inbox0 c inbox)
    (hi : c.interrupt = false) : Live c := by
  obtain ⟨a, b⟩ := reach_sync newer fails capW capR inbox0 c inbox h
  exact ⟨hi, by simp [a, hi], by simp [b, hi]⟩

/-- If the run from the initial state raises, the raising iteration starts in a reachable state. -/
theorem raised_reach (newer : Bool) (fails : Nat → Bool) (capW capR : Nat) (inbox0 : List PlayEv)
    (fuel : Nat) (c : Conn) (inbox : List PlayEv) (r : Conn)
    (hreach : Reach newer fails capW capR inbox0 c inbox)
    (h : loop newer fails capW capR fuel c inbox = some (r, true)) :
    ∃ c' inbox', Reach newer fails capW capR inbox0 c' inbox' ∧ c'.interrupt = false ∧
      (iter newer fails capW capR c' inbox').exc = true := by
  induction fuel generalizing c inbox with
  | zero => simp [loop, loopG] at h
  | succ fuel ih =>
    simp only [loop, loopG] at h
    split at h
    · simp at h
    · split at h
      · simp at h
      · rename_i hi hq
        split at h
        · rename_i he
          exact ⟨c, inbox, hreach, by simpa using hi, he⟩
        · rename_i he
          exact ih _ _ (Reach.step hreach (by simpa using hi) hq (by simpa using he)) h

/-! ### Runs without a (relevant) failing write -/

theorem done_replies_le (newer : Bool) (inbox done rest : List PlayEv) (h : inbox = done ++ rest)
    (hd : PlayEv.disconnect ∉ done) :
    (done.flatMap (replyTo newer)).length ≤ (fullWire newer inbox).length := by
  rw [fullWire, h, (beforeDisc_append_of_not_mem done rest hd).1]
  simp

/-- If none of the writes that the replies to the packets before the first disconnect can need
fails, the run is the failure-free one: everything is answered, nothing lost, no error. -/
theorem runLoop_nofail (newer : Bool) (fails : Nat → Bool) (capW capR : Nat) (hR : 1 ≤ capR)
    (inbox : List PlayEv) (hno : ∀ k, k < (fullWire newer inbox).length → fails k = false) :
    ∃ r, runLoop newer fails capW capR inbox = some r ∧
      r.wire = fullWire newer inbox ∧ r.lost = [] ∧ r.unsent = [] ∧
      r.delivered =
        (beforeDisc inbox ++ if hasDisc inbox then [PlayEv.disconnect] else []).map PlayEv.asSeen ∧
      r.spawned = (beforeDisc inbox).any PlayEv.isPosLook ∧
      r.closed = hasDisc inbox ∧
      r.exitCalls = (if hasDisc inbox then 1 else 0) ∧
      r.errors = 0 := by
  obtain ⟨r, hr, done, rest, h1, hdel, hsp, ⟨P, p1, p2, p3⟩, hcases⟩ :=
    runLoop_spec newer fails capW capR hR inbox
  have hPlen : P.length ≤ (done.flatMap (replyTo newer)).length := by
    rw [← p1]; simp
  have hlost_of : (done.flatMap (replyTo newer)).length ≤ (fullWire newer inbox).length →
      r.lost = [] := by
    intro hle
    rw [p3, sift_lost_nil_iff]
    intro k hk
    rw [Nat.zero_add]
    exact hno k (by omega)
  refine ⟨r, hr, ?_⟩
  rcases hcases with ⟨a, b, c, d, e, f⟩ | ⟨a, b, c, d, e, f, g⟩ | ⟨a, b, c, d, e⟩
  · have hfl : done.flatMap (replyTo newer) = fullWire newer inbox := by
      rw [b, fullWire]; simp [replyTo]
    have hl : r.lost = [] := hlost_of (by rw [hfl]; exact Nat.le_refl _)
    have hu : r.unsent = [] := f hl
    rw [hu, List.append_nil, hfl] at p1
    refine ⟨?_, hl, hu, by rw [hdel, b, a]; simp, ?_, by rw [c, a], by rw [d, a]; simp, e⟩
    · rw [p2, sift_wire_of_lost_nil _ _ _ (p3 ▸ hl), p1]
    · rw [hsp, b]; simp [PlayEv.isPosLook]
  · have hnd : PlayEv.disconnect ∉ inbox := (hasDisc_false_iff _).1 a
    have hbd := (Play.beforeDisc_of_no_disc inbox hnd).1
    have hfl : done.flatMap (replyTo newer) = fullWire newer inbox := by
      rw [b, fullWire, hbd]
    rw [g, List.append_nil, hfl] at p1
    refine ⟨?_, f, g, by rw [hdel, b, a, hbd]; simp, by rw [hsp, b, hbd], by rw [c, a],
      by rw [d, a]; simp, e⟩
    rw [p2, sift_wire_of_lost_nil _ _ _ (p3 ▸ f), p1]
  · exact absurd (hlost_of (done_replies_le newer inbox done rest h1 a)) e

/-! ### Runs through a reachable iteration start -/

theorem writePhase_exc_queue (fails : Nat → Bool) (capW : Nat) (c : Conn)
    (h : (writePhase fails capW c).exc = true) : c.out.queue ≠ [] := by
  intro hq
  simp [writePhase, hq, writeLoop] at h

/-- A disconnect packet within reach of the read phase of a reachable iteration: the whole run
ends cleanly there. -/
theorem reach_disc_clean (newer : Bool) (fails : Nat → Bool) (capW capR : Nat)
    (inbox0 : List PlayEv) (c : Conn) (pre post : List PlayEv)
    (hreach : Reach newer fails capW capR inbox0 c (pre ++ .disconnect :: post))
    (hi : c.interrupt = false) (hpre : PlayEv.disconnect ∉ pre)
    (hlen : (writePhase fails capW c).num + pre.length < capR) :
    ∃ r, runLoop newer fails capW capR inbox0 = some r ∧
      r.closed = true ∧ r.exitCalls = 1 ∧ r.errors = 0 ∧
      r.delivered = c.delivered ++ (pre ++ [PlayEv.disconnect]).map PlayEv.asSeen ∧
      ((writePhase fails capW c).exc = true → r.lost ≠ []) := by
  have hl := reach_live newer fails capW capR inbox0 c _ hreach hi
  have hit := iter_disc newer fails capW capR c pre post hi hl.2.2 hpre hlen
  obtain ⟨f1, f2, f3, f4, f5, f6⟩ :=
    reactAll_disc_facts newer fails
      (advance newer { c with out := (writePhase fails capW c).out } pre)
      (by simpa [advance] using hl.2.2)
  have hloop : loop newer fails capW capR 2 c (pre ++ .disconnect :: post) =
      some ((iter newer fails capW capR c (pre ++ .disconnect :: post)).conn, false) := by
    rw [loop_step newer fails capW capR 1 c _ hi (by simp), hit]
    simp only [Bool.false_eq_true, if_false]
    exact loopG_interrupted _ _ _ _ f1
  obtain ⟨f0, hf0⟩ := reach_loop newer fails capW capR inbox0 c _ hreach 2 _ hloop
  obtain ⟨r, raised, hr, -⟩ := loop_spec newer fails capW capR (by omega) (2 * inbox0.length + 1)
    Conn.init inbox0 init_live rfl (by simp [Conn.init])
  have heq := loopG_det _ _ _ _ _ _ _ hr hf0
  rw [hit] at heq
  refine ⟨finish fails r raised, by simp [runLoop, runFrom, hr], ?_⟩
  obtain ⟨rfl, rfl⟩ := Prod.mk.inj heq
  refine ⟨by simpa [finish] using f2, by simp [finish, f3], by simp [finish],
    by simp only [finish, Bool.false_eq_true, if_false]; rw [f4]; simp [advance, PlayEv.asSeen],
    fun hw => ?_⟩
  simp only [finish, Bool.false_eq_true, if_false, f6]
  rcases writeLoop_spec fails capW 0 c.out.queue c.out.wire c.out.lost with ⟨a, _⟩ | ⟨_, _, x, hx⟩
  · rw [writePhase] at hw; rw [hw] at a; cases a
  · intro hnil
    have : (flushQ fails
        (advance newer { c with out := (writePhase fails capW c).out } pre).out.queue
        (advance newer { c with out := (writePhase fails capW c).out } pre).out.wire
        (advance newer { c with out := (writePhase fails capW c).out } pre).out.lost).lost ≠ [] := by
      apply flushQ_lost_ne
      simp [advance, writePhase, hx]
    exact this hnil

/-- A failing write phase of a reachable iteration whose read phase cannot reach a disconnect
packet: the whole run ends there with the error reported and the exit callback skipped. -/
theorem reach_fail_error (newer : Bool) (fails : Nat → Bool) (capW capR : Nat) (hR : 1 ≤ capR)
    (inbox0 : List PlayEv) (c : Conn) (inbox : List PlayEv)
    (hreach : Reach newer fails capW capR inbox0 c inbox)
    (hi : c.interrupt = false) (hw : (writePhase fails capW c).exc = true)
    (hd : hasDisc (inbox.take (capR - (writePhase fails capW c).num)) = false) :
    ∃ r, runLoop newer fails capW capR inbox0 = some r ∧
      r.closed = true ∧ r.exitCalls = 0 ∧ r.errors = 1 ∧
      r.delivered = c.delivered ++
        (inbox.take (capR - (writePhase fails capW c).num)).map PlayEv.asSeen := by
  have hl := reach_live newer fails capW capR inbox0 c _ hreach hi
  have hit := iter_no_disc newer fails capW capR c inbox hi hd
  have hq : ¬(inbox = [] ∧ c.out.queue = []) := fun h => writePhase_exc_queue fails capW c hw h.2
  have hloop : loop newer fails capW capR 1 c inbox =
      some ((iter newer fails capW capR c inbox).conn, true) := by
    rw [loop_step newer fails capW capR 0 c _ hi hq, hit]
    simp [hw]
  obtain ⟨f0, hf0⟩ := reach_loop newer fails capW capR inbox0 c _ hreach 1 _ hloop
  obtain ⟨r, raised, hr, -⟩ := loop_spec newer fails capW capR hR (2 * inbox0.length + 1)
    Conn.init inbox0 init_live rfl (by simp [Conn.init])
  have heq := loopG_det _ _ _ _ _ _ _ hr hf0
  rw [hit] at heq
  refine ⟨finish fails r raised, by simp [runLoop, runFrom, hr], ?_⟩
  obtain ⟨rfl, rfl⟩ := Prod.mk.inj heq
  simp [finish, disconnect, advance]

end PyCraft.PlayErr
