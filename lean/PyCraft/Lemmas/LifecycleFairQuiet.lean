import PyCraft.Lemmas.LifecycleFairLive
/-!
Quiescence over `Model/Lifecycle.lean`: once no `connect()` / `status()` can happen any more and
every thread occupying a slot is interrupted (`Closing`), EVERY step of EVERY thread decreases the
variant `vari`, so on a weakly fair schedule the system reaches a state in which no thread is
enabled: all networking threads dead, both slots empty, all user programs finished, lock free.
-/
namespace PyCraft.Life
set_option linter.unusedSimpArgs false

/-- No `connect()` / `status()` will ever be executed again, and the connection is shutting down:
the user programs have only `disconnect()` calls left, the reconnect budgets of the listener and of
the exception handler are exhausted and no such reconnect is pending, and every thread occupying a
slot is interrupted. -/
structure Closing (s : Sys) : Prop where
  todo_disc : ∀ u op, op ∈ (s.usr u).todo → op.isConn = false
  rl0 : s.rl = 0
  rh0 : s.rh = 0
  no_call : ∀ i site, (s.net i).pc = .call site → site = .react
  slots_intr : ∀ j, (s.nt = some j ∨ s.newNt = some j) → (s.net j).intr = true

theorem Closing.head {s : Sys} (hc : Closing s) (u : Nat) (op : Op) (rest : List Op)
    (h : (s.usr u).todo = op :: rest) : op.isConn = false :=
  hc.todo_disc u op (by rw [h]; simp)

theorem Closing.site {s : Sys} (hc : Closing s) (i : Nat) (site : Site)
    (h : (s.net i).pc = .call site) : site.op.isConn = false := by
  rw [hc.no_call i site h]; rfl

theorem closing_nthreads (env : List Beh) (s s' : Sys) (t : Tid) (hc : Closing s)
    (hs : step env s t = some s') : s'.nthreads = s.nthreads := by
  have h1 := hc.head
  have h2 := hc.site
  step_cases hs
  all_goals simp only [refusedSt, directSt, succSt, discSt] at *
  all_goals grind

theorem closing_todo (env : List Beh) (s s' : Sys) (t : Tid) (hc : Closing s)
    (hs : step env s t = some s') : ∀ u op, op ∈ (s'.usr u).todo → op.isConn = false := by
  rcases t with v | k
  · intro u op hm
    by_cases huv : u = v
    · subst huv
      apply hc.todo_disc u op
      simp only [step, stepUser] at hs
      split at hs
      · split at hs
        · cases hs
        · next op' rest htd =>
          split at hs
          · simp only [Option.some.injEq] at hs; subst hs
            simp only [updU, if_true] at hm
            rw [htd]; exact List.mem_cons_of_mem _ hm
          · cases hs
      · simp only [Option.some.injEq] at hs; subst hs
        simpa [updU] using hm
    · rw [(usr_step_user env s s' v hs).2.1 u huv] at hm
      exact hc.todo_disc u op hm
  · rw [usr_step_net env s s' k hs]; exact hc.todo_disc

theorem closing_budget (env : List Beh) (s s' : Sys) (t : Tid) (hc : Closing s)
    (hs : step env s t = some s') : s'.rl = 0 ∧ s'.rh = 0 := by
  have h1 := hc.rl0
  have h2 := hc.rh0
  have h3 := hc.head
  have h4 := hc.site
  step_cases hs
  all_goals simp only [refusedSt, directSt, succSt, discSt] at *
  all_goals grind

theorem afterCall_ne_call (s : Sys) (site : Site) (out : Outcome) (st : Site) (h : s.rl = 0) :
    afterCall s site out ≠ .call st := by
  cases site <;> simp only [afterCall, h] <;> repeat' split
  all_goals simp_all

theorem closing_nocall (env : List Beh) (s s' : Sys) (t : Tid) (h : LInv s) (hc : Closing s)
    (hs : step env s t = some s') : ∀ i site, (s'.net i).pc = .call site → site = .react := by
  have h1 := hc.rl0
  have h2 := hc.rh0
  have h3 := hc.head
  have h4 := hc.site
  have h5 := hc.no_call
  have h6 := h.born
  step_cases hs
  all_goals
    intro j st; have h5j := h5 j st
    simp only [refusedSt, directSt, succSt, discSt] at *
  all_goals grind [updN, dnet, afterCall_ne_call]

theorem closing_slots (env : List Beh) (s s' : Sys) (t : Tid) (h : LInv s) (hc : Closing s)
    (hs : step env s t = some s') :
    ∀ j, (s'.nt = some j ∨ s'.newNt = some j) → (s'.net j).intr = true := by
  have h3 := hc.head
  have h4 := hc.site
  have h5 := hc.slots_intr
  have h6 := h.new_iff
  step_cases hs
  all_goals
    intro j; have h5j := h5 j; have h6j := h6 j
    simp only [refusedSt, directSt, succSt, discSt] at *
  all_goals grind [updN, dnet, NPc.waiting]

theorem closing_step (env : List Beh) (s s' : Sys) (t : Tid) (h : LInv s) (hc : Closing s)
    (hs : step env s t = some s') : Closing s' :=
  ⟨closing_todo env s s' t hc hs, (closing_budget env s s' t hc hs).1,
   (closing_budget env s s' t hc hs).2, closing_nocall env s s' t h hc hs,
   closing_slots env s s' t h hc hs⟩

/-- In a closing state EVERY step decreases the variant. -/
theorem closing_vari (env : List Beh) (U : Nat) (s s' : Sys) (t : Tid) (h : LInv s)
    (hub : UB U s) (hc : Closing s) (hs : step env s t = some s') : vari U s' < vari U s := by
  rcases t with u | k
  · exact user_step_vari env U s s' u h hub hs
  · refine net_step_vari env U s s' k h hs (closing_nthreads env s s' _ hc hs) ?_
    cases hi : (s.net k).intr with
    | true => exact rank_own env s s' k h hs hi
    | false =>
      rcases pc_class (s.net k).pc with hp | hp | hp | hp | hp | hp
      · have := hc.slots_intr k (Or.inl ((h.nt_iff k).mpr hp)); rw [hi] at this; cases this
      · have := hc.slots_intr k (Or.inr ((h.new_iff k).mpr hp)); rw [hi] at this; cases this
      · simp only [step, stepNet, hp, Option.some.injEq] at hs; subst hs
        simp [updN, NPc.rank, hp]
      · simp only [step, stepNet, hp, Option.some.injEq] at hs; subst hs
        simp [updN, NPc.rank, hp]
      · simp [step, stepNet, hp] at hs
      · simp [step, stepNet, hp] at hs

theorem closing_runN (env : List Beh) (U : Nat) (s : Sys) (σ : Nat → Tid) (h : LInv s)
    (hub : UB U s) (hc : Closing s) (n : Nat) :
    Closing (runN env s σ n) ∧ vari U (runN env s σ n) ≤ vari U s ∧
    (runN env s σ n).nthreads = s.nthreads := by
  induction n with
  | zero => exact ⟨hc, Nat.le_refl _, rfl⟩
  | succ n ih =>
    cases hst : step env (runN env s σ n) (σ n) with
    | none => rw [runN_succ_none env s σ n hst]; exact ih
    | some s' =>
      rw [runN_succ_some env s σ n s' hst]
      have hn := runN_inv env s h σ n
      have := closing_vari env U _ s' _ hn (UB_runN env U s hub σ n) ih.1 hst
      exact ⟨closing_step env _ s' _ hn ih.1 hst, by omega,
        by rw [closing_nthreads env _ s' _ ih.1 hst]; exact ih.2.2⟩

/-- If no thread is enabled the state never changes again. -/
theorem quiet_const (env : List Beh) (s : Sys) (σ : Nat → Tid)
    (hq : ∀ t, step env s t = none) (k : Nat) : runN env s σ k = s := by
  induction k with
  | zero => rfl
  | succ k ih => rw [runN_succ, ih, hq]

/-- If some thread is enabled, a weakly fair schedule eventually executes a step. -/
theorem some_step (env : List Beh) (s : Sys) (σ : Nat → Tid) (hf : WeakFair env s σ)
    (hq : ¬∀ t, step env s t = none) :
    ∃ m s', step env (runN env s σ m) (σ m) = some s' := by
  apply Classical.byContradiction
  intro hne
  have hall : ∀ m, runN env s σ m = s := by
    intro m
    induction m with
    | zero => rfl
    | succ m ih =>
      cases hst : step env (runN env s σ m) (σ m) with
      | none => rw [runN_succ_none env s σ m hst]; exact ih
      | some s' => exact absurd ⟨m, s', hst⟩ hne
  obtain ⟨t, ht⟩ := Classical.not_forall.mp hq
  obtain ⟨m, -, hm⟩ := hf t 0 (fun m _ => by rw [hall m]; exact ht)
  cases hst : step env (runN env s σ m) (σ m) with
  | none => rw [hall m, hm] at hst; exact ht hst
  | some s' => exact hne ⟨m, s', hst⟩

/-- QUIESCENCE: from a closing state a weakly fair schedule reaches a state in which no thread is
enabled. -/
theorem eventually_quiet (env : List Beh) (U : Nat) : ∀ v (s : Sys) (σ : Nat → Tid),
    LInv s → UB U s → Closing s → vari U s ≤ v → WeakFair env s σ →
    ∃ n, ∀ t, step env (runN env s σ n) t = none := by
  intro v
  induction v with
  | zero =>
    intro s σ h hub hc hv hf
    by_cases hq : ∀ t, step env s t = none
    · exact ⟨0, hq⟩
    · obtain ⟨m, s', hs'⟩ := some_step env s σ hf hq
      obtain ⟨a, b, -⟩ := closing_runN env U s σ h hub hc m
      have := closing_vari env U _ s' _ (runN_inv env s h σ m) (UB_runN env U s hub σ m) a hs'
      omega
  | succ v ih =>
    intro s σ h hub hc hv hf
    by_cases hq : ∀ t, step env s t = none
    · exact ⟨0, hq⟩
    · obtain ⟨m, s', hs'⟩ := some_step env s σ hf hq
      obtain ⟨a, b, -⟩ := closing_runN env U s σ h hub hc m
      have hn := runN_inv env s h σ m
      have hubn := UB_runN env U s hub σ m
      have hlt := closing_vari env U _ s' _ hn hubn a hs'
      have e : runN env s σ (m + 1) = s' := runN_succ_some env s σ m s' hs'
      obtain ⟨n, hn'⟩ := ih s' (shift σ (m + 1)) (step_inv env _ s' _ hn hs')
        (UB_step env U _ s' _ hubn hs') (closing_step env _ s' _ hn a hs') (by omega)
        (by rw [← e]; exact hf.shift _)
      rw [← e, ← runN_add] at hn'
      exact ⟨m + 1 + n, hn'⟩

/-- What a state without enabled threads looks like. -/
theorem quiet_facts (env : List Beh) (s : Sys) (h : LInv s) (hq : ∀ t, step env s t = none) :
    s.owner = none ∧ (∀ i, i < s.nthreads → (s.net i).pc = .dead) ∧
    s.nt = none ∧ s.newNt = none ∧ (∀ u, (s.usr u).pc = .idle ∧ (s.usr u).todo = []) := by
  have ho : s.owner = none := by
    cases ho : s.owner with
    | none => rfl
    | some t =>
      obtain ⟨s', hs', -⟩ := owner_enabled env s h t ho
      rw [hq t] at hs'; cases hs'
  have hblk : ∀ i, (s.net i).pc ≠ .unborn → (s.net i).pc ≠ .dead →
      (s.net i).pc = .waitPrev ∧ ∃ p, (s.net i).prev = some p ∧ p ≠ i ∧
        (s.net p).pc ≠ .dead ∧ (s.net p).pc ≠ .unborn := by
    intro i hb hd
    rcases blocked_cases env s h i hb hd (hq _) with ⟨t, h1, -⟩ | ⟨h1, p, h2, h3, h4, h5, -⟩
    · rw [ho] at h1; cases h1
    · exact ⟨h1, p, h2, h3, h4, h5⟩
  have hdead : ∀ i, (s.net i).pc ≠ .unborn → (s.net i).pc = .dead := by
    intro i hb
    apply Classical.byContradiction
    intro hd
    obtain ⟨hw, p, -, hpi, hpd, hpb⟩ := hblk i hb hd
    obtain ⟨hwp, -⟩ := hblk p hpb hpd
    have e1 := (h.new_iff p).mpr (by rw [hwp]; rfl)
    have e2 := (h.new_iff i).mpr (by rw [hw]; rfl)
    rw [e1] at e2; cases e2; exact hpi rfl
  refine ⟨ho, fun i hi => hdead i (fun hc => by have := (h.born i).mp hc; omega), ?_, ?_, ?_⟩
  · cases hn : s.nt with
    | none => rfl
    | some i =>
      have hh := (h.nt_iff i).mp hn
      have := hdead i (by intro hc; rw [hc] at hh; cases hh)
      rw [this] at hh; cases hh
  · cases hn : s.newNt with
    | none => rfl
    | some i =>
      have hh := (h.new_iff i).mp hn
      have := hdead i (by intro hc; rw [hc] at hh; cases hh)
      rw [this] at hh; cases hh
  · intro u
    have hu := hq (.user u)
    simp only [step, stepUser] at hu
    split at hu
    · next hpc =>
      split at hu
      · next htd => exact ⟨hpc, htd⟩
      · simp [canAcq, ho] at hu
    · cases hu

/-! ### Deciding `Closing` on a concrete state -/

/-- Bounded (hence decidable) form of `Closing`. -/
def closingB (U : Nat) (s : Sys) : Bool :=
  decide (∀ u, u < U → ∀ op, op ∈ (s.usr u).todo → op.isConn = false) &&
  decide (s.rl = 0) && decide (s.rh = 0) &&
  decide (∀ i, i < s.nthreads → (s.net i).pc ≠ .call .listen ∧ (s.net i).pc ≠ .call .handler) &&
  (match s.nt with
   | some j => (s.net j).intr
   | none => true) &&
  (match s.newNt with
   | some j => (s.net j).intr
   | none => true)

theorem closing_of_closingB (U : Nat) (s : Sys) (h : LInv s) (hub : UB U s)
    (hc : closingB U s = true) : Closing s := by
  simp only [closingB, Bool.and_eq_true, decide_eq_true_eq] at hc
  obtain ⟨⟨⟨⟨⟨c1, c2⟩, c3⟩, c4⟩, c5⟩, c6⟩ := hc
  refine ⟨?_, c2, c3, ?_, ?_⟩
  · intro u op hm
    by_cases hu : u < U
    · exact c1 u hu op hm
    · rw [(hub u (by omega)).2] at hm; cases hm
  · intro i site hpc
    have hi : i < s.nthreads := by
      apply Classical.byContradiction
      intro hc
      have := (h.born i).mpr (by omega)
      rw [this] at hpc; cases hpc
    have := c4 i hi
    rw [hpc] at this
    cases site <;> simp_all
  · intro j hj
    rcases hj with hj | hj
    · rw [hj] at c5; exact c5
    · rw [hj] at c6; exact c6

end PyCraft.Life
