import PyCraft.Model.C19Seq
/-!
Helper lemmas for `Props/C19Seq.lean`: every method of `Model/C19Seq.lean` factors into
"checks and payload / ONE call of the network / processing of the response" (`run_factor`), what
`storeReply` stores, when a token can change, the heap of profile objects (`NoAlias`), and sequences
of calls (`runSeq`, `runSvc`, `runTok`).
-/
namespace PyCraft.AuthSeq
open PyCraft.Json

/-! ## every method is: checks and payload, ONE call of the network, processing of the response -/

/-- The payload `authenticate` builds (l.107-120). -/
def authPayload (fresh : String) (t : Token) (user pass : String) (inv : Bool) : JVal :=
  .obj (if !inv then
      [("agent", .obj [("name", .str AGENT_NAME), ("version", .num AGENT_VERSION)]),
       ("username", .str user), ("password", .str pass)] ++
      [("clientToken", if t.clientToken.truthy then t.clientToken else .str fresh)]
    else
      [("agent", .obj [("name", .str AGENT_NAME), ("version", .num AGENT_VERSION)]),
       ("username", .str user), ("password", .str pass)])

/-- What happens before the network is called: an early exception, or the request. -/
def prepare (op : Op) (t : Token) : Except Outcome Request :=
  match op with
  | .authenticate fresh user pass inv =>
    .ok (makeRequest AUTH_SERVER "authenticate" (authPayload fresh t user pass inv))
  | .refresh =>
    if t.accessToken.isNone then .error (.valueError .accessTokenNotSet)
    else if t.clientToken.isNone then .error (.valueError .clientTokenNotSet)
    else .ok (makeRequest AUTH_SERVER "refresh"
      (.obj [("accessToken", t.accessToken), ("clientToken", t.clientToken)]))
  | .validate =>
    if t.accessToken.isNone then .error (.valueError .accessTokenNotSet)
    else .ok (makeRequest AUTH_SERVER "validate" (.obj [("accessToken", t.accessToken)]))
  | .invalidate =>
    .ok (makeRequest AUTH_SERVER "invalidate"
      (.obj [("accessToken", t.accessToken), ("clientToken", t.clientToken)]))
  | .join sid =>
    if !authenticated t then .error (.yggdrasil (some .notAuthenticated) none .null .null .null)
    else
      match t.profile.toDict with
      | .error e => .error e
      | .ok pd =>
        .ok (makeRequest SESSION_SERVER "join"
          (.obj [("accessToken", t.accessToken), ("selectedProfile", pd), ("serverId", .str sid)]))

/-- The tail of `invalidate` and `join`: `if res.status_code != 204: _raise_from_response(res)`,
`return True`. -/
def finish204 (t : Token) (rsp : Resp) : Token × Outcome :=
  match rsp with
  | .fail => (t, .transport)
  | .reply r =>
    if r.status ≠ 204 then
      match raiseFromResponse r with
      | some e => (t, e)
      | none => (t, .ret true)
    else (t, .ret true)

/-- What happens with the response. -/
def finish (op : Op) (t : Token) (rsp : Resp) : Token × Outcome :=
  match op with
  | .authenticate _ user _ _ => finishStore t { t with username := .str user } rsp
  | .refresh => finishStore t t rsp
  | .validate =>
    match rsp with
    | .fail => (t, .transport)
    | .reply r => if r.status = 204 then (t, .ret true) else (t, .retNone)
  | .invalidate => finish204 t rsp
  | .join _ => finish204 t rsp

theorem run_factor (op : Op) (net : Request → Resp) (t : Token) :
    run op net t =
      match prepare op t with
      | .error e => (t, e, none)
      | .ok q => ((finish op t (net q)).1, (finish op t (net q)).2, some q) := by
  cases op with
  | authenticate fresh user pass inv =>
    simp only [run, authenticate, prepare, finish, authPayload]
  | refresh =>
    simp only [run, refresh, prepare, finish]
    split
    · rfl
    · split <;> rfl
  | validate =>
    simp only [run, validate, prepare, finish]
    split
    · rfl
    · simp only []
      cases net _ with
      | fail => rfl
      | reply r => simp only []; split <;> rfl
  | invalidate =>
    simp only [run, invalidate, prepare, finish, finish204]
    cases net _ with
    | fail => rfl
    | reply r =>
      by_cases h204 : r.status = 204 <;> cases hr : raiseFromResponse r <;> simp [h204, hr]
  | join sid =>
    simp only [run, join, prepare, finish, finish204]
    split
    · rfl
    · cases hd : t.profile.toDict with
      | error e => rfl
      | ok pd =>
        simp only []
        cases net _ with
        | fail => rfl
        | reply r =>
          by_cases h204 : r.status = 204 <;> cases hr : raiseFromResponse r <;> simp [h204, hr]

/-! ## consequences of the factorisation -/

/-- The request a call sends, if any: it does not depend on the network. -/
def requestOf (op : Op) (t : Token) : Option Request :=
  match prepare op t with
  | .error _ => none
  | .ok q => some q

theorem run_request (op : Op) (net : Request → Resp) (t : Token) :
    (run op net t).2.2 = requestOf op t := by
  rw [run_factor, requestOf]; cases prepare op t <;> rfl

/-- Only the response to the ONE request matters. -/
theorem run_congr (op : Op) (net net' : Request → Resp) (t : Token)
    (h : ∀ q, requestOf op t = some q → net q = net' q) : run op net t = run op net' t := by
  rw [run_factor, run_factor]
  cases hp : prepare op t with
  | error e => rfl
  | ok q => simp only []; rw [h q (by simp [requestOf, hp])]

theorem run_of_prepare_error (op : Op) (net : Request → Resp) (t : Token) (e : Outcome)
    (h : prepare op t = .error e) : run op net t = (t, e, none) := by
  rw [run_factor, h]

theorem run_of_prepare_ok (op : Op) (net : Request → Resp) (t : Token) (q : Request)
    (h : prepare op t = .ok q) :
    run op net t = ((finish op t (net q)).1, (finish op t (net q)).2, some q) := by
  rw [run_factor, h]

theorem prepare_of_request (op : Op) (t : Token) (q : Request) (h : requestOf op t = some q) :
    prepare op t = .ok q := by
  unfold requestOf at h
  cases hp : prepare op t with
  | error e => rw [hp] at h; simp at h
  | ok q' => rw [hp] at h; simp at h; rw [h]

/-! ## `storeReply` -/

/-- The four values the assignments read, when all five subscripts succeed. -/
def resultOf (j : JVal) : Option (JVal × JVal × JVal × JVal) :=
  match j with
  | .obj kvs =>
    match kvs.lookup "accessToken", kvs.lookup "clientToken", kvs.lookup "selectedProfile" with
    | some a, some c, some (.obj sp) =>
      match sp.lookup "id", sp.lookup "name" with
      | some i, some n => some (a, c, i, n)
      | _, _ => none
    | _, _, _ => none
  | _ => none

/-- `d.get(k)` on a value that may not be a dict: the member, if `j` is an object that has it. -/
def member (j : JVal) (k : String) : Option JVal :=
  match j with
  | .obj kvs => kvs.lookup k
  | _ => none

/-- `resultOf` spelled out. -/
theorem resultOf_eq_some_iff (j : JVal) (a c i n : JVal) :
    resultOf j = some (a, c, i, n) ↔
    ∃ sp, member j "accessToken" = some a ∧ member j "clientToken" = some c ∧
      member j "selectedProfile" = some sp ∧ member sp "id" = some i ∧
      member sp "name" = some n := by
  unfold member
  cases j with
  | obj kvs =>
    simp only [resultOf]
    cases ha : kvs.lookup "accessToken" with
    | none => simp
    | some a' =>
      cases hc : kvs.lookup "clientToken" with
      | none => simp
      | some c' =>
        cases hs : kvs.lookup "selectedProfile" with
        | none => simp
        | some sp =>
          cases sp with
          | obj spk =>
            dsimp only
            cases hi : spk.lookup "id" with
            | none => simp [hi]
            | some i' =>
              cases hn : spk.lookup "name" with
              | none => simp [hi, hn]
              | some n' =>
                simp only [Option.some.injEq, Prod.mk.injEq]
                constructor
                · rintro ⟨rfl, rfl, rfl, rfl⟩; exact ⟨_, rfl, rfl, rfl, hi, hn⟩
                · rintro ⟨sp, rfl, rfl, hsp, h4, h5⟩
                  cases hsp
                  simp only [hi, hn, Option.some.injEq] at h4 h5
                  exact ⟨rfl, rfl, h4, h5⟩
          | _ => simp
  | _ => simp [resultOf]

theorem subscript_obj (kvs : List (String × JVal)) (k : String) :
    subscript (.obj kvs) k = match kvs.lookup k with
      | some v => .ok v
      | none => .error (.keyError k) := rfl

theorem subscript_nonobj (j : JVal) (k : String) (h : ∀ kvs, j ≠ .obj kvs) :
    subscript j k = .error .typeError := by
  cases j with
  | obj kvs => exact absurd rfl (h kvs)
  | _ => rfl

theorem storeReply_of_result (t : Token) (j : JVal) (a c i n : JVal)
    (h : resultOf j = some (a, c, i, n)) :
    storeReply t j = (⟨t.username, a, c, ⟨i, n⟩⟩, .ret true) := by
  cases j with
  | obj kvs =>
    simp only [resultOf] at h
    cases ha : kvs.lookup "accessToken" with
    | none => simp [ha] at h
    | some a' =>
      cases hc : kvs.lookup "clientToken" with
      | none => simp [ha, hc] at h
      | some c' =>
        cases hs : kvs.lookup "selectedProfile" with
        | none => simp [ha, hc, hs] at h
        | some sp =>
          cases sp with
          | obj spk =>
            cases hi : spk.lookup "id" with
            | none => simp [ha, hc, hs, hi] at h
            | some i' =>
              cases hn : spk.lookup "name" with
              | none => simp [ha, hc, hs, hi, hn] at h
              | some n' =>
                simp [ha, hc, hs, hi, hn] at h
                obtain ⟨rfl, rfl, rfl, rfl⟩ := h
                simp [storeReply, subscript_obj, ha, hc, hs, hi, hn]
          | _ => simp [ha, hc, hs] at h
  | _ => simp [resultOf] at h

theorem storeReply_true_iff (t : Token) (j : JVal) :
    (storeReply t j).2 = .ret true ↔ ∃ a c i n, resultOf j = some (a, c, i, n) := by
  constructor
  · intro h
    cases j with
    | obj kvs =>
      cases ha : kvs.lookup "accessToken" with
      | none => simp [storeReply, subscript_obj, ha] at h
      | some a =>
        cases hc : kvs.lookup "clientToken" with
        | none => simp [storeReply, subscript_obj, ha, hc] at h
        | some c =>
          cases hs : kvs.lookup "selectedProfile" with
          | none => simp [storeReply, subscript_obj, ha, hc, hs] at h
          | some sp =>
            cases sp with
            | obj spk =>
              cases hi : spk.lookup "id" with
              | none => simp [storeReply, subscript_obj, ha, hc, hs, hi] at h
              | some i =>
                cases hn : spk.lookup "name" with
                | none => simp [storeReply, subscript_obj, ha, hc, hs, hi, hn] at h
                | some n => exact ⟨a, c, i, n, by simp [resultOf, ha, hc, hs, hi, hn]⟩
            | _ => simp [storeReply, subscript, ha, hc, hs] at h
    | _ => simp [storeReply, subscript] at h
  · rintro ⟨a, c, i, n, h⟩
    rw [storeReply_of_result t j a c i n h]

/-- `storeReply` ends in `return True`, a `KeyError` or a `TypeError`. -/
theorem storeReply_outcome (t : Token) (j : JVal) :
    (storeReply t j).2 = .ret true ∨ (∃ k, (storeReply t j).2 = .keyError k) ∨
      (storeReply t j).2 = .typeError := by
  have sub : ∀ (j : JVal) (k : String), (∃ v, subscript j k = .ok v) ∨
      subscript j k = .error (.keyError k) ∨ subscript j k = .error .typeError := by
    intro j k
    cases j with
    | obj kvs => rw [subscript_obj]; cases kvs.lookup k <;> simp
    | _ => simp [subscript]
  unfold storeReply
  rcases sub j "accessToken" with ⟨a, ha⟩ | ha | ha <;> simp only [ha] <;> try (simp; done)
  rcases sub j "clientToken" with ⟨c, hc⟩ | hc | hc <;> simp only [hc] <;> try (simp; done)
  rcases sub j "selectedProfile" with ⟨sp, hs⟩ | hs | hs <;> simp only [hs] <;> try (simp; done)
  rcases sub sp "id" with ⟨i, hi⟩ | hi | hi <;> simp only [hi] <;> try (simp; done)
  rcases sub sp "name" with ⟨n, hn⟩ | hn | hn <;> simp only [hn] <;> simp


/-! ## `_raise_from_response`, `finish` -/

theorem raise_none_iff (r : Reply) : raiseFromResponse r = none ↔ r.status = 200 := by
  unfold raiseFromResponse
  by_cases h : r.status = 200
  · simp [h]
  · simp only [h, if_false]
    constructor
    · intro h'
      split at h'
      · split at h' <;> simp at h'
      · simp at h'
    · intro h'; exact absurd h' (by simp)

/-- Whatever `_raise_from_response` raises is a `YggdrasilError` with `args` and the status set. -/
theorem raise_some_shape (r : Reply) (e : Outcome) (h : raiseFromResponse r = some e) :
    r.status ≠ 200 ∧ ∃ msg er m c, e = .yggdrasil (some msg) (some r.status) er m c := by
  unfold raiseFromResponse at h
  by_cases hs : r.status = 200
  · simp [hs] at h
  · refine ⟨hs, ?_⟩
    simp only [hs, if_false] at h
    split at h
    · split at h <;> (simp only [Option.some.injEq] at h; exact ⟨_, _, _, _, h.symm⟩)
    · simp only [Option.some.injEq] at h; exact ⟨_, _, _, _, h.symm⟩

/-- Outcomes after which the caller expects nothing to have changed: a `YggdrasilError`, a
`ValueError`, an `AttributeError`, an exception of `requests.post`. -/
def Outcome.isRefusal : Outcome → Bool
  | .yggdrasil .. => true
  | .valueError _ => true
  | .attributeError => true
  | .transport => true
  | _ => false

theorem finishStore_fst_ne (t0 t1 : Token) (rsp : Resp) (h : (finishStore t0 t1 rsp).1 ≠ t0) :
    ∃ r j, rsp = .reply r ∧ r.status = 200 ∧ r.json = some j ∧
      finishStore t0 t1 rsp = storeReply t1 j := by
  unfold finishStore at h ⊢
  cases rsp with
  | fail => exact absurd rfl h
  | reply r =>
    simp only [] at h ⊢
    cases hr : raiseFromResponse r with
    | some e => rw [hr] at h; exact absurd rfl h
    | none =>
      rw [hr] at h
      cases hj : r.json with
      | none => rw [hj] at h; exact absurd rfl h
      | some j => exact ⟨r, j, rfl, (raise_none_iff r).mp hr, hj, rfl⟩

theorem finishStore_refusal (t0 t1 : Token) (rsp : Resp)
    (h : (finishStore t0 t1 rsp).2.isRefusal = true) : (finishStore t0 t1 rsp).1 = t0 := by
  unfold finishStore at h ⊢
  cases rsp with
  | fail => rfl
  | reply r =>
    simp only [] at h ⊢
    cases hr : raiseFromResponse r with
    | some e => rfl
    | none =>
      rw [hr] at h
      cases hj : r.json with
      | none => rfl
      | some j =>
        rw [hj] at h
        simp only [] at h
        rcases storeReply_outcome t1 j with h' | ⟨k, h'⟩ | h' <;> rw [h'] at h <;>
          simp [Outcome.isRefusal] at h

theorem finish204_fst (t : Token) (rsp : Resp) : (finish204 t rsp).1 = t := by
  unfold finish204
  cases rsp with
  | fail => rfl
  | reply r =>
    by_cases h : r.status = 204 <;> cases hr : raiseFromResponse r <;> simp [h, hr]

/-- The token changes only in `authenticate` / `refresh`, only on a `200` response whose body is
JSON. -/
theorem finish_fst_ne (op : Op) (t : Token) (rsp : Resp) (h : (finish op t rsp).1 ≠ t) :
    ((∃ fresh user pass inv, op = .authenticate fresh user pass inv) ∨ op = .refresh) ∧
    ∃ r j, rsp = .reply r ∧ r.status = 200 ∧ r.json = some j := by
  cases op with
  | authenticate fresh user pass inv =>
    obtain ⟨r, j, h1, h2, h3, _⟩ := finishStore_fst_ne _ _ _ h
    exact ⟨.inl ⟨_, _, _, _, rfl⟩, r, j, h1, h2, h3⟩
  | refresh =>
    obtain ⟨r, j, h1, h2, h3, _⟩ := finishStore_fst_ne _ _ _ h
    exact ⟨.inr rfl, r, j, h1, h2, h3⟩
  | validate =>
    exfalso; apply h
    simp only [finish]
    cases rsp with
    | fail => rfl
    | reply r => simp only []; split <;> rfl
  | invalidate => exact absurd (finish204_fst t rsp) h
  | join sid => exact absurd (finish204_fst t rsp) h

theorem finish_refusal (op : Op) (t : Token) (rsp : Resp)
    (h : (finish op t rsp).2.isRefusal = true) : (finish op t rsp).1 = t := by
  cases op with
  | authenticate fresh user pass inv => exact finishStore_refusal _ _ _ h
  | refresh => exact finishStore_refusal _ _ _ h
  | validate =>
    simp only [finish]
    cases rsp with
    | fail => rfl
    | reply r => simp only []; split <;> rfl
  | invalidate => exact finish204_fst t rsp
  | join sid => exact finish204_fst t rsp

/-- Whole call: the token changes only in `authenticate` / `refresh` on a `200` JSON response. -/
theorem run_fst_ne (op : Op) (net : Request → Resp) (t : Token) (h : (run op net t).1 ≠ t) :
    ((∃ fresh user pass inv, op = .authenticate fresh user pass inv) ∨ op = .refresh) ∧
    ∃ q r j, requestOf op t = some q ∧ net q = .reply r ∧ r.status = 200 ∧ r.json = some j := by
  rw [run_factor] at h
  cases hp : prepare op t with
  | error e => rw [hp] at h; exact absurd rfl h
  | ok q =>
    rw [hp] at h
    obtain ⟨h1, r, j, h2, h3, h4⟩ := finish_fst_ne op t (net q) h
    exact ⟨h1, q, r, j, by simp [requestOf, hp], h2, h3, h4⟩

/-- `validate`, `invalidate`, `join` never change the token. -/
theorem run_fst_of_not_store (op : Op) (net : Request → Resp) (t : Token)
    (h : ∀ f u p i, op ≠ .authenticate f u p i) (h' : op ≠ .refresh) : (run op net t).1 = t := by
  by_cases hne : (run op net t).1 = t
  · exact hne
  · obtain ⟨h1 | h1, _⟩ := run_fst_ne op net t hne
    · obtain ⟨f, u, p, i, h1⟩ := h1; exact absurd h1 (h f u p i)
    · exact absurd h1 h'

/-- Whole call: after a refusal the token is as before. -/
theorem run_refusal (op : Op) (net : Request → Resp) (t : Token)
    (h : (run op net t).2.1.isRefusal = true) : (run op net t).1 = t := by
  rw [run_factor] at h ⊢
  cases hp : prepare op t with
  | error e => rfl
  | ok q => rw [hp] at h; exact finish_refusal op t (net q) h

/-! ## objects with identity -/

/-- Every token refers to an existing profile object, and no two tokens refer to the same one. -/
def NoAlias (w : World) : Prop :=
  (∀ (i : Nat) (o : TokenObj), w.tokens[i]? = some o → o.profileRef < w.profiles.length) ∧
  (∀ (i j : Nat) (oi oj : TokenObj), w.tokens[i]? = some oi → w.tokens[j]? = some oj →
    oi.profileRef = oj.profileRef → i = j)

theorem noAlias_empty : NoAlias World.empty := by
  constructor <;> intro i <;> simp [World.empty]

theorem noAlias_newToken (w : World) (u a c : JVal) (h : NoAlias w) :
    NoAlias (w.newToken u a c) := by
  obtain ⟨h1, h2⟩ := h
  have key : ∀ i o, (w.tokens ++ [(⟨u, a, c, w.profiles.length⟩ : TokenObj)])[i]? = some o →
      (w.tokens[i]? = some o ∧ i < w.tokens.length) ∨
      (i = w.tokens.length ∧ o = ⟨u, a, c, w.profiles.length⟩) := by
    intro i o hi
    rw [List.getElem?_append] at hi
    split at hi
    · next hlt => exact .inl ⟨hi, hlt⟩
    · next hge =>
      have : i - w.tokens.length = 0 := by
        cases hk : i - w.tokens.length with
        | zero => rfl
        | succ k => rw [hk] at hi; simp at hi
      rw [this] at hi
      simp at hi
      exact .inr ⟨by omega, hi.symm⟩
  constructor
  · intro i o hi
    simp only [World.newToken, List.length_append, List.length_cons, List.length_nil]
    rcases key i o hi with ⟨h', _⟩ | ⟨_, rfl⟩
    · have := h1 i o h'; omega
    · simp
  · intro i j oi oj hi hj href
    rcases key i oi hi with ⟨hi', hil⟩ | ⟨hi', rfl⟩ <;> rcases key j oj hj with ⟨hj', hjl⟩ | ⟨hj', rfl⟩
    · exact h2 i j oi oj hi' hj' href
    · have := h1 i oi hi'; simp at href; omega
    · have := h1 j oj hj'; simp at href; omega
    · omega

theorem store_tokens_length (w : World) (i : Nat) (t : Token) :
    (w.store i t).tokens.length = w.tokens.length ∧
    (w.store i t).profiles.length = w.profiles.length := by
  unfold World.store
  cases w.tokens[i]? <;> simp

theorem store_profileRef (w : World) (i : Nat) (t : Token) (j : Nat) :
    ((w.store i t).tokens[j]?).map (·.profileRef) = (w.tokens[j]?).map (·.profileRef) := by
  unfold World.store
  cases hi : w.tokens[i]? with
  | none => rfl
  | some o =>
    simp only [List.getElem?_set]
    by_cases hij : i = j
    · subst hij
      have hlt : i < w.tokens.length := by
        rcases Nat.lt_or_ge i w.tokens.length with h | h
        · exact h
        · rw [List.getElem?_eq_none h] at hi; simp at hi
      have hget : w.tokens[i] = o := (List.getElem?_eq_some_iff.mp hi).2
      simp [hlt, hget]
    · simp [hij]

theorem noAlias_store (w : World) (i : Nat) (t : Token) (h : NoAlias w) :
    NoAlias (w.store i t) := by
  obtain ⟨h1, h2⟩ := h
  have ref : ∀ (j : Nat) (o : TokenObj), (w.store i t).tokens[j]? = some o →
      ∃ o' : TokenObj, w.tokens[j]? = some o' ∧ o'.profileRef = o.profileRef := by
    intro j o hj
    have := store_profileRef w i t j
    rw [hj] at this
    cases hw : w.tokens[j]? with
    | none => rw [hw] at this; simp at this
    | some o' => rw [hw] at this; simp at this; exact ⟨o', rfl, this.symm⟩
  constructor
  · intro j o hj
    obtain ⟨o', ho', hr⟩ := ref j o hj
    rw [(store_tokens_length w i t).2, ← hr]
    exact h1 j o' ho'
  · intro j k oj ok hj hk href
    obtain ⟨oj', hoj', hrj⟩ := ref j oj hj
    obtain ⟨ok', hok', hrk⟩ := ref k ok hk
    exact h2 j k oj' ok' hoj' hok' (by rw [hrj, hrk, href])

theorem view_of_token (w : World) (i : Nat) (o : TokenObj) (hi : w.tokens[i]? = some o) :
    w.view i = (w.profiles[o.profileRef]?).map
      (fun p => ⟨o.username, o.accessToken, o.clientToken, p⟩) := by
  unfold World.view; rw [hi]; cases hp : w.profiles[o.profileRef]? <;> simp [hp]

theorem view_none_of_token (w : World) (i : Nat) (hi : w.tokens[i]? = none) : w.view i = none := by
  unfold World.view; rw [hi]

/-- After a method of token `i` wrote back `t`, token `i` shows `t`. -/
theorem view_store_self (w : World) (i : Nat) (t t0 : Token) (h : NoAlias w)
    (hv : w.view i = some t0) : (w.store i t).view i = some t := by
  cases hi : w.tokens[i]? with
  | none => rw [view_none_of_token w i hi] at hv; simp at hv
  | some o =>
    have hlt : i < w.tokens.length := (List.getElem?_eq_some_iff.mp hi).1
    have hp := h.1 i o hi
    have hget : w.tokens[i] = o := (List.getElem?_eq_some_iff.mp hi).2
    have hnew : (w.store i t).tokens[i]? =
        some ⟨t.username, t.accessToken, t.clientToken, o.profileRef⟩ := by
      simp [World.store, hlt, hget]
    rw [view_of_token _ i _ hnew]
    simp [World.store, hi, hp]

/-- … and every OTHER token shows what it showed before — provided no profile object is shared. -/
theorem view_store_other (w : World) (i j : Nat) (t : Token) (h : NoAlias w) (hij : i ≠ j) :
    (w.store i t).view j = w.view j := by
  cases hi : w.tokens[i]? with
  | none => simp [World.store, hi]
  | some o =>
    cases hj : w.tokens[j]? with
    | none =>
      rw [view_none_of_token w j hj, view_none_of_token]
      simp [World.store, hi, hij, hj]
    | some oj =>
      have hne : o.profileRef ≠ oj.profileRef := fun e => hij (h.2 i j o oj hi hj e)
      have hnew : (w.store i t).tokens[j]? = some oj := by
        simp [World.store, hi, hij, hj]
      rw [view_of_token _ j _ hnew, view_of_token w j oj hj]
      simp [World.store, hi, hne]

/-- Writing back what is already there changes nothing. -/
theorem store_view_self (w : World) (i : Nat) (t : Token) (hv : w.view i = some t) :
    w.store i t = w := by
  cases hi : w.tokens[i]? with
  | none => simp [World.store, hi]
  | some o =>
    rw [view_of_token w i o hi] at hv
    cases hp : w.profiles[o.profileRef]? with
    | none => rw [hp] at hv; simp at hv
    | some p =>
      rw [hp] at hv
      simp only [Option.map_some, Option.some.injEq] at hv
      subst hv
      obtain ⟨ps, ts⟩ := w
      have hlt : i < ts.length := (List.getElem?_eq_some_iff.mp hi).1
      have hlt' : o.profileRef < ps.length := (List.getElem?_eq_some_iff.mp hp).1
      simp only [World.store, hi, World.mk.injEq]
      constructor
      · apply List.ext_getElem? ; intro k
        simp only [List.getElem?_set]
        split
        · next hk => subst hk; simp [hlt']; exact ((List.getElem?_eq_some_iff.mp hp).2).symm
        · rfl
      · apply List.ext_getElem? ; intro k
        simp only [List.getElem?_set]
        split
        · next hk => subst hk; simp [hlt]; exact ((List.getElem?_eq_some_iff.mp hi).2).symm
        · rfl

/-! ## new tokens -/

theorem view_newToken_new (w : World) (u a c : JVal) :
    (w.newToken u a c).view w.tokens.length = some ⟨u, a, c, ⟨.null, .null⟩⟩ := by
  have h : (w.newToken u a c).tokens[w.tokens.length]? = some ⟨u, a, c, w.profiles.length⟩ := by
    simp [World.newToken]
  rw [view_of_token _ _ _ h]
  simp [World.newToken]

theorem view_newToken_old (w : World) (u a c : JVal) (h : NoAlias w) (j : Nat)
    (hj : j < w.tokens.length) : (w.newToken u a c).view j = w.view j := by
  have hget : w.tokens[j]? = some w.tokens[j] := List.getElem?_eq_getElem hj
  have hnew : (w.newToken u a c).tokens[j]? = some w.tokens[j] := by
    simp [World.newToken, List.getElem?_append_left hj]
  have hp := h.1 j _ hget
  rw [view_of_token _ _ _ hnew, view_of_token _ _ _ hget]
  simp [World.newToken, List.getElem?_append_left hp]

/-! ## one call in a world -/

/-- The request a call sends, if any. -/
def World.requestOf (w : World) (c : Call) : Option Request :=
  match c with
  | .method i op => (w.view i).bind (AuthSeq.requestOf op)
  | .signOut user pass =>
    some (makeRequest AUTH_SERVER "signout" (.obj [("username", .str user), ("password", .str pass)]))

theorem signOut_snd (net : Request → Resp) (user pass : String) :
    (signOut net user pass).2 =
      makeRequest AUTH_SERVER "signout" (.obj [("username", .str user), ("password", .str pass)]) := by
  unfold signOut
  simp only []
  split
  · rfl
  · split <;> rfl

theorem call_request (w : World) (c : Call) (net : Request → Resp) :
    Obs.request (w.call c net).2 = w.requestOf c := by
  cases c with
  | method i op =>
    simp only [World.call, World.requestOf]
    cases w.view i with
    | none => rfl
    | some t => simp [Obs.request, run_request]
  | signOut user pass => simp [World.call, World.requestOf, Obs.request, signOut_snd]

theorem call_congr (w : World) (c : Call) (net net' : Request → Resp)
    (h : ∀ q, w.requestOf c = some q → net q = net' q) : w.call c net = w.call c net' := by
  cases c with
  | method i op =>
    simp only [World.call]
    cases hv : w.view i with
    | none => rfl
    | some t =>
      simp only []
      rw [run_congr op net net' t (fun q hq => h q (by simp [World.requestOf, hv, hq]))]
  | signOut user pass =>
    have := h _ (rfl : w.requestOf (.signOut user pass) = some _)
    simp only [World.call, signOut, this]

theorem noAlias_call (w : World) (c : Call) (net : Request → Resp) (h : NoAlias w) :
    NoAlias (w.call c net).1 := by
  cases c with
  | method i op =>
    simp only [World.call]
    cases w.view i with
    | none => exact h
    | some t => exact noAlias_store _ _ _ h
  | signOut user pass => exact h

/-- A call that ends in a refusal leaves every object as it was. -/
theorem call_refusal (w : World) (c : Call) (net : Request → Resp) (o : Outcome)
    (q : Option Request) (h : (w.call c net).2 = some (o, q)) (ho : o.isRefusal = true) :
    (w.call c net).1 = w := by
  cases c with
  | method i op =>
    simp only [World.call] at h ⊢
    cases hv : w.view i with
    | none => rfl
    | some t =>
      rw [hv] at h
      simp only [Option.some.injEq, Prod.mk.injEq] at h
      have := run_refusal op net t (by rw [h.1]; exact ho)
      simp only []
      rw [this]
      exact store_view_self w i t hv
  | signOut user pass => rfl

/-! ## sequences -/

theorem runSeq_append (w : World) (a b : List (Call × Resp)) :
    runSeq w (a ++ b) =
      ((runSeq (runSeq w a).1 b).1, (runSeq w a).2 ++ (runSeq (runSeq w a).1 b).2) := by
  induction a generalizing w with
  | nil => simp [runSeq]
  | cons s a ih => obtain ⟨c, rsp⟩ := s; simp [runSeq, ih]

theorem runTok_append (t : Token) (a b : List (Op × Resp)) :
    runTok t (a ++ b) =
      ((runTok (runTok t a).1 b).1, (runTok t a).2 ++ (runTok (runTok t a).1 b).2) := by
  induction a generalizing t with
  | nil => simp [runTok]
  | cons s a ih => obtain ⟨op, rsp⟩ := s; simp [runTok, ih]

theorem noAlias_runSeq (w : World) (steps : List (Call × Resp)) (h : NoAlias w) :
    NoAlias (runSeq w steps).1 := by
  induction steps generalizing w with
  | nil => exact h
  | cons s steps ih => obtain ⟨c, rsp⟩ := s; exact ih _ (noAlias_call w c _ h)

/-- The calls of a history that are methods of token `j`. -/
def stepsFor (j : Nat) : List (Call × Resp) → List (Op × Resp)
  | [] => []
  | (.method i op, rsp) :: rest => if i = j then (op, rsp) :: stepsFor j rest else stepsFor j rest
  | (.signOut _ _, _) :: rest => stepsFor j rest

/-- The observations of a history that belong to methods of token `j`. -/
def obsFor (j : Nat) : List (Call × Resp) → List Obs → List Obs
  | (.method i _, _) :: rest, o :: os => if i = j then o :: obsFor j rest os else obsFor j rest os
  | (.signOut _ _, _) :: rest, _ :: os => obsFor j rest os
  | _, _ => []

theorem view_call_self (w : World) (i : Nat) (op : Op) (net : Request → Resp) (t : Token)
    (h : NoAlias w) (hv : w.view i = some t) :
    (w.call (.method i op) net).1.view i = some (run op net t).1 ∧
    (w.call (.method i op) net).2 = some ((run op net t).2.1, (run op net t).2.2) := by
  simp only [World.call, hv]
  exact ⟨view_store_self w i _ t h hv, trivial⟩

theorem view_call_other (w : World) (c : Call) (net : Request → Resp) (j : Nat) (h : NoAlias w)
    (hc : ∀ op, c ≠ .method j op) : (w.call c net).1.view j = w.view j := by
  cases c with
  | method i op =>
    have hij : i ≠ j := fun e => hc op (by rw [e])
    simp only [World.call]
    cases w.view i with
    | none => rfl
    | some t => exact view_store_other w i j _ h hij
  | signOut user pass => rfl

theorem view_call_none (w : World) (c : Call) (net : Request → Resp) (j : Nat)
    (hv : w.view j = none) (h : NoAlias w) : (w.call c net).1.view j = none := by
  cases c with
  | method i op =>
    by_cases hij : i = j
    · subst hij; simp [World.call, hv]
    · rw [view_call_other w _ net j h (fun op' e => hij (by cases e; rfl)), hv]
  | signOut user pass => exact hv

theorem runSeq_view_none (w : World) (steps : List (Call × Resp)) (j : Nat) (h : NoAlias w)
    (hv : w.view j = none) : (runSeq w steps).1.view j = none := by
  induction steps generalizing w with
  | nil => exact hv
  | cons s steps ih =>
    obtain ⟨c, rsp⟩ := s
    exact ih _ (noAlias_call w c _ h) (view_call_none w c _ j hv h)

/-- Token `j` at the end of a history, and everything observed of its calls, is what its own calls
alone produce. -/
theorem runSeq_view_some (w : World) (steps : List (Call × Resp)) (j : Nat) (t : Token)
    (h : NoAlias w) (hv : w.view j = some t) :
    (runSeq w steps).1.view j = some (runTok t (stepsFor j steps)).1 ∧
    obsFor j steps (runSeq w steps).2 = (runTok t (stepsFor j steps)).2.map some := by
  induction steps generalizing w t with
  | nil => exact ⟨hv, rfl⟩
  | cons s steps ih =>
    obtain ⟨c, rsp⟩ := s
    cases c with
    | method i op =>
      by_cases hij : i = j
      · subst hij
        obtain ⟨h1, h2⟩ := view_call_self w i op (fun _ => rsp) t h hv
        have := ih _ _ (noAlias_call w _ _ h) h1
        simp only [runSeq, stepsFor, if_true, runTok, obsFor, List.map_cons, h2]
        exact ⟨this.1, by rw [this.2]⟩
      · have h1 := view_call_other w (.method i op) (fun _ => rsp) j h
          (fun op' e => hij (by cases e; rfl))
        have := ih _ t (noAlias_call w _ _ h) (h1.trans hv)
        simp only [runSeq, stepsFor, hij, if_false, obsFor]
        exact this
    | signOut user pass =>
      have := ih w t h hv
      simp only [runSeq, stepsFor, obsFor, World.call]
      exact this

/-! ## histories of one token -/

/-- The only steps that can change a token: `authenticate` / `refresh` answered by a `200` response
whose body is JSON (decidable from the step alone). -/
def Storing : Op × Resp → Bool
  | (.authenticate _ _ _ _, .reply r) => r.status == 200 && r.json.isSome
  | (.refresh, .reply r) => r.status == 200 && r.json.isSome
  | _ => false

theorem run_not_storing (op : Op) (rsp : Resp) (t : Token) (h : Storing (op, rsp) = false) :
    (run op (fun _ => rsp) t).1 = t := by
  by_cases hne : (run op (fun _ => rsp) t).1 = t
  · exact hne
  · obtain ⟨hop, q, r, j, _, hr, hs, hj⟩ := run_fst_ne op _ t hne
    subst hr
    rcases hop with ⟨f, u, p, i, rfl⟩ | rfl <;> simp [Storing, hs, hj] at h

theorem runTok_filter_storing (t : Token) (hist : List (Op × Resp)) :
    (runTok t hist).1 = (runTok t (hist.filter Storing)).1 ∧
    ((hist.zip (runTok t hist).2).filter (fun p => Storing p.1)).map (·.2) =
      (runTok t (hist.filter Storing)).2 := by
  induction hist generalizing t with
  | nil => exact ⟨rfl, rfl⟩
  | cons s hist ih =>
    obtain ⟨op, rsp⟩ := s
    cases hs : Storing (op, rsp) with
    | true =>
      simp only [runTok, List.filter_cons, hs, if_true, List.zip_cons_cons, List.map_cons]
      exact ⟨(ih _).1, by rw [(ih _).2]⟩
    | false =>
      have := run_not_storing op rsp t hs
      simp only [runTok, List.filter_cons, hs, List.zip_cons_cons, this]
      exact ih t

theorem runTok_all_inert (t : Token) (hist : List (Op × Resp))
    (h : ∀ s ∈ hist, Storing s = false) : (runTok t hist).1 = t := by
  rw [(runTok_filter_storing t hist).1]
  have : hist.filter Storing = [] := by
    rw [List.filter_eq_nil_iff]; intro s hs; simp [h s hs]
  rw [this]; rfl

theorem runTok_length (t : Token) (hist : List (Op × Resp)) :
    (runTok t hist).2.length = hist.length := by
  induction hist generalizing t with
  | nil => rfl
  | cons s hist ih => obtain ⟨op, rsp⟩ := s; simp [runTok, ih]

/-! ## a service instead of given responses -/

theorem runSvc_eq_runSeq {σ : Type} (svc : Service σ) (s : σ) (w : World) (calls : List Call) :
    ∃ resps : List Resp, resps.length = calls.length ∧
      (runSvc svc s w calls).2 = runSeq w (calls.zip resps) := by
  induction calls generalizing s w with
  | nil => exact ⟨[], rfl, rfl⟩
  | cons c calls ih =>
    let rsp : Resp := match w.requestOf c with
      | some q => (svc.handle s q).2
      | none => .fail
    have hc : w.call c (fun q => (svc.handle s q).2) = w.call c (fun _ => rsp) := by
      apply call_congr
      intro q hq
      simp only [rsp, hq]
    obtain ⟨resps, hl, hr⟩ := ih
      (svc.advance s (Obs.request (w.call c (fun q => (svc.handle s q).2)).2))
      (w.call c (fun q => (svc.handle s q).2)).1
    refine ⟨rsp :: resps, by simp [hl], ?_⟩
    simp only [runSvc, List.zip_cons_cons, runSeq, ← hc]
    rw [hr]

/-! ## programs -/

/-- Tokens made by the real constructor: no shared profile objects, and each shows its constructor
arguments and an empty profile. -/
theorem build_newToken_spec (inits : List (JVal × JVal × JVal)) :
    NoAlias (build World.newToken inits) ∧
    (build World.newToken inits).tokens.length = inits.length ∧
    ∀ j x, inits[j]? = some x →
      (build World.newToken inits).view j = some ⟨x.1, x.2.1, x.2.2, ⟨.null, .null⟩⟩ := by
  have gen : ∀ (inits : List (JVal × JVal × JVal)) (w : World), NoAlias w →
      let w' := inits.foldl (fun w x => World.newToken w x.1 x.2.1 x.2.2) w
      NoAlias w' ∧ w'.tokens.length = w.tokens.length + inits.length ∧
      (∀ j, j < w.tokens.length → w'.view j = w.view j) ∧
      ∀ j x, inits[j]? = some x →
        w'.view (w.tokens.length + j) = some ⟨x.1, x.2.1, x.2.2, ⟨.null, .null⟩⟩ := by
    intro inits
    induction inits with
    | nil => intro w hw; exact ⟨hw, rfl, fun _ _ => rfl, fun j x h => by simp at h⟩
    | cons y inits ih =>
      intro w hw
      have hw' := noAlias_newToken w y.1 y.2.1 y.2.2 hw
      have hlen : (w.newToken y.1 y.2.1 y.2.2).tokens.length = w.tokens.length + 1 := by
        simp [World.newToken]
      obtain ⟨h1, h2, h3, h4⟩ := ih _ hw'
      refine ⟨h1, by rw [List.foldl_cons, h2, hlen]; simp; omega, ?_, ?_⟩
      · intro j hj
        rw [List.foldl_cons, h3 j (by omega)]
        exact view_newToken_old w _ _ _ hw j hj
      · intro j x hx
        cases j with
        | zero =>
          simp only [List.getElem?_cons_zero, Option.some.injEq] at hx
          subst hx
          rw [List.foldl_cons, Nat.add_zero, h3 _ (by omega)]
          exact view_newToken_new w _ _ _
        | succ j =>
          simp only [List.getElem?_cons_succ] at hx
          have := h4 j x hx
          rw [hlen] at this
          rw [List.foldl_cons, ← this]
          congr 1; omega
  obtain ⟨h1, h2, _, h4⟩ := gen inits World.empty noAlias_empty
  refine ⟨h1, by simpa [World.empty, build] using h2, fun j x hx => ?_⟩
  have := h4 j x hx
  simpa [World.empty, build] using this

end PyCraft.AuthSeq
