import PyCraft.Model.C18Keys
import PyCraft.Lemmas.LoginWire
import PyCraft.Lemmas.Cfb8
import PyCraft.Generated.C18Keys
/-!
Helper lemmas for `Props/C18Keys.lean`.

1. the keyed channel `KChan` against `Chan` (`Model/Cfb8.lean`) and `KChan.create`;
2. the index-wise (SP 800-38A) form of CFB8;
3. the wrapper stack as a stream transformer;
4. `execWith`: basics, growth, the closed form of schedule-independent observations;
5. factoring a run through the layers present at its start (`Fac`);
6. runs with at most one cipher layer against `LoginWire.wireGo`;
7. several logins;
8. RSAES-PKCS1-v1_5; 9. final forms (one / two requests written out); 10. agreement with
   `Model/Login.lean`; spec predicates and concrete parameters for the refutations and examples.
-/
namespace PyCraft.Keys
open PyCraft PyCraft.Login PyCraft.LoginWire

/-! ## 1. the keyed channel -/

theorem create_of_len (secret : Bytes) (h : secret.length = 16) :
    KChan.create secret = .ok ⟨secret, secret, secret⟩ := by
  simp [KChan.create, aesKeyLenOk, h]

theorem create_err (secret : Bytes) (h : secret.length ≠ 16) :
    KChan.create secret = .error .value := by
  simp [KChan.create, h]

theorem create_ok_inv (secret : Bytes) (c : KChan) (h : KChan.create secret = .ok c) :
    secret.length = 16 ∧ c = ⟨secret, secret, secret⟩ := by
  by_cases hl : secret.length = 16
  · rw [create_of_len secret hl] at h
    exact ⟨hl, by injection h with h; exact h.symm⟩
  · rw [create_err secret hl] at h; cases h

theorem KChan.step_toChan (c : KChan) (op : Op) :
    (c.step op).2 = (c.toChan.step (aes128 c.key) op).2 ∧ (c.step op).1.key = c.key ∧
      (c.step op).1.toChan = (c.toChan.step (aes128 c.key) op).1 := by
  cases op <;> exact ⟨rfl, rfl, rfl⟩

/-- A run of the keyed channel is the run of `Model/Cfb8.lean`'s channel with the block function
`aes128 key`; the key never changes. -/
theorem KChan.run_toChan (c : KChan) (ops : List Op) :
    (KChan.run c ops).2 = (Chan.run (aes128 c.key) c.toChan ops).2 ∧
      (KChan.run c ops).1.key = c.key ∧
      (KChan.run c ops).1.toChan = (Chan.run (aes128 c.key) c.toChan ops).1 := by
  induction ops generalizing c with
  | nil => exact ⟨rfl, rfl, rfl⟩
  | cons op ops ih =>
    obtain ⟨s1, s2, s3⟩ := KChan.step_toChan c op
    obtain ⟨i1, i2, i3⟩ := ih (c.step op).1
    rw [s2, s3] at i1 i3
    rw [s2] at i2
    refine ⟨?_, ?_, ?_⟩
    · simp only [KChan.run, Chan.run, i1, s1]
    · simp only [KChan.run, i2]
    · simp only [KChan.run, Chan.run, i3]

/-! ## 2. CFB8, index by index -/

/-- SP 800-38A §6.3 (s = 8) read off the ciphertext: byte `i` of the output is byte `i` of the
input XOR the first byte of `E` applied to the last `|iv|` bytes of `iv ‖ c[0..i)`. -/
theorem cfb8Enc_getElem (E : Bytes → Bytes) (iv p : Bytes) (hiv : iv ≠ []) (i : Nat)
    (hi : i < p.length) :
    (cfb8Enc E iv p).2[i]? =
      some (p[i] ^^^ cfb8Key E ((iv ++ (cfb8Enc E iv p).2.take i).drop i)) := by
  induction p generalizing iv i with
  | nil => simp at hi
  | cons x ps ih =>
    cases i with
    | zero => simp [cfb8Enc_cons]
    | succ i =>
      have hi' : i < ps.length := by simpa using hi
      have hne : cfb8Shift iv (x ^^^ cfb8Key E iv) ≠ [] := by simp [cfb8Shift]
      have := ih (cfb8Shift iv (x ^^^ cfb8Key E iv)) hne i hi'
      cases iv with
      | nil => exact absurd rfl hiv
      | cons v vs =>
        simp only [cfb8Enc_cons, List.getElem?_cons_succ, List.getElem_cons_succ, List.take_succ_cons,
          List.cons_append, List.drop_succ_cons]
        rw [this]
        simp [cfb8Shift, List.append_assoc]

theorem cfb8Dec_getElem (E : Bytes → Bytes) (iv c : Bytes) (hiv : iv ≠ []) (i : Nat)
    (hi : i < c.length) :
    (cfb8Dec E iv c).2[i]? = some (c[i] ^^^ cfb8Key E ((iv ++ c.take i).drop i)) := by
  induction c generalizing iv i with
  | nil => simp at hi
  | cons x cs ih =>
    cases i with
    | zero => simp [cfb8Dec_cons]
    | succ i =>
      have hi' : i < cs.length := by simpa using hi
      have hne : cfb8Shift iv x ≠ [] := by simp [cfb8Shift]
      have := ih (cfb8Shift iv x) hne i hi'
      cases iv with
      | nil => exact absurd rfl hiv
      | cons v vs =>
        simp only [cfb8Dec_cons, List.getElem?_cons_succ, List.getElem_cons_succ, List.take_succ_cons,
          List.cons_append, List.drop_succ_cons]
        rw [this]
        simp [cfb8Shift, List.append_assoc]

theorem window_length (iv c : Bytes) (i : Nat) (hi : i ≤ c.length) :
    ((iv ++ c.take i).drop i).length = iv.length := by
  simp [List.length_drop, List.length_append, List.length_take]; omega

/-! ## 3. the wrapper stack -/

theorem updates_append {σ : Type} (f : σ → Bytes → σ × Bytes) (s : σ) (xs ys : List Bytes) :
    updates f s (xs ++ ys) =
      ((updates f (updates f s xs).1 ys).1,
        (updates f s xs).2 ++ (updates f (updates f s xs).1 ys).2) := by
  induction xs generalizing s with
  | nil => rfl
  | cons x xs ih => simp [updates, ih]

theorem KChan.send_nil (c : KChan) : c.send [] = (c, []) := rfl

theorem KChan.send_append (c : KChan) (a b : Bytes) :
    c.send (a ++ b) = (((c.send a).1.send b).1, (c.send a).2 ++ ((c.send a).1.send b).2) := by
  simp [KChan.send, cfb8Enc_append]

theorem stackSend_nil (st : List KChan) : stackSend st [] = (st, []) := by
  induction st with
  | nil => rfl
  | cons c inner ih => simp [stackSend, KChan.send_nil, ih]

/-- The chunk law for the whole stack. -/
theorem stackSend_append (st : List KChan) (a b : Bytes) :
    stackSend st (a ++ b) =
      ((stackSend (stackSend st a).1 b).1,
        (stackSend st a).2 ++ (stackSend (stackSend st a).1 b).2) := by
  induction st generalizing a b with
  | nil => rfl
  | cons c inner ih => simp only [stackSend, KChan.send_append, ih]

theorem stackSend_length (st : List KChan) (d : Bytes) : (stackSend st d).2.length = d.length := by
  induction st generalizing d with
  | nil => rfl
  | cons c inner ih => simp [stackSend, ih, KChan.send, cfb8Enc_length]

/-- Sending through `t ++ b` = sending through `t`, then what comes out through `b`. -/
theorem stackSend_stack_append (t b : List KChan) (d : Bytes) :
    stackSend (t ++ b) d =
      ((stackSend t d).1 ++ (stackSend b (stackSend t d).2).1, (stackSend b (stackSend t d).2).2) := by
  induction t generalizing d with
  | nil => rfl
  | cons c t ih => simp [stackSend, ih]

theorem updates_stack_append (t b : List KChan) (cs : List Bytes) :
    updates stackSend (t ++ b) cs =
      ((updates stackSend t cs).1 ++ (updates stackSend b (updates stackSend t cs).2).1,
        (updates stackSend b (updates stackSend t cs).2).2) := by
  induction cs generalizing t b with
  | nil => simp [updates]
  | cons c cs ih => simp [updates, stackSend_stack_append, ih]

theorem stackSend_keys (st : List KChan) (d : Bytes) :
    (stackSend st d).1.map (·.key) = st.map (·.key) := by
  induction st generalizing d with
  | nil => rfl
  | cons c inner ih => simp [stackSend, ih, KChan.send]

theorem updates_stackSend_keys (st : List KChan) (cs : List Bytes) :
    (updates stackSend st cs).1.map (·.key) = st.map (·.key) := by
  induction cs generalizing st with
  | nil => rfl
  | cons c cs ih => simp [updates, ih, stackSend_keys]

theorem updates_stackSend_isEmpty (st : List KChan) (cs : List Bytes) :
    (updates stackSend st cs).1.isEmpty = st.isEmpty := by
  have h := congrArg List.length (updates_stackSend_keys st cs)
  simp only [List.length_map] at h
  cases hst : st <;> cases hr : (updates stackSend st cs).1 <;> simp_all

theorem updates_stackSend_nil (cs : List Bytes) : updates stackSend [] cs = ([], cs) := by
  induction cs with
  | nil => rfl
  | cons c cs ih => simp [updates, stackSend, ih]

/-- Any chunking of the sends through a stack is one send of the concatenation. -/
theorem updates_stack_flatten (st : List KChan) (cs : List Bytes) :
    ((updates stackSend st cs).1, (updates stackSend st cs).2.flatten) = stackSend st cs.flatten :=
  updates_flatten stackSend stackSend_nil stackSend_append st cs

/-- One layer: the CFB8 encryption under AES with the layer's key, from its register. -/
theorem stackSend_single (c : KChan) (d : Bytes) :
    stackSend [c] d =
      ([⟨c.key, (cfb8Enc (aes128 c.key) c.encReg d).1, c.decReg⟩],
        (cfb8Enc (aes128 c.key) c.encReg d).2) := rfl

/-- A layer on top of a stack: its output is what the rest of the stack is given. -/
theorem stackSend_cons (c : KChan) (inner : List KChan) (d : Bytes) :
    (stackSend (c :: inner) d).2 = (stackSend inner (cfb8Enc (aes128 c.key) c.encReg d).2).2 := rfl

/-! ## 4. `execWith` basics -/

section exec
variable (gen : SecretGen) (mk : Bytes → Except Err KChan) (P : KeyParams)

/-- The login reactor is still reading. -/
def KState.alive (s : KState) : Bool := s.err.isNone && s.reactor == .login

theorem execWith_nil (s : KState) : execWith gen mk P s [] = s := rfl

theorem execWith_cons (s : KState) (a : Step) (r : List Step) :
    execWith gen mk P s (a :: r) = execWith gen mk P (stepWith gen mk P s a) r := rfl

theorem execWith_append (s : KState) (a b : List Step) :
    execWith gen mk P s (a ++ b) = execWith gen mk P (execWith gen mk P s a) b := by
  simp [execWith, List.foldl_append]

theorem execWith_err (s : KState) (steps : List Step) (h : s.err.isSome = true) :
    execWith gen mk P s steps = s := by
  induction steps with
  | nil => rfl
  | cons a r ih =>
    rw [execWith_cons]
    have : stepWith gen mk P s a = s := by cases a <;> simp [stepWith, h]
    rw [this, ih]

/-! ### what a sequence of writes does -/

/-- `writeNow` for each packet of `ps` in turn. -/
def writeAll (s : KState) (ps : List ClientPkt) : KState :=
  ps.foldl (fun t p => t.writeNow P p false) s

theorem flushQueue_eq (s : KState) : s.flushQueue P = { writeAll P s s.queue with queue := [] } := rfl

theorem writeAll_cons (s : KState) (p : ClientPkt) (ps : List ClientPkt) :
    writeAll P s (p :: ps) = writeAll P (s.writeNow P p false) ps := rfl

theorem writeAll_fields (s : KState) (ps : List ClientPkt) :
    (writeAll P s ps).nDraws = s.nDraws ∧ (writeAll P s ps).threshold = s.threshold ∧
      (writeAll P s ps).reactor = s.reactor ∧ (writeAll P s ps).queue = s.queue ∧
      (writeAll P s ps).joins = s.joins ∧ (writeAll P s ps).err = s.err ∧
      (writeAll P s ps).layers.map (·.key) = s.layers.map (·.key) := by
  induction ps generalizing s with
  | nil => exact ⟨rfl, rfl, rfl, rfl, rfl, rfl, rfl⟩
  | cons p ps ih =>
    obtain ⟨h1, h2, h3, h4, h5, h6, h7⟩ := ih (s.writeNow P p false)
    rw [writeAll_cons]
    refine ⟨h1, h2, h3, h4, h5, h6, ?_⟩
    rw [h7]; exact updates_stackSend_keys _ _

theorem flushQueue_fields (s : KState) :
    (s.flushQueue P).nDraws = s.nDraws ∧ (s.flushQueue P).threshold = s.threshold ∧
      (s.flushQueue P).reactor = s.reactor ∧ (s.flushQueue P).queue = [] ∧
      (s.flushQueue P).joins = s.joins ∧ (s.flushQueue P).err = s.err ∧
      (s.flushQueue P).layers.map (·.key) = s.layers.map (·.key) := by
  obtain ⟨h1, h2, h3, _, h5, h6, h7⟩ := writeAll_fields P s s.queue
  exact ⟨h1, h2, h3, rfl, h5, h6, h7⟩

theorem flushQueue_idem (s : KState) : (s.flushQueue P).flushQueue P = s.flushQueue P := by
  simp [KState.flushQueue]

theorem keys_flush (s : KState) : (s.flushQueue P).keys = s.keys := by
  have h := (flushQueue_fields P s).2.2.2.2.2.2
  unfold KState.keys
  rw [List.map_reverse, List.map_reverse, h]

theorem execWith_play (s : KState) (steps : List Step) (h : s.reactor = .play) :
    execWith gen mk P s steps = s ∨ execWith gen mk P s steps = s.flushQueue P := by
  induction steps generalizing s with
  | nil => left; rfl
  | cons a r ih =>
    rw [execWith_cons]
    cases a with
    | recv e =>
      have : stepWith gen mk P s (.recv e) = s := by simp [stepWith, h]
      rw [this]; exact ih s h
    | flush =>
      by_cases he : s.err.isSome = true
      · left; rw [execWith_err gen mk P _ _ (by simp [stepWith, he])]; simp [stepWith, he]
      · have hs : stepWith gen mk P s .flush = s.flushQueue P := by simp [stepWith, he]
        rw [hs]
        right
        rcases ih (s.flushQueue P) (by rw [(flushQueue_fields P s).2.2.1]; exact h) with h1 | h1
        · exact h1
        · rw [h1, flushQueue_idem]

theorem execWith_not_alive (s : KState) (steps : List Step) (h : s.alive = false) :
    execWith gen mk P s steps = s ∨ execWith gen mk P s steps = s.flushQueue P := by
  by_cases he : s.err.isSome = true
  · left; exact execWith_err gen mk P s steps he
  · apply execWith_play
    cases hr : s.reactor with
    | play => rfl
    | login =>
      cases hs : s.err with
      | none => simp [KState.alive, hr, hs] at h
      | some e => simp [hs] at he

theorem stepWith_recv_alive (s : KState) (e : LoginEv) (h : s.alive = true) :
    stepWith gen mk P s (.recv e) = reactWith gen mk P s e := by
  simp only [KState.alive, Bool.and_eq_true] at h
  have h1 : s.err.isSome = false := by cases hs : s.err <;> simp_all
  have h2 : (s.reactor == Reactor.play) = false := by cases hr : s.reactor <;> simp_all
  simp [stepWith, h1, h2]

theorem stepWith_flush_alive (s : KState) (h : s.alive = true) :
    stepWith gen mk P s .flush = s.flushQueue P ∧ (s.flushQueue P).alive = true := by
  obtain ⟨_, _, f3, _, _, f6, _⟩ := flushQueue_fields P s
  simp only [KState.alive, Bool.and_eq_true] at h
  have h1 : s.err.isSome = false := by cases hs : s.err <;> simp_all
  refine ⟨by simp [stepWith, h1], ?_⟩
  simp only [KState.alive, f3, f6, Bool.and_eq_true]; exact h

theorem alive_after_terminal (s : KState) (e : LoginEv) (ht : e.isTerminal = true) :
    (reactWith gen mk P s e).alive = false := by
  cases e <;> simp_all [reactWith, LoginEv.isTerminal, KState.alive]

end exec

/-! ### the code as it is: `reactK` -/

/-- The state after an encryption request, written out: ONE new draw (number `s.nDraws`), used in
the reply, in the `join` hash and as key and initial registers of the new outermost layer; the
reply itself went through the OLD layers. -/
theorem reactK_encRequest (P : KeyParams) (s : KState) (sid : String) (pk tok : Bytes) :
    reactK P s (.encRequest sid pk tok) =
      { nDraws := s.nDraws + 1,
        layers := ⟨P.rng.draw s.nDraws, P.rng.draw s.nDraws, P.rng.draw s.nDraws⟩ ::
          (updates stackSend s.layers (frameSends P.z s.threshold
            (payloadOf P.ids (replyOf P (P.rng.draw s.nDraws) pk tok)))).1,
        threshold := s.threshold, reactor := s.reactor, queue := s.queue,
        wire := s.wire ++ (updates stackSend s.layers (frameSends P.z s.threshold
            (payloadOf P.ids (replyOf P (P.rng.draw s.nDraws) pk tok)))).2,
        log := s.log ++ [⟨replyOf P (P.rng.draw s.nDraws) pk tok, !s.layers.isEmpty, s.threshold,
          true⟩],
        joins := s.joins ++ joinOf P (P.rng.draw s.nDraws) sid pk,
        err := s.err } := by
  have hc := create_of_len _ (P.rng.len16 s.nDraws)
  by_cases h1 : sid = "-" <;> by_cases h2 : P.base.hasToken = true <;>
    simp [reactWith, genUrandom, hc, KState.writeNow, joinOf, replyOf, h1, h2]

theorem alive_reactK (P : KeyParams) (s : KState) (e : LoginEv) (h : s.alive = true)
    (ht : e.isTerminal = false) : (reactK P s e).alive = true := by
  cases e with
  | encRequest sid pk tok => rw [reactK_encRequest]; exact h
  | setCompression t => exact h
  | pluginRequest i c d => exact h
  | success => cases ht
  | disconnect j => cases ht

/-- Any observation `g` that a flush does not change and that a processed event updates by `upd`
is the fold of `upd` over the processed events — whatever the schedule (`Login.exec_closed` for
`execK`). -/
theorem execK_closed {β : Type} (P : KeyParams) (g : KState → β) (upd : β → LoginEv → β)
    (hflush : ∀ s, g (s.flushQueue P) = g s)
    (hreact : ∀ s e, s.alive = true → g (reactK P s e) = upd (g s) e)
    (s : KState) (steps : List Step) (h : s.alive = true) :
    g (execK P s steps) = (processed (events steps)).foldl upd (g s) := by
  induction steps generalizing s with
  | nil => simp [execWith_nil, events, processed]
  | cons a r ih =>
    show g (execWith genUrandom KChan.create P s (a :: r)) = _
    rw [execWith_cons]
    cases a with
    | flush =>
      obtain ⟨h1, h2⟩ := stepWith_flush_alive genUrandom KChan.create P s h
      rw [h1]
      have := ih _ h2
      rw [hflush] at this
      simpa [events] using this
    | recv e =>
      rw [stepWith_recv_alive genUrandom KChan.create P s e h]
      by_cases ht : e.isTerminal = true
      · have hna := alive_after_terminal genUrandom KChan.create P s e ht
        have hj : g (execWith genUrandom KChan.create P (reactK P s e) r) = g (reactK P s e) := by
          rcases execWith_not_alive genUrandom KChan.create P _ r hna with h1 | h1 <;> rw [h1]
          exact hflush _
        rw [hj, hreact s e h]
        simp [events, processed_cons_terminal e _ ht]
      · have ht' : e.isTerminal = false := by simpa using ht
        have := ih _ (alive_reactK P s e h ht')
        rw [hreact s e h] at this
        simpa [events, processed_cons_live e _ ht'] using this

theorem execK_alive (P : KeyParams) (s : KState) (steps : List Step) (h : s.alive = true)
    (hn : ∀ e ∈ events steps, e.isTerminal = false) : (execK P s steps).alive = true := by
  induction steps generalizing s with
  | nil => exact h
  | cons a r ih =>
    show (execWith genUrandom KChan.create P s (a :: r)).alive = true
    rw [execWith_cons]
    cases a with
    | flush =>
      obtain ⟨h1, h2⟩ := stepWith_flush_alive genUrandom KChan.create P s h
      rw [h1]; exact ih _ h2 (by simpa [events] using hn)
    | recv e =>
      rw [stepWith_recv_alive genUrandom KChan.create P s e h]
      simp only [events, List.mem_cons, forall_eq_or_imp] at hn
      exact ih _ (alive_reactK P s e h hn.1) hn.2

theorem init_alive (n : Nat) : (KState.init n).alive = true := rfl

/-- The schedule-independent part of the state: the call counter and the installed keys. -/
def drawUpd (P : KeyParams) (a : Nat × List Bytes) : LoginEv → Nat × List Bytes
  | .encRequest .. => (a.1 + 1, a.2 ++ [P.rng.draw a.1])
  | _ => a

theorem foldl_drawUpd (P : KeyParams) (evs : List LoginEv) (n : Nat) (ks : List Bytes) :
    evs.foldl (drawUpd P) (n, ks) =
      (n + (reqs evs).length, ks ++ (List.range' n (reqs evs).length).map P.rng.draw) := by
  induction evs generalizing n ks with
  | nil => simp [reqs]
  | cons e es ih =>
    cases e <;> simp only [List.foldl_cons, drawUpd, reqs, ih] <;>
      simp [List.range'_succ, Nat.add_assoc, Nat.add_comm 1]

theorem keys_reactK (P : KeyParams) (s : KState) (e : LoginEv) :
    ((reactK P s e).nDraws, (reactK P s e).keys) = drawUpd P (s.nDraws, s.keys) e := by
  cases e with
  | encRequest sid pk tok =>
    rw [reactK_encRequest]
    simp only [drawUpd, KState.keys, List.reverse_cons, List.map_append, List.map_cons, List.map_nil]
    rw [List.map_reverse, List.map_reverse, updates_stackSend_keys]
  | setCompression t => rfl
  | pluginRequest i c d => rfl
  | success => rfl
  | disconnect j => rfl

/-- Counter and keys after any run from a fresh connection. -/
theorem keys_execK (P : KeyParams) (n0 : Nat) (steps : List Step) :
    (execK P (.init n0) steps).nDraws = n0 + (reqs (processed (events steps))).length ∧
      (execK P (.init n0) steps).keys =
        (List.range' n0 (reqs (processed (events steps))).length).map P.rng.draw := by
  have h := execK_closed P (fun s => (s.nDraws, s.keys)) (drawUpd P)
    (fun s => by simp only [keys_flush, (flushQueue_fields P s).1])
    (fun s e _ => keys_reactK P s e) (.init n0) steps (init_alive n0)
  rw [foldl_drawUpd] at h
  simp only [KState.init, KState.keys, List.reverse_nil, List.map_nil, List.nil_append,
    Prod.mk.injEq] at h
  exact h

/-! ### growth: log, joins, keys and wire only grow -/

/-- `t` extends `s`. -/
structure Grows (s t : KState) : Prop where
  log : ∃ l, t.log = s.log ++ l
  joins : ∃ l, t.joins = s.joins ++ l
  keys : ∃ l, t.keys = s.keys ++ l
  wire : ∃ l, t.wire = s.wire ++ l

theorem Grows.refl (s : KState) : Grows s s := ⟨⟨[], by simp⟩, ⟨[], by simp⟩, ⟨[], by simp⟩, ⟨[], by simp⟩⟩

theorem Grows.trans {a b c : KState} (h1 : Grows a b) (h2 : Grows b c) : Grows a c := by
  obtain ⟨⟨l1, e1⟩, ⟨j1, f1⟩, ⟨k1, g1⟩, ⟨w1, i1⟩⟩ := h1
  obtain ⟨⟨l2, e2⟩, ⟨j2, f2⟩, ⟨k2, g2⟩, ⟨w2, i2⟩⟩ := h2
  exact ⟨⟨l1 ++ l2, by rw [e2, e1, List.append_assoc]⟩, ⟨j1 ++ j2, by rw [f2, f1, List.append_assoc]⟩,
    ⟨k1 ++ k2, by rw [g2, g1, List.append_assoc]⟩, ⟨w1 ++ w2, by rw [i2, i1, List.append_assoc]⟩⟩

theorem Grows.writeNow (P : KeyParams) (s : KState) (p : ClientPkt) (f : Bool) :
    Grows s (s.writeNow P p f) := by
  refine ⟨⟨_, rfl⟩, ⟨[], by simp [KState.writeNow]⟩, ⟨[], ?_⟩, ⟨_, rfl⟩⟩
  simp only [KState.keys, KState.writeNow, List.append_nil]
  rw [List.map_reverse, List.map_reverse, updates_stackSend_keys]

theorem Grows.writeAll (P : KeyParams) (s : KState) (ps : List ClientPkt) :
    Grows s (writeAll P s ps) := by
  induction ps generalizing s with
  | nil => exact Grows.refl s
  | cons p ps ih => exact (Grows.writeNow P s p false).trans (ih _)

theorem Grows.flush (P : KeyParams) (s : KState) : Grows s (s.flushQueue P) := by
  obtain ⟨a, b, c, d⟩ := Grows.writeAll P s s.queue
  exact ⟨a, b, c, d⟩

section growth
variable (gen : SecretGen) (mk : Bytes → Except Err KChan) (P : KeyParams)

theorem Grows.react (s : KState) (e : LoginEv) : Grows s (reactWith gen mk P s e) := by
  cases e with
  | setCompression t => exact ⟨⟨[], by simp [reactWith]⟩, ⟨[], by simp [reactWith]⟩, ⟨[], by simp [reactWith, KState.keys]⟩, ⟨[], by simp [reactWith]⟩⟩
  | pluginRequest i c d => exact ⟨⟨[], by simp [reactWith]⟩, ⟨[], by simp [reactWith]⟩, ⟨[], by simp [reactWith, KState.keys]⟩, ⟨[], by simp [reactWith]⟩⟩
  | success => exact ⟨⟨[], by simp [reactWith]⟩, ⟨[], by simp [reactWith]⟩, ⟨[], by simp [reactWith, KState.keys]⟩, ⟨[], by simp [reactWith]⟩⟩
  | disconnect j => exact ⟨⟨[], by simp [reactWith]⟩, ⟨[], by simp [reactWith]⟩, ⟨[], by simp [reactWith, KState.keys]⟩, ⟨[], by simp [reactWith]⟩⟩
  | encRequest sid pk tok =>
    -- the state the reply is written from
    let s1 : KState :=
      if sid ≠ "-" then
        if P.base.hasToken then
          { s with nDraws := (gen P.rng s.nDraws).2,
                   joins := s.joins ++ [P.base.hash sid (gen P.rng s.nDraws).1 pk] }
        else { s with nDraws := (gen P.rng s.nDraws).2 }
      else { s with nDraws := (gen P.rng s.nDraws).2 }
    have g1 : Grows s s1 := by
      refine ⟨⟨[], ?_⟩, ?_, ⟨[], ?_⟩, ⟨[], ?_⟩⟩
      · simp only [s1]; split <;> (try split) <;> simp
      · simp only [s1]; split <;> (try split) <;> first | exact ⟨_, rfl⟩ | exact ⟨[], by simp⟩
      · simp only [s1, KState.keys]; split <;> (try split) <;> simp
      · simp only [s1]; split <;> (try split) <;> simp
    have g2 := Grows.writeNow P s1
      (.encResp (P.base.rsa.enc pk (gen P.rng s.nDraws).1) (P.base.rsa.enc pk tok)) true
    have g12 := g1.trans g2
    show Grows s (match mk (gen P.rng s.nDraws).1 with
      | .error e => { s1.writeNow P _ true with err := some (.cipher e) }
      | .ok c => { s1.writeNow P _ true with layers := c :: (s1.writeNow P _ true).layers })
    cases mk (gen P.rng s.nDraws).1 with
    | error e => exact ⟨g12.log, g12.joins, g12.keys, g12.wire⟩
    | ok c =>
      refine ⟨g12.log, g12.joins, ?_, g12.wire⟩
      obtain ⟨l, hl⟩ := g12.keys
      refine ⟨l ++ [c.key], ?_⟩
      simp only [KState.keys] at hl ⊢
      simp only [List.reverse_cons, List.map_append, List.map_cons, List.map_nil, hl,
        List.append_assoc]

theorem Grows.step (s : KState) (a : Step) : Grows s (stepWith gen mk P s a) := by
  cases a with
  | flush => simp only [stepWith]; split; exact Grows.refl s; exact Grows.flush P s
  | recv e => simp only [stepWith]; split; exact Grows.refl s; exact Grows.react gen mk P s e

theorem Grows.exec (s : KState) (steps : List Step) : Grows s (execWith gen mk P s steps) := by
  induction steps generalizing s with
  | nil => exact Grows.refl s
  | cons a r ih => rw [execWith_cons]; exact (Grows.step gen mk P s a).trans (ih _)

end growth

/-! ## 5. factoring a run through the layers present at its start -/

/-- Flag an entry as written through a cipher. -/
def flagged (f : Sent) : Sent := { f with encrypted := true }

theorem frameOfSent_flagged (z : ZlibOps) (ids : Ids) (f : Sent) :
    frameOfSent z ids (flagged f) = frameOfSent z ids f := rfl

/-- `b` is `a` run on top of the extra layers `base0` (as they were when `a` had written nothing):
same control state; `b`'s layers are `a`'s followed by the extra ones, moved on by everything `a`
handed to its "real socket"; `b`'s real socket got (after `w0`) exactly those chunks passed through
the extra layers; `b`'s log is (after `l0`) `a`'s, every entry flagged encrypted. -/
structure Fac (base0 : List KChan) (w0 : List Bytes) (l0 : List Sent) (a b : KState) : Prop where
  nDraws : b.nDraws = a.nDraws
  threshold : b.threshold = a.threshold
  reactor : b.reactor = a.reactor
  queue : b.queue = a.queue
  joins : b.joins = a.joins
  err : b.err = a.err
  layers : b.layers = a.layers ++ (updates stackSend base0 a.wire).1
  wire : b.wire = w0 ++ (updates stackSend base0 a.wire).2
  log : b.log = l0 ++ a.log.map flagged

theorem Fac.writeNow {base0 : List KChan} {w0 : List Bytes} {l0 : List Sent} {a b : KState}
    (hb : base0 ≠ []) (h : Fac base0 w0 l0 a b) (P : KeyParams) (p : ClientPkt) (f : Bool) :
    Fac base0 w0 l0 (a.writeNow P p f) (b.writeNow P p f) := by
  have hne : (a.layers ++ (updates stackSend base0 a.wire).1).isEmpty = false := by
    have := updates_stackSend_isEmpty base0 a.wire
    cases hb0 : base0 with
    | nil => exact absurd hb0 hb
    | cons c r =>
      rw [hb0] at this
      cases hu : (updates stackSend (c :: r) a.wire).1 with
      | nil => rw [hu] at this; simp at this
      | cons x y => simp
  refine ⟨h.nDraws, h.threshold, h.reactor, h.queue, h.joins, h.err, ?_, ?_, ?_⟩
  · simp only [KState.writeNow, h.layers, h.threshold, updates_stack_append, updates_append]
  · simp only [KState.writeNow, h.layers, h.threshold, h.wire, updates_stack_append, updates_append,
      List.append_assoc]
  · simp only [KState.writeNow, h.layers, h.threshold, h.log, hne, List.map_append, List.map_cons,
      List.map_nil, List.append_assoc, flagged, Bool.not_false]

theorem Fac.writeAll {base0 : List KChan} {w0 : List Bytes} {l0 : List Sent} {a b : KState}
    (hb : base0 ≠ []) (h : Fac base0 w0 l0 a b) (P : KeyParams) (ps : List ClientPkt) :
    Fac base0 w0 l0 (writeAll P a ps) (writeAll P b ps) := by
  induction ps generalizing a b with
  | nil => exact h
  | cons p ps ih => exact ih (h.writeNow hb P p false)

theorem Fac.flush {base0 : List KChan} {w0 : List Bytes} {l0 : List Sent} {a b : KState}
    (hb : base0 ≠ []) (h : Fac base0 w0 l0 a b) (P : KeyParams) :
    Fac base0 w0 l0 (a.flushQueue P) (b.flushQueue P) := by
  have := h.writeAll hb P a.queue
  rw [flushQueue_eq, flushQueue_eq, h.queue]
  exact ⟨this.nDraws, this.threshold, this.reactor, rfl, this.joins, this.err, this.layers,
    this.wire, this.log⟩

section fac
variable (gen : SecretGen) (mk : Bytes → Except Err KChan) (P : KeyParams)

theorem Fac.react {base0 : List KChan} {w0 : List Bytes} {l0 : List Sent} {a b : KState}
    (hb : base0 ≠ []) (h : Fac base0 w0 l0 a b) (e : LoginEv) :
    Fac base0 w0 l0 (reactWith gen mk P a e) (reactWith gen mk P b e) := by
  cases e with
  | setCompression t =>
    exact ⟨h.nDraws, rfl, h.reactor, h.queue, h.joins, h.err, h.layers, h.wire, h.log⟩
  | success => exact ⟨h.nDraws, h.threshold, rfl, h.queue, h.joins, h.err, h.layers, h.wire, h.log⟩
  | disconnect j =>
    exact ⟨h.nDraws, h.threshold, h.reactor, h.queue, h.joins, rfl, h.layers, h.wire, h.log⟩
  | pluginRequest i c d =>
    exact ⟨h.nDraws, h.threshold, h.reactor, by simp [reactWith, h.queue], h.joins, h.err,
      h.layers, h.wire, h.log⟩
  | encRequest sid pk tok =>
    let pre (s : KState) : KState :=
      if sid ≠ "-" then
        if P.base.hasToken then
          { s with nDraws := (gen P.rng s.nDraws).2,
                   joins := s.joins ++ [P.base.hash sid (gen P.rng s.nDraws).1 pk] }
        else { s with nDraws := (gen P.rng s.nDraws).2 }
      else { s with nDraws := (gen P.rng s.nDraws).2 }
    have h1 : Fac base0 w0 l0 (pre a) (pre b) := by
      simp only [pre, h.nDraws, h.joins]
      split <;> (try split) <;>
        exact ⟨rfl, h.threshold, h.reactor, h.queue, by simp, h.err, h.layers, h.wire, h.log⟩
    have h2 := h1.writeNow hb P
      (.encResp (P.base.rsa.enc pk (gen P.rng a.nDraws).1) (P.base.rsa.enc pk tok)) true
    show Fac base0 w0 l0
      (match mk (gen P.rng a.nDraws).1 with
        | .error e => { (pre a).writeNow P _ true with err := some (.cipher e) }
        | .ok c => { (pre a).writeNow P _ true with layers := c :: ((pre a).writeNow P _ true).layers })
      (match mk (gen P.rng b.nDraws).1 with
        | .error e => { (pre b).writeNow P _ true with err := some (.cipher e) }
        | .ok c => { (pre b).writeNow P _ true with layers := c :: ((pre b).writeNow P _ true).layers })
    rw [h.nDraws]
    cases mk (gen P.rng a.nDraws).1 with
    | error e =>
      exact ⟨h2.nDraws, h2.threshold, h2.reactor, h2.queue, h2.joins, rfl, h2.layers, h2.wire, h2.log⟩
    | ok c =>
      exact ⟨h2.nDraws, h2.threshold, h2.reactor, h2.queue, h2.joins, h2.err,
        by simp only [h2.layers, List.cons_append], h2.wire, h2.log⟩

theorem Fac.step {base0 : List KChan} {w0 : List Bytes} {l0 : List Sent} {a b : KState}
    (hb : base0 ≠ []) (h : Fac base0 w0 l0 a b) (x : Step) :
    Fac base0 w0 l0 (stepWith gen mk P a x) (stepWith gen mk P b x) := by
  cases x with
  | flush =>
    simp only [stepWith, h.err]
    split
    · exact h
    · exact h.flush hb P
  | recv e =>
    simp only [stepWith, h.err, h.reactor]
    split
    · exact h
    · exact h.react gen mk P hb e

theorem Fac.exec {base0 : List KChan} {w0 : List Bytes} {l0 : List Sent} {a b : KState}
    (hb : base0 ≠ []) (h : Fac base0 w0 l0 a b) (steps : List Step) :
    Fac base0 w0 l0 (execWith gen mk P a steps) (execWith gen mk P b steps) := by
  induction steps generalizing a b with
  | nil => exact h
  | cons x r ih => rw [execWith_cons, execWith_cons]; exact ih (h.step gen mk P hb x)

/-- The start of a factoring: `s` against `s` with its layers, wire and log taken away. -/
theorem Fac.start (s : KState) :
    Fac s.layers s.wire s.log { s with layers := [], wire := [], log := [] } s :=
  ⟨rfl, rfl, rfl, rfl, rfl, rfl, by simp [updates], by simp [updates], by simp⟩

end fac

/-! ### runs that install no cipher on a bare socket write plaintext frames -/

theorem sendsFlatten (z : ZlibOps) (thr : Option Int) (payload : Bytes) :
    (frameSends z thr payload).flatten = frame z thr payload := by
  simp [frameSends, frame]

/-- No layer and the log's frames are exactly what the real socket got. -/
def Bare (P : KeyParams) (s : KState) : Prop :=
  s.layers = [] ∧ s.wire.flatten = (s.log.map (frameOfSent P.z P.ids)).flatten ∧
    ∀ f ∈ s.log, f.encrypted = false

theorem Bare.writeNow {P : KeyParams} {s : KState} (h : Bare P s) (p : ClientPkt) (f : Bool) :
    Bare P (s.writeNow P p f) := by
  obtain ⟨h1, h2, h3⟩ := h
  refine ⟨?_, ?_, ?_⟩
  · simp [KState.writeNow, h1, updates_stackSend_nil]
  · simp only [KState.writeNow, h1, updates_stackSend_nil, List.flatten_append, h2, List.map_append,
      List.map_cons, List.map_nil, List.flatten_cons, List.flatten_nil, List.append_nil,
      sendsFlatten]
    rfl
  · intro g hg
    simp only [KState.writeNow, h1, List.mem_append, List.mem_singleton] at hg
    rcases hg with hg | hg
    · exact h3 g hg
    · subst hg; rfl

theorem Bare.writeAll {P : KeyParams} {s : KState} (h : Bare P s) (ps : List ClientPkt) :
    Bare P (writeAll P s ps) := by
  induction ps generalizing s with
  | nil => exact h
  | cons p ps ih => exact ih (h.writeNow p false)

theorem Bare.flush {P : KeyParams} {s : KState} (h : Bare P s) : Bare P (s.flushQueue P) :=
  h.writeAll s.queue

theorem Bare.exec (gen : SecretGen) (mk : Bytes → Except Err KChan) {P : KeyParams} {s : KState}
    (h : Bare P s) (steps : List Step) (hn : ∀ e ∈ events steps, e.isEncRequest = false) :
    Bare P (execWith gen mk P s steps) := by
  induction steps generalizing s with
  | nil => exact h
  | cons a r ih =>
    rw [execWith_cons]
    cases a with
    | flush =>
      apply ih _ (by simpa [events] using hn)
      simp only [stepWith]; split
      · exact h
      · exact h.flush
    | recv e =>
      simp only [events, List.mem_cons, forall_eq_or_imp] at hn
      apply ih _ hn.2
      simp only [stepWith]; split
      · exact h
      · cases e with
        | encRequest sid pk tok => exact absurd hn.1 (by simp [LoginEv.isEncRequest])
        | setCompression t => exact h
        | pluginRequest i c d => exact h
        | success => exact h
        | disconnect j => exact h

/-! ## 6. at most one cipher layer: the wire is `LoginWire.wireGo` of the log -/

/-- The encryptor register after the encrypted entries of an outbox, from `reg`. -/
def regAfter (z : ZlibOps) (E : Bytes → Bytes) (ids : Ids) : Bytes → List Sent → Bytes
  | reg, [] => reg
  | reg, s :: rest =>
    if s.encrypted then
      regAfter z E ids (encSends (cfb8EncX E) reg (sendsOfSent z ids s)).1 rest
    else regAfter z E ids reg rest

theorem wireGo_append (z : ZlibOps) (E : Bytes → Bytes) (ids : Ids) (reg : Bytes)
    (a b : List Sent) :
    wireGo z E ids reg (a ++ b) =
      wireGo z E ids reg a ++ wireGo z E ids (regAfter z E ids reg a) b := by
  induction a generalizing reg with
  | nil => rfl
  | cons f r ih =>
    by_cases hf : f.encrypted = true
    · simp [wireGo, regAfter, hf, ih]
    · simp [wireGo, regAfter, hf, ih]

theorem regAfter_append (z : ZlibOps) (E : Bytes → Bytes) (ids : Ids) (reg : Bytes)
    (a b : List Sent) :
    regAfter z E ids reg (a ++ b) = regAfter z E ids (regAfter z E ids reg a) b := by
  induction a generalizing reg with
  | nil => rfl
  | cons f r ih =>
    by_cases hf : f.encrypted = true
    · simp [regAfter, hf, ih]
    · simp [regAfter, hf, ih]

theorem regAfter_plain (z : ZlibOps) (E : Bytes → Bytes) (ids : Ids) (reg : Bytes) (l : List Sent)
    (h : ∀ f ∈ l, f.encrypted = false) : regAfter z E ids reg l = reg := by
  induction l with
  | nil => rfl
  | cons f r ih =>
    have hf := h f (by simp)
    simp only [regAfter, hf, Bool.false_eq_true, if_false]
    exact ih fun g hg => h g (by simp [hg])

theorem wireGo_allplain (z : ZlibOps) (E : Bytes → Bytes) (ids : Ids) (reg : Bytes) (l : List Sent)
    (h : ∀ f ∈ l, f.encrypted = false) :
    (wireGo z E ids reg l).flatten = (l.map (frameOfSent z ids)).flatten := by
  have := wireGo_plain_append z E ids l [] reg h
  simpa [wireGo] using this

/-- The `updates` of a one-layer stack is `encSends` on that layer's encryptor. -/
theorem updates_single (c : KChan) (cs : List Bytes) :
    updates stackSend [c] cs =
      ([⟨c.key, (encSends (cfb8EncX (aes128 c.key)) c.encReg cs).1, c.decReg⟩],
        (encSends (cfb8EncX (aes128 c.key)) c.encReg cs).2) := by
  induction cs generalizing c with
  | nil => rfl
  | cons x xs ih =>
    simp only [updates, stackSend_single, ih, encSends]
    rfl

/-- What holds of a run from a fresh connection at call number `n0`, by the number of draws made:
none (a bare socket), one (one layer keyed by draw `n0`, the wire being `wireGo` of the log), or
more.  `evs`: the events delivered so far. -/
structure One (P : KeyParams) (n0 : Nat) (evs : List LoginEv) (s : KState) : Prop where
  queue : ∀ p ∈ s.queue, isEncResp p = false
  cases :
    (s.nDraws = n0 ∧ Bare P s ∧ hasEncResp s.log = false) ∨
    (s.nDraws = n0 + 1 ∧
      s.layers = [⟨P.rng.draw n0,
        regAfter P.z (aes128 (P.rng.draw n0)) P.ids (P.rng.draw n0) s.log, P.rng.draw n0⟩] ∧
      s.wire.flatten = (wireGo P.z (aes128 (P.rng.draw n0)) P.ids (P.rng.draw n0) s.log).flatten ∧
      switchOK false s.log = true ∧ hasEncResp s.log = true ∧
      ∃ sid pk tok, LoginEv.encRequest sid pk tok ∈ evs ∧
        firstEncResp s.log =
          some (P.base.rsa.enc pk (P.rng.draw n0), P.base.rsa.enc pk tok)) ∨
    n0 + 2 ≤ s.nDraws

theorem One.init (P : KeyParams) (n0 : Nat) : One P n0 [] (.init n0) :=
  ⟨(by intro p hp; cases hp), Or.inl ⟨rfl, ⟨rfl, rfl, (by intro f hf; cases hf)⟩, rfl⟩⟩

theorem One.mono {P : KeyParams} {n0 : Nat} {evs evs' : List LoginEv} {s : KState}
    (h : One P n0 evs s) (hsub : ∀ e ∈ evs, e ∈ evs') : One P n0 evs' s := by
  refine ⟨h.queue, ?_⟩
  rcases h.cases with hA | hB | hC
  · exact Or.inl hA
  · obtain ⟨a, b, c, d, e, sid, pk, tok, hm, hf⟩ := hB
    exact Or.inr (Or.inl ⟨a, b, c, d, e, sid, pk, tok, hsub _ hm, hf⟩)
  · exact Or.inr (Or.inr hC)

theorem firstEncResp_append_left (a b : List Sent) (x : Bytes × Bytes)
    (h : firstEncResp a = some x) : firstEncResp (a ++ b) = some x := by
  induction a with
  | nil => cases h
  | cons f r ih =>
    cases hp : f.pkt with
    | encResp u v => simpa [firstEncResp, hp] using h
    | plugResp i s d =>
      simp only [List.cons_append, firstEncResp, hp] at h ⊢
      exact ih h

theorem One.writeNow {P : KeyParams} {n0 : Nat} {evs : List LoginEv} {s : KState}
    (h : One P n0 evs s) (p : ClientPkt) (hp : isEncResp p = false) (f : Bool) :
    One P n0 evs (s.writeNow P p f) := by
  refine ⟨h.queue, ?_⟩
  rcases h.cases with ⟨hn, hbare, hno⟩ | ⟨hn, hl, hw, hsw, hhas, horig⟩ | hC
  · refine Or.inl ⟨hn, hbare.writeNow p f, ?_⟩
    simp only [KState.writeNow, hasEncResp_append, hno, Bool.false_or]
    simp [hasEncResp, hp]
  · refine Or.inr (Or.inl ⟨hn, ?_, ?_, ?_, ?_, ?_⟩)
    · simp only [KState.writeNow, hl, updates_single, regAfter_append]
      simp [regAfter, sendsOfSent]
    · simp only [KState.writeNow, hl, updates_single, List.flatten_append, hw, wireGo_append]
      simp [wireGo, sendsOfSent]
    · simp only [KState.writeNow, hl, switchOK_append, hsw, hhas]
      simp [switchOK]
    · simp only [KState.writeNow, hasEncResp_append, hhas, Bool.true_or]
    · obtain ⟨sid, pk, tok, hm, hf⟩ := horig
      exact ⟨sid, pk, tok, hm, firstEncResp_append_left _ _ _ hf⟩
  · exact Or.inr (Or.inr hC)

theorem One.writeAll {P : KeyParams} {n0 : Nat} {evs : List LoginEv} {s : KState}
    (h : One P n0 evs s) (ps : List ClientPkt) (hps : ∀ p ∈ ps, isEncResp p = false) :
    One P n0 evs (writeAll P s ps) := by
  induction ps generalizing s with
  | nil => exact h
  | cons p ps ih =>
    exact ih (h.writeNow p (hps p (by simp)) false) fun q hq => hps q (by simp [hq])

theorem One.flush {P : KeyParams} {n0 : Nat} {evs : List LoginEv} {s : KState}
    (h : One P n0 evs s) : One P n0 evs (s.flushQueue P) := by
  have := h.writeAll s.queue h.queue
  exact ⟨(by intro p hp; cases hp), this.cases⟩

theorem One.react {P : KeyParams} {n0 : Nat} {evs : List LoginEv} {s : KState}
    (h : One P n0 evs s) (e : LoginEv) : One P n0 (evs ++ [e]) (reactK P s e) := by
  have hmono : One P n0 (evs ++ [e]) s := h.mono fun x hx => by simp [hx]
  cases e with
  | setCompression t =>
    refine ⟨hmono.queue, ?_⟩
    rcases hmono.cases with ⟨a, ⟨b1, b2, b3⟩, c⟩ | hB | hC
    · exact Or.inl ⟨a, ⟨b1, b2, b3⟩, c⟩
    · exact Or.inr (Or.inl hB)
    · exact Or.inr (Or.inr hC)
  | success =>
    refine ⟨hmono.queue, ?_⟩
    rcases hmono.cases with ⟨a, ⟨b1, b2, b3⟩, c⟩ | hB | hC
    · exact Or.inl ⟨a, ⟨b1, b2, b3⟩, c⟩
    · exact Or.inr (Or.inl hB)
    · exact Or.inr (Or.inr hC)
  | disconnect j =>
    refine ⟨hmono.queue, ?_⟩
    rcases hmono.cases with ⟨a, ⟨b1, b2, b3⟩, c⟩ | hB | hC
    · exact Or.inl ⟨a, ⟨b1, b2, b3⟩, c⟩
    · exact Or.inr (Or.inl hB)
    · exact Or.inr (Or.inr hC)
  | pluginRequest i c d =>
    refine ⟨?_, ?_⟩
    · intro p hp
      have hp' : p ∈ s.queue ++ [pluginReply P.base i c d] := hp
      rcases List.mem_append.mp hp' with hp' | hp'
      · exact h.queue p hp'
      · simp only [List.mem_singleton] at hp'
        subst hp'
        unfold pluginReply
        cases P.base.handler i c d <;> rfl
    · rcases hmono.cases with ⟨a, ⟨b1, b2, b3⟩, c⟩ | hB | hC
      · exact Or.inl ⟨a, ⟨b1, b2, b3⟩, c⟩
      · exact Or.inr (Or.inl hB)
      · exact Or.inr (Or.inr hC)
  | encRequest sid pk tok =>
    rw [reactK_encRequest]
    refine ⟨h.queue, ?_⟩
    rcases h.cases with ⟨hn, ⟨hl, hw, hfl⟩, hno⟩ | ⟨hn, _⟩ | hC
    · -- the first request: the reply goes out in plaintext, then one layer keyed by draw `n0`
      have hn' : s.nDraws = n0 := hn
      have hflags : ∀ f ∈ s.log ++
          [(⟨replyOf P (P.rng.draw n0) pk tok, false, s.threshold, true⟩ : Sent)],
          f.encrypted = false := by
        intro f hf
        rcases List.mem_append.mp hf with hf | hf
        · exact hfl f hf
        · simp only [List.mem_singleton] at hf; subst hf; rfl
      have hnoenc : ∀ f ∈ s.log, f.encrypted = false ∧ isEncResp f.pkt = false := by
        intro f hf
        refine ⟨hfl f hf, ?_⟩
        simp only [hasEncResp, List.any_eq_false] at hno
        simpa using hno f hf
      refine Or.inr (Or.inl ⟨by simp [hn'], ?_, ?_, ?_, ?_, ?_⟩)
      · simp only [hn', hl, updates_stackSend_nil, List.isEmpty_nil, Bool.not_true]
        rw [regAfter_plain _ _ _ _ _ hflags]
      · simp only [hn', hl, updates_stackSend_nil, List.isEmpty_nil, Bool.not_true,
          List.flatten_append, hw]
        rw [wireGo_allplain _ _ _ _ _ hflags]
        simp only [List.map_append, List.flatten_append, List.map_cons, List.map_nil,
          List.flatten_cons, List.flatten_nil, List.append_nil, sendsFlatten]
        rfl
      · simp only [hn', hl, List.isEmpty_nil, Bool.not_true, switchOK_append,
          switchOK_const false s.log hnoenc, hno]
        simp [switchOK]
      · simp only [hasEncResp_append]
        simp [hasEncResp, isEncResp, replyOf]
      · exact ⟨sid, pk, tok, by simp, by
          simp only [hn', hl, List.isEmpty_nil, Bool.not_true]
          exact firstEncResp_append _ _ _ _ _ hno rfl⟩
    · exact Or.inr (Or.inr (by simp only []; omega))
    · exact Or.inr (Or.inr (by simp only []; omega))

theorem One.step {P : KeyParams} {n0 : Nat} {evs : List LoginEv} {s : KState}
    (h : One P n0 evs s) (a : Step) : One P n0 (evs ++ events [a]) (stepK P s a) := by
  cases a with
  | flush =>
    simp only [events, List.append_nil, stepWith]
    split
    · exact h
    · exact h.flush
  | recv e =>
    simp only [events, stepWith]
    split
    · exact h.mono fun x hx => by simp [hx]
    · exact h.react e

theorem One.exec {P : KeyParams} {n0 : Nat} {evs : List LoginEv} {s : KState}
    (h : One P n0 evs s) (steps : List Step) :
    One P n0 (evs ++ events steps) (execK P s steps) := by
  induction steps generalizing s evs with
  | nil => simpa [events, execWith_nil] using h
  | cons a r ih =>
    show One P n0 _ (execWith genUrandom KChan.create P s (a :: r))
    rw [execWith_cons]
    have := ih (h.step a)
    have he : evs ++ events [a] ++ events r = evs ++ events (a :: r) := by
      rw [List.append_assoc, ← events_append]; rfl
    rw [he] at this; exact this

theorem one_execK (P : KeyParams) (n0 : Nat) (steps : List Step) :
    One P n0 (events steps) (execK P (.init n0) steps) := by
  simpa using (One.init P n0).exec steps

/-! ## 7. a request in the middle of a run; several logins -/

theorem execK_mid (P : KeyParams) (s : KState) (pre post : List Step) (e : LoginEv)
    (h : s.alive = true) (hpre : ∀ e ∈ events pre, e.isTerminal = false) :
    execK P s (pre ++ .recv e :: post) = execK P (reactK P (execK P s pre) e) post := by
  show execWith genUrandom KChan.create P s (pre ++ .recv e :: post) = _
  rw [execWith_append, execWith_cons,
    stepWith_recv_alive genUrandom KChan.create P _ e (execK_alive P s pre h hpre)]

theorem range'_map_snoc (f : Nat → Bytes) (n k : Nat) :
    (List.range' n k).map f ++ [f (n + k)] = (List.range' n (k + 1)).map f := by
  rw [List.range'_concat]; simp

/-- The `k`-th reached request of a login uses draw number `n0 + k` — in the reply, in the `join`
hash and as the `k`-th installed key — and nothing written afterwards removes any of it. -/
theorem fresh_at_request (P : KeyParams) (n0 : Nat) (pre post : List Step) (sid : String)
    (pk tok : Bytes) (hpre : ∀ e ∈ events pre, e.isTerminal = false) :
    (execK P (.init n0) pre).nDraws = n0 + (reqs (events pre)).length ∧
    (∃ later, (execK P (.init n0) (pre ++ .recv (.encRequest sid pk tok) :: post)).log =
      (execK P (.init n0) pre).log ++
        ⟨replyOf P (P.rng.draw (n0 + (reqs (events pre)).length)) pk tok,
          !(execK P (.init n0) pre).layers.isEmpty, (execK P (.init n0) pre).threshold, true⟩ ::
          later) ∧
    (∃ later, (execK P (.init n0) (pre ++ .recv (.encRequest sid pk tok) :: post)).joins =
      (execK P (.init n0) pre).joins ++
        joinOf P (P.rng.draw (n0 + (reqs (events pre)).length)) sid pk ++ later) ∧
    (∃ later, (execK P (.init n0) (pre ++ .recv (.encRequest sid pk tok) :: post)).keys =
      (List.range' n0 ((reqs (events pre)).length + 1)).map P.rng.draw ++ later) := by
  obtain ⟨hn, hk⟩ := keys_execK P n0 pre
  rw [processed_of_live _ hpre] at hn hk
  rw [execK_mid P _ pre post _ (init_alive n0) hpre]
  have hg := Grows.exec genUrandom KChan.create P
    (reactK P (execK P (.init n0) pre) (.encRequest sid pk tok)) post
  obtain ⟨⟨l, hl⟩, ⟨j, hj⟩, ⟨ks, hks⟩, _⟩ := hg
  have hkr := keys_reactK P (execK P (.init n0) pre) (.encRequest sid pk tok)
  simp only [drawUpd, Prod.mk.injEq] at hkr
  refine ⟨hn, ⟨l, ?_⟩, ⟨j, ?_⟩, ⟨ks, ?_⟩⟩
  · show (execWith genUrandom KChan.create P _ post).log = _
    rw [hl, reactK_encRequest, hn]; simp
  · show (execWith genUrandom KChan.create P _ post).joins = _
    rw [hj, reactK_encRequest, hn]
  · show (execWith genUrandom KChan.create P _ post).keys = _
    rw [hks, hkr.2, hk, hn, range'_map_snoc]

/-- The run after an encryption request, factored through the layers in place right after it
(`Fac.exec` from `Fac.start`). -/
theorem factor_after (gen : SecretGen) (mk : Bytes → Except Err KChan) (P : KeyParams)
    (s : KState) (hl : s.layers ≠ []) (steps : List Step) :
    (execWith gen mk P s steps).wire =
        s.wire ++ (updates stackSend s.layers
          (execWith gen mk P { s with layers := [], wire := [], log := [] } steps).wire).2 ∧
      (execWith gen mk P s steps).log =
        s.log ++ (execWith gen mk P { s with layers := [], wire := [], log := [] } steps).log.map
          flagged ∧
      (execWith gen mk P s steps).layers =
        (execWith gen mk P { s with layers := [], wire := [], log := [] } steps).layers ++
          (updates stackSend s.layers
            (execWith gen mk P { s with layers := [], wire := [], log := [] } steps).wire).1 := by
  have h := (Fac.start s).exec gen mk P hl steps
  exact ⟨h.wire, h.log, h.layers⟩

theorem bare_start (P : KeyParams) (s : KState) :
    Bare P { s with layers := [], wire := [], log := [] } :=
  ⟨rfl, rfl, by intro f hf; cases hf⟩

/-! ### several logins -/

theorem drawIdxs_ge (n : Nat) (l : List (Nat × Nat)) : ∀ i ∈ drawIdxs n l, n ≤ i := by
  induction l generalizing n with
  | nil => intro i hi; cases hi
  | cons x rest ih =>
    obtain ⟨gap, k⟩ := x
    intro i hi
    simp only [drawIdxs, List.mem_append, List.mem_range'_1] at hi
    rcases hi with hi | hi
    · omega
    · have := ih _ i hi; omega

theorem drawIdxs_pairwise (n : Nat) (l : List (Nat × Nat)) : (drawIdxs n l).Pairwise (· < ·) := by
  induction l generalizing n with
  | nil => exact List.Pairwise.nil
  | cons x rest ih =>
    obtain ⟨gap, k⟩ := x
    simp only [drawIdxs]
    rw [List.pairwise_append]
    refine ⟨List.pairwise_lt_range', ih _, ?_⟩
    intro a ha b hb
    have := drawIdxs_ge _ _ b hb
    simp only [List.mem_range'_1] at ha
    omega

/-- All keys installed by a sequence of logins, in order, are the draws with the indices
`drawIdxs`. -/
theorem logins_keys (P : KeyParams) (n : Nat) (runs : List (Nat × List Step)) :
    (logins P n runs).flatMap KState.keys =
      (drawIdxs n (runs.map fun r => (r.1, (reqs (processed (events r.2))).length))).map
        P.rng.draw := by
  induction runs generalizing n with
  | nil => rfl
  | cons r rest ih =>
    obtain ⟨gap, steps⟩ := r
    obtain ⟨hn, hk⟩ := keys_execK P (n + gap) steps
    show (execK P (.init (n + gap)) steps).keys ++
      (logins P (execK P (.init (n + gap)) steps).nDraws rest).flatMap KState.keys = _
    rw [hn, ih, hk]
    simp [drawIdxs]

/-! ## 8. RSAES-PKCS1-v1_5 -/

theorem snoc_induction {α : Type} {p : List α → Prop} (h0 : p [])
    (h1 : ∀ l a, p l → p (l ++ [a])) : ∀ l, p l := by
  intro l
  have : ∀ r : List α, p r.reverse := by
    intro r
    induction r with
    | nil => exact h0
    | cons a r ih => rw [List.reverse_cons]; exact h1 _ _ ih
  simpa using this l.reverse

theorem os2ip_snoc (bs : Bytes) (b : UInt8) : os2ip (bs ++ [b]) = 256 * os2ip bs + b.toNat := by
  simp [os2ip, List.foldl_append]

theorem os2ip_zero_cons (r : Bytes) : os2ip (0 :: r) = os2ip r := by
  simp [os2ip]

theorem toBE_length (x k : Nat) : (toBE x k).length = k := by
  induction k generalizing x with
  | zero => rfl
  | succ k ih => simp [toBE, ih]

theorem os2ip_lt (bs : Bytes) : os2ip bs < 256 ^ bs.length := by
  induction bs using snoc_induction with
  | h0 => simp [os2ip]
  | h1 bs b ih =>
    have hb : b.toNat < 256 := b.toNat_lt
    rw [os2ip_snoc, List.length_append, List.length_singleton, Nat.pow_succ]
    omega

theorem toBE_os2ip (bs : Bytes) : toBE (os2ip bs) bs.length = bs := by
  induction bs using snoc_induction with
  | h0 => rfl
  | h1 bs b ih =>
    have hb : b.toNat < 256 := b.toNat_lt
    rw [os2ip_snoc, List.length_append, List.length_singleton]
    have h1 : (256 * os2ip bs + b.toNat) / 256 = os2ip bs := by omega
    have h2 : (256 * os2ip bs + b.toNat) % 256 = b.toNat := by omega
    simp only [toBE, h1, h2, ih, UInt8.ofNat_toNat]

theorem os2ip_toBE (x k : Nat) (h : x < 256 ^ k) : os2ip (toBE x k) = x := by
  induction k generalizing x with
  | zero => simp at h; simp [toBE, os2ip, h]
  | succ k ih =>
    have hd : x / 256 < 256 ^ k := by
      rw [Nat.pow_succ] at h
      exact Nat.div_lt_of_lt_mul (by rw [Nat.mul_comm]; exact h)
    simp only [toBE, os2ip_snoc, ih _ hd, UInt8.toNat_ofNat']
    omega

theorem dropWhile_ps (ps m : Bytes) (h : ∀ b ∈ ps, b ≠ 0) :
    (ps ++ 0 :: m).dropWhile (· ≠ 0) = 0 :: m ∧ (ps ++ 0 :: m).takeWhile (· ≠ 0) = ps := by
  induction ps with
  | nil => simp
  | cons a r ih =>
    have ha : a ≠ 0 := h a (by simp)
    obtain ⟨i1, i2⟩ := ih fun b hb => h b (by simp [hb])
    have hpa : decide (a ≠ 0) = true := by simp [ha]
    simp only [List.cons_append, List.dropWhile_cons, List.takeWhile_cons, hpa, if_true, i1, i2,
      and_self]

theorem emeDecode_encode (k : Nat) (ps m : Bytes) (hps : PsOK k ps m) (hm : m.length + 11 ≤ k) :
    emeEncode k ps m = .ok ([0x00, 0x02] ++ ps ++ [0x00] ++ m) ∧
      ([0x00, 0x02] ++ ps ++ [0x00] ++ m : Bytes).length = k ∧
      emeDecode ([0x00, 0x02] ++ ps ++ [0x00] ++ m) = .ok m := by
  obtain ⟨hl, hnz⟩ := hps
  obtain ⟨d1, d2⟩ := dropWhile_ps ps m hnz
  refine ⟨by simp [emeEncode, hm], by simp [List.length_append]; omega, ?_⟩
  have h8 : 8 ≤ ps.length := by omega
  simp only [List.cons_append, List.nil_append, List.append_assoc, emeDecode, d1, d2, h8, and_self,
    if_true]

/-- The law `Model/Login.lean` assumes of RSA, derived: whatever (lawful) padding string the
library draws, the holder of the private key gets the message back exactly; the ciphertext has the
length of the modulus. -/
theorem rsaes_dec_enc (T : Trapdoor) (ps m : Bytes) (hps : PsOK T.k ps m)
    (hm : m.length + 11 ≤ T.k) :
    ∃ c, rsaesEncrypt T ps m = .ok c ∧ c.length = T.k ∧ rsaesDecrypt T c = .ok m := by
  obtain ⟨e1, e2, e3⟩ := emeDecode_encode T.k ps m hps hm
  have hx : os2ip ([0x00, 0x02] ++ ps ++ [0x00] ++ m : Bytes) < T.n := by
    have h0 : ([0x00, 0x02] ++ ps ++ [0x00] ++ m : Bytes) = 0 :: ([0x02] ++ ps ++ [0x00] ++ m) := rfl
    rw [h0, os2ip_zero_cons]
    have hlen : ([0x02] ++ ps ++ [0x00] ++ m : Bytes).length = T.k - 1 := by
      rw [h0] at e2; simp only [List.length_cons] at e2; omega
    have := os2ip_lt ([0x02] ++ ps ++ [0x00] ++ m : Bytes)
    rw [hlen] at this
    exact Nat.lt_of_lt_of_le this T.n_lo
  have hf := T.f_lt _ hx
  have hfk : T.f (os2ip ([0x00, 0x02] ++ ps ++ [0x00] ++ m : Bytes)) < 256 ^ T.k :=
    Nat.lt_trans hf T.n_hi
  refine ⟨toBE (T.f (os2ip ([0x00, 0x02] ++ ps ++ [0x00] ++ m : Bytes))) T.k, ?_, toBE_length _ _, ?_⟩
  · simp only [rsaesEncrypt, e1, hx, if_true, i2osp, hfk]
  · have hk : 11 ≤ T.k := by omega
    have hxk : os2ip ([0x00, 0x02] ++ ps ++ [0x00] ++ m : Bytes) < 256 ^ T.k :=
      Nat.lt_trans hx T.n_hi
    simp only [rsaesDecrypt, toBE_length, hk, and_self, if_true, os2ip_toBE _ _ hfk, hf, T.inv _ hx,
      i2osp, hxk]
    have := toBE_os2ip ([0x00, 0x02] ++ ps ++ [0x00] ++ m : Bytes)
    rw [e2] at this
    rw [this, e3]

theorem rsaes_too_long (T : Trapdoor) (ps m : Bytes) (h : T.k < m.length + 11) :
    rsaesEncrypt T ps m = .error .value := by
  have : ¬ m.length + 11 ≤ T.k := by omega
  simp [rsaesEncrypt, emeEncode, this]

/-! ## 9. final forms used by the property theorems -/

theorem cfb8Enc_reg_window (E : Bytes → Bytes) (iv p : Bytes) (hiv : iv ≠ []) :
    (cfb8Enc E iv p).1 = (iv ++ (cfb8Enc E iv p).2).drop p.length := by
  induction p generalizing iv with
  | nil => simp [cfb8Enc_nil]
  | cons x ps ih =>
    cases iv with
    | nil => exact absurd rfl hiv
    | cons v vs =>
      have := ih (cfb8Shift (v :: vs) (x ^^^ cfb8Key E (v :: vs))) (by simp [cfb8Shift])
      simp only [cfb8Enc_cons, this, List.length_cons, List.cons_append, List.drop_succ_cons]
      simp [cfb8Shift, List.append_assoc]

/-- The flattened wire right after a request and for the whole continuation (see
`C18Keys.wire_after_request`). -/
theorem wire_after_request_aux (P : KeyParams) (s : KState) (hs : s.alive = true) (sid : String)
    (pk tok : Bytes) (post : List Step) :
    execK P s (.recv (.encRequest sid pk tok) :: post) =
        execK P (reactK P s (.encRequest sid pk tok)) post ∧
      (execK P (reactK P s (.encRequest sid pk tok)) post).wire.flatten =
        (reactK P s (.encRequest sid pk tok)).wire.flatten ++
          (stackSend (reactK P s (.encRequest sid pk tok)).layers
            (execK P { reactK P s (.encRequest sid pk tok) with layers := [], wire := [], log := [] }
              post).wire.flatten).2 ∧
      (execK P (reactK P s (.encRequest sid pk tok)) post).log =
        (reactK P s (.encRequest sid pk tok)).log ++
          (execK P { reactK P s (.encRequest sid pk tok) with layers := [], wire := [], log := [] }
            post).log.map flagged := by
  have h0 : execK P s (.recv (.encRequest sid pk tok) :: post) =
      execK P (reactK P s (.encRequest sid pk tok)) post := by
    show execWith genUrandom KChan.create P s (_ :: post) = _
    rw [execWith_cons, stepWith_recv_alive genUrandom KChan.create P s _ hs]
  have hl : (reactK P s (.encRequest sid pk tok)).layers ≠ [] := by
    rw [reactK_encRequest]; simp
  obtain ⟨f1, f2, -⟩ := factor_after genUrandom KChan.create P _ hl post
  refine ⟨h0, ?_, f2⟩
  show (execWith genUrandom KChan.create P _ post).wire.flatten = _
  rw [f1, List.flatten_append]
  congr 1
  exact congrArg Prod.snd (updates_stack_flatten _ _)

theorem nDraws_noreq (gen : SecretGen) (mk : Bytes → Except Err KChan) (P : KeyParams) (s : KState)
    (steps : List Step) (hn : ∀ e ∈ events steps, e.isEncRequest = false) :
    (execWith gen mk P s steps).nDraws = s.nDraws ∧
      (execWith gen mk P s steps).layers.isEmpty = s.layers.isEmpty := by
  induction steps generalizing s with
  | nil => exact ⟨rfl, rfl⟩
  | cons a r ih =>
    rw [execWith_cons]
    cases a with
    | flush =>
      obtain ⟨i1, i2⟩ := ih (stepWith gen mk P s .flush) (by simpa [events] using hn)
      rw [i1, i2]
      simp only [stepWith]; split
      · exact ⟨rfl, rfl⟩
      · refine ⟨(flushQueue_fields P s).1, ?_⟩
        have := congrArg List.length (flushQueue_fields P s).2.2.2.2.2.2
        simp only [List.length_map] at this
        cases h1 : (s.flushQueue P).layers <;> cases h2 : s.layers <;> simp_all
    | recv e =>
      simp only [events, List.mem_cons, forall_eq_or_imp] at hn
      obtain ⟨i1, i2⟩ := ih (stepWith gen mk P s (.recv e)) hn.2
      rw [i1, i2]
      simp only [stepWith]; split
      · exact ⟨rfl, rfl⟩
      · cases e with
        | encRequest sid pk tok => exact absurd hn.1 (by simp [LoginEv.isEncRequest])
        | setCompression t => exact ⟨rfl, rfl⟩
        | pluginRequest i c d => exact ⟨rfl, rfl⟩
        | success => exact ⟨rfl, rfl⟩
        | disconnect j => exact ⟨rfl, rfl⟩

/-- With at most one reached request the wire is `LoginWire.wireBytes` of the log under AES keyed
by draw `n0`, register = draw `n0`, and the log has the switch discipline. -/
theorem one_layer_final (P : KeyParams) (n0 : Nat) (steps : List Step)
    (h1 : (reqs (processed (events steps))).length ≤ 1) :
    (execK P (.init n0) steps).wire.flatten =
        wireBytes P.z (aes128 (P.rng.draw n0)) (P.rng.draw n0) P.ids
          (execK P (.init n0) steps).log ∧
      switchOK false (execK P (.init n0) steps).log = true ∧
      (((execK P (.init n0) steps).keys = [] ∧ hasEncResp (execK P (.init n0) steps).log = false) ∨
        ((execK P (.init n0) steps).keys = [P.rng.draw n0] ∧
          hasEncResp (execK P (.init n0) steps).log = true ∧
          ∃ sid pk tok, LoginEv.encRequest sid pk tok ∈ events steps ∧
            firstEncResp (execK P (.init n0) steps).log =
              some (P.base.rsa.enc pk (P.rng.draw n0), P.base.rsa.enc pk tok))) := by
  have hone := one_execK P n0 steps
  obtain ⟨hn, -⟩ := keys_execK P n0 steps
  rcases hone.cases with ⟨_, ⟨hl, hw, hfl⟩, hno⟩ | ⟨_, hl, hw, hsw, hhas, horig⟩ | hC
  · have hnoenc : ∀ f ∈ (execK P (.init n0) steps).log,
        f.encrypted = false ∧ isEncResp f.pkt = false := by
      intro f hf
      refine ⟨hfl f hf, ?_⟩
      simp only [hasEncResp, List.any_eq_false] at hno
      simpa using hno f hf
    refine ⟨?_, switchOK_const false _ hnoenc, Or.inl ⟨by simp [KState.keys, hl], hno⟩⟩
    rw [hw]; exact (wireGo_allplain _ _ _ _ _ hfl).symm
  · exact ⟨hw, hsw, Or.inr ⟨by simp [KState.keys, hl], hhas, horig⟩⟩
  · omega

/-! ### one and two requests, written out -/

theorem map_frames_flagged (z : ZlibOps) (ids : Ids) (l : List Sent) :
    (l.map flagged).map (frameOfSent z ids) = l.map (frameOfSent z ids) := by
  rw [List.map_map]; rfl

theorem flagged_all (l : List Sent) : ∀ f ∈ l.map flagged, f.encrypted = true := by
  intro f hf
  obtain ⟨g, _, rfl⟩ := List.mem_map.mp hf
  rfl

/-- The first request on a bare, alive connection: everything about the state right after it, and
the continuation factored through the one new layer. -/
theorem first_request_aux (P : KeyParams) (s : KState) (hs : s.alive = true) (hb : Bare P s)
    (sid : String) (pk tok : Bytes) (post : List Step) :
    let d := P.rng.draw s.nDraws
    let a0 : KState := { reactK P s (.encRequest sid pk tok) with layers := [], wire := [], log := [] }
    a0.alive = true ∧ Bare P a0 ∧ a0.nDraws = s.nDraws + 1 ∧ a0.threshold = s.threshold ∧
    (execK P (reactK P s (.encRequest sid pk tok)) post).wire.flatten =
      (s.log.map (frameOfSent P.z P.ids)).flatten ++
        frame P.z s.threshold (payloadOf P.ids (replyOf P d pk tok)) ++
        (cfb8Enc (aes128 d) d (execK P a0 post).wire.flatten).2 ∧
    (execK P (reactK P s (.encRequest sid pk tok)) post).log =
      s.log ++ ⟨replyOf P d pk tok, false, s.threshold, true⟩ :: (execK P a0 post).log.map flagged := by
  intro d a0
  obtain ⟨hl, hw, hfl⟩ := hb
  obtain ⟨-, w, l⟩ := wire_after_request_aux P s hs sid pk tok post
  have hr := reactK_encRequest P s sid pk tok
  have ha0 : a0 = { reactK P s (.encRequest sid pk tok) with layers := [], wire := [], log := [] } := rfl
  refine ⟨?_, bare_start P _, ?_, ?_, ?_, ?_⟩
  · rw [ha0, hr]; exact hs
  · rw [ha0, hr]
  · rw [ha0, hr]
  · rw [w]
    simp only [a0, d, hr, hl, updates_stackSend_nil, List.flatten_append, hw, sendsFlatten,
      stackSend_single]
  · rw [l]
    simp only [a0, d, hr, hl, List.isEmpty_nil, Bool.not_true, List.append_assoc,
      List.singleton_append]

theorem bare_init (P : KeyParams) (n : Nat) : Bare P (.init n) :=
  ⟨rfl, rfl, by intro f hf; cases hf⟩

/-- One request on a bare connection and no further one: the explicit wire. -/
theorem single_layer_aux (P : KeyParams) (s : KState) (hs : s.alive = true) (hb : Bare P s)
    (sid : String) (pk tok : Bytes) (post : List Step)
    (hpost : ∀ e ∈ events post, e.isEncRequest = false) :
    ∃ later, (execK P s (.recv (.encRequest sid pk tok) :: post)).log =
        s.log ++ ⟨replyOf P (P.rng.draw s.nDraws) pk tok, false, s.threshold, true⟩ :: later ∧
      (∀ f ∈ later, f.encrypted = true) ∧
      (execK P s (.recv (.encRequest sid pk tok) :: post)).wire.flatten =
        (s.log.map (frameOfSent P.z P.ids)).flatten ++
          frame P.z s.threshold (payloadOf P.ids (replyOf P (P.rng.draw s.nDraws) pk tok)) ++
          (cfb8Enc (aes128 (P.rng.draw s.nDraws)) (P.rng.draw s.nDraws)
            (later.map (frameOfSent P.z P.ids)).flatten).2 := by
  obtain ⟨h0, -, -⟩ := wire_after_request_aux P s hs sid pk tok post
  obtain ⟨-, hba, -, -, W, L⟩ := first_request_aux P s hs hb sid pk tok post
  have hin := Bare.exec genUrandom KChan.create hba post hpost
  refine ⟨_, by rw [h0]; exact L, flagged_all _, ?_⟩
  rw [h0, W, map_frames_flagged, hin.2.1]

/-- Two requests in one login (nothing terminal before the second, no third): the explicit wire —
the first cipher encrypts, as one stream, the frames written between the requests, the SECOND reply
and the second cipher's output. -/
theorem two_requests_aux (P : KeyParams) (n0 : Nat) (pre mid post : List Step)
    (sid1 : String) (pk1 tok1 : Bytes) (sid2 : String) (pk2 tok2 : Bytes)
    (hpre : ∀ e ∈ events pre, e.isTerminal = false ∧ e.isEncRequest = false)
    (hmid : ∀ e ∈ events mid, e.isTerminal = false ∧ e.isEncRequest = false)
    (hpost : ∀ e ∈ events post, e.isEncRequest = false) :
    ∃ (thr2 : Option Int) (L1 L2 : List Sent),
      (execK P (.init n0) (pre ++ .recv (.encRequest sid1 pk1 tok1) ::
          (mid ++ .recv (.encRequest sid2 pk2 tok2) :: post))).log =
        (execK P (.init n0) pre).log ++
          ⟨replyOf P (P.rng.draw n0) pk1 tok1, false, (execK P (.init n0) pre).threshold, true⟩ ::
          (L1 ++ ⟨replyOf P (P.rng.draw (n0 + 1)) pk2 tok2, true, thr2, true⟩ :: L2) ∧
      (∀ f ∈ L1, f.encrypted = true) ∧ (∀ f ∈ L2, f.encrypted = true) ∧
      (execK P (.init n0) (pre ++ .recv (.encRequest sid1 pk1 tok1) ::
          (mid ++ .recv (.encRequest sid2 pk2 tok2) :: post))).wire.flatten =
        ((execK P (.init n0) pre).log.map (frameOfSent P.z P.ids)).flatten ++
          frame P.z (execK P (.init n0) pre).threshold
            (payloadOf P.ids (replyOf P (P.rng.draw n0) pk1 tok1)) ++
          (cfb8Enc (aes128 (P.rng.draw n0)) (P.rng.draw n0)
            ((L1.map (frameOfSent P.z P.ids)).flatten ++
              frame P.z thr2 (payloadOf P.ids (replyOf P (P.rng.draw (n0 + 1)) pk2 tok2)) ++
              (cfb8Enc (aes128 (P.rng.draw (n0 + 1))) (P.rng.draw (n0 + 1))
                (L2.map (frameOfSent P.z P.ids)).flatten).2)).2 := by
  have hb0 : Bare P (execK P (.init n0) pre) :=
    Bare.exec genUrandom KChan.create (bare_init P n0) pre fun e he => (hpre e he).2
  have al0 : (execK P (.init n0) pre).alive = true :=
    execK_alive P _ pre (init_alive n0) fun e he => (hpre e he).1
  have n0eq : (execK P (.init n0) pre).nDraws = n0 :=
    (nDraws_noreq genUrandom KChan.create P _ pre fun e he => (hpre e he).2).1
  rw [execK_mid P _ pre _ _ (init_alive n0) fun e he => (hpre e he).1]
  obtain ⟨ala, hba, nda, -, W, L⟩ := first_request_aux P _ al0 hb0 sid1 pk1 tok1
    (mid ++ .recv (.encRequest sid2 pk2 tok2) :: post)
  rw [n0eq] at nda W L
  generalize ha0 : ({ reactK P (execK P (.init n0) pre) (.encRequest sid1 pk1 tok1) with
    layers := [], wire := [], log := [] } : KState) = a0 at ala hba nda W L
  rw [execK_mid P a0 mid post _ ala fun e he => (hmid e he).1] at W L
  have hbm : Bare P (execK P a0 mid) :=
    Bare.exec genUrandom KChan.create hba mid fun e he => (hmid e he).2
  have alm : (execK P a0 mid).alive = true :=
    execK_alive P _ mid ala fun e he => (hmid e he).1
  have ndm : (execK P a0 mid).nDraws = n0 + 1 := by
    rw [(nDraws_noreq genUrandom KChan.create P a0 mid fun e he => (hmid e he).2).1, nda]
  obtain ⟨-, hbb, -, -, W2, L2⟩ := first_request_aux P _ alm hbm sid2 pk2 tok2 post
  rw [ndm] at W2 L2
  generalize hb0' : ({ reactK P (execK P a0 mid) (.encRequest sid2 pk2 tok2) with
    layers := [], wire := [], log := [] } : KState) = b0 at hbb W2 L2
  have hin := Bare.exec genUrandom KChan.create hbb post hpost
  refine ⟨(execK P a0 mid).threshold, (execK P a0 mid).log.map flagged,
    ((execK P b0 post).log.map flagged).map flagged, ?_, flagged_all _, flagged_all _, ?_⟩
  · rw [L, L2]
    simp only [List.map_append, List.map_cons, flagged]
  · rw [W, W2, map_frames_flagged, map_frames_flagged, map_frames_flagged, hin.2.1]

/-- The reactor as it is never ends with the `ValueError` of `create_AES_cipher`. -/
theorem err_not_cipher (P : KeyParams) (s : KState) (steps : List Step)
    (h : ∀ e, s.err ≠ some (.cipher e)) : ∀ e, (execK P s steps).err ≠ some (.cipher e) := by
  induction steps generalizing s with
  | nil => exact h
  | cons a r ih =>
    show ∀ e, (execWith genUrandom KChan.create P s (a :: r)).err ≠ _
    rw [execWith_cons]
    apply ih
    cases a with
    | flush =>
      simp only [stepWith]; split
      · exact h
      · rw [(flushQueue_fields P s).2.2.2.2.2.1]; exact h
    | recv e =>
      simp only [stepWith]; split
      · exact h
      · cases e with
        | encRequest sid pk tok =>
          show ∀ e, (reactK P s (.encRequest sid pk tok)).err ≠ _
          rw [reactK_encRequest]; exact h
        | setCompression t => exact h
        | pluginRequest i c d => exact h
        | success => exact h
        | disconnect j => intro e he; cases he

theorem keys_at (f : Nat → Bytes) (n0 k : Nat) (l later : List Bytes)
    (h : l = (List.range' n0 (k + 1)).map f ++ later) : l[k]? = some (f (n0 + k)) := by
  rw [h, ← range'_map_snoc, List.append_assoc]
  rw [List.getElem?_append_right (by simp)]
  simp

theorem nodup_draws (f : Nat → Bytes) (n0 k : Nat)
    (hinj : ∀ i j, i < k → j < k → f (n0 + i) = f (n0 + j) → i = j) :
    ((List.range' n0 k).map f).Nodup := by
  rw [List.Nodup, List.pairwise_map]
  have hp : (List.range' n0 k).Pairwise (· < ·) := List.pairwise_lt_range'
  refine List.Pairwise.imp_of_mem ?_ hp
  intro a b ha hb hab heq
  simp only [List.mem_range'_1] at ha hb
  have := hinj (a - n0) (b - n0) (by omega) (by omega)
    (by rw [show n0 + (a - n0) = a by omega, show n0 + (b - n0) = b by omega]; exact heq)
  omega

/-- Every installed key is a value the secret generator returned (cipher constructor as it is). -/
theorem keys_from_gen (gen : SecretGen) (P : KeyParams) (p : Bytes → Prop)
    (hgen : ∀ n, p (gen P.rng n).1) (s : KState) (steps : List Step) (hs : ∀ k ∈ s.keys, p k) :
    ∀ k ∈ (execWith gen KChan.create P s steps).keys, p k := by
  induction steps generalizing s with
  | nil => exact hs
  | cons a r ih =>
    rw [execWith_cons]
    apply ih
    cases a with
    | flush =>
      simp only [stepWith]; split
      · exact hs
      · rw [keys_flush]; exact hs
    | recv e =>
      simp only [stepWith]; split
      · exact hs
      · cases e with
        | setCompression t => exact hs
        | pluginRequest i c d => exact hs
        | success => exact hs
        | disconnect j => exact hs
        | encRequest sid pk tok =>
          let s1 : KState :=
            if sid ≠ "-" then
              if P.base.hasToken then
                { s with nDraws := (gen P.rng s.nDraws).2,
                         joins := s.joins ++ [P.base.hash sid (gen P.rng s.nDraws).1 pk] }
              else { s with nDraws := (gen P.rng s.nDraws).2 }
            else { s with nDraws := (gen P.rng s.nDraws).2 }
          have h1 : s1.keys = s.keys := by
            simp only [s1, KState.keys]; split <;> (try split) <;> rfl
          have h2 : ∀ (pkt : ClientPkt), (s1.writeNow P pkt true).keys = s.keys := by
            intro pkt
            rw [← h1]
            simp only [KState.keys, KState.writeNow]
            rw [List.map_reverse, List.map_reverse, updates_stackSend_keys]
          show ∀ k ∈ (match KChan.create (gen P.rng s.nDraws).1 with
            | .error e => { s1.writeNow P _ true with err := some (.cipher e) }
            | .ok c => { s1.writeNow P _ true with layers := c :: (s1.writeNow P _ true).layers }
            : KState).keys, p k
          cases hc : KChan.create (gen P.rng s.nDraws).1 with
          | error e =>
            intro k hk
            exact hs k (by rw [← h2]; exact hk)
          | ok c =>
            intro k hk
            have hk' : k ∈ (s1.writeNow P
                (.encResp (P.base.rsa.enc pk (gen P.rng s.nDraws).1) (P.base.rsa.enc pk tok))
                true).keys ++ [c.key] := by
              simpa [KState.keys] using hk
            rcases List.mem_append.mp hk' with hk' | hk'
            · exact hs k (by rw [← h2]; exact hk')
            · simp only [List.mem_singleton] at hk'
              rw [hk', (create_ok_inv _ _ hc).2]
              exact hgen _

theorem logins_keys_from_gen (gen : SecretGen) (P : KeyParams) (p : Bytes → Prop)
    (hgen : ∀ n, p (gen P.rng n).1) (n : Nat) (runs : List (Nat × List Step)) :
    ∀ k ∈ (loginsWith gen KChan.create P n runs).flatMap KState.keys, p k := by
  induction runs generalizing n with
  | nil => intro k hk; cases hk
  | cons r rest ih =>
    obtain ⟨gap, steps⟩ := r
    intro k hk
    simp only [loginsWith, List.flatMap_cons, List.mem_append] at hk
    rcases hk with hk | hk
    · exact keys_from_gen gen P p hgen (.init (n + gap)) steps (by intro k hk; cases hk) k hk
    · exact ih _ k hk

/-! ## 10. agreement with `Model/Login.lean` while at most one request has been reached -/

theorem writeAll_log (P : KeyParams) (s : KState) (ps : List ClientPkt) :
    (writeAll P s ps).log =
        s.log ++ ps.map (fun p => (⟨p, !s.layers.isEmpty, s.threshold, false⟩ : Sent)) ∧
      (writeAll P s ps).layers.isEmpty = s.layers.isEmpty := by
  induction ps generalizing s with
  | nil => simp [writeAll]
  | cons p ps ih =>
    obtain ⟨i1, i2⟩ := ih (s.writeNow P p false)
    rw [writeAll_cons, i1, i2]
    have hl : (s.writeNow P p false).layers.isEmpty = s.layers.isEmpty := by
      simp only [KState.writeNow]; exact updates_stackSend_isEmpty _ _
    refine ⟨?_, hl⟩
    rw [hl]
    simp [KState.writeNow]

/-- The login model's state `cs` and this model's state `ks` agree on everything the login model
has. -/
structure Sim (cs : ClientState) (ks : KState) : Prop where
  log : ks.log = cs.outbox
  threshold : ks.threshold = cs.threshold
  reactor : ks.reactor = cs.reactor
  queue : ks.queue = cs.queue
  joins : ks.joins = cs.joins
  err : ks.err = cs.err.map KErr.login
  enc : cs.encrypted = !ks.layers.isEmpty

/-- Agreement as long as no second draw has been made. -/
def SimInv (n0 : Nat) (cs : ClientState) (ks : KState) : Prop :=
  n0 ≤ ks.nDraws ∧ (ks.nDraws ≤ n0 + 1 → Sim cs ks)

theorem Sim.errSome {cs : ClientState} {ks : KState} (h : Sim cs ks) :
    ks.err.isSome = cs.err.isSome := by
  rw [h.err]; cases cs.err <;> rfl

theorem nDraws_stepK (P : KeyParams) (s : KState) (a : Step) :
    s.nDraws ≤ (stepK P s a).nDraws := by
  cases a with
  | flush =>
    simp only [stepWith]; split
    · exact Nat.le_refl _
    · rw [(flushQueue_fields P s).1]; exact Nat.le_refl _
  | recv e =>
    simp only [stepWith]; split
    · exact Nat.le_refl _
    · cases e with
      | encRequest sid pk tok =>
        show s.nDraws ≤ (reactK P s (.encRequest sid pk tok)).nDraws
        rw [reactK_encRequest]; exact Nat.le_succ _
      | setCompression t => exact Nat.le_refl _
      | pluginRequest i c d => exact Nat.le_refl _
      | success => exact Nat.le_refl _
      | disconnect j => exact Nat.le_refl _

theorem SimInv.step (P : KeyParams) (n0 : Nat) {cs : ClientState} {ks : KState}
    (h : SimInv n0 cs ks) (a : Step) :
    SimInv n0 (step (P.login (P.rng.draw n0)) cs a) (stepK P ks a) := by
  obtain ⟨hge, hsim⟩ := h
  have hmono := nDraws_stepK P ks a
  refine ⟨Nat.le_trans hge hmono, fun hle => ?_⟩
  have hs := hsim (Nat.le_trans hmono hle)
  cases a with
  | flush =>
    simp only [stepWith, Login.step, hs.errSome]
    split
    · exact hs
    · obtain ⟨l1, l2⟩ := writeAll_log P ks ks.queue
      obtain ⟨f1, f2, f3, f4, f5, f6, -⟩ := flushQueue_fields P ks
      refine ⟨?_, by rw [f2]; exact hs.threshold, by rw [f3]; exact hs.reactor, by rw [f4]; rfl,
        by rw [f5]; exact hs.joins, by rw [f6]; exact hs.err, ?_⟩
      · show (writeAll P ks ks.queue).log = _
        rw [l1, hs.log, hs.queue, hs.threshold, ← hs.enc]; rfl
      · show cs.encrypted = !(writeAll P ks ks.queue).layers.isEmpty
        rw [l2]; exact hs.enc
  | recv e =>
    simp only [stepWith, Login.step, hs.errSome, hs.reactor]
    split
    · exact hs
    · cases e with
      | setCompression t =>
        exact ⟨hs.log, rfl, hs.reactor, hs.queue, hs.joins, hs.err, hs.enc⟩
      | success => exact ⟨hs.log, hs.threshold, rfl, hs.queue, hs.joins, hs.err, hs.enc⟩
      | disconnect j =>
        exact ⟨hs.log, hs.threshold, hs.reactor, hs.queue, hs.joins, rfl, hs.enc⟩
      | pluginRequest i c d =>
        refine ⟨hs.log, hs.threshold, hs.reactor, ?_, hs.joins, hs.err, hs.enc⟩
        show ks.queue ++ [pluginReply P.base i c d] = cs.queue ++ [pluginReply _ i c d]
        rw [hs.queue]; rfl
      | encRequest sid pk tok =>
        rename_i hguard
        have hk : ¬ (ks.err.isSome || ks.reactor == Reactor.play) = true := by
          rw [hs.errSome, hs.reactor]; exact hguard
        have hstep : stepK P ks (.recv (.encRequest sid pk tok)) =
            reactK P ks (.encRequest sid pk tok) := by
          simp only [stepWith]; rw [if_neg hk]
        have hle' : (reactK P ks (.encRequest sid pk tok)).nDraws ≤ n0 + 1 := by
          rw [← hstep]; exact hle
        show Sim _ (reactK P ks (.encRequest sid pk tok))
        rw [reactK_encRequest] at hle' ⊢
        have hn : ks.nDraws = n0 := by
          have : ks.nDraws + 1 ≤ n0 + 1 := hle'
          omega
        obtain ⟨o1, o2⟩ := react_encRequest (P.login (P.rng.draw n0)) cs sid pk tok
        refine ⟨?_, ?_, ?_, ?_, ?_, ?_, ?_⟩
        · show ks.log ++ _ = _
          rw [o1, hs.log, hs.threshold, ← hs.enc, hn]; rfl
        · show ks.threshold = _
          rw [hs.threshold]
          by_cases h1 : sid = "-" <;> by_cases h2 : P.base.hasToken = true <;>
            simp [react, ClientState.writeNow, KeyParams.login, h1, h2]
        · show ks.reactor = _
          rw [hs.reactor]
          by_cases h1 : sid = "-" <;> by_cases h2 : P.base.hasToken = true <;>
            simp [react, ClientState.writeNow, KeyParams.login, h1, h2]
        · show ks.queue = _
          rw [hs.queue, react_encRequest_queue]
        · show ks.joins ++ joinOf P (P.rng.draw ks.nDraws) sid pk = _
          rw [hs.joins, hn]
          by_cases h1 : sid = "-" <;> by_cases h2 : P.base.hasToken = true <;>
            simp [react, ClientState.writeNow, KeyParams.login, joinOf, h1, h2]
        · show ks.err = _
          rw [hs.err]
          by_cases h1 : sid = "-" <;> by_cases h2 : P.base.hasToken = true <;>
            simp [react, ClientState.writeNow, KeyParams.login, h1, h2]
        · rw [o2]; rfl

theorem SimInv.exec (P : KeyParams) (n0 : Nat) {cs : ClientState} {ks : KState}
    (h : SimInv n0 cs ks) (steps : List Step) :
    SimInv n0 (exec (P.login (P.rng.draw n0)) cs steps) (execK P ks steps) := by
  induction steps generalizing cs ks with
  | nil => exact h
  | cons a r ih =>
    show SimInv n0 _ (execWith genUrandom KChan.create P ks (a :: r))
    rw [exec_cons, execWith_cons]
    exact ih (h.step P n0 a)

theorem sim_final (P : KeyParams) (n0 : Nat) (steps : List Step)
    (h1 : (reqs (processed (events steps))).length ≤ 1) :
    Sim (exec (P.login (P.rng.draw n0)) .init steps) (execK P (.init n0) steps) := by
  have h0 : SimInv n0 ClientState.init (KState.init n0) :=
    ⟨Nat.le_refl _, fun _ => ⟨rfl, rfl, rfl, rfl, rfl, rfl, rfl⟩⟩
  have := (h0.exec P n0 steps).2
  apply this
  rw [(keys_execK P n0 steps).1]; omega

/-! ### specifications as predicates on the two parameters of `reactWith` (for the refutations) -/

/-- What `C18Keys.pycraft_channel` says, as a predicate on the cipher constructor and the run
function of the wrappers. -/
def ChannelSpec (mk : Bytes → Except Err KChan) (run : KChan → List Op → List Bytes) : Prop :=
  ∀ secret c ops, mk secret = .ok c →
    (outsOf Op.isSend ops (run c ops)).flatten =
        (cfb8Enc (aes128 secret) secret (ops.flatMap Op.sent)).2 ∧
      (outsOf Op.isRecv ops (run c ops)).flatten =
        (cfb8Dec (aes128 secret) secret (ops.flatMap Op.rcvd)).2

/-- What `C18Keys.logins_use_disjoint_draws` says, as a predicate on the secret generator. -/
def FreshSpec (gen : SecretGen) : Prop :=
  ∀ (P : KeyParams) (n : Nat) (runs : List (Nat × List Step)),
    (loginsWith gen KChan.create P n runs).flatMap KState.keys =
      (drawIdxs n (runs.map fun r => (r.1, (reqs (processed (events r.2))).length))).map
        P.rng.draw

/-! ### concrete parameters for examples and refutations -/

/-- An oracle whose `n`-th draw is sixteen times the byte `n + 1`. -/
def demoRng : Urandom :=
  { draw := fun n => List.replicate 16 (UInt8.ofNat (n + 1)), len16 := fun _ => by simp }

/-- `Login.demoParams` (RSA = "prefix the key's first byte"), store-only zlib, ids 1/2. -/
def demoKP : KeyParams :=
  { base := demoParams, rng := demoRng, z := Zlib.ident.toZlibOps, ids := demoIds }

/-- One login: a request under key `[7, 8]` with token `[9]`, then a plugin request, then
success. -/
def demoLogin : List Step :=
  schedule 1 [.encRequest "srv" [7, 8] [9], .pluginRequest 5 "ch" [1], .success]

/-- Two requests in one login, a plugin request after each. -/
def demoTwice : List Step :=
  schedule 1 [.encRequest "srv" [7, 8] [9], .pluginRequest 5 "ch" [1],
    .encRequest "-" [3, 4] [6], .pluginRequest 6 "ch" [], .success]

/-! ### the generated table (`Generated/C18Keys.lean`) in the model's vocabulary -/

def opOf (c : Nat × Bytes × Bytes) : Op :=
  if c.1 = 0 then .send c.2.1 else if c.1 = 1 then .recv c.2.1 else .read c.2.1

/-- The draw index of a row that made exactly one call. -/
def rowIdx (draws : List (Nat × Nat)) : Nat := (draws.headD (0, 0)).1

end PyCraft.Keys
