import PyCraft.Model.Negotiate
/-!
Helper lemmas for `PyCraft/Props/C09.lean` (version negotiation and the plain status query).
-/
namespace PyCraft.Neg
open PyCraft

/-! ### `inZ`, `dictGet`, `resolve` -/

theorem inZ_iff (n : Int) (l : List Nat) : inZ n l = true ↔ ∃ v ∈ l, (v : Int) = n := by
  unfold inZ
  simp only [Bool.and_eq_true, decide_eq_true_eq]
  constructor
  · rintro ⟨h0, hm⟩
    exact ⟨n.toNat, hm, by omega⟩
  · rintro ⟨v, hv, rfl⟩
    exact ⟨by omega, by simpa using hv⟩

theorem inZ_natCast (v : Nat) (l : List Nat) : inZ (v : Int) l = decide (v ∈ l) := by
  unfold inZ
  simp

theorem resolve_err (env : VEnv) (r : VReq) (e : Err) (h : resolve env r = .error e) :
    e = .value := by
  unfold resolve at h
  split at h
  · cases h; rfl
  · split at h
    · cases h
    · cases h; rfl

theorem resolve_ok_iff (env : VEnv) (r : VReq) (v : Nat) :
    resolve env r = .ok v ↔
      v ∈ env.supportedProtocols ∧
        (r = .num (v : Int) ∨ ∃ s, r = .name s ∧ dictGet env.supportedNames s = some v) := by
  unfold resolve
  cases r with
  | other => simp [protoOf]
  | num n =>
    simp only [protoOf, reduceCtorEq, false_and, exists_false, or_false, VReq.num.injEq]
    by_cases hz : inZ n env.supportedProtocols = true
    · simp only [hz, if_true, Except.ok.injEq]
      obtain ⟨w, hw, rfl⟩ := (inZ_iff _ _).1 hz
      simp only [Int.toNat_natCast]
      constructor
      · rintro rfl; exact ⟨hw, rfl⟩
      · rintro ⟨_, h⟩; omega
    · simp only [hz, Bool.false_eq_true, if_false, reduceCtorEq, false_iff, not_and]
      intro hv hn
      exact hz ((inZ_iff _ _).2 ⟨v, hv, hn.symm⟩)
  | name s =>
    simp only [protoOf, reduceCtorEq, false_or, VReq.name.injEq, exists_eq_left']
    cases hg : dictGet env.supportedNames s with
    | none => simp
    | some w =>
      simp only [Option.map_some, Int.ofNat_eq_natCast, inZ_natCast, Int.toNat_natCast,
        decide_eq_true_eq, Option.some.injEq]
      by_cases hw : w ∈ env.supportedProtocols
      · simp only [hw, if_true, Except.ok.injEq]
        constructor
        · rintro rfl; exact ⟨hw, rfl⟩
        · rintro ⟨_, h⟩; exact h
      · simp only [hw, if_false, reduceCtorEq, false_iff, not_and]
        rintro hv rfl; exact hw hv
theorem resolve_cases (env : VEnv) (r : VReq) :
    (∃ v, resolve env r = .ok v) ∨ resolve env r = .error .value := by
  cases h : resolve env r with
  | ok v => exact .inl ⟨v, rfl⟩
  | error e => rw [resolve_err env r e h]; exact .inr rfl

theorem resolveAll_ok (env : VEnv) (rs : List VReq) (l : List Nat)
    (h : resolveAll env rs = .ok l) :
    ∀ v, v ∈ l ↔ ∃ r ∈ rs, resolve env r = .ok v := by
  induction rs generalizing l with
  | nil => simp only [resolveAll, Except.ok.injEq] at h; subst h; simp
  | cons r rs ih =>
    simp only [resolveAll] at h
    cases hr : resolve env r with
    | error e => simp [hr] at h
    | ok w =>
      cases hrs : resolveAll env rs with
      | error e => simp [hr, hrs] at h
      | ok vs =>
        simp only [hr, hrs, Except.ok.injEq] at h
        subst h
        intro v
        simp only [List.mem_cons, ih vs hrs v, exists_eq_or_imp, hr, Except.ok.injEq]
        constructor
        · rintro (rfl | h)
          · exact .inl rfl
          · exact .inr h
        · rintro (rfl | h)
          · exact .inl rfl
          · exact .inr h

theorem resolveAll_err_kind (env : VEnv) (rs : List VReq) (e : Err)
    (h : resolveAll env rs = .error e) : e = .value := by
  induction rs with
  | nil => simp [resolveAll] at h
  | cons r rs ih =>
    simp only [resolveAll] at h
    cases hr : resolve env r with
    | error e' =>
      simp only [hr, Except.error.injEq] at h
      subst h; exact resolve_err env r _ hr
    | ok w =>
      cases hrs : resolveAll env rs with
      | error e' =>
        simp only [hr, hrs, Except.error.injEq] at h
        subst h; exact ih hrs
      | ok vs => simp [hr, hrs] at h

theorem resolveAll_bad (env : VEnv) (rs : List VReq)
    (h : ∃ r ∈ rs, ∀ v, resolve env r ≠ .ok v) : resolveAll env rs = .error .value := by
  cases hrs : resolveAll env rs with
  | error e => rw [resolveAll_err_kind env rs e hrs]
  | ok l =>
    exfalso
    obtain ⟨r, hr, hbad⟩ := h
    induction rs generalizing l with
    | nil => simp at hr
    | cons r' rs ih =>
      simp only [resolveAll] at hrs
      cases hr' : resolve env r' with
      | error e => simp [hr'] at hrs
      | ok w =>
        cases hrs' : resolveAll env rs with
        | error e => simp [hr', hrs'] at hrs
        | ok vs =>
          rcases List.mem_cons.1 hr with rfl | hmem
          · exact hbad w hr'
          · exact ih vs hrs' hmem

theorem resolveAll_good (env : VEnv) (rs : List VReq)
    (h : ∀ r ∈ rs, ∃ v, resolve env r = .ok v) : ∃ l, resolveAll env rs = .ok l := by
  induction rs with
  | nil => exact ⟨[], rfl⟩
  | cons r rs ih =>
    obtain ⟨v, hv⟩ := h r (by simp)
    obtain ⟨l, hl⟩ := ih (fun r' hr' => h r' (by simp [hr']))
    exact ⟨v :: l, by simp [resolveAll, hv, hl]⟩

/-! ### `dedup`, `toSet` -/

theorem mem_dedup (x : Nat) (l : List Nat) : x ∈ dedup l ↔ x ∈ l := by
  induction l with
  | nil => simp [dedup]
  | cons y ys ih =>
    simp only [dedup]
    by_cases hy : y ∈ ys
    · simp only [hy, if_true, ih, List.mem_cons]
      constructor
      · exact .inr
      · rintro (rfl | h)
        · exact hy
        · exact h
    · simp only [hy, if_false, List.mem_cons, ih]

theorem nodup_dedup (l : List Nat) : (dedup l).Nodup := by
  induction l with
  | nil => simp [dedup]
  | cons y ys ih =>
    simp only [dedup]
    by_cases hy : y ∈ ys
    · simpa [hy] using ih
    · simp only [hy, if_false, List.nodup_cons, mem_dedup, not_false_eq_true, true_and]
      exact ih

theorem dedup_of_nodup (l : List Nat) (h : l.Nodup) : dedup l = l := by
  induction l with
  | nil => rfl
  | cons y ys ih =>
    rw [List.nodup_cons] at h
    simp [dedup, h.1, ih h.2]

theorem mem_toSet (env : VEnv) (l : List Nat) (x : Nat) : x ∈ toSet env l ↔ x ∈ l := by
  unfold toSet
  simp only [mem_dedup, List.mem_append, List.mem_filter, decide_eq_true_eq]
  constructor
  · rintro (⟨_, h⟩ | ⟨h, _⟩) <;> exact h
  · intro h
    by_cases hk : x ∈ env.knownOrder
    · exact .inl ⟨hk, h⟩
    · exact .inr ⟨h, hk⟩

theorem nodup_toSet (env : VEnv) (l : List Nat) : (toSet env l).Nodup := nodup_dedup _

theorem toSet_eq_nil (env : VEnv) (l : List Nat) : toSet env l = [] ↔ l = [] := by
  constructor
  · intro h
    cases l with
    | nil => rfl
    | cons x xs =>
      have : x ∈ toSet env (x :: xs) := (mem_toSet env _ x).2 (by simp)
      rw [h] at this; simp at this
  · rintro rfl
    cases h : toSet env [] with
    | nil => rfl
    | cons x xs =>
      have : x ∈ toSet env [] := by rw [h]; simp
      rw [mem_toSet] at this; simp at this

/-- In a sane environment the canonical set is the sub-list of `knownOrder` selected by
membership, hence in ascending rank. -/
theorem toSet_eq_filter (env : VEnv) (l : List Nat) (hk : env.knownOrder.Nodup)
    (hl : ∀ x ∈ l, x ∈ env.knownOrder) :
    toSet env l = env.knownOrder.filter (fun v => decide (v ∈ l)) := by
  unfold toSet
  have h2 : l.filter (fun v => decide (v ∉ env.knownOrder)) = [] := by
    rw [List.filter_eq_nil_iff]
    intro a ha
    simpa using hl a ha
  rw [h2, List.append_nil]
  exact dedup_of_nodup _ (hk.sublist List.filter_sublist)

/-! ### `max(..., key=PROTOCOL_VERSION_INDICES.get)` -/

theorem rank_inj (env : VEnv) (a b : Nat) (ha : a ∈ env.knownOrder) (hb : b ∈ env.knownOrder)
    (h : rankOf env a = rankOf env b) : a = b := by
  unfold rankOf at h
  have h1 := List.idxOf_lt_length_of_mem ha
  have h2 := List.idxOf_lt_length_of_mem hb
  have e1 := List.getElem_idxOf h1
  have e2 := List.getElem_idxOf h2
  rw [← e1, ← e2]
  simp only [h]

theorem foldl_pick_mem (env : VEnv) (b : Nat) (l : List Nat) :
    l.foldl (pickLater env) b ∈ b :: l := by
  induction l generalizing b with
  | nil => simp
  | cons x xs ih =>
    simp only [List.foldl_cons]
    have := ih (pickLater env b x)
    rcases List.mem_cons.1 this with h | h
    · rw [h]
      unfold pickLater
      split <;> simp
    · simp [h]

theorem foldl_pick_ge (env : VEnv) (b : Nat) (l : List Nat) :
    rankOf env b ≤ rankOf env (l.foldl (pickLater env) b) := by
  induction l generalizing b with
  | nil => simp
  | cons x xs ih =>
    simp only [List.foldl_cons]
    have := ih (pickLater env b x)
    have h2 : rankOf env b ≤ rankOf env (pickLater env b x) := by
      unfold pickLater; split <;> omega
    omega

theorem foldl_pick_max (env : VEnv) (b : Nat) (l : List Nat) :
    ∀ a ∈ b :: l, rankOf env a ≤ rankOf env (l.foldl (pickLater env) b) := by
  induction l generalizing b with
  | nil => simp
  | cons x xs ih =>
    intro a ha
    simp only [List.foldl_cons]
    have hx : rankOf env x ≤ rankOf env (pickLater env b x) := by
      unfold pickLater; split <;> omega
    have hb : rankOf env b ≤ rankOf env (pickLater env b x) := by
      unfold pickLater; split <;> omega
    have hge := foldl_pick_ge env (pickLater env b x) xs
    simp only [List.mem_cons] at ha
    rcases ha with rfl | rfl | ha
    · omega
    · omega
    · exact ih (pickLater env b x) a (by simp [ha])

theorem latest_nil (env : VEnv) : latest env [] = .error .value := rfl
theorem latest_single (env : VEnv) (v : Nat) : latest env [v] = .ok v := rfl

/-- A successful `max` returns a member that is strictly later than every other member. -/
theorem latest_spec (env : VEnv) (l : List Nat) (v : Nat) (h : latest env l = .ok v) :
    v ∈ l ∧ ∀ a ∈ l, a ≠ v → rankOf env a < rankOf env v := by
  match l, h with
  | [w], h =>
    simp only [latest, Except.ok.injEq] at h
    subst h
    simp
  | x :: w :: rest, h =>
    simp only [latest] at h
    split at h
    · rename_i hall
      simp only [Except.ok.injEq] at h
      subst h
      refine ⟨foldl_pick_mem env x (w :: rest), ?_⟩
      intro a ha hne
      have hle := foldl_pick_max env x (w :: rest) a ha
      have hall' : ∀ y ∈ x :: w :: rest, y ∈ env.knownOrder := by
        simpa [ranked] using hall
      have hmem := foldl_pick_mem env x (w :: rest)
      rcases Nat.lt_or_eq_of_le hle with hlt | heq
      · exact hlt
      · exact absurd (rank_inj env _ _ (hall' a ha) (hall' _ hmem) heq) hne
    · cases h

theorem latest_err (env : VEnv) (l : List Nat) (e : Err) (h : latest env l = .error e) :
    (l = [] ∧ e = .value) ∨ (2 ≤ l.length ∧ e = .type ∧ ∃ a ∈ l, a ∉ env.knownOrder) := by
  match l, h with
  | [], h => simp only [latest, Except.error.injEq] at h; exact .inl ⟨rfl, h.symm⟩
  | [w], h => simp [latest] at h
  | x :: w :: rest, h =>
    simp only [latest] at h
    split at h
    · cases h
    · rename_i hall
      simp only [Except.error.injEq] at h
      refine .inr ⟨by simp, h.symm, ?_⟩
      apply Classical.byContradiction
      intro hcon
      apply hall
      rw [List.all_eq_true]
      intro a ha
      simp only [ranked, decide_eq_true_eq]
      apply Classical.byContradiction
      intro hna
      exact hcon ⟨a, ha, hna⟩

theorem latest_ok_of_ranked (env : VEnv) (l : List Nat) (hne : l ≠ [])
    (hr : ∀ a ∈ l, a ∈ env.knownOrder) : ∃ v, latest env l = .ok v := by
  cases h : latest env l with
  | ok v => exact ⟨v, rfl⟩
  | error e =>
    exfalso
    rcases latest_err env l e h with ⟨h1, _⟩ | ⟨_, _, a, ha, hna⟩
    · exact hne h1
    · exact hna (hr a ha)

/-! ### `connectPlan` -/

theorem connectPlan_single (env : VEnv) (v : Nat) : connectPlan env [v] = .ok (.direct v) := rfl

theorem connectPlan_nil (env : VEnv) : connectPlan env [] = .error .value := rfl

theorem connectPlan_many (env : VEnv) (l : List Nat) (h2 : 2 ≤ l.length)
    (hr : ∀ a ∈ l, a ∈ env.knownOrder) :
    ∃ v, connectPlan env l = .ok (.query v) ∧ latest env l = .ok v := by
  obtain ⟨v, hv⟩ := latest_ok_of_ranked env l (by intro h; subst h; simp at h2) hr
  refine ⟨v, ?_, hv⟩
  unfold connectPlan
  rw [hv]
  have : l.length ≠ 1 := by omega
  simp [this]

theorem connectPlan_ok (env : VEnv) (l : List Nat) (p : Plan) (h : connectPlan env l = .ok p) :
    (∃ v, l = [v] ∧ p = .direct v) ∨ (2 ≤ l.length ∧ ∃ v, p = .query v ∧ latest env l = .ok v) := by
  unfold connectPlan at h
  cases hl : latest env l with
  | error e => simp [hl] at h
  | ok v =>
    simp only [hl] at h
    split at h
    · rename_i h1
      simp only [Except.ok.injEq] at h
      left
      match l, h1 with
      | [w], _ =>
        simp only [latest, Except.ok.injEq] at hl
        exact ⟨w, rfl, by rw [← h, hl]⟩
    · rename_i h1
      simp only [Except.ok.injEq] at h
      right
      refine ⟨?_, v, h.symm, rfl⟩
      match l, hl with
      | [w], _ => simp at h1
      | x :: w :: rest, _ => simp

/-! ### `Connection.__init__` -/

theorem allowedSet_err (env : VEnv) (allowed : Option (List VReq)) (e : Err)
    (h : allowedSet env allowed = .error e) : e = .value := by
  cases allowed with
  | none => simp [allowedSet] at h
  | some reqs =>
    simp only [allowedSet] at h
    cases hr : resolveAll env reqs with
    | error e' =>
      simp only [hr, Except.error.injEq] at h
      subst h; exact resolveAll_err_kind env reqs _ hr
    | ok l => simp [hr] at h

theorem allowedSet_ok (env : VEnv) (allowed : Option (List VReq)) (al : List Nat)
    (h : allowedSet env allowed = .ok al) :
    al.Nodup ∧
      (allowed = none → ∀ v, v ∈ al ↔ v ∈ env.supportedProtocols) ∧
      (∀ reqs, allowed = some reqs → ∀ v, v ∈ al ↔ ∃ r ∈ reqs, resolve env r = .ok v) := by
  cases allowed with
  | none =>
    simp only [allowedSet, Except.ok.injEq] at h
    subst h
    exact ⟨nodup_toSet _ _, fun _ v => mem_toSet _ _ v, fun _ h => by cases h⟩
  | some reqs =>
    simp only [allowedSet] at h
    cases hr : resolveAll env reqs with
    | error e' => simp [hr] at h
    | ok l =>
      simp only [hr, Except.ok.injEq] at h
      subst h
      refine ⟨nodup_toSet _ _, (fun h => by cases h), ?_⟩
      intro reqs' hreqs v
      cases hreqs
      rw [mem_toSet]
      exact resolveAll_ok env reqs l hr v

theorem allowedSet_sub (env : VEnv) (allowed : Option (List VReq)) (al : List Nat)
    (h : allowedSet env allowed = .ok al) : ∀ v ∈ al, v ∈ env.supportedProtocols := by
  obtain ⟨_, h1, h2⟩ := allowedSet_ok env allowed al h
  intro v hv
  cases allowed with
  | none => exact (h1 rfl v).1 hv
  | some reqs =>
    obtain ⟨r, _, hr⟩ := (h2 reqs rfl v).1 hv
    exact ((resolve_ok_iff env r v).1 hr).1

theorem ctor_ok (env : VEnv) (allowed : Option (List VReq)) (initial : Option VReq) (cfg : Cfg)
    (h : ctor env allowed initial = .ok cfg) :
    allowedSet env allowed = .ok cfg.allowed ∧ latest env cfg.allowed = .ok cfg.ctx ∧
      (initial = none → cfg.default = cfg.ctx) ∧
      (∀ r, initial = some r → resolve env r = .ok cfg.default) := by
  unfold ctor at h
  cases ha : allowedSet env allowed with
  | error e => simp [ha] at h
  | ok al =>
    simp only [ha] at h
    cases hl : latest env al with
    | error e => simp [hl] at h
    | ok lt =>
      simp only [hl] at h
      cases initial with
      | none =>
        simp only [Except.ok.injEq] at h
        subst h
        exact ⟨rfl, hl, fun _ => rfl, fun r hr => by cases hr⟩
      | some r =>
        simp only at h
        cases hr : resolve env r with
        | error e => simp [hr] at h
        | ok d =>
          simp only [hr, Except.ok.injEq] at h
          subst h
          refine ⟨rfl, hl, (fun h => by cases h), ?_⟩
          intro r' hr'
          cases hr'
          exact hr

theorem ctor_err (env : VEnv) (allowed : Option (List VReq)) (initial : Option VReq) (e : Err)
    (h : ctor env allowed initial = .error e) :
    allowedSet env allowed = .error e ∨
      (∃ al, allowedSet env allowed = .ok al ∧ latest env al = .error e) ∨
      (∃ r, initial = some r ∧ resolve env r = .error e) := by
  unfold ctor at h
  cases ha : allowedSet env allowed with
  | error e' =>
    simp only [ha, Except.error.injEq] at h
    subst h; exact .inl rfl
  | ok al =>
    simp only [ha] at h
    cases hl : latest env al with
    | error e' =>
      simp only [hl, Except.error.injEq] at h
      subst h; exact .inr (.inl ⟨al, rfl, hl⟩)
    | ok lt =>
      simp only [hl] at h
      cases initial with
      | none => simp at h
      | some r =>
        simp only at h
        cases hr : resolve env r with
        | error e' =>
          simp only [hr, Except.error.injEq] at h
          subst h; exact .inr (.inr ⟨r, rfl, hr⟩)
        | ok d => simp [hr] at h

/-! ### The status loop -/

/-- Once `interrupt` is set the loop reacts to nothing more. -/
theorem runLoop_interrupted (doPing : Bool) (st : StatusSt) (script : List StatusPkt)
    (clock : List Nat) (h : st.interrupt = true) : runLoop doPing st script clock = some (st, []) := by
  cases script with
  | nil => rfl
  | cons p ps => simp [runLoop, h]

/-- Invariant of the loop.  Started from a live connection (`connected ∧ ¬interrupt`), whatever the
server sends: the two flags stay in step, at most one `disconnect` is logged, and it is logged iff
the connection ended up closed. -/
theorem runLoop_inv (doPing : Bool) (script : List StatusPkt) (clock : List Nat) (st st' : StatusSt)
    (acts : List Act) (hst : st = StatusSt.init)
    (h : runLoop doPing st script clock = some (st', acts)) :
    (st' = StatusSt.init ∧ acts.count .disconnect = 0) ∨
      (st' = ⟨false, true⟩ ∧ acts.count .disconnect = 1) := by
  induction script generalizing clock st st' acts with
  | nil =>
    simp only [runLoop, Option.some.injEq, Prod.mk.injEq] at h
    left; rw [← h.1, ← h.2]; exact ⟨hst, rfl⟩
  | cons p ps ih =>
    subst hst
    cases p with
    | other =>
      simp only [runLoop, StatusSt.init, Bool.false_eq_true, if_false, usesTimer, react] at h
      cases hr : runLoop doPing ⟨true, false⟩ ps clock with
      | none => simp [hr] at h
      | some r =>
        obtain ⟨s2, a2⟩ := r
        simp only [hr, List.nil_append, Option.some.injEq, Prod.mk.injEq] at h
        rw [← h.1, ← h.2]
        exact ih clock _ s2 a2 rfl hr
    | response j =>
      cases doPing with
      | true =>
        simp only [runLoop, StatusSt.init, Bool.false_eq_true, if_false, usesTimer, react,
          if_true] at h
        cases clock with
        | nil => simp at h
        | cons now clock' =>
          simp only at h
          cases hr : runLoop true ⟨true, false⟩ ps clock' with
          | none => simp [hr] at h
          | some r =>
            obtain ⟨s2, a2⟩ := r
            simp only [hr, Option.some.injEq, Prod.mk.injEq] at h
            rw [← h.1, ← h.2]
            have := ih clock' _ s2 a2 rfl hr
            simpa [List.count_cons] using this
      | false =>
        simp only [runLoop, StatusSt.init, Bool.false_eq_true, if_false, usesTimer, react,
          StatusSt.disc] at h
        rw [runLoop_interrupted _ _ _ _ rfl] at h
        simp only [Option.some.injEq, Prod.mk.injEq] at h
        right
        rw [← h.1, ← h.2]
        exact ⟨rfl, by simp⟩
    | pong t =>
      cases doPing with
      | true =>
        simp only [runLoop, StatusSt.init, Bool.false_eq_true, if_false, usesTimer, react,
          if_true, StatusSt.disc] at h
        cases clock with
        | nil => simp at h
        | cons now clock' =>
          simp only at h
          rw [runLoop_interrupted _ _ _ _ rfl] at h
          simp only [Option.some.injEq, Prod.mk.injEq] at h
          right
          rw [← h.1, ← h.2]
          exact ⟨rfl, by simp⟩
      | false =>
        simp only [runLoop, StatusSt.init, Bool.false_eq_true, if_false, usesTimer, react] at h
        cases hr : runLoop false ⟨true, false⟩ ps clock with
        | none => simp [hr] at h
        | some r =>
          obtain ⟨s2, a2⟩ := r
          simp only [hr, List.nil_append, Option.some.injEq, Prod.mk.injEq] at h
          rw [← h.1, ← h.2]
          exact ih clock _ s2 a2 rfl hr

/-- Pings are sent and latencies reported only when latency was requested. -/
theorem runLoop_noping (script : List StatusPkt) (clock : List Nat) (st st' : StatusSt)
    (acts : List Act) (h : runLoop false st script clock = some (st', acts)) :
    ∀ a ∈ acts, (∀ t, a ≠ .sendPing t) ∧ (∀ l, a ≠ .handlePing l) := by
  induction script generalizing clock st st' acts with
  | nil =>
    simp only [runLoop, Option.some.injEq, Prod.mk.injEq] at h
    rw [← h.2]; simp
  | cons p ps ih =>
    simp only [runLoop] at h
    split at h
    · simp only [Option.some.injEq, Prod.mk.injEq] at h
      rw [← h.2]; simp
    · have hu : usesTimer false p = false := by cases p <;> rfl
      simp only [hu, Bool.false_eq_true, if_false] at h
      cases hr : runLoop false (react false st p 0).1 ps clock with
      | none => simp [hr] at h
      | some r =>
        obtain ⟨s2, a2⟩ := r
        simp only [hr, Option.some.injEq, Prod.mk.injEq] at h
        rw [← h.2]
        intro a ha
        rcases List.mem_append.1 ha with ha | ha
        · cases p <;> simp [react] at ha
          rcases ha with rfl | rfl <;> simp
        · exact ih clock _ s2 a2 hr a ha

end PyCraft.Neg
