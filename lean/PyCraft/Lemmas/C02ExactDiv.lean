import PyCraft.Model.C02Exact
import PyCraft.Lemmas.C02ExactFloat
/-!
Helper lemmas for the `FixedPoint.read` part of `Props/C02Exact.lean`: Python's `int / int`
(`intTrueDiv`, built on `roundQuotF64`) is the binary64 NEAREST to the exact quotient, ties to even;
it is the exact quotient whenever that is a binary64.
Magnitudes are naturals in units of `2^-1074`; the rational `N / d` is compared with a float of
magnitude `v` by cross-multiplying: `v * d` against `N`.
-/
set_option exponentiation.threshold 2200

namespace PyCraft.C02X
open PyCraft

theorem two_pow_52 : (2 : Nat) ^ 52 = 4503599627370496 := by decide
theorem two_pow_53 : (2 : Nat) ^ 53 = 9007199254740992 := by decide

/-- the pattern `e·2^52 + K` (`K ≤ 2^53`; `K ≥ 2^52` unless `e = 0`) denotes `K·2^e` — the carry of
`K = 2^53` into the exponent field included -/
theorem f64Mag_compose (e K : Nat) (hK : K ≤ 2 ^ 53) (he : e = 0 ∨ 2 ^ 52 ≤ K) :
    f64Mag (e * 2 ^ 52 + K) = K * 2 ^ e := by
  unfold f64Mag
  simp only [two_pow_52, two_pow_53] at *
  rcases Nat.lt_or_ge K 4503599627370496 with h1 | h1
  · have he0 : e = 0 := by omega
    subst he0
    have a : (0 * 4503599627370496 + K) / 4503599627370496 = 0 := by omega
    have b : (0 * 4503599627370496 + K) % 4503599627370496 = K := by omega
    rw [a, b]; simp
  · rcases Nat.lt_or_ge K 9007199254740992 with h2 | h2
    · have a : (e * 4503599627370496 + K) / 4503599627370496 = e + 1 := by omega
      have b : (e * 4503599627370496 + K) % 4503599627370496 = K - 4503599627370496 := by omega
      rw [a, b]
      have h0 : e + 1 ≠ 0 := by omega
      have h3 : 4503599627370496 + (K - 4503599627370496) = K := by omega
      have h4 : e + 1 - 1 = e := by omega
      rw [if_neg h0, h3, h4]
    · have hK' : K = 9007199254740992 := by omega
      subst hK'
      have a : (e * 4503599627370496 + 9007199254740992) / 4503599627370496 = e + 2 := by omega
      have b : (e * 4503599627370496 + 9007199254740992) % 4503599627370496 = 0 := by omega
      rw [a, b]
      have h0 : e + 2 ≠ 0 := by omega
      have h4 : e + 2 - 1 = e + 1 := by omega
      rw [if_neg h0, h4, Nat.pow_succ]
      omega

theorem f64Quantum_cases (t : Nat) :
    (t.log2 ≤ 52 ∧ f64Quantum t = 0) ∨ (52 < t.log2 ∧ f64Quantum t = t.log2 - 52) := by
  unfold f64Quantum
  rcases Nat.lt_or_ge 52 t.log2 with h | h
  · exact .inr ⟨h, rfl⟩
  · exact .inl ⟨h, by omega⟩

/-- `t = N / d` brackets `N`: `t·d ≤ N < (t+1)·d` -/
theorem quot_bracket (N d : Nat) (hd : 0 < d) : N / d * d ≤ N ∧ N < (N / d + 1) * d := by
  have hdm := Nat.div_add_mod N d
  have hr := Nat.mod_lt N hd
  rw [Nat.add_mul, Nat.mul_comm (N / d) d]
  omega

/-- the rounded significand lies in `[2^52, 2^53]` above the subnormal range and in `[0, 2^53]` in it -/
theorem quot_sig (N d : Nat) (hd : 0 < d) :
    rneNat N (d * 2 ^ f64Quantum (N / d)) ≤ 2 ^ 53 ∧
    (f64Quantum (N / d) = 0 ∨ 2 ^ 52 ≤ rneNat N (d * 2 ^ f64Quantum (N / d))) := by
  obtain ⟨b1, b2⟩ := quot_bracket N d hd
  have hhi := @Nat.lt_log2_self (N / d)
  rcases f64Quantum_cases (N / d) with ⟨h, hq⟩ | ⟨h, hq⟩
  · rw [hq]
    refine ⟨?_, .inl rfl⟩
    have hG : 0 < d * 2 ^ 0 := by simpa using hd
    apply rneNat_le _ _ _ hG
    have h1 : 2 ^ ((N / d).log2 + 1) ≤ 2 ^ 53 := Nat.pow_le_pow_right (by omega) (by omega)
    have h2 : (N / d + 1) * d ≤ 2 ^ 53 * d := Nat.mul_le_mul_right _ (by omega)
    simp only [Nat.pow_zero, Nat.mul_one]
    omega
  · have ht : N / d ≠ 0 := by
      intro h0; rw [h0] at h; simp [Nat.log2_zero] at h
    have hlo := Nat.log2_self_le ht
    have hG : 0 < d * 2 ^ f64Quantum (N / d) := Nat.mul_pos hd (Nat.two_pow_pos _)
    rw [hq] at hG ⊢
    have e1 : 2 ^ (N / d).log2 = 2 ^ 52 * 2 ^ ((N / d).log2 - 52) := by
      rw [← Nat.pow_add]; congr 1; omega
    have e2 : 2 ^ ((N / d).log2 + 1) = 2 ^ 53 * 2 ^ ((N / d).log2 - 52) := by
      rw [← Nat.pow_add]; congr 1; omega
    constructor
    · apply rneNat_le _ _ _ hG
      have h2 : (N / d + 1) * d ≤ 2 ^ ((N / d).log2 + 1) * d := Nat.mul_le_mul_right _ (by omega)
      rw [e2] at h2
      have e3 : 2 ^ 53 * 2 ^ ((N / d).log2 - 52) * d = 2 ^ 53 * (d * 2 ^ ((N / d).log2 - 52)) := by
        rw [Nat.mul_assoc, Nat.mul_comm (2 ^ ((N / d).log2 - 52)) d]
      omega
    · right
      apply rneNat_ge _ _ _ hG
      have h2 : 2 ^ (N / d).log2 * d ≤ N / d * d := Nat.mul_le_mul_right _ hlo
      rw [e1] at h2
      have e3 : 2 ^ 52 * 2 ^ ((N / d).log2 - 52) * d = 2 ^ 52 * (d * 2 ^ ((N / d).log2 - 52)) := by
        rw [Nat.mul_assoc, Nat.mul_comm (2 ^ ((N / d).log2 - 52)) d]
      omega

/-- the value denoted by the rounded pattern is `K·2^qe` units -/
theorem roundQuotF64_value (N d : Nat) (hd : 0 < d) :
    f64Mag (roundQuotF64 N d)
      = rneNat N (d * 2 ^ f64Quantum (N / d)) * 2 ^ f64Quantum (N / d) := by
  obtain ⟨h1, h2⟩ := quot_sig N d hd
  unfold roundQuotF64
  simp only
  rw [f64Mag_compose _ _ h1 h2]

/-- … so, cross-multiplied by `d`, it is `K` times the grid step `d·2^qe` -/
theorem roundQuotF64_value_mul (N d : Nat) (hd : 0 < d) :
    f64Mag (roundQuotF64 N d) * d
      = rneNat N (d * 2 ^ f64Quantum (N / d)) * (d * 2 ^ f64Quantum (N / d)) := by
  rw [roundQuotF64_value N d hd, Nat.mul_assoc, Nat.mul_comm (2 ^ _) d]

/-- every binary64 magnitude is `mant·2^x` units with `mant < 2^53` -/
theorem f64Mag_form (m' : Nat) : ∃ mant x, mant < 2 ^ 53 ∧ f64Mag m' = mant * 2 ^ x := by
  unfold f64Mag
  simp only
  have hF : m' % 2 ^ 52 < 2 ^ 52 := Nat.mod_lt _ (Nat.two_pow_pos _)
  rw [two_pow_52] at hF
  split
  · exact ⟨m' % 2 ^ 52, 0, by rw [two_pow_53, two_pow_52]; omega, by simp⟩
  · exact ⟨2 ^ 52 + m' % 2 ^ 52, m' / 2 ^ 52 - 1, by rw [two_pow_53, two_pow_52]; omega, rfl⟩

/-- every binary64 value is either a multiple of the spacing at `t` or lies below `2^⌊log2 t⌋` (and
then `t` is above the subnormal range) -/
theorem f64Mag_grid (t m' : Nat) :
    (∃ K', f64Mag m' = K' * 2 ^ f64Quantum t) ∨
    (f64Mag m' < 2 ^ t.log2 ∧ f64Quantum t = t.log2 - 52 ∧ 52 < t.log2) := by
  obtain ⟨mant, x, hm, hv⟩ := f64Mag_form m'
  rw [hv]
  rcases Nat.lt_or_ge x (f64Quantum t) with hx | hx
  · right
    rcases f64Quantum_cases t with ⟨h, hq⟩ | ⟨h, hq⟩
    · omega
    · refine ⟨?_, hq, h⟩
      have h1 : mant * 2 ^ x < 2 ^ 53 * 2 ^ x :=
        Nat.mul_lt_mul_of_lt_of_le hm (Nat.le_refl _) (Nat.two_pow_pos _)
      have h2 : 2 ^ 53 * 2 ^ x ≤ 2 ^ t.log2 := by
        rw [← Nat.pow_add]; exact Nat.pow_le_pow_right (by omega) (by omega)
      exact Nat.lt_of_lt_of_le h1 h2
  · left
    refine ⟨mant * 2 ^ (x - f64Quantum t), ?_⟩
    have h3 : x - f64Quantum t + f64Quantum t = x := by omega
    rw [Nat.mul_assoc, ← Nat.pow_add, h3]

theorem roundQuotF64_parity (N d : Nat) :
    roundQuotF64 N d % 2 = rneNat N (d * 2 ^ f64Quantum (N / d)) % 2 := by
  unfold roundQuotF64
  simp only [two_pow_52]
  omega

/-- **nearest, ties to even**: no binary64 magnitude is closer to `N / d` than the rounded one; one
that is equally close and different exists only when the rounded pattern is even -/
theorem roundQuotF64_nearest (N d : Nat) (hd : 0 < d) (m' : Nat) :
    absDiff (f64Mag (roundQuotF64 N d) * d) N ≤ absDiff (f64Mag m' * d) N ∧
    (absDiff (f64Mag (roundQuotF64 N d) * d) N = absDiff (f64Mag m' * d) N →
      f64Mag m' ≠ f64Mag (roundQuotF64 N d) → roundQuotF64 N d % 2 = 0) := by
  have hG : 0 < d * 2 ^ f64Quantum (N / d) := Nat.mul_pos hd (Nat.two_pow_pos _)
  rw [roundQuotF64_value_mul N d hd, roundQuotF64_parity]
  rcases f64Mag_grid (N / d) m' with ⟨K', hK'⟩ | ⟨hlt, hq, hb⟩
  · have e : f64Mag m' * d = K' * (d * 2 ^ f64Quantum (N / d)) := by
      rw [hK', Nat.mul_assoc, Nat.mul_comm (2 ^ _) d]
    rw [e]
    obtain ⟨b1, b2⟩ := rneNat_best N (d * 2 ^ f64Quantum (N / d)) K' hG
    refine ⟨b1, fun h hne => b2 h (fun e' => hne ?_)⟩
    rw [roundQuotF64_value N d hd, hK', e']
  · obtain ⟨q1, _⟩ := quot_bracket N d hd
    have ht : N / d ≠ 0 := by
      intro h0; rw [h0] at hb; simp [Nat.log2_zero] at hb
    have hlo := Nat.log2_self_le ht
    have e1 : 2 ^ (N / d).log2 * d = 2 ^ 52 * (d * 2 ^ f64Quantum (N / d)) := by
      rw [hq, Nat.mul_comm d, ← Nat.mul_assoc, ← Nat.pow_add]
      congr 2; omega
    obtain ⟨b1, _⟩ := rneNat_best N (d * 2 ^ f64Quantum (N / d)) (2 ^ 52) hG
    rw [← e1] at b1
    have h3 : f64Mag m' * d < 2 ^ (N / d).log2 * d := Nat.mul_lt_mul_of_pos_right hlt hd
    have h4 : 2 ^ (N / d).log2 * d ≤ N / d * d := Nat.mul_le_mul_right _ hlo
    have hstrict : absDiff (rneNat N (d * 2 ^ f64Quantum (N / d)) * (d * 2 ^ f64Quantum (N / d))) N
        < absDiff (f64Mag m' * d) N := by
      unfold absDiff at b1 ⊢
      omega
    exact ⟨Nat.le_of_lt hstrict, fun h _ => absurd h (Nat.ne_of_lt hstrict)⟩

/-- **exact when on the grid**: if `N / d` is a multiple of the spacing at its own magnitude, the
rounded value IS `N / d` -/
theorem roundQuotF64_exact (N d : Nat) (hd : 0 < d)
    (hdiv : N % (d * 2 ^ f64Quantum (N / d)) = 0) :
    f64Mag (roundQuotF64 N d) * d = N := by
  have hG : 0 < d * 2 ^ f64Quantum (N / d) := Nat.mul_pos hd (Nat.two_pow_pos _)
  rw [roundQuotF64_value_mul N d hd]
  have hdm := Nat.div_add_mod N (d * 2 ^ f64Quantum (N / d))
  rw [hdiv, Nat.add_zero] at hdm
  have : rneNat N (d * 2 ^ f64Quantum (N / d)) = N / (d * 2 ^ f64Quantum (N / d)) := by
    unfold rneNat
    simp only [hdiv]
    have : 2 * 0 < d * 2 ^ f64Quantum (N / d) := by omega
    rw [if_pos this]
  rw [this, Nat.mul_comm]; exact hdm

/-- an integer below `2^53` over a power of two up to `2^1074` is on the grid -/
theorem small_on_grid (a bits : Nat) (ha : a < 2 ^ 53) (hb : bits ≤ 1074) :
    (a * 2 ^ 1074) % (2 ^ bits * 2 ^ f64Quantum (a * 2 ^ 1074 / 2 ^ bits)) = 0 := by
  have e1 : (2 : Nat) ^ 1074 = 2 ^ (1074 - bits) * 2 ^ bits := by
    rw [← Nat.pow_add]; congr 1; omega
  have ht : a * 2 ^ 1074 / 2 ^ bits = a * 2 ^ (1074 - bits) := by
    rw [e1, ← Nat.mul_assoc, Nat.mul_div_cancel _ (Nat.two_pow_pos _)]
  rw [ht]
  by_cases ha0 : a = 0
  · subst ha0; simp
  have hl : a.log2 < 53 := (Nat.log2_lt ha0).mpr ha
  have hq : f64Quantum (a * 2 ^ (1074 - bits)) ≤ 1074 - bits := by
    unfold f64Quantum
    rw [log2_mul_two_pow _ _ ha0]; omega
  generalize f64Quantum (a * 2 ^ (1074 - bits)) = qe at hq
  have e2 : (2 : Nat) ^ 1074 = 2 ^ (1074 - bits - qe) * (2 ^ bits * 2 ^ qe) := by
    rw [← Nat.pow_add, ← Nat.pow_add]; congr 1; omega
  rw [e2, ← Nat.mul_assoc]
  exact Nat.mul_mod_left _ _

/-- the quotient of a magnitude below `2^65` is far from overflowing -/
theorem roundQuotF64_lt_inf (a d : Nat) (hd : 0 < d) (ha : a < 2 ^ 65) :
    roundQuotF64 (a * 2 ^ 1074) d < f64InfPat := by
  obtain ⟨k1, _⟩ := quot_sig (a * 2 ^ 1074) d hd
  have ht : a * 2 ^ 1074 / d < 2 ^ 1139 := by
    have h1 : a * 2 ^ 1074 / d ≤ a * 2 ^ 1074 := Nat.div_le_self _ _
    have h2 : a * 2 ^ 1074 < 2 ^ 65 * 2 ^ 1074 :=
      Nat.mul_lt_mul_of_lt_of_le ha (Nat.le_refl _) (Nat.two_pow_pos _)
    rw [← Nat.pow_add] at h2
    omega
  have hq : f64Quantum (a * 2 ^ 1074 / d) ≤ 1086 := by
    unfold f64Quantum
    by_cases h0 : a * 2 ^ 1074 / d = 0
    · rw [h0]; simp [Nat.log2_zero]
    · have := (Nat.log2_lt h0).mpr ht
      omega
  unfold roundQuotF64
  simp only [f64InfPat]
  generalize f64Quantum (a * 2 ^ 1074 / d) = qe at *
  generalize rneNat (a * 2 ^ 1074) (d * 2 ^ qe) = K at *
  rw [two_pow_53] at k1
  rw [two_pow_52]
  omega

/-- `intTrueDiv` of an integer of magnitude below `2^65` by a positive `d` succeeds, and its result is
the sign of `a` on top of the rounded magnitude (which is below the pattern of infinity) -/
theorem intTrueDiv_ok (a : Int) (d : Nat) (hd : 0 < d) (ha : a.natAbs < 2 ^ 65) :
    intTrueDiv a d = .ok ((if a < 0 then 2 ^ 63 else 0) + roundQuotF64 (a.natAbs * 2 ^ 1074) d) ∧
    roundQuotF64 (a.natAbs * 2 ^ 1074) d < f64InfPat := by
  have hlt := roundQuotF64_lt_inf a.natAbs d hd ha
  refine ⟨?_, hlt⟩
  unfold intTrueDiv
  rw [if_neg (by omega)]
  simp only
  rw [if_neg (by omega)]

/-- splitting a pattern `s·2^63 + m` (`m` below infinity) -/
theorem pattern_split (s m : Nat) (hs : s = 0 ∨ s = 2 ^ 63) (hm : m < f64InfPat) :
    s + m < 2 ^ 64 ∧ (s + m) % 2 ^ 63 = m ∧ (s + m) % 2 ^ 63 / 2 ^ 52 ≠ 2047 ∧
    ((s + m) / 2 ^ 63 = 1 ↔ s = 2 ^ 63) := by
  unfold f64InfPat at hm
  rcases hs with rfl | rfl <;> refine ⟨by omega, by omega, by omega, by omega⟩

end PyCraft.C02X
