import PyCraft.Model.Custom
import PyCraft.Lemmas.Wire
import PyCraft.Lemmas.Position
/-!
`realCustom` / `realDom` (`Model/Custom.lean`) satisfy `CustomLaw`: every in-domain value of a custom
type encodes to a non-empty byte string that is read back exactly whatever follows, and every strict
prefix of which makes the reader fail.  (Nothing is in the domain of NBT.)
-/
namespace PyCraft

/-! ### tuples of ints as values -/

theorem intsOf_map (is : List Int) : intsOf (is.map .int) = some is := by
  induction is with
  | nil => rfl
  | cons i is ih => simp [intsOf, ih]

theorem intsOf_some : ∀ (vs : List Value) (is : List Int), intsOf vs = some is → vs = is.map .int := by
  intro vs
  induction vs with
  | nil => intro is h; simp [intsOf] at h; subst h; rfl
  | cons v vs ih =>
    intro is h
    cases v <;> simp [intsOf] at h
    obtain ⟨js, hj, rfl⟩ := h
    rw [ih js hj]; rfl

theorem ints?_ofInts (is : List Int) : (Value.ofInts is).ints? = some is := intsOf_map is

theorem ints?_some (v : Value) (is : List Int) (h : v.ints? = some is) : v = Value.ofInts is := by
  cases v <;> simp [Value.ints?] at h
  rw [intsOf_some _ _ h]; rfl

theorem domInts_elim {P : List Int → Prop} {v : Value} (h : domInts P v) :
    ∃ is, v = Value.ofInts is ∧ v.ints? = some is ∧ P is := by
  unfold domInts at h
  split at h
  · next is hi => exact ⟨is, ints?_some v is hi, hi, h⟩
  · exact h.elim

theorem posDom_elim {is : List Int} (h : posDom is) : ∃ x y z, is = [x, y, z] ∧
    -2 ^ 25 ≤ x ∧ x < 2 ^ 25 ∧ -2 ^ 11 ≤ y ∧ y < 2 ^ 11 ∧ -2 ^ 25 ≤ z ∧ z < 2 ^ 25 := by
  unfold posDom at h
  split at h
  · exact ⟨_, _, _, rfl, h⟩
  · exact h.elim

theorem secDom_elim {is : List Int} (h : secDom is) : ∃ x y z, is = [x, y, z] ∧
    -2 ^ 21 ≤ x ∧ x < 2 ^ 21 ∧ -2 ^ 19 ≤ y ∧ y < 2 ^ 19 ∧ -2 ^ 21 ≤ z ∧ z < 2 ^ 21 := by
  unfold secDom at h
  split at h
  · exact ⟨_, _, _, rfl, h⟩
  · exact h.elim

theorem recDom_elim {v741 : Bool} {is : List Int} (h : recDom v741 is) : ∃ x y z b, is = [x, y, z, b] ∧
    0 ≤ x ∧ x < 16 ∧ 0 ≤ y ∧ (y < if v741 then 16 else 256) ∧ 0 ≤ z ∧ z < 16 ∧
    0 ≤ b ∧ (b < if v741 then 2 ^ 65 else 2 ^ 42) := by
  unfold recDom at h
  split at h
  · exact ⟨_, _, _, _, rfl, h⟩
  · exact h.elim

theorem tripleDom_elim {t : IntT} {is : List Int} (h : tripleDom t is) : ∃ x y z, is = [x, y, z] ∧
    t.inDom x ∧ t.inDom y ∧ t.inDom z := by
  unfold tripleDom at h
  split at h
  · exact ⟨_, _, _, rfl, h⟩
  · exact h.elim

theorem encInts3_ofInts (f : Int → Int → Int → Except Err Bytes) (x y z : Int) :
    encInts3 f (Value.ofInts [x, y, z]) = f x y z := by
  simp only [encInts3, ints?_ofInts]

theorem encInts4_ofInts (f : Int → Int → Int → Int → Except Err Bytes) (x y z b : Int) :
    encInts4 f (Value.ofInts [x, y, z, b]) = f x y z b := by
  simp only [encInts4, ints?_ofInts]

/-! ### the 8-byte words -/

theorem decSecPos_short (bs : Bytes) (h : bs.length < 8) : decSecPos bs = .error .struct := by
  simp only [decSecPos, Pos.readU64_short bs h]

theorem decPos_short (newer : Bool) (bs : Bytes) (h : bs.length < 8) :
    decPos newer bs = .error .struct := by
  simp only [decPos, Pos.readU64_short bs h]

theorem beU64_ne_nil (n : Nat) : beU64 n ≠ [] := by
  intro e; have := Pos.beU64_length n; rw [e] at this; simp at this

theorem hdr_position (newer : Bool) (x y z : Int)
    (hx1 : -2 ^ 25 ≤ x) (hx2 : x < 2 ^ 25) (hy1 : -2 ^ 11 ≤ y) (hy2 : y < 2 ^ 11)
    (hz1 : -2 ^ 25 ≤ z) (hz2 : z < 2 ^ 25) :
    Hdr (realDec (.position newer)) (beU64 (Pos.posWord newer x y z)) (Value.ofInts [x, y, z]) := by
  refine ⟨beU64_ne_nil _, fun rest => ?_, fun p hp hne => ⟨.struct, ?_⟩⟩
  · simp only [realDec, Pos.decPos_posWord newer x y z rest hx1 hx2 hy1 hy2 hz1 hz2]
  · have hl := prefix_length_lt hp hne
    rw [Pos.beU64_length] at hl
    simp only [realDec, decPos_short newer p hl]

theorem hdr_secpos (x y z : Int)
    (hx1 : -2 ^ 21 ≤ x) (hx2 : x < 2 ^ 21) (hy1 : -2 ^ 19 ≤ y) (hy2 : y < 2 ^ 19)
    (hz1 : -2 ^ 21 ≤ z) (hz2 : z < 2 ^ 21) :
    Hdr (realDec .secpos) (beU64 (Pos.secWord x y z)) (Value.ofInts [x, y, z]) := by
  refine ⟨beU64_ne_nil _, fun rest => ?_, fun p hp hne => ⟨.struct, ?_⟩⟩
  · simp only [realDec, Pos.decSecPos_secWord x y z rest hx1 hx2 hy1 hy2 hz1 hz2]
  · have hl := prefix_length_lt hp hne
    rw [Pos.beU64_length] at hl
    simp only [realDec, decSecPos_short p hl]

/-! ### the two record formats -/

theorem hdr_record_new (x y z b : Nat) (hx : x < 16) (hy : y < 16) (hz : z < 16) (hb : b < 2 ^ 65) :
    Hdr (realDec (.record true)) (encVarInt (Pos.recWord x y z b))
      (Value.ofInts [(x : Int), (y : Int), (z : Int), (b : Int)]) := by
  refine ⟨enc_ne_nil _, fun rest => ?_, fun p hp hne => ?_⟩
  · simp only [realDec, Pos.decRecord_new x y z b rest hx hy hz hb]
  · obtain ⟨e, he⟩ := decVarIntAux_prefix_err 10 _ 0 0 p hp hne
    exact ⟨e, by simp only [realDec, decRecord, if_true, decVarInt, he]⟩

theorem hdr_record_old (x y z b : Nat) (hx : x < 16) (hy : y < 256) (hz : z < 16) (hb : b < 2 ^ 42) :
    Hdr (realDec (.record false)) (UInt8.ofNat (x * 16 + z) :: UInt8.ofNat y :: encVarInt b)
      (Value.ofInts [(x : Int), (y : Int), (z : Int), (b : Int)]) := by
  refine ⟨by simp, fun rest => ?_, fun p hp hne => ?_⟩
  · have := Pos.decRecord_old x y z b rest hx hy hz hb
    simp only [List.cons_append] at this ⊢
    simp only [realDec, this]
  · rcases p with _ | ⟨c0, p⟩
    · exact ⟨.struct, rfl⟩
    · rw [List.cons_prefix_cons] at hp
      obtain ⟨rfl, hp⟩ := hp
      rcases p with _ | ⟨c1, p⟩
      · exact ⟨.struct, rfl⟩
      · rw [List.cons_prefix_cons] at hp
        obtain ⟨rfl, hp⟩ := hp
        have hne' : p ≠ encVarInt b := fun e => hne (by rw [e])
        obtain ⟨e, he⟩ := decVarIntAux_prefix_err 5 _ 0 0 p hp hne'
        exact ⟨e, by simp only [realDec, decRecord, Bool.false_eq_true, if_false, Pos.readU8,
          decVarInt, he]⟩

/-! ### three fixed-width integers, one fixed-width integer -/

theorem hdr_triple (t : IntT) (x y z : Int) (hx : t.inDom x) (hy : t.inDom y) (hz : t.inDom z) :
    ∃ bs, encTriple t x y z = .ok bs ∧ Hdr (decTriple t) bs (Value.ofInts [x, y, z]) := by
  obtain ⟨bx, ex, _⟩ := t.pack_spec x hx
  obtain ⟨by', ey, _⟩ := t.pack_spec y hy
  obtain ⟨bz, ez, _⟩ := t.pack_spec z hz
  have Hz := (hdr_int t z bz hz ez).map (fun z => Value.ofInts [x, y, z])
    (fun bs => do let (z, r) ← t.unpack bs; pure (Value.ofInts [x, y, z], r)) (fun _ => rfl)
  have Hy := (hdr_int t y by' hy ey).body
    (fun y r => do let (z, r) ← t.unpack r; pure (Value.ofInts [x, y, z], r)) bz
    (Value.ofInts [x, y, z]) Hz.2.1 Hz.2.2
    (fun bs => do
      let (y, r) ← t.unpack bs
      let (z, r) ← t.unpack r
      pure (Value.ofInts [x, y, z], r)) (fun _ => rfl)
  have Hx := (hdr_int t x bx hx ex).body
    (fun x r => do
      let (y, r) ← t.unpack r
      let (z, r) ← t.unpack r
      pure (Value.ofInts [x, y, z], r)) (by' ++ bz)
    (Value.ofInts [x, y, z]) Hy.2.1 Hy.2.2 (decTriple t) (fun _ => rfl)
  refine ⟨bx ++ (by' ++ bz), ?_, Hx⟩
  simp [encTriple, ex, ey, ez, bind, Except.bind, pure, Except.pure]

theorem hdr_pitch (f32 scaled : Bool) (i : Int) (h : (pitchT f32).inDom i) :
    ∃ bs, (pitchT f32).pack i = .ok bs ∧ Hdr (realDec (.pitch f32 scaled)) bs (.int i) := by
  obtain ⟨bs, hb, _⟩ := (pitchT f32).pack_spec i h
  exact ⟨bs, hb, (hdr_int _ i bs h hb).map Value.int _ (fun _ => rfl)⟩

/-! ### the law -/

/-- every in-domain value of a custom type is an item of `(realEnc, realDec)` -/
theorem real_item (c : CustomT) (v : Value) (h : realDom c v) :
    ∃ bs, realEnc c v = .ok bs ∧ Hdr (realDec c) bs v := by
  cases c with
  | position newer =>
    obtain ⟨is, rfl, _, hP⟩ := domInts_elim (show domInts posDom v from h)
    obtain ⟨x, y, z, rfl, hx1, hx2, hy1, hy2, hz1, hz2⟩ := posDom_elim hP
    exact ⟨_, by simp only [realEnc, encInts3_ofInts, Pos.encPos_eq],
      hdr_position newer x y z hx1 hx2 hy1 hy2 hz1 hz2⟩
  | secpos =>
    obtain ⟨is, rfl, _, hP⟩ := domInts_elim (show domInts secDom v from h)
    obtain ⟨x, y, z, rfl, hx1, hx2, hy1, hy2, hz1, hz2⟩ := secDom_elim hP
    exact ⟨_, by simp only [realEnc, encInts3_ofInts, Pos.encSecPos_eq],
      hdr_secpos x y z hx1 hx2 hy1 hy2 hz1 hz2⟩
  | record v741 =>
    obtain ⟨is, rfl, _, hP⟩ := domInts_elim (show domInts (recDom v741) v from h)
    obtain ⟨x, y, z, b, rfl, hx1, hx2, hy1, hy2, hz1, hz2, hb1, hb2⟩ := recDom_elim hP
    obtain ⟨x, rfl⟩ := Int.eq_ofNat_of_zero_le hx1
    obtain ⟨y, rfl⟩ := Int.eq_ofNat_of_zero_le hy1
    obtain ⟨z, rfl⟩ := Int.eq_ofNat_of_zero_le hz1
    obtain ⟨b, rfl⟩ := Int.eq_ofNat_of_zero_le hb1
    cases v741
    · simp only [Bool.false_eq_true, if_false] at hy2 hb2
      exact ⟨_, by simp only [realEnc, encInts4_ofInts,
          Pos.encRecord_old x y z b (by omega) (by omega) (by omega)],
        hdr_record_old x y z b (by omega) (by omega) (by omega) (by omega)⟩
    · simp only [if_true] at hy2 hb2
      exact ⟨_, by simp only [realEnc, encInts4_ofInts,
          Pos.encRecord_new x y z b (by omega) (by omega) (by omega)],
        hdr_record_new x y z b (by omega) (by omega) (by omega) (by omega)⟩
  | explRecord =>
    obtain ⟨is, rfl, _, hP⟩ := domInts_elim (show domInts (tripleDom .i8) v from h)
    obtain ⟨x, y, z, rfl, hx, hy, hz⟩ := tripleDom_elim hP
    obtain ⟨bs, h1, h2⟩ := hdr_triple .i8 x y z hx hy hz
    exact ⟨bs, by simp only [realEnc, encInts3_ofInts, h1], h2⟩
  | effectPos =>
    obtain ⟨is, rfl, _, hP⟩ := domInts_elim (show domInts (tripleDom .i32) v from h)
    obtain ⟨x, y, z, rfl, hx, hy, hz⟩ := tripleDom_elim hP
    obtain ⟨bs, h1, h2⟩ := hdr_triple .i32 x y z hx hy hz
    exact ⟨bs, by simp only [realEnc, encInts3_ofInts, h1], h2⟩
  | pitch f32 scaled =>
    cases v with
    | int i =>
      obtain ⟨bs, h1, h2⟩ := hdr_pitch f32 scaled i h
      exact ⟨bs, h1, h2⟩
    | _ => exact h.elim
  | nbt => exact h.elim

/-- a codec all of whose in-domain values are items satisfies `CustomLaw` -/
theorem customLaw_of_items (cc : CustomCodec) (cw : CustomT → Value → Prop)
    (h : ∀ c v, cw c v → ∃ bs, cc.enc c v = .ok bs ∧ Hdr (cc.dec c) bs v) : CustomLaw cc cw := by
  refine ⟨fun c v rest hw => ?_, fun c v bs hw he p hp hne => ?_⟩
  · obtain ⟨bs, h1, h2, h3, _⟩ := h c v hw
    exact ⟨bs, h1, h2, h3 rest⟩
  · obtain ⟨bs', h1, _, _, h4⟩ := h c v hw
    rw [he] at h1; cases h1
    exact h4 p hp hne

/-- the library's custom types (NBT excluded from the domain) obey the law C02 asks for -/
theorem realCustomLaw : CustomLaw realCustom realDom :=
  customLaw_of_items realCustom realDom real_item

end PyCraft
