import PyCraft.Model.C09Status
import PyCraft.Lemmas.Negotiate
/-!
Specification vocabulary and helper lemmas for `PyCraft/Props/C09Status.lean`.
-/
namespace PyCraft.NegS
open PyCraft PyCraft.Neg

/-! ## Specification vocabulary -/

/-- A packet the status reactor ignores. -/
def IsOther (p : StatusPkt) : Prop := p = .other

/-- An action that only the loop (the reactor) produces. -/
def SAct.isLoopAct {J : Type} : SAct J → Bool
  | .sendPing _ => true
  | .disconnect => true
  | .callStatus _ _ => true
  | .callPing _ _ => true
  | _ => false

def SAct.isSendPing {J : Type} : SAct J → Bool
  | .sendPing _ => true
  | _ => false

def SAct.isCallStatus {J : Type} : SAct J → Bool
  | .callStatus _ _ => true
  | _ => false

/-- "Pings exactly when latency was requested", as a property of a `do_ping` rule: on any script
in which a parsable response arrives (after ignorable packets), a ping is sent iff `handle_ping`
was not `False`. -/
def PingIffRequested (dp : HArg → Bool) : Prop :=
  ∀ (p : ConnParams) (ctx : Nat) (hs hp : HArg) (exitCb : Bool) (parse : String → Except Err String)
    (clock : Nat → Nat) (others rest : List StatusPkt) (j d : String),
    (∀ q ∈ others, IsOther q) → parse j = .ok d →
    ((∃ t, SAct.sendPing t ∈
        (statusCallWith dp p ctx hs hp exitCb parse clock (others ++ .response j :: rest)).acts) ↔
      hp ≠ .disabled)

/-- `'k' not in x` where that expression is defined and true. -/
def lacksKey (k : String) : JV → Bool
  | .obj kvs => (lookup kvs k).isNone
  | .arr l => !(l.any (JV.isStr k))
  | .str s => !(hasInfix k.toList s.toList)
  | _ => false

/-- "The reply carries no version, or the server closed without replying": end of stream; or a
non-empty JSON object / a list / a string that does not contain `'version'`; or a JSON object whose
`'version'` is an object / list / string that does not contain `'protocol'`. -/
def noVersion : Reply → Bool
  | .closed => true
  | .json (.obj []) => false
  | .json (.obj kvs) =>
    match lookup kvs "version" with
    | none => true
    | some x => lacksKey "protocol" x
  | .json v => lacksKey "version" v
  | _ => false

/-- "Falls back only when …", as a property of the exception test of
`PlayingStatusReactor.handle_exception`. -/
def FallbackOnlyWhenNoVersion (test : Raised → Bool) : Prop :=
  ∀ (env : VEnv) (kn : List (String × Nat)) (allowed : List Nat) (dflt : Nat) (r : Reply) (v : Nat),
    evalReplyWith test env kn allowed dflt r = .connect v true ↔ (v = dflt ∧ noVersion r = true)

/-- What the five reply shapes of `Neg.StatusReply` stand for. `none`: the reply is outside the first
model's domain. -/
def abstractReply : Reply → Option StatusReply
  | .closed => some .closedBeforeReply
  | .json (.obj []) => some .emptyObj
  | .json (.obj kvs) =>
    match lookup kvs "version" with
    | none => some .noVersion
    | some (.obj xk) =>
      match lookup xk "protocol" with
      | none => some .noProtocolKey
      | some (.int n) =>
        match lookup xk "name" with
        | none => some (.proto n none)
        | some .null => some (.proto n none)
        | some (.str s) => some (.proto n (some s))
        | _ => none
      | _ => none
    | _ => none
  | _ => none

def nameJV : Option String → JV
  | none => .null
  | some s => .str s

/-- The first model's outcome in the vocabulary of this one (`fb`: was it `handle_failure`). -/
def embedOutcome (fb : Bool) : NegOutcome → Outcome
  | .connect v => .connect v fb
  | .mismatch n name b => .raised (.mismatch (.int n) (nameJV name) b)
  | .invalidStatus => .raised .invalidStatus

def StatusReply.isFallbackShape : StatusReply → Bool
  | .proto _ _ => false
  | _ => true

/-! ## The status loop -/

section Loop
variable {J : Type} (parse : String → Except Err J) (clock : Nat → Nat) (doPing : Bool)
  (cs cp : Callee)

theorem runLoopS_nil (st : TSt) : runLoopS parse clock doPing cs cp st [] = (st, [], none) := rfl

theorem runLoopS_interrupted (st : TSt) (script : List StatusPkt) (h : st.interrupt = true) :
    runLoopS parse clock doPing cs cp st script = (st, [], none) := by
  cases script with
  | nil => rfl
  | cons p ps => simp [runLoopS, h]

theorem runLoopS_other (st : TSt) (rest : List StatusPkt) :
    runLoopS parse clock doPing cs cp st (.other :: rest) =
      runLoopS parse clock doPing cs cp st rest := by
  by_cases h : st.interrupt = true
  · rw [runLoopS_interrupted _ _ _ _ _ _ _ h, runLoopS_interrupted _ _ _ _ _ _ _ h]
  · simp [runLoopS, h, reactS]

theorem runLoopS_others (st : TSt) (others rest : List StatusPkt) (ho : ∀ q ∈ others, IsOther q) :
    runLoopS parse clock doPing cs cp st (others ++ rest) =
      runLoopS parse clock doPing cs cp st rest := by
  induction others with
  | nil => rfl
  | cons q qs ih =>
    have hq : q = .other := ho q (by simp)
    subst hq
    rw [List.cons_append, runLoopS_other]
    exact ih (fun q hq => ho q (by simp [hq]))

/-- One step on a live connection, response that parses. -/
theorem runLoopS_response_ok (st : TSt) (j : String) (d : J) (rest : List StatusPkt)
    (hi : st.interrupt = false) (hp : parse j = .ok d) :
    runLoopS parse clock doPing cs cp st (.response j :: rest) =
      if doPing then
        ((runLoopS parse clock doPing cs cp st.tick rest).1,
          [.sendPing (clock st.reads), .callStatus cs d] ++
            (runLoopS parse clock doPing cs cp st.tick rest).2.1,
          (runLoopS parse clock doPing cs cp st.tick rest).2.2)
      else (st.disc, [.disconnect, .callStatus cs d], none) := by
  cases doPing with
  | true => simp [runLoopS, hi, reactS, hp]
  | false =>
    simp [runLoopS, hi, reactS, hp, runLoopS_interrupted parse clock false cs cp st.disc rest rfl]

theorem runLoopS_response_err (st : TSt) (j : String) (e : Err) (rest : List StatusPkt)
    (hi : st.interrupt = false) (hp : parse j = .error e) :
    runLoopS parse clock doPing cs cp st (.response j :: rest) = (st, [], some e) := by
  simp [runLoopS, hi, reactS, hp]

theorem runLoopS_pong (st : TSt) (t : Int) (rest : List StatusPkt) (hi : st.interrupt = false) :
    runLoopS parse clock doPing cs cp st (.pong t :: rest) =
      if doPing then
        (st.tick.disc, [.disconnect, .callPing cp ((clock st.reads : Int) - t)], none)
      else runLoopS parse clock doPing cs cp st rest := by
  cases doPing with
  | true =>
    simp [runLoopS, hi, reactS, runLoopS_interrupted parse clock true cs cp st.tick.disc rest rfl]
  | false => simp [runLoopS, hi, reactS]

/-- Shape of any run from a live connection: only reactor actions; and either nothing was closed
(still connected, not interrupted, no `disconnect` logged), or the loop ended normally right after
one `disconnect` followed by exactly one handler call. -/
theorem runLoopS_shape (script : List StatusPkt) (st : TSt) (hc : st.connected = true)
    (hi : st.interrupt = false) :
    (∀ a ∈ (runLoopS parse clock doPing cs cp st script).2.1, a.isLoopAct = true) ∧
    (((runLoopS parse clock doPing cs cp st script).1.connected = true ∧
        (runLoopS parse clock doPing cs cp st script).1.interrupt = false ∧
        SAct.disconnect ∉ (runLoopS parse clock doPing cs cp st script).2.1) ∨
      ((runLoopS parse clock doPing cs cp st script).2.2 = none ∧
        (runLoopS parse clock doPing cs cp st script).1.connected = false ∧
        (runLoopS parse clock doPing cs cp st script).1.interrupt = true ∧
        ∃ pre a, (runLoopS parse clock doPing cs cp st script).2.1 = pre ++ [.disconnect, a] ∧
          SAct.disconnect ∉ pre ∧ a ≠ .disconnect ∧ a.isLoopAct = true)) := by
  induction script generalizing st with
  | nil => exact ⟨by simp [runLoopS], .inl ⟨hc, hi, by simp [runLoopS]⟩⟩
  | cons pkt rest ih =>
    cases pkt with
    | other =>
      rw [runLoopS_other]
      exact ih st hc hi
    | pong t =>
      rw [runLoopS_pong _ _ _ _ _ _ _ _ hi]
      cases doPing with
      | false => exact ih st hc hi
      | true =>
        refine ⟨by simp [SAct.isLoopAct], .inr ⟨rfl, rfl, rfl, [], _, rfl, by simp, by simp, rfl⟩⟩
    | response j =>
      cases hp : parse j with
      | error e =>
        rw [runLoopS_response_err _ _ _ _ _ _ _ _ _ hi hp]
        exact ⟨by simp, .inl ⟨hc, hi, by simp⟩⟩
      | ok d =>
        rw [runLoopS_response_ok _ _ _ _ _ _ _ _ _ hi hp]
        cases doPing with
        | false =>
          refine ⟨by simp [SAct.isLoopAct], .inr ⟨rfl, rfl, rfl, [], _, rfl, by simp, by simp, rfl⟩⟩
        | true =>
          have ht : st.tick.connected = true := hc
          have hti : st.tick.interrupt = false := hi
          obtain ⟨h1, h2⟩ := ih st.tick ht hti
          simp only [if_true]
          refine ⟨?_, ?_⟩
          · intro a ha
            simp only [List.cons_append, List.nil_append, List.mem_cons] at ha
            rcases ha with rfl | rfl | ha
            · rfl
            · rfl
            · exact h1 a ha
          · rcases h2 with ⟨a1, a2, a3⟩ | ⟨b0, b1, b2, pre, a, e, hpre, hne, hla⟩
            · refine .inl ⟨a1, a2, ?_⟩
              simp only [List.cons_append, List.nil_append, List.mem_cons, reduceCtorEq, false_or]
              exact a3
            · refine .inr ⟨b0, b1, b2, SAct.sendPing (clock st.reads) :: SAct.callStatus cs d :: pre,
                a, ?_, ?_, hne, hla⟩
              · rw [e]; simp
              · simp only [List.mem_cons, reduceCtorEq, false_or]
                exact hpre

/-- The callables invoked are the installed ones. -/
theorem runLoopS_callees (script : List StatusPkt) (st : TSt) :
    ∀ a ∈ (runLoopS parse clock doPing cs cp st script).2.1,
      (∀ w d, a = .callStatus w d → w = cs) ∧ (∀ w l, a = .callPing w l → w = cp) := by
  induction script generalizing st with
  | nil => simp [runLoopS]
  | cons pkt rest ih =>
    by_cases hi : st.interrupt = true
    · rw [runLoopS_interrupted _ _ _ _ _ _ _ hi]; simp
    · have hi' : st.interrupt = false := by simpa using hi
      cases pkt with
      | other => rw [runLoopS_other]; exact ih st
      | pong t =>
        rw [runLoopS_pong _ _ _ _ _ _ _ _ hi']
        cases doPing with
        | false => exact ih st
        | true =>
          intro a ha
          simp only [if_true, List.mem_cons, List.not_mem_nil, or_false] at ha
          rcases ha with rfl | rfl
          · constructor <;> intro _ _ h <;> cases h <;> rfl
          · constructor <;> intro _ _ h <;> cases h <;> rfl
      | response j =>
        cases hp : parse j with
        | error e => rw [runLoopS_response_err _ _ _ _ _ _ _ _ _ hi' hp]; simp
        | ok d =>
          rw [runLoopS_response_ok _ _ _ _ _ _ _ _ _ hi' hp]
          cases doPing with
          | false =>
            intro a ha
            simp only [Bool.false_eq_true, if_false, List.mem_cons, List.not_mem_nil, or_false] at ha
            rcases ha with rfl | rfl
            · constructor <;> intro _ _ h <;> cases h <;> rfl
            · constructor <;> intro _ _ h <;> cases h <;> rfl
          | true =>
            intro a ha
            simp only [if_true, List.cons_append, List.nil_append, List.mem_cons] at ha
            rcases ha with rfl | rfl | ha
            · constructor <;> intro _ _ h <;> cases h <;> rfl
            · constructor <;> intro _ _ h <;> cases h <;> rfl
            · exact ih st.tick a ha

/-- The three possible runs without `do_ping` (see `runLoopS_noping`). -/
def NoPingShape {J : Type} (parse : String → Except Err J) (clock : Nat → Nat) (cs cp : Callee)
    (st : TSt) (script : List StatusPkt) : Prop :=
  (runLoopS parse clock false cs cp st script = (st, [], none) ∧
      ∀ j, StatusPkt.response j ∉ script) ∨
  (∃ others j rest e, script = others ++ .response j :: rest ∧
      (∀ q ∈ others, ∀ j', q ≠ StatusPkt.response j') ∧ parse j = .error e ∧
      runLoopS parse clock false cs cp st script = (st, [], some e)) ∨
  (∃ others j rest d, script = others ++ .response j :: rest ∧
      (∀ q ∈ others, ∀ j', q ≠ StatusPkt.response j') ∧ parse j = .ok d ∧
      runLoopS parse clock false cs cp st script =
        (st.disc, [.disconnect, .callStatus cs d], none))

/-- Without `do_ping` the loop does at most one thing: `disconnect` then the status handler, for
the first response (which must parse); no ping, no latency report, no clock reading. -/
theorem runLoopS_noping (script : List StatusPkt) (st : TSt) (hi : st.interrupt = false) :
    NoPingShape parse clock cs cp st script := by
  induction script with
  | nil => exact .inl ⟨rfl, by simp⟩
  | cons pkt rest ih =>
    have step : ∀ q, (∀ j', q ≠ StatusPkt.response j') →
        runLoopS parse clock false cs cp st (q :: rest) = runLoopS parse clock false cs cp st rest →
        NoPingShape parse clock cs cp st (q :: rest) := by
      intro q hq heq
      rcases ih with ⟨h1, h2⟩ | ⟨o, j, r, e, h1, h2, h3, h4⟩ | ⟨o, j, r, d, h1, h2, h3, h4⟩
      · refine .inl ⟨by rw [heq, h1], ?_⟩
        intro j hj
        rcases List.mem_cons.1 hj with h | h
        · exact hq j h.symm
        · exact h2 j h
      · refine .inr (.inl ⟨q :: o, j, r, e, by rw [h1]; rfl, ?_, h3, by rw [heq, h4]⟩)
        intro q' hq' j'
        rcases List.mem_cons.1 hq' with rfl | h
        · exact hq j'
        · exact h2 q' h j'
      · refine .inr (.inr ⟨q :: o, j, r, d, by rw [h1]; rfl, ?_, h3, by rw [heq, h4]⟩)
        intro q' hq' j'
        rcases List.mem_cons.1 hq' with rfl | h
        · exact hq j'
        · exact h2 q' h j'
    cases pkt with
    | other => exact step _ (fun _ h => by cases h) (runLoopS_other _ _ _ _ _ _ _)
    | pong t =>
      exact step _ (fun _ h => by cases h) (by rw [runLoopS_pong _ _ _ _ _ _ _ _ hi]; rfl)
    | response j =>
      cases hp : parse j with
      | error e =>
        exact .inr (.inl ⟨[], j, rest, e, rfl, by simp, hp,
          runLoopS_response_err _ _ _ _ _ _ _ _ _ hi hp⟩)
      | ok d =>
        refine .inr (.inr ⟨[], j, rest, d, rfl, by simp, hp, ?_⟩)
        rw [runLoopS_response_ok _ _ _ _ _ _ _ _ _ hi hp]
        rfl

/-- Clock bookkeeping.  Every ping is stamped with a reading taken during this run; a latency
report uses the LAST reading taken, minus the time carried by some pong of the script. -/
theorem runLoopS_reads (script : List StatusPkt) (st : TSt) :
    st.reads ≤ (runLoopS parse clock doPing cs cp st script).1.reads ∧
    (∀ t₁, SAct.sendPing t₁ ∈ (runLoopS parse clock doPing cs cp st script).2.1 →
      ∃ i, st.reads ≤ i ∧ i < (runLoopS parse clock doPing cs cp st script).1.reads ∧
        t₁ = clock i) ∧
    (∀ w l, SAct.callPing w l ∈ (runLoopS parse clock doPing cs cp st script).2.1 →
      ∃ t, StatusPkt.pong t ∈ script ∧
        st.reads < (runLoopS parse clock doPing cs cp st script).1.reads ∧
        l = (clock ((runLoopS parse clock doPing cs cp st script).1.reads - 1) : Int) - t) := by
  induction script generalizing st with
  | nil => simp [runLoopS]
  | cons pkt rest ih =>
    by_cases hi : st.interrupt = true
    · rw [runLoopS_interrupted _ _ _ _ _ _ _ hi]; simp
    · have hi' : st.interrupt = false := by simpa using hi
      have lift : (st.reads ≤ (runLoopS parse clock doPing cs cp st rest).1.reads ∧
          (∀ t₁, SAct.sendPing t₁ ∈ (runLoopS parse clock doPing cs cp st rest).2.1 →
            ∃ i, st.reads ≤ i ∧ i < (runLoopS parse clock doPing cs cp st rest).1.reads ∧
              t₁ = clock i) ∧
          (∀ w l, SAct.callPing w l ∈ (runLoopS parse clock doPing cs cp st rest).2.1 →
            ∃ t, StatusPkt.pong t ∈ pkt :: rest ∧
              st.reads < (runLoopS parse clock doPing cs cp st rest).1.reads ∧
              l = (clock ((runLoopS parse clock doPing cs cp st rest).1.reads - 1) : Int) - t)) := by
        obtain ⟨h1, h2, h3⟩ := ih st
        refine ⟨h1, h2, fun w l h => ?_⟩
        obtain ⟨t, ht, hr⟩ := h3 w l h
        exact ⟨t, List.mem_cons_of_mem _ ht, hr⟩
      cases pkt with
      | other => rw [runLoopS_other]; exact lift
      | pong t =>
        rw [runLoopS_pong _ _ _ _ _ _ _ _ hi']
        cases doPing with
        | false => exact lift
        | true =>
          simp only [if_true, TSt.tick, TSt.disc, List.mem_cons, List.not_mem_nil, or_false,
            reduceCtorEq, false_or, SAct.callPing.injEq, Nat.add_sub_cancel]
          refine ⟨by omega, ?_, ?_⟩
          · intro _ h; cases h
          · rintro w l ⟨_, rfl⟩
            exact ⟨t, .inl rfl, by omega, rfl⟩
      | response j =>
        cases hp : parse j with
        | error e => rw [runLoopS_response_err _ _ _ _ _ _ _ _ _ hi' hp]; simp
        | ok d =>
          rw [runLoopS_response_ok _ _ _ _ _ _ _ _ _ hi' hp]
          cases doPing with
          | false => simp [TSt.disc]
          | true =>
            obtain ⟨h1, h2, h3⟩ := ih st.tick
            have hr : st.tick.reads = st.reads + 1 := rfl
            rw [hr] at h1 h2 h3
            simp only [if_true, List.cons_append, List.nil_append, List.mem_cons, reduceCtorEq,
              false_or, SAct.sendPing.injEq]
            refine ⟨by omega, ?_, ?_⟩
            · rintro t₁ (rfl | h)
              · exact ⟨st.reads, Nat.le_refl _, by omega, rfl⟩
              · obtain ⟨i, hi1, hi2, hi3⟩ := h2 t₁ h
                exact ⟨i, by omega, hi2, hi3⟩
            · intro w l h
              obtain ⟨t, ht, hlt, hl⟩ := h3 w l h
              exact ⟨t, by simp [ht], by omega, hl⟩

end Loop

/-! ## `calleeOf`, `doPingOf` -/

theorem calleeOf_spec (h : HArg) :
    (calleeOf h = .noop ↔ h = .disabled) ∧ (calleeOf h = .user ↔ h = .custom) ∧
      (calleeOf h = .printer ↔ h = .dflt) := by
  cases h <;> decide

theorem doPingOf_spec (hp : HArg) : doPingOf hp = true ↔ hp ≠ .disabled := by
  cases hp <;> decide

/-! ## Negotiation on arbitrary replies -/

theorem versionMismatchX_not_eof (env : VEnv) (kn : List (String × Nat)) (sp sv : JV) :
    isEOFError (versionMismatchX env kn sp sv) = false := by
  have key : ∀ (r : Except Err JV), isEOFError (match r with
      | .error e => Raised.py e
      | .ok .null => .mismatch .null sv false
      | .ok x =>
        match fmtD x with
        | some e => .py e
        | none => .mismatch x sv (inIntList x env.supportedProtocols)) = false := by
    intro r
    split <;> (try split) <;> rfl
  unfold versionMismatchX
  exact key _

/-- Whatever `handle_proto_version` is given, it is not a fallback. -/
theorem handleProtoVersionX_cases (proto : JV) :
    (∃ n, proto = .flt (.integral n) ∧ handleProtoVersionX proto = .connectFloat n) ∨
    (∃ n, intKey proto = some n ∧ (∀ m, proto ≠ .flt (.integral m)) ∧
        handleProtoVersionX proto = .connect n.toNat false) ∨
    (intKey proto = none ∧ handleProtoVersionX proto = .raised (.py .other)) := by
  cases proto with
  | flt f =>
    cases f with
    | integral n => exact .inl ⟨n, rfl, rfl⟩
    | fractional => exact .inr (.inr ⟨rfl, rfl⟩)
    | nan => exact .inr (.inr ⟨rfl, rfl⟩)
    | inf => exact .inr (.inr ⟨rfl, rfl⟩)
  | null => exact .inr (.inr ⟨rfl, rfl⟩)
  | bool b => exact .inr (.inl ⟨_, rfl, (fun _ h => by cases h), rfl⟩)
  | int n => exact .inr (.inl ⟨_, rfl, (fun _ h => by cases h), rfl⟩)
  | str s => exact .inr (.inr ⟨rfl, rfl⟩)
  | arr l => exact .inr (.inr ⟨rfl, rfl⟩)
  | obj k => exact .inr (.inr ⟨rfl, rfl⟩)

theorem inIntSet_true (x : JV) (s : List Nat) (h : inIntSet x s = .ok true) :
    ∃ v ∈ s, intKey x = some (v : Int) := by
  unfold inIntSet at h
  split at h
  · cases hk : intKey x with
    | none => simp [hk] at h
    | some n =>
      simp only [hk, Except.ok.injEq] at h
      obtain ⟨v, hv, rfl⟩ := (inZ_iff _ _).1 h
      exact ⟨v, hv, rfl⟩
  · cases h

theorem inIntSet_false (x : JV) (s : List Nat) (h : inIntSet x s = .ok false) :
    ∀ v ∈ s, intKey x ≠ some (v : Int) := by
  unfold inIntSet at h
  split at h
  · cases hk : intKey x with
    | none => intro v _ hv; cases hv
    | some n =>
      simp only [hk, Except.ok.injEq] at h
      intro v hv he
      cases he
      have : inZ (v : Int) s = true := (inZ_iff _ _).2 ⟨v, hv, rfl⟩
      rw [this] at h
      cases h
  · cases h

/-- The three things `afterProto` can do. -/
theorem afterProto_cases (env : VEnv) (kn : List (String × Nat)) (allowed : List Nat) (x proto : JV) :
    (∃ r, afterProto env kn allowed x proto = .raised r ∧ isEOFError r = false) ∨
    (∃ n, afterProto env kn allowed x proto = .connectFloat n) ∨
    (∃ v, v ∈ allowed ∧ intKey proto = some (v : Int) ∧ (∀ m, proto ≠ .flt (.integral m)) ∧
      afterProto env kn allowed x proto = .connect v false) := by
  unfold afterProto
  cases hs : inIntSet proto allowed with
  | error e => exact .inl ⟨_, rfl, rfl⟩
  | ok b =>
    cases b with
    | false =>
      simp only
      cases pyDictGet "name" x with
      | error e => exact .inl ⟨_, rfl, rfl⟩
      | ok name => exact .inl ⟨_, rfl, versionMismatchX_not_eof _ _ _ _⟩
    | true =>
      simp only
      obtain ⟨v, hv, hk⟩ := inIntSet_true proto allowed hs
      rcases handleProtoVersionX_cases proto with ⟨n, _, h⟩ | ⟨n, hn, hne, h⟩ | ⟨hn, _⟩
      · exact .inr (.inl ⟨n, h⟩)
      · rw [hk] at hn
        cases hn
        refine .inr (.inr ⟨v, hv, hk, hne, ?_⟩)
        rw [h]; simp
      · rw [hk] at hn; cases hn

/-- Is the result the `handle_failure()` call? — for `afterVersion`. -/
theorem afterVersion_cases (env : VEnv) (kn : List (String × Nat)) (allowed : List Nat) (dflt : Nat)
    (x : JV) :
    (lacksKey "protocol" x = true ∧ afterVersion env kn allowed dflt x = .connect dflt true) ∨
    (lacksKey "protocol" x = false ∧
      ((∃ r, afterVersion env kn allowed dflt x = .raised r ∧ isEOFError r = false) ∨
       (∃ n, afterVersion env kn allowed dflt x = .connectFloat n) ∨
       (∃ xk proto v, x = .obj xk ∧ lookup xk "protocol" = some proto ∧ v ∈ allowed ∧
          intKey proto = some (v : Int) ∧ (∀ m, proto ≠ .flt (.integral m)) ∧
          afterVersion env kn allowed dflt x = .connect v false))) := by
  unfold afterVersion
  cases x with
  | obj xk =>
    cases hl : lookup xk "protocol" with
    | none => exact .inl ⟨by simp [lacksKey, hl], by simp [pyIn, hl]⟩
    | some proto =>
      refine .inr ⟨by simp [lacksKey, hl], ?_⟩
      simp only [pyIn, hl, Option.isSome_some, pyGetItem]
      rcases afterProto_cases env kn allowed (.obj xk) proto with h | h | ⟨v, h1, h2, h3, h4⟩
      · exact .inl h
      · exact .inr (.inl h)
      · exact .inr (.inr ⟨xk, proto, v, rfl, hl, h1, h2, h3, h4⟩)
  | arr l =>
    cases ha : l.any (JV.isStr "protocol") with
    | false =>
      exact .inl ⟨by simp only [lacksKey, ha, Bool.not_false], by simp only [pyIn, ha]⟩
    | true =>
      exact .inr ⟨by simp only [lacksKey, ha, Bool.not_true],
        .inl ⟨.py .type, by simp only [pyIn, ha, pyGetItem], rfl⟩⟩
  | str s =>
    cases ha : hasInfix "protocol".toList s.toList with
    | false =>
      exact .inl ⟨by simp only [lacksKey, ha, Bool.not_false], by simp only [pyIn, ha]⟩
    | true =>
      exact .inr ⟨by simp only [lacksKey, ha, Bool.not_true],
        .inl ⟨.py .type, by simp only [pyIn, ha, pyGetItem], rfl⟩⟩
  | null => exact .inr ⟨rfl, .inl ⟨_, rfl, rfl⟩⟩
  | bool b => exact .inr ⟨rfl, .inl ⟨_, rfl, rfl⟩⟩
  | int n => exact .inr ⟨rfl, .inl ⟨_, rfl, rfl⟩⟩
  | flt f => exact .inr ⟨rfl, .inl ⟨_, rfl, rfl⟩⟩

end PyCraft.NegS
