import PyCraft.Model.C09Status
import PyCraft.Lemmas.Negotiate
/-!
Specification vocabulary and helper lemmas for `PyCraft/Props/C09Status.lean`.
-/
namespace PyCraft.NegS
open PyCraft PyCraft.Neg

/-! ## Specification vocabulary -/

/-- A packet the status reactor ignores. -/
def IsOther (p : StatusPkt) : Prop := p = .other

/-- An action that only the loop (the reactor) produces. -/
def SAct.isLoopAct {J : Type} : SAct J → Bool
  | .sendPing _ => true
  | .disconnect => true
  | .callStatus _ _ => true
  | .callPing _ _ => true
  | _ => false

def SAct.isSendPing {J : Type} : SAct J → Bool
  | .sendPing _ => true
  | _ => false

def SAct.isCallStatus {J : Type} : SAct J → Bool
  | .callStatus _ _ => true
  | _ => false

/-- "Pings exactly when latency was requested", as a property of a `do_ping` rule: on any script
in which a parsable response arrives (after ignorable packets), a ping is sent iff `handle_ping`
was not `False`. -/
def PingIffRequested (dp : HArg → Bool) : Prop :=
  ∀ (p : ConnParams) (ctx : Nat) (hs hp : HArg) (exitCb : Bool) (parse : String → Except Err String)
    (clock : Nat → Nat) (others rest : List StatusPkt) (j d : String),
    (∀ q ∈ others, IsOther q) → parse j = .ok d →
    ((∃ t, SAct.sendPing t ∈
        (statusCallWith dp p ctx hs hp exitCb parse clock (others ++ .response j :: rest)).acts) ↔
      hp ≠ .disabled)

/-- `'k' not in x` where that expression is defined and true. -/
def lacksKey (k : String) : JV → Bool
  | .obj kvs => (lookup kvs k).isNone
  | .arr l => !(l.any (JV.isStr k))
  | .str s => !(hasInfix k.toList s.toList)
  | _ => false

/-- "The reply carries no version, or the server closed without replying": end of stream; or a
non-empty JSON object / a list / a string that does not contain `'version'`; or a JSON object whose
`'version'` is an object / list / string that does not contain `'protocol'`. -/
def noVersion : Reply → Bool
  | .closed => true
  | .json (.obj []) => false
  | .json (.obj kvs) =>
    match lookup kvs "version" with
    | none => true
    | some x => lacksKey "protocol" x
  | .json v => lacksKey "version" v
  | _ => false

/-- "Falls back only when …", as a property of the exception test of
`PlayingStatusReactor.handle_exception`. -/
def FallbackOnlyWhenNoVersion (test : Raised → Bool) : Prop :=
  ∀ (env : VEnv) (kn : List (String × Nat)) (allowed : List Nat) (dflt : Nat) (r : Reply) (v : Nat),
    evalReplyWith test env kn allowed dflt r = .connect v true ↔ (v = dflt ∧ noVersion r = true)

/-- What the five reply shapes of `Neg.StatusReply` stand for. `none`: the reply is outside the first
model's domain. -/
def abstractReply : Reply → Option StatusReply
  | .closed => some .closedBeforeReply
  | .json (.obj []) => some .emptyObj
  | .json (.obj kvs) =>
    match lookup kvs "version" with
    | none => some .noVersion
    | some (.obj xk) =>
      match lookup xk "protocol" with
      | none => some .noProtocolKey
      | some (.int n) =>
        match lookup xk "name" with
        | none => some (.proto n none)
        | some .null => some (.proto n none)
        | some (.str s) => some (.proto n (some s))
        | _ => none
      | _ => none
    | _ => none
  | _ => none

def nameJV : Option String → JV
  | none => .null
  | some s => .str s

/-- The first model's outcome in the vocabulary of this one (`fb`: was it `handle_failure`). -/
def embedOutcome (fb : Bool) : NegOutcome → Outcome
  | .connect v => .connect v fb
  | .mismatch n name b => .raised (.mismatch (.int n) (nameJV name) b)
  | .invalidStatus => .raised .invalidStatus

def isFallbackShape : StatusReply → Bool
  | .proto _ _ => false
  | _ => true

/-! ## The status loop -/

section Loop
variable {J : Type} (parse : String → Except Err J) (clock : Nat → Nat) (doPing : Bool)
  (cs cp : Callee)

theorem runLoopS_nil (st : TSt) : runLoopS parse clock doPing cs cp st [] = (st, [], none) := rfl

theorem runLoopS_interrupted (st : TSt) (script : List StatusPkt) (h : st.interrupt = true) :
    runLoopS parse clock doPing cs cp st script = (st, [], none) := by
  cases script with
  | nil => rfl
  | cons p ps => simp [runLoopS, h]

theorem runLoopS_other (st : TSt) (rest : List StatusPkt) :
    runLoopS parse clock doPing cs cp st (.other :: rest) =
      runLoopS parse clock doPing cs cp st rest := by
  by_cases h : st.interrupt = true
  · rw [runLoopS_interrupted _ _ _ _ _ _ _ h, runLoopS_interrupted _ _ _ _ _ _ _ h]
  · simp [runLoopS, h, reactS]

theorem runLoopS_others (st : TSt) (others rest : List StatusPkt) (ho : ∀ q ∈ others, IsOther q) :
    runLoopS parse clock doPing cs cp st (others ++ rest) =
      runLoopS parse clock doPing cs cp st rest := by
  induction others with
  | nil => rfl
  | cons q qs ih =>
    have hq : q = .other := ho q (by simp)
    subst hq
    rw [List.cons_append, runLoopS_other]
    exact ih (fun q hq => ho q (by simp [hq]))

/-- One step on a live connection, response that parses. -/
theorem runLoopS_response_ok (st : TSt) (j : String) (d : J) (rest : List StatusPkt)
    (hi : st.interrupt = false) (hp : parse j = .ok d) :
    runLoopS parse clock doPing cs cp st (.response j :: rest) =
      if doPing then
        ((runLoopS parse clock doPing cs cp st.tick rest).1,
          [.sendPing (clock st.reads), .callStatus cs d] ++
            (runLoopS parse clock doPing cs cp st.tick rest).2.1,
          (runLoopS parse clock doPing cs cp st.tick rest).2.2)
      else (st.disc, [.disconnect, .callStatus cs d], none) := by
  cases doPing with
  | true => simp [runLoopS, hi, reactS, hp]
  | false =>
    simp [runLoopS, hi, reactS, hp, runLoopS_interrupted parse clock false cs cp st.disc rest rfl]

theorem runLoopS_response_err (st : TSt) (j : String) (e : Err) (rest : List StatusPkt)
    (hi : st.interrupt = false) (hp : parse j = .error e) :
    runLoopS parse clock doPing cs cp st (.response j :: rest) = (st, [], some e) := by
  simp [runLoopS, hi, reactS, hp]

theorem runLoopS_pong (st : TSt) (t : Int) (rest : List StatusPkt) (hi : st.interrupt = false) :
    runLoopS parse clock doPing cs cp st (.pong t :: rest) =
      if doPing then
        (st.tick.disc, [.disconnect, .callPing cp ((clock st.reads : Int) - t)], none)
      else runLoopS parse clock doPing cs cp st rest := by
  cases doPing with
  | true =>
    simp [runLoopS, hi, reactS, runLoopS_interrupted parse clock true cs cp st.tick.disc rest rfl]
  | false => simp [runLoopS, hi, reactS]

/-- Shape of any run from a live connection: only reactor actions; and either nothing was closed
(still connected, not interrupted, no `disconnect` logged), or the loop ended normally right after
one `disconnect` followed by exactly one handler call. -/
theorem runLoopS_shape (script : List StatusPkt) (st : TSt) (hc : st.connected = true)
    (hi : st.interrupt = false) :
    (∀ a ∈ (runLoopS parse clock doPing cs cp st script).2.1, a.isLoopAct = true) ∧
    (((runLoopS parse clock doPing cs cp st script).1.connected = true ∧
        (runLoopS parse clock doPing cs cp st script).1.interrupt = false ∧
        SAct.disconnect ∉ (runLoopS parse clock doPing cs cp st script).2.1) ∨
      ((runLoopS parse clock doPing cs cp st script).2.2 = none ∧
        (runLoopS parse clock doPing cs cp st script).1.connected = false ∧
        (runLoopS parse clock doPing cs cp st script).1.interrupt = true ∧
        ∃ pre a, (runLoopS parse clock doPing cs cp st script).2.1 = pre ++ [.disconnect, a] ∧
          SAct.disconnect ∉ pre ∧
          (((∃ d, a = .callStatus cs d) ∧ doPing = false) ∨
            ((∃ l, a = .callPing cp l) ∧ doPing = true)))) := by
  induction script generalizing st with
  | nil => exact ⟨by simp [runLoopS], .inl ⟨hc, hi, by simp [runLoopS]⟩⟩
  | cons pkt rest ih =>
    cases pkt with
    | other =>
      rw [runLoopS_other]
      exact ih st hc hi
    | pong t =>
      rw [runLoopS_pong _ _ _ _ _ _ _ _ hi]
      cases doPing with
      | false => exact ih st hc hi
      | true =>
        refine ⟨by simp [SAct.isLoopAct], .inr ⟨rfl, rfl, rfl, [], _, rfl, by simp,
          .inr ⟨⟨_, rfl⟩, rfl⟩⟩⟩
    | response j =>
      cases hp : parse j with
      | error e =>
        rw [runLoopS_response_err _ _ _ _ _ _ _ _ _ hi hp]
        exact ⟨by simp, .inl ⟨hc, hi, by simp⟩⟩
      | ok d =>
        rw [runLoopS_response_ok _ _ _ _ _ _ _ _ _ hi hp]
        cases doPing with
        | false =>
          refine ⟨by simp [SAct.isLoopAct], .inr ⟨rfl, rfl, rfl, [], _, rfl, by simp,
            .inl ⟨⟨_, rfl⟩, rfl⟩⟩⟩
        | true =>
          have ht : st.tick.connected = true := hc
          have hti : st.tick.interrupt = false := hi
          obtain ⟨h1, h2⟩ := ih st.tick ht hti
          rw [if_pos rfl]
          refine ⟨?_, ?_⟩
          · intro a ha
            simp only [List.cons_append, List.nil_append, List.mem_cons] at ha
            rcases ha with rfl | rfl | ha
            · rfl
            · rfl
            · exact h1 a ha
          · rcases h2 with ⟨a1, a2, a3⟩ | ⟨b0, b1, b2, pre, a, e, hpre, hla⟩
            · refine .inl ⟨a1, a2, ?_⟩
              simp only [List.cons_append, List.nil_append, List.mem_cons, reduceCtorEq, false_or]
              exact a3
            · refine .inr ⟨b0, b1, b2, SAct.sendPing (clock st.reads) :: SAct.callStatus cs d :: pre,
                a, ?_, ?_, hla⟩
              · rw [e]; simp
              · simp only [List.mem_cons, reduceCtorEq, false_or]
                exact hpre

/-- The callables invoked are the installed ones. -/
theorem runLoopS_callees (script : List StatusPkt) (st : TSt) :
    ∀ a ∈ (runLoopS parse clock doPing cs cp st script).2.1,
      (∀ w d, a = .callStatus w d → w = cs) ∧ (∀ w l, a = .callPing w l → w = cp) := by
  induction script generalizing st with
  | nil => simp [runLoopS]
  | cons pkt rest ih =>
    by_cases hi : st.interrupt = true
    · rw [runLoopS_interrupted _ _ _ _ _ _ _ hi]; simp
    · have hi' : st.interrupt = false := by simpa using hi
      cases pkt with
      | other => rw [runLoopS_other]; exact ih st
      | pong t =>
        rw [runLoopS_pong _ _ _ _ _ _ _ _ hi']
        cases doPing with
        | false => exact ih st
        | true =>
          intro a ha
          simp only [if_true, List.mem_cons, List.not_mem_nil, or_false] at ha
          rcases ha with rfl | rfl
          · constructor <;> intro _ _ h <;> cases h <;> rfl
          · constructor <;> intro _ _ h <;> cases h <;> rfl
      | response j =>
        cases hp : parse j with
        | error e => rw [runLoopS_response_err _ _ _ _ _ _ _ _ _ hi' hp]; simp
        | ok d =>
          rw [runLoopS_response_ok _ _ _ _ _ _ _ _ _ hi' hp]
          cases doPing with
          | false =>
            intro a ha
            simp only [Bool.false_eq_true, if_false, List.mem_cons, List.not_mem_nil, or_false] at ha
            rcases ha with rfl | rfl
            · constructor <;> intro _ _ h <;> cases h <;> rfl
            · constructor <;> intro _ _ h <;> cases h <;> rfl
          | true =>
            intro a ha
            simp only [if_true, List.cons_append, List.nil_append, List.mem_cons] at ha
            rcases ha with rfl | rfl | ha
            · constructor <;> intro _ _ h <;> cases h <;> rfl
            · constructor <;> intro _ _ h <;> cases h <;> rfl
            · exact ih st.tick a ha

/-- The three possible runs without `do_ping` (see `runLoopS_noping`). -/
def NoPingShape {J : Type} (parse : String → Except Err J) (clock : Nat → Nat) (cs cp : Callee)
    (st : TSt) (script : List StatusPkt) : Prop :=
  (runLoopS parse clock false cs cp st script = (st, [], none) ∧
      ∀ j, StatusPkt.response j ∉ script) ∨
  (∃ others j rest e, script = others ++ .response j :: rest ∧
      (∀ q ∈ others, ∀ j', q ≠ StatusPkt.response j') ∧ parse j = .error e ∧
      runLoopS parse clock false cs cp st script = (st, [], some e)) ∨
  (∃ others j rest d, script = others ++ .response j :: rest ∧
      (∀ q ∈ others, ∀ j', q ≠ StatusPkt.response j') ∧ parse j = .ok d ∧
      runLoopS parse clock false cs cp st script =
        (st.disc, [.disconnect, .callStatus cs d], none))

/-- Without `do_ping` the loop does at most one thing: `disconnect` then the status handler, for
the first response (which must parse); no ping, no latency report, no clock reading. -/
theorem runLoopS_noping (script : List StatusPkt) (st : TSt) (hi : st.interrupt = false) :
    NoPingShape parse clock cs cp st script := by
  induction script with
  | nil => exact .inl ⟨rfl, by simp⟩
  | cons pkt rest ih =>
    have step : ∀ q, (∀ j', q ≠ StatusPkt.response j') →
        runLoopS parse clock false cs cp st (q :: rest) = runLoopS parse clock false cs cp st rest →
        NoPingShape parse clock cs cp st (q :: rest) := by
      intro q hq heq
      rcases ih with ⟨h1, h2⟩ | ⟨o, j, r, e, h1, h2, h3, h4⟩ | ⟨o, j, r, d, h1, h2, h3, h4⟩
      · refine .inl ⟨by rw [heq, h1], ?_⟩
        intro j hj
        rcases List.mem_cons.1 hj with h | h
        · exact hq j h.symm
        · exact h2 j h
      · refine .inr (.inl ⟨q :: o, j, r, e, by rw [h1]; rfl, ?_, h3, by rw [heq, h4]⟩)
        intro q' hq' j'
        rcases List.mem_cons.1 hq' with rfl | h
        · exact hq j'
        · exact h2 q' h j'
      · refine .inr (.inr ⟨q :: o, j, r, d, by rw [h1]; rfl, ?_, h3, by rw [heq, h4]⟩)
        intro q' hq' j'
        rcases List.mem_cons.1 hq' with rfl | h
        · exact hq j'
        · exact h2 q' h j'
    cases pkt with
    | other => exact step _ (fun _ h => by cases h) (runLoopS_other _ _ _ _ _ _ _)
    | pong t =>
      exact step _ (fun _ h => by cases h) (by rw [runLoopS_pong _ _ _ _ _ _ _ _ hi]; rfl)
    | response j =>
      cases hp : parse j with
      | error e =>
        exact .inr (.inl ⟨[], j, rest, e, rfl, by simp, hp,
          runLoopS_response_err _ _ _ _ _ _ _ _ _ hi hp⟩)
      | ok d =>
        refine .inr (.inr ⟨[], j, rest, d, rfl, by simp, hp, ?_⟩)
        rw [runLoopS_response_ok _ _ _ _ _ _ _ _ _ hi hp]
        rfl

/-- Clock bookkeeping.  Every ping is stamped with a reading taken during this run; a latency
report uses the LAST reading taken, minus the time carried by some pong of the script. -/
theorem runLoopS_reads (script : List StatusPkt) (st : TSt) :
    st.reads ≤ (runLoopS parse clock doPing cs cp st script).1.reads ∧
    (∀ t₁, SAct.sendPing t₁ ∈ (runLoopS parse clock doPing cs cp st script).2.1 →
      ∃ i, st.reads ≤ i ∧ i < (runLoopS parse clock doPing cs cp st script).1.reads ∧
        t₁ = clock i) ∧
    (∀ w l, SAct.callPing w l ∈ (runLoopS parse clock doPing cs cp st script).2.1 →
      ∃ t, StatusPkt.pong t ∈ script ∧
        st.reads < (runLoopS parse clock doPing cs cp st script).1.reads ∧
        l = (clock ((runLoopS parse clock doPing cs cp st script).1.reads - 1) : Int) - t) := by
  induction script generalizing st with
  | nil => simp [runLoopS]
  | cons pkt rest ih =>
    by_cases hi : st.interrupt = true
    · rw [runLoopS_interrupted _ _ _ _ _ _ _ hi]; simp
    · have hi' : st.interrupt = false := by simpa using hi
      have lift : (st.reads ≤ (runLoopS parse clock doPing cs cp st rest).1.reads ∧
          (∀ t₁, SAct.sendPing t₁ ∈ (runLoopS parse clock doPing cs cp st rest).2.1 →
            ∃ i, st.reads ≤ i ∧ i < (runLoopS parse clock doPing cs cp st rest).1.reads ∧
              t₁ = clock i) ∧
          (∀ w l, SAct.callPing w l ∈ (runLoopS parse clock doPing cs cp st rest).2.1 →
            ∃ t, StatusPkt.pong t ∈ pkt :: rest ∧
              st.reads < (runLoopS parse clock doPing cs cp st rest).1.reads ∧
              l = (clock ((runLoopS parse clock doPing cs cp st rest).1.reads - 1) : Int) - t)) := by
        obtain ⟨h1, h2, h3⟩ := ih st
        refine ⟨h1, h2, fun w l h => ?_⟩
        obtain ⟨t, ht, hr⟩ := h3 w l h
        exact ⟨t, List.mem_cons_of_mem _ ht, hr⟩
      cases pkt with
      | other => rw [runLoopS_other]; exact lift
      | pong t =>
        rw [runLoopS_pong _ _ _ _ _ _ _ _ hi']
        cases doPing with
        | false => exact lift
        | true =>
          simp only [if_true, TSt.tick, TSt.disc, List.mem_cons, List.not_mem_nil, or_false,
            reduceCtorEq, false_or, SAct.callPing.injEq, Nat.add_sub_cancel]
          refine ⟨by omega, ?_, ?_⟩
          · intro _ h; cases h
          · rintro w l ⟨_, rfl⟩
            exact ⟨t, .inl rfl, by omega, rfl⟩
      | response j =>
        cases hp : parse j with
        | error e => rw [runLoopS_response_err _ _ _ _ _ _ _ _ _ hi' hp]; simp
        | ok d =>
          rw [runLoopS_response_ok _ _ _ _ _ _ _ _ _ hi' hp]
          cases doPing with
          | false => simp [TSt.disc]
          | true =>
            obtain ⟨h1, h2, h3⟩ := ih st.tick
            have hr : st.tick.reads = st.reads + 1 := rfl
            rw [hr] at h1 h2 h3
            simp only [if_true, List.cons_append, List.nil_append, List.mem_cons, reduceCtorEq,
              false_or, SAct.sendPing.injEq]
            refine ⟨by omega, ?_, ?_⟩
            · rintro t₁ (rfl | h)
              · exact ⟨st.reads, Nat.le_refl _, by omega, rfl⟩
              · obtain ⟨i, hi1, hi2, hi3⟩ := h2 t₁ h
                exact ⟨i, by omega, hi2, hi3⟩
            · intro w l h
              obtain ⟨t, ht, hlt, hl⟩ := h3 w l h
              exact ⟨t, by simp [ht], by omega, hl⟩

end Loop

/-! ## The networking thread around the loop -/

/-- The three ways a status thread can stand at the end of a server script. -/
def ThreadShape {J : Type} (doPing : Bool) (cs cp : Callee) (exitCb : Bool) (frames : List Frame)
    (run : StatusRunS J) : Prop :=
  -- still waiting for packets: nothing closed
  (∃ acts, run = ⟨frames, acts, true, false, none⟩ ∧ (∀ a ∈ acts, a.isLoopAct = true) ∧
      SAct.disconnect ∉ acts) ∨
  -- an exception ended the loop: handlers, then an immediate disconnect; no exit callback
  (∃ pre e, run = ⟨frames, pre ++ [.excHandlers e, .disconnectImmediate], false, true, some e⟩ ∧
      (∀ a ∈ pre, a.isLoopAct = true) ∧ SAct.disconnect ∉ pre) ∨
  -- normal end: one `disconnect`, then the one handler call of that packet, then the exit callback
  (∃ pre a, run = ⟨frames, pre ++ [.disconnect, a] ++ (if exitCb then [.exit] else []), false, true,
        none⟩ ∧
      (∀ a ∈ pre, a.isLoopAct = true) ∧ SAct.disconnect ∉ pre ∧
      (((∃ d, a = .callStatus cs d) ∧ doPing = false) ∨ ((∃ l, a = .callPing cp l) ∧ doPing = true)))

theorem threadRun_shape {J : Type} (parse : String → Except Err J) (clock : Nat → Nat)
    (doPing : Bool) (cs cp : Callee) (exitCb : Bool) (frames : List Frame)
    (script : List StatusPkt) :
    ThreadShape doPing cs cp exitCb frames
      (threadRun parse clock doPing cs cp exitCb frames script) := by
  obtain ⟨h1, h2⟩ := runLoopS_shape parse clock doPing cs cp script TSt.init rfl rfl
  unfold threadRun
  generalize runLoopS parse clock doPing cs cp TSt.init script = res at h1 h2
  obtain ⟨st, acts, err⟩ := res
  simp only at h1 h2
  rcases h2 with ⟨a1, a2, a3⟩ | ⟨b0, b1, b2, pre, a, e, hpre, hla⟩
  · cases err with
    | some e => exact .inr (.inl ⟨acts, e, rfl, h1, a3⟩)
    | none =>
      refine .inl ⟨acts, ?_, h1, a3⟩
      simp only [a2, Bool.false_eq_true, if_false, a1]
  · subst b0
    subst e
    refine .inr (.inr ⟨pre, a, ?_, fun x hx => h1 x (by simp [hx]), hpre, hla⟩)
    simp only [b2, if_true, b1, Bool.not_false, Bool.true_and]

def SAct.isExit {J : Type} : SAct J → Bool
  | .exit => true
  | _ => false

/-- Consequences of `ThreadShape` for the exit callback. -/
theorem ThreadShape.exit_last {J : Type} {doPing : Bool} {cs cp : Callee} {exitCb : Bool}
    {frames : List Frame} {run : StatusRunS J} (h : ThreadShape doPing cs cp exitCb frames run) :
    (SAct.exit ∈ run.acts ↔ exitCb = true ∧ SAct.disconnect ∈ run.acts) ∧
    (SAct.exit ∈ run.acts → run.acts.getLast? = some .exit ∧ run.connected = false ∧
      run.threadEnded = true ∧ run.error = none) ∧
    (SAct.disconnect ∈ run.acts → run.connected = false ∧ run.threadEnded = true ∧
      run.error = none) ∧
    run.acts.countP SAct.isExit ≤ 1 := by
  have nl : ∀ (l : List (SAct J)), (∀ a ∈ l, a.isLoopAct = true) → SAct.exit ∉ l :=
    fun l hl he => by cases hl _ he
  have nc : ∀ (l : List (SAct J)), (∀ a ∈ l, a.isLoopAct = true) → l.countP SAct.isExit = 0 := by
    intro l hl
    rw [List.countP_eq_zero]
    intro a ha
    have := hl a ha
    cases a <;> simp_all [SAct.isLoopAct, SAct.isExit]
  rcases h with ⟨acts, rfl, h1, h2⟩ | ⟨pre, e, rfl, h1, h2⟩ | ⟨pre, a, rfl, h1, h2, h3⟩
  · refine ⟨⟨fun he => absurd he (nl _ h1), fun he => absurd he.2 h2⟩,
      fun he => absurd he (nl _ h1), fun he => absurd he h2, ?_⟩
    simp only [nc _ h1]; omega
  · have hne : SAct.exit ∉ pre ++ [SAct.excHandlers e, .disconnectImmediate] := by
      simp only [List.mem_append, List.mem_cons, List.not_mem_nil, or_false, reduceCtorEq]
      exact nl _ h1
    have hnd : SAct.disconnect ∉ pre ++ [SAct.excHandlers e, .disconnectImmediate] := by
      simp only [List.mem_append, List.mem_cons, List.not_mem_nil, or_false, reduceCtorEq]
      exact h2
    refine ⟨⟨fun he => absurd he hne, fun he => absurd he.2 hnd⟩, fun he => absurd he hne,
      fun he => absurd he hnd, ?_⟩
    simp only [List.countP_append, nc _ h1, List.countP_cons, List.countP_nil, SAct.isExit]
    simp
  · have hae : a ≠ .exit := by
      rcases h3 with ⟨⟨d, rfl⟩, _⟩ | ⟨⟨l, rfl⟩, _⟩ <;> exact fun h => by cases h
    have haex : SAct.isExit a = false := by
      rcases h3 with ⟨⟨d, rfl⟩, _⟩ | ⟨⟨l, rfl⟩, _⟩ <;> rfl
    cases exitCb with
    | false =>
      have hne : SAct.exit ∉ pre ++ [SAct.disconnect, a] ++ [] := by
        simp only [List.append_nil, List.mem_append, List.mem_cons, List.not_mem_nil, or_false,
          reduceCtorEq, false_or, not_or]
        exact ⟨nl _ h1, fun h => hae h.symm⟩
      refine ⟨⟨fun he => absurd he hne, fun he => by cases he.1⟩, fun he => absurd he hne,
        fun _ => ⟨rfl, rfl, rfl⟩, ?_⟩
      simp [List.countP_append, nc _ h1, SAct.isExit]
    | true =>
      refine ⟨⟨fun _ => ⟨rfl, by simp⟩, fun _ => by simp⟩, fun _ => ⟨by simp, rfl, rfl, rfl⟩,
        fun _ => ⟨rfl, rfl, rfl⟩, ?_⟩
      simp [List.countP_append, nc _ h1, List.countP_cons, SAct.isExit]

/-- Everything the thread logs is a loop action or one of the three closing actions. -/
theorem threadRun_acts_mem {J : Type} (parse : String → Except Err J) (clock : Nat → Nat)
    (doPing : Bool) (cs cp : Callee) (exitCb : Bool) (frames : List Frame)
    (script : List StatusPkt) (a : SAct J)
    (h : a ∈ (threadRun parse clock doPing cs cp exitCb frames script).acts) :
    a ∈ (runLoopS parse clock doPing cs cp TSt.init script).2.1 ∨ a = .exit ∨
      a = .disconnectImmediate ∨ ∃ e, a = .excHandlers e := by
  unfold threadRun at h
  generalize runLoopS parse clock doPing cs cp TSt.init script = res at h ⊢
  obtain ⟨st, acts, err⟩ := res
  cases err with
  | some e =>
    simp only [List.mem_append, List.mem_cons, List.not_mem_nil, or_false] at h
    rcases h with h | rfl | rfl
    · exact .inl h
    · exact .inr (.inr (.inr ⟨e, rfl⟩))
    · exact .inr (.inr (.inl rfl))
  | none =>
    simp only at h
    split at h
    · simp only [List.mem_append] at h
      rcases h with h | h
      · exact .inl h
      · split at h
        · simp only [List.mem_cons, List.not_mem_nil, or_false] at h
          exact .inr (.inl h)
        · cases h
    · exact .inl h

/-- Every loop action is in the thread's log. -/
theorem threadRun_acts_sub {J : Type} (parse : String → Except Err J) (clock : Nat → Nat)
    (doPing : Bool) (cs cp : Callee) (exitCb : Bool) (frames : List Frame)
    (script : List StatusPkt) (a : SAct J)
    (h : a ∈ (runLoopS parse clock doPing cs cp TSt.init script).2.1) :
    a ∈ (threadRun parse clock doPing cs cp exitCb frames script).acts := by
  unfold threadRun
  generalize runLoopS parse clock doPing cs cp TSt.init script = res at h ⊢
  obtain ⟨st, acts, err⟩ := res
  cases err with
  | some e => simp only [List.mem_append]; exact .inl h
  | none =>
    simp only
    split
    · simp only [List.mem_append]; exact .inl h
    · exact h

/-- Without `do_ping` no ping is sent and no latency reported, whatever arrives. -/
theorem runLoopS_false_acts {J : Type} (parse : String → Except Err J) (clock : Nat → Nat)
    (cs cp : Callee) (script : List StatusPkt) (st : TSt) (hi : st.interrupt = false) :
    ∀ a ∈ (runLoopS parse clock false cs cp st script).2.1,
      (∀ t, a ≠ .sendPing t) ∧ (∀ w l, a ≠ .callPing w l) := by
  rcases runLoopS_noping parse clock cs cp script st hi with ⟨h, _⟩ | ⟨_, _, _, _, _, _, _, h⟩ |
    ⟨_, _, _, _, _, _, _, h⟩ <;> rw [h] <;> simp

/-! ## `calleeOf`, `doPingOf` -/

theorem calleeOf_spec (h : HArg) :
    (calleeOf h = .noop ↔ h = .disabled) ∧ (calleeOf h = .user ↔ h = .custom) ∧
      (calleeOf h = .printer ↔ h = .dflt) := by
  cases h <;> decide

theorem doPingOf_spec (hp : HArg) : doPingOf hp = true ↔ hp ≠ .disabled := by
  cases hp <;> decide

/-! ## Negotiation on arbitrary replies -/

theorem versionMismatchX_not_eof (env : VEnv) (kn : List (String × Nat)) (sp sv : JV) :
    isEOFError (versionMismatchX env kn sp sv) = false := by
  have key : ∀ (r : Except Err JV), isEOFError (match r with
      | .error e => Raised.py e
      | .ok .null => .mismatch .null sv false
      | .ok x =>
        match fmtD x with
        | some e => .py e
        | none => .mismatch x sv (inIntList x env.supportedProtocols)) = false := by
    intro r
    split <;> (try split) <;> rfl
  unfold versionMismatchX
  exact key _

/-- Whatever `handle_proto_version` is given, it is not a fallback. -/
theorem handleProtoVersionX_cases (proto : JV) :
    (∃ n, proto = .flt (.integral n) ∧ handleProtoVersionX proto = .connectFloat n) ∨
    (∃ n, intKey proto = some n ∧ (∀ m, proto ≠ .flt (.integral m)) ∧
        handleProtoVersionX proto = .connect n.toNat false) ∨
    (intKey proto = none ∧ handleProtoVersionX proto = .raised (.py .other)) := by
  cases proto with
  | flt f =>
    cases f with
    | integral n => exact .inl ⟨n, rfl, rfl⟩
    | fractional => exact .inr (.inr ⟨rfl, rfl⟩)
    | nan => exact .inr (.inr ⟨rfl, rfl⟩)
    | inf => exact .inr (.inr ⟨rfl, rfl⟩)
  | null => exact .inr (.inr ⟨rfl, rfl⟩)
  | bool b => exact .inr (.inl ⟨_, rfl, (fun _ h => by cases h), rfl⟩)
  | int n => exact .inr (.inl ⟨_, rfl, (fun _ h => by cases h), rfl⟩)
  | str s => exact .inr (.inr ⟨rfl, rfl⟩)
  | arr l => exact .inr (.inr ⟨rfl, rfl⟩)
  | obj k => exact .inr (.inr ⟨rfl, rfl⟩)

theorem inIntSet_true (x : JV) (s : List Nat) (h : inIntSet x s = .ok true) :
    ∃ v ∈ s, intKey x = some (v : Int) := by
  unfold inIntSet at h
  split at h
  · cases hk : intKey x with
    | none => simp [hk] at h
    | some n =>
      simp only [hk, Except.ok.injEq] at h
      obtain ⟨v, hv, rfl⟩ := (inZ_iff _ _).1 h
      exact ⟨v, hv, rfl⟩
  · cases h

theorem inIntSet_false (x : JV) (s : List Nat) (h : inIntSet x s = .ok false) :
    ∀ v ∈ s, intKey x ≠ some (v : Int) := by
  unfold inIntSet at h
  split at h
  · cases hk : intKey x with
    | none => intro v _ hv; cases hv
    | some n =>
      simp only [hk, Except.ok.injEq] at h
      intro v hv he
      cases he
      have : inZ (v : Int) s = true := (inZ_iff _ _).2 ⟨v, hv, rfl⟩
      rw [this] at h
      cases h
  · cases h

/-- Where a `VersionMismatch` with given attributes can come from, for `x = status['version']`. -/
def MismatchOrigin (env : VEnv) (kn : List (String × Nat)) (allowed : List Nat) (x : JV)
    (sp sv : JV) (b : Bool) : Prop :=
  ∃ xk proto, x = .obj xk ∧ lookup xk "protocol" = some proto ∧
    inIntSet proto allowed = .ok false ∧
    versionMismatchX env kn proto ((lookup xk "name").getD .null) = .mismatch sp sv b

/-- The three things `afterProto` can do. -/
theorem afterProto_cases (env : VEnv) (kn : List (String × Nat)) (allowed : List Nat) (x proto : JV) :
    (∃ r, afterProto env kn allowed x proto = .raised r ∧ isEOFError r = false ∧
      ∀ sp sv b, r = .mismatch sp sv b → ∃ name, pyDictGet "name" x = .ok name ∧
        inIntSet proto allowed = .ok false ∧ versionMismatchX env kn proto name = .mismatch sp sv b) ∨
    (∃ n, afterProto env kn allowed x proto = .connectFloat n ∧ proto = .flt (.integral n) ∧
      ∃ v ∈ allowed, (v : Int) = n) ∨
    (∃ v, v ∈ allowed ∧ intKey proto = some (v : Int) ∧ (∀ m, proto ≠ .flt (.integral m)) ∧
      afterProto env kn allowed x proto = .connect v false) := by
  unfold afterProto
  cases hs : inIntSet proto allowed with
  | error e => exact .inl ⟨_, rfl, rfl, fun _ _ _ h => by cases h⟩
  | ok b =>
    cases b with
    | false =>
      simp only
      cases hn : pyDictGet "name" x with
      | error e => exact .inl ⟨_, rfl, rfl, fun _ _ _ h => by cases h⟩
      | ok name =>
        exact .inl ⟨_, rfl, versionMismatchX_not_eof _ _ _ _, fun sp sv b h => ⟨name, rfl, trivial, h⟩⟩
    | true =>
      simp only
      obtain ⟨v, hv, hk⟩ := inIntSet_true proto allowed hs
      rcases handleProtoVersionX_cases proto with ⟨n, hp, h⟩ | ⟨n, hn, hne, h⟩ | ⟨hn, _⟩
      · refine .inr (.inl ⟨n, h, hp, v, hv, ?_⟩)
        subst hp
        simp only [intKey, Option.some.injEq] at hk
        exact hk.symm
      · rw [hk] at hn
        cases hn
        refine .inr (.inr ⟨v, hv, hk, hne, ?_⟩)
        rw [h]; simp
      · rw [hk] at hn; cases hn

/-- A value that equals an allowed integer and is not a float is accepted as that integer. -/
theorem afterProto_of_member (env : VEnv) (kn : List (String × Nat)) (allowed : List Nat)
    (x proto : JV) (v : Nat) (hv : v ∈ allowed) (hk : intKey proto = some (v : Int))
    (hne : ∀ m, proto ≠ .flt (.integral m)) :
    afterProto env kn allowed x proto = .connect v false := by
  have hh : hashable proto = true := by
    cases proto <;> first | rfl | (simp [intKey] at hk)
  have hs : inIntSet proto allowed = .ok true := by
    unfold inIntSet
    simp only [hh, if_true, hk]
    rw [(inZ_iff _ _).2 ⟨v, hv, rfl⟩]
  unfold afterProto
  simp only [hs]
  rcases handleProtoVersionX_cases proto with ⟨n, hp, _⟩ | ⟨n, hn, _, h⟩ | ⟨hn, _⟩
  · exact absurd hp (hne n)
  · rw [hk] at hn
    cases hn
    rw [h]; simp
  · rw [hk] at hn; cases hn

/-- Is the result the `handle_failure()` call? — for `afterVersion`. -/
theorem afterVersion_cases (env : VEnv) (kn : List (String × Nat)) (allowed : List Nat) (dflt : Nat)
    (x : JV) :
    (lacksKey "protocol" x = true ∧ afterVersion env kn allowed dflt x = .connect dflt true) ∨
    (lacksKey "protocol" x = false ∧
      ((∃ r, afterVersion env kn allowed dflt x = .raised r ∧ isEOFError r = false ∧
          ∀ sp sv b, r = .mismatch sp sv b → MismatchOrigin env kn allowed x sp sv b) ∨
       (∃ n, afterVersion env kn allowed dflt x = .connectFloat n ∧
          ∃ xk, x = .obj xk ∧ lookup xk "protocol" = some (.flt (.integral n)) ∧
            ∃ v ∈ allowed, (v : Int) = n) ∨
       (∃ xk proto v, x = .obj xk ∧ lookup xk "protocol" = some proto ∧ v ∈ allowed ∧
          intKey proto = some (v : Int) ∧ (∀ m, proto ≠ .flt (.integral m)) ∧
          afterVersion env kn allowed dflt x = .connect v false))) := by
  unfold afterVersion
  cases x with
  | obj xk =>
    cases hl : lookup xk "protocol" with
    | none => exact .inl ⟨by simp [lacksKey, hl], by simp [pyIn, hl]⟩
    | some proto =>
      refine .inr ⟨by simp [lacksKey, hl], ?_⟩
      simp only [pyIn, hl, Option.isSome_some, pyGetItem]
      rcases afterProto_cases env kn allowed (.obj xk) proto with
        ⟨r, h1, h2, h3⟩ | ⟨n, h1, h2, h3⟩ | ⟨v, h1, h2, h3, h4⟩
      · refine .inl ⟨r, h1, h2, fun sp sv b hr => ?_⟩
        obtain ⟨name, hn1, hn2, hn3⟩ := h3 sp sv b hr
        simp only [pyDictGet, Except.ok.injEq] at hn1
        subst hn1
        exact ⟨xk, proto, rfl, hl, hn2, hn3⟩
      · subst h2
        exact .inr (.inl ⟨n, h1, xk, rfl, hl, h3⟩)
      · exact .inr (.inr ⟨xk, proto, v, rfl, hl, h1, h2, h3, h4⟩)
  | arr l =>
    cases ha : l.any (JV.isStr "protocol") with
    | false =>
      exact .inl ⟨by simp only [lacksKey, ha, Bool.not_false], by simp only [pyIn, ha]⟩
    | true =>
      exact .inr ⟨by simp only [lacksKey, ha, Bool.not_true],
        .inl ⟨.py .type, by simp only [pyIn, ha, pyGetItem], rfl, fun _ _ _ h => by cases h⟩⟩
  | str s =>
    cases ha : hasInfix "protocol".toList s.toList with
    | false =>
      exact .inl ⟨by simp only [lacksKey, ha, Bool.not_false], by simp only [pyIn, ha]⟩
    | true =>
      exact .inr ⟨by simp only [lacksKey, ha, Bool.not_true],
        .inl ⟨.py .type, by simp only [pyIn, ha, pyGetItem], rfl, fun _ _ _ h => by cases h⟩⟩
  | null => exact .inr ⟨rfl, .inl ⟨_, rfl, rfl, fun _ _ _ h => by cases h⟩⟩
  | bool b => exact .inr ⟨rfl, .inl ⟨_, rfl, rfl, fun _ _ _ h => by cases h⟩⟩
  | int n => exact .inr ⟨rfl, .inl ⟨_, rfl, rfl, fun _ _ _ h => by cases h⟩⟩
  | flt f => exact .inr ⟨rfl, .inl ⟨_, rfl, rfl, fun _ _ _ h => by cases h⟩⟩

/-! ### `handle_status` by the shape of the status value -/

section HS
variable (env : VEnv) (kn : List (String × Nat)) (allowed : List Nat) (dflt : Nat)

theorem handleStatusX_obj_nil :
    handleStatusX env kn allowed dflt (.obj []) = .raised .invalidStatus := rfl

theorem handleStatusX_obj_cons (e : String × JV) (es : List (String × JV)) :
    handleStatusX env kn allowed dflt (.obj (e :: es)) =
      match lookup (e :: es) "version" with
      | none => .connect dflt true
      | some x => afterVersion env kn allowed dflt x := by
  cases hl : lookup (e :: es) "version" with
  | none => simp only [handleStatusX, pyIn, hl, Option.isSome_none]
  | some x => simp only [handleStatusX, pyIn, hl, Option.isSome_some, pyGetItem]

theorem handleStatusX_arr (l : List JV) :
    handleStatusX env kn allowed dflt (.arr l) =
      if l.any (JV.isStr "version") then .raised (.py .type) else .connect dflt true := by
  cases ha : l.any (JV.isStr "version") <;> simp only [handleStatusX, pyIn, ha, pyGetItem] <;> rfl

theorem handleStatusX_str (s : String) :
    handleStatusX env kn allowed dflt (.str s) =
      if hasInfix "version".toList s.toList then .raised (.py .type) else .connect dflt true := by
  cases ha : hasInfix "version".toList s.toList <;>
    simp only [handleStatusX, pyIn, ha, pyGetItem] <;> rfl

theorem handleStatusX_null : handleStatusX env kn allowed dflt .null = .raised (.py .type) := rfl
theorem handleStatusX_bool (b : Bool) :
    handleStatusX env kn allowed dflt (.bool b) = .raised (.py .type) := rfl
theorem handleStatusX_int (n : Int) :
    handleStatusX env kn allowed dflt (.int n) = .raised (.py .type) := rfl
theorem handleStatusX_flt (f : FloatV) :
    handleStatusX env kn allowed dflt (.flt f) = .raised (.py .type) := rfl

/-! ### `evalReply` -/

theorem evalReplyWith_json_raised (test : Raised → Bool) (v : JV) (r : Raised)
    (h : handleStatusX env kn allowed dflt v = .raised r) :
    evalReplyWith test env kn allowed dflt (.json v) = handleExceptionWith test dflt r := by
  simp only [evalReplyWith, h]

theorem evalReply_json_raised (v : JV) (r : Raised)
    (h : handleStatusX env kn allowed dflt v = .raised r) (hr : isEOFError r = false) :
    evalReply env kn allowed dflt (.json v) = .raised r := by
  simp [evalReply, evalReplyWith_json_raised env kn allowed dflt _ v r h, handleExceptionWith, hr]

theorem evalReplyWith_json_connect (test : Raised → Bool) (v : JV) (a : Nat) (b : Bool)
    (h : handleStatusX env kn allowed dflt v = .connect a b) :
    evalReplyWith test env kn allowed dflt (.json v) = .connect a b := by
  simp only [evalReplyWith, h]

theorem evalReplyWith_json_connectFloat (test : Raised → Bool) (v : JV) (n : Int)
    (h : handleStatusX env kn allowed dflt v = .connectFloat n) :
    evalReplyWith test env kn allowed dflt (.json v) = .connectFloat n := by
  simp only [evalReplyWith, h]

/-- Complete case analysis of the status connection, by what came back. -/
theorem evalReply_cases (r : Reply) :
    -- the fallback
    (noVersion r = true ∧ evalReply env kn allowed dflt r = .connect dflt true) ∨
    (noVersion r = false ∧
      -- an error is delivered
      ((∃ e, evalReply env kn allowed dflt r = .raised e ∧
          ∀ sp sv b, e = .mismatch sp sv b → ∃ kvs x, r = .json (.obj kvs) ∧
            lookup kvs "version" = some x ∧ MismatchOrigin env kn allowed x sp sv b) ∨
       -- a float that equals an allowed version
       (∃ n, evalReply env kn allowed dflt r = .connectFloat n ∧ ∃ kvs xk, r = .json (.obj kvs) ∧
          lookup kvs "version" = some (.obj xk) ∧
          lookup xk "protocol" = some (.flt (.integral n)) ∧ ∃ v ∈ allowed, (v : Int) = n) ∨
       -- the server's version
       (∃ kvs xk proto v, r = .json (.obj kvs) ∧ lookup kvs "version" = some (.obj xk) ∧
          lookup xk "protocol" = some proto ∧ v ∈ allowed ∧ intKey proto = some (v : Int) ∧
          (∀ m, proto ≠ .flt (.integral m)) ∧
          evalReply env kn allowed dflt r = .connect v false))) := by
  have noMis : ∀ {α : Prop} (e : Err) (sp sv : JV) (b : Bool), Raised.py e = .mismatch sp sv b → α :=
    fun _ _ _ _ h => by cases h
  cases r with
  | closed => exact .inl ⟨rfl, rfl⟩
  | badJson => exact .inr ⟨rfl, .inl ⟨.json, rfl, fun _ _ _ h => by cases h⟩⟩
  | ioError => exact .inr ⟨rfl, .inl ⟨.os, rfl, fun _ _ _ h => by cases h⟩⟩
  | json v =>
    cases v with
    | null =>
      exact .inr ⟨rfl, .inl ⟨_, evalReply_json_raised env kn allowed dflt _ _
        (handleStatusX_null ..) rfl, fun _ _ _ h => noMis _ _ _ _ h⟩⟩
    | bool b =>
      exact .inr ⟨rfl, .inl ⟨_, evalReply_json_raised env kn allowed dflt _ _
        (handleStatusX_bool ..) rfl, fun _ _ _ h => noMis _ _ _ _ h⟩⟩
    | int n =>
      exact .inr ⟨rfl, .inl ⟨_, evalReply_json_raised env kn allowed dflt _ _
        (handleStatusX_int ..) rfl, fun _ _ _ h => noMis _ _ _ _ h⟩⟩
    | flt f =>
      exact .inr ⟨rfl, .inl ⟨_, evalReply_json_raised env kn allowed dflt _ _
        (handleStatusX_flt ..) rfl, fun _ _ _ h => noMis _ _ _ _ h⟩⟩
    | str s =>
      have hx := handleStatusX_str env kn allowed dflt s
      cases ha : hasInfix "version".toList s.toList with
      | false =>
        simp only [ha, Bool.false_eq_true, if_false] at hx
        exact .inl ⟨by simp only [noVersion, lacksKey, ha, Bool.not_false],
          evalReplyWith_json_connect env kn allowed dflt _ _ _ _ hx⟩
      | true =>
        simp only [ha, if_true] at hx
        exact .inr ⟨by simp only [noVersion, lacksKey, ha, Bool.not_true],
          .inl ⟨_, evalReply_json_raised env kn allowed dflt _ _ hx rfl,
            fun _ _ _ h => noMis _ _ _ _ h⟩⟩
    | arr l =>
      have hx := handleStatusX_arr env kn allowed dflt l
      cases ha : l.any (JV.isStr "version") with
      | false =>
        simp only [ha, Bool.false_eq_true, if_false] at hx
        exact .inl ⟨by simp only [noVersion, lacksKey, ha, Bool.not_false],
          evalReplyWith_json_connect env kn allowed dflt _ _ _ _ hx⟩
      | true =>
        simp only [ha, if_true] at hx
        exact .inr ⟨by simp only [noVersion, lacksKey, ha, Bool.not_true],
          .inl ⟨_, evalReply_json_raised env kn allowed dflt _ _ hx rfl,
            fun _ _ _ h => noMis _ _ _ _ h⟩⟩
    | obj kvs =>
      cases kvs with
      | nil =>
        exact .inr ⟨rfl, .inl ⟨_, evalReply_json_raised env kn allowed dflt _ _
          (handleStatusX_obj_nil ..) rfl, fun _ _ _ h => by cases h⟩⟩
      | cons e es =>
        have hx := handleStatusX_obj_cons env kn allowed dflt e es
        cases hl : lookup (e :: es) "version" with
        | none =>
          simp only [hl] at hx
          exact .inl ⟨by simp only [noVersion, hl],
            evalReplyWith_json_connect env kn allowed dflt _ _ _ _ hx⟩
        | some x =>
          simp only [hl] at hx
          have hnv : noVersion (.json (.obj (e :: es))) = lacksKey "protocol" x := by
            simp only [noVersion, hl]
          rcases afterVersion_cases env kn allowed dflt x with ⟨h1, h2⟩ |
            ⟨h1, ⟨r, h2, h3, h4⟩ | ⟨n, h2, xk, h3, h4, h5⟩ | ⟨xk, proto, v, h2, h3, h4, h5, h6, h7⟩⟩
          · rw [h2] at hx
            exact .inl ⟨by rw [hnv, h1], evalReplyWith_json_connect env kn allowed dflt _ _ _ _ hx⟩
          · rw [h2] at hx
            refine .inr ⟨by rw [hnv, h1], .inl ⟨r,
              evalReply_json_raised env kn allowed dflt _ _ hx h3, fun sp sv b hr => ?_⟩⟩
            exact ⟨_, x, rfl, hl, h4 sp sv b hr⟩
          · rw [h2] at hx
            subst h3
            exact .inr ⟨by rw [hnv, h1], .inr (.inl ⟨n,
              evalReplyWith_json_connectFloat env kn allowed dflt _ _ _ hx, _, xk, rfl, hl, h4, h5⟩)⟩
          · rw [h7] at hx
            subst h2
            exact .inr ⟨by rw [hnv, h1], .inr (.inr ⟨_, xk, proto, v, rfl, hl, h3, h4, h5, h6,
              evalReplyWith_json_connect env kn allowed dflt _ _ _ _ hx⟩)⟩

end HS


/-! ### `_version_mismatch`, the first model, texts -/

theorem inIntList_iff (x : JV) (l : List Nat) :
    inIntList x l = true ↔ ∃ p ∈ l, intKey x = some (p : Int) := by
  unfold inIntList
  cases hk : intKey x with
  | none => simp
  | some n =>
    simp only [inZ_iff, Option.some.injEq]
    constructor
    · rintro ⟨v, hv, rfl⟩; exact ⟨v, hv, rfl⟩
    · rintro ⟨v, hv, rfl⟩; exact ⟨v, hv, rfl⟩

/-- What a raised `VersionMismatch` records: the name as given; the protocol as given, unless it
was `None`, in which case it is looked up by NAME in `KNOWN_MINECRAFT_VERSIONS` (and stays `None`
if the name is not a known string); and the wording is decided by membership of that protocol in
`SUPPORTED_PROTOCOL_VERSIONS`. -/
theorem versionMismatchX_spec (env : VEnv) (kn : List (String × Nat)) (sp0 sv0 sp sv : JV) (b : Bool)
    (h : versionMismatchX env kn sp0 sv0 = .mismatch sp sv b) :
    sv = sv0 ∧ b = inIntList sp env.supportedProtocols ∧
    ((sp0 ≠ .null ∧ sp = sp0) ∨
     (sp0 = .null ∧ ((sp = .null ∧ ∀ s p, sv0 = .str s → dictGet kn s ≠ some p) ∨
        ∃ s p, sv0 = .str s ∧ dictGet kn s = some p ∧ sp = .int p))) := by
  cases sp0 with
  | null =>
    cases sv0 with
    | str s =>
      cases hd : dictGet kn s with
      | none =>
        simp only [versionMismatchX, lookupKnown, hd, Raised.mismatch.injEq] at h
        obtain ⟨rfl, rfl, rfl⟩ := h
        refine ⟨rfl, rfl, .inr ⟨rfl, .inl ⟨rfl, ?_⟩⟩⟩
        intro s' p hs'
        cases hs'
        rw [hd]
        exact fun h => by cases h
      | some p =>
        simp only [versionMismatchX, lookupKnown, hd, fmtD, Raised.mismatch.injEq] at h
        obtain ⟨rfl, rfl, rfl⟩ := h
        exact ⟨rfl, rfl, .inr ⟨rfl, .inr ⟨s, p, rfl, hd, rfl⟩⟩⟩
    | arr l => simp [versionMismatchX, lookupKnown] at h
    | obj k => simp [versionMismatchX, lookupKnown] at h
    | null =>
      simp only [versionMismatchX, lookupKnown, Raised.mismatch.injEq] at h
      obtain ⟨rfl, rfl, rfl⟩ := h
      exact ⟨rfl, rfl, .inr ⟨rfl, .inl ⟨rfl, fun _ _ h => by cases h⟩⟩⟩
    | bool t =>
      simp only [versionMismatchX, lookupKnown, Raised.mismatch.injEq] at h
      obtain ⟨rfl, rfl, rfl⟩ := h
      exact ⟨rfl, rfl, .inr ⟨rfl, .inl ⟨rfl, fun _ _ h => by cases h⟩⟩⟩
    | int n =>
      simp only [versionMismatchX, lookupKnown, Raised.mismatch.injEq] at h
      obtain ⟨rfl, rfl, rfl⟩ := h
      exact ⟨rfl, rfl, .inr ⟨rfl, .inl ⟨rfl, fun _ _ h => by cases h⟩⟩⟩
    | flt f =>
      simp only [versionMismatchX, lookupKnown, Raised.mismatch.injEq] at h
      obtain ⟨rfl, rfl, rfl⟩ := h
      exact ⟨rfl, rfl, .inr ⟨rfl, .inl ⟨rfl, fun _ _ h => by cases h⟩⟩⟩
  | bool t =>
    simp only [versionMismatchX, fmtD, Raised.mismatch.injEq] at h
    obtain ⟨rfl, rfl, rfl⟩ := h
    exact ⟨rfl, rfl, .inl ⟨(fun h => by cases h), rfl⟩⟩
  | int n =>
    simp only [versionMismatchX, fmtD, Raised.mismatch.injEq] at h
    obtain ⟨rfl, rfl, rfl⟩ := h
    exact ⟨rfl, rfl, .inl ⟨(fun h => by cases h), rfl⟩⟩
  | flt f =>
    cases f with
    | integral n =>
      simp only [versionMismatchX, fmtD, Raised.mismatch.injEq] at h
      obtain ⟨rfl, rfl, rfl⟩ := h
      exact ⟨rfl, rfl, .inl ⟨(fun h => by cases h), rfl⟩⟩
    | fractional =>
      simp only [versionMismatchX, fmtD, Raised.mismatch.injEq] at h
      obtain ⟨rfl, rfl, rfl⟩ := h
      exact ⟨rfl, rfl, .inl ⟨(fun h => by cases h), rfl⟩⟩
    | nan => simp [versionMismatchX, fmtD] at h
    | inf => simp [versionMismatchX, fmtD] at h
  | str s => simp [versionMismatchX, fmtD] at h
  | arr l => simp [versionMismatchX, fmtD] at h
  | obj k => simp [versionMismatchX, fmtD] at h

/-- An integer protocol with a string-or-absent name always yields the mismatch of the first
model (`Neg.versionMismatch`). -/
theorem versionMismatchX_int (env : VEnv) (kn : List (String × Nat)) (n : Int) (name : Option String) :
    versionMismatchX env kn (.int n) (nameJV name) =
      .mismatch (.int n) (nameJV name) (inZ n env.supportedProtocols) := by
  simp only [versionMismatchX, fmtD, inIntList, intKey]

theorem mismatchText_int (n : Int) (name : Option String) (b : Bool) :
    mismatchText (.int n) (nameJV name) b = some (mismatchMessage n name b) := by
  cases name <;> rfl

/-- The first model is this model restricted to the replies it can express. -/
theorem evalReply_refines (env : VEnv) (kn : List (String × Nat)) (allowed : List Nat) (dflt : Nat)
    (r : Reply) (a : StatusReply) (h : abstractReply r = some a) :
    evalReply env kn allowed dflt r =
      embedOutcome (isFallbackShape a) (evalStatus env allowed dflt a) := by
  cases r with
  | closed => simp only [abstractReply, Option.some.injEq] at h; subst h; rfl
  | badJson => simp [abstractReply] at h
  | ioError => simp [abstractReply] at h
  | json v =>
    cases v with
    | obj kvs =>
      cases kvs with
      | nil => simp only [abstractReply, Option.some.injEq] at h; subst h; rfl
      | cons e es =>
        have hx := handleStatusX_obj_cons env kn allowed dflt e es
        cases hl : lookup (e :: es) "version" with
        | none =>
          simp only [abstractReply, hl, Option.some.injEq] at h
          subst h
          simp only [hl] at hx
          exact evalReplyWith_json_connect env kn allowed dflt _ _ _ _ hx
        | some x =>
          simp only [hl] at hx
          cases x with
          | obj xk =>
            cases hp : lookup xk "protocol" with
            | none =>
              simp only [abstractReply, hl, hp, Option.some.injEq] at h
              subst h
              have : afterVersion env kn allowed dflt (.obj xk) = .connect dflt true := by
                simp only [afterVersion, pyIn, hp, Option.isSome_none]
              rw [this] at hx
              exact evalReplyWith_json_connect env kn allowed dflt _ _ _ _ hx
            | some proto =>
              cases proto with
              | int n =>
                have key : ∀ name : Option String, (lookup xk "name").getD .null = nameJV name →
                    evalReply env kn allowed dflt (.json (.obj (e :: es))) =
                      embedOutcome false (evalStatus env allowed dflt (.proto n name)) := by
                  intro name hname
                  have hav : afterVersion env kn allowed dflt (.obj xk) =
                      afterProto env kn allowed (.obj xk) (.int n) := by
                    simp only [afterVersion, pyIn, hp, Option.isSome_some, pyGetItem]
                  rw [hav] at hx
                  cases hz : inZ n allowed with
                  | true =>
                    obtain ⟨w, hw, rfl⟩ := (inZ_iff _ _).1 hz
                    rw [afterProto_of_member env kn allowed _ _ w hw rfl (fun _ h => by cases h)] at hx
                    unfold evalReply
                    rw [evalReplyWith_json_connect env kn allowed dflt _ _ _ _ hx]
                    simp [evalStatus, hz, handleProtoVersion, embedOutcome]
                  | false =>
                    have hap : afterProto env kn allowed (.obj xk) (.int n) =
                        .raised (.mismatch (.int n) (nameJV name) (inZ n env.supportedProtocols)) := by
                      simp only [afterProto, inIntSet, hashable, if_true, intKey, hz, pyDictGet, hname,
                        versionMismatchX_int]
                    rw [hap] at hx
                    rw [evalReply_json_raised env kn allowed dflt _ _ hx rfl]
                    simp [evalStatus, hz, versionMismatch, embedOutcome]
                cases hn : lookup xk "name" with
                | none =>
                  simp only [abstractReply, hl, hp, hn, Option.some.injEq] at h
                  subst h
                  exact key none (by rw [hn]; rfl)
                | some nm =>
                  cases nm with
                  | null =>
                    simp only [abstractReply, hl, hp, hn, Option.some.injEq] at h
                    subst h
                    exact key none (by rw [hn]; rfl)
                  | str s =>
                    simp only [abstractReply, hl, hp, hn, Option.some.injEq] at h
                    subst h
                    exact key (some s) (by rw [hn]; rfl)
                  | bool _ => simp [abstractReply, hl, hp, hn] at h
                  | int _ => simp [abstractReply, hl, hp, hn] at h
                  | flt _ => simp [abstractReply, hl, hp, hn] at h
                  | arr _ => simp [abstractReply, hl, hp, hn] at h
                  | obj _ => simp [abstractReply, hl, hp, hn] at h
              | null => simp [abstractReply, hl, hp] at h
              | bool _ => simp [abstractReply, hl, hp] at h
              | flt _ => simp [abstractReply, hl, hp] at h
              | str _ => simp [abstractReply, hl, hp] at h
              | arr _ => simp [abstractReply, hl, hp] at h
              | obj _ => simp [abstractReply, hl, hp] at h
          | null => simp [abstractReply, hl] at h
          | bool _ => simp [abstractReply, hl] at h
          | int _ => simp [abstractReply, hl] at h
          | flt _ => simp [abstractReply, hl] at h
          | str _ => simp [abstractReply, hl] at h
          | arr _ => simp [abstractReply, hl] at h
    | null => simp [abstractReply] at h
    | bool _ => simp [abstractReply] at h
    | int _ => simp [abstractReply] at h
    | flt _ => simp [abstractReply] at h
    | str _ => simp [abstractReply] at h
    | arr _ => simp [abstractReply] at h

/-- An allowed integer (or the boolean equal to it) reported in `version.protocol` is accepted. -/
theorem evalReply_of_reported (env : VEnv) (kn : List (String × Nat)) (allowed : List Nat) (dflt : Nat)
    (kvs xk : List (String × JV)) (proto : JV) (v : Nat)
    (h1 : lookup kvs "version" = some (.obj xk)) (h2 : lookup xk "protocol" = some proto)
    (hv : v ∈ allowed) (hk : intKey proto = some (v : Int)) (hne : ∀ m, proto ≠ .flt (.integral m)) :
    evalReply env kn allowed dflt (.json (.obj kvs)) = .connect v false := by
  cases kvs with
  | nil => simp [lookup] at h1
  | cons e es =>
    have hx := handleStatusX_obj_cons env kn allowed dflt e es
    simp only [h1] at hx
    have hav : afterVersion env kn allowed dflt (.obj xk) =
        afterProto env kn allowed (.obj xk) proto := by
      simp only [afterVersion, pyIn, h2, Option.isSome_some, pyGetItem]
    rw [hav, afterProto_of_member env kn allowed _ _ v hv hk hne] at hx
    exact evalReplyWith_json_connect env kn allowed dflt _ _ _ _ hx

/-- A float equal to an allowed version passes the membership test and is handed on AS A FLOAT. -/
theorem evalReply_of_float (env : VEnv) (kn : List (String × Nat)) (allowed : List Nat) (dflt : Nat)
    (kvs xk : List (String × JV)) (v : Nat)
    (h1 : lookup kvs "version" = some (.obj xk))
    (h2 : lookup xk "protocol" = some (.flt (.integral (v : Int)))) (hv : v ∈ allowed) :
    evalReply env kn allowed dflt (.json (.obj kvs)) = .connectFloat (v : Int) := by
  cases kvs with
  | nil => simp [lookup] at h1
  | cons e es =>
    have hx := handleStatusX_obj_cons env kn allowed dflt e es
    simp only [h1] at hx
    have hz : inZ (v : Int) allowed = true := (inZ_iff _ _).2 ⟨v, hv, rfl⟩
    have hav : afterVersion env kn allowed dflt (.obj xk) = .connectFloat (v : Int) := by
      simp only [afterVersion, pyIn, h2, Option.isSome_some, pyGetItem, afterProto, inIntSet,
        hashable, if_true, intKey, hz, handleProtoVersionX]
    rw [hav] at hx
    exact evalReplyWith_json_connectFloat env kn allowed dflt _ _ _ hx

end PyCraft.NegS
