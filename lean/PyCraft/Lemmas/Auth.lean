import PyCraft.Model.Auth
/-!
Helper lemmas for C19: the request component of each operation (it never depends on the reply), the
shape of `raiseFromResponse`, and when `storeReply` reaches `return True`.
-/
namespace PyCraft.Auth

theorem raise_200 (b : Body) : raiseFromResponse ⟨200, b⟩ = none := by
  simp [raiseFromResponse]

theorem raise_ne_200 (st : Nat) (b : Body) (h : st ≠ 200) :
    raiseFromResponse ⟨st, b⟩ = some (match b with
      | .errorObj e m c => .yggdrasil st (some e) (some m) c false
      | _ => .yggdrasil st none none none true) := by
  cases b <;> simp [raiseFromResponse, h]

theorem raise_ne_retFalse (r : Reply) (e : Outcome) (h : raiseFromResponse r = some e) :
    e ≠ .ret false := by
  obtain ⟨st, b⟩ := r
  by_cases hst : st = 200
  · subst hst; simp [raise_200] at h
  · rw [raise_ne_200 st b hst] at h
    cases b <;> simp at h <;> simp [← h]

theorem orElse_eq (x : Option String) (d : String) :
    orElse x d = (if truthy x = true then x.getD "" else d) := by
  cases x with
  | none => simp [orElse, truthy]
  | some c => by_cases hc : c = "" <;> simp [orElse, truthy, hc]

theorem authenticate_req (fresh : String) (t : Token) (user pass : String) (inv : Bool) (r : Reply) :
    (authenticate fresh t user pass inv r).2.2 = some ⟨.auth, "authenticate",
      if !inv then
        [("agent", .obj [("name", .str "Minecraft"), ("version", .num 1)]),
         ("username", .atom (.str user)), ("password", .atom (.str pass))] ++
        [("clientToken", .atom (.str (orElse t.clientToken fresh)))]
      else
        [("agent", .obj [("name", .str "Minecraft"), ("version", .num 1)]),
         ("username", .atom (.str user)), ("password", .atom (.str pass))]⟩ := by
  cases h1 : raiseFromResponse r <;> cases h2 : r.body.parses <;> simp [authenticate, h1, h2]

theorem refresh_req (t : Token) (a c : String) (r : Reply) (ha : t.accessToken = some a)
    (hc : t.clientToken = some c) :
    (refresh t r).2.2 = some ⟨.auth, "refresh",
      [("accessToken", .atom (.str a)), ("clientToken", .atom (.str c))]⟩ := by
  cases h1 : raiseFromResponse r <;> cases h2 : r.body.parses <;> simp [refresh, ha, hc, h1, h2]

theorem validate_req (t : Token) (a : String) (r : Reply) (ha : t.accessToken = some a) :
    (validate t r).2.2 = some ⟨.auth, "validate", [("accessToken", .atom (.str a))]⟩ := by
  by_cases h : r.status = 204 <;> simp [validate, ha, h]

theorem invalidate_req (t : Token) (r : Reply) :
    (invalidate t r).2.2 = some ⟨.auth, "invalidate",
      [("accessToken", .atom (.ofOpt t.accessToken)),
       ("clientToken", .atom (.ofOpt t.clientToken))]⟩ := by
  by_cases h : r.status = 204 <;> cases h1 : raiseFromResponse r <;> simp [invalidate, h, h1]

theorem invalidate_tok (t : Token) (r : Reply) : (invalidate t r).1 = t := by
  by_cases h : r.status = 204 <;> cases h1 : raiseFromResponse r <;> simp [invalidate, h, h1]

theorem signOut_req (user pass : String) (r : Reply) :
    (signOut user pass r).2 = ⟨.auth, "signout",
      [("username", .atom (.str user)), ("password", .atom (.str pass))]⟩ := by
  cases h1 : raiseFromResponse r <;> simp [signOut, h1]

theorem join_req (t : Token) (sid : String) (r : Reply) (hau : authenticated t = true) :
    (join t sid r).2.2 = some ⟨.session, "join",
      [("accessToken", .atom (.ofOpt t.accessToken)),
       ("selectedProfile", .obj [("id", .ofOpt t.profileId), ("name", .ofOpt t.profileName)]),
       ("serverId", .atom (.str sid))]⟩ := by
  by_cases h : r.status = 204 <;> cases h1 : raiseFromResponse r <;> simp [join, hau, h, h1]

theorem join_tok (t : Token) (sid : String) (r : Reply) : (join t sid r).1 = t := by
  cases hau : authenticated t <;> by_cases h : r.status = 204 <;>
    cases h1 : raiseFromResponse r <;> simp [join, hau, h, h1]

/-- `storeReply` reaches `return True` exactly on a body with all four keys. -/
theorem storeReply_true_iff (t : Token) (b : Body) :
    (storeReply t b).2 = .ret true ↔
      ∃ a c i n, b = .result (some a) (some c) (some ⟨some i, some n⟩) := by
  cases b with
  | result a c sp =>
    cases a <;> cases c <;> try simp [storeReply]
    cases sp with
    | none => simp
    | some p => obtain ⟨i, n⟩ := p; cases i <;> cases n <;> simp
  | _ => simp [storeReply]

theorem storeReply_ne_false (t : Token) (b : Body) : (storeReply t b).2 ≠ .ret false := by
  cases b with
  | result a c sp =>
    cases a <;> cases c <;> try simp [storeReply]
    cases sp with
    | none => simp
    | some p => obtain ⟨i, n⟩ := p; cases i <;> cases n <;> simp
  | _ => simp [storeReply]

end PyCraft.Auth
