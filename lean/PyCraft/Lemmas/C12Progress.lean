import PyCraft.Model.C12Progress
import PyCraft.Lemmas.WritersFinal
/-!
Helper lemmas for `Props/C12Progress.lean` (progress / liveness in `Model/Writers.lean`):

* enabledness: the lock holder is always enabled, a thread is blocked only in `acquire`;
* `discBegun` ("a disconnect has been started": the interrupt flag is set or the lock holder is
  inside `disconnect`) is stable;
* the ranking function `rank s p` (number of own actions the networking thread needs to send the
  queued packet `p`), which decreases with every action of the networking thread and is left alone
  by every action of a user thread (`rank_step_nt`, `rank_step_user`), hence `progress_core`;
* the solo run of the networking thread (`solo_run`);
* the work `work N s` still to be done by the user threads, the variant `rank + work`, infinite
  schedules and weak fairness (`fair_core`);
* forced writes are synchronous (`forcedJ_run`); programs without `disconnect` (`nodisc_step`).
-/
namespace PyCraft.Writers

/-! ### Enabledness -/

theorem holder_enabled (cfg : Cfg) (s : Sys) (t : Tid) (hl : LockInv s) (hw : WireInv s)
    (ho : s.owner = some t) : (step cfg s t).isSome = true := by
  have hc := (hl.crit_owner t).mpr ho
  have hp := hw.pop_ok
  rw [cur_of_owner ho] at hp
  unfold step
  cases hpc : (s.thr t).pc with
  | user pc =>
    rw [hpc] at hc hp
    cases pc <;> simp [Pc.crit, UPc.crit] at hc <;> simp only [stepUser] <;>
      (try split) <;> simp_all [Pc.atPop]
  | net pc n =>
    rw [hpc] at hc hp
    cases pc <;> simp [Pc.crit, NPc.crit] at hc <;> simp only [stepNet] <;>
      (try split) <;> simp_all [Pc.atPop]

theorem free_enabled (cfg : Cfg) (s : Sys) (t : Tid) (hl : LockInv s)
    (ho : s.owner = none) (hd : (s.thr t).pc.isDone = false) : (step cfg s t).isSome = true := by
  have hc := hl.crit_owner t
  rw [ho] at hc
  have hca : canAcq s t = true := by simp [canAcq, ho]
  unfold step
  cases hpc : (s.thr t).pc with
  | user pc =>
    rw [hpc] at hc hd
    cases pc <;> simp [Pc.crit, UPc.crit, Pc.isDone] at hc hd <;> simp only [stepUser]
    rcases (s.thr t).todo with _ | ⟨(p | p | imm), rest⟩ <;> simp [hca]
  | net pc n =>
    rw [hpc] at hc hd
    cases pc <;> simp [Pc.crit, NPc.crit, Pc.isDone] at hc hd <;> simp [stepNet, hca]

/-! ### A disconnect has been started -/

/-- The interrupt flag is set, or the lock holder is inside `disconnect`. -/

def discBegun (s : Sys) : Bool := s.interrupt || (cur s).dctx.isSome

/-- With the interrupt flag clear, the socket is open. -/
theorem open_of_not_int {s : Sys} (hl : LockInv s) (hw : WireInv s) (hi : s.interrupt = false) :
    s.sockOpen = true := by
  cases ho : s.sockOpen with
  | true => rfl
  | false =>
    rcases hw.closed_int ho with h | h
    · rw [hi] at h; cases h
    · obtain ⟨pc, n, h0⟩ := hl.nt_net
      have h1 := hl.nt_slot h pc n h0
      have h2 := hl.nt_exit pc n h0 (by rcases h1 with h1 | h1 <;> rw [h1] <;> rfl)
      rw [hi] at h2; cases h2

theorem disc_step (cfg : Cfg) (s s' : Sys) (t : Tid) (hl : LockInv s) (hw : WireInv s)
    (hs : step cfg s t = some s') (hq : discBegun s = true) : discBegun s' = true := by
  have hrel : ∀ c, cur s = .user (.dRel c) → s.interrupt = true := by
    intro c hc
    cases hi : s.interrupt with
    | true => rfl
    | false =>
      have := open_of_not_int hl hw hi
      rw [hw.rel_closed c hc] at this; cases this
  have h1t := hl.crit_owner t
  have hd := hl.depth_ok
  simp only [discBegun, Bool.or_eq_true] at hq ⊢
  step_cases hs hpc htd
  all_goals cur_simp s t h1t hd hpc
  all_goals grind [Pc.dctx]

/-- The networking thread has not finished while the interrupt flag is clear. -/
theorem nt_not_done {s : Sys} (hl : LockInv s) (hi : s.interrupt = false) :
    (s.thr 0).pc.isDone = false := by
  obtain ⟨pc0, n0, h0⟩ := hl.nt_net
  have hex := hl.nt_exit pc0 n0 h0
  rw [h0]
  cases pc0 <;> simp [Pc.isDone]
  rw [hex rfl] at hi; cases hi

/-! ### The ranking function -/

/-- Position of `p` in the queue (number of packets in front of it). -/
def qpos (p : Pkt) : List Pkt → Nat
  | [] => 0
  | x :: xs => if x = p then 0 else qpos p xs + 1

theorem qpos_append (p : Pkt) (l r : List Pkt) (h : p ∈ l) : qpos p (l ++ r) = qpos p l := by
  induction l with
  | nil => cases h
  | cons x xs ih =>
    simp only [List.cons_append, qpos]
    split
    · rfl
    · next hx =>
      have : p ∈ xs := by
        rcases List.mem_cons.mp h with h | h
        · exact absurd h.symm hx
        · exact h
      rw [ih this]

theorem qpos_lt (p : Pkt) (l : List Pkt) (h : p ∈ l) : qpos p l < l.length := by
  induction l with
  | nil => cases h
  | cons x xs ih =>
    simp only [qpos, List.length_cons]
    split
    · omega
    · next hx =>
      have : p ∈ xs := by
        rcases List.mem_cons.mp h with h | h
        · exact absurd h.symm hx
        · exact h
      have := ih this; omega

/-- Number of own actions the networking thread needs from `pc` until the packet at the head of
the queue is completely sent (interrupt clear, socket open, queue non-empty). -/
def npos : NPc → Nat
  | .oRdi => 7 | .wAcq => 6 | .wRdi => 5 | .wChk => 4 | .wPop => 3
  | .wSnd0 _ => 13 | .wSnd1 _ => 12
  | .wChk2 => 11 | .wRel => 10 | .rRdi => 9 | .rSel => 8
  | _ => 0

/-- Upper bound on the number of own actions of the networking thread until `p` is sent. -/
def rank (s : Sys) (p : Pkt) : Nat :=
  match (s.thr 0).pc with
  | .net (.wSnd0 x) _ => if x = p then 2 else 13 + 11 * qpos p s.queue
  | .net (.wSnd1 x) _ => if x = p then 1 else 12 + 11 * qpos p s.queue
  | .net pc _ => npos pc + 11 * qpos p s.queue
  | .user _ => 0

/-- `p` is waiting in the queue, or is the packet the networking thread is just writing. -/
def Pending (s : Sys) (p : Pkt) : Prop := p ∈ s.queue ∨ p ∈ (s.thr 0).pc.popped

theorem rank_step_nt (cfg : Cfg) (s s' : Sys) (p : Pkt) (hl : LockInv s) (hw : WireInv s)
    (hq : discBegun s = false) (hp : Pending s p) (hs : step cfg s 0 = some s') :
    p ∈ sentPkts s'.wire ∨ (Pending s' p ∧ rank s' p + 1 ≤ rank s p) := by
  simp only [discBegun, Bool.or_eq_false_iff] at hq
  have hi := hq.1
  have ho := open_of_not_int hl hw hi
  obtain ⟨pc0, n0, h0⟩ := hl.nt_net
  have hex := hl.nt_exit pc0 n0 h0
  have hx := hw.xrel_closed
  have hc0 := @cur_of_owner s 0
  have h1t := hl.crit_owner 0
  unfold Pending rank at *
  step_cases hs hpc htd
  all_goals simp only [upd, if_true]
  all_goals
    grind [npos, qpos, Pc.popped, sentPkts_snoc1, NPc.exited, Pc.crit, NPc.crit]

/-- rank only depends on the networking thread's pc and on the queue -/
theorem rank_congr (s s' : Sys) (p : Pkt) (h0 : s'.thr 0 = s.thr 0)
    (hqp : p ∈ (s.thr 0).pc.popped ∨ qpos p s'.queue = qpos p s.queue) : rank s' p = rank s p := by
  unfold rank
  rw [h0]
  rcases hqp with h | h
  · unfold Pc.popped at h
    split at h <;> simp_all
  · rw [h]

theorem rank_step_user (cfg : Cfg) (s s' : Sys) (p : Pkt) (t : Tid) (hl : LockInv s)
    (hq : discBegun s = false) (hp : Pending s p) (ht : t ≠ 0) (hs : step cfg s t = some s') :
    discBegun s' = true ∨ (Pending s' p ∧ rank s' p = rank s p) := by
  have h0 : s'.thr 0 = s.thr 0 := step_thr_other cfg s s' t hs 0 (fun h => ht h.symm)
  have hz := hl.net_zero t
  have h1t := hl.crit_owner t
  have hd := hl.depth_ok
  -- the queue stays, or grows at the end; or a disconnect has begun
  have key : discBegun s' = true ∨ s'.queue = s.queue ∨ ∃ x, s'.queue = s.queue ++ [x] := by
    simp only [discBegun, Bool.or_eq_false_iff] at hq
    simp only [discBegun, Bool.or_eq_true]
    step_cases hs hpc htd
    all_goals cur_simp s t h1t hd hpc
    all_goals grind [Pc.dctx]
  rcases key with k | k | ⟨x, k⟩
  · exact Or.inl k
  · refine Or.inr ⟨?_, rank_congr s s' p h0 (Or.inr (by rw [k]))⟩
    unfold Pending; rw [k, h0]; exact hp
  · refine Or.inr ⟨?_, ?_⟩
    · unfold Pending; rw [k, h0]
      rcases hp with hp | hp
      · exact Or.inl (List.mem_append_left _ hp)
      · exact Or.inr hp
    · rcases hp with hp | hp
      · exact rank_congr s s' p h0 (Or.inr (by rw [k, qpos_append p _ _ hp]))
      · exact rank_congr s s' p h0 (Or.inl hp)

theorem sent_step (cfg : Cfg) (s s' : Sys) (t : Tid) (hs : step cfg s t = some s') (p : Pkt)
    (hp : p ∈ sentPkts s.wire) : p ∈ sentPkts s'.wire := by
  step_cases hs hpc htd
  all_goals first
    | exact hp
    | (simp only [sentPkts_append, List.mem_append]; exact Or.inl hp)

/-! ### Progress under an arbitrary finite schedule -/

/-- `p` has a whole frame on the wire, or a disconnect has been started. -/
def Goal (s : Sys) (p : Pkt) : Prop := p ∈ sentPkts s.wire ∨ discBegun s = true

theorem goal_step (cfg : Cfg) (progs : List (List Op)) (s s' : Sys) (t : Tid) (p : Pkt)
    (h : WInv progs s) (hs : step cfg s t = some s') (hg : Goal s p) : Goal s' p := by
  rcases hg with hg | hg
  · exact Or.inl (sent_step cfg s s' t hs p hg)
  · exact Or.inr (disc_step cfg s s' t h.lock h.wire hs hg)

theorem goal_run (cfg : Cfg) (progs : List (List Op)) (p : Pkt) (more : List Tid) :
    ∀ s, WInv progs s → Goal s p → Goal (run cfg s more) p := by
  induction more with
  | nil => intro s _ hg; exact hg
  | cons t ts ih =>
    intro s h hg; unfold run
    split
    · next s' hs => exact ih s' (step_inv cfg progs s s' t h hs) (goal_step cfg progs s s' t p h hs hg)
    · exact ih s h hg

theorem rank_pos {s : Sys} (p : Pkt) (hl : LockInv s) (hw : WireInv s) (hq : discBegun s = false) :
    1 ≤ rank s p := by
  simp only [discBegun, Bool.or_eq_false_iff] at hq
  have ho := open_of_not_int hl hw hq.1
  obtain ⟨pc0, n0, h0⟩ := hl.nt_net
  have hex := hl.nt_exit pc0 n0 h0
  have hx := hw.xrel_closed n0
  have hc0 := @cur_of_owner s 0
  have h1t := hl.crit_owner 0
  unfold rank
  rw [h0] at h1t ⊢
  cases pc0 <;> simp only [npos] <;> (try split) <;> (try omega)
  all_goals grind [NPc.exited, Pc.crit, NPc.crit]

theorem progress_core (cfg : Cfg) (progs : List (List Op)) (p : Pkt) (more : List Tid) :
    ∀ s, WInv progs s → (Goal s p ∨ (Pending s p ∧ rank s p ≤ moves cfg 0 s more)) →
      Goal (run cfg s more) p := by
  induction more with
  | nil =>
    intro s h hg
    rcases hg with hg | ⟨hp, hr⟩
    · exact hg
    · cases hq : discBegun s with
      | true => exact Or.inr hq
      | false =>
        have := rank_pos p h.lock h.wire hq
        simp only [moves] at hr; omega
  | cons t ts ih =>
    intro s h hg
    rcases hg with hg | ⟨hp, hr⟩
    · exact goal_run cfg progs p _ s h hg
    · unfold run
      unfold moves at hr
      cases hs : step cfg s t with
      | none =>
        rw [hs] at hr
        exact ih s h (Or.inr ⟨hp, hr⟩)
      | some s' =>
        rw [hs] at hr
        have h' := step_inv cfg progs s s' t h hs
        simp only
        cases hq : discBegun s with
        | true => exact ih s' h' (Or.inl (goal_step cfg progs s s' t p h hs (Or.inr hq)))
        | false =>
          by_cases ht : t = 0
          · subst ht
            rcases rank_step_nt cfg s s' p h.lock h.wire hq hp hs with k | ⟨k1, k2⟩
            · exact ih s' h' (Or.inl (Or.inl k))
            · refine ih s' h' (Or.inr ⟨k1, ?_⟩)
              simp only [if_true] at hr; omega
          · rcases rank_step_user cfg s s' p t h.lock hq hp ht hs with k | ⟨k1, k2⟩
            · exact ih s' h' (Or.inl (Or.inr k))
            · refine ih s' h' (Or.inr ⟨k1, ?_⟩)
              simp only [if_neg ht] at hr; omega

/-! ### The networking thread running alone -/

/-- Only the networking thread is running: the lock is free or its own, no disconnect begun. -/
def Solo (s : Sys) : Prop := (s.owner = none ∨ s.owner = some 0) ∧ discBegun s = false

theorem solo_step_aux (cfg : Cfg) (s s' : Sys) (t : Tid) (ht : t = 0) (hl : LockInv s)
    (hw : WireInv s) (hown : s.owner = none ∨ s.owner = some t) (hq : discBegun s = false)
    (hs : step cfg s t = some s') :
    (s'.owner = none ∨ s'.owner = some t) ∧ discBegun s' = false := by
  simp only [discBegun, Bool.or_eq_false_iff] at hq
  have ho := open_of_not_int hl hw hq.1
  obtain ⟨pc0, n0, h0⟩ := hl.nt_net
  rw [← ht] at h0
  have hx := hw.xrel_closed
  have h1t := hl.crit_owner t
  have hd := hl.depth_ok
  simp only [discBegun, Bool.or_eq_false_iff]
  step_cases hs hpc htd
  all_goals cur_simp s t h1t hd hpc
  all_goals grind [Pc.dctx]

theorem solo_step (cfg : Cfg) (s : Sys) (hl : LockInv s) (hw : WireInv s) (h : Solo s) :
    ∃ s', step cfg s 0 = some s' ∧ Solo s' := by
  obtain ⟨hown, hq⟩ := h
  have hq' := hq
  simp only [discBegun, Bool.or_eq_false_iff] at hq
  have hen : (step cfg s 0).isSome = true := by
    rcases hown with ho | ho
    · exact free_enabled cfg s 0 hl ho (nt_not_done hl hq.1)
    · exact holder_enabled cfg s 0 hl hw ho
  obtain ⟨s', hs⟩ := Option.isSome_iff_exists.mp hen
  exact ⟨s', hs, solo_step_aux cfg s s' 0 rfl hl hw hown hq' hs⟩

theorem solo_run (cfg : Cfg) (progs : List (List Op)) :
    ∀ k s, WInv progs s → Solo s →
      moves cfg 0 s (List.replicate k 0) = k ∧ skipped cfg s (List.replicate k 0) = 0 ∧
      Solo (run cfg s (List.replicate k 0)) := by
  intro k
  induction k with
  | zero => intro s _ hs; exact ⟨rfl, rfl, hs⟩
  | succ k ih =>
    intro s h hsolo
    obtain ⟨s', hs, hsolo'⟩ := solo_step cfg s h.lock h.wire hsolo
    obtain ⟨i1, i2, i3⟩ := ih s' (step_inv cfg progs s s' 0 h hs) hsolo'
    simp only [List.replicate_succ, moves, skipped, run, hs, if_true]
    exact ⟨by omega, i2, i3⟩

theorem sent_run (cfg : Cfg) (p : Pkt) (more : List Tid) :
    ∀ s, p ∈ sentPkts s.wire → p ∈ sentPkts (run cfg s more).wire := by
  induction more with
  | nil => intro s h; exact h
  | cons t ts ih =>
    intro s h; unfold run
    split
    · next s' hs => exact ih s' (sent_step cfg s s' t hs p h)
    · exact ih s h

/-! ### Work of the user threads -/

/-- Number of own actions a user thread still has to perform, as long as it does not disconnect. -/
def uwork (th : Thr) : Nat :=
  match th.pc with
  | .user .idle => 4 * th.todo.length + 1
  | .user (.fSnd0 _) => 4 * th.todo.length + 4
  | .user (.fSnd1 _) => 4 * th.todo.length + 3
  | .user .fRel => 4 * th.todo.length + 2
  | _ => 0

def sumTo (f : Nat → Nat) : Nat → Nat
  | 0 => f 0
  | n + 1 => sumTo f n + f (n + 1)

theorem sumTo_congr (f g : Nat → Nat) (n : Nat) (h : ∀ u, u ≤ n → g u = f u) :
    sumTo g n = sumTo f n := by
  induction n with
  | zero => exact h 0 (Nat.le_refl 0)
  | succ n ih =>
    simp only [sumTo]
    rw [ih (fun u hu => h u (by omega)), h (n + 1) (Nat.le_refl _)]

theorem sumTo_lt (f g : Nat → Nat) (n t : Nat) (ht : t ≤ n) (hlt : g t + 1 ≤ f t)
    (h : ∀ u, u ≠ t → g u = f u) : sumTo g n + 1 ≤ sumTo f n := by
  induction n with
  | zero =>
    have : t = 0 := by omega
    subst this; exact hlt
  | succ n ih =>
    simp only [sumTo]
    by_cases htn : t = n + 1
    · subst htn
      rw [sumTo_congr f g n (fun u hu => h u (by omega))]
      omega
    · have := ih (by omega)
      rw [h (n + 1) (fun e => htn e.symm)]
      omega

/-- Threads with an id above `N` are finished. -/
def UB (N : Nat) (s : Sys) : Prop := ∀ t, N < t → (s.thr t).pc = .user .done

theorem UB_dead (cfg : Cfg) (N : Nat) (s : Sys) (h : UB N s) (t : Tid) (ht : N < t) :
    step cfg s t = none := by
  unfold step; rw [h t ht]; rfl

theorem UB_step (cfg : Cfg) (N : Nat) (s s' : Sys) (t : Tid) (h : UB N s)
    (hs : step cfg s t = some s') : UB N s' := by
  intro u hu
  by_cases hut : u = t
  · subst hut; rw [UB_dead cfg N s h u hu] at hs; cases hs
  · rw [step_thr_other cfg s s' t hs u hut]; exact h u hu

theorem UB_init (progs : List (List Op)) : UB progs.length (init progs) := by
  intro t ht
  have h0 : t ≠ 0 := by omega
  have h1 : ¬ t ≤ progs.length := by omega
  simp [init, h0, h1]

theorem UB_run (cfg : Cfg) (N : Nat) (sched : List Tid) : ∀ s, UB N s → UB N (run cfg s sched) := by
  induction sched with
  | nil => intro s h; exact h
  | cons t ts ih =>
    intro s h; unfold run
    split
    · next s' hs => exact ih s' (UB_step cfg N s s' t h hs)
    · exact ih s h

def work (N : Nat) (s : Sys) : Nat := sumTo (fun t => uwork (s.thr t)) N

theorem uwork_step (cfg : Cfg) (s s' : Sys) (t : Tid) (hl : LockInv s)
    (hq : discBegun s = false) (hs : step cfg s t = some s') :
    discBegun s' = true ∨
      ((t = 0 → uwork (s'.thr t) = uwork (s.thr t)) ∧
       (t ≠ 0 → uwork (s'.thr t) + 1 ≤ uwork (s.thr t))) := by
  have hz := hl.net_zero t
  obtain ⟨pc0, n0, h0⟩ := hl.nt_net
  have h1t := hl.crit_owner t
  have hd := hl.depth_ok
  simp only [discBegun, Bool.or_eq_false_iff] at hq
  simp only [discBegun, Bool.or_eq_true]
  unfold uwork
  step_cases hs hpc htd
  all_goals cur_simp s t h1t hd hpc
  all_goals simp only [upd, if_true]
  all_goals grind [Pc.dctx]

theorem work_step (cfg : Cfg) (N : Nat) (s s' : Sys) (t : Tid) (hl : LockInv s) (hu : UB N s)
    (hq : discBegun s = false) (hs : step cfg s t = some s') :
    discBegun s' = true ∨
      ((t = 0 → work N s' = work N s) ∧ (t ≠ 0 → work N s' + 1 ≤ work N s)) := by
  have hoth := step_thr_other cfg s s' t hs
  have htN : t ≤ N := by
    by_cases h : t ≤ N
    · exact h
    · rw [UB_dead cfg N s hu t (Nat.lt_of_not_le h)] at hs; cases hs
  rcases uwork_step cfg s s' t hl hq hs with k | ⟨k1, k2⟩
  · exact Or.inl k
  · refine Or.inr ⟨fun h0 => ?_, fun h0 => ?_⟩
    · apply sumTo_congr
      intro u _
      by_cases hut : u = t
      · subst hut; exact k1 h0
      · simp only [hoth u hut]
    · apply sumTo_lt _ _ N t htN (k2 h0)
      intro u hut
      simp only [hoth u hut]

/-! ### Infinite schedules -/

theorem runN_succ_some (cfg : Cfg) (s : Sys) (σ : Nat → Tid) (n : Nat) (s' : Sys)
    (h : step cfg (runN cfg s σ n) (σ n) = some s') : runN cfg s σ (n + 1) = s' := by
  simp only [runN, h]

theorem runN_succ_none (cfg : Cfg) (s : Sys) (σ : Nat → Tid) (n : Nat)
    (h : step cfg (runN cfg s σ n) (σ n) = none) : runN cfg s σ (n + 1) = runN cfg s σ n := by
  simp only [runN, h]

theorem runN_inv (cfg : Cfg) (progs : List (List Op)) (s : Sys) (σ : Nat → Tid) (h : WInv progs s) :
    ∀ n, WInv progs (runN cfg s σ n) := by
  intro n
  induction n with
  | zero => exact h
  | succ n ih =>
    cases hs : step cfg (runN cfg s σ n) (σ n) with
    | none => rw [runN_succ_none cfg s σ n hs]; exact ih
    | some s' => rw [runN_succ_some cfg s σ n s' hs]; exact step_inv cfg progs _ s' _ ih hs

theorem runN_UB (cfg : Cfg) (N : Nat) (s : Sys) (σ : Nat → Tid) (h : UB N s) :
    ∀ n, UB N (runN cfg s σ n) := by
  intro n
  induction n with
  | zero => exact h
  | succ n ih =>
    cases hs : step cfg (runN cfg s σ n) (σ n) with
    | none => rw [runN_succ_none cfg s σ n hs]; exact ih
    | some s' => rw [runN_succ_some cfg s σ n s' hs]; exact UB_step cfg N _ s' _ ih hs

theorem runN_add (cfg : Cfg) (s : Sys) (σ : Nat → Tid) (a : Nat) :
    ∀ n, runN cfg s σ (a + n) = runN cfg (runN cfg s σ a) (shift σ a) n := by
  intro n
  induction n with
  | zero => rfl
  | succ n ih =>
    have : a + (n + 1) = (a + n) + 1 := by omega
    rw [this]
    simp only [runN, ih, shift]

theorem runN_eq_run (cfg : Cfg) (s : Sys) (σ : Nat → Tid) :
    ∀ n, runN cfg s σ n = run cfg s ((List.range n).map σ) := by
  intro n
  induction n with
  | zero => rfl
  | succ n ih =>
    rw [List.range_succ, List.map_append, run_append, ← ih]
    simp only [runN, List.map_cons, List.map_nil, run]
    cases step cfg (runN cfg s σ n) (σ n) <;> rfl

theorem weakFair_shift (cfg : Cfg) (s : Sys) (σ : Nat → Tid) (a : Nat) (h : WeakFair cfg s σ) :
    WeakFair cfg (runN cfg s σ a) (shift σ a) := by
  intro t n hen
  obtain ⟨m, hm, hσ⟩ := h t (a + n) (fun m hm => by
    have := hen (m - a) (by omega)
    rw [← runN_add] at this
    have e : a + (m - a) = m := by omega
    rwa [e] at this)
  exact ⟨m - a, by omega, by simp only [shift]; rw [← hσ]; congr 1; omega⟩

theorem goal_runN (cfg : Cfg) (progs : List (List Op)) (s : Sys) (σ : Nat → Tid) (p : Pkt)
    (h : WInv progs s) (n : Nat) (hg : Goal (runN cfg s σ n) p) :
    ∀ m, n ≤ m → Goal (runN cfg s σ m) p := by
  intro m hm
  induction m with
  | zero =>
    have : n = 0 := by omega
    subst this; exact hg
  | succ m ih =>
    by_cases hnm : n = m + 1
    · subst hnm; exact hg
    · have hgm := ih (by omega)
      cases hs : step cfg (runN cfg s σ m) (σ m) with
      | none => rw [runN_succ_none cfg s σ m hs]; exact hgm
      | some s' =>
        rw [runN_succ_some cfg s σ m s' hs]
        exact goal_step cfg progs _ s' _ p (runN_inv cfg progs s σ h m) hs hgm

theorem least_witness (P : Nat → Prop) (h : ∃ k, P k) : ∃ k, P k ∧ ∀ j, j < k → ¬ P j := by
  obtain ⟨k, hk⟩ := h
  induction k using Nat.strongRecOn with
  | _ k ih =>
    by_cases hj : ∃ j, j < k ∧ P j
    · obtain ⟨j, hjk, hpj⟩ := hj
      exact ih j hjk hpj
    · exact ⟨k, hk, fun j hjk hpj => hj ⟨j, hjk, hpj⟩⟩

/-- Under weak fairness some pick is an action, as long as some thread is enabled. -/
theorem some_move (cfg : Cfg) (s : Sys) (σ : Nat → Tid) (hf : WeakFair cfg s σ) (t : Tid)
    (hen : enabled cfg s t = true) :
    ∃ k s', (∀ j, j ≤ k → runN cfg s σ j = s) ∧ step cfg s (σ k) = some s' ∧
      runN cfg s σ (k + 1) = s' := by
  have hex : ∃ k, step cfg (runN cfg s σ k) (σ k) ≠ none := by
    apply Classical.byContradiction
    intro hne
    have hall : ∀ k, step cfg (runN cfg s σ k) (σ k) = none := by
      intro k
      apply Classical.byContradiction
      intro hk; exact hne ⟨k, hk⟩
    have hconst : ∀ k, runN cfg s σ k = s := by
      intro k
      induction k with
      | zero => rfl
      | succ k ih => rw [runN_succ_none cfg s σ k (hall k), ih]
    obtain ⟨m, -, hm⟩ := hf t 0 (fun m _ => by rw [hconst m]; exact hen)
    have := hall m
    rw [hconst m, hm] at this
    simp only [enabled, this] at hen
    cases hen
  obtain ⟨k, hk, hmin⟩ := least_witness _ hex
  have hconst : ∀ j, j ≤ k → runN cfg s σ j = s := by
    intro j
    induction j with
    | zero => intro _; rfl
    | succ j ih =>
      intro hj
      have h1 : step cfg (runN cfg s σ j) (σ j) = none := by
        apply Classical.byContradiction
        intro hc; exact hmin j (by omega) hc
      rw [runN_succ_none cfg s σ j h1, ih (by omega)]
  rw [hconst k (Nat.le_refl k)] at hk
  cases hs : step cfg s (σ k) with
  | none => exact absurd hs hk
  | some s' =>
    refine ⟨k, s', hconst, hs, ?_⟩
    apply runN_succ_some
    rw [hconst k (Nat.le_refl k)]; exact hs

/-- One action of any thread: the goal is reached, or `p` is still pending and the variant
`rank + work` has decreased. -/
theorem variant_step (cfg : Cfg) (progs : List (List Op)) (N : Nat) (s s' : Sys) (t : Tid) (p : Pkt)
    (h : WInv progs s) (hu : UB N s) (hq : discBegun s = false) (hp : Pending s p)
    (hs : step cfg s t = some s') :
    Goal s' p ∨ (Pending s' p ∧ rank s' p + work N s' + 1 ≤ rank s p + work N s) := by
  rcases work_step cfg N s s' t h.lock hu hq hs with k | ⟨w1, w2⟩
  · exact Or.inl (Or.inr k)
  · by_cases ht : t = 0
    · subst ht
      rcases rank_step_nt cfg s s' p h.lock h.wire hq hp hs with k | ⟨k1, k2⟩
      · exact Or.inl (Or.inl k)
      · exact Or.inr ⟨k1, by rw [w1 rfl]; omega⟩
    · rcases rank_step_user cfg s s' p t h.lock hq hp ht hs with k | ⟨k1, k2⟩
      · exact Or.inl (Or.inr k)
      · exact Or.inr ⟨k1, by have := w2 ht; omega⟩

/-- While `p` is pending and no disconnect has begun, a weakly fair schedule performs an action
after finitely many picks; it reaches the goal or decreases the variant. -/
theorem fair_one_move (cfg : Cfg) (progs : List (List Op)) (N : Nat) (p : Pkt) (s : Sys)
    (σ : Nat → Tid) (h : WInv progs s) (hu : UB N s) (hp : Pending s p)
    (hq : discBegun s = false) (hf : WeakFair cfg s σ) :
    ∃ k s', runN cfg s σ (k + 1) = s' ∧ step cfg s (σ k) = some s' ∧
      (Goal s' p ∨ (Pending s' p ∧ rank s' p + work N s' + 1 ≤ rank s p + work N s)) := by
  have hi : s.interrupt = false := by
    simp only [discBegun, Bool.or_eq_false_iff] at hq; exact hq.1
  -- some thread is enabled: the lock holder, or (lock free) the networking thread
  have hen : ∃ t, enabled cfg s t = true := by
    cases ho : s.owner with
    | none => exact ⟨0, free_enabled cfg s 0 h.lock ho (nt_not_done h.lock hi)⟩
    | some u => exact ⟨u, holder_enabled cfg s u h.lock h.wire ho⟩
  obtain ⟨t, hen⟩ := hen
  obtain ⟨k, s', -, hs, hk⟩ := some_move cfg s σ hf t hen
  exact ⟨k, s', hk, hs, variant_step cfg progs N s s' (σ k) p h hu hq hp hs⟩

theorem fair_core (cfg : Cfg) (progs : List (List Op)) (N : Nat) (p : Pkt) :
    ∀ v s σ, WInv progs s → UB N s → Pending s p → rank s p + work N s ≤ v →
      WeakFair cfg s σ → ∃ n, Goal (runN cfg s σ n) p := by
  intro v
  induction v with
  | zero =>
    intro s σ h hu hp hv hf
    cases hq : discBegun s with
    | true => exact ⟨0, Or.inr hq⟩
    | false =>
      obtain ⟨k, s', hk, -, g | ⟨-, g⟩⟩ := fair_one_move cfg progs N p s σ h hu hp hq hf
      · exact ⟨k + 1, by rw [hk]; exact g⟩
      · omega
  | succ v ih =>
    intro s σ h hu hp hv hf
    cases hq : discBegun s with
    | true => exact ⟨0, Or.inr hq⟩
    | false =>
      obtain ⟨k, s', hk, hs, g | ⟨g1, g2⟩⟩ := fair_one_move cfg progs N p s σ h hu hp hq hf
      · exact ⟨k + 1, by rw [hk]; exact g⟩
      · have hf' := weakFair_shift cfg s σ (k + 1) hf
        rw [hk] at hf'
        obtain ⟨n, hn⟩ := ih s' (shift σ (k + 1)) (step_inv cfg progs s s' _ h hs)
          (UB_step cfg N s s' _ hu hs) g1 (by omega) hf'
        refine ⟨(k + 1) + n, ?_⟩
        rw [runN_add, hk]; exact hn

/-! ### Forced writes, programs without disconnect, fair schedules -/

/-- Where thread `t`'s forced write of `p` (followed by `rest`) stands. -/
def ForcedJ (s : Sys) (t : Tid) (p : Pkt) (rest : List Op) : Prop :=
  ((s.thr t).pc = .user .idle ∧ (s.thr t).todo = .forced p :: rest) ∨
  ((s.thr t).pc = .user (.fSnd0 p) ∧ (s.thr t).todo = rest) ∨
  ((s.thr t).pc = .user (.fSnd1 p) ∧ (s.thr t).todo = rest) ∨
  p ∈ sentPkts s.wire ∨ p ∈ s.failed

theorem forcedJ_step (cfg : Cfg) (s s' : Sys) (u t : Tid) (p : Pkt) (rest : List Op)
    (hs : step cfg s u = some s') (hj : ForcedJ s t p rest) : ForcedJ s' t p rest := by
  unfold ForcedJ at *
  step_cases hs hpc htd
  all_goals grind [upd, sentPkts_snoc0, sentPkts_snoc1]

theorem forcedJ_run (cfg : Cfg) (t : Tid) (p : Pkt) (rest : List Op) (more : List Tid) :
    ∀ s, ForcedJ s t p rest → ForcedJ (run cfg s more) t p rest := by
  induction more with
  | nil => intro s h; exact h
  | cons u us ih =>
    intro s h; unfold run
    split
    · next s' hs => exact ih s' (forcedJ_step cfg s s' u t p rest hs h)
    · exact ih s h

/-! no disconnect in the programs -/

theorem todo_suffix {progs : List (List Op)} {s : Sys} (h : ProgInv progs s) (t : Tid) :
    (s.thr t).todo = [] ∨ ∃ prog ∈ progs, (s.thr t).todo <:+ prog := by
  obtain ⟨done, hd, -, -⟩ := h.prog t
  unfold progOf at hd
  split at hd
  · left
    exact (List.append_eq_nil_iff.mp hd.symm).2
  · by_cases hi : t - 1 < progs.length
    · right
      refine ⟨progs[t - 1], List.getElem_mem hi, ?_⟩
      have : progs.getD (t - 1) [] = progs[t - 1] := by simp [List.getD, hi]
      rw [this] at hd
      exact ⟨done, hd.symm⟩
    · left
      rw [getD_big progs _ (Nat.le_of_not_lt hi)] at hd
      exact (List.append_eq_nil_iff.mp hd.symm).2

theorem nodisc_step (cfg : Cfg) (s s' : Sys) (t : Tid) (hl : LockInv s) (hw : WireInv s)
    (hq : discBegun s = false) (hnd : ∀ imm, Op.disconnect imm ∉ (s.thr t).todo)
    (hs : step cfg s t = some s') : discBegun s' = false := by
  simp only [discBegun, Bool.or_eq_false_iff] at hq
  have ho := open_of_not_int hl hw hq.1
  have hx := hw.xrel_closed
  have h1t := hl.crit_owner t
  have hd := hl.depth_ok
  simp only [discBegun, Bool.or_eq_false_iff]
  step_cases hs hpc htd
  all_goals cur_simp s t h1t hd hpc
  all_goals grind [Pc.dctx]

theorem fair_weak (cfg : Cfg) (N : Nat) (s : Sys) (σ : Nat → Tid) (hu : UB N s)
    (hf : FairUpTo N σ) : WeakFair cfg s σ := by
  intro t n hen
  by_cases ht : t ≤ N
  · exact hf t ht n
  · have := hen n (Nat.le_refl n)
    simp only [enabled, UB_dead cfg N _ (runN_UB cfg N s σ hu n) t (Nat.lt_of_not_le ht)] at this
    cases this

theorem roundRobin_fair (N : Nat) : FairUpTo N (roundRobin N) := by
  intro t ht n
  refine ⟨n * (N + 1) + t, ?_, ?_⟩
  · have : n ≤ n * (N + 1) := Nat.le_mul_of_pos_right n (by omega)
    omega
  · simp only [roundRobin]
    rw [Nat.mul_comm, Nat.mul_add_mod]
    exact Nat.mod_eq_of_lt (by omega)

/-! ### Packaging for `Props/C12Progress.lean` -/

theorem qpos_eq_idxOf (p : Pkt) (l : List Pkt) : qpos p l = l.idxOf p := by
  induction l with
  | nil => rfl
  | cons x xs ih =>
    simp only [qpos, List.idxOf_cons, ih]
    by_cases h : x = p
    · simp [h]
    · have hb : (x == p) = false := by simp [h]
      simp [h, hb]

theorem npos_le (pc : NPc) : npos pc ≤ 13 := by
  cases pc <;> simp [npos]

theorem rank_le (s : Sys) (p : Pkt) : rank s p ≤ 11 * qpos p s.queue + 13 := by
  unfold rank
  split
  · split <;> omega
  · split <;> omega
  · next pc _ _ _ => have := npos_le (by assumption : NPc); omega
  · omega

theorem discBegun_iff {s : Sys} (hl : LockInv s) :
    discBegun s = true ↔ (s.interrupt = true ∨ ∃ t c, (s.thr t).pc.dctx = some c) := by
  simp only [discBegun, Bool.or_eq_true]
  constructor
  · rintro (h | h)
    · exact Or.inl h
    · right
      obtain ⟨c, hc⟩ := Option.isSome_iff_exists.mp h
      obtain ⟨t, ht⟩ := dctx_owner hc
      exact ⟨t, c, by rw [← cur_of_owner ht]; exact hc⟩
  · rintro (h | ⟨t, c, hc⟩)
    · exact Or.inl h
    · right
      rw [cur_of_crit hl t (dctx_crit _ c hc), hc]; rfl

/-- A thread that is not enabled is finished, or waits for the lock, which another thread holds —
and that thread is enabled. -/
theorem blocked_cases (cfg : Cfg) (s : Sys) (t : Tid) (hl : LockInv s) (hw : WireInv s)
    (hb : enabled cfg s t = false) :
    (s.thr t).pc.isDone = true ∨ ∃ u, u ≠ t ∧ s.owner = some u ∧ enabled cfg s u = true := by
  cases hd : (s.thr t).pc.isDone with
  | true => exact Or.inl rfl
  | false =>
    right
    cases ho : s.owner with
    | none =>
      have := free_enabled cfg s t hl ho hd
      simp only [enabled] at hb; rw [hb] at this; cases this
    | some u =>
      refine ⟨u, ?_, rfl, holder_enabled cfg s u hl hw ho⟩
      intro hut
      subst hut
      have := holder_enabled cfg s u hl hw ho
      simp only [enabled] at hb; rw [hb] at this; cases this

theorem solo_of {s : Sys} (hl : LockInv s) (ho : s.owner = none ∨ s.owner = some 0)
    (hi : s.interrupt = false) : Solo s := by
  refine ⟨ho, ?_⟩
  simp only [discBegun, hi, Bool.false_or]
  rcases ho with ho | ho
  · rw [cur_of_free ho]; rfl
  · obtain ⟨pc, n, h0⟩ := hl.nt_net
    rw [cur_of_owner ho, h0]; rfl

/-- The solo run of the networking thread drains the queue. -/
theorem drain_core (cfg : Cfg) (progs : List (List Op)) (s : Sys) (h : WInv progs s)
    (ho : s.owner = none ∨ s.owner = some 0) (hi : s.interrupt = false) (k : Nat)
    (hk : 11 * s.queue.length + 2 ≤ k) :
    (∀ p ∈ s.queue, p ∈ sentPkts (run cfg s (List.replicate k 0)).wire) ∧
    skipped cfg s (List.replicate k 0) = 0 ∧
    (run cfg s (List.replicate k 0)).interrupt = false ∧
    (run cfg s (List.replicate k 0)).sockOpen = true := by
  obtain ⟨m1, m2, m3⟩ := solo_run cfg progs k s h (solo_of h.lock ho hi)
  have h' := run_inv cfg progs (List.replicate k 0) s h
  have hq' := m3.2
  have hi' : (run cfg s (List.replicate k 0)).interrupt = false := by
    simp only [discBegun, Bool.or_eq_false_iff] at hq'; exact hq'.1
  refine ⟨fun p hp => ?_, m2, hi', open_of_not_int h'.lock h'.wire hi'⟩
  have hr := rank_le s p
  have hl := qpos_lt p s.queue hp
  rcases progress_core cfg progs p (List.replicate k 0) s h
      (Or.inr ⟨Or.inl hp, by rw [m1]; omega⟩) with g | g
  · exact g
  · rw [hq'] at g; cases g

/-- Everything issued before a graceful disconnect acquired the free lock (socket open) is on the
wire when that disconnect is at its final `rel`. -/
theorem issued_before_sent (cfg : Cfg) (progs : List (List Op)) (s0 : Sys) (h0 : WInv progs s0)
    (more : List Tid) (t : Tid) (ho : s0.owner = none) (hopen : s0.sockOpen = true)
    (hpc : ((run cfg s0 more).thr t).pc = .user (.dRel ⟨false, s0.queue, s0.wire, true⟩)) :
    (∀ p ∈ s0.issued, p ∈ sentPkts (run cfg s0 more).wire) ∧
      (run cfg s0 more).sockOpen = false := by
  have h2 := run_inv cfg progs more s0 h0
  have hcur : cur (run cfg s0 more) = .user (.dRel ⟨false, s0.queue, s0.wire, true⟩) := by
    rw [cur_of_crit h2.lock t (by rw [hpc]; rfl), hpc]
  refine ⟨fun p hp => ?_, h2.wire.rel_closed _ hcur⟩
  have hm := (h0.wire.mem_issued p).mp hp
  rw [cur_of_free ho] at hm
  have hf : s0.failed = [] := by
    cases hfl : s0.failed with
    | nil => rfl
    | cons a l =>
      have := h0.wire.failed_closed (by rw [hfl]; simp)
      rw [hopen] at this; cases this
  rcases hm with hm | hm | hm | hm
  · exact sent_run cfg p more s0 hm
  · simp [Pc.infl] at hm
  · have := h2.wire.snap _ (by rw [hcur]; rfl) rfl rfl p hm
    rw [hcur] at this
    simpa [Pc.flushing] using this
  · rw [hf] at hm; cases hm

/-- In programs without `disconnect` no disconnect ever begins. -/
theorem nodisc_run (cfg : Cfg) (progs : List (List Op))
    (hnd : ∀ prog ∈ progs, ∀ imm, Op.disconnect imm ∉ prog) (more : List Tid) :
    ∀ s, WInv progs s → discBegun s = false → discBegun (run cfg s more) = false := by
  induction more with
  | nil => intro s _ hq; exact hq
  | cons t ts ih =>
    intro s h hq; unfold run
    split
    · next s' hs =>
      refine ih s' (step_inv cfg progs s s' t h hs) (nodisc_step cfg s s' t h.lock h.wire hq ?_ hs)
      intro imm hmem
      rcases todo_suffix h.prog t with he | ⟨prog, hprog, hsuf⟩
      · rw [he] at hmem; cases hmem
      · exact hnd prog hprog imm (hsuf.subset hmem)
    · exact ih s h hq

theorem init_not_disc (progs : List (List Op)) : discBegun (init progs) = false := rfl

end PyCraft.Writers
