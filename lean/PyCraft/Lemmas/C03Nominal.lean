import PyCraft.Model.C03Nominal
import PyCraft.Lemmas.VarIntDec
/-!
Helper lemmas for `Props/C03Nominal.lean`: the instrumented reader's projections, and the exact
characterisation of the three outcomes of `VarInt.read` in terms of the shape of the input.
-/
namespace PyCraft

/-- every byte of `l` carries the continuation bit 0x80 -/
def AllCont (l : Bytes) : Prop := ∀ b ∈ l, 128 ≤ b.toNat

instance (l : Bytes) : Decidable (AllCont l) := by unfold AllCont; infer_instance

/-- Specification of a VarInt reader with nominal maximum `mx`, as a predicate on an ARBITRARY
decoder `D` (it does not mention `decVarInt`): which inputs are over-long, which hit end of stream,
and that EVERY terminated run of at most `mx` continuation bytes is accepted (canonical or not) with
the base-128 value of the consumed bytes and the cursor right after the terminator. -/
structure ReaderSpec (mx : Nat) (D : Bytes → Except Err (Nat × Bytes)) : Prop where
  tooLong_iff : ∀ bs, D bs = .error .tooLong ↔ mx + 1 ≤ bs.length ∧ AllCont (bs.take (mx + 1))
  eof_iff : ∀ bs, D bs = .error .eof ↔ bs.length ≤ mx ∧ AllCont bs
  accepts : ∀ pre last rest, pre.length ≤ mx → AllCont pre → last.toNat < 128 →
    D (pre ++ last :: rest) = .ok (leValue (pre ++ [last]), rest)

/-- the instrumented reader IS the pair (decoder, read counter), on every input and in every loop
state — failures included -/
theorem readInstr_eq (mx : Nat) : ∀ (bs : Bytes) (be acc : Nat),
    readInstr mx be acc bs = (decVarIntAux mx be acc bs, decVarIntReads mx be bs) := by
  intro bs
  induction bs with
  | nil => intro be acc; rfl
  | cons b rest ih =>
    intro be acc
    simp only [readInstr, decVarIntAux, decVarIntReads]
    split
    · rfl
    · split
      · rfl
      · rw [ih]; simp only [Prod.mk.injEq, true_and]; omega

theorem cont_of_and80 (b : UInt8) (h : ¬ b.toNat &&& 0x80 = 0) : 128 ≤ b.toNat := by
  rcases Nat.lt_or_ge b.toNat 128 with h' | h'
  · exact absurd (and80_lt _ h') h
  · exact h'

theorem term_of_and80 (b : UInt8) (h : b.toNat &&& 0x80 = 0) : b.toNat < 128 :=
  and80_zero_lt _ b.toNat_lt h

theorem aux_tooLong_iff (mx : Nat) : ∀ (bs : Bytes) (be acc : Nat), be ≤ mx →
    (decVarIntAux mx be acc bs = .error .tooLong ↔
      mx + 1 ≤ be + bs.length ∧ AllCont (bs.take (mx + 1 - be))) := by
  intro bs
  induction bs with
  | nil =>
    intro be acc h
    simp only [decVarIntAux, List.length_nil]
    constructor
    · intro h'; cases h'
    · intro ⟨h1, _⟩; omega
  | cons b rest ih =>
    intro be acc h
    have hk : mx + 1 - be = (mx - be) + 1 := by omega
    simp only [decVarIntAux, List.length_cons, hk, List.take_succ_cons]
    split
    · next hz =>
      have := term_of_and80 b hz
      constructor
      · intro h'; cases h'
      · intro ⟨_, h2⟩
        have := h2 b (by simp)
        omega
    · next hz =>
      have hge := cont_of_and80 b hz
      split
      · next hgt =>
        have hbe : mx - be = 0 := by omega
        constructor
        · intro _
          refine ⟨by omega, ?_⟩
          rw [hbe]; intro x hx
          simp at hx; subst hx; exact hge
        · intro _; rfl
      · next hle =>
        have hk' : mx - be = mx + 1 - (be + 1) := by omega
        rw [ih (be + 1) _ (by omega), hk']
        constructor
        · intro ⟨h1, h2⟩
          refine ⟨by omega, ?_⟩
          intro x hx
          rcases List.mem_cons.mp hx with hx | hx
          · subst hx; exact hge
          · exact h2 x hx
        · intro ⟨h1, h2⟩
          exact ⟨by omega, fun x hx => h2 x (List.mem_cons_of_mem _ hx)⟩

theorem aux_eof_iff (mx : Nat) : ∀ (bs : Bytes) (be acc : Nat), be ≤ mx →
    (decVarIntAux mx be acc bs = .error .eof ↔ be + bs.length ≤ mx ∧ AllCont bs) := by
  intro bs
  induction bs with
  | nil =>
    intro be acc h
    simp only [decVarIntAux, List.length_nil, true_iff]
    exact ⟨by omega, fun x hx => by cases hx⟩
  | cons b rest ih =>
    intro be acc h
    simp only [decVarIntAux, List.length_cons]
    split
    · next hz =>
      have := term_of_and80 b hz
      constructor
      · intro h'; cases h'
      · intro ⟨_, h2⟩
        have := h2 b (by simp)
        omega
    · next hz =>
      have hge := cont_of_and80 b hz
      split
      · next hgt =>
        constructor
        · intro h'; cases h'
        · intro ⟨h1, _⟩; omega
      · next hle =>
        rw [ih (be + 1) _ (by omega)]
        constructor
        · intro ⟨h1, h2⟩
          refine ⟨by omega, ?_⟩
          intro x hx
          rcases List.mem_cons.mp hx with hx | hx
          · subst hx; exact hge
          · exact h2 x hx
        · intro ⟨h1, h2⟩
          exact ⟨by omega, fun x hx => h2 x (List.mem_cons_of_mem _ hx)⟩

theorem aux_accepts (mx : Nat) : ∀ (pre : Bytes) (be acc : Nat) (last : UInt8) (rest : Bytes),
    acc < 2 ^ (7 * be) → be + pre.length ≤ mx → AllCont pre → last.toNat < 128 →
    decVarIntAux mx be acc (pre ++ last :: rest) =
      .ok (acc + leValue (pre ++ [last]) * 2 ^ (7 * be), rest) := by
  intro pre
  induction pre with
  | nil =>
    intro be acc last rest hacc _ _ hl
    simp only [List.nil_append, decVarIntAux, and80_lt _ hl, if_true]
    rw [and7F, acc_or _ _ _ hacc]
    simp [leValue]
  | cons b pre ih =>
    intro be acc last rest hacc hlen hall hl
    have hge : 128 ≤ b.toNat := hall b (by simp)
    have hb : b.toNat < 256 := b.toNat_lt
    have hz : ¬ b.toNat &&& 0x80 = 0 := and80_ge _ hb hge
    simp only [List.length_cons] at hlen
    have hpow : 2 ^ (7 * (be + 1)) = 2 ^ (7 * be) * 128 := by
      rw [Nat.mul_add, Nat.pow_add]
    have hacc' : acc ||| ((b.toNat &&& 0x7F) <<< (7 * be)) < 2 ^ (7 * (be + 1)) := by
      rw [and7F, acc_or _ _ _ hacc, hpow]
      have hm : b.toNat % 128 < 128 := Nat.mod_lt _ (by omega)
      have : b.toNat % 128 * 2 ^ (7 * be) ≤ 127 * 2 ^ (7 * be) :=
        Nat.mul_le_mul_right _ (by omega)
      omega
    simp only [List.cons_append, decVarIntAux, if_neg hz, if_neg (show ¬ be + 1 > mx by omega)]
    rw [ih (be + 1) _ last rest hacc' (by omega) (fun x hx => hall x (List.mem_cons_of_mem _ hx)) hl]
    rw [and7F, acc_or _ _ _ hacc, hpow]
    simp only [leValue]
    congr 2
    rw [Nat.add_mul, Nat.add_assoc]
    congr 1
    rw [Nat.mul_comm (2 ^ (7*be)) 128, ← Nat.mul_assoc, Nat.mul_comm _ 128]

theorem aux_tooLong_reads (mx : Nat) : ∀ (bs : Bytes) (be acc : Nat), be ≤ mx →
    decVarIntAux mx be acc bs = .error .tooLong → decVarIntReads mx be bs + be = mx + 1 := by
  intro bs
  induction bs with
  | nil => intro be acc _ h; simp [decVarIntAux] at h
  | cons b rest ih =>
    intro be acc hbe h
    simp only [decVarIntAux] at h
    simp only [decVarIntReads]
    split
    · next hz => rw [if_pos hz] at h; cases h
    · next hz =>
      rw [if_neg hz] at h
      split
      · omega
      · next hle =>
        rw [if_neg hle] at h
        have := ih (be + 1) _ (by omega) h
        omega

theorem aux_eof_reads (mx : Nat) : ∀ (bs : Bytes) (be acc : Nat),
    decVarIntAux mx be acc bs = .error .eof → decVarIntReads mx be bs = bs.length + 1 := by
  intro bs
  induction bs with
  | nil => intro be acc _; simp [decVarIntReads]
  | cons b rest ih =>
    intro be acc h
    simp only [decVarIntAux] at h
    simp only [decVarIntReads, List.length_cons]
    split
    · next hz => rw [if_pos hz] at h; cases h
    · next hz =>
      rw [if_neg hz] at h
      split
      · next hgt => rw [if_pos hgt] at h; cases h
      · next hle =>
        rw [if_neg hle] at h
        have := ih (be + 1) _ h
        omega

/-- every byte string has exactly one of three shapes relative to `mx` -/
theorem shape_cases : ∀ (mx : Nat) (bs : Bytes),
    (∃ pre last rest, bs = pre ++ last :: rest ∧ pre.length ≤ mx ∧ AllCont pre ∧ last.toNat < 128) ∨
    (mx + 1 ≤ bs.length ∧ AllCont (bs.take (mx + 1))) ∨
    (bs.length ≤ mx ∧ AllCont bs) := by
  intro mx bs
  induction bs generalizing mx with
  | nil => right; right; exact ⟨by simp, fun x hx => by cases hx⟩
  | cons b tl ih =>
    rcases Nat.lt_or_ge b.toNat 128 with hb | hb
    · left; exact ⟨[], b, tl, rfl, by simp, (fun x hx => by cases hx), hb⟩
    · cases mx with
      | zero =>
        right; left
        refine ⟨by simp, ?_⟩
        intro x hx; simp at hx; subst hx; exact hb
      | succ m =>
        rcases ih m with ⟨pre, last, rest, e, h1, h2, h3⟩ | ⟨h1, h2⟩ | ⟨h1, h2⟩
        · left
          refine ⟨b :: pre, last, rest, by simp [e], by simp; omega, ?_, h3⟩
          intro x hx
          rcases List.mem_cons.mp hx with hx | hx
          · subst hx; exact hb
          · exact h2 x hx
        · right; left
          refine ⟨by simp; omega, ?_⟩
          rw [List.take_succ_cons]
          intro x hx
          rcases List.mem_cons.mp hx with hx | hx
          · subst hx; exact hb
          · exact h2 x hx
        · right; right
          refine ⟨by simp; omega, ?_⟩
          intro x hx
          rcases List.mem_cons.mp hx with hx | hx
          · subst hx; exact hb
          · exact h2 x hx

/-- a run of `n` bytes `0xff` -/
def contRun (n : Nat) : Bytes := List.replicate n 0xff

theorem contRun_allCont (n : Nat) : AllCont (contRun n) := by
  intro x hx
  have := List.eq_of_mem_replicate hx
  subst this; decide

theorem contRun_tooLong (mx : Nat) : decVarInt mx (contRun (mx + 1)) = .error .tooLong := by
  unfold decVarInt
  rw [aux_tooLong_iff mx _ 0 0 (by omega)]
  refine ⟨by simp [contRun], ?_⟩
  intro x hx
  exact contRun_allCont (mx + 1) x (List.mem_of_mem_take hx)

theorem contRun_reads (mx : Nat) : decVarIntReads mx 0 (contRun (mx + 1)) = mx + 1 := by
  have := aux_tooLong_reads mx _ 0 0 (by omega) (contRun_tooLong mx)
  omega

/-- does the model's observation of `cls.read` on the row's input equal what the live code did?
row = (class name, input bytes, outcome tag, value, `tell()` afterwards, `read(1)` calls) -/
def probeAgrees (row : String × List Nat × String × Nat × Nat × Nat) : Bool :=
  match VarKind.ofName row.1 with
  | none => false
  | some k =>
    k.observe (row.2.1.map UInt8.ofNat) == (row.2.2.1, row.2.2.2.1, row.2.2.2.2.1, row.2.2.2.2.2)

end PyCraft
