import PyCraft.Model.C08Live
import PyCraft.Lemmas.Versions
import PyCraft.Lemmas.VersionsCheck
/-!
Helper definitions and lemmas for `Props/C08Live.lean` (audit gap 25).

* A: ids that are used consistently (`IdsFunctional`), `lastVal`, agreement of the name tables;
* B: `dedup` commutes with `filter` and absorbs an inner `dedup` under `map`;
* C: positions in a list whose filtered part is strictly increasing;
* D: inserting records in the middle of the list;
* E: the by-reference model of the real code is transparent (invariant `WF`);
* F: a kernel-friendly check of `IdsFunctional` through the numeric key codes.
-/
namespace PyCraft

/-! ### A. Functional ids -/

/-- Every id is used for one protocol number only (it may be listed several times). -/
def IdsFunctional (recs : List Rec) : Prop :=
  ∀ r ∈ recs, ∀ s ∈ recs, r.id = s.id → r.protocol = s.protocol

instance (recs : List Rec) : Decidable (IdsFunctional recs) := by
  unfold IdsFunctional; infer_instance

/-- The same for a list of key/value pairs. -/
def PairsFunctional {α β : Type} (l : List (α × β)) : Prop :=
  ∀ e ∈ l, ∀ e' ∈ l, e.1 = e'.1 → e.2 = e'.2

theorem PairsFunctional.mono {α β : Type} {l l' : List (α × β)} (h : PairsFunctional l)
    (hs : ∀ e ∈ l', e ∈ l) : PairsFunctional l' :=
  fun e he e' he' => h e (hs e he) e' (hs e' he')

section A
variable {α β : Type} [DecidableEq α]

theorem lastVal_mem (l : List (α × β)) (k : α) (v : β) (h : lastVal l k = some v) : (k, v) ∈ l := by
  induction l with
  | nil => simp [lastVal] at h
  | cons e l ih =>
    rw [lastVal_cons] at h
    cases hl : lastVal l k with
    | some x =>
      rw [hl] at h
      simp only [Option.or, Option.some.injEq] at h
      exact List.mem_cons_of_mem _ (ih (hl.trans (congrArg some h)))
    | none =>
      rw [hl] at h
      simp only [Option.or] at h
      by_cases hk : e.1 = k
      · rw [if_pos hk] at h
        have : e = (k, v) := by
          obtain ⟨e1, e2⟩ := e
          simp only at hk h
          rw [hk, Option.some.inj h]
        rw [this]; exact List.mem_cons_self
      · rw [if_neg hk] at h; cases h

theorem lastVal_isSome (l : List (α × β)) (k : α) (h : k ∈ l.map (·.1)) :
    ∃ v, lastVal l k = some v := by
  induction l with
  | nil => simp at h
  | cons e l ih =>
    rw [lastVal_cons]
    cases hl : lastVal l k with
    | some x => exact ⟨x, by simp⟩
    | none =>
      by_cases hk : e.1 = k
      · exact ⟨e.2, by simp [hk]⟩
      · simp only [List.map_cons, List.mem_cons] at h
        rcases h with h | h
        · exact absurd h.symm hk
        · obtain ⟨v, hv⟩ := ih h
          rw [hl] at hv; cases hv

/-- With functional pairs, the value of a listed key is the value of ANY pair with that key. -/
theorem lastVal_of_functional (l : List (α × β)) (hf : PairsFunctional l) (e : α × β) (he : e ∈ l) :
    lastVal l e.1 = some e.2 := by
  obtain ⟨v, hv⟩ := lastVal_isSome l e.1 (List.mem_map.2 ⟨e, he, rfl⟩)
  rw [hv, hf e he (e.1, v) (lastVal_mem l e.1 v hv) rfl]

theorem odSet_same (d : List (α × β)) (k : α) (v : β) (h : ∀ e ∈ d, e.1 = k → e.2 = v) :
    odSet d k v = d ∨ k ∉ d.map (·.1) := by
  induction d with
  | nil => right; simp
  | cons e d ih =>
    obtain ⟨k', v'⟩ := e
    by_cases hk : k' = k
    · left
      have : v' = v := h (k', v') List.mem_cons_self hk
      simp [odSet, hk, this]
    · rcases ih (fun e he => h e (List.mem_cons_of_mem _ he)) with h1 | h1
      · left; simp [odSet, hk, h1]
      · right
        simp only [List.map_cons, List.mem_cons, not_or]
        exact ⟨fun e => hk e.symm, h1⟩

end A

section A'
variable {α β : Type} [DecidableEq α] [DecidableEq β]

theorem odExtend_eq_dedupFrom (d l : List (α × β)) (hf : PairsFunctional (d ++ l)) :
    odExtend d l = dedupFrom d l := by
  induction l generalizing d with
  | nil => rfl
  | cons e l ih =>
    have h1 : odExtend d (e :: l) = odExtend (odSet d e.1 e.2) l := rfl
    have h2 : dedupFrom d (e :: l) = dedupFrom (dedupFrom d [e]) l := rfl
    have hed : e ∈ d ++ e :: l := List.mem_append_right _ List.mem_cons_self
    rw [h1, h2]
    by_cases hk : e.1 ∈ d.map (·.1)
    · obtain ⟨e', he', hkk⟩ := List.mem_map.1 hk
      have he : e ∈ d := by
        have h2' := hf e' (List.mem_append_left _ he') e hed hkk
        have : e' = e := Prod.ext hkk h2'
        rw [← this]; exact he'
      have hs : odSet d e.1 e.2 = d := by
        rcases odSet_same d e.1 e.2
          (fun x hx hxk => hf x (List.mem_append_left _ hx) e hed hxk) with h | h
        · exact h
        · exact absurd hk h
      have h3 : dedupFrom d [e] = d := by simp [dedupFrom, he]
      rw [hs, h3]
      exact ih d (hf.mono (fun x hx => by
        rcases List.mem_append.1 hx with hx | hx
        · exact List.mem_append_left _ hx
        · exact List.mem_append_right _ (List.mem_cons_of_mem _ hx)))
    · have he : e ∉ d := fun h => hk (List.mem_map.2 ⟨e, h, rfl⟩)
      have h3 : dedupFrom d [e] = d ++ [e] := by simp [dedupFrom, he]
      rw [odSet_of_not_mem _ _ _ hk, h3]
      exact ih (d ++ [e]) (hf.mono (fun x hx => by
        simp only [List.append_assoc, List.singleton_append] at hx
        exact hx))

/-- With functional pairs, `OrderedDict(pairs)` is the list of first occurrences of the PAIRS. -/
theorem odFromList_eq_dedup (l : List (α × β)) (hf : PairsFunctional l) :
    odFromList l = dedup l := by
  have := odExtend_eq_dedupFrom [] l (by simpa using hf)
  rw [dedupFrom_nil] at this
  exact this

end A'

theorem IdsFunctional.pairs {recs : List Rec} (h : IdsFunctional recs) :
    PairsFunctional (recPairs recs) := by
  intro e he e' he' hk
  obtain ⟨r, hr, rfl⟩ := List.mem_map.1 he
  obtain ⟨s, hs, rfl⟩ := List.mem_map.1 he'
  exact h r hr s hs hk

theorem IdsFunctional.filter {recs : List Rec} (h : IdsFunctional recs) (p : Rec → Bool) :
    IdsFunctional (recs.filter p) :=
  fun r hr s hs => h r (List.mem_filter.1 hr).1 s (List.mem_filter.1 hs).1

/-- In a dict (distinct keys), filtering the items does not change the value of a key it keeps. -/
theorem odGet_filter {α β : Type} [DecidableEq α] (d : List (α × β)) (hd : (d.map (·.1)).Nodup)
    (p : α × β → Bool) (k : α) (v : β) :
    odGet (d.filter p) k = some v ↔ (odGet d k = some v ∧ p (k, v) = true) := by
  rw [← mem_iff_odGet _ (filter_keys_nodup d p hd), ← mem_iff_odGet _ hd, List.mem_filter]

/-! ### B. `dedup`, `filter`, `map` -/

section B
variable {α β : Type} [DecidableEq α] [DecidableEq β]

theorem dedup_filter (p : α → Bool) (l : List α) : dedup (l.filter p) = (dedup l).filter p := by
  induction l with
  | nil => rfl
  | cons x xs ih =>
    by_cases hx : p x = true
    · rw [List.filter_cons_of_pos hx]
      simp only [dedup, ih, List.filter_cons_of_pos hx, List.filter_filter]
      congr 1
      apply List.filter_congr
      intro y _
      exact Bool.and_comm _ _
    · rw [List.filter_cons_of_neg hx]
      simp only [dedup, ih, List.filter_cons_of_neg hx, List.filter_filter]
      apply List.filter_congr
      intro y _
      by_cases hy : p y = true
      · have : y ≠ x := fun e => hx (e ▸ hy)
        simp [hy, this]
      · simp [hy]

/-- First occurrences of the images: an inner `dedup` does not matter. -/
theorem dedup_map_dedup (f : α → β) (l : List α) : dedup ((dedup l).map f) = dedup (l.map f) := by
  induction l with
  | nil => rfl
  | cons x xs ih =>
    simp only [dedup, List.map_cons]
    congr 1
    rw [← ih, ← dedup_filter (fun y => decide (y ≠ f x)), ← dedup_filter (fun y => decide (y ≠ f x))]
    congr 1
    rw [List.filter_map, List.filter_map, List.filter_filter]
    congr 1
    apply List.filter_congr
    intro y _
    by_cases hy : f y = f x
    · simp [hy]
    · have : y ≠ x := fun e => hy (e ▸ rfl)
      simp [hy, this]

end B

/-! ### C. Positions in a list whose selected part is strictly increasing -/

theorem idxOf_lt_iff_of_sorted (m : List Nat) (h : m.Pairwise (· < ·)) (a b : Nat)
    (ha : a ∈ m) (hb : b ∈ m) : m.idxOf a < m.idxOf b ↔ a < b := by
  induction m with
  | nil => simp at ha
  | cons x xs ih =>
    rw [List.pairwise_cons] at h
    simp only [idxOf_cons_ite]
    by_cases h1 : x = a <;> by_cases h2 : x = b
    · rw [if_pos h1, if_pos h2]; omega
    · rw [if_pos h1, if_neg h2]
      have hb' : b ∈ xs := by
        rcases List.mem_cons.1 hb with e | e
        · exact absurd e.symm h2
        · exact e
      have := h.1 b hb'
      omega
    · rw [if_neg h1, if_pos h2]
      have ha' : a ∈ xs := by
        rcases List.mem_cons.1 ha with e | e
        · exact absurd e.symm h1
        · exact e
      have := h.1 a ha'
      omega
    · rw [if_neg h1, if_neg h2]
      have ha' : a ∈ xs := by
        rcases List.mem_cons.1 ha with e | e
        · exact absurd e.symm h1
        · exact e
      have hb' : b ∈ xs := by
        rcases List.mem_cons.1 hb with e | e
        · exact absurd e.symm h2
        · exact e
      have := ih h.2 ha' hb'
      omega

/-- If the elements of `l` selected by `p` appear in strictly increasing order, then among them
position order is numeric order. -/
theorem idxOf_lt_iff_of_filter_sorted (l : List Nat) (p : Nat → Bool)
    (h : (l.filter p).Pairwise (· < ·)) (a b : Nat) (ha : a ∈ l) (hb : b ∈ l)
    (hpa : p a = true) (hpb : p b = true) : l.idxOf a < l.idxOf b ↔ a < b := by
  rw [← idxOf_filter_lt p l a b hpa hpb]
  exact idxOf_lt_iff_of_sorted _ h a b (List.mem_filter.2 ⟨ha, hpa⟩) (List.mem_filter.2 ⟨hb, hpb⟩)

/-- Position of a known version, as an equation for `earlier` / `earlierEq`. -/
theorem earlier_known (recs : List Rec) (a b : Nat) (ha : a ∈ (initKnown recs).knownProtocols)
    (hb : b ∈ (initKnown recs).knownProtocols) :
    earlier (initKnown recs) a b = .ok (decide ((initKnown recs).knownProtocols.idxOf a
      < (initKnown recs).knownProtocols.idxOf b)) ∧
    earlierEq (initKnown recs) a b = .ok (decide ((initKnown recs).knownProtocols.idxOf a
      ≤ (initKnown recs).knownProtocols.idxOf b)) :=
  ⟨earlier_ok _ a b _ _ (indexE_known recs a ha) (indexE_known recs b hb),
   earlierEq_ok _ a b _ _ (indexE_known recs a ha) (indexE_known recs b hb)⟩

theorem knownProtocols_eq (recs : List Rec) :
    (initKnown recs).knownProtocols = dedup (recs.map (·.protocol)) := by
  rw [initKnown_eq_spec]; rfl

/-- `protocol_earlier` in terms of the RAW list of the records' protocol numbers. -/
theorem earlier_raw (recs : List Rec) (a b : Nat) :
    earlier (initKnown recs) a b =
      if a ∈ recs.map (·.protocol) ∧ b ∈ recs.map (·.protocol) then
        .ok (decide ((recs.map (·.protocol)).idxOf a < (recs.map (·.protocol)).idxOf b))
      else .error .other := by
  by_cases ha : a ∈ recs.map (·.protocol)
  · by_cases hb : b ∈ recs.map (·.protocol)
    · have ha' : a ∈ (initKnown recs).knownProtocols := by rw [knownProtocols_eq, mem_dedup]; exact ha
      have hb' : b ∈ (initKnown recs).knownProtocols := by rw [knownProtocols_eq, mem_dedup]; exact hb
      rw [if_pos ⟨ha, hb⟩, (earlier_known recs a b ha' hb').1, knownProtocols_eq]
      congr 1
      exact decide_eq_decide.2 (idxOf_dedup_lt _ a b)
    · have hb' : b ∉ (initKnown recs).knownProtocols := by rw [knownProtocols_eq, mem_dedup]; exact hb
      rw [if_neg (fun h => hb h.2), (earlier_err_right _ a b (indexE_unknown recs b hb')).1]
  · have ha' : a ∉ (initKnown recs).knownProtocols := by rw [knownProtocols_eq, mem_dedup]; exact ha
    rw [if_neg (fun h => ha h.1), (earlier_err_left _ a b (indexE_unknown recs a ha')).1]

theorem earlierEq_raw (recs : List Rec) (a b : Nat) :
    earlierEq (initKnown recs) a b =
      if a ∈ recs.map (·.protocol) ∧ b ∈ recs.map (·.protocol) then
        .ok (decide ((recs.map (·.protocol)).idxOf a ≤ (recs.map (·.protocol)).idxOf b))
      else .error .other := by
  by_cases ha : a ∈ recs.map (·.protocol)
  · by_cases hb : b ∈ recs.map (·.protocol)
    · have ha' : a ∈ (initKnown recs).knownProtocols := by rw [knownProtocols_eq, mem_dedup]; exact ha
      have hb' : b ∈ (initKnown recs).knownProtocols := by rw [knownProtocols_eq, mem_dedup]; exact hb
      rw [if_pos ⟨ha, hb⟩, (earlier_known recs a b ha' hb').2, knownProtocols_eq]
      congr 1
      have := idxOf_dedup_lt (recs.map (·.protocol)) b a
      apply decide_eq_decide.2
      omega
    · have hb' : b ∉ (initKnown recs).knownProtocols := by rw [knownProtocols_eq, mem_dedup]; exact hb
      rw [if_neg (fun h => hb h.2), (earlier_err_right _ a b (indexE_unknown recs b hb')).2]
  · have ha' : a ∉ (initKnown recs).knownProtocols := by rw [knownProtocols_eq, mem_dedup]; exact ha
    rw [if_neg (fun h => ha h.1), (earlier_err_left _ a b (indexE_unknown recs a ha')).2]

/-! ### D. Insertion in the middle -/

/-- Inserting elements other than `a` and `b` does not change which of the two comes first. -/
theorem idxOf_lt_insert (pre ins post : List Nat) (a b : Nat) (ha : a ∉ ins) (hb : b ∉ ins) :
    ((pre ++ ins ++ post).idxOf a < (pre ++ ins ++ post).idxOf b ↔
      (pre ++ post).idxOf a < (pre ++ post).idxOf b) ∧
    ((pre ++ ins ++ post).idxOf a ≤ (pre ++ ins ++ post).idxOf b ↔
      (pre ++ post).idxOf a ≤ (pre ++ post).idxOf b) := by
  let q : Nat → Bool := fun x => decide (x = a) || decide (x = b)
  have hqa : q a = true := by simp [q]
  have hqb : q b = true := by simp [q]
  have hf : (pre ++ ins ++ post).filter q = (pre ++ post).filter q := by
    have : ins.filter q = [] := by
      rw [List.filter_eq_nil_iff]
      intro x hx
      have h1 : x ≠ a := fun e => ha (e ▸ hx)
      have h2 : x ≠ b := fun e => hb (e ▸ hx)
      simp [q, h1, h2]
    simp only [List.filter_append, this, List.append_nil]
  have h1 := idxOf_filter_lt q (pre ++ ins ++ post) a b hqa hqb
  have h2 := idxOf_filter_lt q (pre ++ post) a b hqa hqb
  have h3 := idxOf_filter_lt q (pre ++ ins ++ post) b a hqb hqa
  have h4 := idxOf_filter_lt q (pre ++ post) b a hqb hqa
  rw [hf] at h1 h3
  constructor
  · rw [← h1, h2]
  · constructor <;> intro h <;> omega

/-- The known-protocol lists before and after inserting records whose protocol numbers are all
new. -/
theorem dedup_insert_fresh (pre ins post : List Nat)
    (fresh : ∀ p ∈ ins, p ∉ pre ∧ p ∉ post) :
    dedup (pre ++ post) = dedup pre ++ (dedup post).filter (fun y => decide (y ∉ dedup pre)) ∧
    dedup (pre ++ ins ++ post) =
      dedup pre ++ dedup ins ++ (dedup post).filter (fun y => decide (y ∉ dedup pre)) := by
  refine ⟨dedup_append _ _, ?_⟩
  rw [List.append_assoc, dedup_append pre, dedup_append ins, List.filter_append, List.append_assoc]
  congr 2
  · rw [List.filter_eq_self]
    intro y hy
    have := (fresh y ((mem_dedup _ _).1 hy)).1
    simpa [mem_dedup] using this
  · rw [List.filter_filter]
    apply List.filter_congr
    intro y hy
    have hy' : y ∈ post := (mem_dedup _ _).1 hy
    have : y ∉ dedup ins := fun h => (fresh y ((mem_dedup _ _).1 h)).2 hy'
    simp [this]

/-! ### E. The by-reference model of the real code is transparent -/

namespace VerRef

/-- The bindings made at import time (`boot`). -/
def names0 : Names := ⟨0, 0, 1, 0, 1, 2, 2⟩
def conn0 : ConnNames := ⟨0, 1, 1, 0⟩
def heap0 : Heap := ⟨[[], [], []], [[], [], []], [[]]⟩

/-- Invariant of the real code: nobody's bindings ever change and no object is ever created. -/
structure WF (w : World) : Prop where
  mc : w.mc = names0
  util : w.utilIdx = 0
  conn : w.conn = conn0
  ods : w.heap.ods.length = 3
  lsts : w.heap.lsts.length = 3
  idxs : w.heap.idxs.length = 1

theorem len3 {α : Type} (l : List α) (h : l.length = 3) : ∃ a b c, l = [a, b, c] := by
  match l, h with
  | [a, b, c], _ => exact ⟨a, b, c, rfl⟩

theorem len1 {α : Type} (l : List α) (h : l.length = 1) : ∃ a, l = [a] :=
  List.length_eq_one_iff.1 h

theorem deref_storeInPlace (h : Heap) (t : Tables) (h1 : h.ods.length = 3) (h2 : h.lsts.length = 3)
    (h3 : h.idxs.length = 1) : deref (storeInPlace h names0 t) names0 = t := by
  obtain ⟨ods, lsts, idxs⟩ := h
  obtain ⟨a, b, c, rfl⟩ := len3 ods h1
  obtain ⟨a', b', c', rfl⟩ := len3 lsts h2
  obtain ⟨i, rfl⟩ := len1 idxs h3
  rfl

theorem storeInPlace_lengths (h : Heap) (n : Names) (t : Tables) :
    (storeInPlace h n t).ods.length = h.ods.length ∧
    (storeInPlace h n t).lsts.length = h.lsts.length ∧
    (storeInPlace h n t).idxs.length = h.idxs.length := by
  simp [storeInPlace, storeSix]

theorem initCore_real (b : Bool) (recs : List Rec) (h : Heap) (n : Names) :
    initCore Code.real b recs h n = (storeInPlace h n (initglobals b recs (deref h n)), n) := by
  simp [initCore, Code.real]

theorem boot_real (recs : List Rec) :
    boot Code.real recs =
      { heap := storeInPlace heap0 names0 (initKnown recs), records := recs, mc := names0,
        utilIdx := 0, conn := conn0, ctxs := [] } := by
  unfold boot
  rw [show (⟨[[], [], []], [[], [], []], [[]]⟩ : Heap) = heap0 from rfl,
    show (⟨0, 0, 1, 0, 1, 2, 2⟩ : Names) = names0 from rfl, initCore_real]
  rfl

theorem wf_boot (recs : List Rec) : WF (boot Code.real recs) := by
  rw [boot_real]
  exact ⟨rfl, rfl, rfl, rfl, rfl, rfl⟩

theorem tablesOf_boot (recs : List Rec) : tablesOf (boot Code.real recs) = initKnown recs := by
  rw [boot_real]
  exact deref_storeInPlace heap0 _ rfl rfl rfl

theorem records_boot (recs : List Rec) : (boot Code.real recs).records = recs := by
  rw [boot_real]

/-- `minecraft.SUPPORTED_MINECRAFT_VERSIONS[k] = v` seen through `deref`. -/
theorem deref_supSet (h : Heap) (k : String) (v : Nat) (h1 : h.ods.length = 3) :
    deref { h with ods := (h.ods.set names0.supportedVersions
              (odSet (h.od names0.supportedVersions) k v)) } names0 =
      { deref h names0 with
        supportedVersions := odSet (deref h names0).supportedVersions k v } := by
  obtain ⟨ods, lsts, idxs⟩ := h
  obtain ⟨a, b, c, rfl⟩ := len3 ods h1
  rfl

/-- One action of the real code: the invariant is kept, the tables that `minecraft` shows change
as in the value model, and the contexts' cache fields are never written. -/
theorem step_real (w : World) (hw : WF w) (op : Op) :
    WF (step Code.real w op).1 ∧
    tablesOf (step Code.real w op).1 = (valStep ⟨tablesOf w, w.records⟩ op).tables ∧
    (step Code.real w op).1.records = (valStep ⟨tablesOf w, w.records⟩ op).records := by
  obtain ⟨hmc, hu, hc, ho, hl, hi⟩ := hw
  cases op with
  | setRecords recs => exact ⟨⟨hmc, hu, hc, ho, hl, hi⟩, rfl, rfl⟩
  | supSet k v =>
    refine ⟨⟨hmc, hu, hc, by simp [step, ho], hl, hi⟩, ?_, rfl⟩
    simp only [step, tablesOf, valStep, hmc]
    exact deref_supSet w.heap k v ho
  | init b =>
    have hl' := storeInPlace_lengths w.heap w.mc (initglobals b w.records (deref w.heap w.mc))
    refine ⟨⟨?_, hu, hc, ?_, ?_, ?_⟩, ?_, ?_⟩
    · simp only [step, initCore_real]; exact hmc
    · simp only [step, initCore_real]; rw [hl'.1]; exact ho
    · simp only [step, initCore_real]; rw [hl'.2.1]; exact hl
    · simp only [step, initCore_real]; rw [hl'.2.2]; exact hi
    · simp only [step, initCore_real, tablesOf, valStep, hmc]
      exact deref_storeInPlace w.heap _ ho hl hi
    · simp only [step, valStep]
  | newCtx pv => exact ⟨⟨hmc, hu, hc, ho, hl, hi⟩, rfl, rfl⟩
  | setPv c pv =>
    simp only [step]
    cases w.ctxs[c]? with
    | none => exact ⟨⟨hmc, hu, hc, ho, hl, hi⟩, rfl, rfl⟩
    | some cx => exact ⟨⟨hmc, hu, hc, ho, hl, hi⟩, rfl, rfl⟩
  | call c p a b =>
    simp only [step]
    cases w.ctxs[c]? with
    | none => exact ⟨⟨hmc, hu, hc, ho, hl, hi⟩, rfl, rfl⟩
    | some cx => exact ⟨⟨hmc, hu, hc, ho, hl, hi⟩, rfl, rfl⟩

theorem runW_nil (code : Code) (w : World) : runW code w [] = w := rfl

theorem runW_cons (code : Code) (w : World) (op : Op) (ops : List Op) :
    runW code w (op :: ops) = runW code (step code w op).1 ops := rfl

theorem runW_append (code : Code) (w : World) (ops ops' : List Op) :
    runW code w (ops ++ ops') = runW code (runW code w ops) ops' := by
  induction ops generalizing w with
  | nil => rfl
  | cons op ops ih => rw [List.cons_append, runW_cons, runW_cons, ih]

/-- A whole history of the real code. -/
theorem runW_real (w : World) (hw : WF w) (ops : List Op) :
    WF (runW Code.real w ops) ∧
    tablesOf (runW Code.real w ops) = (ops.foldl valStep ⟨tablesOf w, w.records⟩).tables ∧
    (runW Code.real w ops).records = (ops.foldl valStep ⟨tablesOf w, w.records⟩).records := by
  induction ops generalizing w with
  | nil => exact ⟨hw, rfl, rfl⟩
  | cons op ops ih =>
    obtain ⟨h1, h2, h3⟩ := step_real w hw op
    obtain ⟨i1, i2, i3⟩ := ih _ h1
    rw [runW_cons, List.foldl_cons]
    have : (⟨tablesOf (step Code.real w op).1, (step Code.real w op).1.records⟩ : Val)
        = valStep ⟨tablesOf w, w.records⟩ op := by rw [h2, h3]
    rw [this] at i2 i3
    exact ⟨i1, i2, i3⟩

/-- Under the invariant every module sees the objects of `minecraft`. -/
theorem views_of_wf (w : World) (hw : WF w) :
    utilDict w = (tablesOf w).indices ∧
    w.heap.od w.conn.knownVersions = (tablesOf w).knownVersions ∧
    w.heap.od w.conn.supportedVersions = (tablesOf w).supportedVersions ∧
    w.heap.lst w.conn.supportedProtocols = (tablesOf w).supportedProtocols ∧
    w.heap.idx w.conn.indices = (tablesOf w).indices := by
  simp only [utilDict, tablesOf, deref, hw.mc, hw.util, hw.conn, names0, conn0, and_self]

/-- The real predicates are the value model's predicates on the dict they read. -/
theorem ctxCallReal_eq (t : Tables) (pv : Option Nat) (p : Pred) (a b : Nat) :
    ctxCallReal t.indices pv p a b = predVal t pv p a b := by
  have hl : ∀ v, lookupE t.indices (some v) = indexE t v := fun v => by
    cases h : odGet t.indices v <;> simp [lookupE, indexE, index, h]
  have hn : lookupE t.indices none = .error .other := rfl
  cases pv with
  | none =>
    cases p
    · simp only [ctxCallReal, predVal, uEarlier, hn, bind, Except.bind]
    · simp only [ctxCallReal, predVal, uEarlierEq, hn, bind, Except.bind]
    · simp only [ctxCallReal, predVal, uEarlier, hn, bind, Except.bind]
      rw [hl]
      rcases indexE_cases t a with ⟨i, h⟩ | h <;> rw [h]
    · simp only [ctxCallReal, predVal, uEarlierEq, hn, bind, Except.bind]
      rw [hl]
      rcases indexE_cases t a with ⟨i, h⟩ | h <;> rw [h]
    · simp only [ctxCallReal, predVal, uEarlier, hn, bind, Except.bind]
  | some v =>
    cases p <;>
      simp only [ctxCallReal, predVal, uEarlier, uEarlierEq, hl, earlier, earlierEq, later, laterEq,
        inRange]

/-- A `call` in the real code: the world is unchanged and the answer is the value model's answer
on the tables that `minecraft` shows at that moment. -/
theorem call_real (w : World) (hw : WF w) (c : Nat) (cx : Ctx) (hc : w.ctxs[c]? = some cx)
    (p : Pred) (a b : Nat) :
    step Code.real w (.call c p a b) = (w, some (predVal (tablesOf w) cx.pv p a b)) := by
  obtain ⟨hlt, hget⟩ := List.getElem?_eq_some_iff.1 hc
  have hset : w.ctxs.set c cx = w.ctxs := by rw [← hget]; exact List.set_getElem_self hlt
  simp only [step, hc, ctxCall, Code.real, Bool.false_eq_true, if_false, hset]
  rw [← ctxCallReal_eq, ← (views_of_wf w hw).1]
  rfl

/-- Context actions do not touch the tables. -/
def Op.isCtx : Op → Bool
  | .newCtx _ => true
  | .setPv _ _ => true
  | .call _ _ _ _ => true
  | _ => false

theorem foldl_valStep_ctx (s : Val) (tail : List Op) (h : ∀ op ∈ tail, Op.isCtx op = true) :
    tail.foldl valStep s = s := by
  induction tail generalizing s with
  | nil => rfl
  | cons op tail ih =>
    have h1 : valStep s op = s := by
      have := h op List.mem_cons_self
      cases op <;> first | rfl | simp [Op.isCtx] at this
    rw [List.foldl_cons, h1]
    exact ih s (fun o ho => h o (List.mem_cons_of_mem _ ho))

/-- C08-m2 at import time: the comprehension builds the same dict. -/
theorem fresh_idx_eq (recs : List Rec) :
    (initKnown recs).knownProtocols.zipIdx.foldl (fun d e => odSet d e.1 e.2) []
      = (initKnown recs).indices := by
  have h := odFromList_of_nodup (initKnown recs).knownProtocols.zipIdx
    (by rw [zipIdx_keys]; exact knownProtocols_nodup recs)
  have h2 : (initKnown recs).indices = (initKnown recs).knownProtocols.zipIdx := by
    rw [initKnown_eq_spec]; rfl
  rw [h2]
  exact h

/-- In the real code, replacing the records and re-initialising gives literally the state of an
import with those records. -/
theorem restart_eq_boot (recs0 r : List Rec) :
    runW Code.real (boot Code.real recs0) [.setRecords r, .init true] = boot Code.real r := by
  have h : ∀ t, initglobals true r t = initKnown r := fun t => by
    show initKnownFrom t r = initKnown r
    rw [initKnownFrom_eq_spec, initKnown_eq_spec]
  rw [boot_real, boot_real]
  simp only [runW, run, step, initCore_real, h]
  rfl

theorem step_ctxs_init (code : Code) (w : World) (b : Bool) :
    (step code w (.init b)).1.ctxs = w.ctxs := rfl

end VerRef

/-- Where a known version moves when new numbers `N` are inserted after the block `A`. -/
theorem idxOf_insert_shift (A N X : List Nat) (a : Nat) (hN : a ∉ N) :
    (A ++ N ++ X).idxOf a =
      if (A ++ X).idxOf a < A.length then (A ++ X).idxOf a else (A ++ X).idxOf a + N.length := by
  by_cases h : a ∈ A
  · have h1 : (A ++ X).idxOf a = A.idxOf a := by rw [List.idxOf_append, if_pos h]
    have h2 : (A ++ N ++ X).idxOf a = A.idxOf a := by
      rw [List.idxOf_append, if_pos (List.mem_append_left _ h), List.idxOf_append, if_pos h]
    rw [h1, h2, if_pos (List.idxOf_lt_length_of_mem h)]
  · have h1 : (A ++ X).idxOf a = X.idxOf a + A.length := by rw [List.idxOf_append, if_neg h]
    have h2 : (A ++ N ++ X).idxOf a = X.idxOf a + (A ++ N).length := by
      rw [List.idxOf_append, if_neg (fun hm => by
        rcases List.mem_append.1 hm with hm | hm
        · exact h hm
        · exact hN hm)]
    rw [h1, h2, if_neg (by omega), List.length_append]
    omega

/-! ### F. Checking `IdsFunctional` through the key codes -/

theorem odGet_codeKV (d : List (String × Nat)) (k : String) :
    odGet (codeKV d) (keyCode k) = odGet d k := by
  induction d with
  | nil => rfl
  | cons e d ih =>
    obtain ⟨k', v'⟩ := e
    have ih' : odGet (List.map (fun e => (keyCode e.1, e.2)) d) (keyCode k) = odGet d k := ih
    by_cases h : k' = k
    · simp [codeKV, odGet, h]
    · have h' : ¬ keyCode k' = keyCode k := fun e => h (keyCode_inj _ _ e)
      simp [codeKV, odGet, h, h', ih']

/-- Every record's id maps, in the coded known-names table, to the record's own protocol. -/
def idsAgreeB (recs : List Rec) (known : List (String × Nat)) : Bool :=
  let ck := codeKV known
  recs.all fun r => decide (odGet ck (keyCode r.id) = some r.protocol)

theorem idsAgreeB_sound (recs : List Rec) (known : List (String × Nat))
    (h : idsAgreeB recs known = true) : ∀ r ∈ recs, odGet known r.id = some r.protocol := by
  intro r hr
  have := List.all_eq_true.1 h r hr
  simpa [odGet_codeKV] using this

end PyCraft
