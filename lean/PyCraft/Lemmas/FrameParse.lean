import PyCraft.Lemmas.Frame
/-!
Lemmas about the pure parsers of `Lemmas/Frame.lean` on byte strings: fuel independence, the
writer's frames parse back, strict prefixes of frames give `eof`, cutting a sequence of frames.
-/
namespace PyCraft

/-! ## consumption and fuel -/

theorem decVarInt_lt (mx : Nat) (bs : Bytes) (v : Nat) (rest : Bytes)
    (h : decVarInt mx bs = .ok (v, rest)) : rest.length < bs.length := by
  obtain ⟨pre, last, h1, -⟩ := dec_ok_shape mx bs 0 0 v rest (by simp) (by omega) h
  rw [h1]; simp; omega

theorem parseFrame_lt (bs data rest : Bytes) (h : parseFrame bs = .ok (data, rest)) :
    rest.length < bs.length := by
  unfold parseFrame at h
  cases hd : decVarInt 5 bs with
  | error e => simp [hd] at h
  | ok vr =>
    obtain ⟨len, rest0⟩ := vr
    have := decVarInt_lt 5 bs len rest0 hd
    simp only [hd] at h
    split at h
    · injection h with h; injection h with _ h2
      rw [← h2, List.length_drop]; omega
    · cases h

theorem parsePacket_lt (z : ZlibOps) (c : Bool) (bs : Bytes) (p : Nat × Bytes) (rest : Bytes)
    (h : parsePacket z c bs = .ok (p, rest)) : rest.length < bs.length := by
  unfold parsePacket at h
  cases hd : parseFrame bs with
  | error e => simp [hd] at h
  | ok dr =>
    obtain ⟨data, rest0⟩ := dr
    have := parseFrame_lt bs data rest0 hd
    simp only [hd] at h
    split at h
    · cases h
    · injection h with h; injection h with _ h2; rw [← h2]; exact this

theorem parseAllFuel_stable (z : ZlibOps) (c : Bool) : ∀ (f1 f2 : Nat) (bs : Bytes),
    bs.length < f1 → bs.length < f2 → parseAllFuel z c f1 bs = parseAllFuel z c f2 bs := by
  intro f1
  induction f1 with
  | zero => intro f2 bs h; omega
  | succ f1 ih =>
    intro f2 bs h1 h2
    cases f2 with
    | zero => omega
    | succ f2 =>
      simp only [parseAllFuel]
      cases hd : parsePacket z c bs with
      | error e => rfl
      | ok pr =>
        obtain ⟨p, rest⟩ := pr
        have := parsePacket_lt z c bs p rest hd
        simp only [ih f2 rest (by omega) (by omega)]

theorem parseAll_ok (z : ZlibOps) (c : Bool) (bs : Bytes) (p : Nat × Bytes) (rest : Bytes)
    (h : parsePacket z c bs = .ok (p, rest)) :
    parseAll z c bs = (p :: (parseAll z c rest).1, (parseAll z c rest).2) := by
  have hlt := parsePacket_lt z c bs p rest h
  unfold parseAll
  rw [parseAllFuel]
  simp only [h]
  rw [parseAllFuel_stable z c bs.length (rest.length + 1) rest (by omega) (by omega)]

theorem parseAll_err (z : ZlibOps) (c : Bool) (bs : Bytes) (e : Err)
    (h : parsePacket z c bs = .error e) : parseAll z c bs = ([], e) := by
  unfold parseAll
  simp only [parseAllFuel, h]

/-- more fuel than bytes + 1 changes nothing: the fuel-exhausted branch is unreachable -/
theorem readAllK_fuel_free {σ : Type} (x : StreamXform σ) (z : ZlibOps) (c : Bool) (k : Sock σ)
    (fuel : Nat) (h : k.rem < fuel) : (readAllFuel x z c fuel k).1 = (readAllK x z c k).1 := by
  rw [readAllK_spec, readAllFuel_spec]
  unfold parseAll
  exact parseAllFuel_stable z c _ _ _ (by rw [ahead_length]; exact h) (by omega)

/-! ## the writer's frames parse back -/

theorem decVarInt_enc (n : Nat) (rest : Bytes) (h : n < 2 ^ 42) :
    decVarInt 5 (encVarInt n ++ rest) = .ok (n, rest) := by
  have := dec_enc_aux 5 n 0 0 rest (by simp) (by simpa using h) (by omega)
  simpa [decVarInt] using this

theorem parseFrame_frame (body more : Bytes) (h : body.length < 2 ^ 42) :
    parseFrame (encVarInt body.length ++ (body ++ more)) = .ok (body, more) := by
  unfold parseFrame
  rw [decVarInt_enc _ _ h]
  simp

theorem enc_length_pos (n : Nat) : 0 < (encVarInt n).length :=
  List.length_pos_iff.mpr (enc_ne_nil n)

theorem parseBody_frameBody (z : Zlib) (thr : Option Int) (id : Nat) (fields : Bytes)
    (hid : id < 2 ^ 42) (hlen : (packetPayload id fields).length < 2 ^ 42) :
    parseBody z.toZlibOps thr.isSome (frameBody z.toZlibOps thr (packetPayload id fields))
      = .ok (id, fields) := by
  have hpay : decVarInt 5 (packetPayload id fields) = .ok (id, fields) := decVarInt_enc _ _ hid
  have hpos : 0 < (packetPayload id fields).length := by
    unfold packetPayload; rw [List.length_append]; have := enc_length_pos id; omega
  cases thr with
  | none => simp only [frameBody, parseBody, Option.isSome_none]; exact hpay
  | some t =>
    simp only [frameBody, parseBody, Option.isSome_some, if_true]
    by_cases hc : ((packetPayload id fields).length : Int) > t ∧ t ≠ -1
    · rw [if_pos hc, decVarInt_enc _ _ hlen]
      simp only [gt_iff_lt, hpos, if_true, z.rt]
      exact hpay
    · rw [if_neg hc, decVarInt_enc _ _ (by omega)]
      simp only [gt_iff_lt, Nat.lt_irrefl, if_false]
      exact hpay

theorem parsePacket_packetFrame (z : Zlib) (thr : Option Int) (p : Nat × Bytes) (more : Bytes)
    (h : FrameOK z.toZlibOps thr p) :
    parsePacket z.toZlibOps thr.isSome (packetFrame z.toZlibOps thr p ++ more) = .ok (p, more) := by
  obtain ⟨h1, h2, h3⟩ := h
  unfold parsePacket packetFrame frame
  simp only [List.append_assoc]
  rw [parseFrame_frame _ _ h3]
  simp only [parseBody_frameBody z thr p.1 p.2 h1 h2]

theorem parseAll_frames (z : Zlib) (thr : Option Int) : ∀ (ps : List (Nat × Bytes)) (tail : Bytes),
    (∀ p ∈ ps, FrameOK z.toZlibOps thr p) →
    parseAll z.toZlibOps thr.isSome ((ps.map (packetFrame z.toZlibOps thr)).flatten ++ tail)
      = (ps ++ (parseAll z.toZlibOps thr.isSome tail).1,
         (parseAll z.toZlibOps thr.isSome tail).2) := by
  intro ps
  induction ps with
  | nil => intro tail _; simp
  | cons p ps ih =>
    intro tail h
    simp only [List.map_cons, List.flatten_cons, List.append_assoc]
    rw [parseAll_ok _ _ _ p _ (parsePacket_packetFrame z thr p _ (h p (by simp)))]
    rw [ih tail (fun q hq => h q (by simp [hq]))]
    simp

theorem parseAll_nil (z : ZlibOps) (c : Bool) : parseAll z c [] = ([], .eof) := by
  apply parseAll_err
  simp [parsePacket, parseFrame, decVarInt, decVarIntAux]

/-! ## strict prefixes of a frame -/

theorem decAux_cont_eof (mx : Nat) : ∀ (t : Bytes) (be acc : Nat),
    (∀ b ∈ t, 128 ≤ b.toNat) → t.length + be ≤ mx →
    decVarIntAux mx be acc t = .error .eof := by
  intro t
  induction t with
  | nil => intro be acc _ _; rfl
  | cons b tl ih =>
    intro be acc hc hl
    have hb : 128 ≤ b.toNat := hc b (by simp)
    have h2 : b.toNat &&& 0x80 ≠ 0 := and80_ge _ b.toNat_lt hb
    simp only [decVarIntAux]
    simp only [List.length_cons] at hl
    rw [if_neg h2, if_neg (by omega)]
    exact ih _ _ (fun c hc' => hc c (by simp [hc'])) (by omega)

theorem enc_prefix_cont (n : Nat) : ∀ (t u : Bytes), t ++ u = encVarInt n → u ≠ [] →
    ∀ b ∈ t, 128 ≤ b.toNat := by
  induction n using Nat.strongRecOn with
  | _ n ih =>
    intro t u h hu
    unfold encVarInt at h
    split at h
    · cases t with
      | nil => intro b hb; cases hb
      | cons a t' =>
        simp only [List.cons_append, List.cons.injEq, List.append_eq_nil_iff] at h
        exact absurd h.2.2 hu
    · next hn =>
      cases t with
      | nil => intro b hb; cases hb
      | cons a t' =>
        simp only [List.cons_append, List.cons.injEq] at h
        intro b hb
        rcases List.mem_cons.mp hb with hb | hb
        · rw [hb, h.1, u8_ofNat_toNat _ (by omega)]; omega
        · exact ih (n / 128) (by omega) t' u h.2 hu b hb

theorem enc_length_le : ∀ (k n : Nat), n < 128 ^ (k + 1) → (encVarInt n).length ≤ k + 1 := by
  intro k
  induction k with
  | zero =>
    intro n h
    unfold encVarInt
    rw [dif_pos (by simpa using h)]; simp
  | succ k ih =>
    intro n h
    unfold encVarInt
    split
    · simp
    · have : n / 128 < 128 ^ (k + 1) := by
        rw [Nat.pow_succ] at h
        exact Nat.div_lt_of_lt_mul (by rw [Nat.mul_comm]; exact h)
      have := ih (n / 128) this
      simp only [List.length_cons]; omega

/-- a strict prefix of `VarInt(len) ++ body` is an incomplete frame -/
theorem parseFrame_prefix_eof (body t u : Bytes) (hb : body.length < 2 ^ 42)
    (h : t ++ u = encVarInt body.length ++ body) (hu : u ≠ []) :
    parseFrame t = .error .eof := by
  rcases List.append_eq_append_iff.mp h with ⟨a', h1, h2⟩ | ⟨c', h1, h2⟩
  · -- t is a prefix of the length field
    by_cases ha : a' = []
    · subst ha
      simp only [List.append_nil] at h1
      simp only [List.nil_append] at h2
      unfold parseFrame
      rw [← h1]
      have := decVarInt_enc body.length [] hb
      rw [List.append_nil] at this
      rw [this]
      have hpos : 0 < body.length := by
        rw [← h2]; exact List.length_pos_iff.mpr hu
      show (if body.length ≤ ([] : Bytes).length then _ else _) = _
      rw [if_neg (by simp only [List.length_nil]; omega)]
    · have hcont := enc_prefix_cont body.length t a' h1.symm ha
      have hlen := enc_length_le 5 body.length (by omega)
      have hapos := List.length_pos_iff.mpr ha
      have htl : t.length + 0 ≤ 5 := by
        have : (encVarInt body.length).length = t.length + a'.length := by
          rw [h1, List.length_append]
        omega
      unfold parseFrame decVarInt
      rw [decAux_cont_eof 5 t 0 0 hcont htl]
  · -- the length field is complete, the body is not
    unfold parseFrame
    rw [h1, decVarInt_enc _ _ hb]
    have hupos := List.length_pos_iff.mpr hu
    have : body.length = c'.length + u.length := by
      have := congrArg List.length h2
      rw [List.length_append] at this; exact this
    simp; omega

theorem parsePacket_prefix_eof (z : ZlibOps) (thr : Option Int) (c : Bool) (p : Nat × Bytes)
    (t u : Bytes) (hp : FrameOK z thr p) (h : t ++ u = packetFrame z thr p) (hu : u ≠ []) :
    parsePacket z c t = .error .eof := by
  unfold parsePacket
  rw [parseFrame_prefix_eof _ t u hp.2.2 h hu]

/-- `t` is empty or a strict prefix of the frame of some well-formed packet -/
def Incomplete (z : ZlibOps) (thr : Option Int) (t : Bytes) : Prop :=
  t = [] ∨ ∃ p u, FrameOK z thr p ∧ t ++ u = packetFrame z thr p ∧ u ≠ []

theorem parseAll_incomplete (z : ZlibOps) (thr : Option Int) (c : Bool) (t : Bytes)
    (h : Incomplete z thr t) : parseAll z c t = ([], .eof) := by
  rcases h with h | ⟨p, u, hp, h, hu⟩
  · subst h; exact parseAll_nil z c
  · exact parseAll_err _ _ _ _ (parsePacket_prefix_eof z thr c p t u hp h hu)

/-! ## cutting a concatenation of frames at byte `k` -/

theorem frames_take {α : Type} (fr : α → Bytes) : ∀ (ps : List α) (k : Nat),
    k ≤ (ps.map fr).flatten.length →
    ∃ n t, n ≤ ps.length ∧
      (ps.map fr).flatten.take k = ((ps.take n).map fr).flatten ++ t ∧
      (((ps.take n).map fr).flatten).length ≤ k ∧
      (n < ps.length → k < (((ps.take (n + 1)).map fr).flatten).length) ∧
      (t = [] ∨ ∃ p u, p ∈ ps ∧ t ++ u = fr p ∧ u ≠ []) := by
  intro ps
  induction ps with
  | nil =>
    intro k hk
    exact ⟨0, [], by simp, by simp, by simp, by simp, Or.inl rfl⟩
  | cons p ps ih =>
    intro k hk
    simp only [List.map_cons, List.flatten_cons, List.length_append] at hk
    by_cases hlt : k < (fr p).length
    · refine ⟨0, (fr p).take k, by simp, ?_, by simp, ?_, ?_⟩
      · simp only [List.map_cons, List.flatten_cons, List.take_zero, List.map_nil,
          List.flatten_nil, List.nil_append]
        rw [List.take_append_of_le_length (by omega)]
      · intro _; simp; omega
      · right
        refine ⟨p, (fr p).drop k, by simp, List.take_append_drop _ _, ?_⟩
        intro h
        have := congrArg List.length h
        simp at this; omega
    · obtain ⟨n, t, h1, h2, h3, h4, h5⟩ := ih (k - (fr p).length) (by omega)
      refine ⟨n + 1, t, by simp; omega, ?_, ?_, ?_, ?_⟩
      · simp only [List.map_cons, List.flatten_cons, List.take_succ_cons, List.append_assoc]
        rw [List.take_append, List.take_of_length_le (by omega), h2]
      · simp only [List.take_succ_cons, List.map_cons, List.flatten_cons, List.length_append]
        omega
      · intro hn
        simp only [List.length_cons] at hn
        have := h4 (by omega)
        simp only [List.take_succ_cons, List.map_cons, List.flatten_cons, List.length_append]
        omega
      · rcases h5 with h5 | ⟨q, u, hq, hqu, hu⟩
        · exact Or.inl h5
        · exact Or.inr ⟨q, u, by simp [hq], hqu, hu⟩

end PyCraft
