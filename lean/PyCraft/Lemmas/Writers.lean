import PyCraft.Lemmas.WritersProg
/-!
The combined invariant `WInv` of `Model/Writers.lean`, its preservation (`step_inv`, `run_inv`),
and the consequences used by `Props/C12.lean`.
-/
namespace PyCraft.Writers

/-- Everything we know about a reachable state of the system started on `progs`. -/
structure WInv (progs : List (List Op)) (s : Sys) : Prop where
  lock : LockInv s
  wire : WireInv s
  fresh : FreshInv s
  prog : ProgInv progs s

theorem step_inv (cfg : Cfg) (progs : List (List Op)) (s s' : Sys) (t : Tid)
    (h : WInv progs s) (hs : step cfg s t = some s') : WInv progs s' :=
  ⟨lock_step cfg s s' t h.lock hs,
   wire_step cfg s s' t h.lock h.wire (h.fresh.fresh t) hs,
   fresh_step cfg s s' t h.lock h.fresh hs,
   prog_step cfg progs s s' t h.lock h.wire h.prog hs⟩

theorem run_inv (cfg : Cfg) (progs : List (List Op)) (sched : List Tid) :
    ∀ s, WInv progs s → WInv progs (run cfg s sched) := by
  induction sched with
  | nil => intro s h; exact h
  | cons t ts ih =>
    intro s h; unfold run
    split
    · next s' hs => exact ih _ (step_inv cfg progs s s' t h hs)
    · exact ih _ h

theorem run_append (cfg : Cfg) (a b : List Tid) :
    ∀ s, run cfg s (a ++ b) = run cfg (run cfg s a) b := by
  induction a with
  | nil => intro s; rfl
  | cons t ts ih =>
    intro s; simp only [List.cons_append, run]
    split <;> exact ih _

/-! ### The initial state -/

theorem progOf_nodup (progs : List (List Op)) (hnd : (progs.flatMap pktsOf).Nodup) (t : Tid) :
    (pktsOf (progOf progs t)).Nodup := by
  unfold progOf; split
  · simp [pktsOf]
  · exact getD_nodup progs hnd _

theorem progOf_disj (progs : List (List Op)) (hnd : (progs.flatMap pktsOf).Nodup) (t u : Nat)
    (htu : t ≠ u) (p : Pkt) (hp : p ∈ pktsOf (progOf progs t)) : p ∉ pktsOf (progOf progs u) := by
  unfold progOf at hp ⊢
  by_cases h0 : t = 0
  · simp [h0, pktsOf] at hp
  · by_cases h1 : u = 0
    · simp [h1, pktsOf]
    · rw [if_neg h0] at hp; rw [if_neg h1]
      exact getD_disj progs hnd (t - 1) (u - 1) (by omega) p hp

theorem progOf_mem_flat (progs : List (List Op)) (t : Tid) (p : Pkt)
    (hp : p ∈ pktsOf (progOf progs t)) : p ∈ progs.flatMap pktsOf := by
  unfold progOf at hp; split at hp
  · simp [pktsOf] at hp
  · exact mem_flat_of_getD progs _ p hp

theorem flat_mem_progOf (progs : List (List Op)) (p : Pkt) (hp : p ∈ progs.flatMap pktsOf) :
    ∃ t, p ∈ pktsOf (progOf progs t) := by
  obtain ⟨l, hl, hpl⟩ := List.mem_flatMap.mp hp
  obtain ⟨i, hi, rfl⟩ := List.getElem_of_mem hl
  refine ⟨i + 1, ?_⟩
  have : progs.getD i [] = progs[i] := by simp [List.getD, hi]
  unfold progOf
  have h0 : ¬ (i + 1 = 0) := by omega
  rw [if_neg h0, Nat.add_sub_cancel, this]; exact hpl

theorem init_inv (progs : List (List Op)) (hnd : (progs.flatMap pktsOf).Nodup) :
    WInv progs (init progs) := by
  refine ⟨lock_init progs, wire_init progs, ⟨?_, ?_, ?_, ?_⟩, ⟨?_, ?_, ?_⟩⟩
  · intro t p _; simp [init]
  · intro t; rw [init_todo]; exact progOf_nodup progs hnd t
  · intro t u htu p hp; rw [init_todo] at hp ⊢; exact progOf_disj progs hnd t u htu p hp
  · simp [init]
  · intro u; exact ⟨[], by rw [init_todo]; rfl, by simp [queuedPkts], by simp [pktsOf]⟩
  · intro u; simp only [init]; split
    · simp
    · split <;> simp
  · simp [init]

/-- Every state reached from the initial state by any schedule satisfies the invariant. -/
theorem reach_inv (cfg : Cfg) (progs : List (List Op)) (hnd : (progs.flatMap pktsOf).Nodup)
    (sched : List Tid) : WInv progs (run cfg (init progs) sched) :=
  run_inv cfg progs sched _ (init_inv progs hnd)

/-! ### Views -/

theorem half_crit (pc : Pc) (h : pc.half ≠ []) : pc.crit = true := by
  unfold Pc.half at h; split at h <;> simp_all [Pc.crit, UPc.crit, NPc.crit]

theorem half_needsOpen (pc : Pc) (h : pc.half ≠ []) : pc.needsOpen = true := by
  unfold Pc.half at h; split at h <;> simp_all [Pc.needsOpen]

theorem half_infl (pc : Pc) (c : Chunk) (h : c ∈ pc.half) : c.1 ∈ pc.infl ∧ c.2 = 0 := by
  unfold Pc.half at h; split at h <;> simp_all [Pc.infl]

theorem half_shape (pc : Pc) : pc.half = [] ∨ ∃ p, pc.half = [(p, 0)] ∧ pc.infl = [p] := by
  unfold Pc.half; split <;> simp [Pc.infl]

theorem popped_infl (pc : Pc) (p : Pkt) (h : p ∈ pc.popped) : p ∈ pc.infl := by
  unfold Pc.popped at h; split at h <;> simp_all [Pc.infl]

theorem dctx_crit (pc : Pc) (c : DCtx) (h : pc.dctx = some c) : pc.crit = true := by
  unfold Pc.dctx at h; split at h <;> simp_all [Pc.crit, UPc.crit]

theorem cur_of_crit {s : Sys} (hl : LockInv s) (t : Tid) (h : (s.thr t).pc.crit = true) :
    cur s = (s.thr t).pc := cur_of_owner ((hl.crit_owner t).mp h)

theorem mem_frames (ps : List Pkt) (c : Chunk) (h : c ∈ frames ps) : c.1 ∈ ps := by
  simp only [frames, List.mem_flatMap] at h
  obtain ⟨p, hp, hc⟩ := h
  simp at hc; rcases hc with rfl | rfl <;> exact hp

/-! ### Lists -/

theorem sublist_pair_left {α : Type} (a b : α) (A B : List α)
    (h : [a, b].Sublist (A ++ B)) (hb : b ∉ B) : [a, b].Sublist A := by
  obtain ⟨l1, l2, heq, h1, h2⟩ := List.sublist_append_iff.mp h
  match l1, heq with
  | [], heq =>
    simp at heq; subst heq
    exact absurd (h2.subset (by simp)) hb
  | [x], heq =>
    simp at heq; obtain ⟨rfl, rfl⟩ := heq
    exact absurd (h2.subset (by simp)) hb
  | [x, y], heq =>
    simp at heq; obtain ⟨rfl, rfl, rfl⟩ := heq
    exact h1
  | x :: y :: z :: r, heq => simp at heq

theorem pair_split {α : Type} (a b : α) (l : List α) (h : [a, b].Sublist l) :
    ∃ x y z, l = x ++ a :: y ++ b :: z := by
  induction l with
  | nil => cases h
  | cons c l ih =>
    cases h with
    | cons _ h => obtain ⟨x, y, z, rfl⟩ := ih h; exact ⟨c :: x, y, z, by simp⟩
    | cons_cons _ h =>
      have : b ∈ l := h.subset (by simp)
      obtain ⟨y, z, rfl⟩ := List.append_of_mem this
      exact ⟨[], y, z, by simp⟩

/-! ### FIFO -/

theorem fifo_aux (progs : List (List Op)) (s : Sys) (h : WInv progs s) (t : Tid) (p q : Pkt)
    (hpq : [Op.queued p, Op.queued q].Sublist (progOf progs t))
    (hq : q ∈ sentPkts s.wire) : [p, q].Sublist (sentPkts s.wire) := by
  obtain ⟨done, hd1, hd2, -⟩ := h.prog.prog t
  have hqi : q ∈ s.issued := (h.wire.mem_issued q).mpr (Or.inl hq)
  have hfresh := h.fresh.fresh t
  rw [hd1] at hpq
  have hdone : [Op.queued p, Op.queued q].Sublist done := by
    apply sublist_pair_left _ _ _ _ hpq
    intro hmem
    exact hfresh q (by simp only [pktsOf, List.mem_flatMap]; exact ⟨_, hmem, by simp [Op.pkts]⟩) hqi
  have h2 : [p, q].Sublist (queuedPkts done) := by
    have := hdone.filterMap Op.queuedPkt
    simpa [queuedPkts, Op.queuedPkt] using this
  have h3 : [p, q].Sublist (sentPkts s.wire ++ ((cur s).popped ++ s.queue)) := by
    have := h2.trans hd2; simpa [pipeline] using this
  apply sublist_pair_left _ _ _ _ h3
  have hn := h.wire.nodup
  intro hmem
  rcases List.mem_append.mp hmem with hm | hm
  · have := popped_infl _ _ hm
    grind [List.nodup_append]
  · grind [List.nodup_append]

/-! ### After the close -/

theorem closed_step (cfg : Cfg) (progs : List (List Op)) (s s' : Sys) (t : Tid)
    (h : WInv progs s) (hc : s.sockOpen = false) (hs : step cfg s t = some s') :
    s'.wire = s.wire ∧ s'.sockOpen = false := by
  obtain ⟨ev, -, he, -, hcl⟩ := step_eff cfg s s' t h.lock hs
  refine ⟨?_, hcl hc⟩
  have hno := h.wire.needs_open
  have hh := half_needsOpen (cur s)
  cases ev <;> simp only [Eff, SameQ, Clean] at he
  case snd p c =>
    match c with
    | 0 => have := (he.2.2.2.2.2.2.1 rfl).1; simp [hc] at this
    | 1 =>
      have := (he.2.2.2.2.2.2.2 rfl).1
      have := hno (hh (by simp [this])); simp [hc] at this
  all_goals grind

theorem closed_run (cfg : Cfg) (progs : List (List Op)) (sched : List Tid) :
    ∀ s, WInv progs s → s.sockOpen = false →
      (run cfg s sched).wire = s.wire ∧ (run cfg s sched).sockOpen = false := by
  induction sched with
  | nil => intro s _ hc; exact ⟨rfl, hc⟩
  | cons t ts ih =>
    intro s h hc; unfold run
    split
    · next s' hs =>
      obtain ⟨h1, h2⟩ := closed_step cfg progs s s' t h hc hs
      have := ih s' (step_inv cfg progs s s' t h hs) h2
      rw [h1] at this; exact this
    · exact ih s h hc

/-! ### The ghost context of `disconnect` means what it says -/

theorem dctx_set (cfg : Cfg) (s s' : Sys) (t : Tid) (imm : Bool) (rest : List Op)
    (hpc : (s.thr t).pc = .user .idle) (htd : (s.thr t).todo = .disconnect imm :: rest)
    (hs : step cfg s t = some s') :
    (s'.thr t).pc.dctx = some ⟨imm, s.queue, s.wire, s.sockOpen⟩ ∧ (s'.thr t).todo = rest := by
  unfold step at hs
  rw [hpc, htd] at hs
  simp only [stepUser, afterFlush, afterSti] at hs
  split at hs
  · simp only [Option.some.injEq] at hs; subst hs
    constructor
    · simp only [upd, if_pos]
      split <;> (try split) <;> (try split) <;> simp [Pc.dctx]
    · simp [upd]
  · cases hs

theorem dctx_stable (cfg : Cfg) (s s' : Sys) (t u : Tid) (c : DCtx)
    (hc : (s.thr u).pc.dctx = some c) (hs : step cfg s t = some s') :
    (s'.thr u).pc.dctx = some c ∨ (t = u ∧ (s'.thr u).pc = .user .idle) := by
  step_cases hs hpc htd
  all_goals grind [upd, Pc.dctx]

/-- The last step of a `disconnect`. -/
theorem drel_step (cfg : Cfg) (s s' : Sys) (t : Tid) (c : DCtx)
    (hpc : (s.thr t).pc = .user (.dRel c)) (hs : step cfg s t = some s') :
    s'.wire = s.wire ∧ s'.sockOpen = s.sockOpen ∧ (s'.thr t).pc = .user .idle ∧
      s'.log = s.log ++ [(t, .rel)] := by
  unfold step at hs
  rw [hpc] at hs
  simp only [stepUser, Option.some.injEq] at hs
  subst hs
  simp [upd]

/-! ### `fail` is only ever raised to the caller of a forced write -/

theorem fail_only_forced (cfg : Cfg) (progs : List (List Op)) (s s' : Sys) (t : Tid)
    (h : WInv progs s) (hs : step cfg s t = some s') (hf : s'.log = s.log ++ [(t, .fail)]) :
    ∃ p, (s.thr t).pc = .user (.fSnd0 p) ∧ s.sockOpen = false ∧ s'.failed = s.failed ++ [p] := by
  have h1t := h.lock.crit_owner t
  have hc1 := @cur_of_owner s t
  have w2 := h.wire.needs_open
  step_cases hs hpc htd
  all_goals simp only [List.append_cancel_left_eq, List.cons.injEq, Prod.mk.injEq, and_true,
    true_and, reduceCtorEq] at hf
  all_goals grind [Pc.crit, UPc.crit, NPc.crit, Pc.needsOpen]

end PyCraft.Writers
