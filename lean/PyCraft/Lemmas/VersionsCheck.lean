import PyCraft.Lemmas.Versions
/-!
A verified checker used to instantiate C08 on the live data.

`decide +kernel` on `initKnown liveRecords = liveTables` works but needs minutes for 450 records:
the kernel evaluates `String` equality and `String.toList` by UTF-8 encoding/decoding, and the
structurally recursive model functions unfold through `brecOn`.  `checkTables recs t` recomputes
the closed form of the tables with kernel-friendly primitives (direct `List.rec`, `Nat.beq`,
strings replaced by an injective numeric code of their UTF-8 bytes, the release-name recogniser run
on bytes) and `checkTables_sound` proves `checkTables recs t = true → initKnown recs = t`.
Nothing here is part of the model; the definitions are `noncomputable` because they are only ever
evaluated by the kernel.
-/
namespace PyCraft

/-! ### Fast membership / `dedup` on `Nat` -/

noncomputable def fmem (x : Nat) (l : List Nat) : Bool :=
  List.rec false (fun y _ ih => Bool.rec ih true (Nat.beq x y)) l

noncomputable def fdedupRev (l : List Nat) : List Nat → List Nat :=
  List.rec (fun acc => acc)
    (fun x _ ih acc => Bool.rec (ih (x :: acc)) (ih acc) (fmem x acc)) l

noncomputable def fdedup (l : List Nat) : List Nat := (fdedupRev l []).reverse

theorem fmem_eq (x : Nat) (l : List Nat) : fmem x l = decide (x ∈ l) := by
  induction l with
  | nil => simp [fmem]
  | cons y ys ih =>
    have h : fmem x (y :: ys) = Bool.rec (fmem x ys) true (Nat.beq x y) := rfl
    rw [h, ih]
    by_cases e : x = y
    · subst e; simp
    · have : Nat.beq x y = false := by
        cases hb : Nat.beq x y with
        | false => rfl
        | true => exact absurd (Nat.eq_of_beq_eq_true hb) e
      rw [this]; simp [e]

theorem fdedupRev_eq (l acc : List Nat) : (fdedupRev l acc).reverse = dedupFrom acc.reverse l := by
  induction l generalizing acc with
  | nil => rfl
  | cons x xs ih =>
    have h : fdedupRev (x :: xs) acc
        = Bool.rec (fdedupRev xs (x :: acc)) (fdedupRev xs acc) (fmem x acc) := rfl
    have h2 : dedupFrom acc.reverse (x :: xs)
        = dedupFrom (if x ∈ acc.reverse then acc.reverse else acc.reverse ++ [x]) xs := rfl
    rw [h, h2, fmem_eq]
    by_cases hx : x ∈ acc
    · simp only [hx, decide_true, List.mem_reverse, if_true]; exact ih acc
    · simp only [hx, decide_false, List.mem_reverse, if_false]
      rw [ih (x :: acc), List.reverse_cons]

theorem fdedup_eq (l : List Nat) : fdedup l = dedup l := by
  unfold fdedup; rw [fdedupRev_eq, List.reverse_nil, dedupFrom_nil]

/-! ### Fast `odFromList` on `Nat` keys -/

noncomputable def fmemKey (c : Nat) (d : List (Nat × Nat)) : Bool :=
  List.rec false (fun e _ ih => Bool.rec ih true (Nat.beq c e.1)) d

/-- Replace the value of key `c` (rare path: only for repeated keys). -/
def fupd (c v : Nat) (d : List (Nat × Nat)) : List (Nat × Nat) :=
  d.map fun e => if e.1 = c then (e.1, v) else e

noncomputable def fodRev (l : List (Nat × Nat)) : List (Nat × Nat) → List (Nat × Nat) :=
  List.rec (fun acc => acc)
    (fun e _ ih acc => Bool.rec (ih (e :: acc)) (ih (fupd e.1 e.2 acc)) (fmemKey e.1 acc)) l

noncomputable def fod (l : List (Nat × Nat)) : List (Nat × Nat) := (fodRev l []).reverse

theorem fmemKey_eq (c : Nat) (d : List (Nat × Nat)) : fmemKey c d = decide (c ∈ d.map (·.1)) := by
  induction d with
  | nil => simp [fmemKey]
  | cons e d ih =>
    have h : fmemKey c (e :: d) = Bool.rec (fmemKey c d) true (Nat.beq c e.1) := rfl
    rw [h, ih]
    by_cases he : c = e.1
    · rw [he]; simp
    · have : Nat.beq c e.1 = false := by
        cases hb : Nat.beq c e.1 with
        | false => rfl
        | true => exact absurd (Nat.eq_of_beq_eq_true hb) he
      rw [this]; simp [he]

theorem fupd_keys (c v : Nat) (d : List (Nat × Nat)) : (fupd c v d).map (·.1) = d.map (·.1) := by
  unfold fupd
  rw [List.map_map]
  apply List.map_congr_left
  intro e _
  by_cases h : e.1 = c <;> simp [h]

theorem odSet_eq_fupd (d : List (Nat × Nat)) (k v : Nat) (hk : k ∈ d.map (·.1))
    (hd : (d.map (·.1)).Nodup) : odSet d k v = fupd k v d := by
  induction d with
  | nil => simp at hk
  | cons e d ih =>
    obtain ⟨k', v'⟩ := e
    simp only [List.map_cons, List.nodup_cons] at hd
    by_cases h : k' = k
    · subst h
      have : fupd k' v d = d := by
        have hid : ∀ e ∈ d, (fun e : Nat × Nat => if e.1 = k' then (e.1, v) else e) e = id e := by
          intro e he
          have : e.1 ≠ k' := fun h => hd.1 (h ▸ List.mem_map.2 ⟨e, he, rfl⟩)
          simp [this]
        unfold fupd
        rw [List.map_congr_left hid, List.map_id]
      have h2 : fupd k' v ((k', v') :: d) = (k', v) :: fupd k' v d := by simp [fupd]
      rw [h2, this]; simp [odSet]
    · have hk' : k ∈ d.map (·.1) := by
        simp only [List.map_cons, List.mem_cons] at hk
        rcases hk with hk | hk
        · exact absurd hk.symm h
        · exact hk
      have h2 : fupd k v ((k', v') :: d) = (k', v') :: fupd k v d := by simp [fupd, h]
      rw [h2, ← ih hk' hd.2]; simp [odSet, h]

theorem nodup_reverse_of_nodup {α : Type} (l : List α) (h : l.Nodup) : l.reverse.Nodup := by
  unfold List.Nodup at h ⊢
  rw [List.pairwise_reverse]
  exact h.imp fun hab => fun e => hab e.symm

theorem fodRev_eq (l acc : List (Nat × Nat)) (hacc : (acc.map (·.1)).Nodup) :
    (fodRev l acc).reverse = odExtend acc.reverse l := by
  induction l generalizing acc with
  | nil => rfl
  | cons e l ih =>
    have h : fodRev (e :: l) acc
        = Bool.rec (fodRev l (e :: acc)) (fodRev l (fupd e.1 e.2 acc)) (fmemKey e.1 acc) := rfl
    have h2 : odExtend acc.reverse (e :: l) = odExtend (odSet acc.reverse e.1 e.2) l := rfl
    have hrev : (acc.reverse.map (·.1)).Nodup := by
      rw [List.map_reverse]; exact nodup_reverse_of_nodup _ hacc
    rw [h, h2, fmemKey_eq]
    by_cases hk : e.1 ∈ acc.map (·.1)
    · simp only [hk, decide_true]
      rw [ih _ (by rw [fupd_keys]; exact hacc),
        odSet_eq_fupd _ _ _ (by rw [List.map_reverse]; exact List.mem_reverse.2 hk) hrev]
      simp [fupd, List.map_reverse]
    · simp only [hk, decide_false]
      rw [ih _ (by
          simp only [List.map_cons, List.nodup_cons]; exact ⟨hk, hacc⟩),
        odSet_of_not_mem _ _ _ (by rw [List.map_reverse]; simpa using hk), List.reverse_cons]

theorem fod_eq (l : List (Nat × Nat)) : fod l = odFromList l := by
  unfold fod; rw [fodRev_eq _ _ (by simp)]; rfl

/-! ### An injective numeric code for strings -/

def codeBytes : List UInt8 → Nat
  | [] => 1
  | c :: cs => c.toNat + 256 * codeBytes cs

/-- Base-256 value of the UTF-8 bytes with a leading 1: injective. -/
def keyCode (s : String) : Nat := codeBytes s.toByteArray.data.toList

theorem codeBytes_pos (l : List UInt8) : 1 ≤ codeBytes l := by
  cases l with
  | nil => simp [codeBytes]
  | cons c cs => have := codeBytes_pos cs; simp only [codeBytes]; omega

theorem codeBytes_inj (l l' : List UInt8) (h : codeBytes l = codeBytes l') : l = l' := by
  induction l generalizing l' with
  | nil =>
    cases l' with
    | nil => rfl
    | cons c cs =>
      have := codeBytes_pos cs
      simp only [codeBytes] at h; omega
  | cons c cs ih =>
    cases l' with
    | nil =>
      have := codeBytes_pos cs
      simp only [codeBytes] at h; omega
    | cons c' cs' =>
      have h1 := UInt8.toNat_lt c
      have h2 := UInt8.toNat_lt c'
      simp only [codeBytes] at h
      have hc : c.toNat = c'.toNat := by omega
      have hr : codeBytes cs = codeBytes cs' := by omega
      rw [UInt8.toNat_inj.1 hc, ih _ hr]

theorem keyCode_inj (s s' : String) (h : keyCode s = keyCode s') : s = s' := by
  have := codeBytes_inj _ _ h
  apply String.toByteArray_inj.1
  obtain ⟨⟨⟨l⟩⟩, _⟩ := s
  obtain ⟨⟨⟨l'⟩⟩, _⟩ := s'
  simp only at this
  subst this
  rfl

def codeKV (l : List (String × Nat)) : List (Nat × Nat) := l.map fun e => (keyCode e.1, e.2)

theorem codeKV_inj (l l' : List (String × Nat)) (h : codeKV l = codeKV l') : l = l' := by
  induction l generalizing l' with
  | nil => cases l' with
    | nil => rfl
    | cons _ _ => simp [codeKV] at h
  | cons e l ih =>
    cases l' with
    | nil => simp [codeKV] at h
    | cons e' l' =>
      obtain ⟨k, v⟩ := e
      obtain ⟨k', v'⟩ := e'
      simp only [codeKV, List.map_cons, List.cons.injEq, Prod.mk.injEq] at h
      rw [keyCode_inj _ _ h.1.1, h.1.2, ih l' h.2]

theorem codeKV_odSet (d : List (String × Nat)) (k : String) (v : Nat) :
    codeKV (odSet d k v) = odSet (codeKV d) (keyCode k) v := by
  induction d with
  | nil => rfl
  | cons e d ih =>
    obtain ⟨k', v'⟩ := e
    by_cases h : k' = k
    · subst h; simp [odSet, codeKV]
    · have h' : ¬ keyCode k' = keyCode k := fun e => h (keyCode_inj _ _ e)
      have ih' : List.map (fun e => (keyCode e.1, e.2)) (odSet d k v)
          = odSet (List.map (fun e => (keyCode e.1, e.2)) d) (keyCode k) v := ih
      simp [odSet, codeKV, h, h', ih']

theorem codeKV_odExtend (d l : List (String × Nat)) :
    codeKV (odExtend d l) = odExtend (codeKV d) (codeKV l) := by
  induction l generalizing d with
  | nil => rfl
  | cons e l ih =>
    have h1 : odExtend d (e :: l) = odExtend (odSet d e.1 e.2) l := rfl
    have h2 : odExtend (codeKV d) (codeKV (e :: l))
        = odExtend (odSet (codeKV d) (keyCode e.1) e.2) (codeKV l) := rfl
    rw [h1, h2, ih, codeKV_odSet]

theorem codeKV_odFromList (l : List (String × Nat)) :
    codeKV (odFromList l) = odFromList (codeKV l) := codeKV_odExtend [] l

/-- Checking an ordered dict with string keys through the codes. -/
theorem eq_odFromList_of_codes (d l : List (String × Nat)) (h : codeKV d = fod (codeKV l)) :
    d = odFromList l := by
  apply codeKV_inj
  rw [h, fod_eq, codeKV_odFromList]

/-! ### The release-name recogniser on UTF-8 bytes -/

def relStepN : RelState → Nat → Option RelState
  | .start, c => if 48 ≤ c ∧ c ≤ 57 then some .int else none
  | .int, c => if 48 ≤ c ∧ c ≤ 57 then some .int else if c = 46 then some .dot else none
  | .dot, c => if 48 ≤ c ∧ c ≤ 57 then some .frac else none
  | .frac, c => if 48 ≤ c ∧ c ≤ 57 then some .frac else if c = 46 then some .dot else none

def relRunB : RelState → List UInt8 → Bool
  | st, [] => decide (st = .frac)
  | st, b :: bs =>
    if st = .frac ∧ b.toNat = 10 ∧ bs = [] then true
    else match relStepN st b.toNat with
      | some st' => relRunB st' bs
      | none => false

def isReleaseB (s : String) : Bool := relRunB .start s.toByteArray.data.toList

theorem isAsciiDigit_iff (c : Char) : isAsciiDigit c = true ↔ 48 ≤ c.toNat ∧ c.toNat ≤ 57 := by
  simp only [isAsciiDigit, Bool.and_eq_true, decide_eq_true_eq, Char.le_def,
    UInt32.le_iff_toNat_le]
  exact Iff.rfl

theorem char_eq_iff (c d : Char) : c = d ↔ c.toNat = d.toNat := Char.toNat_inj.symm

theorem relStep_eq (st : RelState) (c : Char) : relStep st c = relStepN st c.toNat := by
  have hd : isAsciiDigit c = decide (48 ≤ c.toNat ∧ c.toNat ≤ 57) := by
    rw [Bool.eq_iff_iff, isAsciiDigit_iff]; simp
  have hdot : (c = '.') = (c.toNat = 46) := propext (char_eq_iff c '.')
  cases st <;> simp only [relStep, relStepN, hd, hdot, decide_eq_true_eq]

theorem relStepN_high (st : RelState) (n : Nat) (h : 128 ≤ n) : relStepN st n = none := by
  cases st <;> simp only [relStepN] <;> (repeat' split) <;> first | rfl | omega

/-- UTF-8: an ASCII character is its own single byte; any other character starts with a byte
`≥ 0x80`. -/
theorem utf8EncodeChar_cases (c : Char) :
    (c.toNat ≤ 127 ∧ ∃ b, String.utf8EncodeChar c = [b] ∧ b.toNat = c.toNat) ∨
    (128 ≤ c.toNat ∧ ∃ b rest, String.utf8EncodeChar c = b :: rest ∧ 128 ≤ b.toNat) := by
  have hv : c.val.toNat = c.toNat := rfl
  unfold String.utf8EncodeChar
  simp only [hv]
  by_cases h1 : c.toNat ≤ 0x7f
  · left
    refine ⟨h1, _, by rw [if_pos h1], ?_⟩
    rw [UInt8.toNat_ofNat']; omega
  · right
    refine ⟨by omega, ?_⟩
    rw [if_neg h1]
    by_cases h2 : c.toNat ≤ 0x7ff
    · rw [if_pos h2]; exact ⟨_, _, rfl, by rw [UInt8.toNat_ofNat']; omega⟩
    · rw [if_neg h2]
      by_cases h3 : c.toNat ≤ 0xffff
      · rw [if_pos h3]; exact ⟨_, _, rfl, by rw [UInt8.toNat_ofNat']; omega⟩
      · rw [if_neg h3]; exact ⟨_, _, rfl, by rw [UInt8.toNat_ofNat']; omega⟩

theorem flatMap_enc_eq_nil (cs : List Char) :
    cs.flatMap String.utf8EncodeChar = [] ↔ cs = [] := by
  cases cs with
  | nil => simp
  | cons c cs =>
    simp only [List.flatMap_cons, List.append_eq_nil_iff, reduceCtorEq, iff_false, not_and]
    intro h
    rcases utf8EncodeChar_cases c with ⟨_, b, hb, _⟩ | ⟨_, b, r, hb, _⟩ <;> rw [hb] at h <;> cases h

theorem relRunB_eq (st : RelState) (cs : List Char) :
    relRunB st (cs.flatMap String.utf8EncodeChar) = relRun st cs := by
  induction cs generalizing st with
  | nil => rfl
  | cons c cs ih =>
    have hnl : c = '\n' ↔ c.toNat = 10 := char_eq_iff c '\n'
    rw [List.flatMap_cons]
    rcases utf8EncodeChar_cases c with ⟨_, b, hb, hbn⟩ | ⟨hc, b, r, hb, hbn⟩
    · have hnl' : (c = '\n') = (c.toNat = 10) := propext hnl
      rw [hb, List.singleton_append, relRunB, relRun, hbn, relStep_eq]
      simp only [flatMap_enc_eq_nil, hnl']
      split
      · rfl
      · cases relStepN st c.toNat with
        | none => rfl
        | some st' => exact ih st'
    · rw [hb, List.cons_append, relRunB, relRun, relStep_eq, relStepN_high _ _ hbn,
        relStepN_high _ _ hc]
      have h1 : ¬ b.toNat = 10 := by omega
      have h2 : ¬ c = '\n' := fun e => by rw [hnl] at e; omega
      simp [h1, h2]

theorem isReleaseB_eq (s : String) : isReleaseB s = isRelease s := by
  unfold isReleaseB isRelease
  rw [← relRunB_eq, ← String.utf8Encode_toList]
  unfold List.utf8Encode
  rw [List.toList_data_toByteArray]

/-! ### The checker -/

/-- Recompute every table in closed form with the fast primitives and compare with `t`.  The
dependent tables are checked against the CLAIMED `supportedVersions` / `releaseVersions` /
`knownProtocols` of `t` (sound because those are checked too), so nothing is computed twice. -/
noncomputable def checkTables (recs : List Rec) (t : Tables) : Bool :=
  decide (codeKV t.knownVersions = fod (codeKV (recPairs recs))) &&
  decide (t.knownProtocols = fdedup (recs.map (·.protocol))) &&
  decide (codeKV t.supportedVersions = fod (codeKV (recPairs (recs.filter (·.supported))))) &&
  decide (t.indices = t.knownProtocols.zipIdx) &&
  decide (t.supportedProtocols = fdedup (t.supportedVersions.map (·.2))) &&
  decide (codeKV t.releaseVersions
    = codeKV (t.supportedVersions.filter (fun e => isReleaseB e.1))) &&
  decide (t.releaseProtocols = fdedup (t.releaseVersions.map (·.2)))

theorem checkTables_sound (recs : List Rec) (t : Tables) (h : checkTables recs t = true) :
    initKnown recs = t := by
  simp only [checkTables, Bool.and_eq_true, decide_eq_true_eq] at h
  obtain ⟨⟨⟨⟨⟨⟨h1, h2⟩, h3⟩, h4⟩, h5⟩, h6⟩, h7⟩ := h
  have h1' := eq_odFromList_of_codes _ _ h1
  have h3' := eq_odFromList_of_codes _ _ h3
  have h6' := codeKV_inj _ _ h6
  rw [fdedup_eq] at h2 h5 h7
  have hf : (fun e : String × Nat => isReleaseB e.1) = (fun e => isRelease e.1) := by
    funext e; exact isReleaseB_eq e.1
  rw [hf] at h6'
  rw [initKnown_eq_spec]
  obtain ⟨kv, kp, sv, idx, sp, rv, rp⟩ := t
  simp only at h1' h2 h3' h4 h5 h6' h7
  subst h1' h2 h3' h4 h5
  subst h6'
  subst h7
  rfl

end PyCraft
