import PyCraft.Model.Trackers
/-! Helper lemmas for the tracker models (property C20): ordered dicts, the player-list
abstraction relation, the map pixel loop, `mod360`. -/
namespace PyCraft.Trackers

/-! ### Ordered dicts -/

section dict
variable {β : Type}

abbrev keys (l : List (Int × β)) : List Int := l.map Prod.fst

theorem dictGet_none_iff (k : Int) (l : List (Int × β)) : dictGet k l = none ↔ k ∉ keys l := by
  induction l with
  | nil => simp [dictGet]
  | cons q qs ih =>
    obtain ⟨k', v⟩ := q
    unfold dictGet
    by_cases h : k' = k
    · simp [h]
    · have h' : ¬ k = k' := fun e => h e.symm
      simp [h, h', ih]

theorem dictGet_dictSet (k k' : Int) (v : β) (l : List (Int × β)) :
    dictGet k' (dictSet k v l) = if k' = k then some v else dictGet k' l := by
  induction l with
  | nil => simp [dictSet, dictGet]; grind
  | cons q qs ih =>
    obtain ⟨k₀, v₀⟩ := q
    unfold dictSet
    by_cases h : k₀ = k
    · subst h; simp only [if_true, dictGet]; grind
    · simp only [h, if_false, dictGet, ih]; grind

theorem keys_dictSet (k : Int) (v : β) (l : List (Int × β)) :
    keys (dictSet k v l) = if k ∈ keys l then keys l else keys l ++ [k] := by
  induction l with
  | nil => simp [dictSet]
  | cons q qs ih =>
    obtain ⟨k₀, v₀⟩ := q
    unfold dictSet
    by_cases h : k₀ = k
    · subst h; simp
    · have h' : ¬ k = k₀ := fun e => h e.symm
      simp only [h, if_false, keys, List.map_cons, List.mem_cons, h', false_or] at ih ⊢
      rw [ih]; split <;> simp

theorem dictSet_of_not_mem (k : Int) (v : β) (l : List (Int × β)) (h : k ∉ keys l) :
    dictSet k v l = l ++ [(k, v)] := by
  induction l with
  | nil => rfl
  | cons q qs ih =>
    obtain ⟨k₀, v₀⟩ := q
    simp only [keys, List.map_cons, List.mem_cons, not_or] at h
    have h' : ¬ k₀ = k := fun e => h.1 e.symm
    simp [dictSet, h', ih h.2]

theorem dictGet_dictModify (k k' : Int) (f : β → β) (l : List (Int × β)) :
    dictGet k' (dictModify k f l) = if k' = k then (dictGet k l).map f else dictGet k' l := by
  induction l with
  | nil => simp [dictModify, dictGet]
  | cons q qs ih =>
    obtain ⟨k₀, v₀⟩ := q
    unfold dictModify
    by_cases h : k₀ = k
    · subst h; simp only [if_true, dictGet]; grind
    · simp only [h, if_false, dictGet, ih]; grind

theorem keys_dictModify (k : Int) (f : β → β) (l : List (Int × β)) :
    keys (dictModify k f l) = keys l := by
  induction l with
  | nil => rfl
  | cons q qs ih =>
    obtain ⟨k₀, v₀⟩ := q
    unfold dictModify
    split
    · simp
    · simp only [keys, List.map_cons] at ih ⊢; rw [ih]

theorem dictModify_of_not_mem (k : Int) (f : β → β) (l : List (Int × β)) (h : k ∉ keys l) :
    dictModify k f l = l := by
  induction l with
  | nil => rfl
  | cons q qs ih =>
    obtain ⟨k₀, v₀⟩ := q
    simp only [keys, List.map_cons, List.mem_cons, not_or] at h
    have h' : ¬ k₀ = k := fun e => h.1 e.symm
    simp [dictModify, h', ih h.2]

theorem dictDel_of_not_mem (k : Int) (l : List (Int × β)) (h : k ∉ keys l) : dictDel k l = l := by
  induction l with
  | nil => rfl
  | cons q qs ih =>
    obtain ⟨k₀, v₀⟩ := q
    simp only [keys, List.map_cons, List.mem_cons, not_or] at h
    have h' : ¬ k₀ = k := fun e => h.1 e.symm
    simp [dictDel, h', ih h.2]

/-- With distinct keys, `del` is the filter removing the key. -/
theorem dictDel_eq_filter (k : Int) (l : List (Int × β)) (hnd : (keys l).Nodup) :
    dictDel k l = l.filter (fun q => q.1 ≠ k) := by
  induction l with
  | nil => rfl
  | cons q qs ih =>
    obtain ⟨k₀, v₀⟩ := q
    simp only [keys, List.map_cons, List.nodup_cons] at hnd
    unfold dictDel
    by_cases h : k₀ = k
    · subst h
      have : qs.filter (fun q => !decide (q.1 = k₀)) = qs := by
        apply List.filter_eq_self.2
        intro a ha
        have : a.1 ≠ k₀ := fun e => hnd.1 (e ▸ List.mem_map.2 ⟨a, ha, rfl⟩)
        simpa using this
      simp [this]
    · simp [h, ih hnd.2]

theorem keys_filter (k : Int) (l : List (Int × β)) :
    keys (l.filter (fun q => q.1 ≠ k)) = (keys l).filter (· ≠ k) := by
  induction l with
  | nil => rfl
  | cons q qs ih =>
    simp only [keys, List.filter_cons, List.map_cons] at ih ⊢
    split <;> simp_all

theorem dictGet_filter (k k' : Int) (l : List (Int × β)) :
    dictGet k' (l.filter (fun q => q.1 ≠ k)) = if k' = k then none else dictGet k' l := by
  induction l with
  | nil => simp [dictGet]
  | cons q qs ih =>
    obtain ⟨k₀, v₀⟩ := q
    by_cases h : k₀ = k
    · subst h; simp only [List.filter_cons, ne_eq, not_true_eq_false, decide_false, dictGet]
      grind
    · simp only [List.filter_cons, ne_eq, h, not_false_eq_true, decide_true, if_true, dictGet, ih]
      grind

theorem filterMap_congr' {α γ : Type} (f g : α → Option γ) (l : List α)
    (h : ∀ a ∈ l, f a = g a) : l.filterMap f = l.filterMap g := by
  induction l with
  | nil => rfl
  | cons a as ih =>
    rw [List.filterMap_cons, List.filterMap_cons, h a (by simp),
      ih (fun x hx => h x (List.mem_cons_of_mem _ hx))]

/-- Reading a dict with distinct keys back from its key list and lookup function. -/
theorem items_of_keys (l : List (Int × β)) (hnd : (keys l).Nodup) :
    (keys l).filterMap (fun k => (dictGet k l).map fun p => (k, p)) = l := by
  induction l with
  | nil => rfl
  | cons q qs ih =>
    obtain ⟨k₀, v₀⟩ := q
    simp only [keys, List.map_cons, List.nodup_cons] at hnd
    have hcongr : (keys qs).filterMap (fun k => (dictGet k ((k₀, v₀) :: qs)).map fun p => (k, p))
        = (keys qs).filterMap (fun k => (dictGet k qs).map fun p => (k, p)) := by
      apply filterMap_congr'
      intro k hk
      have : k₀ ≠ k := fun e => hnd.1 (e ▸ hk)
      simp [dictGet, this]
    have hhead : dictGet k₀ ((k₀, v₀) :: qs) = some v₀ := by simp [dictGet]
    show List.filterMap _ (k₀ :: keys qs) = _
    rw [List.filterMap_cons]
    simp only [hhead, Option.map_some]
    rw [hcongr, ih hnd.2]

end dict

/-! ### Player list: abstraction relation -/

/-- The concrete dict `l` represents the abstract state `s`. -/
def Rel (s : RefState) (l : PlayerList) : Prop :=
  (keys l).Nodup ∧ s.order = keys l ∧ ∀ k, s.get k = dictGet k l

theorem Rel.ofList (l : PlayerList) (h : (keys l).Nodup) : Rel (RefState.ofList l) l :=
  ⟨h, rfl, fun _ => rfl⟩

theorem Rel.items {s : RefState} {l : PlayerList} (h : Rel s l) : s.items = l := by
  obtain ⟨hnd, ho, hg⟩ := h
  unfold RefState.items
  rw [ho]
  have : (fun k => (s.get k).map fun p => (k, p)) = fun k => (dictGet k l).map fun p => (k, p) := by
    funext k; rw [hg]
  rw [this]
  exact items_of_keys l hnd

theorem Rel.modify {s : RefState} {l : PlayerList} (h : Rel s l) (u : Int) (f : Player → Player) :
    Rel ⟨fun k => if k = u then (s.get u).map f else s.get k, s.order⟩ (dictModify u f l) := by
  obtain ⟨hnd, ho, hg⟩ := h
  refine ⟨by rw [keys_dictModify]; exact hnd, by rw [keys_dictModify]; exact ho, ?_⟩
  intro k
  simp only [dictGet_dictModify, hg]

theorem Rel.step {s : RefState} {l : PlayerList} (h : Rel s l) (a : Action) :
    Rel (refAction s a) (applyAction l a) := by
  cases a with
  | add p =>
    obtain ⟨hnd, ho, hg⟩ := h
    refine ⟨?_, ?_, ?_⟩
    · simp only [applyAction, keys_dictSet]
      split
      · exact hnd
      · rename_i hk
        exact List.nodup_append.2 ⟨hnd, by simp, by
          intro a ha b hb; simp at hb; subst hb; exact fun e => hk (e ▸ ha)⟩
    · simp only [applyAction, refAction, keys_dictSet, ho]
    · intro k; simp only [applyAction, refAction, dictGet_dictSet, hg]
  | gamemode u g => exact h.modify u _
  | latency u x => exact h.modify u _
  | displayName u d => exact h.modify u _
  | remove u =>
    obtain ⟨hnd, ho, hg⟩ := h
    simp only [applyAction, refAction]
    rw [dictDel_eq_filter u l hnd]
    refine ⟨?_, ?_, ?_⟩
    · rw [keys_filter]; exact hnd.sublist List.filter_sublist
    · rw [keys_filter, ho]
    · intro k; simp only [dictGet_filter, hg]

theorem Rel.packet {s : RefState} {l : PlayerList} (h : Rel s l) (pkt : List Action) :
    Rel (pkt.foldl refAction s) (applyPacket l pkt) := by
  unfold applyPacket
  induction pkt generalizing s l with
  | nil => exact h
  | cons a as ih => exact ih (h.step a)

theorem Rel.replay {s : RefState} {l : PlayerList} (h : Rel s l) (hist : List (List Action)) :
    Rel (refReplay hist s) (replay hist l) := by
  unfold refReplay Trackers.replay
  induction hist generalizing s l with
  | nil => exact h
  | cons p ps ih => exact ih (h.packet p)

/-! ### Map pixel loop -/

theorem pySetItem_nat (bs : Bytes) (j : Nat) (v : UInt8) (h : j < bs.length) :
    pySetItem bs (j : Int) v = .ok (bs.set j v) := by
  unfold pySetItem
  have h1 : ¬ ((j : Int) < 0) := by omega
  simp only [h1, if_false]
  have h2 : (0 : Int) ≤ j ∧ (j : Int) < bs.length := ⟨by omega, by omega⟩
  simp [h2]

/-- The flat index written for packet pixel `i`. -/
def cellIdx (W width ox oz i : Nat) : Nat := (ox + i % width) + W * (oz + i / width)

theorem cellIdx_lt (W H width height ox oz i : Nat) (hw : ox + width ≤ W) (hh : oz + height ≤ H)
    (hi : i < width * height) : cellIdx W width ox oz i < W * H := by
  have hwpos : 0 < width := by
    rcases Nat.eq_zero_or_pos width with h | h
    · subst h; simp at hi
    · exact h
  have hx : ox + i % width < W := by have := Nat.mod_lt i hwpos; omega
  have hz : i / width < height := (Nat.div_lt_iff_lt_mul hwpos).2 (by rw [Nat.mul_comm]; exact hi)
  have hz' : oz + i / width + 1 ≤ H := by omega
  unfold cellIdx
  calc ox + i % width + W * (oz + i / width) < W + W * (oz + i / width) := by omega
    _ = W * (oz + i / width + 1) := by rw [Nat.mul_succ, Nat.add_comm]
    _ ≤ W * H := Nat.mul_le_mul_left _ hz'

theorem cellIdx_coords (W width ox oz i : Nat) (hwpos : 0 < width) (hw : ox + width ≤ W) :
    cellIdx W width ox oz i % W = ox + i % width ∧ cellIdx W width ox oz i / W = oz + i / width := by
  have hx : ox + i % width < W := by have := Nat.mod_lt i hwpos; omega
  have hW : 0 < W := by omega
  unfold cellIdx
  constructor
  · rw [Nat.add_mul_mod_self_left, Nat.mod_eq_of_lt hx]
  · rw [Nat.add_mul_div_left _ _ hW, Nat.div_eq_of_lt hx, Nat.zero_add]

theorem cellIdx_inj (W width ox oz i j : Nat) (hwpos : 0 < width) (hw : ox + width ≤ W)
    (h : cellIdx W width ox oz i = cellIdx W width ox oz j) : i = j := by
  have hi := cellIdx_coords W width ox oz i hwpos hw
  have hj := cellIdx_coords W width ox oz j hwpos hw
  rw [h] at hi
  have h1 : i % width = j % width := by omega
  have h2 : i / width = j / width := by omega
  rw [← Nat.div_add_mod i width, ← Nat.div_add_mod j width, h1, h2]

/-- The loop, when every index it writes is in range (as a natural number), is a chain of
`List.set`s: it succeeds, keeps the length, and the final content at any position `p` is the
packet pixel of the LAST `k` with `f (i + k) = p`, or the old content if there is none. -/
theorem patchLoop_spec (mapW width ox oz : Nat) (hwpos : 0 < width) :
    ∀ (px : Bytes) (i : Nat) (cur : Bytes),
      (∀ k, k < px.length → cellIdx mapW width ox oz (i + k) < cur.length) →
      ∃ r, patchLoop mapW width ((ox : Int), (oz : Int)) i px cur = .ok r ∧ r.length = cur.length ∧
        (∀ p, (∀ k, k < px.length → cellIdx mapW width ox oz (i + k) ≠ p) → r[p]? = cur[p]?) ∧
        (∀ k, (hk : k < px.length) →
          (∀ k', k < k' → k' < px.length →
            cellIdx mapW width ox oz (i + k') ≠ cellIdx mapW width ox oz (i + k)) →
          r[cellIdx mapW width ox oz (i + k)]? = some px[k]) := by
  intro px
  induction px with
  | nil =>
    intro i cur _
    exact ⟨cur, rfl, rfl, fun _ _ => rfl, fun k hk => absurd hk (by simp)⟩
  | cons b bs ih =>
    intro i cur hrange
    have h0 := hrange 0 (by simp)
    simp only [Nat.add_zero] at h0
    have hidx : ((ox : Int) + ((i % width : Nat) : Int)) + (mapW : Int) * ((oz : Int) + ((i / width : Nat) : Int))
        = ((cellIdx mapW width ox oz i : Nat) : Int) := by
      unfold cellIdx; push_cast; rfl
    have hwne : ¬ width = 0 := by omega
    obtain ⟨r, hr, hlen, hold, hnew⟩ := ih (i + 1) (cur.set (cellIdx mapW width ox oz i) b) (by
      intro k hk
      have := hrange (k + 1) (by simp; omega)
      rw [List.length_set]
      rwa [show i + 1 + k = i + (k + 1) by omega])
    refine ⟨r, ?_, by rw [hlen, List.length_set], ?_, ?_⟩
    · simp only [patchLoop, hwne, if_false, hidx, pySetItem_nat cur _ b h0]
      exact hr
    · intro p hp
      rw [hold p (by
        intro k hk
        have := hp (k + 1) (by simp; omega)
        rwa [show i + 1 + k = i + (k + 1) by omega])]
      have := hp 0 (by simp)
      simp only [Nat.add_zero] at this
      rw [List.getElem?_set]; simp [this]
    · intro k hk hlast
      cases k with
      | zero =>
        simp only [Nat.add_zero, List.getElem_cons_zero]
        rw [hold _ (by
          intro k' hk'
          have := hlast (k' + 1) (by omega) (by simp; omega)
          simpa [show i + 1 + k' = i + (k' + 1) by omega] using this)]
        rw [List.getElem?_set]; simp [h0]
      | succ k =>
        have hk' : k < bs.length := by simpa using hk
        have := hnew k hk' (by
          intro k' h1 h2
          have := hlast (k' + 1) (by omega) (by simp; omega)
          simpa [show i + 1 + k' = i + (k' + 1) by omega, show i + 1 + k = i + (k + 1) by omega]
            using this)
        simpa [show i + 1 + k = i + (k + 1) by omega] using this

/-- In-range patch: the loop succeeds, pixel `i` lands at `(offX + i % width, offY + i / width)`
and every cell outside the rectangle keeps its content. -/
theorem applyPatch_in_range (m : MapState) (W H width height offX offY : Nat) (px : Bytes)
    (hW : m.width = W) (hlen : m.pixels.length = W * H)
    (hx : offX + width ≤ W) (hz : offY + height ≤ H) (hpx : px.length = width * height) :
    ∃ r, applyPatch m width ((offX : Int), (offY : Int)) (some px) = .ok r ∧ r.length = W * H ∧
      (∀ i, (hi : i < px.length) →
        r[(offX + i % width) + W * (offY + i / width)]? = some px[i]) ∧
      (∀ x z, x < W → z < H →
        ¬ (offX ≤ x ∧ x < offX + width ∧ offY ≤ z ∧ z < offY + height) →
        r[x + W * z]? = m.pixels[x + W * z]?) := by
  rcases Nat.eq_zero_or_pos width with h0 | hwpos
  · subst h0
    have : px = [] := List.eq_nil_of_length_eq_zero (by simpa using hpx)
    subst this
    exact ⟨m.pixels, rfl, hlen, fun i hi => absurd hi (by simp), fun _ _ _ _ _ => rfl⟩
  · obtain ⟨r, hr, hl, hold, hnew⟩ := patchLoop_spec W width offX offY hwpos px 0 m.pixels (by
      intro k hk
      rw [hlen, Nat.zero_add]
      exact cellIdx_lt W H width height offX offY k hx hz (hpx ▸ hk))
    refine ⟨r, by simp only [applyPatch, hW]; exact hr, by rw [hl, hlen], ?_, ?_⟩
    · intro i hi
      have := hnew i hi (by
        intro k' h1 h2 e
        simp only [Nat.zero_add] at e
        have := cellIdx_inj _ _ _ _ _ _ hwpos hx e
        omega)
      simpa [cellIdx] using this
    · intro x z hxW hzH hout
      apply hold
      intro k hk e
      simp only [Nat.zero_add] at e
      have hc := cellIdx_coords W width offX offY k hwpos hx
      rw [e] at hc
      have h1 : (x + W * z) % W = x := by
        rw [Nat.add_mul_mod_self_left, Nat.mod_eq_of_lt hxW]
      have h2 : (x + W * z) / W = z := by
        rw [Nat.add_mul_div_left _ _ (by omega), Nat.div_eq_of_lt hxW, Nat.zero_add]
      have hk' : k < width * height := hpx ▸ hk
      have hm := Nat.mod_lt k hwpos
      have hd : k / width < height :=
        (Nat.div_lt_iff_lt_mul hwpos).2 (by rw [Nat.mul_comm]; exact hk')
      rw [h1, h2] at hc
      clear h1 h2 e
      generalize k / width = q at *
      generalize k % width = rr at *
      apply hout; omega

theorem replayMaps_append (ps qs : List MapPacket) (s : MapSet) :
    replayMaps (ps ++ qs) s =
      (match replayMaps ps s with
       | .error e => .error e
       | .ok s' => replayMaps qs s') := by
  induction ps generalizing s with
  | nil => rfl
  | cons p ps ih =>
    simp only [List.cons_append, replayMaps]
    cases applyToMapSet p s with
    | error e => rfl
    | ok s' => exact ih s'

/-! ### Position -/

theorem and_two_pow_ne_zero (f k : Nat) : f &&& 2 ^ k ≠ 0 ↔ f / 2 ^ k % 2 = 1 := by
  have h1 : f.testBit k = decide (f / 2 ^ k % 2 = 1) := Nat.testBit_eq_decide_div_mod_eq
  constructor
  · intro h
    by_cases hb : f.testBit k = true
    · rw [h1] at hb; simpa using hb
    · exfalso; apply h
      apply Nat.eq_of_testBit_eq
      intro i
      simp only [Nat.testBit_and, Nat.testBit_two_pow, Nat.zero_testBit]
      by_cases e : k = i
      · subst e; simp [hb]
      · simp [e]
  · intro h hz
    have : (f &&& 2 ^ k).testBit k = false := by rw [hz]; simp
    simp only [Nat.testBit_and, Nat.testBit_two_pow] at this
    rw [h1] at this; simp [h] at this

/-- `relOrAbs` in terms of the `k`-th binary digit of `flags`. -/
theorem relOrAbs_bit (flags k : Nat) (cur pkt : Rat) :
    relOrAbs flags (2 ^ k) cur pkt = if flags / 2 ^ k % 2 = 1 then cur + pkt else pkt := by
  unfold relOrAbs
  by_cases h : flags / 2 ^ k % 2 = 1
  · simp only [h, if_true]; rw [if_pos ((and_two_pow_ne_zero flags k).2 h)]
  · simp only [h, if_false]; rw [if_neg (fun e => h ((and_two_pow_ne_zero flags k).1 e))]


theorem mod360_range (a : Rat) : 0 ≤ mod360 a ∧ mod360 a < 360 := by
  unfold mod360
  have h1 := Rat.floor_le (a / 360)
  have h2 := Rat.lt_floor_add_one (a / 360)
  have h3 : a = 360 * (a / 360) := by grind
  constructor <;> grind

/-- `mod360 a` differs from `a` by a whole number of turns. -/
theorem mod360_congr (a : Rat) : ∃ n : Int, a = mod360 a + 360 * (n : Rat) :=
  ⟨(a / 360).floor, by unfold mod360; grind⟩

theorem mod360_id (a : Rat) (h0 : 0 ≤ a) (h1 : a < 360) : mod360 a = a := by
  unfold mod360
  have e : a = 360 * (a / 360) := by grind
  have f1 : (0 : Int) ≤ (a / 360).floor := Rat.le_floor_iff.2 (by
    show ((0 : Int) : Rat) ≤ a / 360
    simp; grind)
  have f2 : (a / 360).floor < (1 : Int) := Rat.floor_lt_iff.2 (by
    show a / 360 < ((1 : Int) : Rat)
    simp; grind)
  have : (a / 360).floor = 0 := by omega
  rw [this]; grind

end PyCraft.Trackers
