import PyCraft.Lemmas.LifecycleInv
/-!
The API calls of `Model/Lifecycle.lean` as steps of the transition system: vocabulary (`atCall`,
`pendingOut`, `Sys.shared`, `SameThreads`) and the characterisation of a call step by `body`.
-/
namespace PyCraft.Life
set_option linter.unusedSimpArgs false

/-- Thread `t`'s next action is "acquire the lock and run the body of the API call `op`":
a user thread between calls whose next operation is `op`, or a networking thread inside a
reaction / listener / exception handler / `_handle_exception` that calls `op`. -/
def atCall (s : Sys) : Tid → Op → Prop
  | .user u, op => (s.usr u).pc = .idle ∧ ∃ rest, (s.usr u).todo = op :: rest
  | .net i, op => ∃ site, (s.net i).pc = .call site ∧ site.op = op

/-- The outcome of the API call whose body thread `t` has just executed (it still holds the lock). -/
def pendingOut (s : Sys) : Tid → Option Outcome
  | .user u => match (s.usr u).pc with
    | .rel out => some out
    | .idle => none
  | .net i => match (s.net i).pc with
    | .callRel _ out => some out
    | _ => none

/-- The attributes of the `Connection` object. -/
structure Shared where
  nt        : Option Nat
  newNt     : Option Nat
  socket    : Sock
  file      : FileSt
  connected : Bool
  conns     : Nat
  nthreads  : Nat
deriving DecidableEq, Repr

def Sys.shared (s : Sys) : Shared :=
  ⟨s.nt, s.newNt, s.socket, s.file, s.connected, s.conns, s.nthreads⟩

/-- No thread object was created, interrupted or moved, except that thread `t` itself advanced. -/
def SameThreads (s s' : Sys) (t : Tid) : Prop :=
  ∀ j, (s'.net j).intr = (s.net j).intr ∧ (s'.net j).prev = (s.net j).prev ∧
    (t ≠ .net j → (s'.net j).pc = (s.net j).pc)

/-- The connection is active: `_check_connection` raises. -/
theorem busy_iff (s : Sys) :
    busy s = true ↔ (∃ i, s.nt = some i ∧ (s.net i).intr = false) ∨ s.newNt ≠ none := by
  unfold busy
  cases hn : s.nt <;> cases hm : s.newNt <;> simp

/-- A call step is enabled iff the lock can be acquired, and is the body of the call. -/
theorem call_step (env : List Beh) (s s' : Sys) (t : Tid) (op : Op) (hat : atCall s t op)
    (hs : step env s t = some s') :
    canAcq s t = true ∧ pendingOut s' t = some (body env s op).2 ∧
    s'.shared = (body env s op).1.shared ∧ s'.owner = some t ∧ s'.depth = s.depth + 1 ∧
    SameThreads (body env s op).1 s' t ∧ s'.rl = s.rl ∧ s'.rh = s.rh ∧
    s'.log = s.log ++ [(t, .call op (body env s op).2)] ∧
    (∀ u, t = .user u → (s'.usr u).outs = (s.usr u).outs) := by
  rcases t with u | i
  · obtain ⟨hpc, rest, htd⟩ := hat
    simp only [step, stepUser, hpc, htd] at hs
    split at hs
    · next hc =>
      simp only [Option.some.injEq] at hs; subst hs
      refine ⟨hc, by simp [pendingOut, updU], rfl, rfl, rfl, fun j => ⟨rfl, rfl, fun _ => rfl⟩, ?_, ?_, rfl,
        fun v hv => by cases hv; simp [updU]⟩
      · cases op <;> simp [body, doConnect, startThread, doDisconnect] <;> repeat' split
        all_goals rfl
      · cases op <;> simp [body, doConnect, startThread, doDisconnect] <;> repeat' split
        all_goals rfl
    · cases hs
  · obtain ⟨site, hpc, rfl⟩ := hat
    simp only [step, stepNet, hpc] at hs
    split at hs
    · next hc =>
      simp only [Option.some.injEq] at hs; subst hs
      refine ⟨hc, by simp [pendingOut, updN], rfl, rfl, rfl, fun j => ?_, ?_, ?_, rfl,
        fun v hv => by cases hv⟩
      · by_cases hj : j = i <;> simp [updN, hj]
      · cases site <;> simp [Site.op, body, doConnect, startThread, doDisconnect] <;> repeat' split
        all_goals rfl
      · cases site <;> simp [Site.op, body, doConnect, startThread, doDisconnect] <;> repeat' split
        all_goals rfl
    · cases hs

theorem call_enabled (env : List Beh) (s : Sys) (t : Tid) (op : Op) (hat : atCall s t op)
    (hc : canAcq s t = true) : ∃ s', step env s t = some s' := by
  rcases t with u | i
  · obtain ⟨hpc, rest, htd⟩ := hat
    simp [step, stepUser, hpc, htd, hc]
  · obtain ⟨site, hpc, rfl⟩ := hat
    simp [step, stepNet, hpc, hc]


theorem pendingOut_atRel (s : Sys) (t : Tid) (out : Outcome) (hp : pendingOut s t = some out) :
    atRel s t = true := by
  rcases t with u | i
  · simp only [pendingOut] at hp
    split at hp <;> simp_all [atRel, UPc.isRel]
  · simp only [pendingOut] at hp
    split at hp <;> simp_all [atRel, NPc.isRel]

/-- The release step that ends an API call: the caller is always enabled, the lock becomes free,
the connection and all other threads are untouched, and the caller receives the outcome. -/
theorem release_step (env : List Beh) (s : Sys) (t : Tid) (out : Outcome) (h : LInv s)
    (hp : pendingOut s t = some out) :
    ∃ s', step env s t = some s' ∧ s'.shared = s.shared ∧ s'.owner = none ∧ s'.depth = 0 ∧
      SameThreads s s' t ∧
      (∀ u, t = .user u → (s'.usr u).outs = (s.usr u).outs ++ [out] ∧ (s'.usr u).pc = .idle) ∧
      (∀ i site, t = .net i → (s.net i).pc = .callRel site out →
        (s'.net i).pc = afterCall s site out) := by
  have hr := pendingOut_atRel s t out hp
  have ho := (h.own_iff t).mp hr
  have hd := h.depth_ok
  rcases t with u | i
  · simp only [pendingOut] at hp
    split at hp
    · next o hpc =>
      cases hp
      have hex : ∃ s', step env s (.user u) = some s' := by
        simp only [step, stepUser, hpc]; exact ⟨_, rfl⟩
      obtain ⟨s', hs'⟩ := hex
      have hs2 := hs'
      simp only [step, stepUser, hpc, Option.some.injEq] at hs2
      subst hs2
      refine ⟨_, hs', rfl, by simp [ownerAfterRel, hd, ho],
        by simp [hd, ho], fun j => ⟨rfl, rfl, fun _ => rfl⟩, ?_, by simp⟩
      intro v hv; cases hv; simp [updU]
    · cases hp
  · simp only [pendingOut] at hp
    split at hp
    · next site o hpc =>
      cases hp
      have hex : ∃ s', step env s (.net i) = some s' := by
        simp only [step, stepNet, hpc]; exact ⟨_, rfl⟩
      obtain ⟨s', hs'⟩ := hex
      have hs2 := hs'
      simp only [step, stepNet, hpc, Option.some.injEq] at hs2
      subst hs2
      refine ⟨_, hs', rfl, by simp [ownerAfterRel, hd, ho],
        by simp [hd, ho], fun j => ?_, by simp, ?_⟩
      · by_cases hj : j = i <;> simp [updN, hj]
      · intro k site' hk hpc'; cases hk
        rw [hpc] at hpc'; cases hpc'
        simp [updN]
    · cases hp


/-- The "check the flag and disconnect" block of `_handle_exception` as a step: it is enabled iff
the lock can be acquired, reads the flag of `new_networking_thread or networking_thread` and runs
the body of `disconnect(immediate=True)` exactly when that flag is set — in ONE action. -/
theorem hchk_step (env : List Beh) (s s' : Sys) (i : Nat) (hpc : (s.net i).pc = .hChk)
    (hs : step env s (.net i) = some s') :
    canAcq s (.net i) = true ∧ s'.owner = some (.net i) ∧ (s'.net i).pc = .hRel ∧
    ((∃ j, target s = some j ∧ (s.net j).intr = true ∧ s'.shared = (discSt s).shared ∧
        SameThreads (discSt s) s' (.net i)) ∨
     (∃ j, target s = some j ∧ (s.net j).intr = false ∧ s'.shared = s.shared ∧
        SameThreads s s' (.net i)) ∨
     (target s = none ∧ s'.shared = s.shared ∧ SameThreads s s' (.net i))) := by
  simp only [step, stepNet, hpc] at hs
  split at hs
  · next hc =>
    split at hs
    · next j htg =>
      split at hs
      · next hi =>
        simp only [Option.some.injEq] at hs; subst hs
        refine ⟨hc, rfl, by simp [updN], Or.inl ⟨j, htg, hi, ?_, ?_⟩⟩
        · simp [Sys.shared, doDisconnect_discSt]
        · intro k
          by_cases hk : k = i <;> simp [updN, hk, doDisconnect_discSt]
      · next hi =>
        simp only [Option.some.injEq] at hs; subst hs
        refine ⟨hc, rfl, by simp [updN], Or.inr (Or.inl ⟨j, htg, by simpa using hi, rfl, ?_⟩)⟩
        intro k
        by_cases hk : k = i <;> simp [updN, hk]
    · next htg =>
      simp only [Option.some.injEq] at hs; subst hs
      refine ⟨hc, rfl, by simp [updN], Or.inr (Or.inr ⟨htg, rfl, ?_⟩)⟩
      intro k
      by_cases hk : k = i <;> simp [updN, hk]
  · cases hs

theorem SameThreads.trans {s1 s2 s3 : Sys} {t : Tid} (h1 : SameThreads s1 s2 t)
    (h2 : SameThreads s2 s3 t) : SameThreads s1 s3 t := fun j =>
  ⟨(h2 j).1.trans (h1 j).1, (h2 j).2.1.trans (h1 j).2.1,
   fun ht => ((h2 j).2.2 ht).trans ((h1 j).2.2 ht)⟩

theorem SameThreads.refl (s : Sys) (t : Tid) : SameThreads s s t := fun _ => ⟨rfl, rfl, fun _ => rfl⟩

/-- The caller of an API call is an existing thread, so it is not the thread object that a
successful `connect()` creates. -/
theorem atCall_ne_new (s : Sys) (h : LInv s) (t : Tid) (op : Op) (hat : atCall s t op) :
    t ≠ .net s.nthreads := by
  rintro rfl
  obtain ⟨site, hpc, -⟩ := hat
  have := (h.born s.nthreads).mpr (Nat.le_refl _)
  rw [hpc] at this; cases this

end PyCraft.Life
