import PyCraft.Model.Enums
/-! Helper lemmas for the `BitFieldEnum.name_from_value` model (property C20). -/
namespace PyCraft.Enums

/-! ### OR of a list -/

@[simp] theorem orAll_nil : orAll [] = 0 := rfl
@[simp] theorem orAll_cons (a : Nat) (l : List Nat) : orAll (a :: l) = a ||| orAll l := rfl

theorem or_left_comm' (a b c : Nat) : a ||| (b ||| c) = b ||| (a ||| c) := by
  rw [← Nat.or_assoc, Nat.or_comm a b, Nat.or_assoc]

theorem orAll_append (l₁ l₂ : List Nat) : orAll (l₁ ++ l₂) = orAll l₁ ||| orAll l₂ := by
  induction l₁ with
  | nil => simp
  | cons a l ih => simp [ih, Nat.or_assoc]

theorem orAll_reverse (l : List Nat) : orAll l.reverse = orAll l := by
  induction l with
  | nil => rfl
  | cons a l ih => simp [orAll_append, ih, Nat.or_comm]

/-! ### The stable descending sort -/

theorem mem_insDesc (p x : String × Nat) (l : List (String × Nat)) :
    x ∈ insDesc p l ↔ x = p ∨ x ∈ l := by
  induction l with
  | nil => simp [insDesc]
  | cons q qs ih =>
    unfold insDesc
    split
    · simp
    · simp [ih]; grind

theorem mem_sortDesc (x : String × Nat) (l : List (String × Nat)) : x ∈ sortDesc l ↔ x ∈ l := by
  induction l with
  | nil => simp [sortDesc]
  | cons p ps ih => simp [sortDesc, mem_insDesc, ih]

theorem orAll_insDesc (p : String × Nat) (l : List (String × Nat)) :
    orAll ((insDesc p l).map Prod.snd) = p.2 ||| orAll (l.map Prod.snd) := by
  induction l with
  | nil => simp [insDesc]
  | cons q qs ih =>
    unfold insDesc
    split
    · simp
    · simp [ih, or_left_comm']

theorem orAll_sortDesc (l : List (String × Nat)) :
    orAll ((sortDesc l).map Prod.snd) = orAll (l.map Prod.snd) := by
  induction l with
  | nil => rfl
  | cons p ps ih => simp [sortDesc, orAll_insDesc, ih]

/-- Every element of `insDesc p l` that comes before … : the result is sorted if `l` was. -/
theorem pairwise_insDesc (p : String × Nat) (l : List (String × Nat))
    (h : l.Pairwise fun a b => b.2 ≤ a.2) : (insDesc p l).Pairwise fun a b => b.2 ≤ a.2 := by
  induction l with
  | nil => simp [insDesc]
  | cons q qs ih =>
    unfold insDesc
    rw [List.pairwise_cons] at h
    split
    · rename_i hq
      refine List.pairwise_cons.2 ⟨?_, List.pairwise_cons.2 h⟩
      intro a ha
      rcases List.mem_cons.1 ha with rfl | ha
      · exact hq
      · exact Nat.le_trans (h.1 a ha) hq
    · rename_i hq
      refine List.pairwise_cons.2 ⟨?_, ih h.2⟩
      intro a ha
      rcases (mem_insDesc p a qs).1 ha with rfl | ha
      · omega
      · exact h.1 a ha

/-- `sortDesc` sorts: values are non-increasing. -/
theorem pairwise_sortDesc (l : List (String × Nat)) :
    (sortDesc l).Pairwise fun a b => b.2 ≤ a.2 := by
  induction l with
  | nil => simp [sortDesc]
  | cons p ps ih => exact pairwise_insDesc p _ ih

theorem filter_insDesc (k : Nat) (p : String × Nat) (l : List (String × Nat))
    (h : l.Pairwise fun a b => b.2 ≤ a.2) :
    (insDesc p l).filter (fun a => a.2 == k) =
      (if p.2 == k then [p] else []) ++ l.filter (fun a => a.2 == k) := by
  induction l with
  | nil => simp [insDesc]; split <;> simp_all
  | cons q qs ih =>
    unfold insDesc
    rw [List.pairwise_cons] at h
    split
    · simp [List.filter_cons]; split <;> simp_all
    · rename_i hq
      rw [List.filter_cons, ih h.2, List.filter_cons]
      by_cases hp : p.2 = k
      · have : ¬ q.2 = k := by omega
        simp [hp, this]
      · simp [hp]

/-- `sortDesc` is stable: members with the same value keep their original relative order. -/
theorem filter_sortDesc (k : Nat) (l : List (String × Nat)) :
    (sortDesc l).filter (fun a => a.2 == k) = l.filter (fun a => a.2 == k) := by
  induction l with
  | nil => rfl
  | cons p ps ih =>
    simp only [sortDesc]
    rw [filter_insDesc k p _ (pairwise_sortDesc ps), ih, List.filter_cons]
    split <;> simp_all

theorem perm_insDesc (p : String × Nat) (l : List (String × Nat)) : (insDesc p l).Perm (p :: l) := by
  induction l with
  | nil => exact List.Perm.refl _
  | cons q qs ih =>
    unfold insDesc
    split
    · exact List.Perm.refl _
    · exact (List.Perm.cons q ih).trans (List.Perm.swap p q qs)

/-- `sortDesc` only reorders. -/
theorem perm_sortDesc (l : List (String × Nat)) : (sortDesc l).Perm l := by
  induction l with
  | nil => exact List.Perm.refl _
  | cons p ps ih => exact (perm_insDesc p _).trans (List.Perm.cons p ih)

/-! ### The greedy loop -/

/-- Loop invariant: the names appended are those of a sub-list `chosen` of the candidates and
`ret_value` has grown by exactly the OR of their values. -/
theorem greedy_spec (value : Nat) (cands : List (String × Nat)) :
    ∀ (names : List String) (ret : Nat), ∃ chosen : List (String × Nat),
      chosen.Sublist cands ∧
      (greedy value cands (names, ret)).1 = names ++ chosen.map Prod.fst ∧
      (greedy value cands (names, ret)).2 = ret ||| orAll (chosen.map Prod.snd) := by
  induction cands with
  | nil => intro names ret; exact ⟨[], List.Sublist.slnil, by simp [greedy], by simp [greedy]⟩
  | cons c rest ih =>
    intro names ret
    obtain ⟨n, v⟩ := c
    unfold greedy
    split
    · obtain ⟨ch, h1, h2, h3⟩ := ih (names ++ [n]) (ret ||| v)
      exact ⟨(n, v) :: ch, h1.cons_cons _, by simp [h2], by simp [h3, Nat.or_assoc]⟩
    · obtain ⟨ch, h1, h2, h3⟩ := ih names ret
      exact ⟨ch, h1.cons _, h2, h3⟩

/-- The loop always ends with `ret_value` = initial value OR all candidate values. -/
theorem greedy_ret (value : Nat) (cands : List (String × Nat)) :
    ∀ (names : List String) (ret : Nat),
      (greedy value cands (names, ret)).2 = ret ||| orAll (cands.map Prod.snd) := by
  induction cands with
  | nil => intro names ret; simp [greedy]
  | cons c rest ih =>
    intro names ret
    obtain ⟨n, v⟩ := c
    unfold greedy
    split
    · rw [ih]; simp [Nat.or_assoc]
    · rename_i h
      have hv : ret ||| v = ret := by simp at h; exact h.1
      rw [ih]
      simp only [List.map_cons, orAll_cons]
      rw [← Nat.or_assoc, hv]

/-! ### Looking names up -/

theorem lookupName_of_mem (n : String) (v : Nat) (l : List (String × Nat))
    (hnd : (l.map Prod.fst).Nodup) (h : (n, v) ∈ l) : lookupName n l = some v := by
  induction l with
  | nil => simp at h
  | cons q qs ih =>
    obtain ⟨m, w⟩ := q
    simp only [List.map_cons, List.nodup_cons] at hnd
    unfold lookupName
    rcases List.mem_cons.1 h with heq | hmem
    · cases heq; simp
    · have : m ≠ n := by
        intro e; subst e
        exact hnd.1 (List.mem_map.2 ⟨(m, v), hmem, rfl⟩)
      simp [this, ih hnd.2 hmem]

theorem lookupName_some_mem (n : String) (v : Nat) (l : List (String × Nat))
    (h : lookupName n l = some v) : (n, v) ∈ l := by
  induction l with
  | nil => simp [lookupName] at h
  | cons q qs ih =>
    obtain ⟨m, w⟩ := q
    unfold lookupName at h
    split at h
    · rename_i e; cases h; subst e; simp
    · exact List.mem_cons_of_mem _ (ih h)

theorem upperMembers_nodup (members : List (String × Nat))
    (h : (members.map Prod.fst).Nodup) : ((upperMembers members).map Prod.fst).Nodup := by
  unfold upperMembers
  exact (List.filter_sublist.map Prod.fst).nodup h

theorem zero_not_upper_member (members : List (String × Nat)) :
    lookupName "0" (upperMembers members) = none := by
  cases h : lookupName "0" (upperMembers members) with
  | none => rfl
  | some v =>
    have := lookupName_some_mem _ _ _ h
    simp only [upperMembers, List.mem_filter] at this
    exact absurd this.2 (by decide)

theorem candidates_sub_upper (members : List (String × Nat)) (value : Nat) (x : String × Nat)
    (h : x ∈ candidates members value) : x ∈ upperMembers members := by
  simp only [candidates, upperMembers, List.mem_filter, Bool.and_eq_true] at *
  exact ⟨h.1, h.2.1⟩

/-- If every listed pair is an upper-case member (names of members distinct), OR-ing the values
looked up by name gives the OR of the listed values. -/
theorem tokensValue_of_members (members : List (String × Nat))
    (hnd : (members.map Prod.fst).Nodup) (l : List (String × Nat))
    (h : ∀ x ∈ l, x ∈ upperMembers members) :
    tokensValue members (l.map Prod.fst) = some (orAll (l.map Prod.snd)) := by
  induction l with
  | nil => rfl
  | cons p ps ih =>
    obtain ⟨n, v⟩ := p
    have h1 : lookupName n (upperMembers members) = some v :=
      lookupName_of_mem n v _ (upperMembers_nodup members hnd) (h _ (List.mem_cons_self ..))
    have h2 := ih (fun x hx => h x (List.mem_cons_of_mem _ hx))
    simp only [List.map_cons, tokensValue, tokenValue, h1, h2, orAll_cons]

/-! ### join / split -/

theorem splitBarAux_sep (a : List Char) (ha : '|' ∉ a) (tail : List Char) :
    ∀ cur, splitBarAux cur (a ++ '|' :: tail) = (cur.reverse ++ a) :: splitBarAux [] tail := by
  induction a with
  | nil => intro cur; simp [splitBarAux]
  | cons c cs ih =>
    intro cur
    have hc : c ≠ '|' := fun e => ha (by simp [e])
    have hcs : '|' ∉ cs := fun e => ha (List.mem_cons_of_mem _ e)
    simp only [List.cons_append, splitBarAux, hc, if_false]
    rw [ih hcs]; simp

theorem splitBarAux_last (a : List Char) (ha : '|' ∉ a) :
    ∀ cur, splitBarAux cur a = [cur.reverse ++ a] := by
  induction a with
  | nil => intro cur; simp [splitBarAux]
  | cons c cs ih =>
    intro cur
    have hc : c ≠ '|' := fun e => ha (by simp [e])
    have hcs : '|' ∉ cs := fun e => ha (List.mem_cons_of_mem _ e)
    simp only [splitBarAux, hc, if_false]
    rw [ih hcs]; simp

theorem splitBarAux_join (names : List (List Char)) (hne : names ≠ [])
    (h : ∀ n ∈ names, '|' ∉ n) : splitBarAux [] (joinChars names) = names := by
  induction names with
  | nil => exact absurd rfl hne
  | cons a rest ih =>
    cases rest with
    | nil => simp [joinChars, splitBarAux_last a (h a (by simp))]
    | cons b rest' =>
      simp only [joinChars]
      rw [splitBarAux_sep a (h a (by simp)), ih (by simp) (fun n hn => h n (List.mem_cons_of_mem _ hn))]
      simp

/-- Splitting the `'|'`-joined string gives the list of names back, provided the list is non-empty
and no name contains `'|'`. -/
theorem splitBar_joinBar (names : List String) (hne : names ≠ [])
    (h : ∀ n ∈ names, '|' ∉ n.toList) : splitBar (joinBar names) = names := by
  unfold splitBar joinBar
  rw [String.toList_ofList, splitBarAux_join]
  · simp [List.map_map, Function.comp_def, String.ofList_toList]
  · simpa using hne
  · intro n hn
    obtain ⟨s, hs, rfl⟩ := List.mem_map.1 hn
    exact h s hs

/-! ### Main facts about `chosenNames` / `nameFromValue` -/

theorem chosenNames_spec (members : List (String × Nat)) (value : Nat) (ns : List String)
    (h : chosenNames members value = some ns) :
    ∃ chosen : List (String × Nat), (∀ x ∈ chosen, x ∈ candidates members value) ∧
      ns = (chosen.map Prod.fst).reverse ∧ value = orAll (chosen.map Prod.snd) := by
  unfold chosenNames at h
  obtain ⟨chosen, h1, h2, h3⟩ := greedy_spec value (sortDesc (candidates members value)) [] 0
  simp only at h
  split at h
  · rename_i hv
    refine ⟨chosen, ?_, ?_, ?_⟩
    · intro x hx
      exact (mem_sortDesc x _).1 (h1.subset hx)
    · cases h; rw [h2]; simp
    · rw [h3] at hv
      have : orAll (chosen.map Prod.snd) = value := by simpa using hv
      exact this.symm
  · cases h

theorem chosenNames_none_iff (members : List (String × Nat)) (value : Nat) :
    chosenNames members value = none ↔
      orAll ((candidates members value).map Prod.snd) ≠ value := by
  unfold chosenNames
  simp only [greedy_ret, orAll_sortDesc, Nat.zero_or]
  split <;> simp_all

theorem nameFromValue_none_iff (members : List (String × Nat)) (value : Nat) :
    nameFromValue members value = none ↔
      orAll ((candidates members value).map Prod.snd) ≠ value := by
  rw [← chosenNames_none_iff]
  unfold nameFromValue
  split <;> simp_all

theorem tokensValue_chosen (members : List (String × Nat)) (hnd : (members.map Prod.fst).Nodup)
    (value : Nat) (ns : List String) (h : chosenNames members value = some ns) :
    tokensValue members ns = some value := by
  obtain ⟨chosen, h1, h2, h3⟩ := chosenNames_spec members value ns h
  have := tokensValue_of_members members hnd chosen.reverse (by
    intro x hx
    exact candidates_sub_upper members value x (h1 x (List.mem_reverse.1 hx)))
  rw [List.map_reverse, List.map_reverse, orAll_reverse, ← h3, ← h2] at this
  exact this

theorem chosenNames_mem (members : List (String × Nat)) (value : Nat) (ns : List String)
    (h : chosenNames members value = some ns) :
    ∀ n ∈ ns, pyIsUpper n = true ∧ ∃ v, (n, v) ∈ members ∧ v ||| value = value := by
  obtain ⟨chosen, h1, h2, _⟩ := chosenNames_spec members value ns h
  intro n hn
  rw [h2, List.mem_reverse, List.mem_map] at hn
  obtain ⟨⟨n', v⟩, hx, rfl⟩ := hn
  have := h1 _ hx
  simp only [candidates, List.mem_filter, Bool.and_eq_true, beq_iff_eq] at this
  exact ⟨this.2.1, v, this.1, this.2.2⟩

theorem nameFromValue_parses (members : List (String × Nat)) (hnd : (members.map Prod.fst).Nodup)
    (hbar : ∀ p ∈ members, '|' ∉ p.1.toList) (value : Nat) (s : String)
    (h : nameFromValue members value = some s) : parseName members s = some value := by
  unfold nameFromValue at h
  split at h
  · cases h
  · rename_i hc
    cases h
    have := tokensValue_chosen members hnd value [] hc
    simp only [tokensValue, Option.some.injEq] at this
    subst this
    have hs : splitBar "0" = ["0"] := by decide
    simp [parseName, hs, tokensValue, tokenValue, zero_not_upper_member]
  · rename_i n ns hc
    cases h
    unfold parseName
    rw [splitBar_joinBar _ (by simp)]
    · exact tokensValue_chosen members hnd value _ hc
    · intro m hm
      obtain ⟨_, v, hv, _⟩ := chosenNames_mem members value _ hc m hm
      exact hbar _ hv

theorem checkEnum_sound (members : List (String × Nat)) (h : checkEnum members = true) :
    ∀ v, v < 256 → ∀ s, nameFromValue members v = some s → parseName members s = some v := by
  intro v hv s hs
  unfold checkEnum at h
  rw [List.all_eq_true] at h
  have := h v (List.mem_range.2 hv)
  rw [hs] at this
  simpa using this

/-! ### Plain `Enum.name_from_value` -/

theorem enumName_some (members : List (String × Int)) (value : Int) (n : String)
    (h : enumNameFromValue members value = some n) :
    ∃ pre post, members = pre ++ (n, value) :: post ∧ pyIsUpper n = true ∧
      ∀ p ∈ pre, ¬ (pyIsUpper p.1 = true ∧ p.2 = value) := by
  induction members with
  | nil => simp [enumNameFromValue] at h
  | cons q qs ih =>
    obtain ⟨m, w⟩ := q
    unfold enumNameFromValue at h
    split at h
    · rename_i hc
      simp only [Bool.and_eq_true, beq_iff_eq] at hc
      cases h
      exact ⟨[], qs, by simp [hc.2], hc.1, by simp⟩
    · rename_i hc
      simp only [Bool.and_eq_true, beq_iff_eq] at hc
      obtain ⟨pre, post, h1, h2, h3⟩ := ih h
      refine ⟨(m, w) :: pre, post, by simp [h1], h2, ?_⟩
      intro p hp
      rcases List.mem_cons.1 hp with rfl | hp
      · exact hc
      · exact h3 p hp

theorem enumName_none_iff (members : List (String × Int)) (value : Int) :
    enumNameFromValue members value = none ↔
      ∀ p ∈ members, ¬ (pyIsUpper p.1 = true ∧ p.2 = value) := by
  induction members with
  | nil => simp [enumNameFromValue]
  | cons q qs ih =>
    obtain ⟨m, w⟩ := q
    unfold enumNameFromValue
    split
    · rename_i hc
      simp only [Bool.and_eq_true, beq_iff_eq] at hc
      simp [hc]
    · rename_i hc
      simp only [Bool.and_eq_true, beq_iff_eq] at hc
      rw [ih]
      constructor
      · intro h p hp
        rcases List.mem_cons.1 hp with rfl | hp
        · exact hc
        · exact h p hp
      · intro h p hp; exact h p (List.mem_cons_of_mem _ hp)

end PyCraft.Enums
