import PyCraft.Lemmas.Custom
import PyCraft.Lemmas.Layout
import PyCraft.Generated.Ids
import PyCraft.Generated.Layouts
/-!
Bool-valued checkers over tabulated id / layout tables (the shapes of `Generated/Ids.lean` and
`Generated/Layouts.lean`) and the lemmas lifting `checker = true` to the ∀-statement.  Everything is
generic in the tables; `Props/C05.lean` runs the checkers on the generated ones by `decide +kernel`.

The kernel evaluates roughly 30 000 list steps per second, so membership of a version in a variant's
version list is not tested entry by entry (that is ~10^7 steps): the version lists of one class are
walked ONCE, in step with the table's version column (`coverWalk`).
-/
namespace PyCraft.LayoutCheck
open PyCraft PyCraft.Gen

abbrev IdTables := List (String × List IdRow)
abbrev LayoutTables := List (String × List LayoutRow)
abbrev Variant := Option Layout × List Nat

/-! ### coverage of versions -/

/-- remove `v` from the head of the first list that starts with it -/
def popHead (v : Nat) : List (List Nat) → Option (List (List Nat))
  | [] => none
  | [] :: rest => (popHead v rest).map ([] :: ·)
  | (h :: tl) :: rest =>
    if h == v then some (tl :: rest) else (popHead v rest).map ((h :: tl) :: ·)

/-- walk the version column `gs`; the lists `ls` (each in column order) are consumed in step; every
element of `need` (in column order) must be met at the head of one of the lists -/
def coverWalk : List Nat → List Nat → List (List Nat) → Bool
  | _, [], _ => true
  | [], _ :: _, _ => false
  | g :: gs, n :: ns, ls =>
    match popHead g ls with
    | some ls' => if n == g then coverWalk gs ns ls' else coverWalk gs (n :: ns) ls'
    | none => if n == g then false else coverWalk gs (n :: ns) ls

theorem popHead_some (v : Nat) : ∀ (ls ls' : List (List Nat)), popHead v ls = some ls' →
    (∃ l ∈ ls, v ∈ l) ∧ ∀ l' ∈ ls', ∀ x ∈ l', ∃ l ∈ ls, x ∈ l := by
  intro ls
  induction ls with
  | nil => intro ls' h; simp [popHead] at h
  | cons l rest ih =>
    intro ls' h
    cases l with
    | nil =>
      simp only [popHead, Option.map_eq_some_iff] at h
      obtain ⟨r', hr, rfl⟩ := h
      obtain ⟨⟨l, hl, hv⟩, h2⟩ := ih r' hr
      refine ⟨⟨l, List.mem_cons_of_mem _ hl, hv⟩, fun l' hl' x hx => ?_⟩
      rcases List.mem_cons.mp hl' with rfl | hl'
      · simp at hx
      · obtain ⟨l, hl, hx⟩ := h2 l' hl' x hx
        exact ⟨l, List.mem_cons_of_mem _ hl, hx⟩
    | cons a tl =>
      simp only [popHead] at h
      split at h
      · next hav =>
        have hav : a = v := by simpa using hav
        subst hav
        cases h
        refine ⟨⟨a :: tl, List.mem_cons_self, List.mem_cons_self⟩, fun l' hl' x hx => ?_⟩
        rcases List.mem_cons.mp hl' with rfl | hl'
        · exact ⟨a :: l', List.mem_cons_self, List.mem_cons_of_mem _ hx⟩
        · exact ⟨l', List.mem_cons_of_mem _ hl', hx⟩
      · simp only [Option.map_eq_some_iff] at h
        obtain ⟨r', hr, rfl⟩ := h
        obtain ⟨⟨l, hl, hv⟩, h2⟩ := ih r' hr
        refine ⟨⟨l, List.mem_cons_of_mem _ hl, hv⟩, fun l' hl' x hx => ?_⟩
        rcases List.mem_cons.mp hl' with rfl | hl'
        · exact ⟨a :: tl, List.mem_cons_self, hx⟩
        · obtain ⟨l, hl, hx⟩ := h2 l' hl' x hx
          exact ⟨l, List.mem_cons_of_mem _ hl, hx⟩

theorem coverWalk_sound : ∀ (gs need : List Nat) (ls : List (List Nat)),
    coverWalk gs need ls = true → ∀ v ∈ need, ∃ l ∈ ls, v ∈ l := by
  intro gs
  induction gs with
  | nil =>
    intro need ls h v hv
    cases need with
    | nil => simp at hv
    | cons n ns => simp [coverWalk] at h
  | cons g gs ih =>
    intro need ls h v hv
    cases need with
    | nil => simp at hv
    | cons n ns =>
      simp only [coverWalk] at h
      split at h
      · next ls' hp =>
        obtain ⟨⟨l0, hl0, hg⟩, h2⟩ := popHead_some g ls ls' hp
        have lift : (∃ l ∈ ls', v ∈ l) → ∃ l ∈ ls, v ∈ l := fun ⟨l', hl', hx⟩ => h2 l' hl' v hx
        split at h
        · next hng =>
          have hng : n = g := by simpa using hng
          rcases List.mem_cons.mp hv with rfl | hv'
          · exact ⟨l0, hl0, hng ▸ hg⟩
          · exact lift (ih ns ls' h v hv')
        · exact lift (ih (n :: ns) ls' h v hv)
      · split at h
        · simp at h
        · exact ih (n :: ns) ls h v hv

/-! ### every registered class has an id and a layout entry covering the version -/

/-- supported versions of the id table in which `cls` is registered, in column order -/
def need (idrows : List IdRow) (cls : String) : List Nat :=
  idrows.filterMap fun r => if r.2.1 && r.2.2.any (fun e => e.1 == cls) then some r.1 else none

/-- the variants of the row cover every version of the column, or at least every supported version
in which the class is registered -/
def rowOk (idrows : List IdRow) (row : LayoutRow) : Bool :=
  let versions := idrows.map fun r => r.1
  let lists := row.2.map fun var => var.2
  coverWalk versions versions lists || coverWalk versions (need idrows row.1) lists

/-- every entry of a supported version has an id, and its class has a row in the layout table -/
def checkEntries (ids : IdTables) (lays : LayoutTables) : Bool :=
  ids.all fun t =>
    match lays.lookup t.1 with
    | none => t.2.all fun r => !r.2.1 || r.2.2.isEmpty
    | some rows => t.2.all fun r => !r.2.1 || r.2.2.all fun e =>
        e.2.isSome && rows.any fun row => row.1 == e.1

def checkCover (ids : IdTables) (lays : LayoutTables) : Bool :=
  ids.all fun t =>
    match lays.lookup t.1 with
    | none => true
    | some rows => rows.all (rowOk t.2)

/-- the ∀-statement: for every table, every SUPPORTED version and every class registered for it, the
class has an id and appears in the layout table (same table name) with a variant (a field layout, or
`none` = hand-written codec) that lists this version -/
def Covered (ids : IdTables) (lays : LayoutTables) : Prop :=
  ∀ t ∈ ids, ∀ r ∈ t.2, r.2.1 = true → ∀ e ∈ r.2.2,
    (∃ i : Int, e.2 = some i) ∧
    ∃ rows, lays.lookup t.1 = some rows ∧ ∃ row ∈ rows, row.1 = e.1 ∧ ∃ var ∈ row.2, r.1 ∈ var.2

theorem rowOk_sound (idrows : List IdRow) (row : LayoutRow) (h : rowOk idrows row = true)
    (r : IdRow) (hr : r ∈ idrows) (hs : r.2.1 = true) (e : String × Option Int) (he : e ∈ r.2.2)
    (hn : row.1 = e.1) : ∃ var ∈ row.2, r.1 ∈ var.2 := by
  simp only [rowOk, Bool.or_eq_true] at h
  have key : ∃ l ∈ row.2.map (fun var => var.2), r.1 ∈ l := by
    rcases h with h | h
    · exact coverWalk_sound _ _ _ h r.1 (List.mem_map.mpr ⟨r, hr, rfl⟩)
    · refine coverWalk_sound _ _ _ h r.1 ?_
      simp only [need, List.mem_filterMap]
      refine ⟨r, hr, ?_⟩
      have : (r.2.2.any fun e => e.1 == row.1) = true :=
        List.any_eq_true.mpr ⟨e, he, by simp [hn]⟩
      simp [hs, this]
  obtain ⟨l, hl, hv⟩ := key
  obtain ⟨var, hvar, rfl⟩ := List.mem_map.mp hl
  exact ⟨var, hvar, hv⟩

theorem covered_of_checks (ids : IdTables) (lays : LayoutTables)
    (h1 : checkEntries ids lays = true) (h2 : checkCover ids lays = true) : Covered ids lays := by
  intro t ht r hr hs e he
  simp only [checkEntries, List.all_eq_true] at h1
  simp only [checkCover, List.all_eq_true] at h2
  have a := h1 t ht
  have b := h2 t ht
  cases hl : lays.lookup t.1 with
  | none =>
    simp only [hl, List.all_eq_true] at a
    have := a r hr
    simp only [hs, Bool.not_true, Bool.false_or, List.isEmpty_iff] at this
    rw [this] at he
    simp at he
  | some rows =>
    simp only [hl, List.all_eq_true] at a b
    have := a r hr
    simp only [hs, Bool.not_true, Bool.false_or, List.all_eq_true, Bool.and_eq_true,
      List.any_eq_true] at this
    obtain ⟨hid, row, hrow, hname⟩ := this e he
    have hname : row.1 = e.1 := by simpa using hname
    refine ⟨?_, rows, rfl, row, hrow, hname, rowOk_sound t.2 row (b row hrow) r hr hs e he hname⟩
    cases h : e.2 with
    | none => simp [h] at hid
    | some i => exact ⟨i, rfl⟩

/-! ### the layouts themselves -/

def _root_.PyCraft.WType.hasNbt : WType → Bool
  | .custom .nbt => true
  | .array _ t => t.hasNbt
  | _ => false

/-- some field is (an array of) NBT — the one type outside the model -/
def _root_.PyCraft.Layout.hasNbt (L : Layout) : Bool := L.any fun f => f.2.hasNbt

/-- all (table, class, layout, versions) with a field layout -/
def fieldLayouts (lays : LayoutTables) : List (String × String × Layout × List Nat) :=
  lays.flatMap fun t => t.2.flatMap fun row => row.2.filterMap fun var =>
    var.1.map fun L => (t.1, row.1, L, var.2)

/-- (table, class, versions) of the layouts with an NBT field -/
def nbtClassesOf (lays : LayoutTables) : List (String × String × List Nat) :=
  (fieldLayouts lays).filterMap fun x =>
    if Layout.hasNbt x.2.2.1 then some (x.1, x.2.1, x.2.2.2) else none

/-- (table, class) with a hand-written codec in some version -/
def handWrittenOf (lays : LayoutTables) : List (String × String) :=
  lays.flatMap fun t => t.2.filterMap fun row =>
    if row.2.any (fun var => var.1.isNone) then some (t.1, row.1) else none

/-- (table, class) with a field layout in some version -/
def fieldClassesOf (lays : LayoutTables) : List (String × String) :=
  lays.flatMap fun t => t.2.filterMap fun row =>
    if row.2.any (fun var => var.1.isSome) then some (t.1, row.1) else none

def sameSet (a b : List (String × String)) : Bool :=
  a.all (fun x => b.contains x) && b.all (fun x => a.contains x)

theorem sameSet_iff (a b : List (String × String)) (h : sameSet a b = true) (x : String × String) :
    x ∈ a ↔ x ∈ b := by
  simp only [sameSet, Bool.and_eq_true, List.all_eq_true, List.contains_iff_mem] at h
  exact ⟨h.1 x, h.2 x⟩

/-- every field layout is admissible, and has an NBT field only if its class is listed -/
def checkLayouts (lays : LayoutTables) (nbtNames : List (String × String)) : Bool :=
  lays.all fun t => t.2.all fun row => row.2.all fun var =>
    match var.1 with
    | none => true
    | some L => Layout.ok L && (!Layout.hasNbt L || nbtNames.contains (t.1, row.1))

theorem checkLayouts_sound (lays : LayoutTables) (nbtNames : List (String × String))
    (h : checkLayouts lays nbtNames = true) :
    ∀ t ∈ lays, ∀ row ∈ t.2, ∀ var ∈ row.2, ∀ L, var.1 = some L →
      Layout.ok L = true ∧ (Layout.hasNbt L = true → (t.1, row.1) ∈ nbtNames) := by
  intro t ht row hrow var hvar L hL
  simp only [checkLayouts, List.all_eq_true] at h
  have := h t ht row hrow var hvar
  simp only [hL, Bool.and_eq_true, Bool.or_eq_true, Bool.not_eq_true', List.contains_iff_mem] at this
  refine ⟨this.1, fun hn => ?_⟩
  rcases this.2 with h' | h'
  · rw [hn] at h'; cases h'
  · exact h'

/-! ### an in-domain sample value of every NBT-free type (non-vacuity of the round-trip theorems) -/

def sampleVal : WType → Value
  | .bool => .bool true
  | .int _ => .int 1
  | .varint => .int 300
  | .varlong => .int 300
  | .string => .str "a"
  | .uuid => .bytes (List.replicate 16 7)
  | .angle => .int 1
  | .fixed _ _ => .int 1
  | .bytesVarint => .bytes [1, 2]
  | .bytesShort => .bytes [1, 2]
  | .trailing => .bytes [1, 2]
  | .array _ t => .list [sampleVal t, sampleVal t]
  | .custom (.record _) => Value.ofInts [1, 2, 3, 4]
  | .custom (.pitch _ _) => .int 1
  | .custom .nbt => .int 0
  | .custom _ => Value.ofInts [1, 2, 3]

theorem sample_wellTyped : ∀ t : WType, t.hasNbt = false → WellTyped realDom t (sampleVal t) := by
  intro t
  induction t with
  | int t => intro _; show IntT.inDom t 1; cases t <;> decide
  | fixed b _ => intro _; show IntT.inDom b 1; cases b <;> decide
  | string => intro _; show (utf8 "a").length < 2 ^ 31; decide +kernel
  | array l t ih =>
    intro h
    have ht : t.hasNbt = false := by simpa [WType.hasNbt] using h
    have := ih ht
    cases l <;> simp [sampleVal, WellTyped, this]
  | custom c =>
    intro h
    cases c with
    | nbt => simp [WType.hasNbt] at h
    | position b => show realDom (.position b) (Value.ofInts [1, 2, 3]); cases b <;> decide
    | record b => show realDom (.record b) (Value.ofInts [1, 2, 3, 4]); cases b <;> decide
    | pitch a b => show realDom (.pitch a b) (.int 1); cases a <;> cases b <;> decide
    | secpos => show realDom .secpos (Value.ofInts [1, 2, 3]); decide
    | explRecord => show realDom .explRecord (Value.ofInts [1, 2, 3]); decide
    | effectPos => show realDom .effectPos (Value.ofInts [1, 2, 3]); decide
  | _ => intro _; simp [sampleVal, WellTyped]

theorem sample_wellTypedFields : ∀ L : Layout, Layout.hasNbt L = false →
    WellTypedFields realDom L (L.map fun f => sampleVal f.2) := by
  intro L
  induction L with
  | nil => intro _; exact True.intro
  | cons f L ih =>
    intro h
    obtain ⟨n, t⟩ := f
    simp only [Layout.hasNbt, List.any_cons, Bool.or_eq_false_iff] at h
    exact ⟨sample_wellTyped t h.1, ih h.2⟩

end PyCraft.LayoutCheck
