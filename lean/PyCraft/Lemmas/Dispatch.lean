import PyCraft.Model.Dispatch
/-!
Specification vocabulary and helper lemmas for C13 (packet-listener dispatch) — and the hierarchy
facts shared with C14.
-/
namespace PyCraft

/-! ## The class hierarchy: `isSub` is exactly reflexive-transitive reachability -/

/-- Reflexive-transitive closure of the `(child, parent)` edges. -/
inductive Reach (hier : Hier) : Nat → Nat → Prop
  | refl (c : Nat) : Reach hier c c
  | step {c p d : Nat} : (c, p) ∈ hier → Reach hier p d → Reach hier c d

theorem isSubFuel_self (hier : Hier) (f c : Nat) : isSubFuel hier f c c = true := by
  cases f <;> simp [isSubFuel]

theorem isSubFuel_sound (hier : Hier) : ∀ f c d, isSubFuel hier f c d = true → Reach hier c d := by
  intro f
  induction f with
  | zero =>
    intro c d h
    simp [isSubFuel] at h
    subst h; exact .refl _
  | succ f ih =>
    intro c d h
    simp only [isSubFuel, Bool.or_eq_true, beq_iff_eq, List.any_eq_true, Bool.and_eq_true] at h
    rcases h with h | ⟨⟨a, b⟩, hm, ha, hb⟩
    · subst h; exact .refl _
    · simp at ha; subst ha
      exact .step hm (ih _ _ hb)

theorem isSubFuel_mono {h h' : Hier} (hs : ∀ e ∈ h, e ∈ h') :
    ∀ f f' c d, f ≤ f' → isSubFuel h f c d = true → isSubFuel h' f' c d = true := by
  intro f
  induction f with
  | zero =>
    intro f' c d _ hh
    simp [isSubFuel] at hh
    subst hh; exact isSubFuel_self _ _ _
  | succ f ih =>
    intro f' c d hle hh
    obtain ⟨g, rfl⟩ : ∃ g, f' = g + 1 := ⟨f' - 1, by omega⟩
    simp only [isSubFuel, Bool.or_eq_true, beq_iff_eq, List.any_eq_true, Bool.and_eq_true] at hh ⊢
    rcases hh with hh | ⟨e, hm, ha, hb⟩
    · exact .inl hh
    · exact .inr ⟨e, hs e hm, ha, ih g _ _ (by omega) hb⟩

/-- A path to `d` either avoids the out-edges of `c` altogether or has a suffix that starts with
an out-edge of `c` and then avoids them. -/
theorem reach_avoid (hier : Hier) (c : Nat) {p d : Nat} (h : Reach hier p d) :
    Reach (hier.filter (fun e => e.1 != c)) p d ∨
      ∃ q, (c, q) ∈ hier ∧ Reach (hier.filter (fun e => e.1 != c)) q d := by
  induction h with
  | refl x => exact .inl (.refl _)
  | @step x y z hm _ ih =>
    rcases ih with ih | ih
    · by_cases hx : x = c
      · subst hx; exact .inr ⟨y, hm, ih⟩
      · exact .inl (.step (by simp [List.mem_filter, hm, hx]) ih)
    · exact .inr ih

theorem reach_nil {c d : Nat} (h : Reach [] c d) : c = d := by
  cases h with
  | refl => rfl
  | step hm _ => simp at hm

theorem isSubFuel_complete : ∀ (n : Nat) (hier : Hier) (c d : Nat), hier.length ≤ n →
    Reach hier c d → isSubFuel hier n c d = true := by
  intro n
  induction n with
  | zero =>
    intro hier c d hl h
    have : hier = [] := List.eq_nil_of_length_eq_zero (by omega)
    subst this
    simp [isSubFuel, reach_nil h]
  | succ n ih =>
    intro hier c d hl h
    by_cases hcd : c = d
    · subst hcd; exact isSubFuel_self _ _ _
    · have hq : ∃ q, (c, q) ∈ hier ∧ Reach (hier.filter (fun e => e.1 != c)) q d := by
        rcases reach_avoid hier c h with h' | h'
        · cases h' with
          | refl => exact absurd rfl hcd
          | step hm _ => simp [List.mem_filter] at hm
        · exact h'
      obtain ⟨q, hm, hr⟩ := hq
      have hlt : (hier.filter (fun e => e.1 != c)).length < hier.length := by
        apply List.length_filter_lt_length_iff_exists.mpr
        exact ⟨(c, q), hm, by simp⟩
      have h1 := ih _ q d (by omega) hr
      have h2 := isSubFuel_mono (h := hier.filter (fun e => e.1 != c)) (h' := hier)
        (fun e he => (List.mem_filter.mp he).1) n n q d (Nat.le_refl _) h1
      simp only [isSubFuel, Bool.or_eq_true, beq_iff_eq, List.any_eq_true, Bool.and_eq_true]
      exact .inr ⟨(c, q), hm, by simp, h2⟩

/-- `isSub` decides reachability in the edge relation — for every edge list, cyclic or not. -/
theorem isSub_iff_reach (hier : Hier) (c d : Nat) : isSub hier c d = true ↔ Reach hier c d :=
  ⟨isSubFuel_sound hier _ c d, isSubFuel_complete _ hier c d (Nat.le_refl _)⟩

theorem isSub_refl (hier : Hier) (c : Nat) : isSub hier c c = true := isSubFuel_self _ _ _

theorem isSub_trans (hier : Hier) {a b c : Nat} (h1 : isSub hier a b = true)
    (h2 : isSub hier b c = true) : isSub hier a c = true := by
  rw [isSub_iff_reach] at *
  induction h1 with
  | refl => exact h2
  | step hm _ ih => exact .step hm (ih h2)

theorem isSub_edge (hier : Hier) {c p : Nat} (h : (c, p) ∈ hier) : isSub hier c p = true :=
  (isSub_iff_reach _ _ _).mpr (.step h (.refl _))

/-! ## Specification vocabulary for dispatch -/

/-- A listener matches a packet class iff one of its registered types is the class or a superclass
of it. -/
def Listener.matches (hier : Hier) (l : Listener) (pktClass : Nat) : Bool :=
  l.types.any (fun t => isSub hier pktClass t)

/-- Keep everything up to AND INCLUDING the first element satisfying `p`. -/
def cutAfterFirst {α : Type} (p : α → Bool) (xs : List α) : List α :=
  xs.takeWhile (fun x => !p x) ++ (xs.find? p).toList

/-- The matching listeners of one stage, in registration order, each with its `ignores` flag. -/
def stage {ε : Type} (hier : Hier) (tag : Nat → ε) (pktClass : Nat) (ls : List Listener) :
    List (ε × Bool) :=
  (ls.filter (fun l => l.matches hier pktClass)).map (fun l => (tag l.id, l.ignores))

/-- Documented call sequence for an incoming packet before truncation. -/
def stagesIn (hier : Hier) (early ordinary : List Listener) (reactionIgnores : Bool)
    (pktClass : Nat) : List (Ev × Bool) :=
  stage hier Ev.early pktClass early ++ [(Ev.reaction, reactionIgnores)] ++
    stage hier Ev.ordinary pktClass ordinary

/-- Specification of `_react`: the documented sequence cut just after the first ignoring call. -/
def specIncoming (hier : Hier) (early ordinary : List Listener) (reactionIgnores : Bool)
    (pktClass : Nat) : List Ev × Bool :=
  let s := stagesIn hier early ordinary reactionIgnores pktClass
  ((cutAfterFirst (fun x => x.2) s).map (fun x => x.1), s.any (fun x => x.2))

/-- Documented call sequence for an outgoing packet before truncation (the write never ignores). -/
def stagesOut (hier : Hier) (earlyOut ordOut : List Listener) (pktClass : Nat) :
    List (OutEv × Bool) :=
  stage hier OutEv.earlyOut pktClass earlyOut ++ [(OutEv.written, false)] ++
    stage hier OutEv.ordOut pktClass ordOut

def specOutgoing (hier : Hier) (earlyOut ordOut : List Listener) (pktClass : Nat) : List OutEv :=
  (cutAfterFirst (fun x => x.2) (stagesOut hier earlyOut ordOut pktClass)).map (fun x => x.1)

/-- Which of the four lists a registration goes to. -/
inductive Slot
  | ordinary | early | outgoing | earlyOutgoing
deriving Repr, DecidableEq

/-- Documented table `(early, outgoing) ↦ list`. -/
def slotOf : Bool → Bool → Slot
  | false, false => .ordinary
  | true, false => .early
  | false, true => .outgoing
  | true, true => .earlyOutgoing

def Cfg.get (cfg : Cfg) : Slot → List Listener
  | .ordinary => cfg.packetListeners
  | .early => cfg.earlyPacketListeners
  | .outgoing => cfg.outgoingPacketListeners
  | .earlyOutgoing => cfg.earlyOutgoingPacketListeners

/-! ## `call_packet` and the listener loop -/

theorem callPacketLoop_eq (hier : Hier) (ign : Bool) (c : Nat) (ts : List Nat) :
    callPacketLoop hier ign c ts =
      if ts.any (fun t => isSub hier c t) then (true, ign) else (false, false) := by
  induction ts with
  | nil => simp [callPacketLoop]
  | cons t ts ih =>
    simp only [callPacketLoop, List.any_cons]
    by_cases h : isSub hier c t = true
    · simp [h]
    · simp [h, ih]

theorem callPacket_eq (hier : Hier) (l : Listener) (c : Nat) :
    callPacket hier l c = if l.matches hier c then (true, l.ignores) else (false, false) := by
  simp [callPacket, callPacketLoop_eq, Listener.matches]

theorem cutAfterFirst_nil {α : Type} (p : α → Bool) : cutAfterFirst p [] = [] := by
  simp [cutAfterFirst]

theorem cutAfterFirst_cons {α : Type} (p : α → Bool) (x : α) (xs : List α) :
    cutAfterFirst p (x :: xs) = if p x then [x] else x :: cutAfterFirst p xs := by
  by_cases h : p x = true <;> simp [cutAfterFirst, List.takeWhile, List.find?, h]

theorem cutAfterFirst_append {α : Type} (p : α → Bool) (a b : List α) :
    cutAfterFirst p (a ++ b) =
      if a.any p then cutAfterFirst p a else a ++ cutAfterFirst p b := by
  induction a with
  | nil => simp
  | cons x a ih =>
    simp only [List.cons_append, cutAfterFirst_cons, List.any_cons]
    by_cases h : p x = true
    · simp [h]
    · simp only [h, Bool.false_eq_true, ↓reduceIte, ih, Bool.false_or]
      split <;> rfl

theorem cutAfterFirst_of_not_any {α : Type} (p : α → Bool) (a : List α) (h : a.any p = false) :
    cutAfterFirst p a = a := by
  induction a with
  | nil => exact cutAfterFirst_nil _
  | cons x a ih =>
    simp only [List.any_cons, Bool.or_eq_false_iff] at h
    simp [cutAfterFirst_cons, h.1, ih h.2]

/-- The listener loop computes: matching listeners in order, cut after the first ignoring one. -/
theorem runListeners_eq {ε : Type} (hier : Hier) (tag : Nat → ε) (c : Nat) (ls : List Listener) :
    runListeners hier tag c ls =
      ((cutAfterFirst (fun x => x.2) (stage hier tag c ls)).map (fun x => x.1),
        (stage hier tag c ls).any (fun x => x.2)) := by
  induction ls with
  | nil => simp [runListeners, stage, cutAfterFirst_nil]
  | cons l ls ih =>
    simp only [runListeners, callPacket_eq]
    by_cases hm : l.matches hier c = true
    · by_cases hi : l.ignores = true
      · simp [hm, hi, stage, cutAfterFirst_cons]
      · simp only [Bool.not_eq_true] at hi
        simp only [hm, hi, ↓reduceIte, ih]
        simp [stage, hm, hi, cutAfterFirst_cons]
    · simp only [Bool.not_eq_true] at hm
      simp only [hm, Bool.false_eq_true, ↓reduceIte, ih]
      simp [stage, hm]

theorem stage_any {ε : Type} (hier : Hier) (tag : Nat → ε) (c : Nat) (ls : List Listener) :
    (stage hier tag c ls).any (fun x => x.2) = true ↔
      ∃ l ∈ ls, l.matches hier c = true ∧ l.ignores = true := by
  simp [stage, List.any_eq_true]

/-! ## Membership and uniqueness in the log of one listener loop -/

theorem runListeners_ignored {ε : Type} (hier : Hier) (tag : Nat → ε) (c : Nat)
    (ls : List Listener) :
    (runListeners hier tag c ls).2 = true ↔
      ∃ l ∈ ls, l.matches hier c = true ∧ l.ignores = true := by
  rw [runListeners_eq]; exact stage_any hier tag c ls

theorem runListeners_not_ignored {ε : Type} (hier : Hier) (tag : Nat → ε) (c : Nat)
    (ls : List Listener) :
    (runListeners hier tag c ls).2 = false ↔
      ∀ l ∈ ls, l.matches hier c = true → l.ignores = false := by
  rw [← Bool.not_eq_true, runListeners_ignored]
  simp

/-- Every log entry is the tag of a matching listener of the list. -/
theorem runListeners_log_mem {ε : Type} (hier : Hier) (tag : Nat → ε) (c : Nat)
    (ls : List Listener) (x : ε) (h : x ∈ (runListeners hier tag c ls).1) :
    ∃ l ∈ ls, l.matches hier c = true ∧ x = tag l.id := by
  induction ls with
  | nil => simp [runListeners] at h
  | cons l ls ih =>
    simp only [runListeners, callPacket_eq] at h
    by_cases hm : l.matches hier c = true
    · by_cases hi : l.ignores = true
      · simp only [hm, hi, ↓reduceIte, List.mem_singleton] at h
        exact ⟨l, by simp, hm, h⟩
      · simp only [Bool.not_eq_true] at hi
        simp only [hm, hi, ↓reduceIte, List.mem_cons] at h
        rcases h with h | h
        · exact ⟨l, by simp, hm, h⟩
        · obtain ⟨l', h1, h2⟩ := ih h
          exact ⟨l', by simp [h1], h2⟩
    · simp only [Bool.not_eq_true] at hm
      simp only [hm, Bool.false_eq_true, ↓reduceIte] at h
      obtain ⟨l', h1, h2⟩ := ih h
      exact ⟨l', by simp [h1], h2⟩

/-- With distinct listener ids (and an injective tag) no entry repeats. -/
theorem runListeners_nodup {ε : Type} (hier : Hier) (tag : Nat → ε)
    (hinj : ∀ a b, tag a = tag b → a = b) (c : Nat) (ls : List Listener)
    (hd : (ls.map (·.id)).Nodup) : (runListeners hier tag c ls).1.Nodup := by
  induction ls with
  | nil => simp [runListeners]
  | cons l ls ih =>
    simp only [List.map_cons, List.nodup_cons, List.mem_map, not_exists, not_and] at hd
    have hnot : tag l.id ∉ (runListeners hier tag c ls).1 := by
      intro hmem
      obtain ⟨l', h1, _, h3⟩ := runListeners_log_mem hier tag c ls _ hmem
      exact hd.1 l' h1 (hinj _ _ h3).symm
    simp only [runListeners, callPacket_eq]
    by_cases hm : l.matches hier c = true
    · by_cases hi : l.ignores = true
      · simp [hm, hi]
      · simp only [Bool.not_eq_true] at hi
        simp only [hm, hi, ↓reduceIte, List.nodup_cons]
        exact ⟨hnot, ih hd.2⟩
    · simp only [Bool.not_eq_true] at hm
      simp only [hm, Bool.false_eq_true, ↓reduceIte]
      exact ih hd.2

/-- The listener at a given position is called iff it matches and no earlier matching listener of
the same loop ignored. -/
theorem mem_runListeners {ε : Type} (hier : Hier) (tag : Nat → ε)
    (hinj : ∀ a b, tag a = tag b → a = b) (c : Nat) (l : Listener) (post : List Listener) :
    ∀ (pre : List Listener), ((pre ++ l :: post).map (·.id)).Nodup →
      (tag l.id ∈ (runListeners hier tag c (pre ++ l :: post)).1 ↔
        l.matches hier c = true ∧ ∀ l' ∈ pre, l'.matches hier c = true → l'.ignores = false) := by
  intro pre
  induction pre with
  | nil =>
    intro hd
    simp only [List.nil_append, List.map_cons, List.nodup_cons, List.mem_map, not_exists,
      not_and] at hd
    have hnot : tag l.id ∉ (runListeners hier tag c post).1 := by
      intro hmem
      obtain ⟨l', h1, _, h3⟩ := runListeners_log_mem hier tag c post _ hmem
      exact hd.1 l' h1 (hinj _ _ h3).symm
    simp only [List.nil_append, runListeners, callPacket_eq]
    by_cases hm : l.matches hier c = true
    · by_cases hi : l.ignores = true
      · simp [hm, hi]
      · simp only [Bool.not_eq_true] at hi
        simp [hm, hi]
    · simp only [Bool.not_eq_true] at hm
      simp [hm, hnot]
  | cons a pre ih =>
    intro hd
    simp only [List.cons_append, List.map_cons, List.nodup_cons, List.mem_map, not_exists,
      not_and] at hd
    have hne : tag l.id ≠ tag a.id := by
      intro h
      exact hd.1 l (by simp) (hinj _ _ h)
    have ih' := ih hd.2
    simp only [List.cons_append, runListeners, callPacket_eq]
    by_cases hm : a.matches hier c = true
    · by_cases hi : a.ignores = true
      · simp only [hm, hi, ↓reduceIte, List.mem_singleton, hne, false_iff, not_and]
        intro _ hall
        have := hall a (by simp) hm
        simp [hi] at this
      · simp only [Bool.not_eq_true] at hi
        simp only [hm, hi, ↓reduceIte, List.mem_cons, hne, false_or, ih']
        simp [hm, hi]
    · simp only [Bool.not_eq_true] at hm
      simp only [hm, Bool.false_eq_true, ↓reduceIte, ih']
      simp [hm]

/-- Unconditional count bound for an entry that no listener can produce. -/
theorem not_mem_runListeners_of_tag {ε : Type} (hier : Hier) (tag : Nat → ε) (c : Nat)
    (ls : List Listener) (x : ε) (hx : ∀ i, x ≠ tag i) : x ∉ (runListeners hier tag c ls).1 := by
  intro h
  obtain ⟨l, _, _, h3⟩ := runListeners_log_mem hier tag c ls x h
  exact hx _ h3

/-! ## The three-stage logs -/

theorem reactIncoming_log (hier : Hier) (early ordinary : List Listener) (rIgn : Bool) (c : Nat) :
    (reactIncoming hier early ordinary rIgn c).1 =
      (runListeners hier Ev.early c early).1 ++
        (if (runListeners hier Ev.early c early).2 then []
         else Ev.reaction ::
           (if rIgn then [] else (runListeners hier Ev.ordinary c ordinary).1)) := by
  unfold reactIncoming
  generalize runListeners hier Ev.early c early = r1
  obtain ⟨l1, b1⟩ := r1
  cases b1 <;> cases rIgn <;> simp

theorem reactIncoming_ignored (hier : Hier) (early ordinary : List Listener) (rIgn : Bool)
    (c : Nat) :
    (reactIncoming hier early ordinary rIgn c).2 =
      ((runListeners hier Ev.early c early).2 || rIgn ||
        (runListeners hier Ev.ordinary c ordinary).2) := by
  unfold reactIncoming
  generalize runListeners hier Ev.early c early = r1
  obtain ⟨l1, b1⟩ := r1
  cases b1 <;> cases rIgn <;> simp

theorem mem_reactIncoming_early (hier : Hier) (early ordinary : List Listener) (rIgn : Bool)
    (c i : Nat) :
    Ev.early i ∈ (reactIncoming hier early ordinary rIgn c).1 ↔
      Ev.early i ∈ (runListeners hier Ev.early c early).1 := by
  have h := not_mem_runListeners_of_tag hier Ev.ordinary c ordinary (Ev.early i) (by simp)
  rw [reactIncoming_log]
  generalize runListeners hier Ev.early c early = r1 at *
  obtain ⟨l1, b1⟩ := r1
  cases b1 <;> cases rIgn <;> simp [h]

theorem mem_reactIncoming_reaction (hier : Hier) (early ordinary : List Listener) (rIgn : Bool)
    (c : Nat) :
    Ev.reaction ∈ (reactIncoming hier early ordinary rIgn c).1 ↔
      (runListeners hier Ev.early c early).2 = false := by
  have h := not_mem_runListeners_of_tag hier Ev.early c early Ev.reaction (by simp)
  rw [reactIncoming_log]
  generalize runListeners hier Ev.early c early = r1 at *
  obtain ⟨l1, b1⟩ := r1
  cases b1 <;> cases rIgn <;> simp_all

theorem mem_reactIncoming_ordinary (hier : Hier) (early ordinary : List Listener) (rIgn : Bool)
    (c i : Nat) :
    Ev.ordinary i ∈ (reactIncoming hier early ordinary rIgn c).1 ↔
      (runListeners hier Ev.early c early).2 = false ∧ rIgn = false ∧
        Ev.ordinary i ∈ (runListeners hier Ev.ordinary c ordinary).1 := by
  have h := not_mem_runListeners_of_tag hier Ev.early c early (Ev.ordinary i) (by simp)
  rw [reactIncoming_log]
  generalize runListeners hier Ev.early c early = r1 at *
  obtain ⟨l1, b1⟩ := r1
  cases b1 <;> cases rIgn <;> simp_all

theorem reactIncoming_nodup (hier : Hier) (early ordinary : List Listener) (rIgn : Bool) (c : Nat)
    (hE : (early.map (·.id)).Nodup) (hO : (ordinary.map (·.id)).Nodup) :
    (reactIncoming hier early ordinary rIgn c).1.Nodup := by
  have h1 := runListeners_nodup hier Ev.early (by intro a b h; cases h; rfl) c early hE
  have h2 := runListeners_nodup hier Ev.ordinary (by intro a b h; cases h; rfl) c ordinary hO
  have h3 := not_mem_runListeners_of_tag hier Ev.early c early Ev.reaction (by simp)
  have h4 := not_mem_runListeners_of_tag hier Ev.ordinary c ordinary Ev.reaction (by simp)
  have h5 : ∀ a ∈ (runListeners hier Ev.early c early).1,
      ∀ b ∈ (runListeners hier Ev.ordinary c ordinary).1, a ≠ b := by
    intro a ha b hb hab
    obtain ⟨_, _, _, e1⟩ := runListeners_log_mem hier Ev.early c early a ha
    obtain ⟨_, _, _, e2⟩ := runListeners_log_mem hier Ev.ordinary c ordinary b hb
    rw [e1, e2] at hab; cases hab
  rw [reactIncoming_log]
  generalize runListeners hier Ev.early c early = r1 at *
  obtain ⟨l1, b1⟩ := r1
  cases b1 <;> cases rIgn <;>
    simp only [Bool.false_eq_true, ↓reduceIte, List.append_nil, List.nodup_append,
      List.nodup_cons, List.mem_cons, ne_eq, List.not_mem_nil, not_false_eq_true, true_and,
      List.nodup_nil, and_true, h1, h2, h4]
  · intro a ha b hb
    rcases hb with hb | hb
    · subst hb; intro e; subst e; exact h3 ha
    · exact h5 a ha b hb
  · intro a ha b hb e
    rcases hb with hb | hb
    · subst hb; subst e; exact h3 ha
    · exact hb

theorem count_eq_one_iff_mem {α : Type} [DecidableEq α] {l : List α} (hn : l.Nodup) (a : α) :
    l.count a = 1 ↔ a ∈ l := by
  have h1 := List.nodup_iff_count.mp hn a
  have h2 := List.count_pos_iff (a := a) (l := l)
  constructor
  · intro h; exact h2.mp (by omega)
  · intro h; have := h2.mpr h; omega

theorem writeOutgoing_log (hier : Hier) (earlyOut ordOut : List Listener) (c : Nat) :
    writeOutgoing hier earlyOut ordOut c =
      (runListeners hier OutEv.earlyOut c earlyOut).1 ++
        (if (runListeners hier OutEv.earlyOut c earlyOut).2 then []
         else OutEv.written :: (runListeners hier OutEv.ordOut c ordOut).1) := by
  unfold writeOutgoing
  generalize runListeners hier OutEv.earlyOut c earlyOut = r1
  obtain ⟨l1, b1⟩ := r1
  cases b1 <;> simp

/-! ## Registration -/

theorem register_get (cfg : Cfg) (l : Listener) (early outgoing : Bool) (s : Slot) :
    (register cfg l early outgoing).get s =
      if s = slotOf early outgoing then cfg.get s ++ [l] else cfg.get s := by
  cases early <;> cases outgoing <;> cases s <;> simp [register, slotOf, Cfg.get]

theorem registerAll_get (rs : List Reg) : ∀ (cfg : Cfg) (s : Slot),
    (registerAll cfg rs).get s =
      cfg.get s ++ (rs.filter (fun r => slotOf r.early r.outgoing == s)).map (·.l) := by
  induction rs with
  | nil => intro cfg s; simp [registerAll]
  | cons r rs ih =>
    intro cfg s
    have := ih (register cfg r.l r.early r.outgoing) s
    simp only [registerAll, List.foldl_cons] at this ⊢
    rw [this, register_get]
    by_cases h : s = slotOf r.early r.outgoing
    · subst h; simp
    · have h' : (slotOf r.early r.outgoing == s) = false := by
        simp only [beq_eq_false_iff_ne, ne_eq]; exact fun e => h e.symm
      simp [h, h']

theorem cfg_ext (a b : Cfg) (h : ∀ s, a.get s = b.get s) : a = b := by
  cases a; cases b
  have h1 := h .ordinary; have h2 := h .early; have h3 := h .outgoing; have h4 := h .earlyOutgoing
  simp only [Cfg.get] at h1 h2 h3 h4
  simp [h1, h2, h3, h4]

/-! ## Histories -/

theorem runHistory_eq_map (hier : Hier) (early ordinary : List Listener) (rI : Nat → Bool)
    (hist : List Nat) :
    runHistory hier early ordinary rI hist =
      hist.map (fun c => reactIncoming hier early ordinary (rI c) c) := by
  induction hist with
  | nil => rfl
  | cons c cs ih => simp [runHistory, ih]

theorem runOutHistory_eq_map (hier : Hier) (earlyOut ordOut : List Listener) (hist : List Nat) :
    runOutHistory hier earlyOut ordOut hist = hist.map (writeOutgoing hier earlyOut ordOut) := by
  induction hist with
  | nil => rfl
  | cons c cs ih => simp [runOutHistory, ih]

end PyCraft
