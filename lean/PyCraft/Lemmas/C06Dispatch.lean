import PyCraft.Model.C06Dispatch
import PyCraft.Lemmas.Ids
/-! Generic lemmas behind `Props/C06Dispatch.lean`: the dict comprehension without any global
`Nodup`, `resolveRow`, and what the per-row check `rowOk` and the dict check `dictOk` give. -/
namespace PyCraft

/-! ### the comprehension `buildDict` under no hypothesis at all -/

theorem dictGet_buildDict_some {perm : List (String × Int)} {i : Int} {c : String}
    (h : dictGet (buildDict perm) i = some c) : (c, i) ∈ perm := by
  rw [dictGet_buildDict] at h
  cases hf : perm.reverse.find? (fun e => e.2 == i) with
  | none => simp [hf] at h
  | some e =>
    simp only [hf, Option.map_some, Option.some.injEq] at h
    have hm := List.mem_of_find?_eq_some hf
    have hi : e.2 = i := by simpa using List.find?_some hf
    have : e = (c, i) := by cases e; simp_all
    rw [← this]; exact List.mem_reverse.mp hm

theorem dictGet_buildDict_isSome (perm : List (String × Int)) (i : Int) :
    (dictGet (buildDict perm) i).isSome = true ↔ ∃ c, (c, i) ∈ perm := by
  rw [dictGet_buildDict, Option.isSome_map, List.find?_isSome]
  constructor
  · rintro ⟨e, he, hi⟩
    refine ⟨e.1, ?_⟩
    have : e.2 = i := by simpa using hi
    rw [← this]; exact List.mem_reverse.mp he
  · rintro ⟨c, hc⟩
    exact ⟨(c, i), List.mem_reverse.mpr hc, by simp⟩

theorem eq_of_mem_of_length_le_one {α : Type} {l : List α} (h : l.length ≤ 1) {a b : α}
    (ha : a ∈ l) (hb : b ∈ l) : a = b := by
  match l, h with
  | [], _ => simp at ha
  | [x], _ => simp at ha hb; rw [ha, hb]
  | _ :: _ :: _, h => simp at h

theorem eq_of_nodup_map {α β : Type} (f : α → β) : ∀ {l : List α}, (l.map f).Nodup →
    ∀ {a b : α}, a ∈ l → b ∈ l → f a = f b → a = b
  | [], _, _, _, ha, _, _ => by simp at ha
  | x :: xs, hn, a, b, ha, hb, hf => by
    simp only [List.map_cons, List.nodup_cons, List.mem_map, not_exists, not_and] at hn
    rcases List.mem_cons.mp ha with hax | ha' <;> rcases List.mem_cons.mp hb with hbx | hb'
    · rw [hax, hbx]
    · exact absurd (by rw [← hf, hax]) (hn.1 b hb')
    · exact absurd (by rw [hf, hbx]) (hn.1 a ha')
    · exact eq_of_nodup_map f hn.2 ha' hb' hf

theorem mem_classesAt {ents : List (String × Int)} {i : Int} {c : String} :
    c ∈ classesAt ents i ↔ (c, i) ∈ ents := by
  simp only [classesAt, List.mem_map, List.mem_filter]
  constructor
  · rintro ⟨e, ⟨he, hi⟩, rfl⟩
    have : e.2 = i := by simpa using hi
    rw [← this]; exact he
  · intro h; exact ⟨(c, i), ⟨h, by simp⟩, rfl⟩

/-- any class carrying id `i` can be made the winner by iterating it last -/
theorem exists_perm_dictGet {ents : List (String × Int)} {i : Int} {c : String}
    (h : (c, i) ∈ ents) : ∃ perm, perm.Perm ents ∧ dictGet (buildDict perm) i = some c := by
  refine ⟨ents.erase (c, i) ++ [(c, i)], ?_, ?_⟩
  · exact (List.perm_append_singleton _ _).trans (List.perm_cons_erase h).symm
  · rw [dictGet_buildDict]; simp

/-! ### a dict accepted by `dictOk` is an instance of the comprehension -/

theorem dictOk_sound {d : List (Int × String)} {ents : List (String × Int)}
    (h : dictOk d ents = true) {i : Int} {c : String} (hg : dictGet d i = some c) :
    (c, i) ∈ ents := by
  simp only [dictOk, Bool.and_eq_true, List.all_eq_true] at h
  unfold dictGet at hg
  cases hf : d.find? (fun x => x.1 == i) with
  | none => simp [hf] at hg
  | some kv =>
    simp only [hf, Option.map_some, Option.some.injEq] at hg
    have hm := List.mem_of_find?_eq_some hf
    have hi : kv.1 = i := by simpa using List.find?_some hf
    obtain ⟨e, he, hp⟩ := List.any_eq_true.mp (h.1 kv hm)
    simp only [Bool.and_eq_true, beq_iff_eq] at hp
    have : e = (c, i) := by cases e; simp_all
    rw [← this]; exact he

theorem dictOk_complete {d : List (Int × String)} {ents : List (String × Int)}
    (h : dictOk d ents = true) {i : Int} {c : String} (hm : (c, i) ∈ ents) :
    (dictGet d i).isSome = true := by
  simp only [dictOk, Bool.and_eq_true, List.all_eq_true] at h
  have := h.2 (c, i) hm
  unfold dictGet
  rw [Option.isSome_map, List.find?_isSome]
  simpa using this

/-- every dict over exactly the ids of `ents` that maps each key to a class carrying it is the
comprehension's result for SOME iteration order -/
theorem dictOk_realised {d : List (Int × String)} {ents : List (String × Int)}
    (h : dictOk d ents = true) :
    ∃ perm, perm.Perm ents ∧ ∀ i, dictGet (buildDict perm) i = dictGet d i := by
  let chosen : String × Int → Bool := fun e => dictGet d e.2 == some e.1
  refine ⟨ents.filter (fun e => !chosen e) ++ ents.filter chosen, ?_, ?_⟩
  · exact List.perm_append_comm.trans (List.filter_append_perm chosen ents)
  · intro i
    rw [dictGet_buildDict, List.reverse_append, List.find?_append]
    cases hd : dictGet d i with
    | none =>
      have hno : ∀ e ∈ ents, (e.2 == i) = false := by
        intro e he
        cases hei : (e.2 == i) with
        | false => rfl
        | true =>
          have : e.2 = i := by simpa using hei
          have hs := dictOk_complete h (i := i) (c := e.1) (by rw [← this]; exact he)
          simp [hd] at hs
      have h1 : (ents.filter chosen).reverse.find? (fun e => e.2 == i) = none := by
        rw [List.find?_eq_none]
        intro e he
        have := hno e (List.mem_filter.mp (List.mem_reverse.mp he)).1
        simp [this]
      have h2 : (ents.filter (fun e => !chosen e)).reverse.find? (fun e => e.2 == i) = none := by
        rw [List.find?_eq_none]
        intro e he
        have := hno e (List.mem_filter.mp (List.mem_reverse.mp he)).1
        simp [this]
      simp [h1, h2]
    | some c =>
      have hmem : (c, i) ∈ ents := dictOk_sound h hd
      have hch : chosen (c, i) = true := by simp [chosen, hd]
      have hin : (c, i) ∈ (ents.filter chosen).reverse :=
        List.mem_reverse.mpr (List.mem_filter.mpr ⟨hmem, hch⟩)
      cases hf : (ents.filter chosen).reverse.find? (fun e => e.2 == i) with
      | none =>
        have := List.find?_eq_none.mp hf (c, i) hin
        simp at this
      | some e =>
        have he := List.mem_of_find?_eq_some hf
        have hi : e.2 = i := by simpa using List.find?_some hf
        have hce : chosen e = true := (List.mem_filter.mp (List.mem_reverse.mp he)).2
        have : dictGet d e.2 = some e.1 := by simpa [chosen] using hce
        rw [hi, hd] at this
        simp only [Option.some.injEq] at this
        simp [this]

/-! ### `resolveRow` -/

theorem resolveRow_eq_some : ∀ {row : List IdEnt} {ents : List (String × Int)},
    resolveRow row = some ents → row = ents.map fun e => (e.1, some e.2)
  | [], ents, h => by simp [resolveRow] at h; subst h; rfl
  | (c, some i) :: rest, ents, h => by
    simp only [resolveRow, Option.map_eq_some_iff] at h
    obtain ⟨l, hl, rfl⟩ := h
    rw [List.map_cons, ← resolveRow_eq_some hl]
  | (_, none) :: _, _, h => by simp [resolveRow] at h

theorem mem_of_resolveRow {row : List IdEnt} {ents : List (String × Int)}
    (h : resolveRow row = some ents) (c : String) (i : Int) :
    (c, i) ∈ ents ↔ (c, some i) ∈ row := by
  rw [resolveRow_eq_some h, List.mem_map]
  constructor
  · intro hm; exact ⟨(c, i), hm, rfl⟩
  · rintro ⟨e, he, heq⟩
    have : e = (c, i) := by cases e; simp_all
    rw [← this]; exact he

theorem classesAtRow_map (ents : List (String × Int)) (i : Int) :
    classesAtRow (ents.map fun e => (e.1, some e.2)) i = classesAt ents i := by
  unfold classesAtRow classesAt
  induction ents with
  | nil => rfl
  | cons e rest ih =>
    simp only [List.map_cons, List.filter_cons]
    by_cases hi : e.2 = i
    · simp [hi, ih]
    · have : (some e.2 == some i) = false := by simpa using hi
      have h2 : (e.2 == i) = false := by simpa using hi
      simp [this, h2, ih]

theorem classesAtRow_of_resolveRow {row : List IdEnt} {ents : List (String × Int)}
    (h : resolveRow row = some ents) (i : Int) : classesAtRow row i = classesAt ents i := by
  rw [resolveRow_eq_some h]; exact classesAtRow_map ents i

theorem resolveRow_isSome_of_all : ∀ (row : List IdEnt),
    (row.all fun e => e.2.isSome) = true → ∃ ents, resolveRow row = some ents
  | [], _ => ⟨[], rfl⟩
  | (c, some i) :: rest, h => by
    simp only [List.all_cons, Bool.and_eq_true] at h
    obtain ⟨l, hl⟩ := resolveRow_isSome_of_all rest h.2
    exact ⟨(c, i) :: l, by simp [resolveRow, hl]⟩
  | (_, none) :: _, h => by simp at h

/-! ### what `rowOk` gives -/

theorem rowOk_resolves {t : String} {v : Nat} {row : List IdEnt} (h : rowOk t v row = true) :
    ∃ ents, resolveRow row = some ents := by
  apply resolveRow_isSome_of_all
  simp only [rowOk, List.all_eq_true] at h ⊢
  intro e he
  have := h e he
  cases h2 : e.2 with
  | none => simp [h2] at this
  | some i => rfl

theorem rowOk_nonneg {t : String} {v : Nat} {row : List IdEnt} (h : rowOk t v row = true)
    {c : String} {i : Int} (hm : (c, some i) ∈ row) : 0 ≤ i := by
  simp only [rowOk, List.all_eq_true] at h
  have := h _ hm
  simp only [Bool.and_eq_true, decide_eq_true_eq] at this
  exact this.1

theorem rowOk_collisions {t : String} {v : Nat} {row : List IdEnt} (h : rowOk t v row = true)
    (i : Int) :
    (classesAtRow row i).length ≤ 1 ∨ (t, v, i, classesAtRow row i) ∈ knownCollisionSets := by
  cases hc : classesAtRow row i with
  | nil => left; simp
  | cons c cs =>
    rw [← hc]
    have hm : c ∈ classesAtRow row i := by rw [hc]; simp
    simp only [classesAtRow, List.mem_map, List.mem_filter] at hm
    obtain ⟨e, ⟨he, hei⟩, _⟩ := hm
    have hei' : e.2 = some i := by simpa using hei
    simp only [rowOk, List.all_eq_true] at h
    have := h e he
    rw [hei'] at this
    simp only [Bool.and_eq_true, Bool.or_eq_true, decide_eq_true_eq, List.contains_iff_mem] at this
    exact this.2

/-! ### `zipAll` -/

theorem zipAll_left {α β : Type} {p : α → β → Bool} : ∀ {l₁ : List α} {l₂ : List β},
    zipAll p l₁ l₂ = true → ∀ a ∈ l₁, ∃ b ∈ l₂, p a b = true
  | [], [], _, a, ha => by simp at ha
  | x :: xs, y :: ys, h, a, ha => by
    simp only [zipAll, Bool.and_eq_true] at h
    rcases List.mem_cons.mp ha with rfl | ha
    · exact ⟨y, by simp, h.1⟩
    · obtain ⟨b, hb, hp⟩ := zipAll_left h.2 a ha
      exact ⟨b, List.mem_cons_of_mem _ hb, hp⟩
  | [], _ :: _, h, _, _ => by simp [zipAll] at h
  | _ :: _, [], h, _, _ => by simp [zipAll] at h

theorem zipAll_right {α β : Type} {p : α → β → Bool} : ∀ {l₁ : List α} {l₂ : List β},
    zipAll p l₁ l₂ = true → ∀ b ∈ l₂, ∃ a ∈ l₁, p a b = true
  | [], [], _, b, hb => by simp at hb
  | x :: xs, y :: ys, h, b, hb => by
    simp only [zipAll, Bool.and_eq_true] at h
    rcases List.mem_cons.mp hb with rfl | hb
    · exact ⟨x, by simp, h.1⟩
    · obtain ⟨a, ha, hp⟩ := zipAll_right h.2 b hb
      exact ⟨a, List.mem_cons_of_mem _ ha, hp⟩
  | [], _ :: _, h, _, _ => by simp [zipAll] at h
  | _ :: _, [], h, _, _ => by simp [zipAll] at h

/-! ### two-level lookup -/

theorem lookup2_mem {α : Type} {tabs : List (String × List (Nat × α))} {n : String} {v : Nat}
    {a : α} (h : lookup2 tabs n v = some a) : ∃ t ∈ tabs, t.1 = n ∧ (v, a) ∈ t.2 := by
  unfold lookup2 at h
  cases hf : tabs.find? (fun t => t.1 == n) with
  | none => simp [hf] at h
  | some t =>
    simp only [hf, Option.map_eq_some_iff] at h
    obtain ⟨r, hr, rfl⟩ := h
    have hv : r.1 = v := by simpa using List.find?_some hr
    refine ⟨t, List.mem_of_find?_eq_some hf, by simpa using List.find?_some hf, ?_⟩
    rw [← hv]; exact List.mem_of_find?_eq_some hr

end PyCraft
