import PyCraft.Lemmas.LifecycleFairVar
/-!
Liveness over `Model/Lifecycle.lean`: on a weakly fair schedule an interrupted networking thread
reaches `dead` (`eventually_dead`) and stays there (`dead_stays`).

Why the lock cannot be withheld for ever from an interrupted thread `j` that needs it
(`other_net_step`): `j` then occupies a slot, so every other live networking thread is either the
successor waiting for `j`'s death (it does not move) or a thread past its epilogue (two more
actions); user programs are finite; while `j` holds the slot at most one more thread object can be
created, and it waits for `j`.  So every step of every other thread decreases `vari`
(`progress_lock`, by `fair_variant`).
-/
namespace PyCraft.Life
set_option linter.unusedSimpArgs false

/-- The actions that begin a `with self._write_lock:` block. -/
def NPc.needsLock : NPc → Bool
  | .takeOver | .wBody | .call _ | .hChk | .epilogue => true
  | .unborn | .waitPrev | .tkRel | .loopChk | .wRel | .wFailRel | .rChk | .rRead | .callRel _ _
  | .exit | .exc | .hRun | .hRel | .epRel | .fin | .dead => false

/-- The only reasons for a networking thread not to be enabled (refinement of `step_none_cases`:
the lock matters only at the beginning of a locked block). -/
theorem step_none_lock (env : List Beh) (s : Sys) (i : Nat) (h : step env s (.net i) = none) :
    (s.net i).pc = .unborn ∨ (s.net i).pc = .dead ∨
    ((s.net i).pc = .waitPrev ∧ ∃ p, (s.net i).prev = some p ∧ (s.net p).pc ≠ .dead) ∨
    ((s.net i).pc.needsLock = true ∧ canAcq s (.net i) = false) := by
  unfold step at h
  simp only [stepNet] at h
  repeat' split at h
  all_goals simp_all [NPc.needsLock]

theorem pc_class (pc : NPc) : pc.holds = true ∨ pc.waiting = true ∨ pc = .epRel ∨ pc = .fin ∨
    pc = .unborn ∨ pc = .dead := by
  cases pc <;> simp [NPc.holds, NPc.waiting]

theorem needsLock_class (pc : NPc) (h : pc.needsLock = true) :
    pc.holds = true ∨ pc = .takeOver := by
  cases pc <;> simp_all [NPc.needsLock, NPc.holds]

theorem rank_le_21 (pc : NPc) (h1 : pc ≠ .unborn) (h2 : pc ≠ .waitPrev) : pc.rank ≤ 21 := by
  cases pc
  case call site => cases site <;> simp [NPc.rank, Site.rank]
  case callRel site out => cases site <;> simp [NPc.rank, Site.rank]
  all_goals simp_all [NPc.rank]

theorem rank_unborn : NPc.unborn.rank = 23 := rfl
theorem rank_waitPrev : NPc.waitPrev.rank = 22 := rfl

/-- While thread `j` is about to acquire the lock, the only OTHER networking threads that can move
are past their epilogue (`epRel`, `fin`). -/
theorem other_net_pc (env : List Beh) (s s' : Sys) (j k : Nat) (h : LInv s)
    (hj : (s.net j).pc.needsLock = true) (hk : k ≠ j) (hs : step env s (.net k) = some s') :
    (s.net k).pc = .epRel ∨ (s.net k).pc = .fin := by
  have hjn : s.nt = some j ∨ (s.nt = none ∧ s.newNt = some j) := by
    rcases needsLock_class _ hj with hh | ht
    · exact Or.inl ((h.nt_iff j).mpr hh)
    · right
      have hw : (s.net j).pc.waiting = true := by rw [ht]; rfl
      obtain ⟨p, hp1, -, -, -, hp5⟩ := h.prev_ok j hw
      have hd := h.tk_dead j p ht hp1
      refine ⟨?_, (h.new_iff j).mpr hw⟩
      rcases hp5 with hp5 | hp5
      · have := (h.nt_iff p).mp hp5; rw [hd] at this; cases this
      · exact hp5
  rcases pc_class (s.net k).pc with hc | hc | hc | hc | hc | hc
  · exfalso
    have hnk := (h.nt_iff k).mpr hc
    rcases hjn with h1 | ⟨h1, -⟩
    · rw [h1] at hnk; cases hnk; exact hk rfl
    · rw [h1] at hnk; cases hnk
  · exfalso
    have hnk := (h.new_iff k).mpr hc
    rcases hjn with h1 | ⟨-, h1⟩
    · obtain ⟨p, hp1, -, -, -, hp5⟩ := h.prev_ok k hc
      have hpj : p = j := by
        rcases hp5 with hp5 | hp5
        · rw [h1] at hp5; cases hp5; rfl
        · rw [h1] at hp5; cases hp5
      subst hpj
      have hjh : (s.net p).pc ≠ .dead := by
        intro hd; have := (h.nt_iff p).mp h1; rw [hd] at this; cases this
      have hwt : (s.net k).pc = .waitPrev ∨ (s.net k).pc = .takeOver := by
        revert hc; cases (s.net k).pc <;> simp [NPc.waiting]
      rcases hwt with hw | ht
      · simp [step, stepNet, hw, hp1, hjh] at hs
      · exact hjh (h.tk_dead k p ht hp1)
    · rw [h1] at hnk; cases hnk; exact hk rfl
  · exact Or.inl hc
  · exact Or.inr hc
  · simp [step, stepNet, hc] at hs
  · simp [step, stepNet, hc] at hs

/-- … and such a step creates no thread object and lowers the rank of the thread that moves. -/
theorem other_net_step (env : List Beh) (s s' : Sys) (j k : Nat) (h : LInv s)
    (hj : (s.net j).pc.needsLock = true) (hk : k ≠ j) (hs : step env s (.net k) = some s') :
    s'.nthreads = s.nthreads ∧ (s'.net k).pc.rank < (s.net k).pc.rank := by
  rcases other_net_pc env s s' j k h hj hk hs with hc | hc
  · simp only [step, stepNet, hc, Option.some.injEq] at hs; subst hs
    simp [updN, NPc.rank, hc]
  · simp only [step, stepNet, hc, Option.some.injEq] at hs; subst hs
    simp [updN, NPc.rank, hc]

/-- Born-ness, the interrupt flag and `previous_thread` of an interrupted thread along a run. -/
theorem stable_runN (env : List Beh) (s : Sys) (h : LInv s) (j : Nat)
    (hb : (s.net j).pc ≠ .unborn) (hi : (s.net j).intr = true) (σ : Nat → Tid) (n : Nat) :
    ((runN env s σ n).net j).pc ≠ .unborn ∧ ((runN env s σ n).net j).intr = true ∧
    ((runN env s σ n).net j).prev = (s.net j).prev ∧
    ((runN env s σ n).net j).pc.rank ≤ (s.net j).pc.rank := by
  induction n with
  | zero => exact ⟨hb, hi, rfl, Nat.le_refl _⟩
  | succ n ih =>
    cases hst : step env (runN env s σ n) (σ n) with
    | none => rw [runN_succ_none env s σ n hst]; exact ih
    | some s' =>
      rw [runN_succ_some env s σ n s' hst]
      have hn := runN_inv env s h σ n
      obtain ⟨a, b, c, d⟩ := ih
      have hr := rank_run env [σ n] j _ hn a b
      simp only [run, hst] at hr
      exact ⟨hr.2.1, hr.1, by rw [prev_stable env _ s' _ hn hst j a, c], by omega⟩

/-- A dead thread stays dead. -/
theorem dead_stays (env : List Beh) (s : Sys) (h : LInv s) (j : Nat)
    (hd : (s.net j).pc = .dead) (σ : Nat → Tid) (n : Nat) :
    ((runN env s σ n).net j).pc = .dead := by
  induction n with
  | zero => exact hd
  | succ n ih =>
    cases hst : step env (runN env s σ n) (σ n) with
    | none => rw [runN_succ_none env s σ n hst]; exact ih
    | some s' =>
      rw [runN_succ_some env s σ n s' hst]
      have hn := runN_inv env s h σ n
      by_cases hu : σ n = .net j
      · rw [hu] at hst; simp [step, stepNet, ih] at hst
      · rw [pc_other env _ s' _ hn hst j (by rw [ih]; simp) hu]; exact ih

/-- A thread that is about to acquire the lock gets it (second fairness argument with the variant
`vari`). -/
theorem progress_lock (env : List Beh) (U j : Nat) (pc0 : NPc) (hpc0 : pc0.needsLock = true)
    (s : Sys) (σ : Nat → Tid) (h : LInv s) (hub : UB U s) (hpc : (s.net j).pc = pc0)
    (hf : WeakFair env s σ) :
    ∃ m, σ m = .net j ∧ ((runN env s σ m).net j).pc = pc0 ∧
      Enabled env (runN env s σ m) (.net j) := by
  have hnu : pc0 ≠ .unborn := by intro hc; rw [hc] at hpc0; cases hpc0
  obtain ⟨m, h1, ⟨-, -, h2⟩, h3⟩ := fair_variant env (.net j)
    (fun s => LInv s ∧ UB U s ∧ (s.net j).pc = pc0) (vari U)
    (fun s hq => hq.1)
    (fun s s' u hq hu hs => by
      obtain ⟨q1, q2, q3⟩ := hq
      refine ⟨⟨step_inv env s s' u q1 hs, UB_step env U s s' u q2 hs, ?_⟩, ?_⟩
      · rw [pc_other env s s' u q1 hs j (by rw [q3]; exact hnu) hu]; exact q3
      · rcases u with u | k
        · exact user_step_vari env U s s' u q1 q2 hs
        · have hk : k ≠ j := fun hc => hu (by rw [hc])
          obtain ⟨a, b⟩ := other_net_step env s s' j k q1 (by rw [q3]; exact hpc0) hk hs
          exact net_step_vari env U s s' k q1 hs a b)
    (fun s hq hs => by
      obtain ⟨q1, q2, q3⟩ := hq
      rcases step_none_lock env s j hs with hc | hc | ⟨hc, -⟩ | ⟨-, hc⟩
      · rw [q3] at hc; exact absurd hc hnu
      · rw [q3] at hc; rw [hc] at hpc0; cases hpc0
      · rw [q3] at hc; rw [hc] at hpc0; cases hpc0
      · cases ho : s.owner with
        | none => simp [canAcq, ho] at hc
        | some t => exact ⟨t, by intro ht; simp [canAcq, ho, ht] at hc, rfl⟩)
    (vari U s) s σ ⟨h, hub, hpc⟩ (Nat.le_refl _) hf
  exact ⟨m, h1, h2, h3⟩

/-- A thread whose next action needs neither the lock nor a dead predecessor stays enabled until
it moves (first fairness argument). -/
theorem progress_free (env : List Beh) (j : Nat) (pc0 : NPc) (hpc0 : pc0.needsLock = false)
    (h1 : pc0 ≠ .unborn) (h2 : pc0 ≠ .dead) (h3 : pc0 ≠ .waitPrev)
    (s : Sys) (σ : Nat → Tid) (h : LInv s) (hpc : (s.net j).pc = pc0) (hf : WeakFair env s σ) :
    ∃ m, σ m = .net j ∧ ((runN env s σ m).net j).pc = pc0 ∧
      Enabled env (runN env s σ m) (.net j) := by
  have hen : ∀ s, LInv s ∧ (s.net j).pc = pc0 → Enabled env s (.net j) := by
    intro s hq hs
    rcases step_none_lock env s j hs with hc | hc | ⟨hc, -⟩ | ⟨hc, -⟩
    · rw [hq.2] at hc; exact h1 hc
    · rw [hq.2] at hc; exact h2 hc
    · rw [hq.2] at hc; exact h3 hc
    · rw [hq.2, hpc0] at hc; cases hc
  obtain ⟨m, a, b⟩ := fair_enabled env (.net j) (fun s => LInv s ∧ (s.net j).pc = pc0) hen
    (fun s s' u hq hu hs => ⟨step_inv env s s' u hq.1 hs, by
      rw [pc_other env s s' u hq.1 hs j (by rw [hq.2]; exact h1) hu]; exact hq.2⟩)
    s σ ⟨h, hpc⟩ hf
  exact ⟨m, a, b.2, hen _ b⟩

/-- A waiting successor whose predecessor is dead stays enabled until it moves. -/
theorem progress_wait (env : List Beh) (j p : Nat)
    (s : Sys) (σ : Nat → Tid) (h : LInv s) (hpc : (s.net j).pc = .waitPrev)
    (hp : (s.net j).prev = some p) (hd : (s.net p).pc = .dead) (hf : WeakFair env s σ) :
    ∃ m, σ m = .net j ∧ ((runN env s σ m).net j).pc = .waitPrev ∧
      Enabled env (runN env s σ m) (.net j) := by
  have hen : ∀ s, LInv s ∧ (s.net j).pc = .waitPrev ∧ (s.net j).prev = some p ∧
      (s.net p).pc = .dead → Enabled env s (.net j) := by
    intro s hq
    simp [Enabled, step, stepNet, hq.2.1, hq.2.2.1, hq.2.2.2]
  obtain ⟨m, a, b⟩ := fair_enabled env (.net j) _ hen
    (fun s s' u hq hu hs => by
      obtain ⟨q1, q2, q3, q4⟩ := hq
      have hb : (s.net j).pc ≠ .unborn := by rw [q2]; simp
      refine ⟨step_inv env s s' u q1 hs, ?_, ?_, ?_⟩
      · rw [pc_other env s s' u q1 hs j hb hu]; exact q2
      · rw [prev_stable env s s' u q1 hs j hb]; exact q3
      · by_cases hup : u = .net p
        · rw [hup] at hs; simp [step, stepNet, q4] at hs
        · rw [pc_other env s s' u q1 hs p (by rw [q4]; simp) hup]; exact q4)
    s σ ⟨h, hpc, hp, hd⟩ hf
  exact ⟨m, a, b.2.1, hen _ b⟩

/-- PROGRESS: on a weakly fair schedule a live interrupted thread that is not waiting for a live
predecessor eventually performs an action (its rank drops). -/
theorem progress (env : List Beh) (U j : Nat) (s : Sys) (σ : Nat → Tid) (h : LInv s)
    (hub : UB U s) (hb : (s.net j).pc ≠ .unborn) (hi : (s.net j).intr = true)
    (hd : (s.net j).pc ≠ .dead)
    (hw : (s.net j).pc = .waitPrev → ∃ p, (s.net j).prev = some p ∧ (s.net p).pc = .dead)
    (hf : WeakFair env s σ) :
    ∃ n, ((runN env s σ n).net j).pc.rank < (s.net j).pc.rank := by
  have key : ∃ m, σ m = .net j ∧ ((runN env s σ m).net j).pc = (s.net j).pc ∧
      Enabled env (runN env s σ m) (.net j) := by
    by_cases hwp : (s.net j).pc = .waitPrev
    · obtain ⟨p, hp1, hp2⟩ := hw hwp
      rw [hwp]; exact progress_wait env j p s σ h hwp hp1 hp2 hf
    · cases hl : (s.net j).pc.needsLock with
      | true => exact progress_lock env U j _ hl s σ h hub rfl hf
      | false => exact progress_free env j _ hl hb hd hwp s σ h rfl hf
  obtain ⟨m, hm, hpc, hen⟩ := key
  obtain ⟨s', hs'⟩ := (enabled_iff _ _ _).mp hen
  obtain ⟨-, b, -, -⟩ := stable_runN env s h j hb hi σ m
  have hr := rank_own env _ s' j (runN_inv env s h σ m) hs' b
  refine ⟨m + 1, ?_⟩
  rw [runN_succ_some env s σ m s' (by rw [hm]; exact hs'), ← hpc]
  exact hr

/-- An interrupted thread that is not (any more) waiting for its predecessor dies. -/
theorem eventually_dead_nw (env : List Beh) (U j : Nat) : ∀ r (s : Sys) (σ : Nat → Tid),
    LInv s → UB U s → (s.net j).pc ≠ .unborn → (s.net j).intr = true →
    (s.net j).pc ≠ .waitPrev → (s.net j).pc.rank ≤ r → WeakFair env s σ →
    ∃ n, ((runN env s σ n).net j).pc = .dead := by
  intro r
  induction r with
  | zero =>
    intro s σ _ _ _ _ _ hr _
    have h0 : (s.net j).pc.rank = 0 := by omega
    exact ⟨0, (rank_zero _).mp h0⟩
  | succ r ih =>
    intro s σ h hub hb hi hw hr hf
    by_cases hd : (s.net j).pc = .dead
    · exact ⟨0, hd⟩
    · obtain ⟨n, hn⟩ := progress env U j s σ h hub hb hi hd (fun hc => absurd hc hw) hf
      obtain ⟨a, b, -, -⟩ := stable_runN env s h j hb hi σ n
      have h21 := rank_le_21 _ hb hw
      obtain ⟨k, hk⟩ := ih (runN env s σ n) (shift σ n) (runN_inv env s h σ n)
        (UB_runN env U s hub σ n) a b
        (by intro hc; rw [hc, rank_waitPrev] at hn; omega) (by omega) (hf.shift n)
      rw [← runN_add] at hk
      exact ⟨n + k, hk⟩

/-- EVENTUALLY DEAD: on a weakly fair schedule every interrupted thread object dies (a waiting
successor after its — also interrupted — predecessor). -/
theorem eventually_dead (env : List Beh) (U j : Nat) (s : Sys) (σ : Nat → Tid)
    (h : LInv s) (hub : UB U s) (hb : (s.net j).pc ≠ .unborn) (hi : (s.net j).intr = true)
    (hf : WeakFair env s σ) : ∃ n, ((runN env s σ n).net j).pc = .dead := by
  by_cases hw : (s.net j).pc = .waitPrev
  · obtain ⟨p, hp1, hp2, hp3, hp4, -⟩ := h.prev_ok j (by rw [hw]; rfl)
    have hpw : (s.net p).pc ≠ .waitPrev := by
      intro hc
      have e1 := (h.new_iff p).mpr (by rw [hc]; rfl)
      have e2 := (h.new_iff j).mpr (by rw [hw]; rfl)
      rw [e1] at e2; cases e2; exact hp3 rfl
    -- first the predecessor dies …
    obtain ⟨n1, hn1⟩ := eventually_dead_nw env U p 23 s σ h hub hp4 hp2 hpw (rank_le _) hf
    obtain ⟨a, b, c, d⟩ := stable_runN env s h j hb hi σ n1
    have h1 := runN_inv env s h σ n1
    have hub1 := UB_runN env U s hub σ n1
    -- … then the successor moves on …
    have hstep : ∃ n2, ((runN env s σ n2).net j).pc ≠ .unborn ∧
        ((runN env s σ n2).net j).intr = true ∧ ((runN env s σ n2).net j).pc ≠ .waitPrev := by
      by_cases hw1 : ((runN env s σ n1).net j).pc = .waitPrev
      · obtain ⟨k, hk⟩ := progress env U j (runN env s σ n1) (shift σ n1) h1 hub1 a b
          (by rw [hw1]; simp) (fun _ => ⟨p, by rw [c, hp1], hn1⟩) (hf.shift n1)
        rw [← runN_add, hw1, rank_waitPrev] at hk
        obtain ⟨a', b', -, -⟩ := stable_runN env s h j hb hi σ (n1 + k)
        exact ⟨n1 + k, a', b', by intro hc; rw [hc, rank_waitPrev] at hk; omega⟩
      · exact ⟨n1, a, b, hw1⟩
    -- … and dies.
    obtain ⟨n2, a2, b2, c2⟩ := hstep
    obtain ⟨k, hk⟩ := eventually_dead_nw env U j 23 (runN env s σ n2) (shift σ n2)
      (runN_inv env s h σ n2) (UB_runN env U s hub σ n2) a2 b2 c2 (rank_le _) (hf.shift n2)
    rw [← runN_add] at hk
    exact ⟨n2 + k, hk⟩
  · exact eventually_dead_nw env U j 23 s σ h hub hb hi hw (rank_le _) hf

/-- … and stays dead. -/
theorem eventually_always_dead (env : List Beh) (U j : Nat) (s : Sys) (σ : Nat → Tid)
    (h : LInv s) (hub : UB U s) (hb : (s.net j).pc ≠ .unborn) (hi : (s.net j).intr = true)
    (hf : WeakFair env s σ) : ∃ n, ∀ m, n ≤ m → ((runN env s σ m).net j).pc = .dead := by
  obtain ⟨n, hn⟩ := eventually_dead env U j s σ h hub hb hi hf
  refine ⟨n, fun m hm => ?_⟩
  have e : m = n + (m - n) := by omega
  rw [e, runN_add]
  exact dead_stays env _ (runN_inv env s h σ n) j hn _ _

/-- A thread that is never picked never moves. -/
theorem never_picked (env : List Beh) (s : Sys) (h : LInv s) (j : Nat)
    (hb : (s.net j).pc ≠ .unborn) (σ : Nat → Tid) (hσ : ∀ n, σ n ≠ .net j) (n : Nat) :
    ((runN env s σ n).net j).pc = (s.net j).pc := by
  induction n with
  | zero => rfl
  | succ n ih =>
    cases hst : step env (runN env s σ n) (σ n) with
    | none => rw [runN_succ_none env s σ n hst]; exact ih
    | some s' =>
      rw [runN_succ_some env s σ n s' hst,
        pc_other env _ s' _ (runN_inv env s h σ n) hst j (by rw [ih]; exact hb) (hσ n)]
      exact ih

end PyCraft.Life
