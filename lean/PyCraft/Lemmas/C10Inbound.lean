import PyCraft.Model.C10Inbound
import PyCraft.Generated.C10Inbound
import PyCraft.Lemmas.LoginWire
import PyCraft.Lemmas.HandshakeWire
/-!
Helper lemmas for `Props/C10Inbound.lean`.

1. The stack of file-object wrappers: installing a wrapper decrypts the view ahead once more; the
   framing reader never changes the NUMBER of wrappers.
2. Field level: `clientDecode` against `srvFields` (each `read` of the clientbound login classes
   against what a server writes).
3. One read tick in step with the server (`readTick_sync`) and the induction over an arbitrary
   tick list (`run_sync`): the invariant is "what is still ahead of the file object, seen through
   the wrappers installed NOW, is the server's remaining stream under the threshold in force NOW".
4. Whatever arrives: the byte-level client refines the login model (`run_refines`); a dead thread
   stays dead; reading at the end of the stream raises `EOFError`.
5. The regular schedule `Login.schedule`; the shape of the server's stream.
6. Seeded client faults for the negative witness, the profile extracted from a row of the generated
   table, concrete parameters for the examples.
-/
namespace PyCraft.LoginIn
open PyCraft PyCraft.Login PyCraft.LoginWire

/-! ## the wrappers -/

theorem layersDec_snoc (E : Bytes → Bytes) (regs : List Bytes) (s b : Bytes) :
    layersDec E (regs ++ [s]) b =
      ((layersDec E regs b).1 ++ [(cfb8Dec E s (layersDec E regs b).2).1],
        (cfb8Dec E s (layersDec E regs b).2).2) := by
  induction regs generalizing b with
  | nil => simp [layersDec]
  | cons r rs ih => simp [layersDec, ih]

/-- Through a freshly installed wrapper the view ahead is the old view, CFB8-decrypted from
register = secret. -/
theorem ahead_wrapFile (E : Bytes → Bytes) (k : FileObj) (sec : Bytes) :
    ahead (layersX E) (wrapFile k sec) = (cfb8Dec E sec (ahead (layersX E) k)).2 := by
  simp [ahead, wrapFile, layersX, layersDec_snoc]

theorem layersDec_regs_length (E : Bytes → Bytes) (regs : List Bytes) (b : Bytes) :
    (layersDec E regs b).1.length = regs.length := by
  induction regs generalizing b with
  | nil => rfl
  | cons r rs ih => simp [layersDec, ih]

/-- A property of the cipher context that every `update` preserves is preserved by the reader. -/
theorem readVarIntK_st {σ : Type} (x : StreamXform σ) (Q : σ → Prop)
    (hQ : ∀ s b, Q s → Q (x.update s b).1) (mx be acc : Nat) (k : Sock σ) (h : Q k.st) :
    Q (readVarIntK x mx be acc k).2.st := by
  fun_induction readVarIntK x mx be acc k with
  | case1 => exact hQ _ _ h
  | case2 => exact hQ _ _ h
  | case3 => exact hQ _ _ h
  | case4 _ _ _ _ _ _ _ _ _ _ ih => exact ih (hQ _ _ h)

theorem readMoreK_st {σ : Type} (x : StreamXform σ) (Q : σ → Prop)
    (hQ : ∀ s b, Q s → Q (x.update s b).1) (length : Nat) (data : Bytes) (k : Sock σ)
    (h : Q k.st) : Q (readMoreK x length data k).2.st := by
  fun_induction readMoreK x length data k with
  | case1 => exact hQ _ _ h
  | case2 _ _ _ _ _ ih => exact ih (hQ _ _ h)
  | case3 => exact h

theorem readPacketK_st {σ : Type} (x : StreamXform σ) (Q : σ → Prop)
    (hQ : ∀ s b, Q s → Q (x.update s b).1) (z : ZlibOps) (c : Bool) (k : Sock σ) (h : Q k.st) :
    Q (readPacketK x z c k).2.st := by
  have hv := readVarIntK_st x Q hQ 5 0 0 k h
  unfold readPacketK readFrameK
  generalize readVarIntK x 5 0 0 k = r at hv
  obtain ⟨res, k1⟩ := r
  cases res with
  | error e => exact hv
  | ok len =>
    have hm := readMoreK_st x Q hQ len (k1.read x len).1 (k1.read x len).2 (hQ _ _ hv)
    simp only
    generalize readMoreK x len (k1.read x len).1 (k1.read x len).2 = r2 at hm
    obtain ⟨res2, k2⟩ := r2
    cases res2 <;> exact hm

/-- `read_packet` never installs or removes a wrapper. -/
theorem readPacketK_layers (E : Bytes → Bytes) (z : ZlibOps) (c : Bool) (k : FileObj) :
    (readPacketK (layersX E) z c k).2.st.length = k.st.length :=
  readPacketK_st (layersX E) (fun st => st.length = k.st.length)
    (fun s b hs => by show (layersDec E s b).1.length = _; rw [layersDec_regs_length]; exact hs)
    z c k rfl

/-! ## field level -/

theorem distinct_facts (C : CbProfile) (h : C.distinct = true) :
    C.disconnect ≠ C.encRequest ∧ C.disconnect ≠ C.success ∧ C.disconnect ≠ C.setCompression ∧
    C.encRequest ≠ C.success ∧ C.encRequest ≠ C.setCompression ∧ C.success ≠ C.setCompression ∧
    ∀ q, C.pluginRequest = some q →
      q ≠ C.disconnect ∧ q ≠ C.encRequest ∧ q ≠ C.success ∧ q ≠ C.setCompression := by
  unfold CbProfile.distinct CbProfile.ids at h
  cases hq : C.pluginRequest with
  | none =>
    simp [hq] at h
    refine ⟨?_, ?_, ?_, ?_, ?_, ?_, ?_⟩ <;> first | omega | (intro q hq'; cases hq')
  | some q =>
    simp [hq] at h
    refine ⟨?_, ?_, ?_, ?_, ?_, ?_, ?_⟩ <;> first | omega | skip
    intro q' hq'
    injection hq' with hq'; subst hq'
    omega

theorem readUuid_ok (b more : Bytes) (h : b.length = 16) :
    readUuid (b ++ more) = .ok (b, more) := by
  unfold readUuid
  have : ¬ (b ++ more).length < 16 := by rw [List.length_append]; omega
  rw [if_neg this, ← h, List.take_left', List.drop_left'] <;> rfl

theorem readString_enc_nil (s : String) (h : (utf8 s).length < 2 ^ 42) :
    HsWire.readString (HsWire.encString s) = .ok (s, []) := by
  have := HsWire.readString_enc s [] h
  rwa [List.append_nil] at this

/-- Every `read` of the clientbound login classes inverts what a server writes. -/
theorem clientDecode_srvFields (C : CbProfile) (hC : C.distinct = true) (p : SrvPkt)
    (hwf : p.wf C = true) : clientDecode C (srvFields C p) = .ok p.ev := by
  obtain ⟨d1, d2, d3, d4, d5, d6, d7⟩ := distinct_facts C hC
  cases p with
  | disconnect j =>
    simp only [SrvPkt.wf, decide_eq_true_eq] at hwf
    simp [clientDecode, srvFields, readDisconnect, readString_enc_nil j hwf, SrvPkt.ev, Except.map]
  | encRequest sid pk tok =>
    simp only [SrvPkt.wf, Bool.and_eq_true, decide_eq_true_eq] at hwf
    obtain ⟨⟨h1, h2⟩, h3⟩ := hwf
    have e3 := readPrefixedArray_ok tok [] h3
    rw [List.append_nil] at e3
    simp [clientDecode, srvFields, readEncRequest, HsWire.readString_enc sid _ h1,
      readPrefixedArray_ok pk _ h2, e3, SrvPkt.ev, Except.map, d1.symm]
  | success u name =>
    cases u with
    | str s =>
      simp only [SrvPkt.wf, Bool.and_eq_true, decide_eq_true_eq, Bool.not_eq_true'] at hwf
      obtain ⟨⟨h1, h2⟩, h3⟩ := hwf
      simp [clientDecode, srvFields, readSuccess, UuidField.bytes, h1,
        HsWire.readString_enc s _ h2, readString_enc_nil name h3, SrvPkt.ev, Except.map,
        d2.symm, d4.symm]
    | bin b =>
      simp only [SrvPkt.wf, Bool.and_eq_true, decide_eq_true_eq] at hwf
      obtain ⟨⟨h1, h2⟩, h3⟩ := hwf
      simp [clientDecode, srvFields, readSuccess, UuidField.bytes, h1,
        readUuid_ok b _ h2, readString_enc_nil name h3, SrvPkt.ev, Except.map,
        d2.symm, d4.symm]
  | setCompression t =>
    simp only [SrvPkt.wf, decide_eq_true_eq] at hwf
    have := decVarInt_enc t [] hwf
    rw [List.append_nil] at this
    simp [clientDecode, srvFields, readSetCompression, this, SrvPkt.ev, Except.map,
      d3.symm, d5.symm, d6.symm]
  | pluginRequest i ch d =>
    simp only [SrvPkt.wf, Bool.and_eq_true, decide_eq_true_eq] at hwf
    obtain ⟨⟨h1, h2⟩, h3⟩ := hwf
    obtain ⟨q, hq⟩ := Option.isSome_iff_exists.mp h1
    obtain ⟨q1, q2, q3, q4⟩ := d7 q hq
    simp [clientDecode, srvFields, readPluginRequest, hq, decVarInt_enc i _ h2,
      HsWire.readString_enc ch _ h3, SrvPkt.ev, Except.map, q1, q2, q3, q4]
  | unknown pid d =>
    simp only [SrvPkt.wf, CbProfile.ids, Bool.not_eq_true', List.contains_eq_mem,
      decide_eq_false_iff_not, List.mem_append, List.mem_cons, List.not_mem_nil, or_false,
      Option.mem_toList, not_or] at hwf
    obtain ⟨⟨h1, h2, h3, h4⟩, h5⟩ := hwf
    have h5' : ¬ C.pluginRequest = some pid := h5
    simp [clientDecode, srvFields, h1, h2, h3, h4, h5', SrvPkt.ev]

/-! ## packets, events and the login state -/

theorem reading_eq (s : InState) : s.reading = (s.ioErr.isNone && s.cs.alive) := by
  simp [InState.reading, ClientState.alive, Bool.and_assoc]

theorem react_threshold (P : LoginParams) (cs : ClientState) (p : SrvPkt) (e : LoginEv)
    (h : p.ev = some e) : (react P cs e).threshold = thrAfter cs.threshold p := by
  cases p <;> simp only [SrvPkt.ev, Option.some.injEq, reduceCtorEq] at h <;> subst h
  · simp only [thrAfter, react, ClientState.writeNow]
    split <;> (try split) <;> rfl
  · rfl
  · rfl
  · rfl
  · rfl

theorem step_flush_facts (P : LoginParams) (cs : ClientState) :
    (step P cs .flush).threshold = cs.threshold ∧ (step P cs .flush).alive = cs.alive ∧
      (step P cs .flush).encrypted = cs.encrypted := by
  simp only [step]
  split <;> simp [ClientState.flushQueue, ClientState.alive]

theorem ev_isEncRequest (p : SrvPkt) (e : LoginEv) (h : p.ev = some e) :
    e.isEncRequest = p.isEncRequest := by
  cases p <;> simp only [SrvPkt.ev, Option.some.injEq, reduceCtorEq] at h <;> subst h <;> rfl

theorem ev_isTerminal (p : SrvPkt) (e : LoginEv) (h : p.ev = some e) :
    e.isTerminal = p.isTerminal := by
  cases p <;> simp only [SrvPkt.ev, Option.some.injEq, reduceCtorEq] at h <;> subst h <;> rfl

theorem ev_none (p : SrvPkt) (h : p.ev = none) :
    p.isEncRequest = false ∧ p.isTerminal = false ∧ ∀ thr, thrAfter thr p = thr := by
  cases p <;> simp [SrvPkt.ev] at h
  exact ⟨rfl, rfl, fun _ => rfl⟩

/-- The login state after the read tick that delivers `p`. -/
def after (P : LoginParams) (s : InState) (p : SrvPkt) : ClientState :=
  match p.ev with
  | some e => react P s.cs e
  | none => s.cs

theorem after_threshold (P : LoginParams) (s : InState) (p : SrvPkt) :
    (after P s p).threshold = thrAfter s.cs.threshold p := by
  unfold after
  cases h : p.ev with
  | none => exact ((ev_none p h).2.2 _).symm
  | some e => exact react_threshold P s.cs p e h

/-- How the state after delivering `p` relates to `Login.step` and to liveness. -/
theorem after_facts (P : LoginParams) (s : InState) (p : SrvPkt) (ha : s.cs.alive = true) :
    exec P s.cs (match p.ev with | some e => [Step.recv e] | none => []) = after P s p ∧
      ((after P s p).alive = !p.isTerminal) := by
  unfold after
  cases hev : p.ev with
  | none =>
    obtain ⟨-, n2, -⟩ := ev_none p hev
    simp [exec_nil, ha, n2]
  | some e =>
    have ht := ev_isTerminal p e hev
    refine ⟨by simp only [exec_cons, exec_nil, step_recv_alive P s.cs e ha], ?_⟩
    cases hpt : p.isTerminal with
    | true => simpa using alive_after_terminal P s.cs e (by rw [ht, hpt])
    | false => simpa using alive_react P s.cs e ha (by rw [ht, hpt])

theorem react_encrypted (P : LoginParams) (cs : ClientState) (e : LoginEv) :
    (react P cs e).encrypted = (cs.encrypted || e.isEncRequest) := by
  cases e with
  | encRequest sid pk tok => rw [(react_encRequest P cs sid pk tok).2]; simp [LoginEv.isEncRequest]
  | setCompression t => simp [react, LoginEv.isEncRequest]
  | pluginRequest i c d => simp [react, LoginEv.isEncRequest, ClientState.enqueue]
  | success => simp [react, LoginEv.isEncRequest]
  | disconnect j => simp [react, LoginEv.isEncRequest]

/-! ## one read tick in step with the server -/

/-- The packet is delivered to `_react`, and what is still ahead — through the wrappers now
installed — is the server's remaining stream under the threshold now in force. -/
theorem readTick_sync (P : LoginParams) (z : Zlib) (E : Bytes → Bytes) (C : CbProfile)
    (hC : C.distinct = true) (s : InState) (p : SrvPkt) (rest : List SrvPkt)
    (hr : s.reading = true) (hwf : p.wf C = true)
    (hok : FrameOK z.toZlibOps s.cs.threshold (srvFields C p))
    (ha : ahead (layersX E) s.file =
      srvStream z.toZlibOps E P.secret C s.cs.threshold (p :: rest)) :
    let r := readTick P z.toZlibOps E C s
    r.cs = after P s p ∧ r.seen = s.seen ++ p.ev.toList ∧ r.ioErr = s.ioErr ∧
      ahead (layersX E) r.file =
        srvStream z.toZlibOps E P.secret C (thrAfter s.cs.threshold p) rest ∧
      r.file.st.length = s.file.st.length + (if p.isEncRequest then 1 else 0) := by
  intro r
  have hp := parsePacket_packetFrame z s.cs.threshold (srvFields C p)
    (if p.isEncRequest then
      (cfb8Enc E P.secret (srvStream z.toZlibOps E P.secret C (thrAfter s.cs.threshold p) rest)).2
     else srvStream z.toZlibOps E P.secret C (thrAfter s.cs.threshold p) rest) hok
  have ha' : ahead (layersX E) s.file = packetFrame z.toZlibOps s.cs.threshold (srvFields C p) ++
      (if p.isEncRequest then
        (cfb8Enc E P.secret (srvStream z.toZlibOps E P.secret C (thrAfter s.cs.threshold p) rest)).2
       else srvStream z.toZlibOps E P.secret C (thrAfter s.cs.threshold p) rest) := by
    rw [ha]; rfl
  rw [← ha'] at hp
  obtain ⟨k', e1, e2⟩ :=
    (readPacketK_spec (layersX E) z.toZlibOps s.cs.threshold.isSome s.file).1 _ _ hp
  have hlen := readPacketK_layers E z.toZlibOps s.cs.threshold.isSome s.file
  rw [e1] at hlen
  have hr' : r = deliver P s k' p.ev := by
    show readTick P z.toZlibOps E C s = _
    unfold readTick
    rw [if_pos hr, e1]
    simp only [clientDecode_srvFields C hC p hwf]
  rw [hr']
  cases hev : p.ev with
  | none =>
    obtain ⟨n1, -, -⟩ := ev_none p hev
    simp only [deliver, after, hev, Option.toList, List.append_nil, n1, Bool.false_eq_true,
      if_false, Nat.add_zero]
    refine ⟨trivial, trivial, trivial, ?_, hlen⟩
    rw [e2, n1]; simp
  | some e =>
    have he := ev_isEncRequest p e hev
    simp only [deliver, after, hev, Option.toList]
    refine ⟨trivial, trivial, trivial, ?_, ?_⟩
    · rw [he]
      cases hpe : p.isEncRequest with
      | false => simp only [Bool.false_eq_true, if_false]; rw [e2, hpe]; simp
      | true =>
        simp only [if_true]
        rw [ahead_wrapFile, e2, hpe]
        simp only [if_true]
        exact (cfb8Dec_enc E P.secret _).1
    · rw [he]
      cases hpe : p.isEncRequest with
      | false => simpa using hlen
      | true => simp [wrapFile, hlen]

/-! ## the loop -/

theorem run_nil (P : LoginParams) (z : ZlibOps) (E : Bytes → Bytes) (C : CbProfile) (s : InState) :
    run P z E C [] s = s := rfl

theorem run_cons (P : LoginParams) (z : ZlibOps) (E : Bytes → Bytes) (C : CbProfile) (s : InState)
    (t : Tick) (ts : List Tick) : run P z E C (t :: ts) s = run P z E C ts (tick P z E C s t) := rfl

theorem cut_cons (p : SrvPkt) (todo : List SrvPkt) (h : cutScript (p :: todo) = p :: todo) :
    (p.isTerminal = true → todo = []) ∧ cutScript todo = todo := by
  unfold cutScript at h
  by_cases hp : p.isTerminal = true
  · simp only [hp, if_true, List.cons.injEq, true_and] at h
    subst h; exact ⟨fun _ => rfl, rfl⟩
  · simp only [hp, Bool.false_eq_true, if_false, List.cons.injEq, true_and] at h
    exact ⟨fun h' => absurd h' hp, h⟩

theorem fill_read_cons (ts : List Tick) (p : SrvPkt) (ps : List SrvPkt) :
    fill (.read :: ts) (p :: ps) =
      (match p.ev with | some e => [Step.recv e] | none => []) ++ fill ts ps := by
  simp only [fill]
  cases p.ev <;> rfl

/-- The induction behind `C10Inbound.client_reads_server_script`: `todo` is what the login reactor
still has to get to (a list cut behind its first terminal packet), `rest` what the server sends
behind it. -/
theorem run_sync (P : LoginParams) (z : Zlib) (E : Bytes → Bytes) (C : CbProfile)
    (hC : C.distinct = true) (rest : List SrvPkt) :
    ∀ (ticks : List Tick) (s : InState) (todo : List SrvPkt),
      cutScript todo = todo → s.ioErr = none → (todo ≠ [] → s.cs.alive = true) →
      (todo.any (·.isTerminal) = true ∨ reads ticks ≤ todo.length ∨ s.cs.alive = false) →
      ScriptOK z.toZlibOps C s.cs.threshold todo →
      ahead (layersX E) s.file =
        srvStream z.toZlibOps E P.secret C s.cs.threshold (todo ++ rest) →
      (run P z.toZlibOps E C ticks s).cs = exec P s.cs (fill ticks todo) ∧
      (run P z.toZlibOps E C ticks s).seen =
        s.seen ++ (todo.take (reads ticks)).filterMap (·.ev) ∧
      (run P z.toZlibOps E C ticks s).ioErr = none ∧
      ahead (layersX E) (run P z.toZlibOps E C ticks s).file =
        srvStream z.toZlibOps E P.secret C (run P z.toZlibOps E C ticks s).cs.threshold
          (todo.drop (reads ticks) ++ rest) ∧
      (run P z.toZlibOps E C ticks s).file.st.length = s.file.st.length +
        ((todo.take (reads ticks)).filter (·.isEncRequest)).length := by
  intro ticks
  induction ticks with
  | nil =>
    intro s todo _ hio _ _ _ ha
    simp only [run_nil, fill, exec_nil, reads, List.take_zero, List.filterMap_nil,
      List.append_nil, List.drop_zero, List.filter_nil, List.length_nil, Nat.add_zero]
    exact ⟨trivial, trivial, hio, ha, trivial⟩
  | cons t ts ih =>
    intro s todo hcut hio halive hb hok ha
    rw [run_cons]
    cases t with
    | flush =>
      obtain ⟨f1, f2, -⟩ := step_flush_facts P s.cs
      have ht : tick P z.toZlibOps E C s .flush = { s with cs := step P s.cs .flush } := by
        simp [tick, hio]
      rw [ht]
      have := ih { s with cs := step P s.cs .flush } todo hcut hio
        (fun h => by show (step P s.cs .flush).alive = true; rw [f2]; exact halive h)
        (by
          rcases hb with h | h | h
          · exact Or.inl h
          · exact Or.inr (Or.inl h)
          · exact Or.inr (Or.inr (by show (step P s.cs .flush).alive = false; rw [f2]; exact h)))
        (by show ScriptOK _ _ (step P s.cs .flush).threshold todo; rw [f1]; exact hok)
        (by show ahead _ s.file = srvStream _ _ _ _ (step P s.cs .flush).threshold _
            rw [f1]; exact ha)
      simpa only [fill, exec_cons, reads] using this
    | read =>
      cases todo with
      | nil =>
        have hdead : s.cs.alive = false := by
          rcases hb with h | h | h
          · simp at h
          · simp [reads] at h
          · exact h
        have ht : tick P z.toZlibOps E C s .read = s := by
          simp [tick, readTick, reading_eq, hdead]
        rw [ht]
        have := ih s [] hcut hio halive (Or.inr (Or.inr hdead)) hok ha
        simpa only [fill, reads, List.take_nil, List.drop_nil] using this
      | cons p todo' =>
        have hal : s.cs.alive = true := halive (by simp)
        have hrd : s.reading = true := by rw [reading_eq, hio, hal]; rfl
        obtain ⟨c1, c2⟩ := cut_cons p todo' hcut
        obtain ⟨w1, w2, w3⟩ := hok
        obtain ⟨r1, r2, r3, r4, r5⟩ :=
          readTick_sync P z E C hC s p (todo' ++ rest) hrd w1 w2 ha
        obtain ⟨a1, a2⟩ := after_facts P s p hal
        have hthr := after_threshold P s p
        have ht : tick P z.toZlibOps E C s .read = readTick P z.toZlibOps E C s := rfl
        rw [ht]
        generalize readTick P z.toZlibOps E C s = s1 at r1 r2 r3 r4 r5
        have := ih s1 todo' c2 (by rw [r3, hio])
          (fun hne => by
            rw [r1, a2]
            cases hpt : p.isTerminal with
            | false => rfl
            | true => exact absurd (c1 hpt) hne)
          (by
            cases hpt : p.isTerminal with
            | true => exact Or.inr (Or.inr (by rw [r1, a2, hpt]; rfl))
            | false =>
              rcases hb with h | h | h
              · exact Or.inl (by simpa [hpt] using h)
              · exact Or.inr (Or.inl (by simp only [reads, List.length_cons] at h; omega))
              · rw [hal] at h; cases h)
          (by rw [r1, hthr]; exact w3)
          (by rw [r4, r1, hthr])
        obtain ⟨i1, i2, i3, i4, i5⟩ := this
        refine ⟨?_, ?_, i3, ?_, ?_⟩
        · rw [i1, fill_read_cons, exec_append, a1, r1]
        · rw [i2, r2]
          simp only [reads, List.take_succ_cons, List.filterMap_cons, List.append_assoc]
          cases p.ev <;> rfl
        · simpa only [reads, List.drop_succ_cons] using i4
        · rw [i5, r5]
          simp only [reads, List.take_succ_cons, List.filter_cons]
          cases p.isEncRequest <;> simp <;> omega

/-! ## `cutScript` -/

theorem cutScript_idem (l : List SrvPkt) : cutScript (cutScript l) = cutScript l := by
  induction l with
  | nil => rfl
  | cons p r ih =>
    by_cases hp : p.isTerminal = true
    · simp [cutScript, hp]
    · simp [cutScript, hp, ih]

theorem cutScript_append_drop (l : List SrvPkt) :
    cutScript l ++ l.drop (cutScript l).length = l := by
  induction l with
  | nil => rfl
  | cons p r ih =>
    by_cases hp : p.isTerminal = true
    · simp [cutScript, hp]
    · simp [cutScript, hp, ih]

theorem cutScript_any (l : List SrvPkt) :
    (cutScript l).any (·.isTerminal) = l.any (·.isTerminal) := by
  induction l with
  | nil => rfl
  | cons p r ih =>
    by_cases hp : p.isTerminal = true
    · simp [cutScript, hp]
    · simp [cutScript, hp, ih]

theorem cutScript_of_live (l : List SrvPkt) (h : l.any (·.isTerminal) = false) :
    cutScript l = l := by
  induction l with
  | nil => rfl
  | cons p r ih =>
    simp only [List.any_cons, Bool.or_eq_false_iff] at h
    simp [cutScript, h.1, ih h.2]

theorem cutScript_length_le (l : List SrvPkt) : (cutScript l).length ≤ l.length := by
  induction l with
  | nil => exact Nat.le_refl _
  | cons p r ih =>
    by_cases hp : p.isTerminal = true
    · simp [cutScript, hp]
    · simp [cutScript, hp, ih]

/-! ## a dead thread; the end of the stream -/

theorem run_dead (P : LoginParams) (z : ZlibOps) (E : Bytes → Bytes) (C : CbProfile)
    (ticks : List Tick) (s : InState) (h : s.ioErr.isSome = true) : run P z E C ticks s = s := by
  induction ticks with
  | nil => rfl
  | cons t ts ih =>
    rw [run_cons]
    have : tick P z E C s t = s := by
      cases t with
      | flush => simp [tick, h]
      | read =>
        have : s.reading = false := by
          rw [reading_eq]; cases hs : s.ioErr <;> simp_all
        simp [tick, readTick, this]
    rw [this, ih]

theorem run_append (P : LoginParams) (z : ZlibOps) (E : Bytes → Bytes) (C : CbProfile)
    (a b : List Tick) (s : InState) :
    run P z E C (a ++ b) s = run P z E C b (run P z E C a s) := by
  simp [run, List.foldl_append]

theorem parsePacket_nil (z : ZlibOps) (c : Bool) : parsePacket z c [] = .error .eof := by
  simp [parsePacket, parseFrame, decVarInt, decVarIntAux]

/-- Reading at the end of the stream: `VarInt.read` raises `EOFError`. -/
theorem readTick_eof (P : LoginParams) (z : ZlibOps) (E : Bytes → Bytes) (C : CbProfile)
    (s : InState) (hr : s.reading = true) (ha : ahead (layersX E) s.file = []) :
    (readTick P z E C s).cs = s.cs ∧ (readTick P z E C s).seen = s.seen ∧
      (readTick P z E C s).ioErr = some .eof := by
  have hp : parsePacket z s.cs.threshold.isSome (ahead (layersX E) s.file) = .error .eof := by
    rw [ha]; exact parsePacket_nil z _
  obtain ⟨k', e1⟩ := (readPacketK_spec (layersX E) z s.cs.threshold.isSome s.file).2 _ hp
  unfold readTick
  rw [if_pos hr, e1]
  exact ⟨rfl, rfl, rfl⟩

/-! ## whatever arrives: the byte-level client refines the login model -/

theorem readTick_cases (P : LoginParams) (z : ZlibOps) (E : Bytes → Bytes) (C : CbProfile)
    (s : InState) :
    ((readTick P z E C s).cs = s.cs ∧ (readTick P z E C s).seen = s.seen ∧
      (readTick P z E C s).file.st.length = s.file.st.length) ∨
    (∃ ev, s.cs.alive = true ∧ (readTick P z E C s).cs = react P s.cs ev ∧
      (readTick P z E C s).seen = s.seen ++ [ev] ∧
      (readTick P z E C s).file.st.length =
        s.file.st.length + (if ev.isEncRequest then 1 else 0)) := by
  unfold readTick
  by_cases hr : s.reading = true
  · rw [if_pos hr]
    have hal : s.cs.alive = true := by
      rw [reading_eq] at hr; simp only [Bool.and_eq_true] at hr; exact hr.2
    have hl := readPacketK_layers E z s.cs.threshold.isSome s.file
    generalize readPacketK (layersX E) z s.cs.threshold.isSome s.file = rk at hl
    obtain ⟨res, k⟩ := rk
    cases res with
    | error e => exact Or.inl ⟨rfl, rfl, hl⟩
    | ok raw =>
      simp only
      cases clientDecode C raw with
      | error e => exact Or.inl ⟨rfl, rfl, hl⟩
      | ok d =>
        cases d with
        | none => exact Or.inl ⟨rfl, rfl, hl⟩
        | some ev =>
          refine Or.inr ⟨ev, hal, rfl, rfl, ?_⟩
          simp only [deliver]
          cases ev.isEncRequest <;> simp [wrapFile] <;> exact hl
  · rw [if_neg hr]; exact Or.inl ⟨rfl, rfl, rfl⟩

/-- For ANY arriving bytes and ANY tick list the login state is the login model run on the packets
actually handed to `_react`; the number of file-object wrappers is the number of encryption
requests among them, and the socket flag of the login model is set iff a wrapper is installed
(given that it was so before). -/
theorem run_refines (P : LoginParams) (z : ZlibOps) (E : Bytes → Bytes) (C : CbProfile) :
    ∀ (ticks : List Tick) (s : InState), ∃ steps : List Step,
      (run P z E C ticks s).cs = exec P s.cs steps ∧
      (run P z E C ticks s).seen = s.seen ++ events steps ∧
      (run P z E C ticks s).file.st.length =
        s.file.st.length + ((events steps).filter (·.isEncRequest)).length ∧
      ((s.cs.encrypted = true ↔ 0 < s.file.st.length) →
        ((run P z E C ticks s).cs.encrypted = true ↔ 0 < (run P z E C ticks s).file.st.length)) := by
  intro ticks
  induction ticks with
  | nil =>
    intro s
    exact ⟨[], rfl, by simp [run_nil, events], by simp [run_nil, events], fun h => h⟩
  | cons t ts ih =>
    intro s
    rw [run_cons]
    cases t with
    | flush =>
      by_cases hio : s.ioErr.isSome = true
      · have : tick P z E C s .flush = s := by simp [tick, hio]
        rw [this]; exact ih s
      · have : tick P z E C s .flush = { s with cs := step P s.cs .flush } := by simp [tick, hio]
        rw [this]
        obtain ⟨steps, h1, h2, h3, h4⟩ := ih { s with cs := step P s.cs .flush }
        refine ⟨.flush :: steps, by rw [h1, exec_cons], by rw [h2]; rfl, by rw [h3]; rfl, ?_⟩
        intro hinv
        apply h4
        show (step P s.cs .flush).encrypted = true ↔ _
        rw [(step_flush_facts P s.cs).2.2]; exact hinv
    | read =>
      have ht : tick P z E C s .read = readTick P z E C s := rfl
      rw [ht]
      obtain ⟨steps, h1, h2, h3, h4⟩ := ih (readTick P z E C s)
      rcases readTick_cases P z E C s with ⟨c1, c2, c3⟩ | ⟨ev, hal, c1, c2, c3⟩
      · refine ⟨steps, by rw [h1, c1], by rw [h2, c2], by rw [h3, c3], ?_⟩
        intro hinv; apply h4; rw [c1, c3]; exact hinv
      · refine ⟨.recv ev :: steps, ?_, ?_, ?_, ?_⟩
        · rw [h1, c1, exec_cons, step_recv_alive P s.cs ev hal]
        · rw [h2, c2]; simp [events]
        · rw [h3, c3]
          simp only [events, List.filter_cons]
          cases ev.isEncRequest <;> simp <;> omega
        · intro hinv; apply h4
          rw [c1, c3, react_encrypted]
          cases ev.isEncRequest <;> simp [hinv]

/-! ## the regular schedule -/

theorem step_recv_dead (P : LoginParams) (s : ClientState) (e : LoginEv) (h : s.alive = false) :
    step P s (.recv e) = s := by
  have : (s.err.isSome || s.reactor == .play) = true := by
    simp only [ClientState.alive] at h
    cases hs : s.err <;> cases hr : s.reactor <;> simp_all
  simp [step, this]

theorem step_recv_terminal_dead (P : LoginParams) (s : ClientState) (e : LoginEv)
    (ht : e.isTerminal = true) : (step P s (.recv e)).alive = false := by
  cases ha : s.alive with
  | false => rw [step_recv_dead P s e ha]; exact ha
  | true => rw [step_recv_alive P s e ha]; exact alive_after_terminal P s e ht

theorem exec_dead_fill (P : LoginParams) (steps : List Step) (s : ClientState)
    (h : s.alive = false) : exec P s (fill (ticksOf steps) []) = exec P s steps := by
  induction steps generalizing s with
  | nil => rfl
  | cons a r ih =>
    cases a with
    | flush =>
      simp only [ticksOf, fill, exec_cons]
      exact ih _ (by rw [(step_flush_facts P s).2.1]; exact h)
    | recv e =>
      simp only [ticksOf, fill, exec_cons]
      rw [step_recv_dead P s e h]; exact ih s h

/-- Filling the ticks of a step list with the packets the steps came from gives the same run (the
reads behind the first terminal packet are no-ops in the login model). -/
theorem exec_fill_ticksOf (P : LoginParams) : ∀ (steps : List Step) (script : List SrvPkt)
    (s : ClientState), script.filterMap (·.ev) = events steps → (∀ p ∈ script, p.ev.isSome = true) →
    exec P s (fill (ticksOf steps) (cutScript script)) = exec P s steps := by
  intro steps
  induction steps with
  | nil => intro script s _ _; rfl
  | cons a r ih =>
    intro script s hev hk
    cases a with
    | flush =>
      simp only [ticksOf, fill, exec_cons]
      exact ih script _ (by simpa [events] using hev) hk
    | recv e =>
      cases script with
      | nil => simp [events] at hev
      | cons p script' =>
        have hp := hk p (by simp)
        obtain ⟨e', he'⟩ := Option.isSome_iff_exists.mp hp
        simp only [List.filterMap_cons, he', events, List.cons.injEq] at hev
        obtain ⟨h1, h2⟩ := hev
        subst h1
        have hk' : ∀ q ∈ script', q.ev.isSome = true := fun q hq => hk q (by simp [hq])
        have ht := ev_isTerminal p e' he'
        by_cases hpt : p.isTerminal = true
        · simp only [cutScript, hpt, if_true, ticksOf, fill, he', exec_cons]
          exact exec_dead_fill P r _ (step_recv_terminal_dead P s e' (by rw [ht, hpt]))
        · simp only [cutScript, hpt, Bool.false_eq_true, if_false, ticksOf, fill, he', exec_cons]
          exact ih script' _ h2 hk'

theorem reads_ticksOf (steps : List Step) : reads (ticksOf steps) = (events steps).length := by
  induction steps with
  | nil => rfl
  | cons a r ih => cases a <;> simp [ticksOf, reads, events, ih]

theorem processed_filterMap (script : List SrvPkt) :
    processed (script.filterMap (·.ev)) = (cutScript script).filterMap (·.ev) := by
  induction script with
  | nil => rfl
  | cons p r ih =>
    cases hev : p.ev with
    | none =>
      obtain ⟨-, n2, -⟩ := ev_none p hev
      simp [cutScript, n2, hev, ih]
    | some e =>
      have ht := ev_isTerminal p e hev
      by_cases hpt : p.isTerminal = true
      · simp [cutScript, hpt, hev, processed, ht]
      · have hpt' : p.isTerminal = false := by simpa using hpt
        simp [cutScript, hpt', hev, processed, ht, ih]

/-! ## the shape of the server's stream -/

theorem srvStream_plain (z : ZlibOps) (E : Bytes → Bytes) (sec : Bytes) (C : CbProfile) :
    ∀ (l : List SrvPkt) (thr : Option Int), (∀ p ∈ l, p.isEncRequest = false) →
      srvStream z E sec C thr l = plainFrames z C thr l := by
  intro l
  induction l with
  | nil => intro _ _; rfl
  | cons p r ih =>
    intro thr h
    have hp := h p (by simp)
    simp only [srvStream, plainFrames, hp, Bool.false_eq_true, if_false]
    rw [ih _ fun q hq => h q (by simp [hq])]

theorem srvStream_append_plain (z : ZlibOps) (E : Bytes → Bytes) (sec : Bytes) (C : CbProfile) :
    ∀ (pre : List SrvPkt) (thr : Option Int) (l : List SrvPkt),
      (∀ p ∈ pre, p.isEncRequest = false) →
      srvStream z E sec C thr (pre ++ l) =
        plainFrames z C thr pre ++ srvStream z E sec C (thrAfterAll thr pre) l := by
  intro pre
  induction pre with
  | nil => intro _ _ _; rfl
  | cons p r ih =>
    intro thr l h
    have hp := h p (by simp)
    simp only [List.cons_append, srvStream, plainFrames, hp, Bool.false_eq_true, if_false,
      List.append_assoc]
    rw [ih _ _ fun q hq => h q (by simp [hq])]
    rfl

/-! ## seeded client faults (negative witness) -/

/-- `readTick` with its three ingredients as parameters: the transformer the file object applies,
what `_react` does with the result, and the compression flag handed to `read_packet`. -/
def readTickG (x : StreamXform (List Bytes)) (z : ZlibOps) (C : CbProfile)
    (dlv : InState → FileObj → Option LoginEv → InState) (comp : Bool) (s : InState) : InState :=
  if s.reading then
    match readPacketK x z comp s.file with
    | (.error e, k) => { s with file := k, ioErr := some e }
    | (.ok raw, k) =>
      match clientDecode C raw with
      | .error e => { s with file := k, ioErr := some e }
      | .ok d => dlv s k d
  else s

/-- The real client is the instance "the stack of DEcryptors, `deliver`, the flag of now". -/
theorem readTick_eq_G (P : LoginParams) (z : ZlibOps) (E : Bytes → Bytes) (C : CbProfile)
    (s : InState) :
    readTick P z E C s = readTickG (layersX E) z C (deliver P) s.cs.threshold.isSome s := rfl

def flushTick (P : LoginParams) (s : InState) : InState :=
  if s.ioErr.isSome then s else { s with cs := step P s.cs .flush }

/-- Fault 1 — only `connection.socket` is wrapped, `connection.file_object` is left alone. -/
def deliverNoWrap (P : LoginParams) (s : InState) (k : FileObj) : Option LoginEv → InState
  | none => { s with file := k }
  | some ev => { s with cs := react P s.cs ev, file := k, seen := s.seen ++ [ev] }

def runNoWrap (P : LoginParams) (z : ZlibOps) (E : Bytes → Bytes) (C : CbProfile)
    (ticks : List Tick) (segs : Segs) : InState :=
  ticks.foldl (fun s t => match t with
    | .flush => flushTick P s
    | .read => readTickG (layersX E) z C (deliverNoWrap P) s.cs.threshold.isSome s) (.init segs)

/-- Fault 2 — the file wrapper is handed the ENCRYPTOR context: `update` XORs with the same key
stream but shifts its own OUTPUT into the register instead of the cipher text. -/
def layersEnc (E : Bytes → Bytes) : List Bytes → Bytes → List Bytes × Bytes
  | [], b => ([], b)
  | r :: rs, b =>
    let d := cfb8Enc E r b
    let q := layersEnc E rs d.2
    (d.1 :: q.1, q.2)

def layersEncX (E : Bytes → Bytes) : StreamXform (List Bytes) where
  update := layersEnc E
  len := by
    intro regs b
    induction regs generalizing b with
    | nil => rfl
    | cons r rs ih => simp only [layersEnc, ih, cfb8Enc_length]
  chunk := by
    intro regs a b
    induction regs generalizing a b with
    | nil => rfl
    | cons r rs ih => simp only [layersEnc, cfb8Enc_append, ih]

def runEncCtx (P : LoginParams) (z : ZlibOps) (E : Bytes → Bytes) (C : CbProfile)
    (ticks : List Tick) (segs : Segs) : InState :=
  ticks.foldl (fun s t => match t with
    | .flush => flushTick P s
    | .read => readTickG (layersEncX E) z C (deliver P) s.cs.threshold.isSome s) (.init segs)

/-- The wrappers `_react` has installed on `connection.file_object` that a loop holding on to an
older file object has not seen yet. -/
def installPending (P : LoginParams) (s : InState) : InState :=
  { s with file := (List.replicate
      ((s.seen.filter (·.isEncRequest)).length - s.file.st.length) P.secret).foldl wrapFile s.file }

/-- Fault 3 — the read loop keeps the file object it fetched at the start of the batch
(`fo = self.connection.file_object` hoisted out of the `while`): a wrapper installed by `_react`
is used only from the next `_run` iteration on. -/
def runStale (P : LoginParams) (z : ZlibOps) (E : Bytes → Bytes) (C : CbProfile)
    (ticks : List Tick) (segs : Segs) : InState :=
  ticks.foldl (fun s t => match t with
    | .flush => flushTick P (installPending P s)
    | .read => readTickG (layersX E) z C (deliverNoWrap P) s.cs.threshold.isSome s) (.init segs)

/-- Fault 4 — read-side decompression enabled one frame late: `read_packet` is handed the flag
that was in force BEFORE the previous packet was reacted to. -/
def runLateComp (P : LoginParams) (z : ZlibOps) (E : Bytes → Bytes) (C : CbProfile)
    (ticks : List Tick) (segs : Segs) : InState :=
  (ticks.foldl (fun (sp : InState × Bool) t => match t with
    | .flush => (flushTick P sp.1, sp.2)
    | .read => (readTickG (layersX E) z C (deliver P) sp.2 sp.1, sp.1.cs.threshold.isSome))
    (.init segs, false)).1

/-! ## the profile of a row of the generated table -/

open Gen.C10Inbound in
/-- The id under which the class with this `packet_name` and these field types is registered. -/
def findEntry (name : String) (types : List String) (t : List Entry) : Option Nat :=
  (t.find? fun e => e.2.1 == name && e.2.2 == types).map (·.1)

open Gen.C10Inbound in
/-- The `CbProfile` a row of the live table amounts to — `none` unless the table is EXACTLY what
`Model/C10Inbound.lean` assumes: no id collision (`table.length = classes`), the four classes with
the modelled field types, `login success` with one of the two modelled layouts, optionally the
plugin request, and nothing else. -/
def profileOfRow (r : Row) : Option CbProfile :=
  let plug := findEntry "login plugin request" ["VarInt", "String", "TrailingByteArray"] r.table
  if r.table.length ≠ r.classes ∨ r.table.length ≠ 4 + plug.toList.length then none
  else
    match findEntry "disconnect" ["String"] r.table,
        findEntry "encryption request"
          ["String", "VarIntPrefixedByteArray", "VarIntPrefixedByteArray"] r.table,
        findEntry "set compression" ["VarInt"] r.table,
        findEntry "login success" ["String", "String"] r.table,
        findEntry "login success" ["UUID", "String"] r.table with
    | some d, some e, some c, some s, none => some ⟨d, e, s, c, plug, false⟩
    | some d, some e, some c, none, some s => some ⟨d, e, s, c, plug, true⟩
    | _, _, _, _, _ => none

/-- The profile of protocol version `v` according to the live table. -/
def profileAt (v : Nat) : Option CbProfile :=
  (Gen.C10Inbound.rows.find? fun r => r.versions.contains v).bind profileOfRow

/-- The serverbound ids of a row as `LoginWire.Ids` (the plugin response id is irrelevant where the
class is not registered: 0 is used). -/
def sbIdsOfRow (r : Gen.C10Inbound.Row) : Option Ids :=
  r.sbEncResp.map fun e => ⟨e, r.sbPlugResp.getD (if e = 0 then 1 else 0)⟩

/-! ## linear-time certificates for the version lists -/

/-- Remove `v` from the front of the first list that starts with it. -/
def popHead (v : Nat) : List (List Nat) → Option (List (List Nat))
  | [] => none
  | [] :: rest => (popHead v rest).map ([] :: ·)
  | (x :: xs) :: rest =>
    if Nat.beq x v then some (xs :: rest) else (popHead v rest).map ((x :: xs) :: ·)

/-- `vs` is an interleaving of (prefixes of) the lists `ls`: a linear-time certificate that every
element of `vs` occurs in one of them. -/
def interleaved : List Nat → List (List Nat) → Bool
  | [], _ => true
  | v :: vs, ls =>
    match popHead v ls with
    | some ls' => interleaved vs ls'
    | none => false

theorem popHead_some (v : Nat) : ∀ (ls ls' : List (List Nat)), popHead v ls = some ls' →
    (∃ l ∈ ls, v ∈ l) ∧ ∀ w, (∃ l ∈ ls', w ∈ l) → ∃ l ∈ ls, w ∈ l := by
  intro ls
  induction ls with
  | nil => intro ls' h; cases h
  | cons l rest ih =>
    intro ls' h
    cases l with
    | nil =>
      simp only [popHead, Option.map_eq_some_iff] at h
      obtain ⟨r', hr, rfl⟩ := h
      obtain ⟨i1, i2⟩ := ih r' hr
      constructor
      · obtain ⟨l, hl, hv⟩ := i1; exact ⟨l, by simp [hl], hv⟩
      · rintro w ⟨l, hl, hw⟩
        rcases List.mem_cons.mp hl with rfl | hl
        · cases hw
        · obtain ⟨l2, h2, hw2⟩ := i2 w ⟨l, hl, hw⟩; exact ⟨l2, by simp [h2], hw2⟩
    | cons x xs =>
      simp only [popHead] at h
      by_cases hx : Nat.beq x v = true
      · rw [if_pos hx] at h
        injection h with h; subst h
        have hxv : x = v := Nat.eq_of_beq_eq_true hx
        constructor
        · exact ⟨x :: xs, by simp, by simp [hxv]⟩
        · rintro w ⟨l, hl, hw⟩
          rcases List.mem_cons.mp hl with rfl | hl
          · exact ⟨x :: l, by simp, by simp [hw]⟩
          · exact ⟨l, by simp [hl], hw⟩
      · rw [if_neg hx] at h
        simp only [Option.map_eq_some_iff] at h
        obtain ⟨r', hr, rfl⟩ := h
        obtain ⟨i1, i2⟩ := ih r' hr
        constructor
        · obtain ⟨l, hl, hv⟩ := i1; exact ⟨l, by simp [hl], hv⟩
        · rintro w ⟨l, hl, hw⟩
          rcases List.mem_cons.mp hl with rfl | hl
          · exact ⟨x :: xs, by simp, hw⟩
          · obtain ⟨l2, h2, hw2⟩ := i2 w ⟨l, hl, hw⟩; exact ⟨l2, by simp [h2], hw2⟩

theorem interleaved_mem : ∀ (vs : List Nat) (ls : List (List Nat)), interleaved vs ls = true →
    ∀ v ∈ vs, ∃ l ∈ ls, v ∈ l := by
  intro vs
  induction vs with
  | nil => intro _ _ v hv; cases hv
  | cons a vs ih =>
    intro ls h v hv
    simp only [interleaved] at h
    cases hp : popHead a ls with
    | none => simp [hp] at h
    | some ls' =>
      simp only [hp] at h
      obtain ⟨p1, p2⟩ := popHead_some a ls ls' hp
      rcases List.mem_cons.mp hv with rfl | hv
      · exact p1
      · exact p2 v (ih ls' h v hv)

/-- `a` is a subsequence of `b` (linear-time certificate of inclusion). -/
def subseq : List Nat → List Nat → Bool
  | [], _ => true
  | _ :: _, [] => false
  | v :: vs, k :: ks => if Nat.beq v k then subseq vs ks else subseq (v :: vs) ks

theorem subseq_mem : ∀ (b a : List Nat), subseq a b = true → ∀ v ∈ a, v ∈ b := by
  intro b
  induction b with
  | nil =>
    intro a h v hv
    cases a with
    | nil => cases hv
    | cons x xs => simp [subseq] at h
  | cons k ks ih =>
    intro a h v hv
    cases a with
    | nil => cases hv
    | cons x xs =>
      simp only [subseq] at h
      by_cases hx : Nat.beq x k = true
      · rw [if_pos hx] at h
        have hxk : x = k := Nat.eq_of_beq_eq_true hx
        rcases List.mem_cons.mp hv with rfl | hv
        · simp [hxk]
        · exact List.mem_cons_of_mem _ (ih xs h v hv)
      · rw [if_neg hx] at h
        exact List.mem_cons_of_mem _ (ih (x :: xs) h v hv)

/-! ## concrete parameters for the examples -/

/-- Protocol 757 (≥ 391, ≥ 707), 47 (< 385), 385..390. -/
def C757 : CbProfile := ⟨0, 1, 2, 3, some 4, true⟩
def C47 : CbProfile := ⟨0, 1, 2, 3, none, false⟩
def C385 : CbProfile := ⟨1, 2, 3, 4, some 0, false⟩

/-- encrypt → compress 1 → plugin request → success (then a stray packet the login reactor never
gets to). -/
def inScript : List SrvPkt :=
  [.encRequest "srv" [7, 8] [9], .setCompression 1, .pluginRequest 5 "ch" [1],
   .success (.bin (List.replicate 16 7)) "bob", .unknown 0x26 [1, 2]]

/-- compress 64 → unknown id → plugin request → encrypt → disconnect, protocol 385 numbering. -/
def inScript385 : List SrvPkt :=
  [.setCompression 64, .unknown 9 [0xaa], .pluginRequest 300 "a" [],
   .encRequest "-" [7, 8] [9], .disconnect "{\"text\": \"Outdated server! I'm still on 1.8.9\"}"]

/-- One `_run` iteration that reads everything, then the next write phase. -/
def inBatch : List Tick := [.flush, .read, .read, .read, .read, .read, .flush]

/-- A write phase before every read. -/
def inSlow : List Tick :=
  [.flush, .read, .flush, .read, .flush, .read, .flush, .read, .flush, .read, .flush]

def inE : Bytes → Bytes := toyEK demoParams.secret

def inWire (C : CbProfile) (script : List SrvPkt) : Bytes :=
  srvWire Zlib.ident.toZlibOps inE demoParams.secret C script

def inClient (C : CbProfile) (ticks : List Tick) (segs : Segs) : InState :=
  clientRun demoParams Zlib.ident.toZlibOps inE C ticks segs

end PyCraft.LoginIn
