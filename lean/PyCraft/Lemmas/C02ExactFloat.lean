import PyCraft.Model.C02Exact
import PyCraft.Lemmas.Wire
/-!
Helper lemmas for the float part of `Props/C02Exact.lean`: IEEE-754 roundTiesToEven from binary64 to
binary32 (`roundMagF32`) is a nearest binary32 value with ties to even; the widening `widenF32` is
exact; `castF32 ∘ widenF32` is the identity.
All magnitudes are naturals in units of `2^-1074`.
-/
/- powers such as `2^925` (the binary32 subnormal spacing in units of `2^-1074`) occur as literals -/
set_option exponentiation.threshold 2200

namespace PyCraft.C02X
open PyCraft

/-! ## rounding to a multiple of `G` -/

theorem rneNat_cases (M G : Nat) :
    rneNat M G = M / G ∨ rneNat M G = M / G + 1 := by
  unfold rneNat
  simp only
  split
  · exact .inl rfl
  · split
    · exact .inr rfl
    · split
      · exact .inl rfl
      · exact .inr rfl

/-- `K·G` is within `G/2` of `M` -/
theorem rneNat_near (M G : Nat) (hG : 0 < G) :
    2 * (rneNat M G * G) ≤ 2 * M + G ∧ 2 * M ≤ 2 * (rneNat M G * G) + G := by
  have hdm := Nat.div_add_mod M G
  have hr := Nat.mod_lt M hG
  have e1 : (M / G + 1) * G = G * (M / G) + G := by rw [Nat.add_mul, Nat.mul_comm]; omega
  have e0 : (M / G) * G = G * (M / G) := Nat.mul_comm _ _
  unfold rneNat
  simp only
  split
  · rw [e0]; omega
  · split
    · rw [e1]; omega
    · split
      · rw [e0]; omega
      · rw [e1]; omega

/-- an exact tie goes to the even neighbour -/
theorem rneNat_tie (M G : Nat) (h : 2 * (M % G) = G) : rneNat M G % 2 = 0 := by
  unfold rneNat
  simp only
  split
  · omega
  · split
    · omega
    · split
      · assumption
      · omega

theorem rneNat_mul (K G : Nat) (hG : 0 < G) : rneNat (K * G) G = K := by
  unfold rneNat
  simp only [Nat.mul_mod_left, Nat.mul_div_cancel _ hG]
  have : 2 * 0 < G := by omega
  rw [if_pos this]

/-- `a·G ≤ M → a ≤ K` -/
theorem rneNat_ge (M G a : Nat) (hG : 0 < G) (h : a * G ≤ M) : a ≤ rneNat M G := by
  have : a ≤ M / G := (Nat.le_div_iff_mul_le hG).mpr h
  rcases rneNat_cases M G with e | e <;> omega

/-- `M ≤ a·G → K ≤ a` -/
theorem rneNat_le (M G a : Nat) (hG : 0 < G) (h : M ≤ a * G) : rneNat M G ≤ a := by
  have hdm := Nat.div_add_mod M G
  have hq : M / G ≤ a := by
    have : M / G ≤ a * G / G := Nat.div_le_div_right h
    rwa [Nat.mul_div_cancel _ hG] at this
  rcases Nat.lt_or_ge (M / G) a with hlt | hge
  · rcases rneNat_cases M G with e | e <;> omega
  · have hqa : M / G = a := by omega
    have hr : M % G = 0 := by
      rw [hqa, Nat.mul_comm] at hdm; omega
    unfold rneNat
    simp only [hr]
    have : 2 * 0 < G := by omega
    rw [if_pos this]; omega

/-- any multiple of `G` is at least as far from `M` as the rounded one; at equal distance and
different, the rounded multiplier is even -/
theorem rneNat_best (M G K' : Nat) (hG : 0 < G) :
    absDiff (rneNat M G * G) M ≤ absDiff (K' * G) M ∧
    (absDiff (rneNat M G * G) M = absDiff (K' * G) M → K' ≠ rneNat M G → rneNat M G % 2 = 0) := by
  obtain ⟨n1, n2⟩ := rneNat_near M G hG
  have hdm := Nat.div_add_mod M G
  have hr := Nat.mod_lt M hG
  have hgap : K' ≠ rneNat M G → K' * G + G ≤ rneNat M G * G ∨ rneNat M G * G + G ≤ K' * G := by
    intro hne
    rcases Nat.lt_or_gt_of_ne hne with h | h
    · left
      have : (K' + 1) * G ≤ rneNat M G * G := Nat.mul_le_mul_right _ h
      rw [Nat.add_mul] at this; omega
    · right
      have : (rneNat M G + 1) * G ≤ K' * G := Nat.mul_le_mul_right _ h
      rw [Nat.add_mul] at this; omega
  unfold absDiff
  by_cases hk : K' = rneNat M G
  · subst hk; exact ⟨Nat.le_refl _, fun _ h => absurd rfl h⟩
  · refine ⟨by have := hgap hk; omega, fun heq _ => ?_⟩
    have hg := hgap hk
    -- equal distance forces 2·|KG − M| = G, i.e. a tie
    have htie : 2 * (M % G) = G := by
      rcases rneNat_cases M G with e | e
      · have e0 : rneNat M G * G = G * (M / G) := by rw [e, Nat.mul_comm]
        omega
      · have e1 : rneNat M G * G = G * (M / G) + G := by
          rw [e, Nat.add_mul, Nat.mul_comm]; omega
        omega
    exact rneNat_tie M G htie

/-! ## packing significand and exponent -/

theorem two_pow_23 : (2 : Nat) ^ 23 = 8388608 := by decide
theorem two_pow_24 : (2 : Nat) ^ 24 = 16777216 := by decide

/-- the pattern `e·2^23 + K` (`K ≤ 2^24`; `K ≥ 2^23` unless `e = 0`) denotes `K·2^e` — the carry of
`K = 2^24` into the exponent field included -/
theorem f32Mag_compose (e K : Nat) (hK : K ≤ 2 ^ 24) (he : e = 0 ∨ 2 ^ 23 ≤ K) :
    f32Mag (e * 2 ^ 23 + K) = K * 2 ^ e := by
  unfold f32Mag
  simp only [two_pow_23, two_pow_24] at *
  rcases Nat.lt_or_ge K 8388608 with h1 | h1
  · have he0 : e = 0 := by omega
    subst he0
    have a : (0 * 8388608 + K) / 8388608 = 0 := by omega
    have b : (0 * 8388608 + K) % 8388608 = K := by omega
    rw [a, b]; simp
  · rcases Nat.lt_or_ge K 16777216 with h2 | h2
    · have a : (e * 8388608 + K) / 8388608 = e + 1 := by omega
      have b : (e * 8388608 + K) % 8388608 = K - 8388608 := by omega
      rw [a, b]
      have h0 : e + 1 ≠ 0 := by omega
      have h3 : 8388608 + (K - 8388608) = K := by omega
      have h4 : e + 1 - 1 = e := by omega
      rw [if_neg h0, h3, h4]
    · have hK' : K = 16777216 := by omega
      subst hK'
      have a : (e * 8388608 + 16777216) / 8388608 = e + 2 := by omega
      have b : (e * 8388608 + 16777216) % 8388608 = 0 := by omega
      rw [a, b]
      have h0 : e + 2 ≠ 0 := by omega
      have h4 : e + 2 - 1 = e + 1 := by omega
      rw [if_neg h0, h4, Nat.pow_succ]
      omega

theorem f32Quantum_ge (M : Nat) : 925 ≤ f32Quantum M := by
  unfold f32Quantum; exact Nat.le_max_right _ _

theorem f32Quantum_cases (M : Nat) :
    (M.log2 - 23 < 925 ∧ f32Quantum M = 925) ∨ (925 ≤ M.log2 - 23 ∧ f32Quantum M = M.log2 - 23) := by
  unfold f32Quantum
  rcases Nat.lt_or_ge (M.log2 - 23) 925 with h | h
  · exact .inl ⟨h, Nat.max_eq_right (by omega)⟩
  · exact .inr ⟨h, Nat.max_eq_left h⟩

/-- the rounded significand lies in `[2^23, 2^24]` above the subnormal range and in `[0, 2^24]` in it -/
theorem quantum_sig (M : Nat) (hM : M ≠ 0) :
    rneNat M (2 ^ f32Quantum M) ≤ 2 ^ 24 ∧
    (f32Quantum M - 925 = 0 ∨ 2 ^ 23 ≤ rneNat M (2 ^ f32Quantum M)) := by
  have hlo := Nat.log2_self_le hM
  have hhi := @Nat.lt_log2_self M
  have hG : 0 < 2 ^ f32Quantum M := Nat.two_pow_pos _
  rcases f32Quantum_cases M with ⟨h, hq⟩ | ⟨h, hq⟩
  · rw [hq] at hG ⊢
    refine ⟨?_, .inl rfl⟩
    apply rneNat_le _ _ _ hG
    have h1 : 2 ^ (M.log2 + 1) ≤ 2 ^ (24 + 925) := Nat.pow_le_pow_right (by omega) (by omega)
    rw [Nat.pow_add] at h1
    exact Nat.le_trans (Nat.le_of_lt hhi) h1
  · rw [hq] at hG ⊢
    have e1 : 2 ^ M.log2 = 2 ^ 23 * 2 ^ (M.log2 - 23) := by
      rw [← Nat.pow_add]; congr 1; omega
    have e2 : 2 ^ (M.log2 + 1) = 2 ^ 24 * 2 ^ (M.log2 - 23) := by
      rw [← Nat.pow_add]; congr 1; omega
    rw [e1] at hlo
    rw [e2] at hhi
    exact ⟨rneNat_le _ _ _ hG (Nat.le_of_lt hhi), .inr (rneNat_ge _ _ _ hG hlo)⟩

/-- the value denoted by the rounded pattern is `K·2^qe` units -/
theorem roundMagF32_value (M : Nat) (hM : M ≠ 0) :
    f32Mag (roundMagF32 M) * 2 ^ 925 = rneNat M (2 ^ f32Quantum M) * 2 ^ f32Quantum M := by
  obtain ⟨h1, h2⟩ := quantum_sig M hM
  unfold roundMagF32
  rw [if_neg hM]
  simp only
  rw [f32Mag_compose _ _ h1 h2, Nat.mul_assoc, ← Nat.pow_add]
  have h3 : f32Quantum M - 925 + 925 = f32Quantum M := by
    have := f32Quantum_ge M
    omega
  rw [h3]

/-- every binary32 value is `mant·2^x` units with `mant < 2^24`, `x ≥ 925` -/
theorem f32Mag_form (r' : Nat) :
    ∃ mant x, mant < 2 ^ 24 ∧ 925 ≤ x ∧ f32Mag r' * 2 ^ 925 = mant * 2 ^ x := by
  unfold f32Mag
  simp only
  have hF : r' % 2 ^ 23 < 2 ^ 23 := Nat.mod_lt _ (Nat.two_pow_pos _)
  rw [two_pow_23] at hF
  split
  · exact ⟨r' % 2 ^ 23, 925, by rw [two_pow_24, two_pow_23]; omega, Nat.le_refl _, rfl⟩
  · refine ⟨2 ^ 23 + r' % 2 ^ 23, r' / 2 ^ 23 - 1 + 925, ?_, Nat.le_add_left _ _, ?_⟩
    · rw [two_pow_24, two_pow_23]; omega
    · rw [Nat.mul_assoc, ← Nat.pow_add]

/-- every binary32 value is either a multiple of the spacing at `M` or lies below `2^⌊log2 M⌋` (and
then `M` is above the subnormal range) -/
theorem f32Mag_grid (M r' : Nat) :
    (∃ K', f32Mag r' * 2 ^ 925 = K' * 2 ^ f32Quantum M) ∨
    (f32Mag r' * 2 ^ 925 < 2 ^ M.log2 ∧ f32Quantum M = M.log2 - 23 ∧ 23 ≤ M.log2) := by
  obtain ⟨mant, x, hm, hx9, hv⟩ := f32Mag_form r'
  rw [hv]
  rcases Nat.lt_or_ge x (f32Quantum M) with hx | hx
  · right
    rcases f32Quantum_cases M with ⟨h, hq⟩ | ⟨h, hq⟩
    · omega
    · refine ⟨?_, hq, by omega⟩
      have h1 : mant * 2 ^ x < 2 ^ 24 * 2 ^ x :=
        Nat.mul_lt_mul_of_lt_of_le hm (Nat.le_refl _) (Nat.two_pow_pos _)
      have h2 : 2 ^ 24 * 2 ^ x ≤ 2 ^ M.log2 := by
        rw [← Nat.pow_add]; exact Nat.pow_le_pow_right (by omega) (by omega)
      exact Nat.lt_of_lt_of_le h1 h2
  · left
    refine ⟨mant * 2 ^ (x - f32Quantum M), ?_⟩
    have h3 : x - f32Quantum M + f32Quantum M = x := by omega
    rw [Nat.mul_assoc, ← Nat.pow_add, h3]

/-! ## the rounded pattern denotes a nearest binary32 value, ties to even -/

theorem roundMagF32_parity (M : Nat) (hM : M ≠ 0) :
    roundMagF32 M % 2 = rneNat M (2 ^ f32Quantum M) % 2 := by
  unfold roundMagF32
  rw [if_neg hM]
  simp only [two_pow_23]
  omega

theorem roundMagF32_nearest (M r' : Nat) :
    absDiff (f32Mag (roundMagF32 M) * 2 ^ 925) M ≤ absDiff (f32Mag r' * 2 ^ 925) M ∧
    (absDiff (f32Mag (roundMagF32 M) * 2 ^ 925) M = absDiff (f32Mag r' * 2 ^ 925) M →
      f32Mag r' * 2 ^ 925 ≠ f32Mag (roundMagF32 M) * 2 ^ 925 → roundMagF32 M % 2 = 0) := by
  by_cases hM : M = 0
  · subst hM
    have h0 : f32Mag (roundMagF32 0) * 2 ^ 925 = 0 := by
      simp [roundMagF32, f32Mag]
    rw [h0]
    refine ⟨by simp [absDiff], fun h hne => ?_⟩
    simp only [absDiff, Nat.zero_sub, Nat.sub_zero, Nat.add_zero] at h
    exact absurd h.symm hne
  · have hG : 0 < 2 ^ f32Quantum M := Nat.two_pow_pos _
    rw [roundMagF32_value M hM, roundMagF32_parity M hM]
    rcases f32Mag_grid M r' with ⟨K', hK'⟩ | ⟨hlt, hq, hb⟩
    · rw [hK']
      obtain ⟨b1, b2⟩ := rneNat_best M (2 ^ f32Quantum M) K' hG
      refine ⟨b1, fun h hne => b2 h (fun e => hne (by rw [e]))⟩
    · have hlo := Nat.log2_self_le hM
      have e1 : 2 ^ M.log2 = 2 ^ 23 * 2 ^ f32Quantum M := by
        rw [hq, ← Nat.pow_add]; congr 1; omega
      obtain ⟨b1, _⟩ := rneNat_best M (2 ^ f32Quantum M) (2 ^ 23) hG
      rw [← e1] at b1
      have hstrict : absDiff (rneNat M (2 ^ f32Quantum M) * 2 ^ f32Quantum M) M
          < absDiff (f32Mag r' * 2 ^ 925) M := by
        unfold absDiff at b1 ⊢
        omega
      exact ⟨Nat.le_of_lt hstrict, fun h _ => absurd h (Nat.ne_of_lt hstrict)⟩

/-! ## overflow threshold -/

theorem roundMagF32_overflow_iff (M : Nat) :
    f32InfPat ≤ roundMagF32 M ↔ 2 ^ 1202 - 2 ^ 1177 ≤ M := by
  by_cases hM : M = 0
  · subst hM
    simp [roundMagF32, f32InfPat]
  have hlo := Nat.log2_self_le hM
  have hhi := @Nat.lt_log2_self M
  obtain ⟨k1, k2⟩ := quantum_sig M hM
  have hnear := rneNat_near M (2 ^ f32Quantum M) (Nat.two_pow_pos _)
  unfold roundMagF32
  rw [if_neg hM]
  simp only [f32InfPat, two_pow_23, two_pow_24] at *
  constructor
  · intro h
    have hcase : 254 ≤ f32Quantum M - 925 ∨
        (f32Quantum M - 925 = 253 ∧ rneNat M (2 ^ f32Quantum M) = 16777216) := by omega
    rcases hcase with h254 | ⟨h253, hK⟩
    · rcases f32Quantum_cases M with ⟨_, hq⟩ | ⟨_, hq⟩
      · omega
      · have : 2 ^ 1202 ≤ 2 ^ M.log2 := Nat.pow_le_pow_right (by omega) (by omega)
        omega
    · have hq : f32Quantum M = 1178 := by omega
      rw [hq] at hK
      rw [hq, hK] at hnear
      omega
  · intro h
    have hb : 1201 ≤ M.log2 := by
      rw [Nat.le_log2 hM]; omega
    rcases f32Quantum_cases M with ⟨_, hq⟩ | ⟨_, hq⟩
    · omega
    · rcases Nat.lt_or_ge M.log2 1202 with hb' | hb'
      · have hb1 : M.log2 = 1201 := by omega
        have hq' : f32Quantum M = 1178 := by omega
        rw [hb1] at hhi
        rw [hq'] at k1 k2 ⊢
        have hK : 16777216 ≤ rneNat M (2 ^ 1178) := by
          unfold rneNat
          simp only
          split
          · omega
          · split
            · omega
            · split <;> omega
        omega
      · omega

/-! ## widening is exact, and narrowing undoes it -/

theorem log2_mul_two_pow (a k : Nat) (ha : a ≠ 0) : (a * 2 ^ k).log2 = a.log2 + k := by
  have hp : 0 < 2 ^ k := Nat.two_pow_pos _
  have hne : a * 2 ^ k ≠ 0 := Nat.mul_ne_zero ha (by omega)
  rw [Nat.log2_eq_iff hne]
  constructor
  · rw [Nat.pow_add]; exact Nat.mul_le_mul_right _ (Nat.log2_self_le ha)
  · have : 2 ^ (a.log2 + k + 1) = 2 ^ (a.log2 + 1) * 2 ^ k := by
      rw [← Nat.pow_add]; congr 1; omega
    rw [this]
    exact Nat.mul_lt_mul_of_lt_of_le (@Nat.lt_log2_self a) (Nat.le_refl _) hp

theorem roundMagF32_exact_sub (F : Nat) (hF : F < 2 ^ 23) : roundMagF32 (F * 2 ^ 925) = F := by
  by_cases hF0 : F = 0
  · subst hF0; simp [roundMagF32]
  have hne : F * 2 ^ 925 ≠ 0 := Nat.mul_ne_zero hF0 (by have := Nat.two_pow_pos 925; omega)
  have hl : F.log2 < 23 := (Nat.log2_lt hF0).mpr hF
  have hq : f32Quantum (F * 2 ^ 925) = 925 := by
    unfold f32Quantum
    rw [log2_mul_two_pow _ _ hF0]
    exact Nat.max_eq_right (by omega)
  unfold roundMagF32
  rw [if_neg hne]
  simp only [hq, rneNat_mul _ _ (Nat.two_pow_pos 925)]
  omega

theorem roundMagF32_exact_norm (E F : Nat) (hE0 : E ≠ 0) (hF : F < 2 ^ 23) :
    roundMagF32 ((2 ^ 23 + F) * 2 ^ (E - 1) * 2 ^ 925) = E * 2 ^ 23 + F := by
  have hs : 2 ^ 23 + F ≠ 0 := by have := Nat.two_pow_pos 23; omega
  have hl : (2 ^ 23 + F).log2 = 23 := by
    rw [Nat.log2_eq_iff hs]
    rw [two_pow_23] at hF ⊢
    rw [two_pow_24]; omega
  have hval : (2 ^ 23 + F) * 2 ^ (E - 1) * 2 ^ 925 = (2 ^ 23 + F) * 2 ^ (E - 1 + 925) := by
    rw [Nat.mul_assoc, ← Nat.pow_add]
  rw [hval]
  have hne : (2 ^ 23 + F) * 2 ^ (E - 1 + 925) ≠ 0 :=
    Nat.mul_ne_zero hs (by have := Nat.two_pow_pos (E - 1 + 925); omega)
  have hq : f32Quantum ((2 ^ 23 + F) * 2 ^ (E - 1 + 925)) = E - 1 + 925 := by
    unfold f32Quantum
    rw [log2_mul_two_pow _ _ hs, hl]
    have : 23 + (E - 1 + 925) - 23 = E - 1 + 925 := by omega
    rw [this]
    exact Nat.max_eq_left (by omega)
  unfold roundMagF32
  rw [if_neg hne]
  simp only [hq, rneNat_mul _ _ (Nat.two_pow_pos _)]
  have h4 : E - 1 + 925 - 925 = E - 1 := by omega
  rw [h4, two_pow_23]
  clear hval hne hq hl hs
  omega

/-- rounding a value that already is a binary32 gives that binary32 back -/
theorem roundMagF32_exact (m : Nat) (_hf : m / 2 ^ 23 < 255) :
    roundMagF32 (f32Mag m * 2 ^ 925) = m := by
  have hdm := Nat.div_add_mod m (2 ^ 23)
  have hF : m % 2 ^ 23 < 2 ^ 23 := Nat.mod_lt _ (Nat.two_pow_pos _)
  unfold f32Mag
  simp only
  by_cases hE : m / 2 ^ 23 = 0
  · rw [if_pos hE, roundMagF32_exact_sub _ hF]
    rw [hE] at hdm; omega
  · rw [if_neg hE, roundMagF32_exact_norm _ _ hE hF]
    rw [Nat.mul_comm] at hdm; exact hdm

theorem widen_sub (s F x : Nat) (hs : s ≤ 1) (hF0 : F ≠ 0) (hF : F < 2 ^ 23)
    (hx : x = s * 2 ^ 63 + (F.log2 + 874) * 2 ^ 52 + (F * 2 ^ (52 - F.log2) - 2 ^ 52)) :
    x / 2 ^ 63 = s ∧ x < 2 ^ 64 ∧ x % 2 ^ 63 / 2 ^ 52 ≠ 2047 ∧ f64Mag (x % 2 ^ 63) = F * 2 ^ 925 := by
  have hl : F.log2 < 23 := (Nat.log2_lt hF0).mpr hF
  have hlo := Nat.log2_self_le hF0
  have hhi := @Nat.lt_log2_self F
  have a1 : 2 ^ 52 ≤ F * 2 ^ (52 - F.log2) := by
    have : 2 ^ 52 = 2 ^ F.log2 * 2 ^ (52 - F.log2) := by
      rw [← Nat.pow_add]; congr 1; omega
    rw [this]; exact Nat.mul_le_mul_right _ hlo
  have a2 : F * 2 ^ (52 - F.log2) < 2 ^ 53 := by
    have : 2 ^ 53 = 2 ^ (F.log2 + 1) * 2 ^ (52 - F.log2) := by
      rw [← Nat.pow_add]; congr 1; omega
    rw [this]
    exact Nat.mul_lt_mul_of_lt_of_le hhi (Nat.le_refl _) (Nat.two_pow_pos _)
  have d5 : 52 - F.log2 + (F.log2 + 874 - 1) = 925 := by omega
  have d3 : F.log2 + 874 ≠ 0 := by omega
  clear hlo hhi
  generalize hfr : F * 2 ^ (52 - F.log2) = sig at a1 a2 hx
  generalize F.log2 = l at *
  have d4 : 2 ^ 52 + (sig - 2 ^ 52) = sig := by omega
  have m1 : x % 2 ^ 63 = (l + 874) * 2 ^ 52 + (sig - 2 ^ 52) := by omega
  have d1 : ((l + 874) * 2 ^ 52 + (sig - 2 ^ 52)) / 2 ^ 52 = l + 874 := by omega
  have d2 : ((l + 874) * 2 ^ 52 + (sig - 2 ^ 52)) % 2 ^ 52 = sig - 2 ^ 52 := by omega
  refine ⟨by omega, by omega, by omega, ?_⟩
  rw [m1]
  unfold f64Mag
  simp only
  rw [d1, d2, if_neg d3, d4, ← hfr, Nat.mul_assoc, ← Nat.pow_add, d5]

theorem widen_norm (s E F x : Nat) (hs : s ≤ 1) (hE0 : E ≠ 0) (hE : E < 255) (hF : F < 2 ^ 23)
    (hx : x = s * 2 ^ 63 + (E + 896) * 2 ^ 52 + F * 2 ^ 29) :
    x / 2 ^ 63 = s ∧ x < 2 ^ 64 ∧ x % 2 ^ 63 / 2 ^ 52 ≠ 2047 ∧
      f64Mag (x % 2 ^ 63) = (2 ^ 23 + F) * 2 ^ (E - 1) * 2 ^ 925 := by
  have d3 : E + 896 ≠ 0 := by omega
  have d4 : 2 ^ 52 + F * 2 ^ 29 = (2 ^ 23 + F) * 2 ^ 29 := by omega
  have d5 : 29 + (E + 896 - 1) = E - 1 + 925 := by omega
  have m1 : x % 2 ^ 63 = (E + 896) * 2 ^ 52 + F * 2 ^ 29 := by omega
  have d1 : ((E + 896) * 2 ^ 52 + F * 2 ^ 29) / 2 ^ 52 = E + 896 := by omega
  have d2 : ((E + 896) * 2 ^ 52 + F * 2 ^ 29) % 2 ^ 52 = F * 2 ^ 29 := by omega
  refine ⟨by omega, by omega, by omega, ?_⟩
  rw [m1]
  unfold f64Mag
  simp only
  rw [d1, d2, if_neg d3, d4, Nat.mul_assoc, Nat.mul_assoc, ← Nat.pow_add, ← Nat.pow_add, d5]

/-- the widened pattern of a finite binary32: same sign, finite, same value -/
theorem widenF32_finite (r : Nat) (hr : r < 2 ^ 32) (hf : r % 2 ^ 31 / 2 ^ 23 ≠ 255) :
    widenF32 r / 2 ^ 63 = r / 2 ^ 31 ∧ widenF32 r < 2 ^ 64 ∧
    widenF32 r % 2 ^ 63 / 2 ^ 52 ≠ 2047 ∧
    f64Mag (widenF32 r % 2 ^ 63) = f32Mag (r % 2 ^ 31) * 2 ^ 925 := by
  have hs : r / 2 ^ 31 ≤ 1 := by omega
  have hE : r % 2 ^ 31 / 2 ^ 23 < 255 := by omega
  have hF : r % 2 ^ 31 % 2 ^ 23 < 2 ^ 23 := Nat.mod_lt _ (Nat.two_pow_pos _)
  unfold widenF32 f32Mag
  simp only
  generalize r / 2 ^ 31 = s at *
  generalize r % 2 ^ 31 / 2 ^ 23 = E at *
  generalize r % 2 ^ 31 % 2 ^ 23 = F at *
  rw [if_neg hf]
  by_cases hE0 : E = 0
  · simp only [if_pos hE0]
    by_cases hF0 : F = 0
    · rw [if_pos hF0]
      subst hF0
      have h1 : s * 2 ^ 63 % 2 ^ 63 = 0 := by omega
      refine ⟨by omega, by omega, by omega, ?_⟩
      rw [h1]; simp [f64Mag]
    · rw [if_neg hF0]
      exact widen_sub s F _ hs hF0 hF rfl
  · simp only [if_neg hE0]
    exact widen_norm s E F _ hs hE0 hE hF rfl

theorem cast_inf (s : Nat) (_hs : s ≤ 1) :
    castF32 (s * 2 ^ 63 + f64InfPat + 0) = s * 2 ^ 31 + f32InfPat := by
  simp only [f32InfPat, f64InfPat]
  unfold castF32
  simp only [f32InfPat]
  have a : (s * 2 ^ 63 + 9218868437227405312 + 0) % 2 ^ 63 / 2 ^ 52 = 2047 := by omega
  have b : (s * 2 ^ 63 + 9218868437227405312 + 0) % 2 ^ 63 % 2 ^ 52 = 0 := by omega
  have c : (s * 2 ^ 63 + 9218868437227405312 + 0) / 2 ^ 63 = s := by omega
  rw [a, b, c]; simp only [if_true]

theorem cast_qnan (s F : Nat) (_hs : s ≤ 1) (hF : F < 2 ^ 23) (hge : 2 ^ 22 ≤ F) :
    castF32 (s * 2 ^ 63 + f64InfPat + (2 ^ 51 + F % 2 ^ 22 * 2 ^ 29)) = s * 2 ^ 31 + f32InfPat + F := by
  simp only [f32InfPat, f64InfPat]
  unfold castF32
  simp only [f32InfPat]
  have a : (s * 2 ^ 63 + 9218868437227405312 + (2 ^ 51 + F % 2 ^ 22 * 2 ^ 29)) % 2 ^ 63
      / 2 ^ 52 = 2047 := by omega
  have b : (s * 2 ^ 63 + 9218868437227405312 + (2 ^ 51 + F % 2 ^ 22 * 2 ^ 29)) % 2 ^ 63
      % 2 ^ 52 = 2 ^ 51 + F % 2 ^ 22 * 2 ^ 29 := by omega
  have c : (s * 2 ^ 63 + 9218868437227405312 + (2 ^ 51 + F % 2 ^ 22 * 2 ^ 29)) / 2 ^ 63
      = s := by omega
  rw [a, b, c]
  have d : 2 ^ 51 + F % 2 ^ 22 * 2 ^ 29 ≠ 0 := by omega
  simp only [if_true, if_neg d]
  omega

/-- narrowing after widening is the identity on every binary32 pattern that is not a signalling NaN -/
theorem castF32_widenF32 (r : Nat) (hr : r < 2 ^ 32)
    (hq : r % 2 ^ 31 / 2 ^ 23 = 255 → r % 2 ^ 23 = 0 ∨ 2 ^ 22 ≤ r % 2 ^ 23) :
    castF32 (widenF32 r) = r := by
  have hs : r / 2 ^ 31 ≤ 1 := by omega
  by_cases hf : r % 2 ^ 31 / 2 ^ 23 = 255
  · have hq' := hq hf
    have hmm : r % 2 ^ 31 % 2 ^ 23 = r % 2 ^ 23 := by omega
    have hF : r % 2 ^ 23 < 2 ^ 23 := Nat.mod_lt _ (Nat.two_pow_pos _)
    unfold widenF32
    simp only [hf, if_true, hmm]
    by_cases hF0 : r % 2 ^ 23 = 0
    · rw [if_pos hF0, cast_inf _ hs]
      unfold f32InfPat; omega
    · rw [if_neg hF0, cast_qnan _ _ hs hF (by omega)]
      unfold f32InfPat; omega
  · obtain ⟨w1, w2, w3, w4⟩ := widenF32_finite r hr hf
    have hE : r % 2 ^ 31 / 2 ^ 23 < 255 := by omega
    unfold castF32
    simp only
    rw [if_neg w3, w1, w4, roundMagF32_exact _ hE]
    have : min (r % 2 ^ 31) f32InfPat = r % 2 ^ 31 := by
      apply Nat.min_eq_left
      unfold f32InfPat; omega
    rw [this]; omega

/-! ## the byte layer under `Float` / `Double` -/

theorem pack_nat (cc : CustomCodec) (t : IntT) (ht : t.signed = false) (y : Nat)
    (hy : y < 256 ^ t.width) (rest : Bytes) :
    ∃ bs, encode cc (.int t) (.int (y : Int)) = .ok bs ∧ bs.length = t.width ∧ beValue bs = y ∧
      decode cc (.int t) (bs ++ rest) = .ok (.int (y : Int), rest) := by
  have hd : t.inDom (y : Int) := by
    unfold IntT.inDom
    rw [if_neg (by simp [ht])]
    refine ⟨Int.natCast_nonneg _, ?_⟩
    rw [← pow256_cast]; exact Int.ofNat_lt.mpr hy
  obtain ⟨bs, h1, h2, h3⟩ := t.unpack_pack _ hd
  obtain ⟨bs', h1', _, h3'⟩ := t.pack_spec _ hd
  rw [h1] at h1'; cases h1'
  refine ⟨bs, h1, h2, ?_, by rw [decode, h3]; rfl⟩
  rw [← pow256_cast] at h3'
  have : ((beValue bs : Nat) : Int) = ((y % 256 ^ t.width : Nat) : Int) := by
    rw [h3']; exact (Int.natCast_emod _ _).symm
  have := Int.ofNat_inj.mp this
  rw [this, Nat.mod_eq_of_lt hy]

theorem pack_f32 (cc : CustomCodec) (y : Nat) (hy : y < 2 ^ 32) (rest : Bytes) :
    ∃ bs, encode cc (.int .f32) (.int (y : Int)) = .ok bs ∧ bs.length = 4 ∧ beValue bs = y ∧
      decode cc (.int .f32) (bs ++ rest) = .ok (.int (y : Int), rest) :=
  pack_nat cc .f32 rfl y (by simpa [IntT.width] using hy) rest

theorem pack_f64 (cc : CustomCodec) (x : Nat) (hx : x < 2 ^ 64) (rest : Bytes) :
    ∃ bs, encode cc (.int .f64) (.int (x : Int)) = .ok bs ∧ bs.length = 8 ∧ beValue bs = x ∧
      decode cc (.int .f64) (bs ++ rest) = .ok (.int (x : Int), rest) :=
  pack_nat cc .f64 rfl x (by simpa [IntT.width] using hx) rest

/-- decoding any `width` bytes of an unsigned code yields their big-endian value -/
theorem unpack_nat (cc : CustomCodec) (t : IntT) (ht : t.signed = false) (bs rest : Bytes)
    (hb : bs.length = t.width) :
    decode cc (.int t) (bs ++ rest) = .ok (.int (beValue bs : Int), rest) := by
  simp only [decode, IntT.unpack, ht, Bool.false_eq_true, if_false, unpackU, takeN_append' _ bs rest hb]
  rfl

theorem castF32_finite (x : Nat) (hf : x % 2 ^ 63 / 2 ^ 52 ≠ 2047) :
    castF32 x = x / 2 ^ 63 * 2 ^ 31 + min (roundMagF32 (f64Mag (x % 2 ^ 63))) f32InfPat := by
  unfold castF32
  simp only [if_neg hf]

theorem castF32_lt (x : Nat) (hx : x < 2 ^ 64) : castF32 x < 2 ^ 32 := by
  have hs : x / 2 ^ 63 ≤ 1 := by omega
  unfold castF32
  simp only [f32InfPat]
  split
  · split
    · omega
    · have : x % 2 ^ 63 % 2 ^ 52 / 2 ^ 29 % 2 ^ 22 < 2 ^ 22 := Nat.mod_lt _ (Nat.two_pow_pos _)
      omega
  · have := Nat.min_le_right (roundMagF32 (f64Mag (x % 2 ^ 63))) 2139095040
    omega

end PyCraft.C02X
