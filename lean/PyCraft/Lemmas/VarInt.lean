import PyCraft.Model.VarInt
namespace PyCraft

theorem and7F (n : Nat) : n &&& 0x7F = n % 128 := by
  have := Nat.and_two_pow_sub_one_eq_mod n 7
  simpa using this

theorem and80_lt : ∀ n < 128, n &&& 0x80 = 0 := by decide
theorem and80_ge : ∀ n < 256, 128 ≤ n → n &&& 0x80 ≠ 0 := by decide +kernel
theorem and80_zero_lt : ∀ n < 256, n &&& 0x80 = 0 → n < 128 := by decide +kernel

theorem acc_or (acc x be : Nat) (h : acc < 2 ^ (7 * be)) :
    acc ||| (x <<< (7 * be)) = acc + x * 2 ^ (7 * be) := by
  rw [Nat.or_comm, Nat.shiftLeft_eq, Nat.add_comm]
  have := Nat.shiftLeft_add_eq_or_of_lt h x
  rw [Nat.shiftLeft_eq] at this
  exact this.symm

theorem u8_ofNat_toNat (n : Nat) (h : n < 256) : (UInt8.ofNat n).toNat = n := by
  simp [UInt8.toNat_ofNat']; omega

theorem dec_enc_aux (mx : Nat) (n : Nat) : ∀ (be acc : Nat) (rest : Bytes),
    acc < 2 ^ (7 * be) → n < 2 ^ (7 * (mx + 1 - be)) → be ≤ mx →
    decVarIntAux mx be acc (encVarInt n ++ rest) = .ok (acc + n * 2 ^ (7 * be), rest) := by
  induction n using Nat.strongRecOn with
  | _ n ih =>
    intro be acc rest hacc hn hbe
    unfold encVarInt
    split
    · next h =>
      simp only [List.cons_append, List.nil_append, decVarIntAux]
      rw [u8_ofNat_toNat n (by omega), and7F, and80_lt n h, acc_or _ _ _ hacc]
      simp [Nat.mod_eq_of_lt h]
    · next h =>
      simp only [List.cons_append, decVarIntAux]
      rw [u8_ofNat_toNat _ (by omega), and7F, acc_or _ _ _ hacc]
      have h2 : (n % 128 + 128) &&& 0x80 ≠ 0 := and80_ge _ (by omega) (by omega)
      rw [if_neg h2]
      have hlt : be < mx := by
        rcases Nat.lt_or_ge be mx with h' | h'
        · exact h'
        · have hb : mx + 1 - be = 1 := by omega
          rw [hb] at hn; simp at hn; omega
      rw [if_neg (by omega)]
      have hpow : 2 ^ (7 * (be + 1)) = 2 ^ (7 * be) * 128 := by
        rw [Nat.mul_add, Nat.pow_add]
      rw [ih (n / 128) (by omega) (be + 1) _ rest]
      · rw [hpow]
        have : (n % 128 + 128) % 128 = n % 128 := by omega
        rw [this]
        have := Nat.div_add_mod n 128
        have e : acc + n % 128 * 2 ^ (7 * be) + n / 128 * (2 ^ (7 * be) * 128)
            = acc + (128 * (n / 128) + n % 128) * 2 ^ (7 * be) := by
              rw [Nat.add_mul, Nat.mul_comm (2 ^ (7*be)) 128, ← Nat.mul_assoc,
                Nat.mul_comm (n/128) 128]; omega
        rw [e, this]
      · rw [hpow]
        have : (n % 128 + 128) % 128 = n % 128 := by omega
        rw [this]
        have hm : n % 128 < 128 := Nat.mod_lt _ (by omega)
        calc acc + n % 128 * 2 ^ (7 * be) < 2 ^ (7 * be) + 127 * 2 ^ (7 * be) := by
              have : n % 128 * 2 ^ (7 * be) ≤ 127 * 2 ^ (7 * be) :=
                Nat.mul_le_mul_right _ (by omega)
              omega
          _ = 2 ^ (7 * be) * 128 := by omega
      · have : 7 * (mx + 1 - be) = 7 * (mx + 1 - (be + 1)) + 7 := by omega
        rw [this, Nat.pow_add] at hn
        have : (2:Nat) ^ 7 = 128 := rfl
        rw [this] at hn
        exact Nat.div_lt_of_lt_mul (by rw [Nat.mul_comm]; exact hn)
      · omega

/-- The value denoted by a little-endian base-128 digit string (low 7 bits of each byte). -/
def leValue : Bytes → Nat
  | [] => 0
  | b :: rest => b.toNat % 128 + 128 * leValue rest

/-- Canonical shape: every byte but the last has the continuation bit, the last does not, and the
last group is non-zero unless it is the only one. -/
def Canonical : Bytes → Prop
  | [] => False
  | [b] => b.toNat < 128
  | b :: c :: rest => 128 ≤ b.toNat ∧ Canonical (c :: rest) ∧ leValue (c :: rest) ≠ 0

theorem enc_ne_nil (n : Nat) : encVarInt n ≠ [] := by
  unfold encVarInt; split <;> simp

theorem leValue_enc (n : Nat) : leValue (encVarInt n) = n := by
  induction n using Nat.strongRecOn with
  | _ n ih =>
    unfold encVarInt
    split
    · next h => simp [leValue, u8_ofNat_toNat n (by omega)]; omega
    · next h =>
      simp only [leValue]
      rw [u8_ofNat_toNat _ (by omega), ih (n / 128) (by omega)]
      omega

theorem enc_canonical_aux (n : Nat) : Canonical (encVarInt n) := by
  induction n using Nat.strongRecOn with
  | _ n ih =>
    unfold encVarInt
    split
    · next h => simp [Canonical, u8_ofNat_toNat n (by omega), h]
    · next h =>
      have hne := enc_ne_nil (n / 128)
      have hv := leValue_enc (n / 128)
      have hc := ih (n / 128) (by omega)
      generalize encVarInt (n / 128) = l at *
      cases l with
      | nil => exact absurd rfl hne
      | cons c rest =>
        refine ⟨?_, hc, ?_⟩
        · rw [u8_ofNat_toNat _ (by omega)]; omega
        · rw [hv]; omega

theorem enc_unique : ∀ (l : Bytes), Canonical l → encVarInt (leValue l) = l
  | [], h => by simp [Canonical] at h
  | [b], h => by
    simp only [Canonical] at h
    simp only [leValue]
    unfold encVarInt
    have : b.toNat % 128 + 128 * 0 = b.toNat := by omega
    rw [this, dif_pos h]
    simp
  | b :: c :: rest, h => by
    obtain ⟨hb, hc, hv⟩ := h
    have ih := enc_unique (c :: rest) hc
    have hblt : b.toNat < 256 := b.toNat_lt
    simp only [leValue] at hv ⊢
    unfold encVarInt
    have hge : ¬ (b.toNat % 128 + 128 * (c.toNat % 128 + 128 * leValue rest) < 128) := by omega
    rw [dif_neg hge]
    have h1 : (b.toNat % 128 + 128 * (c.toNat % 128 + 128 * leValue rest)) % 128 + 128
        = b.toNat := by omega
    have h2 : (b.toNat % 128 + 128 * (c.toNat % 128 + 128 * leValue rest)) / 128
        = c.toNat % 128 + 128 * leValue rest := by omega
    rw [h1, h2]
    simp only [leValue] at ih
    rw [ih]
    simp

theorem enc_length (n : Nat) : ∀ k, 1 ≤ k → (128 ^ (k - 1) ≤ n ∨ k = 1) → n < 128 ^ k →
    (encVarInt n).length = k := by
  induction n using Nat.strongRecOn with
  | _ n ih =>
    intro k hk hlo hhi
    unfold encVarInt
    split
    · next h =>
      simp
      rcases hlo with hlo | hlo
      · rcases Nat.lt_or_ge 1 k with h1 | h1
        · have : 128 ^ 1 ≤ 128 ^ (k - 1) := Nat.pow_le_pow_right (by omega) (by omega)
          simp at this; omega
        · omega
      · omega
    · next h =>
      simp only [List.length_cons]
      have hk2 : 2 ≤ k := by
        rcases Nat.lt_or_ge k 2 with h1 | h1
        · have : k = 1 := by omega
          subst this; simp at hhi; omega
        · exact h1
      have := ih (n / 128) (by omega) (k - 1) (by omega) ?_ ?_
      · omega
      · rcases hlo with hlo | hlo
        · rcases Nat.lt_or_ge 2 k with h2 | h2
          · left
            have e : 128 ^ (k - 1) = 128 ^ (k - 1 - 1) * 128 := by
              rw [← Nat.pow_succ]; congr 1; omega
            rw [e] at hlo
            exact (Nat.le_div_iff_mul_le (by omega)).mpr hlo
          · right; omega
        · omega
      · have e : 128 ^ k = 128 ^ (k - 1) * 128 := by
          rw [← Nat.pow_succ]; congr 1; omega
        rw [e] at hhi
        exact Nat.div_lt_of_lt_mul (by rw [Nat.mul_comm]; exact hhi)

end PyCraft
