import PyCraft.Lemmas.LifecycleBase
import PyCraft.Lemmas.LifecycleInv
import PyCraft.Lemmas.LifecycleLog
import PyCraft.Lemmas.LifecycleTerm
import PyCraft.Lemmas.LifecycleApi
/-!
Helper lemmas for `Props/C16.lean` (connection lifecycle), split over
`LifecycleBase` (vocabulary, `step_cases`), `LifecycleInv` (the invariant `LInv`),
`LifecycleLog` (the event-log invariant), `LifecycleTerm` (termination of interrupted threads) and
`LifecycleApi` (API calls as steps).
-/
