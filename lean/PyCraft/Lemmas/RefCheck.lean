import PyCraft.Lemmas.SignNorm
import PyCraft.Generated.Ids
import PyCraft.Generated.Layouts
/-!
The lookups of C07 (`genId`, `genLayout`) and a fast checker for "every reference row matches".

Looking a version up in a 369-row table costs the kernel ~40 ms, and C07 needs 1200 lookups.  The
checker therefore walks each table ONCE per packet, in step with the reference rows (both are in the
order of `KNOWN_PROTOCOL_VERSIONS`), and the lemmas below show that what the walk compares is exactly
what the lookups return — given that the version column has no duplicates, which a linear check
establishes (`ascFrom`: the column is an interleaving of two strictly ascending runs, the ordinary
protocol numbers and the snapshot numbers `2^30 + n`).
-/
namespace PyCraft.C07
open PyCraft PyCraft.Gen

abbrev RefRow := Nat × Int × List WType
abbrev Variant := Option Layout × List Nat

/-! ### the lookups -/

def idOf (r : IdRow) (cls : String) : Option Int := (r.2.2.lookup cls).join

/-- the id of `cls` in the FIRST row for version `v` -/
def lookupId (rows : List IdRow) (cls : String) (v : Nat) : Option Int :=
  match rows.find? fun r => r.1 == v with
  | none => none
  | some r => idOf r cls

def typesOf (var : Variant) : Option (List WType) := var.1.map fun L => L.map fun f => f.2

/-- the field types of the FIRST variant listing version `v` -/
def lookupLayout (variants : List Variant) (v : Nat) : Option (List WType) :=
  match variants.find? fun var => var.2.contains v with
  | none => none
  | some var => typesOf var

/-- the id pyCraft uses for class `cls` of table `table` under protocol `v` -/
def genId (table cls : String) (v : Nat) : Option Int :=
  match idTables.lookup table with
  | none => none
  | some rows => lookupId rows cls v

/-- the field types of pyCraft's layout of `cls` under protocol `v` (`none` also when the class has a
hand-written codec) -/
def genLayout (table cls : String) (v : Nat) : Option (List WType) :=
  match layoutTables.lookup table with
  | none => none
  | some rows =>
    match rows.lookup cls with
    | none => none
    | some variants => lookupLayout variants v

def idMatches (got : Option Int) (row : RefRow) : Bool := decide (got = some row.2.1)

def layMatches (got : Option (List WType)) (row : RefRow) : Bool :=
  decide (got.map (fun ts => ts.map normT) = some (row.2.2.map normT))

/-! ### a version column without duplicates, checked in one pass -/

def above (p : Option Nat) (x : Nat) : Bool :=
  match p with
  | none => true
  | some q => decide (q < x)

/-- the numbers below `2^30` ascend strictly, and so do the others (`ls`, `lb`: the last of each) -/
def ascFrom (ls lb : Option Nat) : List Nat → Bool
  | [] => true
  | x :: xs =>
    if x < 2 ^ 30 then above ls x && ascFrom (some x) lb xs
    else above lb x && ascFrom ls (some x) xs

theorem ascFrom_sound : ∀ (xs : List Nat) (ls lb : Option Nat), ascFrom ls lb xs = true →
    (∀ x ∈ xs, x < 2 ^ 30 → ∀ p, ls = some p → p < x) ∧
    (∀ x ∈ xs, ¬ x < 2 ^ 30 → ∀ p, lb = some p → p < x) ∧ xs.Nodup := by
  intro xs
  induction xs with
  | nil => intro ls lb _; simp
  | cons x xs ih =>
    intro ls lb h
    simp only [ascFrom] at h
    split at h
    · next hx =>
      simp only [Bool.and_eq_true] at h
      obtain ⟨i1, i2, i3⟩ := ih (some x) lb h.2
      refine ⟨fun y hy hys p hp => ?_, fun y hy hyb p hp => ?_, ?_⟩
      · rcases List.mem_cons.mp hy with rfl | hy
        · subst hp; simpa [above] using h.1
        · have := i1 y hy hys x rfl
          subst hp
          have h0 : p < x := by simpa [above] using h.1
          omega
      · rcases List.mem_cons.mp hy with rfl | hy
        · exact absurd hx hyb
        · exact i2 y hy hyb p hp
      · refine List.nodup_cons.mpr ⟨fun hm => ?_, i3⟩
        have := i1 x hm hx x rfl
        omega
    · next hx =>
      simp only [Bool.and_eq_true] at h
      obtain ⟨i1, i2, i3⟩ := ih ls (some x) h.2
      refine ⟨fun y hy hys p hp => ?_, fun y hy hyb p hp => ?_, ?_⟩
      · rcases List.mem_cons.mp hy with rfl | hy
        · exact absurd hys hx
        · exact i1 y hy hys p hp
      · rcases List.mem_cons.mp hy with rfl | hy
        · subst hp; simpa [above] using h.1
        · have := i2 y hy hyb x rfl
          subst hp
          have h0 : p < x := by simpa [above] using h.1
          omega
      · refine List.nodup_cons.mpr ⟨fun hm => ?_, i3⟩
        have := i2 x hm hx x rfl
        omega

/-! ### ids: one pass over the id rows -/

def walkIds (cls : String) : List IdRow → List RefRow → Bool
  | _, [] => true
  | [], _ :: _ => false
  | r :: rs, row :: rows =>
    if r.1 == row.1 then idMatches (idOf r cls) row && walkIds cls rs rows
    else walkIds cls rs (row :: rows)

theorem lookupId_cons_eq (r : IdRow) (rs : List IdRow) (cls : String) (v : Nat) (h : r.1 = v) :
    lookupId (r :: rs) cls v = idOf r cls := by
  simp [lookupId, h]

theorem lookupId_cons_ne (r : IdRow) (rs : List IdRow) (cls : String) (v : Nat) (h : r.1 ≠ v) :
    lookupId (r :: rs) cls v = lookupId rs cls v := by
  have : (r.1 == v) = false := by simpa using h
  simp [lookupId, this]

theorem mem_of_idMatches_lookupId (rs : List IdRow) (cls : String) (row : RefRow)
    (h : idMatches (lookupId rs cls row.1) row = true) : row.1 ∈ rs.map fun r => r.1 := by
  unfold lookupId at h
  cases hf : rs.find? (fun r => r.1 == row.1) with
  | none => simp [hf, idMatches] at h
  | some r =>
    have h1 := List.mem_of_find?_eq_some hf
    have h2 : r.1 = row.1 := by simpa using List.find?_some hf
    exact List.mem_map.mpr ⟨r, h1, h2⟩

theorem walkIds_sound (cls : String) : ∀ (rs : List IdRow) (rows : List RefRow),
    walkIds cls rs rows = true → (rs.map fun r => r.1).Nodup →
    ∀ row ∈ rows, idMatches (lookupId rs cls row.1) row = true := by
  intro rs
  induction rs with
  | nil =>
    intro rows h _ row hrow
    cases rows with
    | nil => simp at hrow
    | cons a as => simp [walkIds] at h
  | cons r rs ih =>
    intro rows h hnd row hrow
    simp only [List.map_cons, List.nodup_cons] at hnd
    -- a version found further down the table is not the version of this row
    have skip : ∀ row' : RefRow, idMatches (lookupId rs cls row'.1) row' = true →
        idMatches (lookupId (r :: rs) cls row'.1) row' = true := fun row' h' => by
      have hm := mem_of_idMatches_lookupId rs cls row' h'
      have : r.1 ≠ row'.1 := fun e => hnd.1 (e ▸ hm)
      rw [lookupId_cons_ne r rs cls _ this]; exact h'
    cases rows with
    | nil => simp at hrow
    | cons a as =>
      simp only [walkIds] at h
      split at h
      · next he =>
        have he : r.1 = a.1 := by simpa using he
        simp only [Bool.and_eq_true] at h
        rcases List.mem_cons.mp hrow with rfl | hrow
        · rw [lookupId_cons_eq r rs cls _ he]; exact h.1
        · exact skip row (ih as h.2 hnd.2 row hrow)
      · exact skip row (ih (a :: as) h hnd.2 row hrow)

/-! ### layouts: one pass over the version column, consuming the variants' version lists -/

/-- forget version `g` where it stands at the head of a variant's list -/
def dropHead (g : Nat) (vars : List Variant) : List Variant :=
  vars.map fun var =>
    match var.2 with
    | h :: tl => if h == g then (var.1, tl) else var
    | [] => var

def walkLay : List Nat → List RefRow → List Variant → Bool
  | _, [], _ => true
  | [], _ :: _, _ => false
  | g :: gs, row :: rows, vars =>
    if row.1 == g then layMatches (lookupLayout vars g) row && walkLay gs rows (dropHead g vars)
    else walkLay gs (row :: rows) (dropHead g vars)

/-- `vars` is `orig` with some versions, all in `seen`, forgotten -/
def Trimmed (seen : List Nat) : List Variant → List Variant → Prop
  | [], [] => True
  | a :: as, b :: bs => (a.1 = b.1 ∧ ∀ x, x ∉ seen → (x ∈ a.2 ↔ x ∈ b.2)) ∧ Trimmed seen as bs
  | _, _ => False

theorem trimmed_refl (seen : List Nat) : ∀ vars : List Variant, Trimmed seen vars vars := by
  intro vars
  induction vars with
  | nil => exact True.intro
  | cons a as ih => exact ⟨⟨rfl, fun _ _ => Iff.rfl⟩, ih⟩

theorem trimmed_dropHead (seen : List Nat) (g : Nat) : ∀ (vars orig : List Variant),
    Trimmed seen vars orig → Trimmed (g :: seen) (dropHead g vars) orig := by
  intro vars
  induction vars with
  | nil =>
    intro orig h
    cases orig with
    | nil => exact True.intro
    | cons b bs => exact h.elim
  | cons a as ih =>
    intro orig h
    cases orig with
    | nil => exact h.elim
    | cons b bs =>
      obtain ⟨⟨h1, h2⟩, h3⟩ := h
      refine ⟨?_, ih bs h3⟩
      obtain ⟨al, av⟩ := a
      have key : ∀ x, x ∉ g :: seen → (x ∈ av ↔ x ∈ b.2) := fun x hx =>
        h2 x (fun hs => hx (List.mem_cons_of_mem _ hs))
      cases av with
      | nil => exact ⟨h1, key⟩
      | cons hd tl =>
        simp only
        split
        · next hg =>
          have hg : hd = g := by simpa using hg
          refine ⟨h1, fun x hx => ?_⟩
          have hxg : x ≠ g := fun e => hx (e ▸ List.mem_cons_self)
          rw [← key x hx]
          simp only [List.mem_cons]
          constructor
          · exact Or.inr
          · rintro (e | e)
            · exact absurd (e.trans hg) hxg
            · exact e
        · exact ⟨h1, key⟩

theorem lookupLayout_trimmed (seen : List Nat) (g : Nat) (hg : g ∉ seen) :
    ∀ (vars orig : List Variant), Trimmed seen vars orig →
    lookupLayout vars g = lookupLayout orig g := by
  intro vars
  induction vars with
  | nil =>
    intro orig h
    cases orig with
    | nil => rfl
    | cons b bs => exact h.elim
  | cons a as ih =>
    intro orig h
    cases orig with
    | nil => exact h.elim
    | cons b bs =>
      obtain ⟨⟨h1, h2⟩, h3⟩ := h
      have hc : a.2.contains g = b.2.contains g := by
        have := h2 g hg
        cases ha : a.2.contains g <;> cases hb : b.2.contains g <;>
          simp_all
      have ih' := ih bs h3
      unfold lookupLayout at ih' ⊢
      simp only [List.find?_cons, hc]
      cases b.2.contains g
      · exact ih'
      · simp [typesOf, h1]

theorem walkLay_sound : ∀ (col : List Nat) (rows : List RefRow) (vars orig : List Variant)
    (seen : List Nat), walkLay col rows vars = true → col.Nodup → (∀ x ∈ col, x ∉ seen) →
    Trimmed seen vars orig → ∀ row ∈ rows, layMatches (lookupLayout orig row.1) row = true := by
  intro col
  induction col with
  | nil =>
    intro rows vars orig seen h _ _ _ row hrow
    cases rows with
    | nil => simp at hrow
    | cons a as => simp [walkLay] at h
  | cons g gs ih =>
    intro rows vars orig seen h hnd hseen ht row hrow
    cases rows with
    | nil => simp at hrow
    | cons a as =>
      have hnd' := List.nodup_cons.mp hnd
      have hseen' : ∀ x ∈ gs, x ∉ g :: seen := fun x hx hm => by
        rcases List.mem_cons.mp hm with rfl | hm
        · exact hnd'.1 hx
        · exact hseen x (List.mem_cons_of_mem _ hx) hm
      have ht' := trimmed_dropHead seen g vars orig ht
      simp only [walkLay] at h
      split at h
      · next he =>
        have he : a.1 = g := by simpa using he
        simp only [Bool.and_eq_true] at h
        rcases List.mem_cons.mp hrow with rfl | hrow
        · rw [he, ← lookupLayout_trimmed seen g (hseen g List.mem_cons_self) vars orig ht]
          exact h.1
        · exact ih as _ orig _ h.2 hnd'.2 hseen' ht' row hrow
      · exact ih (a :: as) _ orig _ h hnd'.2 hseen' ht' row hrow

/-! ### the checker for one packet, generic in the tables -/

theorem mem_of_lookup {β : Type} : ∀ (l : List (String × β)) (k : String) (v : β),
    l.lookup k = some v → (k, v) ∈ l := by
  intro l
  induction l with
  | nil => intro k v h; simp [List.lookup] at h
  | cons a t ih =>
    intro k v h
    obtain ⟨a1, a2⟩ := a
    simp only [List.lookup] at h
    split at h
    · next he =>
      have he : k = a1 := by simpa using he
      cases h
      simp [he]
    · exact List.mem_cons_of_mem _ (ih k v h)

/-- every reference row of a packet (rows in table order) against the id rows and the variants -/
def packetOk (cls : String) (idrows : List IdRow) (variants : List Variant) (rows : List RefRow) :
    Bool :=
  walkIds cls idrows rows && walkLay (idrows.map fun r => r.1) rows variants

theorem packetOk_sound (cls : String) (idrows : List IdRow) (variants : List Variant)
    (rows : List RefRow) (h : packetOk cls idrows variants rows = true)
    (hnd : ascFrom none none (idrows.map fun r => r.1) = true) :
    ∀ row ∈ rows, idMatches (lookupId idrows cls row.1) row = true ∧
      layMatches (lookupLayout variants row.1) row = true := by
  have nd := (ascFrom_sound _ none none hnd).2.2
  simp only [packetOk, Bool.and_eq_true] at h
  intro row hrow
  exact ⟨walkIds_sound cls idrows rows h.1 nd row hrow,
    walkLay_sound _ rows variants variants [] h.2 nd (fun _ _ => by simp)
      (trimmed_refl [] variants) row hrow⟩

end PyCraft.C07
