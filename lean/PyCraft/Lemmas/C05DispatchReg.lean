import PyCraft.Lemmas.C05Dispatch
/-!
Helper lemmas for `Props/C05Dispatch.lean`, second part: the registry `regTable` (alignment of the two
generated tables, every supported entry has a codec), the reactor's dict, and the framed stream of
registered packets.
-/
namespace PyCraft.Dsp
open PyCraft PyCraft.Pk PyCraft.Gen PyCraft.LayoutCheck

/-! ## the two generated tables list the same rows in the same order -/

/-- same table names, one index row per id row with the same version, the same class names in the same
order -/
def alignOK : Bool :=
  idTables.length == C05D.codecIdx.length &&
  (List.zipWith (fun (t : String × List IdRow) (x : String × C05D.IdxTable) =>
      t.1 == x.1 && t.2.length == x.2.rows.length &&
      (List.zipWith (fun (r : IdRow) (y : Nat × Nat) =>
          r.1 == y.1 && r.2.2.map (·.1) == ((x.2.shapes[y.2]?).getD []).map (·.1)) t.2 x.2.rows).all id)
    idTables C05D.codecIdx).all id

theorem alignOK_true : alignOK = true := by decide +kernel

theorem idRow_mkRow (tab : C05D.IdxTable) (r : IdRow) (y : Nat × Nat)
    (h : r.2.2.map (·.1) = ((tab.shapes[y.2]?).getD []).map (·.1)) : (mkRow tab r y).idRow = r := by
  obtain ⟨v, s, ents⟩ := r
  have hl : ents.length = (((tab.shapes[y.2]?).getD []).map (·.2)).length := by
    have := congrArg List.length h
    simpa using this
  simp only [RegRow.idRow, mkRow]
  rw [map_zipWith_left (mkEnt v) (fun e => (e.cls, e.id)) ents _ hl (fun _ _ _ => rfl)]

/-- the id-table view of `regTable` IS `Gen.idTables` -/
theorem aligned : regTable.map (fun t => (t.1, t.2.map RegRow.idRow)) = idTables := by
  have h := alignOK_true
  unfold alignOK at h
  obtain ⟨hl, hz⟩ := (Bool.and_eq_true _ _).mp h
  have hl := eq_of_beq hl
  have hz' := zipWith_all _ _ _ hz
  refine map_zipWith_left mkTable _ idTables C05D.codecIdx hl (fun t x hm => ?_)
  have h1 := hz' t x hm
  simp only [Bool.and_eq_true, beq_iff_eq] at h1
  obtain ⟨⟨_, hl2⟩, hz2⟩ := h1
  have hz2' := zipWith_all _ _ _ hz2
  obtain ⟨tn, rows⟩ := t
  have key : (List.zipWith (mkRow x.2) rows x.2.rows).map RegRow.idRow = rows := by
    refine map_zipWith_left (mkRow x.2) RegRow.idRow rows x.2.rows hl2 (fun r y hm2 => ?_)
    have h2 := hz2' r y hm2
    simp only [Bool.and_eq_true, beq_iff_eq] at h2
    exact idRow_mkRow x.2 r y h2.2
  show (tn, (List.zipWith (mkRow x.2) rows x.2.rows).map RegRow.idRow) = (tn, rows)
  rw [key]

theorem mem_idTables_of_mem {t : String × List RegRow} (ht : t ∈ regTable) :
    (t.1, t.2.map RegRow.idRow) ∈ idTables := by
  rw [← aligned]
  exact List.mem_map.mpr ⟨t, ht, rfl⟩

/-- every table lists every known protocol version, in publication order -/
theorem cols_known : (idTables.all fun t => t.2.map (·.1) == liveTables.knownProtocols) = true := by
  decide +kernel

theorem row_version_known {t : String × List RegRow} (ht : t ∈ regTable) {r : RegRow} (hr : r ∈ t.2) :
    r.v ∈ liveTables.knownProtocols := by
  have h := List.all_eq_true.mp cols_known _ (mem_idTables_of_mem ht)
  simp only [beq_iff_eq, List.map_map] at h
  rw [← h]
  exact List.mem_map.mpr ⟨r, hr, rfl⟩

/-! ## every supported entry has a codec -/

/-- index 0 is "hand-written"; every other codec is an admissible field list -/
def codecsOK : Bool :=
  match C05D.codecs with
  | none :: rest => rest.all fun c =>
      match c with
      | some L => Layout.ok L
      | none => false
  | _ => false

/-- every codec index is in range -/
def shapesOK : Bool :=
  match C05D.codecs.length with
  | 0 => false
  | n + 1 => C05D.codecIdx.all fun x => x.2.shapes.all fun s => s.all (·.2 ≤ n)

/-- on supported versions, a class with index 0 (hand-written) is one of the six modelled ones -/
def handOK : Bool :=
  (List.zipWith (fun (t : String × List IdRow) (x : String × C05D.IdxTable) =>
      (List.zipWith (fun (r : IdRow) (y : Nat × Nat) =>
          !r.2.1 || (List.zipWith (fun (e : String × Option Int) (k : Nat) =>
              k != 0 || handNames.contains e.1) r.2.2 (((x.2.shapes[y.2]?).getD []).map (·.2))).all id)
        t.2 x.2.rows).all id)
    idTables C05D.codecIdx).all id

theorem codecsOK_true : codecsOK = true := by decide +kernel
theorem shapesOK_true : shapesOK = true := by decide +kernel
theorem handOK_true : handOK = true := by decide +kernel

theorem codecs_zero : C05D.codecs[0]? = some none := by
  have h := codecsOK_true
  unfold codecsOK at h
  split at h
  · next rest heq => rw [heq]; rfl
  · cases h

theorem codecs_succ (m : Nat) (hm : m + 1 < C05D.codecs.length) :
    ∃ L, C05D.codecs[m + 1]? = some (some L) ∧ Layout.ok L = true := by
  have h := codecsOK_true
  unfold codecsOK at h
  split at h
  · next rest heq =>
    rw [heq] at hm ⊢
    have hm' : m < rest.length := by simpa using hm
    have hmem : rest[m] ∈ rest := List.getElem_mem hm'
    have := List.all_eq_true.mp h _ hmem
    split at this
    · next L hL =>
      refine ⟨L, ?_, this⟩
      simp [List.getElem?_eq_getElem hm', hL]
    · cases this
  · cases h

theorem codecOfIdx_known (cls : String) (v k : Nat) (hv : v ∈ liveTables.knownProtocols)
    (hk : k < C05D.codecs.length) (hh : k ≠ 0 ∨ cls ∈ handNames) :
    ∃ c, codecOfIdx cls v k = some c ∧ c.admissible = true := by
  cases k with
  | zero =>
    have hc : cls ∈ handNames := hh.resolve_left (by simp)
    obtain ⟨c, h1, h2⟩ := handCodec_known cls v hc hv
    exact ⟨c, by simp [codecOfIdx, codecs_zero, h1], h2⟩
  | succ m =>
    obtain ⟨L, hL, hok⟩ := codecs_succ m hk
    obtain ⟨L', h1, h2⟩ := layoutAt_known v hv L
    exact ⟨.fields L', by simp [codecOfIdx, hL, h1], by simp [Codec.admissible, h2, hok]⟩

/-- an entry of `regTable`, decomposed into its sources -/
theorem regEnt_sources {t : String × List RegRow} (ht : t ∈ regTable) {r : RegRow} (hr : r ∈ t.2)
    {e : RegEnt} (he : e ∈ r.ents) :
    ∃ (t0 : String × List IdRow) (x : String × C05D.IdxTable) (r0 : IdRow) (y : Nat × Nat)
      (e0 : String × Option Int) (k : Nat),
      (t0, x) ∈ idTables.zip C05D.codecIdx ∧ (r0, y) ∈ t0.2.zip x.2.rows ∧
      (e0, k) ∈ r0.2.2.zip (((x.2.shapes[y.2]?).getD []).map (·.2)) ∧
      r.v = r0.1 ∧ r.supported = r0.2.1 ∧ e = mkEnt r0.1 e0 k := by
  obtain ⟨t0, x, hm, rfl⟩ := mem_zipWith_elim _ _ _ _ ht
  obtain ⟨r0, y, hm2, rfl⟩ := mem_zipWith_elim _ _ _ _ hr
  obtain ⟨e0, k, hm3, rfl⟩ := mem_zipWith_elim _ _ _ _ he
  exact ⟨t0, x, r0, y, e0, k, hm, hm2, hm3, rfl, rfl, rfl⟩

theorem idx_in_range {x : String × C05D.IdxTable} (hx : x ∈ C05D.codecIdx) {j k : Nat}
    (hk : k ∈ ((x.2.shapes[j]?).getD []).map (·.2)) : k < C05D.codecs.length := by
  have h := shapesOK_true
  unfold shapesOK at h
  split at h
  · cases h
  · next n hn =>
    cases hs : x.2.shapes[j]? with
    | none => simp [hs] at hk
    | some s =>
      simp only [hs, Option.getD_some] at hk
      obtain ⟨ck, hck, rfl⟩ := List.mem_map.mp hk
      have hsm : s ∈ x.2.shapes := List.mem_of_getElem? hs
      have := List.all_eq_true.mp (List.all_eq_true.mp (List.all_eq_true.mp h x hx) s hsm) ck hck
      have : ck.2 ≤ n := by simpa using this
      omega

/-- For every table, every SUPPORTED version and every class registered for it, the registry has a
codec, and it is an admissible one. -/
theorem supported_entry_codec {t : String × List RegRow} (ht : t ∈ regTable) {r : RegRow}
    (hr : r ∈ t.2) (hs : r.supported = true) {e : RegEnt} (he : e ∈ r.ents) :
    ∃ c, e.codec = some c ∧ c.admissible = true := by
  have hv := row_version_known ht hr
  obtain ⟨t0, x, r0, y, e0, k, hm, hm2, hm3, hrv, hrs, rfl⟩ := regEnt_sources ht hr he
  have hk : k < C05D.codecs.length := idx_in_range (zip_fst_mem hm).2 (zip_fst_mem hm3).2
  have hh : k ≠ 0 ∨ e0.1 ∈ handNames := by
    have h := zipWith_all _ _ _ handOK_true t0 x hm
    have h2 := zipWith_all _ _ _ h r0 y hm2
    rw [← hrs, hs] at h2
    simp only [Bool.not_true, Bool.false_or] at h2
    have h3 := zipWith_all _ _ _ h2 e0 k hm3
    simp only [Bool.or_eq_true, bne_iff_ne, ne_eq, List.contains_iff_mem] at h3
    exact h3
  rw [hrv] at hv
  exact codecOfIdx_known e0.1 r0.1 k hv hk hh

/-! ## the dict of the reactor -/

theorem find_filter_neG {α : Type} (k i : Int) (hki : k ≠ i) : ∀ (d : List (Int × α)),
    (d.filter (fun kv => decide (kv.1 ≠ k))).find? (fun x => x.1 == i) = d.find? (fun x => x.1 == i)
  | [] => rfl
  | kv :: d => by
    have ih := find_filter_neG k i hki d
    by_cases hk : kv.1 = k
    · have h1 : (kv.1 == i) = false := by
        have : kv.1 ≠ i := hk ▸ hki
        simpa using this
      rw [List.filter_cons_of_neg (by simp [hk]), List.find?_cons_of_neg (by simp [h1])]
      exact ih
    · rw [List.filter_cons_of_pos (by simp [hk])]
      cases h : (kv.1 == i)
      · rw [List.find?_cons_of_neg (by simp [h]), List.find?_cons_of_neg (by simp [h])]; exact ih
      · rw [List.find?_cons_of_pos (by simp [h]), List.find?_cons_of_pos (by simp [h])]

theorem dictGetG_fold {α : Type} (ents : List (Int × α)) :
    ∀ (d : List (Int × α)) (i : Int),
      dictGetG (ents.foldl (fun d e => e :: d.filter (fun kv => kv.1 ≠ e.1)) d) i =
        match ents.reverse.find? (·.1 == i) with
        | some e => some e.2
        | none => dictGetG d i := by
  induction ents with
  | nil => intro d i; simp
  | cons e rest ih =>
    intro d i
    simp only [List.foldl_cons, List.reverse_cons]
    rw [ih, List.find?_append]
    cases h : rest.reverse.find? (·.1 == i) with
    | some f => simp
    | none =>
      simp only [Option.none_or, List.find?_cons, List.find?_nil]
      by_cases hi : e.1 = i
      · simp [dictGetG, hi]
      · have : (e.1 == i) = false := by simpa using hi
        simp only [this, dictGetG, List.find?_cons]
        rw [find_filter_neG e.1 i hi]

/-- the dict holds, under each key, the LAST pair inserted with that key -/
theorem dictGetG_buildDictG {α : Type} (l : List (Int × α)) (i : Int) :
    dictGetG (buildDictG l) i = (l.reverse.find? (·.1 == i)).map (·.2) := by
  have := dictGetG_fold l [] i
  unfold buildDictG
  rw [this]
  cases l.reverse.find? (·.1 == i) <;> simp [dictGetG]

/-- whatever the dict returns was inserted under that key -/
theorem dict_sound {α : Type} (l : List (Int × α)) (i : Int) (a : α)
    (h : dictGetG (buildDictG l) i = some a) : (i, a) ∈ l := by
  rw [dictGetG_buildDictG] at h
  cases hf : l.reverse.find? (·.1 == i) with
  | none => simp [hf] at h
  | some e =>
    simp only [hf, Option.map_some, Option.some.injEq] at h
    have hm := List.mem_reverse.mp (List.mem_of_find?_eq_some hf)
    have hi : e.1 = i := by simpa using List.find?_some hf
    rw [← h, ← hi]
    exact hm

/-- a key inserted with a single value is found with that value, in whatever order -/
theorem dict_unique {α : Type} (l : List (Int × α)) (i : Int) (a : α) (hm : (i, a) ∈ l)
    (hu : ∀ p ∈ l, p.1 = i → p.2 = a) : dictGetG (buildDictG l) i = some a := by
  rw [dictGetG_buildDictG]
  cases hf : l.reverse.find? (·.1 == i) with
  | none =>
    have := List.find?_eq_none.mp hf (i, a) (List.mem_reverse.mpr hm)
    simp at this
  | some e =>
    have hm' := List.mem_reverse.mp (List.mem_of_find?_eq_some hf)
    have hi : e.1 = i := by simpa using List.find?_some hf
    simp [hu e hm' hi]

theorem keyed_ok : ∀ (l : List RegEnt), (∀ e ∈ l, ∃ i, e.id = some i) →
    ∃ ks, keyed l = .ok ks ∧ ks.map (·.2) = l ∧ ∀ p ∈ ks, p.2.id = some p.1
  | [], _ => ⟨[], rfl, rfl, by simp⟩
  | e :: l, h => by
    obtain ⟨i, hi⟩ := h e (by simp)
    obtain ⟨ks, h1, h2, h3⟩ := keyed_ok l (fun e' he' => h e' (by simp [he']))
    refine ⟨(i, e) :: ks, by simp [keyed, hi, h1, Except.map], by simp [h2], fun p hp => ?_⟩
    rcases List.mem_cons.mp hp with rfl | hp
    · exact hi
    · exact h3 p hp

/-- ids that are not duplicated occur at most once -/
theorem filter_le_one_of_not_dup : ∀ (ents : List IdEnt) (a : Option Int), a ∉ dupIds ents →
    (ents.filter (fun e => e.2 == a)).length ≤ 1
  | [], _, _ => by simp
  | e :: rest, a, h => by
    have h2 : a ∉ dupIds rest := fun hm => h (by simp [dupIds, hm])
    have ih := filter_le_one_of_not_dup rest a h2
    by_cases hea : e.2 = a
    · have hnone : rest.any (fun f => f.2 == e.2) = false := by
        cases hany : rest.any (fun f => f.2 == e.2) with
        | false => rfl
        | true => exact absurd (by rw [← hea]; simp only [dupIds, hany, if_true]; simp) h
      have : rest.filter (fun e => e.2 == a) = [] := by
        rw [List.filter_eq_nil_iff]
        intro f hf hfa
        have : rest.any (fun f => f.2 == e.2) = true :=
          List.any_eq_true.mpr ⟨f, hf, by simpa [hea] using hfa⟩
        simp [hnone] at this
      simp [hea, this]
    · have : (e.2 == a) = false := by simpa using hea
      simpa [List.filter_cons, this] using ih

theorem eq_of_filter_le_one {α : Type} (p : α → Bool) : ∀ (l : List α), (l.filter p).length ≤ 1 →
    ∀ x ∈ l, ∀ y ∈ l, p x = true → p y = true → x = y := by
  intro l h x hx y hy px py
  have mx : x ∈ l.filter p := List.mem_filter.mpr ⟨hx, px⟩
  have my : y ∈ l.filter p := List.mem_filter.mpr ⟨hy, py⟩
  match hl : l.filter p, h, mx, my with
  | [], _, mx, _ => simp at mx
  | [z], _, mx, my =>
    simp only [List.mem_singleton] at mx my
    rw [mx, my]
  | _ :: _ :: _, h, _, _ => simp at h

/-- in a registry row, an id that is not a duplicate of the id row identifies ONE entry -/
theorem entry_unique (ents : List RegEnt) (i : Int)
    (hnd : some i ∉ dupIds (ents.map fun e => (e.cls, e.id))) :
    ∀ x ∈ ents, ∀ y ∈ ents, x.id = some i → y.id = some i → x = y := by
  have h := filter_le_one_of_not_dup _ _ hnd
  rw [List.filter_map, List.length_map] at h
  intro x hx y hy hxi hyi
  exact eq_of_filter_le_one _ ents h x hx y hy (by simp [hxi]) (by simp [hyi])

/-! ## the framed stream of registered packets -/

/-- what `read_packet` should deliver for `p` before dispatch: the id and the body bytes -/
def rawOfReg (p : RPacket) : Nat × Bytes :=
  (match p.ent.id with
    | some i => i.toNat
    | none => 0,
   match p.ent.codec with
    | some k => (match k.write p.val with
      | .ok b => b
      | .error _ => [])
    | none => [])

/-- what `RegOK` gives for one packet -/
theorem regOK_facts (z : ZlibOps) (thr : Option Int) (p : RPacket) (h : RegOK z thr p) :
    ∃ i k, p.ent.id = some i ∧ 0 ≤ i ∧ p.ent.codec = some k ∧ k.WF p.val ∧
      k.write p.val = .ok (rawOfReg p).2 ∧ (rawOfReg p).1 = i.toNat ∧ FrameOK z thr (rawOfReg p) ∧
      k.read (rawOfReg p).2 = .ok (k.norm p.val, []) := by
  unfold RegOK at h
  split at h
  · next i k hi hk =>
    obtain ⟨h0, hwf, hfr⟩ := h
    obtain ⟨bs, hw, hrd, _⟩ := codec_rt k p.val hwf
    rw [hw] at hfr
    have hraw : rawOfReg p = (i.toNat, bs) := by simp [rawOfReg, hi, hk, hw]
    refine ⟨i, k, hi, h0, hk, hwf, ?_, ?_, ?_, ?_⟩
    · rw [hraw]; exact hw
    · rw [hraw]
    · rw [hraw]; exact hfr
    · rw [hraw]; exact hrd
  · exact absurd h id

theorem writeReg_of_ok (z : ZlibOps) (thr : Option Int) (p : RPacket) (h : RegOK z thr p) :
    writeReg z thr p = .ok (packetFrame z thr (rawOfReg p)) := by
  obtain ⟨i, k, hi, h0, hk, _, hw, hid, _, _⟩ := regOK_facts z thr p h
  have hlt : ¬ i < 0 := by omega
  have hraw : rawOfReg p = (i.toNat, (rawOfReg p).2) := by rw [← hid]
  rw [hraw]
  simp [writeReg, hi, hk, hlt, hw, bind, Except.bind, pure, Except.pure]

theorem writeRegAll_of_ok (z : ZlibOps) (thr : Option Int) : ∀ ps : List RPacket,
    (∀ p ∈ ps, RegOK z thr p) →
      writeRegAll z thr ps = .ok ((ps.map rawOfReg).map (packetFrame z thr)).flatten
  | [], _ => rfl
  | p :: ps, h => by
    simp only [writeRegAll, writeReg_of_ok z thr p (h p (by simp)),
      writeRegAll_of_ok z thr ps (fun q hq => h q (by simp [hq])), bind, Except.bind, pure, Except.pure]
    simp

theorem deliver_of_ok (z : ZlibOps) (thr : Option Int) (dict : List (Int × RegEnt)) (p : RPacket)
    (h : RegOK z thr p) (hd : ∀ i, p.ent.id = some i → dictGetG dict i = some p.ent) :
    deliver dict (rawOfReg p) = p.expected := by
  obtain ⟨i, k, hi, h0, hk, _, _, hid, _, hrd⟩ := regOK_facts z thr p h
  have hcast : ((rawOfReg p).1 : Int) = i := by rw [hid]; omega
  simp [deliver, hcast, hd i hi, hk, hrd, RPacket.expected]

/-! ## `CombatEventPacket` is only registered where it is not deprecated -/

def combatRegOK : Bool :=
  withRank (PRE + 15) fun a => idTables.all fun t =>
    (List.zipWith (fun (p : Nat × Nat) (r : IdRow) =>
        p.1 == r.1 && (!(r.2.2.any fun e => e.1 == "CombatEventPacket") || decide (p.2 < a)))
      liveTables.indices t.2).all id

theorem combatRegOK_true : combatRegOK = true := by decide +kernel

theorem codecOfIdx_combat {cls : String} {v k : Nat} {f : CombatFlags}
    (h : codecOfIdx cls v k = some (.combat f)) :
    cls = "CombatEventPacket" ∧ combatFlagsOf v = some f := by
  unfold codecOfIdx at h
  split at h
  · unfold handCodec at h
    split at h
    · simp [Option.map_eq_some_iff] at h
    · split at h
      · cases h
      · split at h
        · simp [Option.map_eq_some_iff] at h
        · split at h
          · next hc =>
            simp only [Option.map_eq_some_iff, Codec.combat.injEq] at h
            obtain ⟨f', h1, rfl⟩ := h
            exact ⟨hc, h1⟩
          · split at h
            · simp [Option.map_eq_some_iff] at h
            · split at h <;> cases h
  · simp [Option.map_eq_some_iff] at h
  · cases h

theorem registered_combat_live {t : String × List RegRow} (ht : t ∈ regTable) {r : RegRow}
    (hr : r ∈ t.2) {e : RegEnt} (he : e ∈ r.ents) {f : CombatFlags}
    (h : e.codec = some (.combat f)) : f = ⟨false⟩ := by
  obtain ⟨t0, x, r0, y, e0, k, hm, hm2, hm3, _, _, rfl⟩ := regEnt_sources ht hr he
  obtain ⟨hcls, hfl⟩ := codecOfIdx_combat h
  obtain ⟨a, ha, hall⟩ := withRank_true combatRegOK_true
  have ht0 : t0 ∈ idTables := (zip_fst_mem hm).1
  have hcol := List.all_eq_true.mp cols_known t0 ht0
  have hcol : t0.2.map (·.1) = liveTables.knownProtocols := by simpa using hcol
  have hlen : liveTables.indices.length = t0.2.length := by
    have h1 := congrArg List.length hcol
    have h2 := congrArg List.length indices_keys
    simp only [List.length_map] at h1 h2
    omega
  have hz := zipWith_all _ _ _ (List.all_eq_true.mp hall t0 ht0)
  obtain ⟨p, hp⟩ := mem_zip_of_mem_right _ _ hlen r0 (zip_fst_mem hm2).1
  have hc := hz p r0 hp
  simp only [Bool.and_eq_true, beq_iff_eq, Bool.or_eq_true, Bool.not_eq_true', decide_eq_true_eq] at hc
  have hany : (r0.2.2.any fun e => e.1 == "CombatEventPacket") = true :=
    List.any_eq_true.mpr ⟨e0, (zip_fst_mem hm3).1, by simp [hcls]⟩
  have hlt : p.2 < a := by
    rcases hc.2 with h' | h'
    · rw [hany] at h'; cases h'
    · exact h'
  have hidx : index liveTables r0.1 = some p.2 := by
    rw [← hc.1]; exact index_of_mem p (zip_fst_mem hp).1
  rw [combatFlagsOf_of_index hidx ha] at hfl
  have : decide (a ≤ p.2) = false := by simp; omega
  rw [this] at hfl
  exact (Option.some.inj hfl).symm

/-! ## from the lookup functions to membership -/

theorem lookup_mem_str {β : Type} : ∀ (l : List (String × β)) (k : String) (y : β),
    l.lookup k = some y → (k, y) ∈ l
  | [], _, _, h => by simp [List.lookup] at h
  | (k', y') :: l, k, y, h => by
    by_cases hk : k = k'
    · subst hk
      simp [List.lookup] at h
      simp [h]
    · have : (k == k') = false := by simpa using hk
      simp only [List.lookup, this] at h
      exact List.mem_cons_of_mem _ (lookup_mem_str l k y h)

theorem regRow_mem {t : String} {v : Nat} {r : RegRow} (h : regRow t v = some r) :
    ∃ tt ∈ regTable, tt.1 = t ∧ r ∈ tt.2 ∧ r.v = v := by
  unfold regRow at h
  cases hl : regTable.lookup t with
  | none => simp [hl] at h
  | some rows =>
    simp only [hl, Option.bind_some] at h
    refine ⟨(t, rows), lookup_mem_str _ _ _ hl, rfl, List.mem_of_find?_eq_some h, ?_⟩
    have := List.find?_some h
    simpa using this

theorem regEnt_mem {t : String} {v : Nat} {c : String} {e : RegEnt} (h : regEnt t v c = some e) :
    ∃ r, regRow t v = some r ∧ e ∈ r.ents ∧ e.cls = c := by
  unfold regEnt at h
  cases hr : regRow t v with
  | none => simp [hr] at h
  | some r =>
    simp only [hr, Option.bind_some] at h
    refine ⟨r, rfl, List.mem_of_find?_eq_some h, ?_⟩
    have := List.find?_some h
    simpa using this

/-- a one-line summary of a delivered packet with decidable equality (for the examples): class name,
the class's id, and — when `read` succeeded — the number of payload bytes left unread -/
def Delivered.summary : Delivered → String × Option Int × Option Nat
  | .known e (.ok r) => (e.cls, e.id, some r.2.length)
  | .known e (.error _) => (e.cls, e.id, none)
  | .unknown i => ("", some i, none)

end PyCraft.Dsp
