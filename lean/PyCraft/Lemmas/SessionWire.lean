import PyCraft.Model.SessionWire
import PyCraft.Lemmas.HandshakeWire
import PyCraft.Lemmas.LoginWire
import PyCraft.Lemmas.PlayWire
import PyCraft.Props.C18
import PyCraft.Props.C09Wire
/-!
Helper lemmas for `Props/Session.lean`.

1. CFB8 continuity (`cfb8_continue`, from `C18.cfb8_chunking`): encrypting `A ++ B` as one stream
   = encrypting `A`, then `B` from the register the encryptor was left in.
2. The first write phase (`firstSends`) against `HsWire.clientWrites`.
3. `wireRun`: its chunks are `LoginWire.wireGo`'s, its register is the one-shot encryptor's.
4. The play chunks flattened; the threshold of the login model's final state.
5. The reference server: the play phase on a socket whose plaintext view is the play frames, the
   encrypted and the plaintext login phase with the play frames behind them, the two first frames.
6. Concrete sessions for the non-vacuity examples and the negative witnesses.
-/
namespace PyCraft.Session
open PyCraft PyCraft.Login PyCraft.Play PyCraft.LoginWire

/-! ## CFB8 continuity -/

/-- ONE stream across a boundary: the ciphertext of `A ++ B` from register `reg` is the ciphertext
of `A` followed by the ciphertext of `B` from the register reached after `A` (NOT from `reg`), and
the final registers agree. -/
theorem cfb8_continue (E : Bytes → Bytes) (reg A B : Bytes) :
    (cfb8Enc E reg (A ++ B)).2 = (cfb8Enc E reg A).2 ++ (cfb8Enc E (cfb8Enc E reg A).1 B).2 ∧
      (cfb8Enc E reg (A ++ B)).1 = (cfb8Enc E (cfb8Enc E reg A).1 B).1 := by
  have h := (C18.cfb8_chunking E reg A B).1
  constructor <;> rw [h]

/-- The receiving side of the same fact: a decryptor started from `reg` that has consumed the
ciphertext of `A` is in the register the encryptor was in after `A`, and from there decrypts the
ciphertext of `B` (encrypted from that register) to `B`. -/
theorem cfb8_continue_dec (E : Bytes → Bytes) (reg A B : Bytes) :
    (cfb8Dec E reg (cfb8Enc E reg A).2).1 = (cfb8Enc E reg A).1 ∧
      (cfb8Dec E (cfb8Enc E reg A).1 (cfb8Enc E (cfb8Enc E reg A).1 B).2).2 = B ∧
      (cfb8Dec E reg (cfb8Enc E reg (A ++ B)).2).2 = A ++ B :=
  ⟨(cfb8Dec_enc E reg A).2, (cfb8Dec_enc E _ B).1, (cfb8Dec_enc E reg (A ++ B)).1⟩

/-! ## the first write phase -/

theorem firstSends_eq (lsId : Nat) (fs : List HsWire.CFrame) :
    ((firstSends lsId fs).1.flatten, (firstSends lsId fs).2) = HsWire.clientWrites lsId fs := by
  induction fs with
  | nil => rfl
  | cons f fs ih =>
    simp only [firstSends, HsWire.clientWrites, HsWire.writeFrame]
    cases hw : HsWire.writePkt lsId f with
    | error e => rfl
    | ok p =>
      simp only [List.flatten_append, frameSends_flatten']
      rw [← ih]
      rfl

/-! ## `wireRun` -/

theorem wireRun_snd (z : ZlibOps) (E : Bytes → Bytes) (ids : Ids) (l : List Sent) (reg : Bytes) :
    (wireRun z E ids reg l).2 = wireGo z E ids reg l := by
  induction l generalizing reg with
  | nil => rfl
  | cons f r ih =>
    by_cases hf : f.encrypted = true
    · simp only [wireRun, wireGo, hf, if_true, ih]
    · simp only [wireRun, wireGo, hf, Bool.false_eq_true, if_false, ih]

theorem wireRun_plain_cons (z : ZlibOps) (E : Bytes → Bytes) (ids : Ids) (f : Sent)
    (r : List Sent) (reg : Bytes) (hf : f.encrypted = false) :
    (wireRun z E ids reg (f :: r)).1 = (wireRun z E ids reg r).1 := by
  simp only [wireRun, hf, Bool.false_eq_true, if_false]

/-- Frames written through the wrapper leave the encryptor where the one-shot call on the
concatenated frames leaves it. -/
theorem wireRun_enc (z : ZlibOps) (E : Bytes → Bytes) (ids : Ids) (l : List Sent) (reg : Bytes)
    (h : ∀ f ∈ l, f.encrypted = true) :
    (wireRun z E ids reg l).1 = (cfb8Enc E reg (l.map (frameOfSent z ids)).flatten).1 := by
  induction l generalizing reg with
  | nil => rfl
  | cons f r ih =>
    have hf : f.encrypted = true := h f (by simp)
    obtain ⟨e1, -⟩ := encSends_cfb8 E (sendsOfSent z ids f) reg
    simp only [wireRun, hf, if_true, List.map_cons, List.flatten_cons, cfb8Enc_append]
    rw [e1, ih _ fun g hg => h g (by simp [hg]), sendsOfSent_flatten]

/-- The register after the login part of a disciplined outbox: the secret's stream has run over
exactly the frames behind the encryption response. -/
theorem wireRun_split (z : ZlibOps) (E : Bytes → Bytes) (ids : Ids) (l : List Sent) (reg : Bytes)
    (h : switchOK false l = true) :
    (wireRun z E ids reg l).1 =
      (cfb8Enc E reg ((splitAtEncResp l).2.map (frameOfSent z ids)).flatten).1 := by
  induction l with
  | nil => rfl
  | cons f r ih =>
    obtain ⟨h1, h2⟩ := switchOK_cons_false f r h
    rw [wireRun_plain_cons z E ids f r reg h1]
    by_cases hf : isEncResp f.pkt = true
    · rw [hf] at h2
      simp only [splitAtEncResp, hf, if_true]
      exact wireRun_enc z E ids r reg (switchOK_true_all r h2)
    · have hf' : isEncResp f.pkt = false := by simpa using hf
      rw [hf'] at h2
      simp only [splitAtEncResp, hf', Bool.false_eq_true, if_false]
      exact ih h2

/-! ## the play chunks, the final threshold -/

theorem playFrames_eq (z : ZlibOps) (thr : Option Int) (P : PlayWire.Profile)
    (replies : List Reply) :
    playFrames z thr P replies =
      ((replies.map (PlayWire.replyFields P)).map (packetFrame z thr)).flatten := by
  unfold playFrames
  rw [List.map_map]
  rfl

theorem playChunks_some (z : ZlibOps) (E : Bytes → Bytes) (thr : Option Int)
    (P : PlayWire.Profile) (r : Bytes) (replies : List Reply) :
    (playChunks z E thr P (some r) replies).flatten =
      (cfb8Enc E r (playFrames z thr P replies)).2 :=
  PlayWire.wireWith_flatten z thr (cfb8EncX E) r _ _

theorem playChunks_none (z : ZlibOps) (E : Bytes → Bytes) (thr : Option Int)
    (P : PlayWire.Profile) (replies : List Reply) :
    (playChunks z E thr P none replies).flatten = playFrames z thr P replies :=
  PlayWire.wireWith_flatten z thr idXform () _ _

/-- The threshold of the login model's state is the last one announced, whatever the schedule. -/
theorem threshold_exec (P : LoginParams) (steps : List Step) :
    (exec P .init steps).threshold = announced (events steps) := by
  have h := exec_closed P (fun s => s.threshold)
    (fun acc e => match e with
      | .setCompression t => some t
      | _ => acc)
    (fun _ => rfl)
    (fun s e _ => by
      cases e with
      | encRequest sid pk tok =>
        by_cases h1 : sid = "-" <;> by_cases h2 : P.hasToken = true <;>
          simp [Login.react, ClientState.writeNow, h1, h2]
      | setCompression t => rfl
      | pluginRequest i c d => rfl
      | success => rfl
      | disconnect j => rfl)
    .init steps init_alive
  exact h

theorem events_loginSteps (S : Session) : events S.loginSteps = events S.steps := by
  unfold Session.loginSteps
  rw [events_append]
  simp [events]

/-- The cipher flag of the final state says whether an encryption response is in the outbox. -/
theorem loginEnd_encrypted (S : Session) : (loginEnd S).encrypted = hasEncResp (outbox S) :=
  (wireInv_exec S.lp S.loginSteps).enc

/-! ## the reference server -/

theorem parseAll_frames_exact (z : Zlib) (thr : Option Int) (ps : List (Nat × Bytes))
    (h : ∀ p ∈ ps, FrameOK z.toZlibOps thr p) :
    parseAll z.toZlibOps thr.isSome (ps.map (packetFrame z.toZlibOps thr)).flatten = (ps, .eof) := by
  have := parseAll_frames z thr ps [] h
  rw [List.append_nil, parseAll_nil] at this
  simpa using this

/-- The play phase on a socket whose plaintext view ahead is exactly the play frames. -/
theorem playPhase_spec {τ : Type} (z : Zlib) (P : PlayWire.Profile) (dec : StreamXform τ)
    (thr : Option Int) (key : Option Bytes) (k : Sock τ) (replies : List Reply)
    (hSb : P.sbDistinct = true) (hwf : ∀ q ∈ replies, PlayWire.replyWf P q = true)
    (hok : ∀ q ∈ replies, FrameOK z.toZlibOps thr (PlayWire.replyFields P q))
    (hk : ahead dec k = playFrames z.toZlibOps thr P replies) :
    playPhase z.toZlibOps P dec thr.isSome key k =
      ⟨none, none, [], key, replies, none, some .eof⟩ := by
  have hr : readAllEnc dec k.st z.toZlibOps thr.isSome k.segs =
      (replies.map (PlayWire.replyFields P), .eof) := by
    rw [readAllEnc_spec]
    have : (dec.update k.st k.segs.flatten).2 = ahead dec k := rfl
    rw [this, hk, playFrames_eq]
    apply parseAll_frames_exact
    intro p hp
    obtain ⟨q, hq, rfl⟩ := List.mem_map.mp hp
    exact hok q hq
  simp only [playPhase, PlayWire.serverDecodeReplies, hr,
    PlayWire.decodeEach_replies P hSb replies hwf .eof]

theorem sessEnc_script_cons (z : ZlibOps) (EK : Bytes → Bytes → Bytes) (key : Bytes)
    (P : PlayWire.Profile) (c m : Bool) (rest : List Expect) (k : Sock Bytes) :
    sessEnc z EK key P c ((if m = c then [] else [Expect.comp m]) ++ .frame :: rest) k =
      sessEnc z EK key P m (.frame :: rest) k := by
  by_cases h : m = c
  · subst h; simp
  · simp [h, sessEnc]

theorem sessEnc_script_end (z : ZlibOps) (EK : Bytes → Bytes → Bytes) (key : Bytes)
    (P : PlayWire.Profile) (c fin : Bool) (k : Sock Bytes) :
    sessEnc z EK key P c (if fin = c then [] else [Expect.comp fin]) k =
      playPhase z P (cfb8DecX (EK key)) fin (some key) k := by
  by_cases h : fin = c
  · subst h; simp [sessEnc]
  · simp [h, sessEnc]

theorem sessPlain_script_cons (z : ZlibOps) (EK : Bytes → Bytes → Bytes) (rsaDec : Bytes → Bytes)
    (encRespId : Nat) (P : PlayWire.Profile) (c m : Bool) (rest : List Expect) (k : Sock Unit) :
    sessPlain z EK rsaDec encRespId P c
        ((if m = c then [] else [Expect.comp m]) ++ .frame :: rest) k =
      sessPlain z EK rsaDec encRespId P m (.frame :: rest) k := by
  by_cases h : m = c
  · subst h; simp
  · simp [h, sessPlain]

theorem sessPlain_script_end (z : ZlibOps) (EK : Bytes → Bytes → Bytes) (rsaDec : Bytes → Bytes)
    (encRespId : Nat) (P : PlayWire.Profile) (c fin : Bool) (k : Sock Unit) :
    sessPlain z EK rsaDec encRespId P c (if fin = c then [] else [Expect.comp fin]) k =
      playPhase z P idXform fin none k := by
  by_cases h : fin = c
  · subst h; simp [sessPlain]
  · simp [h, sessPlain]

/-- Encrypted phase: the decrypted view ahead is the remaining login frames followed by the play
frames; each login frame is read with its own flag, then the play phase takes over on the same
socket. -/
theorem sessEnc_frames (z : Zlib) (EK : Bytes → Bytes → Bytes) (key : Bytes) (ids : Ids)
    (P : PlayWire.Profile) (thr : Option Int) (replies : List Reply)
    (hSb : P.sbDistinct = true) (hwf : ∀ q ∈ replies, PlayWire.replyWf P q = true)
    (hokP : ∀ q ∈ replies, FrameOK z.toZlibOps thr (PlayWire.replyFields P q))
    (l : List Sent) (c : Bool) (k : Sock Bytes)
    (hok : ∀ f ∈ l, FrameOK z.toZlibOps f.threshold (wirePkt ids f))
    (hk : ahead (cfb8DecX (EK key)) k =
      (l.map (frameOfSent z.toZlibOps ids)).flatten ++ playFrames z.toZlibOps thr P replies) :
    sessEnc z.toZlibOps EK key P c (expectOf c (modesOf l) thr.isSome) k =
      ⟨none, none, l.map (wirePkt ids), some key, replies, none, some .eof⟩ := by
  induction l generalizing k c with
  | nil =>
    simp only [modesOf, List.map_nil, expectOf]
    rw [sessEnc_script_end]
    exact playPhase_spec z P _ thr (some key) k replies hSb hwf hokP (by simpa using hk)
  | cons f r ih =>
    have hp := parsePacket_packetFrame z f.threshold (wirePkt ids f)
      ((r.map (frameOfSent z.toZlibOps ids)).flatten ++ playFrames z.toZlibOps thr P replies)
      (hok f (by simp))
    rw [← frameOfSent_eq] at hp
    simp only [List.map_cons, List.flatten_cons, List.append_assoc] at hk
    rw [← hk] at hp
    obtain ⟨k', e1, e2⟩ :=
      (readPacketK_spec (cfb8DecX (EK key)) z.toZlibOps f.threshold.isSome k).1 _ _ hp
    have := ih f.threshold.isSome k' (fun g hg => hok g (by simp [hg])) e2
    simp only [modesOf] at this
    simp only [modesOf, List.map_cons, expectOf]
    rw [sessEnc_script_cons]
    simp only [sessEnc, e1, this, Recovered.cons]

/-- The whole login + play part of the server run, on the wire of a disciplined outbox followed by
the play chunks (encrypted from the register `wireRun` ends with when a cipher was installed). -/
theorem sessPlain_outbox (z : Zlib) (EK : Bytes → Bytes → Bytes) (rsaDec : Bytes → Bytes)
    (secret : Bytes) (ids : Ids) (hids : ids.encResp ≠ ids.plugResp)
    (P : PlayWire.Profile) (thr : Option Int) (replies : List Reply)
    (hSb : P.sbDistinct = true) (hwf : ∀ q ∈ replies, PlayWire.replyWf P q = true)
    (hokP : ∀ q ∈ replies, FrameOK z.toZlibOps thr (PlayWire.replyFields P q))
    (l : List Sent) (c : Bool) (k : Sock Unit) (hsw : switchOK false l = true)
    (hok : ∀ f ∈ l, FrameOK z.toZlibOps f.threshold (wirePkt ids f))
    (hkey : ∀ a b, firstEncResp l = some (a, b) → rsaDec a = secret)
    (hk : k.segs.flatten =
      (wireRun z.toZlibOps (EK secret) ids secret l).2.flatten ++
        (playChunks z.toZlibOps (EK secret) thr P
          (if hasEncResp l then some (wireRun z.toZlibOps (EK secret) ids secret l).1 else none)
          replies).flatten) :
    sessPlain z.toZlibOps EK rsaDec ids.encResp P c (expectOf c (modesOf l) thr.isSome) k =
      ⟨none, none, l.map (wirePkt ids), if hasEncResp l then some secret else none, replies,
        none, some .eof⟩ := by
  induction l generalizing k c with
  | nil =>
    simp only [modesOf, List.map_nil, expectOf, hasEncResp, List.any_nil, Bool.false_eq_true,
      if_false]
    rw [sessPlain_script_end]
    apply playPhase_spec z P idXform thr none k replies hSb hwf hokP
    rw [ahead_id, hk]
    simp only [hasEncResp, List.any_nil, Bool.false_eq_true, if_false, wireRun, List.flatten_nil,
      List.nil_append]
    exact playChunks_none _ _ _ _ _
  | cons f r ih =>
    obtain ⟨h1, h2⟩ := switchOK_cons_false f r hsw
    rw [wireRun_snd, wireGo_plain_cons _ _ ids f r secret h1, ← wireRun_snd,
      wireRun_plain_cons _ _ ids f r secret h1, List.append_assoc] at hk
    have hp := parsePacket_packetFrame z f.threshold (wirePkt ids f)
      ((wireRun z.toZlibOps (EK secret) ids secret r).2.flatten ++
        (playChunks z.toZlibOps (EK secret) thr P
          (if hasEncResp (f :: r) then some (wireRun z.toZlibOps (EK secret) ids secret r).1
            else none) replies).flatten) (hok f (by simp))
    rw [← frameOfSent_eq, ← hk, ← ahead_id] at hp
    obtain ⟨k', e1, e2⟩ := (readPacketK_spec idXform z.toZlibOps f.threshold.isSome k).1 _ _ hp
    rw [ahead_id] at e2
    have hokr : ∀ g ∈ r, FrameOK z.toZlibOps g.threshold (wirePkt ids g) :=
      fun g hg => hok g (by simp [hg])
    simp only [modesOf, List.map_cons, expectOf]
    rw [sessPlain_script_cons]
    cases hpk : f.pkt with
    | encResp a b =>
      have hid : (wirePkt ids f).1 = ids.encResp := by simp [wirePkt, hpk, pktId]
      have hfo := hok f (by simp)
      have hfields : (wirePkt ids f).2 = fieldsOf (.encResp a b) := by simp [wirePkt, hpk]
      have hfo' : FrameOK z.toZlibOps f.threshold (ids.encResp, fieldsOf (.encResp a b)) := by
        rw [← hid, ← hfields]; exact hfo
      obtain ⟨ha, hb⟩ := frameOK_encResp _ _ _ a b hfo'
      have hdec : decodeEncResp (wirePkt ids f).2 = .ok (a, b) := by
        rw [hfields]; exact decodeEncResp_fields a b ha hb
      have hsec : rsaDec a = secret := hkey a b (by simp [firstEncResp, hpk])
      have hall : ∀ g ∈ r, g.encrypted = true := by
        apply switchOK_true_all; simpa [hpk, isEncResp] using h2
      have hh : hasEncResp (f :: r) = true := by simp [hasEncResp, hpk, isEncResp]
      rw [hh] at e2
      simp only [if_true] at e2
      have hahead : ahead (cfb8DecX (EK secret)) (Sock.enc secret k'.segs) =
          (r.map (frameOfSent z.toZlibOps ids)).flatten ++
            playFrames z.toZlibOps thr P replies := by
        rw [ahead_enc, e2, wireRun_snd, wireGo_enc _ _ ids r secret hall,
          wireRun_enc _ _ ids r secret hall, playChunks_some,
          ← (cfb8_continue (EK secret) secret _ _).1]
        exact (cfb8Dec_enc (EK secret) secret _).1
      have henc := sessEnc_frames z EK secret ids P thr replies hSb hwf hokP r
        f.threshold.isSome (Sock.enc secret k'.segs) hokr hahead
      simp only [modesOf] at henc
      simp only [sessPlain, e1, hid, if_true, hdec, hsec, henc, hh, Recovered.cons]
    | plugResp i s d =>
      have hid : (wirePkt ids f).1 ≠ ids.encResp := by
        simp only [wirePkt, hpk, pktId]; exact fun h => hids h.symm
      have hne : isEncResp f.pkt = false := by simp [hpk, isEncResp]
      rw [hne] at h2
      have hkey' : ∀ a b, firstEncResp r = some (a, b) → rsaDec a = secret := by
        intro a b hab; apply hkey a b; simpa [firstEncResp, hpk] using hab
      have hh : hasEncResp (f :: r) = hasEncResp r := by simp [hasEncResp, hne]
      rw [hh] at e2
      have := ih f.threshold.isSome k' h2 hokr hkey' e2
      simp only [modesOf] at this
      simp only [sessPlain, e1, hid, if_false, this, hh, Recovered.cons]

/-- The two first frames: handshake record (next state 2) and login start, then `sessPlain` on a
socket positioned exactly behind them. -/
theorem server_first (z : ZlibOps) (EK : Bytes → Bytes → Bytes) (rsaDec : Bytes → Bytes)
    (lsId encRespId : Nat) (P : PlayWire.Profile) (script : List Expect) (segs : Segs)
    (h : Neg.Handshake) (hh : HsWire.HsOK h) (hnext : h.next = 2) (name : String)
    (hl : lsId < 2 ^ 32) (hs : HsWire.StrOK name) (tail : Bytes)
    (hseg : segs.flatten = HsWire.plainFrame 0 (HsWire.handshakeFields h) ++
      (HsWire.plainFrame lsId (HsWire.encString name) ++ tail)) :
    ∃ k2 : Sock Unit, k2.segs.flatten = tail ∧
      serverRecoverSession z EK rsaDec lsId encRespId P script segs =
        { sessPlain z EK rsaDec encRespId P false script k2 with
          hs := some h, name := some name } := by
  have hp1 := HsWire.parsePacket_plain (0, HsWire.handshakeFields h)
    (HsWire.plainFrame lsId (HsWire.encString name) ++ tail) (HsWire.frameOK_handshake h hh)
  have hs1 : HsWire.plainFrame 0 (HsWire.handshakeFields h) =
      packetFrame HsWire.noZlib none (0, HsWire.handshakeFields h) := rfl
  rw [← hs1, ← hseg, ← ahead_plain] at hp1
  obtain ⟨k1, e1, a1⟩ := (readPacketK_spec idXform HsWire.noZlib false (Sock.plain segs)).1 _ _ hp1
  have hp2 := HsWire.parsePacket_plain (lsId, HsWire.encString name) tail
    (HsWire.frameOK_string lsId name hl hs)
  have hs2 : HsWire.plainFrame lsId (HsWire.encString name) =
      packetFrame HsWire.noZlib none (lsId, HsWire.encString name) := rfl
  rw [← hs2, ← a1] at hp2
  obtain ⟨k2, e2, a2⟩ := (readPacketK_spec idXform HsWire.noZlib false k1).1 _ _ hp2
  refine ⟨k2, by rw [← ahead_id]; exact a2, ?_⟩
  have hf := HsWire.serverParseHandshake_fields h [] hh
  rw [List.append_nil] at hf
  have hd := HsWire.decode_loginStart lsId name hs
  simp only [serverRecoverSession, e1, ne_eq, not_true_eq_false, if_false, hf, hnext, e2, hd]

/-! ## the whole stream -/

/-- The play part of the flat stream under boundary behaviour `b`. -/
def playWireWith (b : Boundary) (z : ZlibOps) (E : Bytes → Bytes) (S : Session) : Bytes :=
  (playChunksWith b z E S).flatten

/-- With a port `struct.pack('>H')` accepts and a login name, nothing raises while the first
frames are written, and the stream is first frames ++ login frames ++ play part
(`C09Wire.client_writes_first_bytes` for the first write phase). -/
theorem clientBytesWith_ok (b : Boundary) (z : ZlibOps) (E : Bytes → Bytes) (S : Session)
    (hp : S.conn.port < 65536) (hn : Neg.loginName S.conn ≠ none) :
    clientBytesWith b z E S =
      (HsWire.firstBytes S.lsId S.conn S.plan ++
        (wireBytes z E S.lp.secret S.ids (outbox S) ++ playWireWith b z E S), none) := by
  have hw := (C09Wire.client_writes_first_bytes S.lsId S.conn S.plan).1 hp
    (fun v _ => hn)
  have hf := firstSends_eq S.lsId S.firstFrames
  have hw' : HsWire.clientWrites S.lsId S.firstFrames =
      (HsWire.firstBytes S.lsId S.conn S.plan, none) := hw
  rw [hw'] at hf
  obtain ⟨f1, f2⟩ := Prod.mk.inj hf
  have hl : (loginRun z E S).2.flatten = wireBytes z E S.lp.secret S.ids (outbox S) := by
    unfold loginRun wireBytes wireChunks
    rw [wireRun_snd]
  have ha : ∀ (first : List Bytes × Option Err) (later : List Bytes), first.2 = none →
      assemble first later = (first.1 ++ later, none) := by
    intro first later h
    unfold assemble
    rw [h]
  unfold clientBytesWith clientChunksWith
  rw [ha _ _ f2]
  simp only [List.flatten_append, f1, hl, playWireWith]

/-- The play part as pyCraft writes it, once the play state is reached: the play frames under the
final threshold — as they are on a plain socket, else encrypted FROM THE CARRIED REGISTER. -/
theorem playWire_carry (z : ZlibOps) (E : Bytes → Bytes) (S : Session) (hplay : ReachesPlay S) :
    playWireWith .carry z E S =
      match (finalMode S).cipher with
      | none => playFrames z (finalMode S).threshold S.profile (playReplies S)
      | some _ =>
        (cfb8Enc E (loginReg z E S)
          (playFrames z (finalMode S).threshold S.profile (playReplies S))).2 := by
  unfold playWireWith playChunksWith
  rw [if_pos hplay]
  cases hc : (finalMode S).cipher with
  | none => exact playChunks_none _ _ _ _ _
  | some sec => exact playChunks_some _ _ _ _ _ _

/-- The replies on the wire are a prefix of — and, unless the peer has closed at a disconnect,
exactly — the replies due (`PlayWire.run_facts`). -/
theorem playReplies_facts (S : Session) (hR : 1 ≤ S.capR) :
    playReplies S <+: PlayWire.due S.profile S.pkts ∧
      ((S.peerOpen = true ∨ PlayWire.hasDiscP S.pkts = false) →
        playReplies S = PlayWire.due S.profile S.pkts) := by
  obtain ⟨r, h, hp, he, -⟩ := PlayWire.run_facts S.profile S.pkts S.peerOpen S.capW S.capR hR
  unfold playReplies
  rw [h]
  exact ⟨hp, he⟩

/-- Under the server's matching private key, the first encryption response of the session's
outbox decrypts to the client's secret. -/
theorem session_key (S : Session) (priv : Bytes)
    (hkey : ∀ sid pk tok, LoginEv.encRequest sid pk tok ∈ events S.steps →
      S.lp.rsa.matching pk priv) :
    ∀ a b, firstEncResp (outbox S) = some (a, b) → S.lp.rsa.dec priv a = S.lp.secret := by
  intro a b hab
  have hinv := wireInv_exec S.lp S.loginSteps
  obtain ⟨f, hf, hfp⟩ := firstEncResp_mem (outbox S) a b hab
  obtain ⟨sid, pk, tok, hm, ha, -⟩ := hinv.origin f hf a b hfp
  rw [events_loginSteps] at hm
  rw [ha]; exact S.lp.rsa.law pk priv _ (hkey sid pk tok hm)

/-! ## thresholds are never unset: the server's flag is switched ON, at most once -/

/-- A set threshold stays set. -/
theorem step_threshold_isSome (P : LoginParams) (s : ClientState) (a : Step)
    (h : s.threshold.isSome = true) : (step P s a).threshold.isSome = true := by
  cases a with
  | flush =>
    simp only [step]
    split
    · exact h
    · exact h
  | recv e =>
    simp only [step]
    split
    · exact h
    · cases e with
      | encRequest sid pk tok =>
        by_cases h1 : sid = "-" <;> by_cases h2 : P.hasToken = true <;>
          simp [Login.react, ClientState.writeNow, h1, h2, h]
      | setCompression t => rfl
      | pluginRequest i c d => exact h
      | success => exact h
      | disconnect j => exact h

/-- "once on, always on". -/
def OnOrder (a b : Bool) : Prop := a = true → b = true

theorem pairwise_const (c : Bool) : ∀ l : List Bool, (∀ m ∈ l, m = c) → l.Pairwise OnOrder
  | [], _ => List.Pairwise.nil
  | m :: l, h => by
    rw [List.pairwise_cons]
    refine ⟨?_, pairwise_const c l fun x hx => h x (by simp [hx])⟩
    intro x hx _
    rw [h x (by simp [hx]), ← h m (by simp)]
    assumption

/-- The compression flags of the outbox are monotone, and bounded by the flag of the state. -/
structure ThrInv (s : ClientState) : Prop where
  mono : (modesOf s.outbox).Pairwise OnOrder
  le : ∀ m ∈ modesOf s.outbox, m = true → s.threshold.isSome = true

theorem ThrInv.step {P : LoginParams} {s : ClientState} (h : ThrInv s) (a : Step) :
    ThrInv (step P s a) := by
  obtain ⟨later, ho, hf, -, -, -⟩ := step_frames P s a
  have hl : ∀ m ∈ modesOf later, m = s.threshold.isSome := by
    intro m hm
    obtain ⟨f, hf', rfl⟩ := List.mem_map.mp hm
    rw [(hf f hf').2]
  have hm : modesOf (Login.step P s a).outbox = modesOf s.outbox ++ modesOf later := by
    rw [ho]; simp [modesOf]
  constructor
  · rw [hm, List.pairwise_append]
    refine ⟨h.mono, pairwise_const _ _ hl, ?_⟩
    intro x hx y hy hxt
    rw [hl y hy]; exact h.le x hx hxt
  · intro m hmem hmt
    rw [hm] at hmem
    apply step_threshold_isSome
    rcases List.mem_append.mp hmem with hmem | hmem
    · exact h.le m hmem hmt
    · rw [← hl m hmem]; exact hmt

theorem thrInv_exec (P : LoginParams) (steps : List Step) : ThrInv (exec P .init steps) := by
  have : ∀ (s : ClientState), ThrInv s → ThrInv (exec P s steps) := by
    induction steps with
    | nil => intro s h; simpa [exec_nil] using h
    | cons a r ih => intro s h; rw [exec_cons]; exact ih _ (h.step a)
  exact this _ ⟨List.Pairwise.nil, fun m hm => by cases hm⟩

/-- On monotone flags the script only ever announces "on". -/
theorem expectOf_on (cur : Bool) (modes : List Bool) (fin : Bool)
    (h : (cur :: (modes ++ [fin])).Pairwise OnOrder) :
    ∀ e ∈ expectOf cur modes fin, e = .frame ∨ e = .comp true := by
  induction modes generalizing cur with
  | nil =>
    intro e he
    simp only [expectOf] at he
    have hcf : OnOrder cur fin := by
      rw [List.nil_append, List.pairwise_cons] at h
      exact h.1 fin (by simp)
    by_cases hfc : fin = cur
    · simp [hfc] at he
    · simp only [hfc, if_false, List.mem_singleton] at he
      right
      rw [he]
      cases fin
      · cases cur
        · exact absurd rfl hfc
        · exact absurd (hcf rfl) (by simp)
      · rfl
  | cons m ms ih =>
    intro e he
    rw [List.cons_append, List.pairwise_cons] at h
    have hcm : OnOrder cur m := h.1 m (by simp)
    simp only [expectOf, List.mem_append, List.mem_cons] at he
    rcases he with he | he | he
    · by_cases hmc : m = cur
      · simp [hmc] at he
      · simp only [hmc, if_false, List.mem_singleton] at he
        right
        rw [he]
        cases m
        · cases cur
          · exact absurd rfl hmc
          · exact absurd (hcm rfl) (by simp)
        · rfl
    · exact Or.inl he
    · exact ih m h.2 e he

/-- The number of frames a script reads is the number of flags it was built from. -/
theorem expectOf_frames (cur : Bool) (modes : List Bool) (fin : Bool) :
    ((expectOf cur modes fin).filter (· == .frame)).length = modes.length := by
  induction modes generalizing cur with
  | nil => by_cases h : fin = cur <;> simp [expectOf, h]
  | cons m ms ih =>
    by_cases h : m = cur <;> simp [expectOf, h, ih]

/-- The script of a session's server: as many frame entries as login frames, and apart from those
only "compression on". -/
theorem serverScript_shape (S : Session) :
    (∀ e ∈ serverScript S, e = .frame ∨ e = .comp true) ∧
      ((serverScript S).filter (· == .frame)).length = (outbox S).length := by
  have hinv := thrInv_exec S.lp S.loginSteps
  constructor
  · apply expectOf_on
    rw [List.pairwise_cons, List.pairwise_append]
    refine ⟨fun x _ h => (by cases h), hinv.mono, List.pairwise_singleton _ _, ?_⟩
    intro x hx y hy hxt
    simp only [List.mem_singleton] at hy
    rw [hy]; exact hinv.le x hx hxt
  · unfold serverScript
    rw [expectOf_frames]
    simp [modesOf]

/-! ## concrete sessions for the non-vacuity examples and the negative witnesses -/

/-- Login parameters of the examples: `Login.demoParams` (RSA = "prefix one byte" / "drop one
byte", token present) with a 16-byte secret. -/
def demoLP : LoginParams :=
  { Login.demoParams with
    secret := [0x10, 0x11, 0x12, 0x13, 0x14, 0x15, 0x16, 0x17, 0x18, 0x19, 0x1a, 0x1b, 0x1c, 0x1d,
      0x1e, 0x1f] }

/-- Protocol 757 (1.18): "localhost":25565, profile name "Steve"; the server sends encryption
request, set compression 8, a plugin request, login success — one packet per loop iteration — and
then, in play, keep-alive 1, position-and-look with teleport id 7, keep-alive 2.  Login packet ids
0x01 / 0x02, play ids of `PlayWire.p757`.  Threshold 8: a keep-alive reply (payload 9 bytes) takes
the `compress` branch, the plugin response (3) and the teleport confirm (2) do not. -/
def demoSession : Session :=
  { conn := ⟨"localhost", 25565, none, some "Steve"⟩
    proto := 757
    lsId := 0
    lp := demoLP
    ids := ⟨1, 2⟩
    steps := schedule 1
      [.encRequest "srv" [7, 8] [9], .setCompression 8, .pluginRequest 5 "ch" [1], .success]
    profile := PlayWire.p757
    pkts :=
      [.keepAlive 1,
       .posLook 0x4024000000000000 0x4050000000000000 0xC008000000000000 0x42B40000 0 0 7 false,
       .keepAlive 2]
    peerOpen := true
    capW := 300
    capR := 50 }

/-- The same session against an offline-mode server without compression: no cipher, no threshold
— the whole stream is plaintext. -/
def demoPlainSession : Session :=
  { demoSession with steps := schedule 1 [.pluginRequest 5 "ch" [1], .success] }

/-- A session whose login is refused. -/
def demoRefused : Session :=
  { demoSession with
    steps := schedule 1 [.encRequest "srv" [7, 8] [9], .disconnect "{\"text\": 5}", .success] }

/-- The client's bytes of a session under the example parameters (store-only zlib, the toy block
function keyed with the secret), with the boundary behaviour `b`. -/
def demoBytes (b : Boundary) (S : Session) : Bytes :=
  (clientBytesWith b Zlib.ident.toZlibOps (toyEK S.lp.secret) S).1

/-- The reference server of the examples for session `S` (its script, its ids, its profile), with
store-only zlib, `toyEK`, and the private-key operation of `demoParams.rsa` ("drop one byte"). -/
def demoServer (S : Session) (segs : Segs) : Recovered :=
  serverRecoverSession Zlib.ident.toZlibOps toyEK (S.lp.rsa.dec []) S.lsId S.ids.encResp S.profile
    (serverScript S) segs

end PyCraft.Session
