import PyCraft.Model.LoginWire
import PyCraft.Lemmas.Login
import PyCraft.Lemmas.FrameViews
/-!
Helper lemmas for `Props/C10Wire.lean`.

1. `WireInv`: the invariant of `exec` that the byte-level statements need — every outbox frame is
   encrypted iff an encryption response strictly precedes it (`switchOK`), the cipher flag of the
   state says whether an encryption response has been written, queued packets are plugin
   responses of a writable shape, and every encryption response in the outbox answers an
   encryption request of the script with RSA(secret), RSA(token) under that request's key.
2. `wireGo` on such an outbox: plaintext frames up to and including the first encryption response,
   then ONE CFB8 stream.
3. The reference server run on those bytes.
-/
namespace PyCraft.LoginWire
open PyCraft PyCraft.Login

/-! ## the switch discipline of an outbox -/

/-- Each frame is encrypted iff an encryption response strictly precedes it (`seen`: one precedes
the list). -/
def switchOK : Bool → List Sent → Bool
  | _, [] => true
  | seen, f :: r => (f.encrypted == seen) && switchOK (seen || isEncResp f.pkt) r

def hasEncResp (l : List Sent) : Bool := l.any fun f => isEncResp f.pkt

/-- The two byte arrays of the first encryption response. -/
def firstEncResp : List Sent → Option (Bytes × Bytes)
  | [] => none
  | f :: r =>
    match f.pkt with
    | .encResp a b => some (a, b)
    | _ => firstEncResp r

theorem hasEncResp_append (a b : List Sent) :
    hasEncResp (a ++ b) = (hasEncResp a || hasEncResp b) := by
  simp [hasEncResp]

theorem switchOK_append (seen : Bool) (a b : List Sent) :
    switchOK seen (a ++ b) = (switchOK seen a && switchOK (seen || hasEncResp a) b) := by
  induction a generalizing seen with
  | nil => simp [switchOK, hasEncResp]
  | cons f r ih =>
    simp only [List.cons_append, switchOK, ih, hasEncResp, List.any_cons, Bool.and_assoc,
      Bool.or_assoc]

theorem switchOK_const (e : Bool) (m : List Sent)
    (h : ∀ f ∈ m, f.encrypted = e ∧ isEncResp f.pkt = false) : switchOK e m = true := by
  induction m with
  | nil => rfl
  | cons f r ih =>
    have hf := h f (by simp)
    simp only [switchOK, hf.1, hf.2, Bool.or_false, beq_self_eq_true, Bool.true_and]
    exact ih fun g hg => h g (by simp [hg])

theorem hasEncResp_false (m : List Sent) (h : ∀ f ∈ m, isEncResp f.pkt = false) :
    hasEncResp m = false := by
  simp only [hasEncResp, List.any_eq_false]
  intro f hf; simp [h f hf]

theorem switchOK_true_all (l : List Sent) (h : switchOK true l = true) :
    ∀ f ∈ l, f.encrypted = true := by
  induction l with
  | nil => intro f hf; cases hf
  | cons g r ih =>
    simp only [switchOK, Bool.true_or, Bool.and_eq_true, beq_iff_eq] at h
    intro f hf
    rcases List.mem_cons.mp hf with rfl | hf
    · exact h.1
    · exact ih h.2 f hf

theorem switchOK_cons_false (f : Sent) (r : List Sent) (h : switchOK false (f :: r) = true) :
    f.encrypted = false ∧ switchOK (isEncResp f.pkt) r = true := by
  simpa [switchOK] using h

theorem splitAtEncResp_append (l : List Sent) :
    (splitAtEncResp l).1 ++ (splitAtEncResp l).2 = l := by
  induction l with
  | nil => rfl
  | cons f r ih =>
    by_cases hf : isEncResp f.pkt = true
    · simp [splitAtEncResp, hf]
    · simp [splitAtEncResp, hf, ih]

/-- The flags of a disciplined outbox: plaintext up to and including the first encryption
response, encrypted behind it. -/
theorem split_flags (l : List Sent) (h : switchOK false l = true) :
    (∀ f ∈ (splitAtEncResp l).1, f.encrypted = false) ∧
      (∀ f ∈ (splitAtEncResp l).2, f.encrypted = true) := by
  induction l with
  | nil => simp [splitAtEncResp]
  | cons f r ih =>
    obtain ⟨h1, h2⟩ := switchOK_cons_false f r h
    by_cases hf : isEncResp f.pkt = true
    · rw [hf] at h2
      simp only [splitAtEncResp, hf, if_true, List.mem_singleton, forall_eq]
      exact ⟨h1, switchOK_true_all r h2⟩
    · have hf' : isEncResp f.pkt = false := by simpa using hf
      rw [hf'] at h2
      obtain ⟨i1, i2⟩ := ih h2
      simp only [splitAtEncResp, hf', Bool.false_eq_true, if_false, List.mem_cons,
        forall_eq_or_imp]
      exact ⟨⟨h1, i1⟩, i2⟩

/-- The plaintext part really is "up to and including the first encryption response": no
encryption response before its last entry, and the last entry is one if there is any at all. -/
theorem split_shape (l : List Sent) :
    (hasEncResp l = false → (splitAtEncResp l).1 = l ∧ (splitAtEncResp l).2 = []) ∧
    (hasEncResp l = true → ∃ pre x, (splitAtEncResp l).1 = pre ++ [x] ∧
      isEncResp x.pkt = true ∧ hasEncResp pre = false) := by
  induction l with
  | nil => simp [splitAtEncResp, hasEncResp]
  | cons f r ih =>
    by_cases hf : isEncResp f.pkt = true
    · simp only [hasEncResp, List.any_cons, hf, Bool.true_or, splitAtEncResp, if_true]
      exact ⟨fun h => (by cases h), fun _ => ⟨[], f, rfl, hf, rfl⟩⟩
    · have hf' : isEncResp f.pkt = false := by simpa using hf
      have hh : hasEncResp (f :: r) = hasEncResp r := by simp [hasEncResp, hf']
      rw [hh]
      simp only [splitAtEncResp, hf', Bool.false_eq_true, if_false]
      constructor
      · intro h; obtain ⟨a, b⟩ := ih.1 h; exact ⟨by rw [a], b⟩
      · intro h
        obtain ⟨pre, x, a, b, c⟩ := ih.2 h
        refine ⟨f :: pre, x, by rw [a]; rfl, b, ?_⟩
        simpa [hasEncResp, hf'] using c

theorem firstEncResp_mem (l : List Sent) (a b : Bytes) (h : firstEncResp l = some (a, b)) :
    ∃ f ∈ l, f.pkt = .encResp a b := by
  induction l with
  | nil => cases h
  | cons f r ih =>
    cases hp : f.pkt with
    | encResp a' b' =>
      simp only [firstEncResp, hp, Option.some.injEq, Prod.mk.injEq] at h
      exact ⟨f, by simp, by rw [hp, h.1, h.2]⟩
    | plugResp i s d =>
      simp only [firstEncResp, hp] at h
      obtain ⟨g, hg, hgp⟩ := ih h
      exact ⟨g, by simp [hg], hgp⟩

theorem firstEncResp_append (pre : List Sent) (x : Sent) (post : List Sent) (a b : Bytes)
    (hpre : hasEncResp pre = false) (hx : x.pkt = .encResp a b) :
    firstEncResp (pre ++ x :: post) = some (a, b) := by
  induction pre with
  | nil => simp [firstEncResp, hx]
  | cons f r ih =>
    simp only [hasEncResp, List.any_cons, Bool.or_eq_false_iff] at hpre
    cases hp : f.pkt with
    | encResp a' b' => simp [isEncResp, hp] at hpre
    | plugResp i s d =>
      simp only [List.cons_append, firstEncResp, hp]
      exact ih (by simpa [hasEncResp] using hpre.2)

theorem hasEncResp_iff_first (l : List Sent) :
    hasEncResp l = (firstEncResp l).isSome := by
  induction l with
  | nil => rfl
  | cons f r ih =>
    cases hp : f.pkt with
    | encResp a b => simp [hasEncResp, firstEncResp, hp, isEncResp]
    | plugResp i s d =>
      simp only [hasEncResp, List.any_cons, hp, isEncResp, Bool.false_or, firstEncResp]
      exact ih

/-! ## the invariant of `exec` -/

/-- What `exec` maintains (see the file header). -/
structure WireInv (P : LoginParams) (evs : List LoginEv) (s : ClientState) : Prop where
  sw : switchOK false s.outbox = true
  enc : s.encrypted = hasEncResp s.outbox
  queue : ∀ p ∈ s.queue, isEncResp p = false ∧ writable p = true
  wr : ∀ f ∈ s.outbox, writable f.pkt = true
  origin : ∀ f ∈ s.outbox, ∀ a b, f.pkt = .encResp a b →
    ∃ sid pk tok, LoginEv.encRequest sid pk tok ∈ evs ∧
      a = P.rsa.enc pk P.secret ∧ b = P.rsa.enc pk tok

theorem WireInv.init (P : LoginParams) : WireInv P [] ClientState.init :=
  ⟨rfl, rfl, (by intro p hp; cases hp), (by intro f hf; cases hf), (by intro f hf; cases hf)⟩

theorem WireInv.mono {P : LoginParams} {evs evs' : List LoginEv} {s : ClientState}
    (h : WireInv P evs s) (hsub : ∀ e ∈ evs, e ∈ evs') : WireInv P evs' s :=
  ⟨h.sw, h.enc, h.queue, h.wr, fun f hf a b hp => by
    obtain ⟨sid, pk, tok, hm, ha, hb⟩ := h.origin f hf a b hp
    exact ⟨sid, pk, tok, hsub _ hm, ha, hb⟩⟩

theorem WireInv.same {P : LoginParams} {evs : List LoginEv} {s s' : ClientState}
    (h : WireInv P evs s) (ho : s'.outbox = s.outbox) (he : s'.encrypted = s.encrypted)
    (hq : s'.queue = s.queue) : WireInv P evs s' :=
  ⟨ho ▸ h.sw, by rw [he, ho]; exact h.enc, hq ▸ h.queue, ho ▸ h.wr, ho ▸ h.origin⟩

theorem WireInv.flush {P : LoginParams} {evs : List LoginEv} {s : ClientState}
    (h : WireInv P evs s) : WireInv P evs s.flushQueue := by
  have hm : ∀ f ∈ s.queue.map (fun p => (⟨p, s.encrypted, s.threshold, false⟩ : Sent)),
      f.encrypted = s.encrypted ∧ isEncResp f.pkt = false ∧ writable f.pkt = true := by
    intro f hf
    obtain ⟨p, hp, rfl⟩ := List.mem_map.mp hf
    exact ⟨rfl, (h.queue p hp).1, (h.queue p hp).2⟩
  have hne := hasEncResp_false _ fun f hf => (hm f hf).2.1
  refine ⟨?_, ?_, ?_, ?_, ?_⟩
  · show switchOK false (s.outbox ++ _) = true
    rw [switchOK_append, h.sw, Bool.false_or, ← h.enc]
    exact switchOK_const _ _ fun f hf => ⟨(hm f hf).1, (hm f hf).2.1⟩
  · show s.encrypted = hasEncResp (s.outbox ++ _)
    rw [hasEncResp_append, hne, Bool.or_false]; exact h.enc
  · intro p hp; cases hp
  · intro f hf
    rcases List.mem_append.mp hf with hf | hf
    · exact h.wr f hf
    · exact (hm f hf).2.2
  · intro f hf a b hp
    rcases List.mem_append.mp hf with hf | hf
    · exact h.origin f hf a b hp
    · have := (hm f hf).2.1
      rw [hp] at this; cases this

theorem react_encRequest_queue (P : LoginParams) (s : ClientState) (sid : String)
    (pk tok : Bytes) : (react P s (.encRequest sid pk tok)).queue = s.queue := by
  by_cases h1 : sid = "-" <;> by_cases h2 : P.hasToken = true <;>
    simp [react, ClientState.writeNow, h1, h2]

theorem WireInv.react {P : LoginParams} {evs : List LoginEv} {s : ClientState}
    (h : WireInv P evs s) (e : LoginEv) : WireInv P (evs ++ [e]) (react P s e) := by
  have hmono : WireInv P (evs ++ [e]) s := h.mono fun x hx => by simp [hx]
  cases e with
  | setCompression t => exact hmono.same rfl rfl rfl
  | success => exact hmono.same rfl rfl rfl
  | disconnect j => exact hmono.same rfl rfl rfl
  | pluginRequest i c d =>
    refine ⟨hmono.sw, hmono.enc, ?_, hmono.wr, hmono.origin⟩
    intro p hp
    have hp' : p ∈ s.queue ++ [pluginReply P i c d] := hp
    rcases List.mem_append.mp hp' with hp' | hp'
    · exact h.queue p hp'
    · simp only [List.mem_singleton] at hp'
      subst hp'
      unfold pluginReply
      cases P.handler i c d <;> exact ⟨rfl, rfl⟩
  | encRequest sid pk tok =>
    obtain ⟨ho, he⟩ := react_encRequest P s sid pk tok
    have hq := react_encRequest_queue P s sid pk tok
    refine ⟨?_, ?_, hq ▸ h.queue, ?_, ?_⟩
    · rw [ho, switchOK_append, h.sw, Bool.false_or, ← h.enc]
      simp [switchOK]
    · rw [ho, he, hasEncResp_append]
      simp [hasEncResp, isEncResp]
    · rw [ho]
      intro f hf
      rcases List.mem_append.mp hf with hf | hf
      · exact h.wr f hf
      · simp only [List.mem_singleton] at hf; subst hf; rfl
    · rw [ho]
      intro f hf a b hp
      rcases List.mem_append.mp hf with hf | hf
      · exact hmono.origin f hf a b hp
      · simp only [List.mem_singleton] at hf; subst hf
        simp only [ClientPkt.encResp.injEq] at hp
        exact ⟨sid, pk, tok, by simp, hp.1.symm, hp.2.symm⟩

theorem WireInv.step {P : LoginParams} {evs : List LoginEv} {s : ClientState}
    (h : WireInv P evs s) (a : Step) : WireInv P (evs ++ events [a]) (step P s a) := by
  cases a with
  | flush =>
    simp only [events, List.append_nil, Login.step]
    split
    · exact h
    · exact h.flush
  | recv e =>
    simp only [events, Login.step]
    split
    · exact h.mono fun x hx => by simp [hx]
    · exact h.react e

theorem WireInv.exec {P : LoginParams} {evs : List LoginEv} {s : ClientState}
    (h : WireInv P evs s) (steps : List Step) :
    WireInv P (evs ++ events steps) (exec P s steps) := by
  induction steps generalizing s evs with
  | nil => simpa [events, exec_nil] using h
  | cons a r ih =>
    rw [exec_cons]
    have := ih (h.step a)
    have he : evs ++ events [a] ++ events r = evs ++ events (a :: r) := by
      rw [List.append_assoc, ← events_append]; rfl
    rw [he] at this; exact this

/-- The invariant holds in every reachable state. -/
theorem wireInv_exec (P : LoginParams) (steps : List Step) :
    WireInv P (events steps) (exec P .init steps) := by
  simpa using (WireInv.init P).exec steps

/-! ## the bytes of a disciplined outbox -/

theorem sendsOfSent_flatten (z : ZlibOps) (ids : Ids) (s : Sent) :
    (sendsOfSent z ids s).flatten = frameOfSent z ids s :=
  frameSends_flatten' z s.threshold _

theorem frameOfSent_eq (z : ZlibOps) (ids : Ids) (s : Sent) :
    frameOfSent z ids s = packetFrame z s.threshold (wirePkt ids s) := rfl

/-- `encSends` on the CFB8 encryptor: final register and output of the one-shot call. -/
theorem encSends_cfb8 (E : Bytes → Bytes) (ds : List Bytes) (reg : Bytes) :
    (encSends (cfb8EncX E) reg ds).1 = (cfb8Enc E reg ds.flatten).1 ∧
      (encSends (cfb8EncX E) reg ds).2.flatten = (cfb8Enc E reg ds.flatten).2 := by
  induction ds generalizing reg with
  | nil => exact ⟨rfl, rfl⟩
  | cons d ds ih =>
    obtain ⟨i1, i2⟩ := ih (cfb8Enc E reg d).1
    simp only [encSends, List.flatten_cons, cfb8Enc_append]
    exact ⟨i1, by rw [← i2]; rfl⟩

/-- Frames written through the wrapper: ONE CFB8 stream over the concatenated frames, whatever the
chunking into `send` calls. -/
theorem wireGo_enc (z : ZlibOps) (E : Bytes → Bytes) (ids : Ids) (l : List Sent) (reg : Bytes)
    (h : ∀ f ∈ l, f.encrypted = true) :
    (wireGo z E ids reg l).flatten = (cfb8Enc E reg (l.map (frameOfSent z ids)).flatten).2 := by
  induction l generalizing reg with
  | nil => rfl
  | cons f r ih =>
    have hf : f.encrypted = true := h f (by simp)
    obtain ⟨e1, e2⟩ := encSends_cfb8 E (sendsOfSent z ids f) reg
    simp only [wireGo, hf, if_true, List.flatten_append, List.map_cons, List.flatten_cons,
      cfb8Enc_append]
    rw [e2, e1, ih _ fun g hg => h g (by simp [hg]), sendsOfSent_flatten]

theorem wireGo_plain_cons (z : ZlibOps) (E : Bytes → Bytes) (ids : Ids) (f : Sent)
    (r : List Sent) (reg : Bytes) (hf : f.encrypted = false) :
    (wireGo z E ids reg (f :: r)).flatten =
      frameOfSent z ids f ++ (wireGo z E ids reg r).flatten := by
  simp only [wireGo, hf, Bool.false_eq_true, if_false, List.flatten_append, sendsOfSent_flatten]

/-- The wire of a disciplined outbox: plaintext frames up to and including the first encryption
response, then the CFB8 encryption (register = `reg`) of all later frames as one stream. -/
theorem wireGo_split (z : ZlibOps) (E : Bytes → Bytes) (ids : Ids) (l : List Sent) (reg : Bytes)
    (h : switchOK false l = true) :
    (wireGo z E ids reg l).flatten =
      ((splitAtEncResp l).1.map (frameOfSent z ids)).flatten ++
        (cfb8Enc E reg ((splitAtEncResp l).2.map (frameOfSent z ids)).flatten).2 := by
  induction l with
  | nil => rfl
  | cons f r ih =>
    obtain ⟨h1, h2⟩ := switchOK_cons_false f r h
    rw [wireGo_plain_cons z E ids f r reg h1]
    by_cases hf : isEncResp f.pkt = true
    · rw [hf] at h2
      simp only [splitAtEncResp, hf, if_true, List.map_cons, List.map_nil, List.flatten_cons,
        List.flatten_nil, List.append_nil]
      rw [wireGo_enc z E ids r reg (switchOK_true_all r h2)]
    · have hf' : isEncResp f.pkt = false := by simpa using hf
      rw [hf'] at h2
      simp only [splitAtEncResp, hf', Bool.false_eq_true, if_false, List.map_cons,
        List.flatten_cons, List.append_assoc]
      rw [ih h2]

/-- Plaintext frames in front pass unchanged, whatever follows. -/
theorem wireGo_plain_append (z : ZlibOps) (E : Bytes → Bytes) (ids : Ids) (a r : List Sent)
    (reg : Bytes) (h : ∀ f ∈ a, f.encrypted = false) :
    (wireGo z E ids reg (a ++ r)).flatten =
      (a.map (frameOfSent z ids)).flatten ++ (wireGo z E ids reg r).flatten := by
  induction a with
  | nil => rfl
  | cons f a ih =>
    rw [List.cons_append, wireGo_plain_cons z E ids f _ reg (h f (by simp)),
      ih fun g hg => h g (by simp [hg])]
    simp


/-! ## the reference server on those bytes -/

theorem readPrefixedArray_ok (a more : Bytes) (h : a.length < 2 ^ 42) :
    readPrefixedArray (prefixedArray a ++ more) = .ok (a, more) := by
  unfold readPrefixedArray prefixedArray
  rw [List.append_assoc, decVarInt_enc _ _ h]
  simp

theorem decodeEncResp_fields (a b : Bytes) (ha : a.length < 2 ^ 42) (hb : b.length < 2 ^ 42) :
    decodeEncResp (fieldsOf (.encResp a b)) = .ok (a, b) := by
  unfold decodeEncResp fieldsOf
  rw [readPrefixedArray_ok a _ ha]
  have := readPrefixedArray_ok b [] hb
  rw [List.append_nil] at this
  simp only [this]

/-- The VarInt guard of an encryption response bounds both byte arrays. -/
theorem frameOK_encResp (z : ZlibOps) (thr : Option Int) (id : Nat) (a b : Bytes)
    (h : FrameOK z thr (id, fieldsOf (.encResp a b))) :
    a.length < 2 ^ 42 ∧ b.length < 2 ^ 42 := by
  have h2 := h.2.1
  simp only [packetPayload, fieldsOf, prefixedArray, List.length_append] at h2
  omega

theorem ahead_nil_segs {σ : Type} (x : StreamXform σ) (k : Sock σ) (h : ahead x k = []) :
    k.segs.flatten = [] := (xform_eq_nil x k.st _).mp h

/-- Encrypted phase: the decrypted view ahead is a sequence of frames, each read back with its own
compression flag. -/
theorem recvEnc_frames (z : Zlib) (EK : Bytes → Bytes → Bytes) (key : Bytes) (ids : Ids)
    (l : List Sent) (k : Sock Bytes)
    (hok : ∀ f ∈ l, FrameOK z.toZlibOps f.threshold (wirePkt ids f))
    (hk : ahead (cfb8DecX (EK key)) k = (l.map (frameOfSent z.toZlibOps ids)).flatten) :
    recvEnc z.toZlibOps EK key (modesOf l) k = ⟨l.map (wirePkt ids), some key, none, []⟩ := by
  induction l generalizing k with
  | nil =>
    simp only [modesOf, List.map_nil, recvEnc]
    rw [ahead_nil_segs _ k (by simpa using hk)]
  | cons f r ih =>
    have hp := parsePacket_packetFrame z f.threshold (wirePkt ids f)
      (r.map (frameOfSent z.toZlibOps ids)).flatten (hok f (by simp))
    rw [← frameOfSent_eq] at hp
    simp only [List.map_cons, List.flatten_cons] at hk
    rw [← hk] at hp
    obtain ⟨k', e1, e2⟩ := (readPacketK_spec (cfb8DecX (EK key)) z.toZlibOps f.threshold.isSome k).1
      _ _ hp
    have := ih k' (fun g hg => hok g (by simp [hg])) e2
    simp only [modesOf] at this
    simp only [modesOf, List.map_cons, recvEnc, e1, this, Recovered.cons]

/-- The whole server run on the wire of a disciplined outbox whose first encryption response (if
any) decrypts to `secret` under the server's private key. -/
theorem recvPlain_outbox (z : Zlib) (EK : Bytes → Bytes → Bytes) (rsaDec : Bytes → Bytes)
    (secret : Bytes) (ids : Ids) (hids : ids.encResp ≠ ids.plugResp) (l : List Sent)
    (k : Sock Unit) (hsw : switchOK false l = true)
    (hok : ∀ f ∈ l, FrameOK z.toZlibOps f.threshold (wirePkt ids f))
    (hkey : ∀ a b, firstEncResp l = some (a, b) → rsaDec a = secret)
    (hk : k.segs.flatten = (wireGo z.toZlibOps (EK secret) ids secret l).flatten) :
    recvPlain z.toZlibOps EK rsaDec ids.encResp (modesOf l) k =
      ⟨l.map (wirePkt ids), if hasEncResp l then some secret else none, none, []⟩ := by
  induction l generalizing k with
  | nil =>
    simp only [modesOf, List.map_nil, recvPlain, hasEncResp, List.any_nil, Bool.false_eq_true,
      if_false]
    rw [hk]; rfl
  | cons f r ih =>
    obtain ⟨h1, h2⟩ := switchOK_cons_false f r hsw
    rw [wireGo_plain_cons _ _ ids f r secret h1] at hk
    have hp := parsePacket_packetFrame z f.threshold (wirePkt ids f)
      (wireGo z.toZlibOps (EK secret) ids secret r).flatten (hok f (by simp))
    rw [← frameOfSent_eq, ← hk, ← ahead_id] at hp
    obtain ⟨k', e1, e2⟩ := (readPacketK_spec idXform z.toZlibOps f.threshold.isSome k).1 _ _ hp
    rw [ahead_id] at e2
    have hokr : ∀ g ∈ r, FrameOK z.toZlibOps g.threshold (wirePkt ids g) :=
      fun g hg => hok g (by simp [hg])
    cases hpk : f.pkt with
    | encResp a b =>
      have hid : (wirePkt ids f).1 = ids.encResp := by simp [wirePkt, hpk, pktId]
      have hfo := hok f (by simp)
      have hfields : (wirePkt ids f).2 = fieldsOf (.encResp a b) := by simp [wirePkt, hpk]
      have hfo' : FrameOK z.toZlibOps f.threshold (ids.encResp, fieldsOf (.encResp a b)) := by
        rw [← hid, ← hfields]; exact hfo
      obtain ⟨ha, hb⟩ := frameOK_encResp _ _ _ a b hfo'
      have hdec : decodeEncResp (wirePkt ids f).2 = .ok (a, b) := by
        rw [hfields]; exact decodeEncResp_fields a b ha hb
      have hsec : rsaDec a = secret := hkey a b (by simp [firstEncResp, hpk])
      have hall : ∀ g ∈ r, g.encrypted = true := by
        apply switchOK_true_all; simpa [hpk, isEncResp] using h2
      have hahead : ahead (cfb8DecX (EK secret)) (Sock.enc secret k'.segs) =
          (r.map (frameOfSent z.toZlibOps ids)).flatten := by
        rw [ahead_enc, e2, wireGo_enc _ _ ids r secret hall]
        exact (cfb8Dec_enc (EK secret) secret _).1
      have henc := recvEnc_frames z EK secret ids r (Sock.enc secret k'.segs) hokr hahead
      have hh : hasEncResp (f :: r) = true := by simp [hasEncResp, hpk, isEncResp]
      simp only [modesOf] at henc
      simp only [modesOf, List.map_cons, recvPlain, e1, hid, if_true, hdec, hsec, henc, hh,
        Recovered.cons]
    | plugResp i s d =>
      have hid : (wirePkt ids f).1 ≠ ids.encResp := by
        simp only [wirePkt, hpk, pktId]; exact fun h => hids h.symm
      have hne : isEncResp f.pkt = false := by simp [hpk, isEncResp]
      rw [hne] at h2
      have hkey' : ∀ a b, firstEncResp r = some (a, b) → rsaDec a = secret := by
        intro a b hab; apply hkey a b; simpa [firstEncResp, hpk] using hab
      have := ih k' h2 hokr hkey' e2
      have hh : hasEncResp (f :: r) = hasEncResp r := by simp [hasEncResp, hne]
      simp only [modesOf] at this
      simp only [modesOf, List.map_cons, recvPlain, e1, hid, if_false, this, hh, Recovered.cons]

/-! ## concrete parameters for the non-vacuity examples and the negative witness -/

/-- A toy keyed block function (one output byte depending on key and register). -/
def toyEK : Bytes → Bytes → Bytes := fun key r => [(key ++ r).foldl (fun a b => 3 * a + b) 7]

/-- Ids of protocol 385–390 style numbering used in the examples (any distinct pair would do). -/
def demoIds : Ids := ⟨1, 2⟩

/-- compress 64 → encrypt → plugin request → success. -/
def demoScript : List LoginEv :=
  [.setCompression 64, .encRequest "srv" [7, 8] [9], .pluginRequest 5 "ch" [1], .success]

/-- The same with a second plugin request answered before the encryption request and a threshold
that makes the later plugin response compressed-framed (`Zlib.ident` stores). -/
def demoScript2 : List LoginEv :=
  [.pluginRequest 300 "a" [], .encRequest "-" [7, 8] [9], .setCompression 1,
   .pluginRequest 5 "ch" [1], .success]

/-- The reference server of the examples: store-only zlib, `toyEK`, the private-key operation of
`demoParams.rsa` ("drop one byte"), encryption response id 1. -/
def demoServer (modes : List Bool) (segs : Segs) : Recovered :=
  serverRecover Zlib.ident.toZlibOps toyEK (demoParams.rsa.dec []) demoIds.encResp modes segs

/-- The client's wire for an outbox under the example parameters. -/
def demoWire (outbox : List Sent) : Bytes :=
  wireBytes Zlib.ident.toZlibOps (toyEK demoParams.secret) demoParams.secret demoIds outbox

end PyCraft.LoginWire
