import PyCraft.Model.LifecycleFair
import PyCraft.Lemmas.LifecycleTerm
/-!
Infinite schedules over `Model/Lifecycle.lean`: the connection `runN` ↔ `run`, shifting a schedule,
the two abstract fairness arguments (`fair_enabled`: a thread that stays enabled until it moves
does move; `fair_variant`: a thread that needs the lock gets it, given a variant that every step of
every OTHER thread decreases), and the concrete fair schedules.
-/
namespace PyCraft.Life
set_option linter.unusedSimpArgs false

/-! ### `runN` and `run` -/

theorem run_singleton (env : List Beh) (s : Sys) (t : Tid) :
    run env s [t] = match step env s t with
      | some s' => s'
      | none => s := by
  simp only [run]; cases step env s t <;> rfl

/-- The state after `n` picks of `σ` is the state after the finite schedule `σ 0, …, σ (n-1)`. -/
theorem runN_eq_run (env : List Beh) (s : Sys) (σ : Nat → Tid) (n : Nat) :
    runN env s σ n = run env s ((List.range n).map σ) := by
  induction n with
  | zero => rfl
  | succ n ih =>
    rw [List.range_succ, List.map_append, run_append, ← ih]
    simp only [List.map_cons, List.map_nil, run_singleton, runN]
    cases step env (runN env s σ n) (σ n) <;> rfl

theorem runN_succ (env : List Beh) (s : Sys) (σ : Nat → Tid) (n : Nat) :
    runN env s σ (n + 1) = match step env (runN env s σ n) (σ n) with
      | some s' => s'
      | none => runN env s σ n := rfl

theorem runN_succ_some (env : List Beh) (s : Sys) (σ : Nat → Tid) (n : Nat) (s' : Sys)
    (h : step env (runN env s σ n) (σ n) = some s') : runN env s σ (n + 1) = s' := by
  rw [runN_succ, h]

theorem runN_succ_none (env : List Beh) (s : Sys) (σ : Nat → Tid) (n : Nat)
    (h : step env (runN env s σ n) (σ n) = none) : runN env s σ (n + 1) = runN env s σ n := by
  rw [runN_succ, h]

theorem runN_add (env : List Beh) (s : Sys) (σ : Nat → Tid) (a b : Nat) :
    runN env s σ (a + b) = runN env (runN env s σ a) (shift σ a) b := by
  induction b with
  | zero => rfl
  | succ b ih =>
    rw [← Nat.add_assoc, runN_succ, runN_succ, ih]
    rfl

theorem runN_inv (env : List Beh) (s : Sys) (h : LInv s) (σ : Nat → Tid) (n : Nat) :
    LInv (runN env s σ n) := by
  rw [runN_eq_run]; exact run_inv env s h _

theorem enabled_iff (env : List Beh) (s : Sys) (t : Tid) :
    Enabled env s t ↔ ∃ s', step env s t = some s' := by
  unfold Enabled
  cases step env s t <;> simp

/-! ### Fairness -/

theorem Fair.weak {σ : Nat → Tid} (h : Fair σ) (env : List Beh) (s : Sys) : WeakFair env s σ :=
  fun t n _ => h t n

theorem WeakFair.shift {env : List Beh} {s : Sys} {σ : Nat → Tid} (h : WeakFair env s σ)
    (a : Nat) : WeakFair env (runN env s σ a) (shift σ a) := by
  intro t n hen
  obtain ⟨m, hm, hσ⟩ := h t (a + n) (fun m hm => by
    have := hen (m - a) (by omega)
    rw [← runN_add] at this
    have e : a + (m - a) = m := by omega
    rw [e] at this; exact this)
  refine ⟨m - a, by omega, ?_⟩
  have e : a + (m - a) = m := by omega
  simp only [Life.shift, e, hσ]

theorem Fair.shift {σ : Nat → Tid} (h : Fair σ) (a : Nat) : Fair (shift σ a) := by
  intro t n
  obtain ⟨m, hm, hσ⟩ := h t (a + n)
  refine ⟨m - a, by omega, ?_⟩
  have e : a + (m - a) = m := by omega
  simp only [Life.shift, e, hσ]

/-- FIRST FAIRNESS ARGUMENT.  If `Q` implies that `t` is enabled and is preserved by the steps of
all other threads, then on a weakly fair schedule from a `Q`-state thread `t` is eventually picked
in a `Q`-state (and so performs its step there). -/
theorem fair_enabled (env : List Beh) (t : Tid) (Q : Sys → Prop)
    (hen : ∀ s, Q s → Enabled env s t)
    (hstab : ∀ s s' u, Q s → u ≠ t → step env s u = some s' → Q s')
    (s : Sys) (σ : Nat → Tid) (hq : Q s) (hf : WeakFair env s σ) :
    ∃ m, σ m = t ∧ Q (runN env s σ m) := by
  apply Classical.byContradiction
  intro hne
  have hall : ∀ m, Q (runN env s σ m) := by
    intro m
    induction m with
    | zero => exact hq
    | succ m ih =>
      by_cases hm : σ m = t
      · exact absurd ⟨m, hm, ih⟩ hne
      · cases hst : step env (runN env s σ m) (σ m) with
        | none => rw [runN_succ_none env s σ m hst]; exact ih
        | some s' => rw [runN_succ_some env s σ m s' hst]; exact hstab _ s' _ ih hm hst
  obtain ⟨m, -, hm⟩ := hf t 0 (fun m _ => hen _ (hall m))
  exact hne ⟨m, hm, hall m⟩

/-- The lock holder keeps the lock while other threads move. -/
theorem owner_other (env : List Beh) (s s' : Sys) (u v : Tid) (h : LInv s)
    (ho : s.owner = some u) (hv : v ≠ u) (hs : step env s v = some s') : s'.owner = some u := by
  have h1 := h.own_iff v
  have h2 : canAcq s v = false := by
    simp only [canAcq, ho]; simpa using fun hc => hv hc.symm
  step_cases hs
  all_goals simp only [refusedSt, directSt, succSt, discSt, atRel] at *
  all_goals grind [NPc.isRel, UPc.isRel]

/-- On a weakly fair schedule the lock holder `u` eventually performs its (releasing) step: at
some pick `m` it is chosen while still holding the lock. -/
theorem owner_moves (env : List Beh) (u : Tid) (s : Sys) (σ : Nat → Tid) (h : LInv s)
    (ho : s.owner = some u) (hf : WeakFair env s σ) :
    ∃ m s', σ m = u ∧ (runN env s σ m).owner = some u ∧
      step env (runN env s σ m) u = some s' := by
  obtain ⟨m, hm, hq1, hq2⟩ := fair_enabled env u (fun s => LInv s ∧ s.owner = some u)
    (fun s hq => by
      obtain ⟨s', hs', -⟩ := owner_enabled env s hq.1 u hq.2
      exact (enabled_iff _ _ _).mpr ⟨s', hs'⟩)
    (fun s s' v hq hv hs => ⟨step_inv env s s' v hq.1 hs, owner_other env s s' u v hq.1 hq.2 hv hs⟩)
    s σ ⟨h, ho⟩ hf
  obtain ⟨s', hs', -⟩ := owner_enabled env _ hq1 u hq2
  exact ⟨m, s', hm, hq2, hs'⟩

/-- While `t` is never picked in a `Q`-state in which it is enabled, `Q` persists and `W` does
not grow. -/
theorem variant_hall (env : List Beh) (t : Tid) (Q : Sys → Prop) (W : Sys → Nat)
    (hstab : ∀ s s' u, Q s → u ≠ t → step env s u = some s' → Q s' ∧ W s' < W s)
    (s : Sys) (σ : Nat → Tid) (hq : Q s)
    (hne : ¬∃ m, σ m = t ∧ Q (runN env s σ m) ∧ Enabled env (runN env s σ m) t) :
    ∀ m, Q (runN env s σ m) ∧ W (runN env s σ m) ≤ W s := by
  intro m
  induction m with
  | zero => exact ⟨hq, Nat.le_refl _⟩
  | succ m ih =>
    cases hst : step env (runN env s σ m) (σ m) with
    | none => rw [runN_succ_none env s σ m hst]; exact ih
    | some s' =>
      rw [runN_succ_some env s σ m s' hst]
      by_cases hm : σ m = t
      · exact absurd ⟨m, hm, ih.1, by rw [← hm]; exact (enabled_iff _ _ _).mpr ⟨s', hst⟩⟩ hne
      · have := hstab _ s' _ ih.1 hm hst
        exact ⟨this.1, by omega⟩

/-- SECOND FAIRNESS ARGUMENT.  `t` is a thread whose only obstacle is the lock (`hblk`); `Q` is
preserved and the variant `W` is decreased by every step of every other thread (`hstab`).  Then on
a weakly fair schedule from a `Q`-state thread `t` is eventually picked in a `Q`-state in which it
is enabled.  (The lock holder always moves — `owner_moves` — and each time it does `W` drops, so
the lock cannot be withheld from `t` for ever.) -/
theorem fair_variant (env : List Beh) (t : Tid) (Q : Sys → Prop) (W : Sys → Nat)
    (hinv : ∀ s, Q s → LInv s)
    (hstab : ∀ s s' u, Q s → u ≠ t → step env s u = some s' → Q s' ∧ W s' < W s)
    (hblk : ∀ s, Q s → step env s t = none → ∃ u, u ≠ t ∧ s.owner = some u) :
    ∀ w s σ, Q s → W s ≤ w → WeakFair env s σ →
      ∃ m, σ m = t ∧ Q (runN env s σ m) ∧ Enabled env (runN env s σ m) t := by
  intro w
  induction w with
  | zero =>
    intro s σ hq hw hf
    apply Classical.byContradiction
    intro hne
    have hall := variant_hall env t Q W hstab s σ hq hne
    by_cases hen : ∀ m, Enabled env (runN env s σ m) t
    · obtain ⟨m, -, hm⟩ := hf t 0 (fun m _ => hen m)
      exact hne ⟨m, hm, (hall m).1, hen m⟩
    · obtain ⟨m, hm⟩ := Classical.not_forall.mp hen
      have hnone : step env (runN env s σ m) t = none := by
        unfold Enabled at hm; exact Classical.not_not.mp hm
      obtain ⟨u, hu, ho⟩ := hblk _ (hall m).1 hnone
      obtain ⟨k, s', hk, -, hs'⟩ := owner_moves env u _ (shift σ m) (hinv _ (hall m).1) ho
        (hf.shift m)
      rw [← runN_add] at hs'
      have := (hstab _ s' u (hall (m + k)).1 hu hs').2
      have := (hall (m + k)).2
      omega
  | succ w ih =>
    intro s σ hq hw hf
    apply Classical.byContradiction
    intro hne
    have hall := variant_hall env t Q W hstab s σ hq hne
    by_cases hen : ∀ m, Enabled env (runN env s σ m) t
    · obtain ⟨m, -, hm⟩ := hf t 0 (fun m _ => hen m)
      exact hne ⟨m, hm, (hall m).1, hen m⟩
    · obtain ⟨m, hm⟩ := Classical.not_forall.mp hen
      have hnone : step env (runN env s σ m) t = none := by
        unfold Enabled at hm; exact Classical.not_not.mp hm
      obtain ⟨u, hu, ho⟩ := hblk _ (hall m).1 hnone
      obtain ⟨k, s', hk, -, hs'⟩ := owner_moves env u _ (shift σ m) (hinv _ (hall m).1) ho
        (hf.shift m)
      rw [← runN_add] at hs'
      have h1 := hstab _ s' u (hall (m + k)).1 hu hs'
      have h2 := (hall (m + k)).2
      have hk' : σ (m + k) = u := hk
      have e : runN env s σ (m + k + 1) = s' :=
        runN_succ_some env s σ (m + k) s' (by rw [hk']; exact hs')
      obtain ⟨n, hn1, hn2, hn3⟩ := ih s' (shift σ (m + k + 1)) h1.1 (by omega)
        (by rw [← e]; exact hf.shift _)
      rw [← e, ← runN_add] at hn2 hn3
      exact hne ⟨m + k + 1 + n, hn1, hn2, hn3⟩

end PyCraft.Life
