import PyCraft.Model.McHash
/-!
Helper definitions and lemmas for C17: an independent big-endian value function, an independent
parser for signed lower-case base-16 numerals, a reference (well-founded) digit function that the
fuelled `toDigits16` is proved equal to, and the facts about digits that the property theorems use.
-/
namespace PyCraft.McHash

/-! ## Independent specification vocabulary -/

/-- Unsigned big-endian value: Σ byte · 256^(number of bytes after it). -/
def beValue : Bytes → Nat
  | [] => 0
  | b :: rest => b.toNat * 256 ^ rest.length + beValue rest

/-- Value of one lower-case hex digit (upper case is NOT accepted). -/
def hexDigitVal (c : Char) : Option Nat :=
  if '0' ≤ c ∧ c ≤ '9' then some (c.toNat - 48)
  else if 'a' ≤ c ∧ c ≤ 'f' then some (c.toNat - 87)
  else none

/-- `c ∈ 0-9a-f`. -/
def isLowerHex (c : Char) : Bool := ('0' ≤ c && c ≤ '9') || ('a' ≤ c && c ≤ 'f')

/-- Left-to-right base-16 accumulation; `none` on any non-digit. -/
def parseHexAcc : Nat → List Char → Option Nat
  | acc, [] => some acc
  | acc, c :: cs =>
    match hexDigitVal c with
    | none => none
    | some v => parseHexAcc (acc * 16 + v) cs

/-- One or more lower-case hex digits. -/
def parseHexNat : List Char → Option Nat
  | [] => none
  | cs => parseHexAcc 0 cs

/-- Optional leading `'-'`, then one or more lower-case hex digits (what Java's
`new BigInteger(s, 16)` reads, restricted to lower case and no `'+'`). -/
def parseSignedHex (s : String) : Option Int :=
  if s.toList.head? = some '-' then (parseHexNat s.toList.tail).map (fun (n : Nat) => -(n : Int))
  else (parseHexNat s.toList).map (fun (n : Nat) => (n : Int))

/-- Remove one optional leading `'-'`. -/
def stripMinus (l : List Char) : List Char := if l.head? = some '-' then l.tail else l

/-- Canonical digit string: non-empty, lower-case hex only, and `"0"` or no leading `'0'`. -/
def CanonDigits (ds : List Char) : Prop :=
  ds ≠ [] ∧ (∀ c ∈ ds, isLowerHex c = true) ∧ (ds = ['0'] ∨ ds.head? ≠ some '0')

/-- Canonical signed numeral (the shape of `BigInteger.toString(16)`): canonical digits, optionally
preceded by `'-'`, and never `"-0"`. -/
def CanonSigned (l : List Char) : Prop :=
  CanonDigits (stripMinus l) ∧ (l.head? = some '-' → stripMinus l ≠ ['0'])

/-- Reference digit function by well-founded recursion on `n / 16`. -/
def hexDigitsRef (n : Nat) : List Char :=
  if _h : n < 16 then [hexDigit n] else hexDigitsRef (n / 16) ++ [hexDigit (n % 16)]
decreasing_by omega

/-! ## SHA-1 output shape -/

theorem sha1_length (m : Bytes) : (sha1 m).length = 20 := by
  simp [sha1, Sha1.wordBytes]

/-! ## Bytes → integer -/

theorem beNat_foldl (l : Bytes) : ∀ acc : Nat,
    l.foldl (fun acc x => acc * 256 + x.toNat) acc = acc * 256 ^ l.length + beValue l := by
  induction l with
  | nil => intro acc; simp [beValue]
  | cons b rest ih =>
    intro acc
    simp only [List.foldl_cons, List.length_cons, beValue]
    rw [ih, Nat.pow_succ, Nat.add_mul, Nat.mul_assoc, Nat.mul_comm 256, Nat.add_assoc]

theorem beNat_eq_beValue (l : Bytes) : bytesToNatBE l = beValue l := by
  simp [bytesToNatBE, beNat_foldl]

theorem beValue_lt (l : Bytes) : beValue l < 256 ^ l.length := by
  induction l with
  | nil => simp [beValue]
  | cons b rest ih =>
    simp only [beValue, List.length_cons, Nat.pow_succ]
    have hb : b.toNat < 256 := b.toNat_lt
    have : b.toNat * 256 ^ rest.length ≤ 255 * 256 ^ rest.length :=
      Nat.mul_le_mul_right _ (by omega)
    omega

theorem pow256 (k : Nat) : 256 ^ k = 2 ^ (8 * k) := by
  rw [Nat.pow_mul]

theorem top_bit_nat : ∀ n < 256, (n &&& 0x80 ≠ 0 ↔ 128 ≤ n) := by decide +kernel

theorem top_bit_iff (b : UInt8) : (b.toNat &&& 0x80 ≠ 0) ↔ 128 ≤ b.toNat :=
  top_bit_nat b.toNat b.toNat_lt

/-- With the first byte `≥ 128` the unsigned value is in the upper half. -/
theorem beValue_ge_of_top (b : UInt8) (rest : Bytes) (h : 128 ≤ b.toNat) :
    128 * 256 ^ rest.length ≤ beValue (b :: rest) := by
  simp only [beValue]
  have : 128 * 256 ^ rest.length ≤ b.toNat * 256 ^ rest.length := Nat.mul_le_mul_right _ h
  omega

theorem beValue_lt_of_not_top (b : UInt8) (rest : Bytes) (h : b.toNat < 128) :
    beValue (b :: rest) < 128 * 256 ^ rest.length := by
  simp only [beValue]
  have : b.toNat * 256 ^ rest.length ≤ 127 * 256 ^ rest.length :=
    Nat.mul_le_mul_right _ (by omega)
  have := beValue_lt rest
  omega

theorem fromBytesSigned_cons (b : UInt8) (rest : Bytes) :
    fromBytesSigned (b :: rest) =
      (beValue (b :: rest) : Int)
        - (if 128 ≤ b.toNat then ((2 ^ (8 * (rest.length + 1)) : Nat) : Int) else 0) := by
  simp only [fromBytesSigned, beNat_eq_beValue, top_bit_iff, List.length_cons]
  split <;> simp

theorem fromBytesSigned_neg_iff (b : UInt8) (rest : Bytes) :
    fromBytesSigned (b :: rest) < 0 ↔ 128 ≤ b.toNat := by
  rw [fromBytesSigned_cons]
  have hlt := beValue_lt (b :: rest)
  rw [pow256, List.length_cons] at hlt
  split <;> omega

theorem half_pow (k : Nat) : 128 * 256 ^ k = 2 ^ (8 * (k + 1) - 1) := by
  have e : 8 * (k + 1) - 1 = 8 * k + 7 := by omega
  rw [e, Nat.pow_add, pow256]
  omega

theorem full_pow (k : Nat) : 2 ^ (8 * (k + 1)) = 2 * 2 ^ (8 * (k + 1) - 1) := by
  have e : 8 * (k + 1) = (8 * (k + 1) - 1) + 1 := by omega
  rw [e, Nat.pow_succ]
  simp only [Nat.add_sub_cancel]
  omega

/-- Two's-complement range: an `n`-byte string denotes a value in `[-2^(8n-1), 2^(8n-1))`. -/
theorem fromBytesSigned_range_cons (b : UInt8) (rest : Bytes) :
    -((2 ^ (8 * (rest.length + 1) - 1) : Nat) : Int) ≤ fromBytesSigned (b :: rest) ∧
      fromBytesSigned (b :: rest) < ((2 ^ (8 * (rest.length + 1) - 1) : Nat) : Int) := by
  rw [fromBytesSigned_cons]
  have hlt := beValue_lt (b :: rest)
  rw [pow256, List.length_cons] at hlt
  have hf := full_pow rest.length
  split
  · next h =>
    have := beValue_ge_of_top b rest h
    rw [half_pow] at this
    omega
  · next h =>
    have := beValue_lt_of_not_top b rest (by omega)
    rw [half_pow] at this
    omega

/-! ## Input layout -/

theorem hashInput_layout (sid secret key : Bytes) :
    (hashInput sid secret key).take sid.length = sid ∧
    ((hashInput sid secret key).drop sid.length).take secret.length = secret ∧
    (hashInput sid secret key).drop (sid.length + secret.length) = key := by
  simp [hashInput, List.append_assoc]

/-! ## Digits -/

theorem toDigits16Aux_acc (fuel : Nat) : ∀ (n : Nat) (acc : List Char),
    toDigits16Aux fuel n acc = toDigits16Aux fuel n [] ++ acc := by
  induction fuel with
  | zero => intro n acc; simp [toDigits16Aux]
  | succ f ih =>
    intro n acc
    simp only [toDigits16Aux]
    split
    · rfl
    · rw [ih (n / 16) (hexDigit (n % 16) :: acc), ih (n / 16) [hexDigit (n % 16)]]
      simp

theorem toDigits16Aux_ref (fuel : Nat) : ∀ n : Nat, n < 16 ^ (fuel + 1) →
    toDigits16Aux (fuel + 1) n [] = hexDigitsRef n := by
  induction fuel with
  | zero =>
    intro n h
    have h16 : n < 16 := by simpa using h
    rw [hexDigitsRef, dif_pos h16]
    simp [toDigits16Aux, h16]
  | succ f ih =>
    intro n h
    rw [hexDigitsRef]
    by_cases hn : n < 16
    · simp [toDigits16Aux, hn]
    · have hlt : n / 16 < 16 ^ (f + 1) := by
        rw [Nat.pow_succ] at h
        exact Nat.div_lt_of_lt_mul (by rw [Nat.mul_comm]; exact h)
      rw [dif_neg hn, ← ih (n / 16) hlt]
      show toDigits16Aux (f + 1 + 1) n [] = _
      rw [toDigits16Aux, if_neg hn, toDigits16Aux_acc]

theorem fuel_suffices (n : Nat) : n < 16 ^ (n.log2 / 4 + 1) := by
  have h1 : n < 2 ^ (n.log2 + 1) := Nat.lt_log2_self
  have h2 : (16 : Nat) ^ (n.log2 / 4 + 1) = 2 ^ (4 * (n.log2 / 4 + 1)) := by
    rw [Nat.pow_mul]
  rw [h2]
  exact Nat.lt_of_lt_of_le h1 (Nat.pow_le_pow_right (by omega) (by omega))

theorem toDigits16_eq_ref (n : Nat) : toDigits16 n = hexDigitsRef n :=
  toDigits16Aux_ref _ n (fuel_suffices n)

/-- The defining equation the rest of the development reasons with. -/
theorem toDigits16_eq (n : Nat) :
    toDigits16 n = if n < 16 then [hexDigit n] else toDigits16 (n / 16) ++ [hexDigit (n % 16)] := by
  rw [toDigits16_eq_ref, toDigits16_eq_ref, hexDigitsRef]
  split <;> rfl

theorem toDigits16_small (n : Nat) (h : n < 16) : toDigits16 n = [hexDigit n] := by
  rw [toDigits16_eq, if_pos h]

theorem toDigits16_big (n : Nat) (h : ¬ n < 16) :
    toDigits16 n = toDigits16 (n / 16) ++ [hexDigit (n % 16)] := by
  rw [toDigits16_eq, if_neg h]

theorem toDigits16_ne_nil (n : Nat) : toDigits16 n ≠ [] := by
  rw [toDigits16_eq]; split <;> simp

/-! ### single-digit facts (16 cases each) -/

theorem hexDigitVal_hexDigit : ∀ n < 16, hexDigitVal (hexDigit n) = some n := by decide +kernel
theorem isLowerHex_hexDigit : ∀ n < 16, isLowerHex (hexDigit n) = true := by decide +kernel
theorem hexDigit_ne_minus : ∀ n < 16, hexDigit n ≠ '-' := by decide +kernel
theorem hexDigit_ne_zero : ∀ n < 16, n ≠ 0 → hexDigit n ≠ '0' := by decide +kernel

/-- Every lower-case hex character is `hexDigit v` for its value `v < 16`. -/
theorem isLowerHex_val (c : Char) (h : isLowerHex c = true) :
    ∃ v, v < 16 ∧ hexDigitVal c = some v ∧ hexDigit v = c := by
  simp only [isLowerHex, Bool.or_eq_true, Bool.and_eq_true, decide_eq_true_eq] at h
  rcases h with ⟨h1, h2⟩ | ⟨h1, h2⟩
  · have h1' : 48 ≤ c.toNat := by
      have := Char.le_def.mp h1; exact this
    have h2' : c.toNat ≤ 57 := by
      have := Char.le_def.mp h2; exact this
    refine ⟨c.toNat - 48, by omega, ?_, ?_⟩
    · simp [hexDigitVal, h1, h2]
    · have e : 48 + (c.toNat - 48) = c.toNat := by omega
      simp only [hexDigit]
      rw [if_pos (by omega), e, Char.ofNat_toNat]
  · have h1' : 97 ≤ c.toNat := by
      have := Char.le_def.mp h1; exact this
    have h2' : c.toNat ≤ 102 := by
      have := Char.le_def.mp h2; exact this
    have hnot : ¬ ('0' ≤ c ∧ c ≤ '9') := by
      intro ⟨_, h9⟩
      have : c.toNat ≤ 57 := Char.le_def.mp h9
      omega
    refine ⟨c.toNat - 87, by omega, ?_, ?_⟩
    · simp [hexDigitVal, hnot, h1, h2]
    · have e : 87 + (c.toNat - 87) = c.toNat := by omega
      simp only [hexDigit]
      rw [if_neg (by omega), e, Char.ofNat_toNat]

/-! ### digit strings -/

theorem toDigits16_all_hex (n : Nat) : ∀ c ∈ toDigits16 n, isLowerHex c = true := by
  induction n using Nat.strongRecOn with
  | _ n ih =>
    intro c hc
    by_cases h : n < 16
    · rw [toDigits16_small n h] at hc
      simp only [List.mem_singleton] at hc
      subst hc; exact isLowerHex_hexDigit n h
    · rw [toDigits16_big n h, List.mem_append] at hc
      rcases hc with hc | hc
      · exact ih (n / 16) (by omega) c hc
      · simp only [List.mem_singleton] at hc
        subst hc; exact isLowerHex_hexDigit _ (by omega)

/-- The first digit is a digit of a non-zero value, or the number is `0`. -/
theorem toDigits16_head (n : Nat) :
    ∃ v rest, v < 16 ∧ toDigits16 n = hexDigit v :: rest ∧ (v = 0 → n = 0 ∧ rest = []) := by
  induction n using Nat.strongRecOn with
  | _ n ih =>
    by_cases h : n < 16
    · exact ⟨n, [], h, toDigits16_small n h, fun h0 => ⟨h0, rfl⟩⟩
    · obtain ⟨v, rest, hv, he, h0⟩ := ih (n / 16) (by omega)
      refine ⟨v, rest ++ [hexDigit (n % 16)], hv, ?_, ?_⟩
      · rw [toDigits16_big n h, he]; rfl
      · intro hv0
        have := (h0 hv0).1
        omega

theorem toDigits16_head_ne_minus (n : Nat) : (toDigits16 n).head? ≠ some '-' := by
  obtain ⟨v, rest, hv, he, _⟩ := toDigits16_head n
  rw [he]
  simp only [List.head?_cons, ne_eq, Option.some.injEq]
  exact hexDigit_ne_minus v hv

theorem toDigits16_zero : toDigits16 0 = ['0'] := by
  rw [toDigits16_small 0 (by omega)]; rfl

theorem toDigits16_no_leading_zero (n : Nat) :
    toDigits16 n = ['0'] ∨ ∃ c cs, toDigits16 n = c :: cs ∧ c ≠ '0' := by
  obtain ⟨v, rest, hv, he, h0⟩ := toDigits16_head n
  by_cases hv0 : v = 0
  · left
    rw [(h0 hv0).1]; exact toDigits16_zero
  · right
    exact ⟨hexDigit v, rest, he, hexDigit_ne_zero v hv hv0⟩

theorem toDigits16_eq_zero_iff (n : Nat) : toDigits16 n = ['0'] ↔ n = 0 := by
  constructor
  · intro h
    obtain ⟨v, rest, hv, he, h0⟩ := toDigits16_head n
    rw [he] at h
    simp only [List.cons.injEq] at h
    by_cases hv0 : v = 0
    · exact (h0 hv0).1
    · exact absurd h.1 (hexDigit_ne_zero v hv hv0)
  · intro h; subst h; exact toDigits16_zero

theorem toDigits16_canon (n : Nat) : CanonDigits (toDigits16 n) := by
  refine ⟨toDigits16_ne_nil n, toDigits16_all_hex n, ?_⟩
  rcases toDigits16_no_leading_zero n with h | ⟨c, cs, he, hc⟩
  · left; exact h
  · right; rw [he]; simpa using hc

/-! ### parsing -/

theorem parseHexAcc_append (l : List Char) (c : Char) : ∀ acc : Nat,
    parseHexAcc acc (l ++ [c]) =
      (parseHexAcc acc l).bind (fun m => (hexDigitVal c).map (fun v => m * 16 + v)) := by
  induction l with
  | nil =>
    intro acc
    simp only [List.nil_append, parseHexAcc]
    cases hexDigitVal c <;> simp
  | cons d rest ih =>
    intro acc
    simp only [List.cons_append, parseHexAcc]
    cases hexDigitVal d with
    | none => simp
    | some v => exact ih _

theorem parseHexAcc_toDigits16 (n : Nat) : parseHexAcc 0 (toDigits16 n) = some n := by
  induction n using Nat.strongRecOn with
  | _ n ih =>
    by_cases h : n < 16
    · rw [toDigits16_small n h]
      simp [parseHexAcc, hexDigitVal_hexDigit n h]
    · rw [toDigits16_big n h, parseHexAcc_append, ih (n / 16) (by omega),
        hexDigitVal_hexDigit _ (by omega)]
      simp only [Option.bind_some, Option.map_some, Option.some.injEq]
      omega

theorem parseHexNat_of_ne_nil (l : List Char) (h : l ≠ []) : parseHexNat l = parseHexAcc 0 l := by
  cases l with
  | nil => exact absurd rfl h
  | cons c cs => rfl

theorem parseHexNat_toDigits16 (n : Nat) : parseHexNat (toDigits16 n) = some n := by
  rw [parseHexNat_of_ne_nil _ (toDigits16_ne_nil n), parseHexAcc_toDigits16]

/-! ### formatHex -/

theorem formatHex_toList (z : Int) : (formatHex z).toList = formatHexChars z := by
  simp [formatHex]

theorem formatHexChars_neg (z : Int) (h : z < 0) :
    formatHexChars z = '-' :: toDigits16 z.natAbs := by
  simp [formatHexChars, h]

theorem formatHexChars_nonneg (z : Int) (h : ¬ z < 0) :
    formatHexChars z = toDigits16 z.natAbs := by
  simp [formatHexChars, h]

theorem formatHexChars_head_minus_iff (z : Int) :
    (formatHexChars z).head? = some '-' ↔ z < 0 := by
  by_cases h : z < 0
  · simp [formatHexChars_neg z h, h]
  · rw [formatHexChars_nonneg z h]
    simp only [h, iff_false]
    exact toDigits16_head_ne_minus _

theorem stripMinus_formatHexChars (z : Int) :
    stripMinus (formatHexChars z) = toDigits16 z.natAbs := by
  by_cases h : z < 0
  · simp [stripMinus, formatHexChars_neg z h]
  · rw [formatHexChars_nonneg z h, stripMinus, if_neg (toDigits16_head_ne_minus _)]

theorem parseSignedHex_formatHex (z : Int) : parseSignedHex (formatHex z) = some z := by
  unfold parseSignedHex
  rw [formatHex_toList]
  by_cases h : z < 0
  · rw [formatHexChars_neg z h]
    simp only [List.head?_cons, if_true, List.tail_cons, parseHexNat_toDigits16, Option.map_some,
      Option.some.injEq]
    omega
  · rw [formatHexChars_nonneg z h, if_neg (toDigits16_head_ne_minus _), parseHexNat_toDigits16]
    simp only [Option.map_some, Option.some.injEq]
    omega

theorem formatHexChars_canon (z : Int) : CanonSigned (formatHexChars z) := by
  refine ⟨?_, ?_⟩
  · rw [stripMinus_formatHexChars]; exact toDigits16_canon _
  · intro hm
    rw [stripMinus_formatHexChars, ne_eq, toDigits16_eq_zero_iff]
    have := (formatHexChars_head_minus_iff z).mp hm
    omega

/-! ### uniqueness of the canonical numeral -/

theorem parseHexAcc_ge (l : List Char) : ∀ acc m : Nat, parseHexAcc acc l = some m → acc ≤ m := by
  induction l with
  | nil => intro acc m h; simp [parseHexAcc] at h; omega
  | cons c cs ih =>
    intro acc m h
    simp only [parseHexAcc] at h
    cases hv : hexDigitVal c with
    | none => simp [hv] at h
    | some v =>
      simp only [hv] at h
      have := ih _ _ h
      omega

theorem canonDigits_unique_rev (r : List Char) : ∀ n : Nat,
    CanonDigits r.reverse → parseHexAcc 0 r.reverse = some n → toDigits16 n = r.reverse := by
  induction r with
  | nil => intro n h; exact absurd rfl h.1
  | cons c r' ih =>
    intro n
    simp only [List.reverse_cons]
    generalize r'.reverse = init at ih
    intro ⟨_, hall, hlead⟩ hp
    obtain ⟨v, hv, hval, hchar⟩ := isLowerHex_val c (hall c (by simp))
    rw [parseHexAcc_append, hval] at hp
    cases hm : parseHexAcc 0 init with
    | none => simp [hm] at hp
    | some m =>
      simp only [hm, Option.bind_some, Option.map_some, Option.some.injEq] at hp
      cases init with
      | nil =>
        simp only [parseHexAcc, Option.some.injEq] at hm
        have hn : n = v := by omega
        rw [hn, toDigits16_small v hv, hchar]; rfl
      | cons d rest =>
        -- the leading digit `d` is not '0', so the prefix denotes a positive number
        have hd0 : d ≠ '0' := by
          rcases hlead with h | h
          · simp at h
          · simpa using h
        have hinit : CanonDigits (d :: rest) :=
          ⟨by simp, fun x hx => hall x (List.mem_append_left _ hx),
            Or.inr (by simpa using hd0)⟩
        have ihm := ih m hinit hm
        have hmpos : m ≠ 0 := by
          intro h0
          rw [h0, toDigits16_zero] at ihm
          simp only [List.cons.injEq] at ihm
          exact hd0 ihm.1.symm
        have hn16 : ¬ n < 16 := by omega
        have h1 : n / 16 = m := by omega
        have h2 : n % 16 = v := by omega
        rw [toDigits16_big n hn16, h1, h2, ihm, hchar]

/-- Canonical digits are exactly the digits of the number they denote. -/
theorem canonDigits_unique (ds : List Char) (n : Nat) (hc : CanonDigits ds)
    (hp : parseHexAcc 0 ds = some n) : toDigits16 n = ds := by
  have := canonDigits_unique_rev ds.reverse n
  rw [List.reverse_reverse] at this
  exact this hc hp

theorem formatHexChars_unique (l : List Char) (z : Int) (hc : CanonSigned l)
    (hp : parseSignedHex (String.ofList l) = some z) : formatHexChars z = l := by
  obtain ⟨hd, hnz⟩ := hc
  unfold parseSignedHex at hp
  rw [String.toList_ofList] at hp
  by_cases hm : l.head? = some '-'
  · rw [if_pos hm] at hp
    simp only [stripMinus, if_pos hm] at hd hnz
    rw [parseHexNat_of_ne_nil _ hd.1] at hp
    cases hq : parseHexAcc 0 l.tail with
    | none => simp [hq] at hp
    | some n =>
      simp only [hq, Option.map_some, Option.some.injEq] at hp
      have hu := canonDigits_unique _ n hd hq
      have hn0 : n ≠ 0 := by
        intro h0
        rw [h0, toDigits16_zero] at hu
        exact hnz hm hu.symm
      have hz : z < 0 := by omega
      have habs : z.natAbs = n := by omega
      rw [formatHexChars_neg z hz, habs, hu]
      cases l with
      | nil => simp at hm
      | cons c cs => simp at hm; simp [hm]
  · rw [if_neg hm] at hp
    simp only [stripMinus, if_neg hm] at hd
    rw [parseHexNat_of_ne_nil _ hd.1] at hp
    cases hq : parseHexAcc 0 l with
    | none => simp [hq] at hp
    | some n =>
      simp only [hq, Option.map_some, Option.some.injEq] at hp
      have hu := canonDigits_unique _ n hd hq
      have hz : ¬ z < 0 := by omega
      have habs : z.natAbs = n := by omega
      rw [formatHexChars_nonneg z hz, habs, hu]

end PyCraft.McHash
