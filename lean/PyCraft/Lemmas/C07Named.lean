import PyCraft.Lemmas.RefCheck
import PyCraft.Generated.C07Named
import PyCraft.Generated.Versions
import PyCraft.Ref.Protocol
import PyCraft.Ref.C07Named
/-!
Lookups, checkers and helper lemmas for `Props/C07Named.lean` (audit gap 5: the C07 comparison with
the published protocol must keep the field NAMES and compare the wire types EXACTLY, not up to the
identification `i8 ≡ u8`).

Two LIVE sources are compared with the named reference `Ref.named` (from `harness/refproto.py`,
names kept):

* `Gen.C07Named.live` (new, `harness/gen/c07named.py`): per core class and supported release, the
  run-time `id` / `definition` of a packet instance (`packet.py` l.22-24, l.40-43) — read through
  `liveObsIn`;
* `Gen.layoutTables` (existing, `harness/extract.py`): the variants of `get_definition` with the
  versions using each — read through `lookupLayoutNamed` (names kept, unlike `C07.lookupLayout`).

All lookups are parametric in the table, so that a table describing CHANGED code can be run through
the very same checker (`Props/C07Named.lean`, refutations).
-/
namespace PyCraft.C07Named
open PyCraft PyCraft.Gen PyCraft.C07

abbrev LiveRow := Gen.C07Named.LiveRow
abbrev LiveTable := List ((String × String) × List LiveRow)
/-- a row of the named reference: (release, published id, published named layout) -/
abbrev NRow := Nat × Int × Layout
abbrev RefTable := List (String × List NRow)

/-- what one side says about one packet under one protocol version -/
inductive Obs
  /-- no such packet in that version (pyCraft: no class of that name is registered) -/
  | absent
  /-- pyCraft only: several classes of that name, a hand-written codec, `id`/`definition` raising
  or not an integer / not a field list, or the version is not tabulated at all -/
  | irregular
  /-- the packet id and the layout as (attribute name, wire type) pairs, in wire order -/
  | packet (id : Int) (lay : Layout)
deriving DecidableEq, Repr

def Obs.layout? : Obs → Option Layout
  | .packet _ L => some L
  | _ => none

def Obs.id? : Obs → Option Int
  | .packet i _ => some i
  | _ => none

/-- reading of one generated live row -/
def obsOfRow : LiveRow → Obs
  | (_, 0, _, _, _) => .absent
  | (_, 1, true, some i, some L) => .packet i L
  | _ => .irregular

/-- the live rows of one class read at version `v` -/
def liveObsRows (rows : List LiveRow) (v : Nat) : Obs :=
  match rows.find? fun r => r.1 == v with
  | none => .irregular
  | some r => obsOfRow r

/-- the reference rows of one packet read at release `v` -/
def refObsRows (rows : List NRow) (v : Nat) : Obs :=
  match rows.find? fun r => r.1 == v with
  | none => .absent
  | some r => .packet r.2.1 r.2.2

/-- pyCraft's packet `cls` of table `table` under protocol `v`, according to the live table `tbl` -/
def liveObsIn (tbl : LiveTable) (table cls : String) (v : Nat) : Obs :=
  match tbl.lookup (table, cls) with
  | none => .irregular
  | some rows => liveObsRows rows v

/-- the published packet `name` in release `v`, according to the reference table `tbl`
(`irregular` only if the reference does not know the packet at all) -/
def refObsIn (tbl : RefTable) (name : String) (v : Nat) : Obs :=
  match tbl.lookup name with
  | none => .irregular
  | some rows => refObsRows rows v

def liveObs : String → String → Nat → Obs := liveObsIn Gen.C07Named.live
def refObs : String → Nat → Obs := refObsIn Ref.named

/-- the whole comparison, as one Boolean: every core packet × every reference release (the two
table lookups are done once per packet) -/
def checkNamed (live : LiveTable) (ref : RefTable) : Bool :=
  Ref.core.all fun c =>
    match live.lookup (c.2.1, c.2.2), ref.lookup c.1 with
    | some lr, some rr =>
      Ref.releases.all fun rel => decide (liveObsRows lr rel = refObsRows rr rel)
    | _, _ => false

theorem checkNamed_sound (live : LiveTable) (ref : RefTable) (h : checkNamed live ref = true) :
    ∀ c ∈ Ref.core, ∀ rel ∈ Ref.releases,
      liveObsIn live c.2.1 c.2.2 rel = refObsIn ref c.1 rel := by
  intro c hc rel hrel
  simp only [checkNamed, List.all_eq_true] at h
  have h1 := h c hc
  unfold liveObsIn refObsIn
  cases hl : live.lookup (c.2.1, c.2.2) with
  | none => simp [hl] at h1
  | some lr =>
    cases hr : ref.lookup c.1 with
    | none => simp [hl, hr] at h1
    | some rr =>
      simp only [hl, hr, List.all_eq_true] at h1
      exact of_decide_eq_true (h1 rel hrel)

/-! ### the reference: which (packet, release) pairs exist -/

/-- the only core packet that does not exist in every reference release: the teleport confirmation
was introduced with protocol 107 (1.9) -/
def isException (name : String) (rel : Nat) : Bool := name == "teleport_confirm" && rel == 47

def checkTotal (ref : RefTable) : Bool :=
  Ref.core.all fun c =>
    match ref.lookup c.1 with
    | none => false
    | some rr =>
      Ref.releases.all fun rel =>
        match refObsRows rr rel with
        | .absent => isException c.1 rel
        | .irregular => false
        | .packet _ _ => !isException c.1 rel

theorem checkTotal_sound (ref : RefTable) (h : checkTotal ref = true) :
    ∀ c ∈ Ref.core, ∀ rel ∈ Ref.releases,
      (isException c.1 rel = true → refObsIn ref c.1 rel = .absent) ∧
      (isException c.1 rel = false → ∃ id lay, refObsIn ref c.1 rel = .packet id lay) := by
  intro c hc rel hrel
  simp only [checkTotal, List.all_eq_true] at h
  have h0 := h c hc
  unfold refObsIn
  cases hr : ref.lookup c.1 with
  | none => simp [hr] at h0
  | some rr =>
    simp only [hr, List.all_eq_true] at h0
    have h1 := h0 rel hrel
    show (isException c.1 rel = true → refObsRows rr rel = .absent) ∧
      (isException c.1 rel = false → ∃ id lay, refObsRows rr rel = .packet id lay)
    cases ho : refObsRows rr rel with
    | absent => simp [ho] at h1; simp [h1]
    | irregular => simp [ho] at h1
    | packet i L =>
      simp [ho] at h1
      exact ⟨fun h2 => by simp [h1] at h2, fun _ => ⟨i, L, rfl⟩⟩

/-- forget the field names of a reference row / entry -/
def eraseRow (r : NRow) : C07.RefRow := (r.1, r.2.1, r.2.2.map fun f => f.2)
def eraseEntry (e : String × List NRow) : String × List C07.RefRow := (e.1, e.2.map eraseRow)

/-- a `packet` answer of the reference comes from a row of the table -/
theorem refObsIn_packet_mem (ref : RefTable) (name : String) (v : Nat) (i : Int) (L : Layout)
    (h : refObsIn ref name v = .packet i L) :
    ∃ e ∈ ref, e.1 = name ∧ (v, i, L) ∈ e.2 := by
  unfold refObsIn at h
  cases hr : ref.lookup name with
  | none => simp [hr] at h
  | some rows =>
    simp only [hr, refObsRows] at h
    cases hf : rows.find? (fun r => r.1 == v) with
    | none => simp [hf] at h
    | some r =>
      simp only [hf, Obs.packet.injEq] at h
      have h1 := List.mem_of_find?_eq_some hf
      have h2 : r.1 = v := by simpa using List.find?_some hf
      refine ⟨(name, rows), mem_of_lookup _ _ _ hr, rfl, ?_⟩
      obtain ⟨r1, r2, r3⟩ := r
      simp only at h h2
      obtain ⟨rfl, rfl⟩ := h
      subst h2
      exact h1

/-- every row of the named reference, read against the live table: the release is a reference
release and pyCraft's packet there is exactly the row -/
def checkRows (live : LiveTable) (ref : RefTable) : Bool :=
  Ref.core.all fun c => ref.all fun e =>
    !(e.1 == c.1) ||
      match live.lookup (c.2.1, c.2.2) with
      | some lr => e.2.all fun row =>
          Ref.releases.contains row.1 && decide (liveObsRows lr row.1 = .packet row.2.1 row.2.2)
      | none => false

theorem checkRows_sound (live : LiveTable) (ref : RefTable) (h : checkRows live ref = true) :
    ∀ c ∈ Ref.core, ∀ e ∈ ref, e.1 = c.1 → ∀ row ∈ e.2,
      row.1 ∈ Ref.releases ∧ liveObsIn live c.2.1 c.2.2 row.1 = .packet row.2.1 row.2.2 := by
  intro c hc e he hname row hrow
  simp only [checkRows, List.all_eq_true] at h
  have h1 := h c hc e he
  simp only [hname, beq_self_eq_true, Bool.not_true, Bool.false_or] at h1
  unfold liveObsIn
  cases hl : live.lookup (c.2.1, c.2.2) with
  | none => simp [hl] at h1
  | some lr =>
    simp only [hl, List.all_eq_true, Bool.and_eq_true, decide_eq_true_eq] at h1
    have h2 := h1 row hrow
    exact ⟨by simpa using h2.1, h2.2⟩

/-! ### the existing layout table, names kept -/

/-- the named layout of the FIRST variant listing version `v` (`C07.lookupLayout` keeps only the
types) -/
def lookupLayoutNamed (variants : List Variant) (v : Nat) : Option Layout :=
  match variants.find? fun var => var.2.contains v with
  | none => none
  | some var => var.1

def variantsOf (table cls : String) : Option (List Variant) :=
  match layoutTables.lookup table with
  | none => none
  | some rows => rows.lookup cls

/-- the named layout of pyCraft's class `cls` of table `table` under protocol `v`, from
`Gen.layoutTables` -/
def genLayoutNamed (table cls : String) (v : Nat) : Option Layout :=
  match variantsOf table cls with
  | none => none
  | some variants => lookupLayoutNamed variants v

theorem lookupLayout_eq_named (variants : List Variant) (v : Nat) :
    lookupLayout variants v = (lookupLayoutNamed variants v).map fun L => L.map fun f => f.2 := by
  unfold lookupLayout lookupLayoutNamed
  cases variants.find? fun var => var.2.contains v with
  | none => rfl
  | some var => rfl

/-- `C07.genLayout` is `genLayoutNamed` with the names dropped -/
theorem genLayout_eq_named (table cls : String) (v : Nat) :
    genLayout table cls v = (genLayoutNamed table cls v).map fun L => L.map fun f => f.2 := by
  unfold genLayout genLayoutNamed variantsOf
  cases h1 : layoutTables.lookup table with
  | none => rfl
  | some rows =>
    cases h2 : rows.lookup cls with
    | none => simp [h2]
    | some variants => simpa [h2] using lookupLayout_eq_named variants v

/-- `v ∈ xs`, written with `Nat.beq` so that the kernel evaluates it quickly -/
def memNat (v : Nat) : List Nat → Bool
  | [] => false
  | x :: xs => Nat.beq x v || memNat v xs

theorem memNat_iff (v : Nat) : ∀ xs : List Nat, memNat v xs = true ↔ v ∈ xs := by
  intro xs
  induction xs with
  | nil => simp [memNat]
  | cons x xs ih =>
    have hb : Nat.beq x v = true ↔ v = x :=
      ⟨fun h => (Nat.eq_of_beq_eq_true h).symm, fun h => by subst h; exact Nat.beq_refl v⟩
    simp only [memNat, Bool.or_eq_true, ih, List.mem_cons, hb]

/-- one pass over the variants: EVERY variant listing `v` (not only the first) carries exactly the
named layout `L`, and (`found`) at least one variant lists `v` -/
def scan (v : Nat) (L : Layout) : List Variant → Bool → Bool
  | [], found => found
  | var :: vs, found =>
    match memNat v var.2 with
    | true => decide (var.1 = some L) && scan v L vs true
    | false => scan v L vs found

theorem scan_sound (v : Nat) (L : Layout) : ∀ (variants : List Variant) (found : Bool),
    scan v L variants found = true →
      (found = true ∨ ∃ var ∈ variants, v ∈ var.2) ∧
      (∀ var ∈ variants, v ∈ var.2 → var.1 = some L) := by
  intro variants
  induction variants with
  | nil => intro found h; exact ⟨Or.inl (by simpa [scan] using h), fun _ hv => by simp at hv⟩
  | cons a as ih =>
    intro found h
    unfold scan at h
    cases hm : memNat v a.2 with
    | true =>
      simp only [hm, Bool.and_eq_true, decide_eq_true_eq] at h
      have ha : v ∈ a.2 := (memNat_iff v a.2).mp hm
      obtain ⟨_, i2⟩ := ih true h.2
      refine ⟨Or.inr ⟨a, List.mem_cons_self, ha⟩, fun var hvar hv => ?_⟩
      rcases List.mem_cons.mp hvar with rfl | hvar
      · exact h.1
      · exact i2 var hvar hv
    | false =>
      simp only [hm] at h
      have ha : ¬ v ∈ a.2 := fun hv => by
        have := (memNat_iff v a.2).mpr hv
        rw [hm] at this; exact Bool.noConfusion this
      obtain ⟨i1, i2⟩ := ih found h
      refine ⟨?_, fun var hvar hv => ?_⟩
      · rcases i1 with i1 | ⟨w, hw, hwv⟩
        · exact Or.inl i1
        · exact Or.inr ⟨w, List.mem_cons_of_mem _ hw, hwv⟩
      · rcases List.mem_cons.mp hvar with rfl | hvar
        · exact absurd hv ha
        · exact i2 var hvar hv

/-- every row's version is listed by some variant, and EVERY variant listing it carries exactly the
row's named layout -/
def variantsOk (variants : List Variant) (rows : List NRow) : Bool :=
  rows.all fun row => match row with | (v, _, L) => scan v L variants false

theorem variantsOk_sound (variants : List Variant) (rows : List NRow)
    (h : variantsOk variants rows = true) : ∀ row ∈ rows,
      (∃ var ∈ variants, row.1 ∈ var.2) ∧
      (∀ var ∈ variants, row.1 ∈ var.2 → var.1 = some row.2.2) ∧
      lookupLayoutNamed variants row.1 = some row.2.2 := by
  intro row hrow
  simp only [variantsOk, List.all_eq_true] at h
  obtain ⟨i1, all'⟩ := scan_sound row.1 row.2.2 variants false (h row hrow)
  obtain ⟨w, hw, hwc⟩ : ∃ var ∈ variants, row.1 ∈ var.2 := by
    rcases i1 with i1 | i1
    · exact Bool.noConfusion i1
    · exact i1
  refine ⟨⟨w, hw, hwc⟩, all', ?_⟩
  unfold lookupLayoutNamed
  cases hf : variants.find? (fun var => var.2.contains row.1) with
  | none =>
    have := List.find?_eq_none.mp hf w hw
    exact absurd (by simpa using hwc) this
  | some var =>
    have h1 := List.mem_of_find?_eq_some hf
    have h2 : var.2.contains row.1 = true := by simpa using List.find?_some hf
    exact all' var h1 (by simpa using h2)

/-- the comparison of the EXISTING layout table with the named reference -/
def checkGenNamed (ref : RefTable) : Bool :=
  Ref.core.all fun c => ref.all fun e =>
    !(e.1 == c.1) ||
      match variantsOf c.2.1 c.2.2 with
      | some variants => variantsOk variants e.2
      | none => false

/-! ### tables describing CHANGED code (for the refutations) -/

/-- exchange the attribute names `a` and `b` in a layout: what `definition` yields after the two
entries have been swapped in the class body when both have the same type -/
def swapNames (a b : String) (L : Layout) : Layout :=
  L.map fun f => if f.1 == a then (b, f.2) else if f.1 == b then (a, f.2) else f

/-- … which the old, names-blind comparison cannot see: the type sequence is unchanged -/
theorem swapNames_types (a b : String) (L : Layout) :
    (swapNames a b L).map (fun f => f.2) = L.map fun f => f.2 := by
  unfold swapNames
  rw [List.map_map]
  apply List.map_congr_left
  intro f _
  simp only [Function.comp]
  split
  · rfl
  · split <;> rfl

/-- give field `a` the type `t` -/
def retype (a : String) (t : WType) (L : Layout) : Layout :=
  L.map fun f => if f.1 == a then (a, t) else f

/-- apply `f v` to the layout of class `key` in every row (version `v`) of a live table -/
def mutateLive (key : String × String) (f : Nat → Layout → Layout) (tbl : LiveTable) : LiveTable :=
  tbl.map fun e =>
    if e.1 == key then
      (e.1, e.2.map fun r => (r.1, r.2.1, r.2.2.1, r.2.2.2.1, r.2.2.2.2.map (f r.1)))
    else e

end PyCraft.C07Named
