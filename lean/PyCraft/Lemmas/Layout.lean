import PyCraft.Model.Layout
import PyCraft.Lemmas.Wire
/-!
Helper lemmas for C05 (generic packet bodies): the field-list induction over `item_main` of C02,
exact consumption with a trailing last field, totality of writing, and the attribute level
(`getattr` / `setattr`).
-/
namespace PyCraft

section
variable {cc : CustomCodec} {cw : CustomT → Value → Prop}

theorem wtf_nil {vals : List Value} (h : WellTypedFields cw [] vals) : vals = [] := by
  cases vals with
  | nil => rfl
  | cons v vs => exact h.elim

theorem wtf_cons {n : String} {t : WType} {L : Layout} {vals : List Value}
    (h : WellTypedFields cw ((n, t) :: L) vals) :
    ∃ v vs, vals = v :: vs ∧ WellTyped cw t v ∧ WellTypedFields cw L vs := by
  cases vals with
  | nil => exact h.elim
  | cons v vs => exact ⟨v, vs, rfl, h.1, h.2⟩

theorem wtf_length : ∀ (L : Layout) (vals : List Value), WellTypedFields cw L vals →
    vals.length = L.length := by
  intro L
  induction L with
  | nil => intro vals h; rw [wtf_nil h]; rfl
  | cons f L ih =>
    intro vals h
    obtain ⟨n, t⟩ := f
    obtain ⟨v, vs, rfl, _, h2⟩ := wtf_cons h
    simp [ih vs h2]

theorem encodeFields_cons (n : String) (t : WType) (L : Layout) (v : Value) (vs : List Value)
    (a b : Bytes) (ha : encode cc t v = .ok a) (hb : encodeFields cc L vs = .ok b) :
    encodeFields cc ((n, t) :: L) (v :: vs) = .ok (a ++ b) := by
  simp only [encodeFields, ha, hb, bind, Except.bind, pure, Except.pure]

theorem decodeFields_cons (n : String) (t : WType) (L : Layout) (bs r r' : Bytes) (v : Value)
    (vs : List Value) (ha : decode cc t bs = .ok (v, r)) (hb : decodeFields cc L r = .ok (vs, r')) :
    decodeFields cc ((n, t) :: L) bs = .ok (v :: vs, r') := by
  simp only [decodeFields, ha, hb, bind, Except.bind, pure, Except.pure]

theorem decodeFields_cons_err1 (n : String) (t : WType) (L : Layout) (bs : Bytes) (e : Err)
    (ha : decode cc t bs = .error e) : decodeFields cc ((n, t) :: L) bs = .error e := by
  simp only [decodeFields, ha, bind, Except.bind]

theorem decodeFields_cons_err2 (n : String) (t : WType) (L : Layout) (bs r : Bytes) (v : Value)
    (e : Err) (ha : decode cc t bs = .ok (v, r)) (hb : decodeFields cc L r = .error e) :
    decodeFields cc ((n, t) :: L) bs = .error e := by
  simp only [decodeFields, ha, hb, bind, Except.bind]

/-- all fields self-delimiting: the body is read back exactly whatever follows, and every strict
prefix of it is rejected -/
theorem fields_item (law : CustomLaw cc cw) : ∀ (L : Layout) (vals : List Value),
    L.allSD = true → WellTypedFields cw L vals →
    ∃ bs, encodeFields cc L vals = .ok bs ∧
      (∀ rest, decodeFields cc L (bs ++ rest) = .ok (vals, rest)) ∧
      ∀ p, p <+: bs → p ≠ bs → ∃ e, decodeFields cc L p = .error e := by
  intro L
  induction L with
  | nil =>
    intro vals _ hw
    rw [wtf_nil hw]
    exact ⟨[], rfl, fun rest => rfl, fun p hp hne => absurd (List.prefix_nil.mp hp) hne⟩
  | cons f L ih =>
    intro vals hs hw
    obtain ⟨n, t⟩ := f
    obtain ⟨v, vs, rfl, hv, hvs⟩ := wtf_cons hw
    simp only [Layout.allSD, List.all_cons, Bool.and_eq_true] at hs
    obtain ⟨a, ha, _, ha2, ha3⟩ := item_main law t hs.1 v hv
    obtain ⟨b, hb, hb2, hb3⟩ := ih vs hs.2 hvs
    refine ⟨a ++ b, encodeFields_cons n t L v vs a b ha hb, fun rest => ?_, fun p hp hne => ?_⟩
    · rw [List.append_assoc]
      exact decodeFields_cons n t L _ _ _ v vs (ha2 _) (hb2 rest)
    · rcases strict_prefix_append hp hne with ⟨hp', hne'⟩ | ⟨q, rfl, hq, hqne⟩
      · obtain ⟨e, he⟩ := ha3 p hp' hne'
        exact ⟨e, decodeFields_cons_err1 n t L p e he⟩
      · obtain ⟨e, he⟩ := hb3 q hq hqne
        exact ⟨e, decodeFields_cons_err2 n t L _ _ v e (ha2 q) he⟩

/-- a type admissible in last position is read back exactly from its own encoding -/
theorem decode_last (law : CustomLaw cc cw) (t : WType) (ht : t.lastOk = true) (v : Value)
    (hv : WellTyped cw t v) : ∃ bs, encode cc t v = .ok bs ∧ decode cc t bs = .ok (v, []) := by
  by_cases h : t = .trailing
  · subst h
    cases v <;> simp [WellTyped] at hv
    exact ⟨_, rfl, rfl⟩
  · have hs : t.selfDelimiting = true := by
      cases t <;> first | exact absurd rfl h | exact ht
    obtain ⟨a, ha, _, ha2, _⟩ := item_main law t hs v hv
    exact ⟨a, ha, by simpa using ha2 []⟩

/-- an admissible layout is read back exactly from its own body -/
theorem fields_exact (law : CustomLaw cc cw) : ∀ (L : Layout) (vals : List Value),
    L.ok = true → WellTypedFields cw L vals →
    ∃ bs, encodeFields cc L vals = .ok bs ∧ decodeFields cc L bs = .ok (vals, []) := by
  intro L
  induction L with
  | nil =>
    intro vals _ hw
    rw [wtf_nil hw]
    exact ⟨[], rfl, rfl⟩
  | cons f L ih =>
    intro vals hs hw
    obtain ⟨n, t⟩ := f
    obtain ⟨v, vs, rfl, hv, hvs⟩ := wtf_cons hw
    simp only [Layout.ok, Bool.and_eq_true] at hs
    obtain ⟨b, hb, hb2⟩ := ih vs hs.2 hvs
    cases L with
    | nil =>
      rw [wtf_nil hvs] at hb hb2 ⊢
      cases hb
      obtain ⟨a, ha, ha2⟩ := decode_last law t (by simpa using hs.1) v hv
      refine ⟨a ++ [], encodeFields_cons n t [] v [] a [] ha rfl, ?_⟩
      rw [List.append_nil]
      exact decodeFields_cons n t [] a [] [] v [] ha2 rfl
    | cons g L' =>
      have hsd : t.selfDelimiting = true := by simpa using hs.1
      obtain ⟨a, ha, _, ha2, _⟩ := item_main law t hsd v hv
      exact ⟨a ++ b, encodeFields_cons n t _ v vs a b ha hb,
        decodeFields_cons n t _ _ _ _ v vs (ha2 b) hb2⟩

/-- writing never fails on in-domain values, whatever the layout -/
theorem fields_enc_total (law : CustomLaw cc cw) : ∀ (L : Layout) (vals : List Value),
    WellTypedFields cw L vals → ∃ bs, encodeFields cc L vals = .ok bs := by
  intro L
  induction L with
  | nil => intro vals hw; rw [wtf_nil hw]; exact ⟨[], rfl⟩
  | cons f L ih =>
    intro vals hw
    obtain ⟨n, t⟩ := f
    obtain ⟨v, vs, rfl, hv, hvs⟩ := wtf_cons hw
    obtain ⟨a, ha⟩ := encode_total law t v hv
    obtain ⟨b, hb⟩ := ih vs hvs
    exact ⟨a ++ b, encodeFields_cons n t L v vs a b ha hb⟩

/-- a value list of the wrong length is rejected -/
theorem encodeFields_length (L : Layout) : ∀ (vals : List Value) (bs : Bytes),
    encodeFields cc L vals = .ok bs → vals.length = L.length := by
  induction L with
  | nil =>
    intro vals bs h
    cases vals with
    | nil => rfl
    | cons v vs => simp [encodeFields] at h
  | cons f L ih =>
    intro vals bs h
    obtain ⟨n, t⟩ := f
    cases vals with
    | nil => simp [encodeFields] at h
    | cons v vs =>
      simp only [encodeFields, bind, Except.bind] at h
      split at h
      · simp at h
      · split at h
        · simp at h
        · next b hb => simp [ih vs b hb]

end

/-! ### the attribute level -/

/-- the values `getattr` finds for the fields, in field order -/
def fieldValues (attrs : Attrs) (L : Layout) : List Value :=
  L.filterMap fun f => attrs.lookup f.1

theorem writeFields_eq (cc : CustomCodec) (attrs : Attrs) : ∀ (L : Layout),
    (∀ f ∈ L, (attrs.lookup f.1).isSome = true) →
    writeFields cc attrs L = encodeFields cc L (fieldValues attrs L) := by
  intro L
  induction L with
  | nil => intro _; rfl
  | cons f L ih =>
    intro h
    obtain ⟨n, t⟩ := f
    have h1 := h (n, t) List.mem_cons_self
    cases hl : attrs.lookup n with
    | none => simp [hl] at h1
    | some v =>
      have ih' := ih (fun g hg => h g (List.mem_cons_of_mem _ hg))
      simp only [writeFields, hl, fieldValues, List.filterMap_cons, encodeFields, ih']

theorem writeFields_missing (cc : CustomCodec) (attrs : Attrs) : ∀ (L : Layout),
    (∃ f ∈ L, attrs.lookup f.1 = none) → ∃ e, writeFields cc attrs L = .error e := by
  intro L
  induction L with
  | nil => intro ⟨f, hf, _⟩; simp at hf
  | cons g L ih =>
    intro ⟨f, hf, hn⟩
    obtain ⟨n, t⟩ := g
    cases hl : attrs.lookup n with
    | none => exact ⟨.other, by simp only [writeFields, hl]⟩
    | some v =>
      have hf' : f ∈ L := by
        rcases List.mem_cons.mp hf with rfl | h
        · simp [hl] at hn
        · exact h
      obtain ⟨e, he⟩ := ih ⟨f, hf', hn⟩
      simp only [writeFields, hl, he, bind, Except.bind]
      split <;> exact ⟨_, rfl⟩

/-- `setattr` of every field in order -/
def setAll (attrs : Attrs) : List (String × Value) → Attrs
  | [] => attrs
  | (n, v) :: ps => setAll (setAttr attrs n v) ps

theorem lookup_setAttr (attrs : Attrs) (n k : String) (v : Value) :
    (setAttr attrs k v).lookup n = if n = k then some v else attrs.lookup n := by
  unfold setAttr
  by_cases h : n = k
  · subst h; simp [List.lookup]
  · have hb : (n == k) = false := by simpa using h
    simp only [List.lookup, hb, if_neg h]
    induction attrs with
    | nil => rfl
    | cons kv attrs ih =>
      obtain ⟨k', v'⟩ := kv
      by_cases h2 : k' = k
      · subst h2
        simp [List.filter, List.lookup, hb, ih]
      · have : (k' != k) = true := by simpa using h2
        simp only [List.filter, this, List.lookup]
        split <;> simp_all

theorem readFields_eq (cc : CustomCodec) : ∀ (L : Layout) (attrs : Attrs) (bs : Bytes)
    (vals : List Value) (r : Bytes), decodeFields cc L bs = .ok (vals, r) →
    readFields cc L attrs bs = .ok (setAll attrs ((L.map (·.1)).zip vals), r) := by
  intro L
  induction L with
  | nil =>
    intro attrs bs vals r h
    simp only [decodeFields, Except.ok.injEq, Prod.mk.injEq] at h
    obtain ⟨rfl, rfl⟩ := h
    rfl
  | cons f L ih =>
    intro attrs bs vals r h
    obtain ⟨n, t⟩ := f
    simp only [decodeFields, bind, Except.bind] at h
    split at h
    · simp at h
    · next p hp =>
      obtain ⟨v, r1⟩ := p
      split at h
      · simp at h
      · next q hq =>
        obtain ⟨vs, r2⟩ := q
        simp only [pure, Except.pure, Except.ok.injEq, Prod.mk.injEq] at h
        obtain ⟨rfl, rfl⟩ := h
        simp only [readFields, hp, bind, Except.bind, List.map_cons, List.zip_cons_cons, setAll]
        exact ih _ _ vs _ hq

/-- after `setattr`-ing pairs all of which agree with `src`, an attribute that was set reads as in
`src` (whichever of several writes came last) and the others are untouched -/
theorem lookup_setAll (src : Attrs) : ∀ (ps : List (String × Value)) (attrs : Attrs),
    (∀ p ∈ ps, src.lookup p.1 = some p.2) → ∀ n,
    (setAll attrs ps).lookup n = if n ∈ ps.map (·.1) then src.lookup n else attrs.lookup n := by
  intro ps
  induction ps with
  | nil => intro attrs _ n; simp [setAll]
  | cons p ps ih =>
    intro attrs h n
    obtain ⟨k, v⟩ := p
    rw [setAll, ih _ (fun q hq => h q (List.mem_cons_of_mem _ hq)) n, lookup_setAttr]
    have hk := h (k, v) List.mem_cons_self
    by_cases h1 : n ∈ ps.map (·.1)
    · simp [h1]
    · by_cases h2 : n = k
      · subst h2; simp [hk]
      · simp [h1, h2]

theorem zip_fieldValues (attrs : Attrs) : ∀ (L : Layout),
    (∀ f ∈ L, (attrs.lookup f.1).isSome = true) →
    (∀ p ∈ (L.map (·.1)).zip (fieldValues attrs L), attrs.lookup p.1 = some p.2) ∧
    ((L.map (·.1)).zip (fieldValues attrs L)).map (·.1) = L.map (·.1) := by
  intro L
  induction L with
  | nil => intro _; simp [fieldValues]
  | cons f L ih =>
    intro h
    obtain ⟨n, t⟩ := f
    have h1 := h (n, t) List.mem_cons_self
    obtain ⟨ih1, ih2⟩ := ih (fun g hg => h g (List.mem_cons_of_mem _ hg))
    cases hl : attrs.lookup n with
    | none => simp [hl] at h1
    | some v =>
      simp only [fieldValues, List.filterMap_cons, hl, List.map_cons, List.zip_cons_cons,
        List.mem_cons, List.cons.injEq, true_and]
      refine ⟨fun p hp => ?_, ih2⟩
      rcases hp with rfl | hp
      · exact hl
      · exact ih1 p hp

theorem wtf_fieldValues {cw : CustomT → Value → Prop} (attrs : Attrs) : ∀ (L : Layout),
    (∀ f ∈ L, ∃ v, attrs.lookup f.1 = some v ∧ WellTyped cw f.2 v) →
    WellTypedFields cw L (fieldValues attrs L) := by
  intro L
  induction L with
  | nil => intro _; exact True.intro
  | cons f L ih =>
    intro h
    obtain ⟨n, t⟩ := f
    obtain ⟨v, hv, hw⟩ := h (n, t) List.mem_cons_self
    simp only [fieldValues, List.filterMap_cons, hv]
    exact ⟨hw, ih (fun g hg => h g (List.mem_cons_of_mem _ hg))⟩

end PyCraft
