import PyCraft.Model.C16Carry
/-!
Helper lemmas for `Props/C16Carry.lean`: the invariant `Inv` of the unchanged program
(`Variant.real`) and its preservation by every block of `Model/C16Carry.lean`; frame lemmas for the
fields `exc`, `connected`, `hasExit`, `exits`.
-/
namespace PyCraft.Carry

/-- The invariant carried along every history of the unchanged program:
* every logged session start is clean;
* the framing `_write_packet` would use is the one negotiated on the current transport;
* a connected socket is wrapped iff encryption was negotiated on the current transport;
* every frame written so far was written that way. -/
structure Inv (s : Obj) : Prop where
  starts : ∀ e ∈ s.starts, e.clean = true
  comp : s.thrArg = s.srvThr
  enc : ∀ e, s.socket = .open e → e = s.srvEnc
  wire : ∀ w ∈ s.wire, w.thr = w.srvThr ∧ w.enc = w.srvEnc

theorem inv_fresh (c : Cfg) : Inv (fresh c) :=
  ⟨by simp [fresh], by simp [fresh, Obj.thrArg], by simp [fresh], by simp [fresh]⟩

/-! ### writing -/

theorem inv_writePacket {s : Obj} (p : Pkt) (f : Bool) (h : Inv s) : Inv (writePacket s p f).1 := by
  unfold writePacket
  split
  · exact h
  · exact h
  · rename_i e he
    split
    · exact h
    · refine ⟨h.starts, h.comp, h.enc, ?_⟩
      intro w hw
      simp only [List.mem_append, List.mem_singleton] at hw
      rcases hw with hw | hw
      · exact h.wire w hw
      · subst hw
        exact ⟨h.comp, h.enc e he⟩

theorem inv_drain (q : List Pkt) : ∀ {s : Obj} (b : Nat) (f : Option Nat), Inv s → Inv (drain s q b f).1 := by
  induction q with
  | nil => intro s b f h; exact ⟨h.starts, h.comp, h.enc, h.wire⟩
  | cons p q ih =>
    intro s b f h
    cases b with
    | zero => exact ⟨h.starts, h.comp, h.enc, h.wire⟩
    | succ b =>
      have hw := inv_writePacket p (f == some 0) h
      unfold drain
      split
      · rename_i s' heq
        rw [heq] at hw
        exact ih b _ hw
      · rename_i s' r _ heq
        rw [heq] at hw
        exact ⟨hw.starts, hw.comp, hw.enc, hw.wire⟩

theorem inv_push {s : Obj} (p : Pkt) (h : Inv s) : Inv (push s p) :=
  ⟨h.starts, h.comp, h.enc, h.wire⟩

/-! ### disconnect -/

theorem inv_flushAll {s : Obj} (f : Option Nat) (h : Inv s) : Inv (flushAll s f) := by
  unfold flushAll
  split
  · exact inv_drain _ _ _ h
  · exact h

theorem inv_interruptTarget {s : Obj} (h : Inv s) : Inv (interruptTarget s) := by
  unfold interruptTarget
  split <;> exact ⟨h.starts, h.comp, h.enc, h.wire⟩

theorem inv_closeSocket {s : Obj} (h : Inv s) : Inv (closeSocket s) := by
  unfold closeSocket
  split
  · exact ⟨h.starts, h.comp, (by intro e he; cases he), h.wire⟩
  · exact h

theorem inv_disconnect {s : Obj} (imm : Bool) (f : Option Nat) (h : Inv s) :
    Inv (disconnect .real s imm f) := by
  have h0 : Inv { s with connected := false } := ⟨h.starts, h.comp, h.enc, h.wire⟩
  simp only [disconnect, Variant.real, Bool.false_eq_true, if_false]
  apply inv_closeSocket
  apply inv_interruptTarget
  split
  · exact inv_flushAll _ h0
  · exact h0

/-! ### connect / status -/

/-- What a `connect()` that returns normally has done, whatever the state it started from. -/
theorem connect_ok_spec {s s' : Obj} {r : Net} (h : connect .real s r = (s', .ok)) :
    s'.view = cleanConnectView s.allowed ∧
    s'.starts = s.starts ++ [⟨.connect, s.allowed, s.proto, s'.view⟩] ∧
    s'.thrArg = none ∧ s'.srvThr = none ∧ s'.srvEnc = false ∧ s'.socket = .open false ∧
    s'.wire = s.wire := by
  unfold connect at h
  split at h
  · simp at h
  · cases r <;> simp only [connectSock, Variant.real, Bool.false_eq_true, if_false] at h
    · by_cases h1 : s.allowed.length = 1 <;> cases hn : s.nt <;>
        simp_all [startThread, busy, push, logStart, Obj.view, cleanConnectView, Obj.thrArg]
      all_goals (subst h; simp)
    · simp at h
    · simp at h

/-- A `connect()` that raises leaves the logs, the compression options and the negotiated state
alone; the socket is either untouched or a new unconnected object. -/
theorem connect_exc_spec {s s' : Obj} {r : Net} {k : ExcKind}
    (h : connect .real s r = (s', .exc k)) :
    s'.starts = s.starts ∧ s'.thrArg = s.thrArg ∧ s'.srvThr = s.srvThr ∧ s'.srvEnc = s.srvEnc ∧
    (s'.socket = s.socket ∨ s'.socket = .unconnected) ∧ s'.wire = s.wire := by
  unfold connect at h
  split at h
  · simp at h; obtain ⟨h, _⟩ := h; subst h; simp
  · cases r <;> simp only [connectSock, Variant.real, Bool.false_eq_true, if_false] at h
    · by_cases h1 : s.allowed.length = 1 <;> cases hn : s.nt <;>
        simp_all [startThread, busy, push, logStart, Obj.view]
    · simp at h; obtain ⟨h, _⟩ := h; subst h; simp [Obj.thrArg]
    · simp at h; obtain ⟨h, _⟩ := h; subst h; simp [Obj.thrArg]

theorem connect_not_skip {s s' : Obj} {r : Net} : connect .real s r ≠ (s', .skip) := by
  unfold connect
  split
  · simp
  · cases r <;> simp only [connectSock, Variant.real, Bool.false_eq_true, if_false]
    · by_cases h1 : s.allowed.length = 1 <;> cases hn : s.nt <;> cases hb : busy s <;>
        simp_all [startThread, busy, push, logStart]
    · simp
    · simp

theorem inv_connect {s : Obj} (r : Net) (h : Inv s) : Inv (connect .real s r).1 := by
  cases hc : connect .real s r with
  | mk s' o =>
    cases o with
    | ok =>
      obtain ⟨hv, hs, ht, hsrv, henc, hsock, hw⟩ := connect_ok_spec hc
      refine ⟨?_, by rw [ht, hsrv], ?_, by rw [hw]; exact h.wire⟩
      · intro e he
        rw [hs] at he
        simp only [List.mem_append, List.mem_singleton] at he
        rcases he with he | he
        · exact h.starts e he
        · subst he; simp [Start.clean, hv]
      · intro e he
        rw [hsock] at he
        cases he
        exact henc.symm
    | exc k =>
      obtain ⟨hs, ht, hsrv, henc, hsock, hw⟩ := connect_exc_spec hc
      refine ⟨by rw [hs]; exact h.starts, by rw [ht, hsrv]; exact h.comp, ?_, by rw [hw]; exact h.wire⟩
      intro e he
      rcases hsock with hsock | hsock
      · rw [hsock] at he; rw [henc]; exact h.enc e he
      · rw [hsock] at he; cases he
    | skip => exact absurd hc connect_not_skip

theorem status_ok_spec {s s' : Obj} {ping : Bool} {r : Net} (h : status .real s ping r = (s', .ok)) :
    s'.view = cleanStatusView ping s.proto s'.view.spawned ∧
    s'.starts = s.starts ++ [⟨.status ping, s.allowed, s.proto, s'.view⟩] ∧
    s'.thrArg = none ∧ s'.srvThr = none ∧ s'.srvEnc = false ∧ s'.socket = .open false ∧
    s'.wire = s.wire := by
  unfold status at h
  split at h
  · simp at h
  · cases r <;> simp only [connectSock, Variant.real, Bool.false_eq_true, if_false] at h
    · cases hn : s.nt <;>
        simp_all [startThread, busy, push, logStart, Obj.view, cleanStatusView, Obj.thrArg]
      all_goals (subst h; simp)
    · simp at h
    · simp at h

theorem status_exc_spec {s s' : Obj} {ping : Bool} {r : Net} {k : ExcKind}
    (h : status .real s ping r = (s', .exc k)) :
    s'.starts = s.starts ∧ s'.thrArg = s.thrArg ∧ s'.srvThr = s.srvThr ∧ s'.srvEnc = s.srvEnc ∧
    (s'.socket = s.socket ∨ s'.socket = .unconnected) ∧ s'.wire = s.wire := by
  unfold status at h
  split at h
  · simp at h; obtain ⟨h, _⟩ := h; subst h; simp
  · cases r <;> simp only [connectSock, Variant.real, Bool.false_eq_true, if_false] at h
    · cases hn : s.nt <;>
        simp_all [startThread, busy, push, logStart, Obj.view]
    · simp at h; obtain ⟨h, _⟩ := h; subst h; simp [Obj.thrArg]
    · simp at h; obtain ⟨h, _⟩ := h; subst h; simp [Obj.thrArg]

theorem status_not_skip {s s' : Obj} {ping : Bool} {r : Net} :
    status .real s ping r ≠ (s', .skip) := by
  unfold status
  split
  · simp
  · cases r <;> simp only [connectSock, Variant.real, Bool.false_eq_true, if_false]
    · cases hn : s.nt <;> cases hb : busy s <;> simp_all [startThread, busy, push, logStart]
    · simp
    · simp

theorem inv_status {s : Obj} (ping : Bool) (r : Net) (h : Inv s) : Inv (status .real s ping r).1 := by
  cases hc : status .real s ping r with
  | mk s' o =>
    cases o with
    | ok =>
      obtain ⟨hv, hs, ht, hsrv, henc, hsock, hw⟩ := status_ok_spec hc
      refine ⟨?_, by rw [ht, hsrv], ?_, by rw [hw]; exact h.wire⟩
      · intro e he
        rw [hs] at he
        simp only [List.mem_append, List.mem_singleton] at he
        rcases he with he | he
        · exact h.starts e he
        · subst he; simp only [Start.clean]; rw [← hv]; simp
      · intro e he
        rw [hsock] at he
        cases he
        exact henc.symm
    | exc k =>
      obtain ⟨hs, ht, hsrv, henc, hsock, hw⟩ := status_exc_spec hc
      refine ⟨by rw [hs]; exact h.starts, by rw [ht, hsrv]; exact h.comp, ?_, by rw [hw]; exact h.wire⟩
      intro e he
      rcases hsock with hsock | hsock
      · rw [hsock] at he; rw [henc]; exact h.enc e he
      · rw [hsock] at he; cases he
    | skip => exact absurd hc status_not_skip

/-! ### reactions -/

theorem inv_reactLogin {s : Obj} (p : InPkt) (h : Inv s) : Inv (reactLogin s p).1 := by
  cases p with
  | encryptionRequest =>
    have hw := inv_writePacket .encResponse false h
    simp only [reactLogin]
    split
    · rename_i s' heq
      rw [heq] at hw
      refine ⟨hw.starts, hw.comp, ?_, hw.wire⟩
      intro e he
      cases hs : s'.socket <;> simp_all
    · rename_i s' heq; rw [heq] at hw; exact hw
    · rename_i s' heq; rw [heq] at hw; exact hw
  | setCompression t => exact ⟨h.starts, by simp [Obj.thrArg, reactLogin], h.enc, h.wire⟩
  | pluginRequest id =>
    simp only [reactLogin]
    split
    · exact inv_push _ h
    · exact h
  | loginSuccess => exact ⟨h.starts, h.comp, h.enc, h.wire⟩
  | disconnect f => exact h
  | keepAlive id => exact h
  | position tid => exact h
  | response pr r => exact h
  | pong => exact h
  | other => exact h

theorem inv_reactPlay {s : Obj} (p : InPkt) (h : Inv s) : Inv (reactPlay .real s p).1 := by
  cases p with
  | setCompression t =>
    simp only [reactPlay]
    split
    · exact ⟨h.starts, by simp [Obj.thrArg], h.enc, h.wire⟩
    · exact h
  | keepAlive id => exact inv_push _ h
  | position tid =>
    simp only [reactPlay]
    split
    · exact ⟨h.starts, h.comp, h.enc, h.wire⟩
    · exact ⟨h.starts, h.comp, h.enc, h.wire⟩
  | disconnect f => exact inv_disconnect _ _ h
  | encryptionRequest => exact h
  | loginSuccess => exact h
  | pluginRequest id => exact h
  | response pr r => exact h
  | pong => exact h
  | other => exact h

theorem inv_reactStatus {s : Obj} (ping : Bool) (p : InPkt) (h : Inv s) :
    Inv (reactStatus .real s ping p).1 := by
  cases p with
  | response pr r =>
    simp only [reactStatus]
    split
    · exact inv_push _ h
    · exact inv_disconnect _ _ h
  | pong =>
    simp only [reactStatus]
    split
    · exact inv_disconnect _ _ h
    · exact h
  | setCompression t => exact h
  | encryptionRequest => exact h
  | loginSuccess => exact h
  | pluginRequest id => exact h
  | keepAlive id => exact h
  | position tid => exact h
  | disconnect f => exact h
  | other => exact h

theorem inv_setAllowed {s : Obj} (l : List Nat) (h : Inv s) : Inv { s with allowed := l } :=
  ⟨h.starts, h.comp, h.enc, h.wire⟩

theorem inv_reactPlayingStatus {s : Obj} (p : InPkt) (h : Inv s) :
    Inv (reactPlayingStatus .real s p).1 := by
  cases p with
  | response pr r =>
    have hd := inv_disconnect false none h
    simp only [reactPlayingStatus]
    cases pr with
    | none => exact inv_connect r (inv_setAllowed _ hd)
    | some p =>
      simp only
      split
      · exact inv_connect r (inv_setAllowed _ hd)
      · exact hd
  | pong => exact h
  | setCompression t => exact h
  | encryptionRequest => exact h
  | loginSuccess => exact h
  | pluginRequest id => exact h
  | keepAlive id => exact h
  | position tid => exact h
  | disconnect f => exact h
  | other => exact h

theorem inv_react {s : Obj} (p : InPkt) (h : Inv s) : Inv (react .real s p).1 := by
  unfold react
  split
  · exact h
  · exact inv_reactLogin p h
  · exact inv_reactPlay p h
  · exact inv_reactStatus _ p h
  · exact inv_reactPlayingStatus p h

/-! ### the ends of a thread -/

theorem inv_epilogue {s : Obj} (h : Inv s) : Inv (epilogue s) := by
  unfold epilogue
  split <;> exact ⟨h.starts, h.comp, h.enc, h.wire⟩

theorem inv_reactorHandles {s : Obj} (e : ExcKind) (hd : Handler) (h : Inv s) :
    Inv (reactorHandles .real s e hd).1 := by
  unfold reactorHandles
  split
  · have hc := inv_connect hd.net (inv_setAllowed [(disconnect .real s true none).dflt]
      (inv_disconnect true none h))
    dsimp only
    split <;> (rename_i heq; simp only [heq] at hc; exact hc)
  · exact h

theorem inv_userHandlers {s : Obj} (e : ExcKind) (hd : Handler) (h : Inv s) :
    Inv (userHandlers .real s e hd).1 := by
  unfold userHandlers
  split
  · have hc := inv_connect hd.net h
    split <;> (rename_i heq; simp only [heq] at hc; exact hc)
  · exact h

theorem inv_finalCheck {s : Obj} (h : Inv s) : Inv (finalCheck .real s) := by
  unfold finalCheck
  split
  · split
    · exact inv_disconnect _ _ h
    · exact h
  · split
    · exact inv_disconnect _ _ h
    · exact h
  · exact h

theorem inv_handleException {s : Obj} (t : Thr) (e : ExcKind) (hd : Handler) (h : Inv s) :
    Inv (handleException .real s t e hd) := by
  unfold handleException
  simp only
  split
  · exact inv_reactorHandles e hd h
  · apply inv_finalCheck
    have := inv_userHandlers (reactorHandles .real s e hd).2.1 hd (inv_reactorHandles e hd h)
    exact ⟨this.starts, this.comp, this.enc, this.wire⟩

theorem inv_endByError {s : Obj} (e : ExcKind) (hd : Handler) (h : Inv s) :
    Inv (endByError .real s e hd) := by
  unfold endByError
  split
  · exact h
  · apply inv_epilogue
    apply inv_handleException
    exact ⟨h.starts, h.comp, h.enc, h.wire⟩

theorem inv_handleExit {s : Obj} (t : Thr) (h : Inv s) : Inv (handleExit .real s t).1 := by
  unfold handleExit
  split
  · exact ⟨h.starts, h.comp, h.enc, h.wire⟩
  · exact h

theorem inv_endByExit {s : Obj} (t : Thr) (rc : Option Net) (h : Inv s) :
    Inv (endByExit .real s t rc).1 := by
  have hx := inv_handleExit t h
  unfold endByExit
  split
  · rename_i s1 heq
    rw [heq] at hx
    cases rc with
    | none => exact inv_epilogue hx
    | some r =>
      have hc := inv_connect r hx
      simp only
      split
      · rename_i heq2; simp only [heq2] at hc
        exact inv_epilogue (inv_handleException _ _ _ hc)
      · rename_i heq2; simp only [heq2] at hc
        exact inv_epilogue hc
  · rename_i s1 heq
    rw [heq] at hx
    exact inv_epilogue hx

/-! ### histories -/

theorem inv_step {s : Obj} (op : Op) (h : Inv s) : Inv (step .real s op).1 := by
  cases op with
  | connect r => exact inv_connect r h
  | status ping r => exact inv_status ping r h
  | write n =>
    simp only [step]
    split
    · exact h
    · exact inv_push _ h
  | disconnect imm f => exact inv_disconnect imm f h
  | flush n f =>
    simp only [step]
    split
    · split
      · exact h
      · split
        · exact h
        · rename_i q _
          have hd := inv_drain q n f h
          split <;> (rename_i heq; simp only [heq] at hd; exact hd)
    · exact h
  | recv p hd =>
    simp only [step]
    split
    · split
      · exact h
      · have hr := inv_react p h
        split
        · rename_i heq; simp only [heq] at hr; exact hr
        · rename_i heq; simp only [heq] at hr; exact inv_endByError _ _ hr
    · exact h
  | error e hd =>
    simp only [step]
    split
    · exact inv_endByError _ _ h
    · exact h
  | exit rc =>
    simp only [step]
    split
    · split
      · exact inv_endByExit _ _ h
      · exact h
    · exact h

theorem inv_run (ops : List Op) : ∀ {s : Obj}, Inv s → Inv (run .real s ops) := by
  induction ops with
  | nil => intro s h; exact h
  | cons op ops ih => intro s h; exact ih (inv_step op h)

/-! ### frame lemmas: what `drain` / `disconnect` / `connect` / `epilogue` leave alone -/

theorem writePacket_frame (s : Obj) (p : Pkt) (f : Bool) :
    ∃ w, (writePacket s p f).1 = { s with wire := w } := by
  unfold writePacket
  split
  · exact ⟨s.wire, rfl⟩
  · exact ⟨s.wire, rfl⟩
  · split
    · exact ⟨s.wire, rfl⟩
    · exact ⟨_, rfl⟩

theorem drain_frame (q : List Pkt) : ∀ (s : Obj) (b : Nat) (f : Option Nat),
    ∃ w q', (drain s q b f).1 = { s with wire := w, queue := q' } := by
  induction q with
  | nil => intro s b f; exact ⟨s.wire, some [], rfl⟩
  | cons p q ih =>
    intro s b f
    cases b with
    | zero => exact ⟨s.wire, some (p :: q), rfl⟩
    | succ b =>
      obtain ⟨w0, hw⟩ := writePacket_frame s p (f == some 0)
      unfold drain
      split
      · rename_i s' heq
        rw [heq] at hw
        simp only at hw
        subst hw
        obtain ⟨w, q', h⟩ := ih { s with wire := w0 } b (f.map (· - 1))
        exact ⟨w, q', h⟩
      · rename_i s' r _ heq
        rw [heq] at hw
        simp only at hw
        subst hw
        exact ⟨w0, some q, rfl⟩

theorem flushAll_frame (s : Obj) (f : Option Nat) :
    ∃ w q', flushAll s f = { s with wire := w, queue := q' } := by
  unfold flushAll
  split
  · exact drain_frame _ _ _ _
  · exact ⟨s.wire, s.queue, rfl⟩

/-- The fields `disconnect` is guaranteed to leave alone / to set, for every variant. -/
theorem disconnect_fields (v : Variant) (s : Obj) (imm : Bool) (f : Option Nat) :
    (disconnect v s imm f).connected = false ∧ (disconnect v s imm f).exc = s.exc ∧
    (disconnect v s imm f).exits = s.exits ∧ (disconnect v s imm f).hasExit = s.hasExit ∧
    (disconnect v s imm f).nt = (interruptTarget s).nt ∧
    (disconnect v s imm f).newNt = (interruptTarget s).newNt ∧
    (disconnect v s imm f).reactor = s.reactor ∧ (disconnect v s imm f).sess = s.sess := by
  obtain ⟨w, q', hf⟩ := flushAll_frame { s with connected := false } f
  unfold disconnect
  simp only [hf]
  cases hn : s.newNt <;> cases ht : s.nt <;> cases v.resetInDisconnect <;>
    cases (!imm && s.socket != SockSt.none) <;> cases hs : s.socket <;>
    simp [interruptTarget, closeSocket, hn, ht, hs]

theorem epilogue_exc (s : Obj) : (epilogue s).exc = s.exc := by
  unfold epilogue; split <;> rfl

theorem finalCheck_exc (v : Variant) (s : Obj) : (finalCheck v s).exc = s.exc := by
  unfold finalCheck
  split
  · split
    · exact (disconnect_fields _ _ _ _).2.1
    · rfl
  · split
    · exact (disconnect_fields _ _ _ _).2.1
    · rfl
  · rfl

theorem reactorHandles_passive (v : Variant) (s : Obj) (e : ExcKind) (h : Handler)
    (hre : ¬(s.reactor = .playingStatus ∧ e = .eof)) : reactorHandles v s e h = (s, e, false) := by
  unfold reactorHandles
  rw [if_neg hre]

/-- What `_handle_exception` records when the reactor's own handler does not intervene. -/
theorem endByError_exc (s : Obj) (t : Thr) (e : ExcKind) (h : Handler) (hnt : s.nt = some t)
    (hre : ¬(s.reactor = .playingStatus ∧ e = .eof)) :
    (endByError .real s e h).exc =
      some ⟨t.sess, (userHandlers .real { s with nt := some { t with intr := true } } e h).2⟩ := by
  have hp := reactorHandles_passive .real { s with nt := some { t with intr := true } } e h hre
  simp only [endByError, hnt, handleException, hp, epilogue_exc, finalCheck_exc,
    Bool.false_eq_true, if_false]

end PyCraft.Carry
