import PyCraft.Model.C05Dispatch
import PyCraft.Lemmas.Custom
import PyCraft.Lemmas.Layout
import PyCraft.Lemmas.LayoutTables
import PyCraft.Lemmas.Packets
import PyCraft.Lemmas.Versions
import PyCraft.Lemmas.Ids
import PyCraft.Lemmas.TypedStream
/-!
Helper lemmas for `Props/C05Dispatch.lean` (model: `Model/C05Dispatch.lean`).

* generic facts about `List.zipWith`, `List.lookup` and the insertion-ordered dict `buildDictG`;
* `codec_rt`: every codec (field list or hand-written) round-trips on its `WF` domain;
* the comparisons of a context computed from the INDEX of its version (`cmpGe_of_index`, …), so that
  the Bool checkers walk `liveTables.indices` once instead of looking every version up;
* the checkers (`alignOK`, `regOK`, `spyCheck`, `customOK`, …) with their soundness lemmas.
-/
namespace PyCraft.Dsp
open PyCraft PyCraft.Pk PyCraft.Gen PyCraft.LayoutCheck

/-! ## lists -/

theorem mem_zipWith_elim {α β γ : Type} (f : α → β → γ) : ∀ (l1 : List α) (l2 : List β) (z : γ),
    z ∈ List.zipWith f l1 l2 → ∃ x y, (x, y) ∈ l1.zip l2 ∧ z = f x y
  | [], _, z, h => by simp at h
  | _ :: _, [], z, h => by simp at h
  | a :: l1, b :: l2, z, h => by
    simp only [List.zipWith_cons_cons, List.mem_cons] at h
    rcases h with rfl | h
    · exact ⟨a, b, by simp, rfl⟩
    · obtain ⟨x, y, hm, hz⟩ := mem_zipWith_elim f l1 l2 z h
      exact ⟨x, y, by simp [hm], hz⟩

theorem zipWith_all {α β : Type} (c : α → β → Bool) : ∀ (l1 : List α) (l2 : List β),
    (List.zipWith c l1 l2).all id = true → ∀ x y, (x, y) ∈ l1.zip l2 → c x y = true
  | [], _, _, x, y, h => by simp at h
  | _ :: _, [], _, x, y, h => by simp at h
  | a :: l1, b :: l2, hc, x, y, h => by
    simp only [List.zipWith_cons_cons, List.all_cons, Bool.and_eq_true, id] at hc
    simp only [List.zip_cons_cons, List.mem_cons, Prod.mk.injEq] at h
    rcases h with ⟨rfl, rfl⟩ | h
    · exact hc.1
    · exact zipWith_all c l1 l2 hc.2 x y h

theorem mem_zip_of_mem_right {α β : Type} : ∀ (l1 : List α) (l2 : List β), l1.length = l2.length →
    ∀ y ∈ l2, ∃ x, (x, y) ∈ l1.zip l2
  | _, [], _, y, h => by simp at h
  | [], _ :: _, hl, _, _ => by simp at hl
  | a :: l1, b :: l2, hl, y, h => by
    rcases List.mem_cons.mp h with rfl | h
    · exact ⟨a, by simp⟩
    · obtain ⟨x, hx⟩ := mem_zip_of_mem_right l1 l2 (by simpa using hl) y h
      exact ⟨x, by simp [hx]⟩

/-- projecting a `zipWith` back onto its first list -/
theorem map_zipWith_left {α β γ : Type} (f : α → β → γ) (g : γ → α) :
    ∀ (l1 : List α) (l2 : List β), l1.length = l2.length →
      (∀ x y, (x, y) ∈ l1.zip l2 → g (f x y) = x) → (List.zipWith f l1 l2).map g = l1
  | [], [], _, _ => rfl
  | [], _ :: _, hl, _ => by simp at hl
  | _ :: _, [], hl, _ => by simp at hl
  | a :: l1, b :: l2, hl, h => by
    simp only [List.zipWith_cons_cons, List.map_cons]
    rw [h a b (by simp), map_zipWith_left f g l1 l2 (by simpa using hl)
      (fun x y hm => h x y (by simp [hm]))]

theorem zip_fst_mem {α β : Type} {l1 : List α} {l2 : List β} {x : α} {y : β}
    (h : (x, y) ∈ l1.zip l2) : x ∈ l1 ∧ y ∈ l2 := ⟨(List.of_mem_zip h).1, (List.of_mem_zip h).2⟩

/-- `List.lookup` finds SOME entry with that key -/
theorem lookup_of_mem {β : Type} : ∀ (l : List (Nat × β)) (k : Nat) (y : β), (k, y) ∈ l →
    ∃ y', l.lookup k = some y' ∧ (k, y') ∈ l
  | [], _, _, h => by simp at h
  | (k', y') :: l, k, y, h => by
    by_cases hk : k = k'
    · subst hk
      exact ⟨y', by simp [List.lookup], by simp⟩
    · have hm : (k, y) ∈ l := by
        rcases List.mem_cons.mp h with h | h
        · exact absurd (Prod.mk.inj h).1 hk
        · exact h
      obtain ⟨y'', h1, h2⟩ := lookup_of_mem l k y hm
      refine ⟨y'', ?_, by simp [h2]⟩
      have : (k == k') = false := by simpa using hk
      simp [List.lookup, this, h1]

/-! ## every codec round-trips on its domain -/

theorem wtHasNbt_eq : ∀ t : WType, wtHasNbt t = t.hasNbt := by
  intro t
  induction t with
  | array l t ih => simpa [wtHasNbt, WType.hasNbt] using ih
  | custom c => cases c <;> rfl
  | _ => rfl

theorem codec_hasNbt_fields (L : Layout) : (Codec.fields L).hasNbt = Layout.hasNbt L := by
  simp [Codec.hasNbt, Layout.hasNbt, wtHasNbt_eq]

/-- For every codec and every wire-representable value: `write_fields` succeeds; `read` of exactly the
written bytes returns the (normalised) value and leaves nothing; and when the body is self-delimiting
the same holds with anything appended, which is left unread. -/
theorem codec_rt (k : Codec) (p : PVal) (h : k.WF p) :
    ∃ bs, k.write p = .ok bs ∧ k.read bs = .ok (k.norm p, []) ∧
      (k.selfDelimiting p = true → ∀ rest, k.read (bs ++ rest) = .ok (k.norm p, rest)) := by
  cases k with
  | fields L =>
    cases p with
    | fields vals =>
      obtain ⟨hok, hw⟩ := h
      obtain ⟨bs, h1, h2⟩ := fields_exact realCustomLaw L vals hok hw
      refine ⟨bs, h1, by simp [Codec.read, Codec.norm, h2, Except.map], fun hs rest => ?_⟩
      obtain ⟨bs', e1, e2, _⟩ := fields_item realCustomLaw L vals hs hw
      have e1' : encodeFields realCustom L vals = .ok bs' := e1
      rw [h1] at e1'; cases e1'
      simp [Codec.read, Codec.norm, e2 rest, Except.map]
    | _ => exact absurd h (by simp [Codec.WF])
  | map f =>
    cases p with
    | map p =>
      obtain ⟨bs, hw, hr⟩ := map_rt_aux f p h
      refine ⟨bs, hw, ?_, fun _ rest => ?_⟩
      · have := hr []; simp only [List.append_nil] at this
        simp [Codec.read, Codec.norm, this, Except.map]
      · simp [Codec.read, Codec.norm, hr rest, Except.map]
    | _ => exact absurd h (by simp [Codec.WF])
  | pli =>
    cases p with
    | pli p =>
      obtain ⟨bs, hw, hr⟩ := pli_rt_aux p h
      refine ⟨bs, hw, ?_, fun _ rest => ?_⟩
      · have := hr []; simp only [List.append_nil] at this
        simp [Codec.read, Codec.norm, this, Except.map]
      · simp [Codec.read, Codec.norm, hr rest, Except.map]
    | _ => exact absurd h (by simp [Codec.WF])
  | spawn f =>
    cases p with
    | spawn p =>
      obtain ⟨bs, hw, hr⟩ := spawn_rt_aux f p h
      refine ⟨bs, hw, ?_, fun _ rest => ?_⟩
      · have := hr []; simp only [List.append_nil] at this
        simp [Codec.read, Codec.norm, this, Except.map]
      · simp [Codec.read, Codec.norm, hr rest, Except.map]
    | _ => exact absurd h (by simp [Codec.WF])
  | combat f =>
    cases p with
    | combat ev =>
      obtain ⟨bs, hw, hr⟩ := combat_rt_aux f ev h
      refine ⟨bs, hw, ?_, fun _ rest => ?_⟩
      · have := hr []; simp only [List.append_nil] at this
        simp [Codec.read, Codec.norm, this, Except.map]
      · simp [Codec.read, Codec.norm, hr rest, Except.map]
    | _ => exact absurd h (by simp [Codec.WF])
  | face f =>
    cases p with
    | face p =>
      obtain ⟨bs, hw, hr⟩ := face_rt_aux f p h
      refine ⟨bs, hw, ?_, fun _ rest => ?_⟩
      · have := hr []; simp only [List.append_nil] at this
        simp [Codec.read, Codec.norm, this, Except.map]
      · simp [Codec.read, Codec.norm, hr rest, Except.map]
    | _ => exact absurd h (by simp [Codec.WF])
  | plug =>
    cases p with
    | plug p =>
      obtain ⟨bs, hw, hr, hs⟩ := plugresp_rt_aux p h
      refine ⟨bs, hw, by simp [Codec.read, Codec.norm, hr, Except.map], fun hsd rest => ?_⟩
      have : p.effSuccessful = false := by simpa [Codec.selfDelimiting] using hsd
      simp [Codec.read, Codec.norm, hs this rest, Except.map]
    | _ => exact absurd h (by simp [Codec.WF])

instance (k : Codec) (p : PVal) : Decidable (k.WF p) := by
  cases k <;> cases p <;> unfold Codec.WF <;> infer_instance

instance (z : ZlibOps) (thr : Option Int) (p : RPacket) : Decidable (RegOK z thr p) := by
  unfold RegOK
  split
  · next i k _ _ => cases k.write p.val <;> exact inferInstance
  · exact inferInstance

/-! ## an in-domain sample value for every codec (non-vacuity) -/

def sampleUuid : Bytes := [0, 1, 2, 3, 4, 5, 6, 7, 8, 9, 10, 11, 12, 13, 14, 15]

def sampleMap : MapPkt :=
  ⟨3, 1, true, false, [⟨5, 12, -1, 1, some "hi"⟩], 2, 1, some (3, 4), some [0xaa, 0xbb]⟩

def samplePli : PliPkt :=
  ⟨.addPlayer, [.addPlayer sampleUuid "ab" [⟨"n", "v", some "s"⟩] 1 20 (some "hi")]⟩

/-- coordinates 1, 2, 3: as `Integer`s before protocol 100, as the IEEE patterns of the `Double`s
1.0, 2.0, 3.0 from there on; pitch 90° and yaw 180° as the `Angle` steps 64 and 128 -/
def sampleSpawn (f : SpawnFlags) : SpawnPkt :=
  if f.v100 then
    ⟨1, some sampleUuid, 5, 0x3FF0000000000000, 0x4000000000000000, 0x4008000000000000, 64, 128, 1,
     some 1, some 2, some 3⟩
  else ⟨1, some sampleUuid, 5, 1, 2, 3, 64, 128, 1, some 1, some 2, some 3⟩

/-- target (1.0, 2.0, 3.0) as IEEE patterns -/
def sampleFace : FacePkt :=
  ⟨some 0, some 0x3FF0000000000000, some 0x4000000000000000, some 0x4008000000000000, some 7, some 1⟩

/-- the sample packets of the generator's recording runs (`harness/gen/c05dispatch.py`,
`hand_samples`), and for a field list the sample values of `Lemmas/LayoutTables.lean` -/
def sampleOf : Codec → PVal
  | .fields L => .fields (L.map fun f => sampleVal f.2)
  | .map _ => .map sampleMap
  | .pli => .pli samplePli
  | .spawn f => .spawn (sampleSpawn f)
  | .combat _ => .combat (.dead 1 2 "x")
  | .face _ => .face sampleFace
  | .plug => .plug ⟨1, some true, some [0x61, 0x62]⟩

/-- the codec is one for which the model makes a claim: an admissible field list without NBT, or a
hand-written pair that is not the deprecated combat packet -/
def Codec.admissible : Codec → Bool
  | .fields L => L.ok
  | _ => true

theorem sample_WF (k : Codec) (hok : k.admissible = true) (hn : k.hasNbt = false)
    (hc : k ≠ .combat ⟨true⟩) : k.WF (sampleOf k) := by
  cases k with
  | fields L =>
    exact ⟨hok, sample_wellTypedFields L (by rw [← codec_hasNbt_fields]; exact hn)⟩
  | map f =>
    obtain ⟨a, b, c, d, e⟩ := f
    show MapWF _ sampleMap
    cases a <;> cases b <;> cases c <;> cases d <;> cases e <;> decide +kernel
  | pli => show PliWF samplePli; decide +kernel
  | spawn f =>
    obtain ⟨a, b, c⟩ := f
    show SpawnWF _ (sampleSpawn _)
    cases a <;> cases b <;> cases c <;> decide +kernel
  | combat f =>
    obtain ⟨a⟩ := f
    cases a with
    | true => exact absurd rfl hc
    | false => show CombatWF _ _; decide +kernel
  | face f =>
    obtain ⟨a⟩ := f
    show FaceWF _ sampleFace
    cases a <;> decide +kernel
  | plug => show PluginRespWF _; decide +kernel

/-! ## the comparisons of a context from the index of its version -/

theorem indices_self :
    (liveTables.indices.all fun p => index liveTables p.1 == some p.2) = true := by decide +kernel

theorem indices_keys : liveTables.indices.map (·.1) = liveTables.knownProtocols := by decide +kernel

theorem index_of_mem (p : Nat × Nat) (h : p ∈ liveTables.indices) :
    index liveTables p.1 = some p.2 := by
  have := List.all_eq_true.mp indices_self p h
  simpa using this

theorem known_has_index (v : Nat) (h : v ∈ liveTables.knownProtocols) :
    ∃ iv, index liveTables v = some iv := by
  rw [← indices_keys] at h
  obtain ⟨p, hp, rfl⟩ := List.mem_map.mp h
  exact ⟨p.2, index_of_mem p hp⟩

theorem indexE_of_index {v iv : Nat} (h : index liveTables v = some iv) :
    indexE liveTables v = .ok iv := by simp [indexE, h]

theorem cmpGe_of_index {v iv thr j : Nat} (hv : index liveTables v = some iv)
    (ht : index liveTables thr = some j) : cmpGe v thr = some (decide (j ≤ iv)) := by
  simp [cmpGe, laterEq, earlierEq_ok liveTables thr v j iv (indexE_of_index ht) (indexE_of_index hv),
    Except.toOption]

theorem cmpLt_of_index {v iv thr j : Nat} (hv : index liveTables v = some iv)
    (ht : index liveTables thr = some j) : cmpLt v thr = some (decide (iv < j)) := by
  simp [cmpLt, earlier_ok liveTables v thr iv j (indexE_of_index hv) (indexE_of_index ht),
    Except.toOption]

/-- evaluate the index of a threshold ONCE and continue with it -/
def withRank (thr : Nat) (k : Nat → Bool) : Bool :=
  match index liveTables thr with
  | some a => k a
  | none => false

theorem withRank_true {thr : Nat} {k : Nat → Bool} (h : withRank thr k = true) :
    ∃ a, index liveTables thr = some a ∧ k a = true := by
  unfold withRank at h
  split at h
  · next a ha => exact ⟨a, ha, h⟩
  · cases h

/-! ## the recorded comparisons (spy tables) -/

theorem map_eq_of_zip {α β γ : Type} (f : α → γ) (g : β → γ) : ∀ (l1 : List α) (l2 : List β),
    l1.length = l2.length → (∀ x y, (x, y) ∈ l1.zip l2 → f x = g y) → l1.map f = l2.map g
  | [], [], _, _ => rfl
  | [], _ :: _, hl, _ => by simp at hl
  | _ :: _, [], hl, _ => by simp at hl
  | a :: l1, b :: l2, hl, h => by
    simp only [List.map_cons]
    rw [h a b (by simp), map_eq_of_zip f g l1 l2 (by simpa using hl)
      (fun x y hm => h x y (by simp [hm]))]

/-- the log recorded for every known version is the expected one, `exp` being given the INDEX of the
version; walks `liveTables.indices` and the rows of the table in step -/
def spyCheck (tab : C05D.SpyTable) (exp : Nat → C05D.SpyLog) : Bool :=
  liveTables.indices.length == tab.rows.length &&
  (List.zipWith (fun (p x : Nat × Nat) => p.1 == x.1 && tab.variants[x.2]? == some (exp p.2))
    liveTables.indices tab.rows).all id

theorem spyCheck_sound (tab : C05D.SpyTable) (exp : Nat → C05D.SpyLog)
    (h : spyCheck tab exp = true) :
    tab.rows.map (·.1) = liveTables.knownProtocols ∧
    ∀ x ∈ tab.rows, ∃ iv, index liveTables x.1 = some iv ∧ tab.variants[x.2]? = some (exp iv) := by
  simp only [spyCheck, Bool.and_eq_true, beq_iff_eq] at h
  obtain ⟨hl, hz⟩ := h
  have hz' := zipWith_all _ _ _ hz
  refine ⟨?_, fun x hx => ?_⟩
  · rw [← indices_keys]
    exact (map_eq_of_zip (·.1) (·.1) _ _ hl (fun p x hm => by
      have := hz' p x hm
      simp only [Bool.and_eq_true, beq_iff_eq] at this
      exact this.1)).symm
  · obtain ⟨p, hp⟩ := mem_zip_of_mem_right _ _ hl x hx
    have := hz' p x hp
    simp only [Bool.and_eq_true, beq_iff_eq] at this
    refine ⟨p.2, ?_, this.2⟩
    rw [← this.1]
    exact index_of_mem p (zip_fst_mem hp).1

/-- what a spy table must satisfy: it has one row per known protocol version, in order, and the log of
every row is `log` of the flags the MODEL computes for that version -/
def SpyAgrees {F : Type} (tab : C05D.SpyTable) (flagsOf : Nat → Option F) (log : F → C05D.SpyLog) : Prop :=
  tab.rows.map (·.1) = liveTables.knownProtocols ∧
  ∀ x ∈ tab.rows, ∃ f, flagsOf x.1 = some f ∧ tab.variants[x.2]? = some (log f)

theorem spyAgrees_of_check {F : Type} (tab : C05D.SpyTable) (flagsOf : Nat → Option F)
    (log : F → C05D.SpyLog) (flagsR : Nat → F)
    (hR : ∀ v iv, index liveTables v = some iv → flagsOf v = some (flagsR iv))
    (h : spyCheck tab (fun iv => log (flagsR iv)) = true) : SpyAgrees tab flagsOf log := by
  obtain ⟨h1, h2⟩ := spyCheck_sound tab _ h
  refine ⟨h1, fun x hx => ?_⟩
  obtain ⟨iv, hi, hv⟩ := h2 x hx
  exact ⟨flagsR iv, hR x.1 iv hi, hv⟩

/-! ### MapPacket -/

def mapFlagsR (a b c d e iv : Nat) : MapFlags :=
  ⟨decide (a ≤ iv), decide (b ≤ iv), decide (c ≤ iv), decide (d ≤ iv), decide (e ≤ iv)⟩

theorem mapFlagsOf_of_index {v iv a b c d e : Nat} (hv : index liveTables v = some iv)
    (ha : index liveTables 107 = some a) (hb : index liveTables 452 = some b)
    (hc : index liveTables (PRE + 6) = some c) (hd : index liveTables 373 = some d)
    (he : index liveTables 364 = some e) : mapFlagsOf v = some (mapFlagsR a b c d e iv) := by
  simp [mapFlagsOf, mapFlagsR, cmpGe_of_index hv ha, cmpGe_of_index hv hb, cmpGe_of_index hv hc,
    cmpGe_of_index hv hd, cmpGe_of_index hv he]

def mapSpyOK : Bool :=
  withRank 107 fun a => withRank 452 fun b => withRank (PRE + 6) fun c => withRank 373 fun d =>
  withRank 364 fun e =>
    spyCheck C05D.mapSend (fun iv => mapSendLog (mapFlagsR a b c d e iv)) &&
    spyCheck C05D.mapRead (fun iv => mapReadLog (mapFlagsR a b c d e iv))

theorem mapSpyOK_true : mapSpyOK = true := by decide +kernel

theorem map_spy : SpyAgrees C05D.mapSend mapFlagsOf mapSendLog ∧
    SpyAgrees C05D.mapRead mapFlagsOf mapReadLog := by
  obtain ⟨a, ha, h⟩ := withRank_true mapSpyOK_true
  obtain ⟨b, hb, h⟩ := withRank_true h
  obtain ⟨c, hc, h⟩ := withRank_true h
  obtain ⟨d, hd, h⟩ := withRank_true h
  obtain ⟨e, he, h⟩ := withRank_true h
  rw [Bool.and_eq_true] at h
  have hR : ∀ v iv, index liveTables v = some iv → mapFlagsOf v = some (mapFlagsR a b c d e iv) :=
    fun v iv hv => mapFlagsOf_of_index hv ha hb hc hd he
  exact ⟨spyAgrees_of_check _ _ _ _ hR h.1, spyAgrees_of_check _ _ _ _ hR h.2⟩

/-! ### SpawnObjectPacket -/

def spawnFlagsR (a b c iv : Nat) : SpawnFlags := ⟨decide (a ≤ iv), decide (b ≤ iv), decide (c ≤ iv)⟩

theorem spawnFlagsOf_of_index {v iv a b c : Nat} (hv : index liveTables v = some iv)
    (ha : index liveTables 49 = some a) (hb : index liveTables 458 = some b)
    (hc : index liveTables 100 = some c) : spawnFlagsOf v = some (spawnFlagsR a b c iv) := by
  simp [spawnFlagsOf, spawnFlagsR, cmpGe_of_index hv ha, cmpGe_of_index hv hb, cmpGe_of_index hv hc]

def spawnSpyOK : Bool :=
  withRank 49 fun a => withRank 458 fun b => withRank 100 fun c =>
    spyCheck C05D.spawnSend (fun iv => spawnLog (spawnFlagsR a b c iv)) &&
    spyCheck C05D.spawnRead (fun iv => spawnLog (spawnFlagsR a b c iv))

theorem spawnSpyOK_true : spawnSpyOK = true := by decide +kernel

theorem spawn_spy : SpyAgrees C05D.spawnSend spawnFlagsOf spawnLog ∧
    SpyAgrees C05D.spawnRead spawnFlagsOf spawnLog := by
  obtain ⟨a, ha, h⟩ := withRank_true spawnSpyOK_true
  obtain ⟨b, hb, h⟩ := withRank_true h
  obtain ⟨c, hc, h⟩ := withRank_true h
  rw [Bool.and_eq_true] at h
  have hR : ∀ v iv, index liveTables v = some iv → spawnFlagsOf v = some (spawnFlagsR a b c iv) :=
    fun v iv hv => spawnFlagsOf_of_index hv ha hb hc
  exact ⟨spyAgrees_of_check _ _ _ _ hR h.1, spyAgrees_of_check _ _ _ _ hR h.2⟩

/-! ### FacePlayerPacket, CombatEventPacket -/

theorem faceFlagsOf_of_index {v iv a : Nat} (hv : index liveTables v = some iv)
    (ha : index liveTables 353 = some a) : faceFlagsOf v = some ⟨decide (a ≤ iv)⟩ := by
  simp [faceFlagsOf, cmpGe_of_index hv ha]

def faceSpyOK : Bool :=
  withRank 353 fun a =>
    spyCheck C05D.faceSend (fun iv => faceLog ⟨decide (a ≤ iv)⟩) &&
    spyCheck C05D.faceRead (fun iv => faceLog ⟨decide (a ≤ iv)⟩)

theorem faceSpyOK_true : faceSpyOK = true := by decide +kernel

theorem face_spy : SpyAgrees C05D.faceSend faceFlagsOf faceLog ∧
    SpyAgrees C05D.faceRead faceFlagsOf faceLog := by
  obtain ⟨a, ha, h⟩ := withRank_true faceSpyOK_true
  rw [Bool.and_eq_true] at h
  have hR : ∀ v iv, index liveTables v = some iv → faceFlagsOf v = some ⟨decide (a ≤ iv)⟩ :=
    fun v iv hv => faceFlagsOf_of_index hv ha
  exact ⟨spyAgrees_of_check _ _ _ (fun iv => ⟨decide (a ≤ iv)⟩) hR h.1,
    spyAgrees_of_check _ _ _ (fun iv => ⟨decide (a ≤ iv)⟩) hR h.2⟩

theorem combatFlagsOf_of_index {v iv a : Nat} (hv : index liveTables v = some iv)
    (ha : index liveTables (PRE + 15) = some a) : combatFlagsOf v = some ⟨decide (a ≤ iv)⟩ := by
  simp [combatFlagsOf, cmpGe_of_index hv ha]

def combatSpyOK : Bool :=
  withRank (PRE + 15) fun a =>
    spyCheck C05D.combatSend (fun iv => combatLog ⟨decide (a ≤ iv)⟩) &&
    spyCheck C05D.combatRead (fun iv => combatLog ⟨decide (a ≤ iv)⟩)

theorem combatSpyOK_true : combatSpyOK = true := by decide +kernel

theorem combat_spy : SpyAgrees C05D.combatSend combatFlagsOf combatLog ∧
    SpyAgrees C05D.combatRead combatFlagsOf combatLog := by
  obtain ⟨a, ha, h⟩ := withRank_true combatSpyOK_true
  rw [Bool.and_eq_true] at h
  have hR : ∀ v iv, index liveTables v = some iv → combatFlagsOf v = some ⟨decide (a ≤ iv)⟩ :=
    fun v iv hv => combatFlagsOf_of_index hv ha
  exact ⟨spyAgrees_of_check _ _ _ (fun iv => ⟨decide (a ≤ iv)⟩) hR h.1,
    spyAgrees_of_check _ _ _ (fun iv => ⟨decide (a ≤ iv)⟩) hR h.2⟩

/-! ### PlayerListItemPacket, PluginResponsePacket: no comparison at all -/

def noFlagsSpyOK : Bool :=
  spyCheck C05D.pliSend (fun _ => []) && spyCheck C05D.pliRead (fun _ => []) &&
  spyCheck C05D.plugSend (fun _ => []) && spyCheck C05D.plugRead (fun _ => [])

theorem noFlagsSpyOK_true : noFlagsSpyOK = true := by decide +kernel

/-- the flag-free codecs: "flags" of type `Unit` for every KNOWN version -/
def unitFlagsOf (v : Nat) : Option Unit := (index liveTables v).map fun _ => ()

theorem noFlags_spy :
    SpyAgrees C05D.pliSend unitFlagsOf (fun _ => []) ∧ SpyAgrees C05D.pliRead unitFlagsOf (fun _ => []) ∧
    SpyAgrees C05D.plugSend unitFlagsOf (fun _ => []) ∧ SpyAgrees C05D.plugRead unitFlagsOf (fun _ => []) := by
  have h := noFlagsSpyOK_true
  simp only [noFlagsSpyOK, Bool.and_eq_true] at h
  have hR : ∀ v iv, index liveTables v = some iv → unitFlagsOf v = some ((fun _ => ()) iv) :=
    fun v iv hv => by simp [unitFlagsOf, hv]
  exact ⟨spyAgrees_of_check _ _ _ (fun _ => ()) hR h.1.1.1, spyAgrees_of_check _ _ _ (fun _ => ()) hR h.1.1.2,
    spyAgrees_of_check _ _ _ (fun _ => ()) hR h.1.2, spyAgrees_of_check _ _ _ (fun _ => ()) hR h.2⟩

/-! ## the formats of the context-dependent custom types -/

def customFlagsR (a b c d iv : Nat) : CustomFlags :=
  ⟨decide (a ≤ iv), decide (b ≤ iv), decide (c ≤ iv), decide (iv < d)⟩

theorem customFlagsOf_of_index {v iv a b c d : Nat} (hv : index liveTables v = some iv)
    (ha : index liveTables 443 = some a) (hb : index liveTables 741 = some b)
    (hc : index liveTables 201 = some c) (hd : index liveTables 204 = some d) :
    customFlagsOf v = some (customFlagsR a b c d iv) := by
  simp [customFlagsOf, customFlagsR, cmpGe_of_index hv ha, cmpGe_of_index hv hb,
    cmpGe_of_index hv hc, cmpLt_of_index hv hd]

def customOK : Bool :=
  withRank 443 fun a => withRank 741 fun b => withRank 201 fun c => withRank 204 fun d =>
    liveTables.indices.length == C05D.customProbe.length &&
    (List.zipWith (fun (p : Nat × Nat) (x : Nat × List Nat) =>
        p.1 == x.1 && customFlagsOfRow x.2 == some (customFlagsR a b c d p.2))
      liveTables.indices C05D.customProbe).all id

theorem customOK_true : customOK = true := by decide +kernel

/-- `customProbe` has one row per known version, in order; in every row the format written and the
format accepted coincide for each of the three types, and they are the ones `customFlagsOf` computes
from the version order -/
theorem custom_probe :
    C05D.customProbe.map (·.1) = liveTables.knownProtocols ∧
    ∀ x ∈ C05D.customProbe, ∃ fl, customFlagsOf x.1 = some fl ∧ customFlagsOfRow x.2 = some fl := by
  obtain ⟨a, ha, h⟩ := withRank_true customOK_true
  obtain ⟨b, hb, h⟩ := withRank_true h
  obtain ⟨c, hc, h⟩ := withRank_true h
  obtain ⟨d, hd, h⟩ := withRank_true h
  simp only [Bool.and_eq_true, beq_iff_eq] at h
  obtain ⟨hl, hz⟩ := h
  have hz' := zipWith_all _ _ _ hz
  refine ⟨?_, fun x hx => ?_⟩
  · rw [← indices_keys]
    exact (map_eq_of_zip (·.1) (·.1) _ _ hl (fun p x hm => by
      have := hz' p x hm
      simp only [Bool.and_eq_true, beq_iff_eq] at this
      exact this.1)).symm
  · obtain ⟨p, hp⟩ := mem_zip_of_mem_right _ _ hl x hx
    have := hz' p x hp
    simp only [Bool.and_eq_true, beq_iff_eq] at this
    refine ⟨customFlagsR a b c d p.2, ?_, this.2⟩
    rw [← this.1]
    exact customFlagsOf_of_index (index_of_mem p (zip_fst_mem hp).1) ha hb hc hd

theorem customFlagsAt_known (v : Nat) (h : v ∈ liveTables.knownProtocols) :
    ∃ fl, customFlagsAt v = some fl ∧ customFlagsOf v = some fl := by
  obtain ⟨h1, h2⟩ := custom_probe
  rw [← h1] at h
  obtain ⟨x, hx, rfl⟩ := List.mem_map.mp h
  obtain ⟨y', hl, hm⟩ := lookup_of_mem C05D.customProbe x.1 x.2 hx
  obtain ⟨fl, hf1, hf2⟩ := h2 (x.1, y') hm
  exact ⟨fl, by simp [customFlagsAt, hl, hf2], hf1⟩

/-! ### filling the flags in does not change the shape of a layout -/

theorem instT_selfDelimiting (fl : CustomFlags) : ∀ t : WType,
    (instT fl t).selfDelimiting = t.selfDelimiting := by
  intro t
  induction t with
  | array l t ih => simpa [instT, WType.selfDelimiting] using ih
  | custom c => cases c <;> rfl
  | _ => rfl

theorem instT_lastOk (fl : CustomFlags) (t : WType) : (instT fl t).lastOk = t.lastOk := by
  cases t with
  | array l t => simp [instT, WType.lastOk, WType.selfDelimiting, instT_selfDelimiting]
  | custom c => cases c <;> rfl
  | _ => rfl

theorem instLayout_ok (fl : CustomFlags) : ∀ L : Layout, Layout.ok (instLayout fl L) = Layout.ok L
  | [] => rfl
  | (n, t) :: L => by
    have ih := instLayout_ok fl L
    have hi : instLayout fl ((n, t) :: L) = (n, instT fl t) :: instLayout fl L := rfl
    have he : (instLayout fl L).isEmpty = L.isEmpty := by cases L <;> rfl
    rw [hi, Layout.ok, Layout.ok, ih, he, instT_lastOk, instT_selfDelimiting]

theorem layoutAt_known (v : Nat) (h : v ∈ liveTables.knownProtocols) (L : Layout) :
    ∃ L', layoutAt v L = some L' ∧ Layout.ok L' = Layout.ok L := by
  unfold layoutAt
  split
  · obtain ⟨fl, hf, _⟩ := customFlagsAt_known v h
    exact ⟨instLayout fl L, by simp [hf], instLayout_ok fl L⟩
  · exact ⟨L, rfl, rfl⟩

/-! ## totality of the flags on known versions -/

def thresholds : List Nat :=
  [49, 100, 107, 201, 204, 353, 364, 373, 443, 452, 458, 741, PRE + 6, PRE + 15]

theorem thresholds_known : (thresholds.all fun t => (index liveTables t).isSome) = true := by
  decide +kernel

theorem thr_index (t : Nat) (h : t ∈ thresholds) : ∃ a, index liveTables t = some a := by
  have := List.all_eq_true.mp thresholds_known t h
  exact Option.isSome_iff_exists.mp this

theorem handCodec_known (cls : String) (v : Nat) (hc : cls ∈ handNames)
    (hv : v ∈ liveTables.knownProtocols) : ∃ k, handCodec cls v = some k ∧ k.admissible = true := by
  obtain ⟨iv, hi⟩ := known_has_index v hv
  simp only [handNames, List.mem_cons, List.not_mem_nil, or_false] at hc
  rcases hc with rfl | rfl | rfl | rfl | rfl | rfl
  · obtain ⟨a, ha⟩ := thr_index 107 (by decide)
    obtain ⟨b, hb⟩ := thr_index 452 (by decide)
    obtain ⟨c, hc⟩ := thr_index (PRE + 6) (by decide)
    obtain ⟨d, hd⟩ := thr_index 373 (by decide)
    obtain ⟨e, he⟩ := thr_index 364 (by decide)
    exact ⟨.map (mapFlagsR a b c d e iv), by simp [handCodec, mapFlagsOf_of_index hi ha hb hc hd he], rfl⟩
  · exact ⟨.pli, by simp [handCodec], rfl⟩
  · obtain ⟨a, ha⟩ := thr_index 49 (by decide)
    obtain ⟨b, hb⟩ := thr_index 458 (by decide)
    obtain ⟨c, hc⟩ := thr_index 100 (by decide)
    exact ⟨.spawn (spawnFlagsR a b c iv), by simp [handCodec, spawnFlagsOf_of_index hi ha hb hc], rfl⟩
  · obtain ⟨a, ha⟩ := thr_index (PRE + 15) (by decide)
    exact ⟨.combat ⟨decide (a ≤ iv)⟩, by simp [handCodec, combatFlagsOf_of_index hi ha], rfl⟩
  · obtain ⟨a, ha⟩ := thr_index 353 (by decide)
    exact ⟨.face ⟨decide (a ≤ iv)⟩, by simp [handCodec, faceFlagsOf_of_index hi ha], rfl⟩
  · exact ⟨.plug, by simp [handCodec], rfl⟩

end PyCraft.Dsp
