import PyCraft.Lemmas.C06Dispatch
import PyCraft.Generated.Ids
import PyCraft.Generated.Versions
import PyCraft.Generated.C06Dispatch
/-!
The executable checks of `Props/C06Dispatch.lean` over the regenerated tables
(`Generated/Ids.lean`, `Generated/Versions.lean`, `Generated/C06Dispatch.lean`), each discharged by
`decide +kernel`, i.e. re-checked against what the code says now.  All checks are linear in the number
of rows (the kernel needs ~50 µs per list step, so per-version lookups are avoided).
-/
namespace PyCraft.C06Dispatch
open PyCraft PyCraft.Gen

/-- the eight state/direction tables (4 states × 2 directions) -/
def tableNames : List String :=
  ["cbHandshake", "cbStatus", "cbLogin", "cbPlay", "sbHandshake", "sbStatus", "sbLogin", "sbPlay"]

/-- the rows flagged as supported: (version, registered classes with their ids) -/
def supportedRows (rows : List IdRow) : List (Nat × List IdEnt) :=
  (rows.filter fun r => r.2.1).map fun r => (r.1, r.2.2)

/-- row lookup by table name and version: (supported flag, entries) -/
def rowAt (n : String) (v : Nat) : Option (Bool × List IdEnt) := lookup2 idTables n v

/-- which table each reactor of connection.py is expected to decode with
(connection.py:663 PacketReactor, :736 LoginReactor, :801 PlayingReactor, :839 StatusReactor;
PlayingStatusReactor :871 inherits StatusReactor's) -/
def expectedBinding : List (String × String) :=
  [("PacketReactor", "cbHandshake"), ("LoginReactor", "cbLogin"), ("PlayingReactor", "cbPlay"),
   ("StatusReactor", "cbStatus"), ("PlayingStatusReactor", "cbStatus")]

/-- the dict the real reactor `R` built at version `v` (`some none` = its constructor raised) -/
def liveDict (R : String) (v : Nat) : Option (Option (List (Int × String))) :=
  lookup2 (reactorDicts.map fun p => (p.1, expandGroups p.2)) R v

def checkNames : Bool := idTables.map (·.1) == tableNames
def checkVersions : Bool := idTables.all fun t => t.2.map (·.1) == liveTables.knownProtocols
def checkFlags : Bool :=
  idTables.all fun t => (supportedRows t.2).map (·.1) == liveTables.supportedProtocols
def checkRows : Bool := idTables.all fun t => t.2.all fun r => !r.2.1 || rowOk t.1 r.1 r.2.2

def checkKnownReal : Bool :=
  knownCollisionSets.all fun k =>
    match rowAt k.1 k.2.1 with
    | some (true, row) => classesAtRow row k.2.2.1 == k.2.2.2 && decide (2 ≤ k.2.2.2.length)
    | _ => false

/-- one recorded live dict against the supported row of the same position -/
def dictRowOk (r : Nat × List IdEnt) (e : Nat × Option (List (Int × String))) : Bool :=
  r.1 == e.1 &&
    match resolveRow r.2, e.2 with
    | some ents, some d => dictOk d ents
    | _, _ => false

def checkReactors : Bool :=
  reactorDicts.all fun rd =>
    match reactorBinding.find? (fun b => b.1 == rd.1) with
    | none => false
    | some b =>
      match idTables.find? (fun t => t.1 == b.2) with
      | none => false
      | some t => zipAll dictRowOk (supportedRows t.2) (expandGroups rd.2)

def checkSelf : Bool :=
  (selfIds.map fun s => (s.1, expandGroups s.2)) == (idTables.map fun t => (t.1, supportedRows t.2))

theorem checkNames_ok : checkNames = true := by decide +kernel
theorem checkVersions_ok : checkVersions = true := by decide +kernel
theorem checkFlags_ok : checkFlags = true := by decide +kernel
theorem checkRows_ok : checkRows = true := by decide +kernel
theorem checkKnownReal_ok : checkKnownReal = true := by decide +kernel
theorem checkReactors_ok : checkReactors = true := by decide +kernel
theorem checkSelf_ok : checkSelf = true := by decide +kernel
theorem binding_ok : (reactorBinding == expectedBinding) = true := by decide +kernel
theorem reactorNames_ok :
    (reactorDicts.map (·.1) == reactorBinding.map (·.1)) = true := by decide +kernel

theorem mem_supportedRows {rows : List IdRow} {e : Nat × List IdEnt} :
    e ∈ supportedRows rows ↔ (e.1, true, e.2) ∈ rows := by
  simp only [supportedRows, List.mem_map, List.mem_filter]
  constructor
  · rintro ⟨r, ⟨hr, hs⟩, rfl⟩
    obtain ⟨v, s, l⟩ := r
    simp only at hs; subst hs; exact hr
  · intro h; exact ⟨(e.1, true, e.2), ⟨h, rfl⟩, rfl⟩

end PyCraft.C06Dispatch
