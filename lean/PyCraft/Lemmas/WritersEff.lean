import PyCraft.Lemmas.WritersBase
/-!
The abstract effect of one step: what an event does to (wire, queue, in-flight packet of the lock
holder, failed, issued, remaining program).  Proved once by case analysis of the model
(`step_eff`); the list-heavy invariants are then derived from this summary.
-/
namespace PyCraft.Writers

/-- Queue, failed list and issued list unchanged. -/
def SameQ (s s' : Sys) : Prop :=
  s'.queue = s.queue ∧ s'.failed = s.failed ∧ s'.issued = s.issued

/-- The in-flight views of a program counter are all empty. -/
def Clean (pc : Pc) : Prop := pc.infl = [] ∧ pc.popped = [] ∧ pc.half = []

/-- What one step labelled `ev` of thread `t` does to the abstract state. -/
def Eff (s s' : Sys) (t : Tid) : Ev → Prop
  | .app p => s'.wire = s.wire ∧ s'.queue = s.queue ++ [p] ∧ s'.failed = s.failed ∧
      s'.issued = s.issued ++ [p] ∧ cur s' = cur s ∧ s'.owner = s.owner ∧
      (s.thr t).todo = .queued p :: (s'.thr t).todo
  | .acq => s'.wire = s.wire ∧ s'.queue = s.queue ∧ s'.failed = s.failed ∧
      s.owner = none ∧ s'.owner = some t ∧ Clean (cur s) ∧ (cur s').popped = [] ∧
      (cur s').half = [] ∧
      (((cur s').infl = [] ∧ s'.issued = s.issued ∧
          ((s'.thr t).todo = (s.thr t).todo ∨
            ∃ imm, (s.thr t).todo = .disconnect imm :: (s'.thr t).todo)) ∨
       ∃ p, (cur s').infl = [p] ∧ s'.issued = s.issued ++ [p] ∧
          (s.thr t).todo = .forced p :: (s'.thr t).todo)
  | .rel => s'.wire = s.wire ∧ SameQ s s' ∧ s.owner = some t ∧ s'.owner = none ∧
      Clean (cur s) ∧ Clean (cur s') ∧ (s'.thr t).todo = (s.thr t).todo
  | .pop q => s'.wire = s.wire ∧ s.queue = q :: s'.queue ∧ s'.failed = s.failed ∧
      s'.issued = s.issued ∧ s.owner = some t ∧ s'.owner = some t ∧ Clean (cur s) ∧
      (cur s').infl = [q] ∧ (cur s').popped = [q] ∧ (cur s').half = [] ∧
      (s'.thr t).todo = (s.thr t).todo
  | .snd p c => s'.wire = s.wire ++ [(p, c)] ∧ SameQ s s' ∧ s.owner = some t ∧ s'.owner = some t ∧
      (cur s).infl = [p] ∧ (s'.thr t).todo = (s.thr t).todo ∧
      (c = 0 → s.sockOpen = true ∧ (cur s).half = [] ∧ (cur s').half = [(p, 0)] ∧
        (cur s').infl = [p] ∧ (cur s').popped = (cur s).popped) ∧
      (c = 1 → (cur s).half = [(p, 0)] ∧ Clean (cur s') ∧
        ((cur s).popped = [] ∨ (cur s).popped = [p]))
  | .fail => ∃ p, s'.wire = s.wire ∧ s'.queue = s.queue ∧ s'.failed = s.failed ++ [p] ∧
      s'.issued = s.issued ∧ s.owner = some t ∧ s'.owner = some t ∧ s.sockOpen = false ∧
      (cur s).infl = [p] ∧ (cur s).half = [] ∧ Clean (cur s') ∧
      ((cur s).popped = [] ∨ (cur s).popped = [p]) ∧ (s'.thr t).todo = (s.thr t).todo
  | _ => s'.wire = s.wire ∧ SameQ s s' ∧ s'.owner = s.owner ∧ (cur s').infl = (cur s).infl ∧
      (cur s').popped = (cur s).popped ∧ (cur s').half = (cur s).half ∧
      (s'.thr t).todo = (s.thr t).todo

/-- Every step appends exactly one event, touches only the stepping thread, never re-opens the
socket, and has the abstract effect `Eff`. -/
theorem step_eff (cfg : Cfg) (s s' : Sys) (t : Tid) (hl : LockInv s)
    (hs : step cfg s t = some s') :
    ∃ ev, s'.log = s.log ++ [(t, ev)] ∧ Eff s s' t ev ∧ (∀ u, u ≠ t → s'.thr u = s.thr u) ∧
      (s.sockOpen = false → s'.sockOpen = false) := by
  have h1t := hl.crit_owner t
  have hd := hl.depth_ok
  have hc1 := @cur_of_owner s t
  have hc0 := @cur_of_free s
  step_cases hs hpc htd
  all_goals refine ⟨_, rfl, ?_, ?_, ?_⟩
  all_goals first
   | (intro u hu; simp only [upd, if_neg hu]; done)
   | (intro hso; first | exact hso | rfl)
   | skip
  all_goals simp only [Eff, SameQ, Clean]
  all_goals
    grind [cur, upd, Pc.crit, UPc.crit, NPc.crit, Pc.infl, Pc.popped, Pc.half, canAcq,
      ownerAfterRel]

/-! ### The accounting list stays duplicate-free -/

theorem nd4_queue (a b c d : List Pkt) (p : Pkt) (h : (a ++ b ++ c ++ d).Nodup)
    (hp : ¬ (p ∈ a ∨ p ∈ b ∨ p ∈ c ∨ p ∈ d)) : (a ++ b ++ (c ++ [p]) ++ d).Nodup := by
  simp only [List.nodup_append, List.mem_append] at h ⊢
  grind

theorem nd4_infl (a c d : List Pkt) (p : Pkt) (h : (a ++ [] ++ c ++ d).Nodup)
    (hp : ¬ (p ∈ a ∨ p ∈ ([] : List Pkt) ∨ p ∈ c ∨ p ∈ d)) : (a ++ [p] ++ c ++ d).Nodup := by
  simp only [List.nodup_append, List.mem_append] at h ⊢
  grind

theorem nd4_pop (a c d : List Pkt) (q : Pkt) (h : (a ++ [] ++ (q :: c) ++ d).Nodup) :
    (a ++ [q] ++ c ++ d).Nodup := by
  simpa using h

theorem nd4_sent (a c d : List Pkt) (p : Pkt) (h : (a ++ [p] ++ c ++ d).Nodup) :
    ((a ++ [p]) ++ [] ++ c ++ d).Nodup := by
  simpa using h

theorem nd4_fail (a c d : List Pkt) (p : Pkt) (h : (a ++ [p] ++ c ++ d).Nodup) :
    (a ++ [] ++ c ++ (d ++ [p])).Nodup := by
  simp only [List.nodup_append, List.mem_append] at h ⊢
  grind

theorem nodup_of_eff (s s' : Sys) (t : Tid) (ev : Ev)
    (hm : ∀ p, p ∈ s.issued ↔ p ∈ sentPkts s.wire ∨ p ∈ (cur s).infl ∨ p ∈ s.queue ∨ p ∈ s.failed)
    (hn : (sentPkts s.wire ++ (cur s).infl ++ s.queue ++ s.failed).Nodup)
    (hf : ∀ p ∈ pktsOf (s.thr t).todo, p ∉ s.issued)
    (he : Eff s s' t ev) :
    (sentPkts s'.wire ++ (cur s').infl ++ s'.queue ++ s'.failed).Nodup := by
  cases ev <;> simp only [Eff, SameQ, Clean] at he
  case app p =>
    obtain ⟨h1, h2, h3, -, h5, -, h7⟩ := he
    rw [h1, h2, h3, h5]
    exact nd4_queue _ _ _ _ p hn (by rw [← hm]; exact hf p (by rw [h7]; simp [pktsOf, Op.pkts]))
  case acq =>
    obtain ⟨h1, h2, h3, -, -, ⟨hc, -, -⟩, -, -, h8⟩ := he
    rw [h1, h2, h3]; rw [hc] at hn
    rcases h8 with ⟨h8, -, -⟩ | ⟨p, h8, -, h9⟩
    · rw [h8]; exact hn
    · rw [h8]
      exact nd4_infl _ _ _ p hn (by rw [← hc, ← hm]; exact hf p (by rw [h9]; simp [pktsOf, Op.pkts]))
  case rel =>
    obtain ⟨h1, ⟨h2, h3, -⟩, -, -, ⟨hc, -, -⟩, ⟨hc', -, -⟩, -⟩ := he
    rw [h1, h2, h3, hc']; rw [hc] at hn; exact hn
  case pop q =>
    obtain ⟨h1, h2, h3, -, -, -, ⟨hc, -, -⟩, hc', -, -, -⟩ := he
    rw [h1, h3, hc']; rw [hc, h2] at hn; exact nd4_pop _ _ _ q hn
  case snd p c =>
    obtain ⟨h1, ⟨h2, h3, -⟩, -, -, hc, -, h0, h1'⟩ := he
    rw [h1, h2, h3]; rw [hc] at hn
    match c with
    | 0 => rw [sentPkts_snoc0, (h0 rfl).2.2.2.1]; exact hn
    | 1 => rw [sentPkts_snoc1, (h1' rfl).2.1.1]; exact nd4_sent _ _ _ p hn
  case fail =>
    obtain ⟨p, h1, h2, h3, -, -, -, -, hc, -, ⟨hc', -, -⟩, -, -⟩ := he
    rw [h1, h2, h3, hc']; rw [hc] at hn; exact nd4_fail _ _ _ p hn
  all_goals
    obtain ⟨h1, ⟨h2, h3, -⟩, -, hc, -, -, -⟩ := he
    rw [h1, h2, h3, hc]; exact hn

end PyCraft.Writers
